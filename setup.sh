#!/bin/bash
# Run once after a fresh restore, offline: builds the Lean library, proofs and driver, and the Go harness.
set -e
cd "$(dirname "$0")"   # /verif, or a snapshot of it
export GOFLAGS=-mod=mod GOPROXY=off GOSUMDB=off GOTOOLCHAIN=local
mkdir -p .cache/bin evidence replays
[ -f tools/gen_facts.py ] && python3 tools/gen_facts.py /repo lean/Netpol/Gen || true
(cd lean && lake build)
./build_harness.sh
echo setup done
