//go:build verif

package eval

// Observation hooks for the correspondence harness (only built with -tags verif through the overlay).

import (
	lru "github.com/hashicorp/golang-lru/v2"

	"github.com/np-guard/netpol-analyzer/pkg/netpol/internal/common"
)

// VerifSetCacheSize replaces the verdict cache by an empty one of the given capacity (no range check).
func VerifSetCacheSize(pe *PolicyEngine, n int) {
	c, _ := lru.New[string, bool](n)
	pe.cache.cache = c
	pe.cache.debug = false
}

// VerifCacheKeys returns the cache keys, oldest first.
func VerifCacheKeys(pe *PolicyEngine) []string {
	if pe.cache.cache == nil {
		return nil
	}
	return pe.cache.cache.Keys()
}

// VerifCachePeek returns a cached value without touching recency.
func VerifCachePeek(pe *PolicyEngine, k string) (bool, bool) {
	return pe.cache.cache.Peek(k)
}

// VerifSortedANPNames returns the admin policies in the order they are applied.
func VerifSortedANPNames(pe *PolicyEngine) []string {
	var r []string
	for _, a := range pe.sortedAdminNetpols {
		r = append(r, a.Name)
	}
	return r
}

// VerifSortANPs runs sortAdminNetpolsByPriority.
func VerifSortANPs(pe *PolicyEngine) error { return pe.sortAdminNetpolsByPriority() }

// VerifAllowedConns is allAllowedConnections (connection-set path between two pods / IPs given as strings).
func VerifAllowedConns(pe *PolicyEngine, src, dst string) (*common.ConnectionSet, error) {
	return pe.allAllowedConnections(src, dst)
}

// VerifXgressConns is allAllowedXgressConnections for peers given as strings: the connections the policies
// governing one end allow in one direction (the other direction is not intersected).
func VerifXgressConns(pe *PolicyEngine, src, dst string, isIngress bool) (*common.ConnectionSet, error) {
	s, err := pe.getPeer(src)
	if err != nil {
		return nil, err
	}
	d, err := pe.getPeer(dst)
	if err != nil {
		return nil, err
	}
	return pe.allAllowedXgressConnections(s, d, isIngress)
}
