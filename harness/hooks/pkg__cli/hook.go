//go:build verif

package cli

// In-process execution of a k8snetpolicy command line with captured stdout (correspondence harness only).

import (
	"bytes"
	"io"
	"os"
	"sync"
)

var verifMu sync.Mutex

// VerifRun executes the command line in-process; returns what was printed on stdout and the error
// Execute() would turn into exit status 1.
func VerifRun(args []string) (stdout string, err error) {
	verifMu.Lock()
	defer verifMu.Unlock()
	old := os.Stdout
	r, w, perr := os.Pipe()
	if perr != nil {
		return "", perr
	}
	os.Stdout = w
	var buf bytes.Buffer
	done := make(chan struct{})
	go func() {
		_, _ = io.Copy(&buf, r)
		close(done)
	}()
	func() {
		defer func() {
			os.Stdout = old
			_ = w.Close()
		}()
		cmd := newCommandRoot()
		cmd.SetArgs(args)
		cmd.SetErr(io.Discard)
		cmd.SetOut(io.Discard)
		err = cmd.Execute()
	}()
	<-done
	_ = r.Close()
	return buf.String(), err
}
