package main

// C11: operation sequences over a pool of connection sets.
//   - generator (one PRNG state)
//   - executor against the real common.ConnectionSet, printing the same observation as the Lean driver
//   - oracle P: a bit-set reference per pool member, maintained independently of the code under test

import (
	"fmt"
	"reflect"
	"sort"
	"strconv"
	"strings"

	v1 "k8s.io/api/core/v1"
	"k8s.io/apimachinery/pkg/util/intstr"

	"github.com/np-guard/netpol-analyzer/pkg/netpol/internal/common"
)

const poolSize = 4

var algProtos = []string{"TCP", "UDP", "SCTP"}
var algBoundary = []int{1, 2, 79, 80, 81, 443, 1023, 1024, 8080, 65534, 65535}
var algNames = []string{"http", "dns", "x"}
var probePorts = []int{0, 1, 2, 79, 80, 81, 443, 1023, 1024, 65534, 65535, 65536}

func genPort(r *Rng) int {
	if r.P(70) {
		return Pick(r, algBoundary)
	}
	return r.Range(1, 65535)
}

func genPortSetSx(r *Rng) *Sx {
	base := "none"
	if r.P(18) {
		base = "all"
	}
	ps := Ls(At("ps"), At(base))
	n := r.Intn(4)
	if base == "none" && n == 0 && r.P(85) {
		n = 1
	}
	for i := 0; i < n; i++ {
		switch k := r.Intn(100); {
		case k < 40:
			a, b := genPort(r), genPort(r)
			if a > b && r.P(90) {
				a, b = b, a
			}
			ps.Add(Ls(At("r"), Ai(int64(a)), Ai(int64(b))))
		case k < 60:
			ps.Add(Ls(At("p"), Ai(int64(genPort(r)))))
		case k < 82:
			ps.Add(Ls(At("n"), At(Pick(r, algNames))))
		case k < 92:
			ps.Add(Ls(At("rm"), Ai(int64(genPort(r)))))
		default:
			ps.Add(Ls(At("rmn"), At(Pick(r, algNames))))
		}
	}
	return ps
}

// genAlgCase generates (alg ID OP...).
func genAlgCase(r *Rng, id int) *Sx {
	c := Ls(At("alg"), Ai(int64(id)))
	n := r.Range(1, 30)
	// a third of the cases start from a few prepared shapes so that binary ops meet non-trivial operands
	if r.P(35) {
		c.Add(Ls(At("mk"), Ai(0), At("all")))
	}
	if r.P(25) {
		for _, p := range algProtos {
			c.Add(Ls(At("addconn"), Ai(1), At(p), Ls(At("ps"), At("all"))))
		}
	}
	for i := 0; i < n; i++ {
		a, b := int64(r.Intn(poolSize)), int64(r.Intn(poolSize))
		if a == b && r.P(85) {
			b = (b + 1) % poolSize
		}
		switch k := r.Intn(100); {
		case k < 6:
			c.Add(Ls(At("mk"), Ai(a), At(Pick(r, []string{"all", "none", "none"}))))
		case k < 9:
			c.Add(Ls(At("alltcp"), Ai(a)))
		case k < 45:
			c.Add(Ls(At("addconn"), Ai(a), At(Pick(r, algProtos)), genPortSetSx(r)))
		case k < 60:
			c.Add(Ls(At("union"), Ai(a), Ai(b)))
		case k < 73:
			c.Add(Ls(At("inter"), Ai(a), Ai(b)))
		case k < 90:
			c.Add(Ls(At("sub"), Ai(a), Ai(b)))
		case k < 95:
			c.Add(Ls(At("copy"), Ai(a), Ai(b)))
		default:
			num := int64(genPort(r))
			if r.P(25) {
				num = -1
			}
			c.Add(Ls(At("replace"), Ai(a), At(Pick(r, algProtos)), At(Pick(r, algNames)), Ai(num)))
		}
	}
	return c
}

// ---------------------------------------------------------------------------------------------
// observation of the real objects (same format as Netpol.AlgDriver.observe)

func b01(b bool) string {
	if b {
		return "1"
	}
	return "0"
}

func sortedKeys(m map[string]bool) []string {
	ks := make([]string, 0, len(m))
	for k := range m {
		ks = append(ks, k)
	}
	sort.Strings(ks)
	return ks
}

func dumpPS(ps *common.PortSet) *Sx {
	iv := Ls(At("iv"))
	for _, i := range ps.Ports.Intervals() {
		iv.Add(Ls(Ai(i.Start()), Ai(i.End())))
	}
	n := Ls(At("n"))
	for _, k := range sortedKeys(ps.NamedPorts) {
		n.Add(At(k))
	}
	x := Ls(At("x"))
	for _, k := range sortedKeys(ps.ExcludedNamedPorts) {
		x.Add(At(k))
	}
	return Ls(At("ps"), iv, n, x)
}

func us(s string) string { return strings.ReplaceAll(s, " ", "_") }

func dumpCS(c *common.ConnectionSet) *Sx {
	r := Ls(At("cs"), At(b01(c.AllowAll)), At(b01(c.IsEmpty())), At(us(c.String())))
	for _, p := range []string{"SCTP", "TCP", "UDP"} {
		if ps, ok := c.AllowedProtocols[v1.Protocol(p)]; ok {
			r.Add(Ls(At(p), dumpPS(ps)))
		}
	}
	r.Add(At(us(common.ConnStrFromConnProperties(c.IsAllConnections(), c.ProtocolsAndPortsMap()))))
	return r
}

func observePool(pool []*common.ConnectionSet) *Sx {
	r := Ls(At("st"))
	for _, c := range pool {
		r.Add(dumpCS(c))
	}
	var eq, sub, cont strings.Builder
	for _, a := range pool {
		for _, b := range pool {
			eq.WriteString(b01(a.Equal(b)))
			sub.WriteString(b01(a.ContainedIn(b)))
		}
	}
	for _, a := range pool {
		for _, pr := range algProtos {
			for _, p := range probePorts {
				cont.WriteString(b01(a.Contains(strconv.Itoa(p), pr)))
			}
		}
	}
	r.Add(At(eq.String()), At(sub.String()), At(cont.String()))
	return r
}

// ---------------------------------------------------------------------------------------------
// reference: 3 x 65536 bits (numeric points), independent of the code under test

const refWords = 65536 / 64

type refSet struct {
	bits [3][refWords]uint64
}

func protoIdx(p string) int {
	switch p {
	case "TCP":
		return 0
	case "UDP":
		return 1
	}
	return 2
}

func (r *refSet) setRange(pi int, lo, hi int64, val bool) {
	if lo < 1 {
		lo = 1
	}
	if hi > 65535 {
		hi = 65535
	}
	for p := lo; p <= hi; {
		if p%64 == 0 && p+63 <= hi {
			if val {
				r.bits[pi][p/64] = ^uint64(0)
			} else {
				r.bits[pi][p/64] = 0
			}
			p += 64
			continue
		}
		if val {
			r.bits[pi][p/64] |= 1 << uint(p%64)
		} else {
			r.bits[pi][p/64] &^= 1 << uint(p%64)
		}
		p++
	}
}

func (r *refSet) has(pi int, p int64) bool {
	if p < 1 || p > 65535 {
		return false
	}
	return r.bits[pi][p/64]&(1<<uint(p%64)) != 0
}

var theFull = func() *refSet {
	r := &refSet{}
	for pi := 0; pi < 3; pi++ {
		r.setRange(pi, 1, 65535, true)
	}
	return r
}()

func refFull() *refSet { c := *theFull; return &c }

func (r *refSet) isFull() bool  { return *r == *theFull }
func (r *refSet) isEmpty() bool { return *r == refSet{} }
func (r *refSet) protoFull(pi int) bool {
	return r.bits[pi] == theFull.bits[pi]
}
func (r *refSet) subsetOf(o *refSet) bool {
	for pi := 0; pi < 3; pi++ {
		for w := 0; w < refWords; w++ {
			if r.bits[pi][w]&^o.bits[pi][w] != 0 {
				return false
			}
		}
	}
	return true
}

// refOfReal computes the numeric denotation of a real connection set from its exported state.
func refOfReal(c *common.ConnectionSet) *refSet {
	if c.AllowAll {
		return refFull()
	}
	r := &refSet{}
	for pr, ps := range c.AllowedProtocols {
		for _, iv := range ps.Ports.Intervals() {
			r.setRange(protoIdx(string(pr)), iv.Start(), iv.End(), true)
		}
	}
	return r
}

func namesOf(c *common.ConnectionSet) [3][]string {
	var r [3][]string
	for pr, ps := range c.AllowedProtocols {
		r[protoIdx(string(pr))] = sortedKeys(ps.NamedPorts)
	}
	return r
}

func exclOf(c *common.ConnectionSet) [3][]string {
	var r [3][]string
	for pr, ps := range c.AllowedProtocols {
		r[protoIdx(string(pr))] = sortedKeys(ps.ExcludedNamedPorts)
	}
	return r
}

func noNames(n [3][]string) bool { return len(n[0])+len(n[1])+len(n[2]) == 0 }

// refPortSet evaluates a (ps ...) description on the reference (numeric part) and returns named ports.
func refPortSet(ps *Sx) (bits [refWords]uint64, named map[string]bool) {
	var r refSet
	named = map[string]bool{}
	if ps.L[1].A == "all" {
		r.setRange(0, 1, 65535, true)
	}
	for _, it := range ps.L[2:] {
		switch it.Head() {
		case "r":
			lo, _ := strconv.ParseInt(it.L[1].A, 10, 64)
			hi, _ := strconv.ParseInt(it.L[2].A, 10, 64)
			r.setRange(0, lo, hi, true)
		case "p":
			n, _ := strconv.ParseInt(it.L[1].A, 10, 64)
			r.setRange(0, n, n, true)
		case "rm":
			n, _ := strconv.ParseInt(it.L[1].A, 10, 64)
			r.setRange(0, n, n, false)
		case "n":
			named[it.L[1].A] = true
		case "rmn":
			delete(named, it.L[1].A)
		}
	}
	return r.bits[0], named
}

func buildRealPortSet(ps *Sx) *common.PortSet {
	res := common.MakePortSet(ps.L[1].A == "all")
	for _, it := range ps.L[2:] {
		switch it.Head() {
		case "r":
			lo, _ := strconv.ParseInt(it.L[1].A, 10, 64)
			hi, _ := strconv.ParseInt(it.L[2].A, 10, 64)
			res.AddPortRange(lo, hi)
		case "p":
			n, _ := strconv.ParseInt(it.L[1].A, 10, 32)
			res.AddPort(intstr.FromInt32(int32(n)))
		case "rm":
			n, _ := strconv.ParseInt(it.L[1].A, 10, 32)
			res.RemovePort(intstr.FromInt32(int32(n)))
		case "n":
			res.AddPort(intstr.FromString(it.L[1].A))
		case "rmn":
			res.RemovePort(intstr.FromString(it.L[1].A))
		}
	}
	return res
}

// pointer identities of everything reachable from a connection set
func ptrsOf(c *common.ConnectionSet) []uintptr {
	var r []uintptr
	r = append(r, reflect.ValueOf(c.AllowedProtocols).Pointer())
	for _, ps := range c.AllowedProtocols {
		r = append(r, reflect.ValueOf(ps).Pointer(), reflect.ValueOf(ps.Ports).Pointer(),
			reflect.ValueOf(ps.NamedPorts).Pointer(), reflect.ValueOf(ps.ExcludedNamedPorts).Pointer())
	}
	return r
}

func idx(s *Sx) int { n, _ := strconv.Atoi(s.A); return n }

type algStats struct {
	ops              map[string]int
	nontrivial       map[string]bool
	binaryBothNE     int
	fullSeen         int
	namedSeen        int
	panics           int
	outOfDomainSteps int
}

// execAlgCase runs one case on the real code. Returns the impl output line and oracle violations.
func execAlgCase(c *Sx, st *algStats) (out *Sx, viols []Violation) {
	args := c.Args()
	id := args[0]
	out = Ls(At("alg"), id)
	pool := make([]*common.ConnectionSet, poolSize)
	refs := make([]*refSet, poolSize)
	for i := range pool {
		pool[i] = common.MakeConnectionSet(false)
		refs[i] = &refSet{}
	}
	reported := map[string]bool{}
	report := func(kind, detail string, opIdx int) {
		if reported[kind] {
			return // one report per kind and case; the case replays all of them
		}
		reported[kind] = true
		viols = append(viols, Violation{Prop: "C11", Kind: kind, Detail: detail, Case: c.String(), Step: opIdx})
	}
	inDomain := true
	for opIdx, op := range args[1:] {
		before := make([]string, poolSize)
		for i := range pool {
			before[i] = dumpCS(pool[i]).String()
		}
		var namesI, namesJ [3][]string
		target := idx(op.L[1])
		other := -1
		panicked := false
		var exBefore [3][]string
		func() {
			defer func() {
				if e := recover(); e != nil {
					panicked = true
				}
			}()
			switch op.Head() {
			case "mk":
				pool[target] = common.MakeConnectionSet(op.L[2].A == "all")
				if op.L[2].A == "all" {
					refs[target] = refFull()
				} else {
					refs[target] = &refSet{}
				}
			case "alltcp":
				pool[target] = common.GetAllTCPConnections()
				refs[target] = &refSet{}
				refs[target].setRange(0, 1, 65535, true)
			case "addconn":
				ps := buildRealPortSet(op.L[3])
				psBefore := dumpPS(ps).String()
				pool[target].AddConnection(v1.Protocol(op.L[2].A), ps)
				if dumpPS(ps).String() != psBefore {
					report("operand-modified", "AddConnection modified its PortSet argument", opIdx)
				}
				bits, _ := refPortSet(op.L[3])
				nr := *refs[target]
				pi := protoIdx(op.L[2].A)
				for w := range bits {
					nr.bits[pi][w] |= bits[w]
				}
				refs[target] = &nr
				// the argument must not be aliased by the result
				for _, p := range ptrsOf(pool[target]) {
					if p == reflect.ValueOf(ps).Pointer() || p == reflect.ValueOf(ps.Ports).Pointer() ||
						p == reflect.ValueOf(ps.NamedPorts).Pointer() {
						report("aliasing", "AddConnection result aliases its PortSet argument", opIdx)
					}
				}
			case "union", "inter", "sub":
				other = idx(op.L[2])
				namesI, namesJ = namesOf(pool[target]), namesOf(pool[other])
				if !refs[target].isEmpty() && !refs[other].isEmpty() {
					st.binaryBothNE++
				}
				nr := *refs[target]
				for pi := 0; pi < 3; pi++ {
					for w := 0; w < refWords; w++ {
						switch op.Head() {
						case "union":
							nr.bits[pi][w] |= refs[other].bits[pi][w]
						case "inter":
							nr.bits[pi][w] &= refs[other].bits[pi][w]
						case "sub":
							nr.bits[pi][w] &^= refs[other].bits[pi][w]
						}
					}
				}
				switch op.Head() {
				case "union":
					pool[target].Union(pool[other])
				case "inter":
					pool[target].Intersection(pool[other])
				case "sub":
					pool[target].Subtract(pool[other])
				}
				refs[target] = &nr
			case "copy":
				other = idx(op.L[2])
				pool[target] = pool[other].Copy()
				cp := *refs[other]
				refs[target] = &cp
			case "replace":
				n, _ := strconv.ParseInt(op.L[4].A, 10, 32)
				exBefore = exclOf(pool[target])
				pool[target].ReplaceNamedPortWithMatchingPortNum(v1.Protocol(op.L[2].A), op.L[3].A, int32(n))
				if n != -1 {
					nr := *refs[target]
					nr.setRange(protoIdx(op.L[2].A), n, n, true)
					refs[target] = &nr
				}
			}
		}()
		st.ops[op.Head()]++
		if panicked {
			st.panics++
			out.Add(At("panic"))
			// ReplaceNamedPort on an absent protocol entry: the engine only calls it for protocols taken from
			// GetNamedPorts of the same set; not an exported-API claim of C11. Stop the case here (model does too).
			return out, viols
		}
		out.Add(observePool(pool))

		// ---------------- oracle P ----------------
		// Domain of the claim (C11): sets built by MakeConnectionSet / GetAllTCPConnections / AddConnection from port
		// sets built by additions only; then any sequence of Union, Intersection, Subtract, Copy and the predicates.
		// Steps outside it (ReplaceNamedPort…, port sets built with RemovePort) are still compared with the model (K-diff) but
		// the oracle stops judging the case from there on.
		switch op.Head() {
		case "replace":
			// the engine converts a name only when it resolves to a number (pod.go); the -1 form (only drops the name, may
			// leave an empty protocol entry) is compared with the model but not judged
			if op.L[4].A == "-1" {
				inDomain = false
			}
		case "addconn":
			if strings.Contains(op.L[3].String(), "(rm") {
				inDomain = false
			}
		}
		if !inDomain {
			st.outOfDomainSteps++
			continue
		}
		// 1. operands other than the updated one are unchanged
		for i := range pool {
			if i != target && dumpCS(pool[i]).String() != before[i] {
				report("operand-modified", fmt.Sprintf("op %s changed pool[%d]: %s -> %s", op.String(), i, before[i], dumpCS(pool[i]).String()), opIdx)
			}
		}
		// 2. no result cell is shared between two pool members
		seen := map[uintptr]int{}
		for i := range pool {
			for _, p := range ptrsOf(pool[i]) {
				if j, ok := seen[p]; ok && j != i {
					report("aliasing", fmt.Sprintf("after %s pool[%d] and pool[%d] share a cell", op.String(), j, i), opIdx)
				}
				seen[p] = i
			}
		}
		// 3. numeric denotation of the result
		var rr [poolSize]*refSet
		var nn, xx [poolSize][3][]string
		var dd [poolSize]string
		for i, a := range pool {
			rr[i], nn[i], xx[i], dd[i] = refOfReal(a), namesOf(a), exclOf(a), dumpCS(a).String()
		}
		if *rr[target] != *refs[target] {
			report("denotation", fmt.Sprintf("after %s pool[%d]=%s does not denote the expected set (operands before: %s ; %s)", op.String(), target, dd[target], before[target], func() string {
				if other >= 0 {
					return before[other]
				}
				return "-"
			}()), opIdx)
			// resynchronise so that one defect is reported once per case
			refs[target] = rr[target]
		}
		// 3b. converting a name to its number drops the name and excludes nothing
		if op.Head() == "replace" {
			nm := op.L[3].A
			if !reflect.DeepEqual(xx[target], exBefore) {
				report("replace-excludes-name", fmt.Sprintf("after %s pool[%d]=%s excludes %v, before the step %v", op.String(), target, dd[target], xx[target], exBefore), opIdx)
			}
			for _, k := range nn[target][protoIdx(op.L[2].A)] {
				if k == nm {
					report("replace-keeps-name", fmt.Sprintf("after %s the name is still held by pool[%d]=%s", op.String(), target, dd[target]), opIdx)
				}
			}
		}
		// 4. named ports under union / copy
		if op.Head() == "union" && !pool[target].AllowAll {
			after := nn[target]
			for pi := 0; pi < 3; pi++ {
				want := map[string]bool{}
				for _, k := range namesI[pi] {
					want[k] = true
				}
				for _, k := range namesJ[pi] {
					want[k] = true
				}
				if !reflect.DeepEqual(sortedKeys(want), append([]string{}, after[pi]...)) && !(len(want) == 0 && len(after[pi]) == 0) {
					report("names-union", fmt.Sprintf("after %s named ports of %s are %v, want %v", op.String(), algProtos[pi], after[pi], sortedKeys(want)), opIdx)
				}
			}
		}
		if op.Head() == "copy" && target != other {
			if dd[target] != dd[other] || !pool[target].Equal(pool[other]) {
				report("copy", "copy differs from its source", opIdx)
			}
		}
		// 5. predicates on every pool member / pair
		for i, a := range pool {
			ra, na, xa := rr[i], nn[i], xx[i]
			if !noNames(na) {
				st.namedSeen++
			}
			if a.IsEmpty() != (ra.isEmpty() && noNames(na)) {
				report("isempty", fmt.Sprintf("IsEmpty wrong for pool[%d]=%s", i, dd[i]), opIdx)
			}
			if ra.isFull() {
				st.fullSeen++
			}
			if a.IsAllConnections() && !ra.isFull() {
				report("all-flag", fmt.Sprintf("IsAllConnections true on a non-full set pool[%d]", i), opIdx)
			}
			if ra.isFull() && noNames(na) && noNames(xa) && (!a.IsAllConnections() || a.String() != "All Connections") {
				report("full-not-recognised", fmt.Sprintf("pool[%d]=%s denotes the full set but is not flagged All Connections (after %s)", i, dd[i], op.Head()), opIdx)
			}
			for pi, pr := range algProtos {
				for _, p := range probePorts {
					if p < 1 || p > 65535 {
						continue
					}
					if a.Contains(strconv.Itoa(p), pr) != ra.has(pi, int64(p)) {
						report("contains", fmt.Sprintf("Contains(%d,%s) wrong for pool[%d]=%s", p, pr, i, dd[i]), opIdx)
					}
				}
			}
			for j, b := range pool {
				rb, nb, xb := rr[j], nn[j], xx[j]
				same := *ra == *rb && reflect.DeepEqual(na, nb) && reflect.DeepEqual(xa, xb)
				eq := a.Equal(b)
				if same && (!eq || a.String() != b.String()) {
					report("equal-sets-differ", fmt.Sprintf("pool[%d]=%s and pool[%d]=%s are the same set but Equal=%v / strings differ", i, dd[i], j, dd[j], eq), opIdx)
				}
				if (eq || a.String() == b.String()) && !(*ra == *rb && reflect.DeepEqual(na, nb)) {
					report("unequal-sets-equal", fmt.Sprintf("pool[%d]=%s and pool[%d]=%s differ but Equal=%v strings %q %q", i, dd[i], j, dd[j], eq, a.String(), b.String()), opIdx)
				}
				cin := a.ContainedIn(b)
				// the full set holds every port name as well: it is not contained in a set that excludes some name
				// (numerically full, not in AllowAll form), whatever the numeric points say
				expectIn := ra.subsetOf(rb) && !(a.AllowAll && !noNames(xb))
				if noNames(na) && cin != expectIn {
					report("containedin", fmt.Sprintf("ContainedIn(pool[%d]=%s, pool[%d]=%s)=%v", i, dd[i], j, dd[j], cin), opIdx)
				}
				if cin && !ra.subsetOf(rb) {
					report("containedin", fmt.Sprintf("ContainedIn true but numeric part not included: %s in %s", dd[i], dd[j]), opIdx)
				}
				// containment and difference are one notion: a set contained in another leaves nothing when the other is taken away
				// (names included: the full port range of a protocol covers every name of that protocol)
				if cin {
					d := a.Copy()
					d.Subtract(b)
					if !d.IsEmpty() {
						report("contained-but-difference-nonempty", fmt.Sprintf("ContainedIn(%s, %s)=true but the difference is %s", dd[i], dd[j], dumpCS(d).String()), opIdx)
					}
				}
				// a set holding a named port is not contained in a set that lacks both that name and the full port range
				if cin && !b.AllowAll {
					for pi := 0; pi < 3; pi++ {
						for _, nm := range na[pi] {
							has := false
							for _, k := range nb[pi] {
								if k == nm {
									has = true
								}
							}
							if !has && !rb.protoFull(pi) {
								report("containedin-named", fmt.Sprintf("ContainedIn(%s, %s)=true although named port %s %s is lacking", dd[i], dd[j], algProtos[pi], nm), opIdx)
							}
						}
					}
				}
			}
		}
		key := op.Head()
		if other >= 0 {
			key += fmt.Sprintf("/%v/%v", refs[target].isEmpty(), refs[other].isEmpty())
		}
		st.nontrivial[key+"|"+dumpCS(pool[target]).String()] = true
	}
	return out, viols
}
