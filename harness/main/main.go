package main

// Correspondence harness for the Lean model of netpol-analyzer (built into the module with
// `go build -tags verif -overlay`, see /verif/DESIGN.md section 4.1).
//
//   harness gen  FAMILY -seed S -n N -o cases.txt
//   harness exec FAMILY -i cases.txt -o impl.out -viol viol.jsonl -stats stats.json [-work DIR]

import (
	"bufio"
	"encoding/json"
	"flag"
	"fmt"
	"os"
	"sort"
)

// Violation is a failure of the implementation-level oracle P on a concrete case.
type Violation struct {
	Prop   string `json:"property"`
	Kind   string `json:"kind"`
	Detail string `json:"detail"`
	Case   string `json:"case"`
	Step   int    `json:"step"`
}

type family struct {
	gen  func(r *Rng, id int, tier string) *Sx
	exec func(c *Sx, env *execEnv) (*Sx, []Violation)
}

type execEnv struct {
	work  string
	alg   *algStats
	stats map[string]int
	nontr map[string]bool
}

func (e *execEnv) count(k string) { e.stats[k]++ }

var families = map[string]family{}

func init() {
	families["alg"] = family{
		gen:  func(r *Rng, id int, tier string) *Sx { return genAlgCase(r, id) },
		exec: func(c *Sx, env *execEnv) (*Sx, []Violation) { return execAlgCase(c, env.alg) },
	}
}

func main() {
	if len(os.Args) < 3 {
		fmt.Fprintln(os.Stderr, "usage: harness gen|exec FAMILY ...")
		os.Exit(2)
	}
	mode, fam := os.Args[1], os.Args[2]
	f, ok := families[fam]
	if !ok {
		fmt.Fprintln(os.Stderr, "unknown family", fam)
		os.Exit(2)
	}
	fs := flag.NewFlagSet(mode, flag.ExitOnError)
	seed := fs.Uint64("seed", 1, "PRNG seed")
	n := fs.Int("n", 100, "number of cases")
	tier := fs.String("tier", "quick", "tier")
	in := fs.String("i", "", "cases file")
	out := fs.String("o", "", "output file")
	violPath := fs.String("viol", "", "violations file (jsonl)")
	statsPath := fs.String("stats", "", "stats file (json)")
	work := fs.String("work", "", "scratch directory")
	_ = fs.Parse(os.Args[3:])

	switch mode {
	case "gen":
		w := bufio.NewWriter(mustCreate(*out))
		defer w.Flush()
		r := NewRng(*seed)
		for i := 0; i < *n; i++ {
			cr := r.Fork()
			fmt.Fprintln(w, f.gen(cr, i, *tier).String())
		}
	case "exec":
		inF, err := os.Open(*in)
		if err != nil {
			fmt.Fprintln(os.Stderr, err)
			os.Exit(2)
		}
		w := bufio.NewWriter(mustCreate(*out))
		defer w.Flush()
		vw := bufio.NewWriter(mustCreate(*violPath))
		defer vw.Flush()
		if *work == "" {
			*work = "scratch"
		}
		_ = os.MkdirAll(*work, 0o755)
		env := &execEnv{work: *work, stats: map[string]int{}, nontr: map[string]bool{},
			alg: &algStats{ops: map[string]int{}, nontrivial: map[string]bool{}}}
		sc := bufio.NewScanner(inF)
		sc.Buffer(make([]byte, 1<<20), 1<<28)
		cases := 0
		for sc.Scan() {
			line := sc.Text()
			if line == "" {
				continue
			}
			c, err := ParseSx(line)
			if err != nil {
				fmt.Fprintln(w, "bad-line")
				continue
			}
			cases++
			o, viols := f.exec(c, env)
			fmt.Fprintln(w, o.String())
			for _, v := range viols {
				b, _ := json.Marshal(v)
				vw.Write(b)
				vw.WriteByte('\n')
			}
		}
		if os.Getenv("VERIF_KEEP") == "" { // VERIF_KEEP=1 keeps the rendered directories for a manual look
			_ = os.RemoveAll(*work)
		}
		stats := map[string]interface{}{"cases": cases}
		for k, v := range env.stats {
			stats[k] = v
		}
		if fam == "alg" {
			stats["ops"] = env.alg.ops
			stats["distinct_nontrivial"] = len(env.alg.nontrivial)
			stats["binary_ops_both_operands_nonempty"] = env.alg.binaryBothNE
			stats["full_sets_observed"] = env.alg.fullSeen
			stats["sets_with_named_ports_observed"] = env.alg.namedSeen
			stats["panics"] = env.alg.panics
			stats["steps_outside_claimed_domain"] = env.alg.outOfDomainSteps
		} else {
			stats["distinct_nontrivial"] = len(env.nontr)
		}
		keys := make([]string, 0)
		for k := range stats {
			keys = append(keys, k)
		}
		sort.Strings(keys)
		b, _ := json.MarshalIndent(stats, "", " ")
		if *statsPath != "" {
			_ = os.WriteFile(*statsPath, b, 0o644)
		}
	default:
		fmt.Fprintln(os.Stderr, "unknown mode", mode)
		os.Exit(2)
	}
}

func mustCreate(p string) *os.File {
	if p == "" || p == "-" {
		return os.Stdout
	}
	f, err := os.Create(p)
	if err != nil {
		fmt.Fprintln(os.Stderr, err)
		os.Exit(2)
	}
	return f
}
