package main

// Family "diff" (C04, C19): pairs of worlds analysed by the real ConnDiffFromDirPaths.
// Oracle P: the pointwise diff recomputed from the two real `list` results.

import (
	"fmt"
	"io"
	"log"
	"sort"
	"strings"

	"github.com/np-guard/netpol-analyzer/pkg/netpol/connlist"
	"github.com/np-guard/netpol-analyzer/pkg/netpol/diff"
	"github.com/np-guard/netpol-analyzer/pkg/netpol/internal/common"
)

type nullLogger struct{}

func (nullLogger) Debugf(string, ...interface{})        {}
func (nullLogger) Infof(string, ...interface{})         {}
func (nullLogger) Warnf(string, ...interface{})         {}
func (nullLogger) Errorf(error, string, ...interface{}) {}

func init() { log.SetOutput(io.Discard) }

type diffEntry struct {
	typ, src, dst, c1, c2 string
	newSrc, newDst        bool
	cs1, cs2              *common.ConnectionSet
}

func acStr(a diff.AllowedConnectivity) string {
	return us(common.ConnStrFromConnProperties(a.AllProtocolsAndPorts(), a.ProtocolsAndPorts()))
}

func acSet(a diff.AllowedConnectivity) *common.ConnectionSet {
	m := map[string]*common.PortSet{}
	cs := common.MakeConnectionSet(a.AllProtocolsAndPorts())
	for pr, rs := range a.ProtocolsAndPorts() {
		ps := common.MakePortSet(false)
		for _, r := range rs {
			ps.AddPortRange(r.Start(), r.End())
		}
		cs.AllowedProtocols[pr] = ps
		m[string(pr)] = ps
	}
	return cs
}

// runDiff executes the real diff; returns the canonical S-expression and the entries.
// text of the error of the last runDiff call (cases run one after the other in a process)
var lastDiffErrText string

// conflictNamed: does the error text name a conflict of its class that the world holds? (C19: "an error naming the
// conflict"). Classes whose message carries no object name (a second baseline policy, a baseline policy with another
// name) are described by the message itself.
func conflictNamed(w *World, cls, text string) bool {
	switch cls {
	case "dupNetpol":
		seen := map[string]bool{}
		for _, o := range w.Objs {
			if o.Kind == "np" {
				k := o.Np.EffNS() + "/" + o.Np.Name
				if seen[k] && strings.Contains(text, fmt.Sprintf("%q", k)) {
					return true
				}
				seen[k] = true
			}
		}
		return false
	case "dupANP":
		seen := map[string]bool{}
		for _, o := range w.Objs {
			if o.Kind == "anp" {
				if seen[o.Anp.Name] && strings.Contains(text, fmt.Sprintf("%q", o.Anp.Name)) {
					return true
				}
				seen[o.Anp.Name] = true
			}
		}
		return false
	case "anpPriority":
		for i, a := range w.Objs {
			if a.Kind != "anp" {
				continue
			}
			if (a.Anp.Prio < 0 || a.Anp.Prio > 1000) && strings.Contains(text, fmt.Sprintf("Invalid Priority Value: %d in Admin Network Policy: %q", a.Anp.Prio, a.Anp.Name)) {
				return true
			}
			for j, b := range w.Objs {
				if i != j && b.Kind == "anp" && a.Anp.Prio == b.Anp.Prio && strings.Contains(text, ": "+a.Anp.Name+" and "+b.Anp.Name+" have same priority") {
					return true
				}
			}
		}
		return false
	case "ownerLabels":
		type own struct{ ns, kind, name string }
		labelsOf := map[own][]string{}
		add := func(k own, l []KV) {
			ls := append([]KV{}, l...)
			sort.Slice(ls, func(i, j int) bool { return ls[i][0] < ls[j][0] })
			labelsOf[k] = append(labelsOf[k], fmt.Sprint(ls))
		}
		for _, o := range w.Objs {
			if o.Kind == "pod" && o.Pod.OwnerName != "" {
				add(own{o.Pod.NS, o.Pod.OwnerKind, o.Pod.OwnerName}, o.Pod.Labels)
			}
			if o.Kind == "wl" {
				add(own{o.Wl.NS, o.Wl.Kind, o.Wl.Name}, o.Wl.Labels)
			}
		}
		for k, ls := range labelsOf {
			for _, x := range ls {
				if x != ls[0] && strings.Contains(text, k.name) {
					return true
				}
			}
		}
		return false
	}
	return true
}

func runDiff(dirA, dirB string, stop bool) (res *Sx, entries []diffEntry, errCls string, panicked string) {
	lastDiffErrText = ""
	opts := []diff.DiffAnalyzerOption{diff.WithLogger(nullLogger{})}
	if stop {
		opts = append(opts, diff.WithStopOnError())
	}
	da := diff.NewDiffAnalyzer(opts...)
	var cd diff.ConnectivityDiff
	var err error
	func() {
		defer func() {
			if e := recover(); e != nil {
				panicked = fmt.Sprint(e)
			}
		}()
		cd, err = da.ConnDiffFromDirPaths(dirA, dirB)
	}()
	if panicked != "" {
		return Ls(At("panic")), nil, "", panicked
	}
	if err != nil {
		lastDiffErrText = err.Error()
		return errSx(err), nil, classifyErr(err), ""
	}
	if cd == nil {
		return Ls(At("ok"), At("nil")), nil, "", ""
	}
	add := func(l []diff.SrcDstDiff) {
		for _, d := range l {
			entries = append(entries, diffEntry{typ: string(d.DiffType()), src: d.Src().String(), dst: d.Dst().String(),
				c1: acStr(d.Ref1Connectivity()), c2: acStr(d.Ref2Connectivity()), newSrc: d.IsSrcNewOrRemoved(), newDst: d.IsDstNewOrRemoved(),
				cs1: acSet(d.Ref1Connectivity()), cs2: acSet(d.Ref2Connectivity())})
		}
	}
	add(cd.RemovedConnections())
	add(cd.AddedConnections())
	add(cd.ChangedConnections())
	add(cd.UnchangedConnections())
	var lines []string
	for _, e := range entries {
		lines = append(lines, strings.Join([]string{e.typ, e.src, e.dst, e.c1, e.c2, b01(e.newSrc), b01(e.newDst)}, " "))
	}
	sort.Strings(lines)
	res = Ls(At("ok"))
	for _, l := range lines {
		x := Ls(At("d"))
		for _, f := range strings.Split(l, " ") {
			x.Add(At(f))
		}
		res.Add(x)
	}
	return res, entries, "", ""
}

// pointwise oracle: for every point (workload pair, or workload and refined IP segment) the diff must hold no
// covering entry when both sides report nothing, and otherwise exactly one covering entry with the right type,
// the two connection values and the new/lost flags.
func checkDiffPointwise(ra, rb *relation, entries []diffEntry) string {
	segs := segStartsOf(ra, rb)
	for _, e := range entries {
		// diff entries with IP ends are ranges too: their starts refine the segments
		for _, n := range []string{e.src, e.dst} {
			if lo, _, ok := ipRangeOf(n); ok {
				segs = append(segs, lo)
			}
		}
	}
	sort.Slice(segs, func(i, j int) bool { return segs[i] < segs[j] })
	inA, inB := map[string]bool{}, map[string]bool{}
	for _, w := range ra.wl {
		inA[w] = true
	}
	for _, w := range rb.wl {
		inB[w] = true
	}
	all := map[string]bool{}
	for w := range inA {
		all[w] = true
	}
	for w := range inB {
		all[w] = true
	}
	var wls []string
	for w := range all {
		wls = append(wls, w)
	}
	sort.Strings(wls)
	get := func(r *relation, s, d string) *common.ConnectionSet {
		if c, ok := r.conns[[2]string{s, d}]; ok {
			return c
		}
		return nil
	}
	covers := func(name string, isIP bool, a int64, w string) bool {
		if !isIP {
			return name == w
		}
		lo, hi, ok := ipRangeOf(name)
		return ok && lo <= a && a <= hi
	}
	check := func(s, d string, sIP, dIP bool, a int64) string {
		var c1, c2 *common.ConnectionSet
		sa, da, sb, db := s, d, s, d
		if sIP {
			sa, sb = ra.rangeContaining(a), rb.rangeContaining(a)
		}
		if dIP {
			da, db = ra.rangeContaining(a), rb.rangeContaining(a)
		}
		c1, c2 = get(ra, sa, da), get(rb, sb, db)
		var cov []diffEntry
		for _, e := range entries {
			if covers(e.src, sIP, a, s) && covers(e.dst, dIP, a, d) {
				cov = append(cov, e)
			}
		}
		pt := fmt.Sprintf("%s => %s", map[bool]string{true: "ip:" + ipStr(a), false: s}[sIP], map[bool]string{true: "ip:" + ipStr(a), false: d}[dIP])
		if c1 == nil && c2 == nil {
			if len(cov) > 0 {
				return pt + ": no connection on either side but the diff holds " + cov[0].typ
			}
			return ""
		}
		if len(cov) != 1 {
			return fmt.Sprintf("%s: %d covering diff entries", pt, len(cov))
		}
		e := cov[0]
		want := "changed"
		switch {
		case c1 == nil:
			want = "added"
		case c2 == nil:
			want = "removed"
		case c1.Equal(c2):
			want = "unchanged"
		}
		if e.typ != want {
			return fmt.Sprintf("%s: diff type %s, expected %s", pt, e.typ, want)
		}
		if c1 != nil && !e.cs1.Equal(c1) || c1 == nil && !e.cs1.IsEmpty() {
			return fmt.Sprintf("%s: first connection %s differs from the list result", pt, e.c1)
		}
		if c2 != nil && !e.cs2.Equal(c2) || c2 == nil && !e.cs2.IsEmpty() {
			return fmt.Sprintf("%s: second connection %s differs from the list result", pt, e.c2)
		}
		// flags: set iff that workload is absent from the other set (only meaningful for added / removed)
		other := inB
		if want == "added" {
			other = inA
		}
		wantNS, wantND := false, false
		if want == "added" || want == "removed" {
			wantNS = !sIP && !other[s] && !strings.HasPrefix(s, "{")
			wantND = !dIP && !other[d] && !strings.HasPrefix(d, "{")
		}
		if e.newSrc != wantNS || e.newDst != wantND {
			return fmt.Sprintf("%s: new/lost flags (%v,%v), expected (%v,%v)", pt, e.newSrc, e.newDst, wantNS, wantND)
		}
		return ""
	}
	for _, s := range wls {
		for _, d := range wls {
			if s != d {
				if m := check(s, d, false, false, 0); m != "" {
					return m
				}
			}
		}
		for _, a := range segs {
			if m := check(s, "", false, true, a); m != "" {
				return m
			}
			if m := check("", s, true, false, a); m != "" {
				return m
			}
		}
	}
	return ""
}

func diffSwapped(e []diffEntry) []string {
	var l []string
	for _, x := range e {
		t := x.typ
		if t == "added" {
			t = "removed"
		} else if t == "removed" {
			t = "added"
		}
		l = append(l, strings.Join([]string{t, x.src, x.dst, x.c2, x.c1, b01(x.newSrc), b01(x.newDst)}, " "))
	}
	sort.Strings(l)
	return l
}

func diffLines(e []diffEntry) []string {
	var l []string
	for _, x := range e {
		l = append(l, strings.Join([]string{x.typ, x.src, x.dst, x.c1, x.c2, b01(x.newSrc), b01(x.newDst)}, " "))
	}
	sort.Strings(l)
	return l
}

// (wdiff ID KIND (world A) (world B))
func execWDiff(c *Sx, env *execEnv) (*Sx, []Violation) {
	args := c.Args()
	out := Ls(At("wdiff"), args[0])
	if len(args) < 4 {
		return out.Add(At("bad-case")), nil
	}
	wa, err1 := ParseWorld(args[2])
	wb, err2 := ParseWorld(args[3])
	if err1 != nil || err2 != nil {
		return out.Add(At("bad-world")), nil
	}
	dirA, dirB := caseDir(env, args[0].A+"a"), caseDir(env, args[0].A+"b")
	if wa.WriteDir(dirA, nil, nil) != nil || wb.WriteDir(dirB, nil, nil) != nil {
		return out.Add(At("io-error")), nil
	}
	var viols []Violation
	rep := func(prop, k, detail string) {
		viols = append(viols, Violation{Prop: prop, Kind: k, Detail: detail, Case: c.String()})
	}
	ra, va := runListRel(dirA, "", env, c.String())
	rb, vb := runListRel(dirB, "", env, c.String())
	_ = va
	_ = vb
	res, entries, _, p := runDiff(dirA, dirB, false)
	out.Add(ra.rawSx, rb.rawSx, res)
	if p != "" {
		rep("C12", "panic-diff", p)
		return out, viols
	}
	env.count("diff:" + args[1].A)
	// C19: the error of a conflict names the conflicting objects (list on either side, and diff)
	for _, x := range []struct {
		w    *World
		r    *relation
		side string
	}{{wa, ra, "A"}, {wb, rb, "B"}} {
		if !x.r.ok && x.r.errCls != "" {
			if !conflictNamed(x.w, x.r.errCls, x.r.errText) {
				rep("C19", "conflict-not-named", fmt.Sprintf("list %s fails with class %s but the message names no such conflict of the input: %s", x.side, x.r.errCls, x.r.errText[:min(300, len(x.r.errText))]))
			} else {
				env.count("conflict-named:" + x.r.errCls)
			}
		}
	}
	if cls := classifyErr(fmt.Errorf("%s", lastDiffErrText)); lastDiffErrText != "" && !conflictNamed(wa, cls, lastDiffErrText) && !conflictNamed(wb, cls, lastDiffErrText) {
		rep("C19", "conflict-not-named-by-diff", fmt.Sprintf("diff fails with class %s but the message names no such conflict of either input: %s", cls, lastDiffErrText[:min(300, len(lastDiffErrText))]))
	}
	if ra.ok && rb.ok {
		if res.Head() != "ok" {
			rep("C04", "diff-fails-where-list-succeeds", res.String())
			return out, viols
		}
		if m := checkDiffPointwise(ra, rb, entries); m != "" {
			rep("C04", "diff-not-pointwise-exact", m)
		}
		// diff(B,A) = swap(diff(A,B)); diff(A,A) = empty
		_, rev, _, _ := runDiff(dirB, dirA, false)
		if strings.Join(diffLines(rev), "\n") != strings.Join(diffSwapped(entries), "\n") {
			rep("C04", "diff-not-symmetric", "diff(B,A) is not diff(A,B) with added/removed and the two sides swapped")
		}
		_, self, _, _ := runDiff(dirA, dirA, false)
		for _, e := range self {
			if e.typ != "unchanged" {
				rep("C04", "diff-self-not-empty", "diff(A,A) holds a "+e.typ+" entry "+e.src+" => "+e.dst)
				break
			}
		}
		env.nontr[res.String()] = true
	} else if res.Head() == "ok" {
		rep("C19", "diff-succeeds-where-list-fails", fmt.Sprintf("list A ok=%v (%s), list B ok=%v (%s), diff returned a result", ra.ok, ra.errCls, rb.ok, rb.errCls))
	}
	return out, viols
}

// generator: B is a random edit of A (policies changed, workloads added/removed, other ipBlock layouts)
func genWDiff(r *Rng, id int, tier string) *Sx {
	// names the analysis treats specially (the pod it adds for ingress analysis) occur as real workloads of a diff pair too
	cfg := &genCfg{anp: r.P(35), banp: true, pods: r.P(30), ingress: r.P(20), icName: r.P(25), namedOnIPPct: 0, maxNP: 4, maxWl: 5}
	a := genWorld(r, cfg)
	b := cloneWorld(a)
	kind := "edit"
	n := r.Range(1, 3)
	for i := 0; i < n; i++ {
		editForDiff(r, cfg, b, i)
	}
	if r.P(8) {
		b = cloneWorld(a)
		kind = "same"
	}
	return Ls(At("wdiff"), Ai(int64(id)), At(kind), a.Sx(), b.Sx())
}


// editForDiff applies one random edit to b (the second version of a world)
func editForDiff(r *Rng, cfg *genCfg, b *World, i int) {
	switch r.Intn(8) {
	case 0: // drop an object
		if len(b.Objs) > 1 {
			j := r.Intn(len(b.Objs))
			b.Objs = append(b.Objs[:j], b.Objs[j+1:]...)
		}
	case 1: // add a workload
		ns := "ns0"
		for _, o := range b.Objs {
			if o.Kind == "wl" {
				ns = o.Wl.NS
			}
		}
		b.Objs = append(b.Objs, Obj{Kind: "wl", Wl: &Workload{Kind: Pick(r, wlKinds), NS: ns, Name: fmt.Sprintf("n%d", r.Intn(3)), Labels: genLabels(r, lblKeys, lblVals, 2), Ports: genCPorts(r)}})
	case 2, 3: // add a policy
		ns := "ns0"
		for _, o := range b.Objs {
			if o.Kind == "wl" && r.P(50) {
				ns = o.Wl.NS
			}
		}
		b.Objs = append(b.Objs, Obj{Kind: "np", Np: genNetPol(r, cfg, ns, fmt.Sprintf("e%d", i))})
	case 4: // regenerate a policy
		for j, o := range b.Objs {
			if o.Kind == "np" && r.P(50) {
				b.Objs[j] = Obj{Kind: "np", Np: genNetPol(r, cfg, o.Np.NS, o.Np.Name)}
				break
			}
		}
	default: // change the kind of a workload (new + lost workload)
		for _, o := range b.Objs {
			if o.Kind == "wl" && r.P(50) {
				o.Wl.Kind = Pick(r, wlKinds)
				break
			}
		}
	case 6: // move an ipBlock to another CIDR, ports unchanged (the ip-ranges of the two reports differ, the connections do not)
		for _, o := range b.Objs {
			if o.Kind != "np" {
				continue
			}
			for _, rules := range [][]NPRule{o.Np.Ingress, o.Np.Egress} {
				for ri := range rules {
					for pi := range rules[ri].Peers {
						if rules[ri].Peers[pi].IsIP && r.P(60) {
							rules[ri].Peers[pi].CIDR = Pick(r, []string{"10.0.0.0/8", "10.1.0.0/16", "10.1.2.0/24", "172.16.0.0/12", "192.168.0.0/16", "0.0.0.0/1"})
							rules[ri].Peers[pi].Except = nil
							return
						}
					}
				}
			}
		}
	case 7: // another port in one rule
		for _, o := range b.Objs {
			if o.Kind != "np" {
				continue
			}
			for _, rules := range [][]NPRule{o.Np.Ingress, o.Np.Egress} {
				for ri := range rules {
					if len(rules[ri].Ports) > 0 && r.P(50) {
						rules[ri].Ports[0] = NPPort{Proto: rules[ri].Ports[0].Proto, Kind: "num", Num: Pick(r, portPool)}
						return
					}
				}
			}
		}
	}
}

var _ = connlist.ValidFormats

func init() {
	families["diff"] = family{gen: genWDiff, exec: execWDiff}
}

// ---------------------------------------------------------------------------------------------
// C19: a valid world B and the same world A with one injected conflict, at a random position among
// 1..40 admin policies and the other documents.

func genConflict(r *Rng, id int, tier string) *Sx {
	cfg := &genCfg{anp: true, banp: true, pods: true, namedOnIPPct: 0, maxNP: 3, maxWl: 4}
	b := genWorld(r, cfg)
	// pad with admin policies (distinct valid priorities) to cross the insertion-sort threshold of pdqsort
	nExtra := Pick(r, []int{0, 0, 1, 2, 5, 11, 12, 13, 20, 40})
	used := map[int]bool{}
	names := map[string]bool{}
	for _, o := range b.Objs {
		if o.Kind == "anp" {
			used[o.Anp.Prio] = true
			names[o.Anp.Name] = true
		}
	}
	for i := 0; i < nExtra; i++ {
		p := r.Intn(1001)
		for used[p] {
			p = r.Intn(1001)
		}
		used[p] = true
		a := &ANP{Name: fmt.Sprintf("pad%d", i), Prio: p, Subject: genSubject(r), Ingress: genARules(r, false, "i")}
		if len(a.Ingress) == 0 {
			a.Egress = genARules(r, false, "e")
		}
		b.Objs = append(b.Objs, Obj{Kind: "anp", Anp: a})
	}
	Shuffle(r, b.Objs)
	a := cloneWorld(b)
	pick := func(kind string) *Obj {
		var idx []int
		for i, o := range a.Objs {
			if o.Kind == kind {
				idx = append(idx, i)
			}
		}
		if len(idx) == 0 {
			return nil
		}
		return &a.Objs[Pick(r, idx)]
	}
	insertAt := func(o Obj) {
		j := r.Intn(len(a.Objs) + 1)
		a.Objs = append(a.Objs[:j], append([]Obj{o}, a.Objs[j:]...)...)
	}
	kind := "none"
	switch r.Intn(7) {
	case 0: // two ANPs with the same priority
		if o := pick("anp"); o != nil {
			n := *o.Anp
			n.Name = "twin"
			insertAt(Obj{Kind: "anp", Anp: &n})
			kind = "same-priority"
		}
	case 1: // priority out of range
		if o := pick("anp"); o != nil {
			o.Anp.Prio = Pick(r, []int{-1, 1001, 5000, -300})
			kind = "bad-priority"
		} else {
			insertAt(Obj{Kind: "anp", Anp: &ANP{Name: "solo", Prio: 1001, Subject: genSubject(r), Ingress: genARules(r, false, "i")}})
			kind = "bad-priority"
		}
	case 2: // two ANPs with the same name
		if o := pick("anp"); o != nil {
			n := *o.Anp
			p := r.Intn(1001)
			for used[p] {
				p = r.Intn(1001)
			}
			n.Prio = p
			insertAt(Obj{Kind: "anp", Anp: &n})
			kind = "dup-anp-name"
		}
	case 3: // two NetworkPolicies with the same name in one namespace
		if o := pick("np"); o != nil {
			n := *genNetPol(r, cfg, o.Np.NS, o.Np.Name)
			if r.P(40) { // the same cluster object exported twice: both copies carry the same metadata.uid
				o.Np.UID = "7f3c1a"
				n.UID = "7f3c1a"
			} else if r.P(30) {
				n.UID = "9e8d7c"
			}
			insertAt(Obj{Kind: "np", Np: &n})
			kind = "dup-np-name"
		}
	case 4: // more than one BANP
		if o := pick("banp"); o != nil {
			n := *o.Banp
			insertAt(Obj{Kind: "banp", Banp: &n})
			kind = "two-banp"
		} else {
			insertAt(Obj{Kind: "banp", Banp: &BANP{Name: "default", Subject: genSubject(r), Ingress: genARules(r, true, "bi")}})
			insertAt(Obj{Kind: "banp", Banp: &BANP{Name: "default", Subject: genSubject(r), Egress: genARules(r, true, "be")}})
			kind = "two-banp"
		}
	case 5: // a BANP not named default
		if o := pick("banp"); o != nil {
			o.Banp.Name = "baseline"
		} else {
			insertAt(Obj{Kind: "banp", Banp: &BANP{Name: "baseline", Subject: genSubject(r), Ingress: genARules(r, true, "bi")}})
		}
		kind = "banp-name"
	default: // pods of one owner with different labels
		ns := "ns0"
		own := fmt.Sprintf("own%d", r.Intn(3))
		n := r.Range(2, 4)
		odd := r.Intn(n)
		for j := 0; j < n; j++ {
			l := []KV{{"app", "a"}}
			if j == odd {
				l = Pick(r, [][]KV{{{"app", "b"}}, {{"app", "a"}, {"tier", "c"}}, {}, {{"app", "a"}, {"canary", ""}}, {{"app", ""}}})
			}
			insertAt(Obj{Kind: "pod", Pod: &PodObj{NS: ns, Name: fmt.Sprintf("%s-x%d", own, j), Labels: l, OwnerKind: "ReplicaSet", OwnerName: own, HostIP: "192.168.49.2"}})
		}
		kind = "owner-labels"
	}
	if r.P(50) {
		return Ls(At("wdiff"), Ai(int64(id)), At("conflict-"+kind), a.Sx(), b.Sx())
	}
	return Ls(At("wdiff"), Ai(int64(id)), At("conflict-"+kind), b.Sx(), a.Sx())
}

func init() {
	families["conflict"] = family{gen: genConflict, exec: execWDiff}
}
