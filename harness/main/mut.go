package main

// Family "mut" (C12): structural mutations of valid manifests (drop / null / retype / empty any field) and
// byte-level damage; list (with and without exposure), diff and eval must end with a result or an error,
// never a panic. Observation: (mut ID nopanic) | (mut ID (panic WHERE)).

import (
	"encoding/json"
	"fmt"
	"os"
	"path/filepath"
	"runtime/debug"
	"sort"
	"strconv"
	"strings"

	"github.com/np-guard/netpol-analyzer/pkg/cli"
	"github.com/np-guard/netpol-analyzer/pkg/netpol/connlist"
	"github.com/np-guard/netpol-analyzer/pkg/netpol/diff"
)

// paths enumerates every node of a JSON tree as a dotted path.
func jsonPaths(v interface{}, prefix string, out *[]string) {
	if prefix != "" {
		*out = append(*out, prefix)
	}
	switch t := v.(type) {
	case map[string]interface{}:
		keys := make([]string, 0, len(t))
		for k := range t {
			keys = append(keys, k)
		}
		sort.Strings(keys)
		for _, k := range keys {
			p := k
			if prefix != "" {
				p = prefix + "|" + k
			}
			jsonPaths(t[k], p, out)
		}
	case []interface{}:
		for i, x := range t {
			p := strconv.Itoa(i)
			if prefix != "" {
				p = prefix + "|" + p
			}
			jsonPaths(x, p, out)
		}
	}
}

func mutValue(op string, old interface{}) (interface{}, bool) {
	switch op {
	case "null":
		return nil, true
	case "int":
		return float64(7), true
	case "negint":
		return float64(-1), true
	case "str":
		return "zzz", true
	case "emptystr":
		return "", true
	case "bool":
		return true, true
	case "list":
		return []interface{}{}, true
	case "list1":
		return []interface{}{old}, true
	case "map":
		return map[string]interface{}{}, true
	case "ipv6":
		return "fe80::1", true
	case "ipv6cidr":
		return "fd00::/8", true
	case "bigint":
		return float64(99999999999), true
	}
	return nil, false
}

// applyMut applies op at path (segments separated by '|'); returns false when the path does not exist.
func applyMut(root interface{}, path []string, op string) (interface{}, bool) {
	if len(path) == 0 {
		if op == "drop" {
			return nil, false
		}
		return mutValue(op, root)
	}
	switch t := root.(type) {
	case map[string]interface{}:
		child, ok := t[path[0]]
		if !ok {
			return root, false
		}
		if len(path) == 1 && op == "drop" {
			delete(t, path[0])
			return root, true
		}
		nv, ok := applyMut(child, path[1:], op)
		if !ok {
			return root, false
		}
		t[path[0]] = nv
		return root, true
	case []interface{}:
		i, err := strconv.Atoi(path[0])
		if err != nil || i < 0 || i >= len(t) {
			return root, false
		}
		if len(path) == 1 && op == "drop" {
			return append(t[:i:i], t[i+1:]...), true
		}
		nv, ok := applyMut(t[i], path[1:], op)
		if !ok {
			return root, false
		}
		t[i] = nv
		return root, true
	}
	return root, false
}

var mutOps = []string{"drop", "drop", "drop", "null", "null", "int", "negint", "str", "emptystr", "bool", "list", "list1", "map", "ipv6", "bigint"}

func worldDocs(w *World) []interface{} {
	var docs []interface{}
	for _, o := range w.Objs {
		js, _ := json.Marshal(o.Doc())
		var v interface{}
		_ = json.Unmarshal(js, &v)
		docs = append(docs, v)
	}
	return docs
}

func genMutCase(r *Rng, id int, tier string) *Sx {
	cfg := &genCfg{anp: r.P(50), banp: true, pods: true, ingress: r.P(60), icNs: true, namedOnIPPct: 0, maxNP: 3, maxWl: 4}
	w := genWorld(r, cfg)
	// make sure real pods with owner references and services appear often
	if r.P(50) {
		w.Objs = append(w.Objs, Obj{Kind: "pod", Pod: &PodObj{NS: "ns0", Name: "extra-1", Labels: []KV{{"app", "a"}}, Ports: genCPorts(r), OwnerKind: "ReplicaSet", OwnerName: "extra", HostIP: "192.168.49.2"}})
	}
	c := Ls(At("mut"), Ai(int64(id)), w.Sx())
	docs := worldDocs(w)
	n := r.Range(1, 2)
	for i := 0; i < n; i++ {
		if r.P(6) {
			c.Add(Ls(At("g"), At(Pick(r, []string{"truncate", "tabs", "binary", "notyaml", "emptyfile", "listdoc", "scalar-doc", "dup-key"})), Ai(int64(r.Intn(1000)))))
			continue
		}
		d := r.Intn(len(docs))
		var paths []string
		jsonPaths(docs[d], "", &paths)
		if len(paths) == 0 {
			continue
		}
		op, path := Pick(r, mutOps), Pick(r, paths)
		if r.P(12) {
			// an IPv6 CIDR where the manifest has an IPv4 one (a legal ipBlock of a dual-stack cluster)
			var cidrPaths []string
			for _, p := range paths {
				if strings.HasSuffix(p, "|cidr") || strings.Contains(p, "|except|") {
					cidrPaths = append(cidrPaths, p)
				}
			}
			if len(cidrPaths) > 0 {
				op, path = "ipv6cidr", Pick(r, cidrPaths)
			}
		}
		if r.P(12) {
			// a rule peer of an admin policy left with neither `namespaces` nor `pods` (dropped, nulled or emptied)
			var peerPaths []string
			for _, p := range paths {
				if (strings.Contains(p, "|from|") || strings.Contains(p, "|to|")) && (strings.HasSuffix(p, "|namespaces") || strings.HasSuffix(p, "|pods")) {
					peerPaths = append(peerPaths, p)
				}
			}
			if len(peerPaths) > 0 {
				op, path = Pick(r, []string{"drop", "null"}), Pick(r, peerPaths)
			}
		}
		c.Add(Ls(At("m"), Ai(int64(d)), At(path), At(op)))
	}
	return c
}

func garbage(kind string, seed int, good string) (name, content string) {
	switch kind {
	case "truncate":
		if len(good) > 10 {
			return "zz_trunc.yaml", good[:len(good)*(seed%90+5)/100]
		}
		return "zz_trunc.yaml", "{"
	case "tabs":
		return "zz_tabs.yaml", "apiVersion: v1\nkind: Pod\nmetadata:\n\tname: x\n"
	case "binary":
		b := make([]byte, 64)
		for i := range b {
			b[i] = byte((seed*31 + i*17) % 256)
		}
		return "zz_bin.yaml", string(b)
	case "notyaml":
		return "zz_text.yaml", "this is: not [a manifest\n  at: all }\n"
	case "emptyfile":
		return "zz_empty.yaml", ""
	case "listdoc":
		return "zz_list.yaml", "- a\n- b\n"
	case "scalar-doc":
		return "zz_scalar.yaml", "42\n"
	default:
		return "zz_dup.yaml", "apiVersion: v1\nkind: Namespace\nmetadata:\n  name: a\n  name: b\n"
	}
}

// writeMutated renders the world with its mutations into dir; returns pod names usable for eval.
func writeMutated(w *World, muts []*Sx, dir string) (pods []string, err error) {
	docs := worldDocs(w)
	extra := map[string]string{}
	var goodText string
	for _, m := range muts {
		switch m.Head() {
		case "m":
			if len(m.L) < 4 {
				continue
			}
			d := atoi(m.L[1].A)
			if d < 0 || d >= len(docs) {
				continue
			}
			nv, _ := applyMut(docs[d], strings.Split(m.L[2].A, "|"), m.L[3].A)
			docs[d] = nv
		}
	}
	if err := os.RemoveAll(dir); err != nil {
		return nil, err
	}
	if err := os.MkdirAll(dir, 0o755); err != nil {
		return nil, err
	}
	var b strings.Builder
	for _, d := range docs {
		js, _ := json.Marshal(d)
		b.WriteString("---\n")
		b.Write(js)
		b.WriteString("\n")
	}
	goodText = b.String()
	for _, m := range muts {
		if m.Head() == "g" && len(m.L) >= 3 {
			n, c := garbage(m.L[1].A, atoi(m.L[2].A), goodText)
			extra[n] = c
		}
	}
	if err := os.WriteFile(filepath.Join(dir, "f00.yaml"), []byte(goodText), 0o644); err != nil {
		return nil, err
	}
	for n, c := range extra {
		if err := os.WriteFile(filepath.Join(dir, n), []byte(c), 0o644); err != nil {
			return nil, err
		}
	}
	for _, o := range w.Objs {
		switch o.Kind {
		case "pod":
			pods = append(pods, o.Pod.NS+"/"+o.Pod.Name)
		case "wl":
			pods = append(pods, o.Wl.NS+"/"+o.Wl.Name+"-1")
		}
	}
	return pods, nil
}

func guarded(where string, f func()) (panicMsg string) {
	defer func() {
		if e := recover(); e != nil {
			panicMsg = where + ": " + fmt.Sprint(e) + " at " + panicSite(string(debug.Stack()))
		}
	}()
	f()
	return ""
}

func execMutCase(c *Sx, env *execEnv) (*Sx, []Violation) {
	args := c.Args()
	out := Ls(At("mut"), args[0])
	if len(args) < 2 {
		return out.Add(At("bad-case")), nil
	}
	w, err := ParseWorld(args[1])
	if err != nil {
		return out.Add(At("bad-world")), nil
	}
	dirM, dirO := caseDir(env, args[0].A+"m"), caseDir(env, args[0].A+"o")
	pods, err := writeMutated(w, args[2:], dirM)
	if err != nil || w.WriteDir(dirO, nil, nil) != nil {
		return out.Add(At("io-error")), nil
	}
	var panics []string
	run := func(where string, f func()) {
		if p := guarded(where, f); p != "" {
			panics = append(panics, p)
		}
	}
	var semViols []Violation
	run("list", func() {
		_, _, e := connlist.NewConnlistAnalyzer(connlist.WithMuteErrsAndWarns()).ConnlistFromDirPath(dirM)
		env.count("mut-list:" + map[bool]string{true: "ok", false: "err"}[e == nil])
		// the analysis is IPv4 only: an ipBlock with an IPv6 CIDR must be refused, never read as some IPv4 range (C01)
		// judged only when this is the one change made to the input and it really is in the rendered file (another mutation
		// may have turned the policy into a malformed document, which is skipped)
		rendered, _ := os.ReadFile(filepath.Join(dirM, "f00.yaml"))
		for _, m := range args[2:] {
			if len(args[2:]) == 1 && strings.Contains(string(rendered), "fd00::/8") && m.Head() == "m" && len(m.L) >= 4 && m.L[3].A == "ipv6cidr" && e == nil {
				semViols = append(semViols, Violation{Prop: "C01", Kind: "ipv6-cidr-read-as-ipv4", Detail: "an ipBlock holds the IPv6 CIDR fd00::/8 (" + m.L[2].A + ") and list returns a report instead of an error", Case: c.String()})
			}
		}
	})
	run("list-exposure", func() {
		ca := connlist.NewConnlistAnalyzer(connlist.WithMuteErrsAndWarns(), connlist.WithExposureAnalysis())
		conns, _, e := ca.ConnlistFromDirPath(dirM)
		if e == nil {
			for _, f := range []string{"txt", "json", "dot", "csv", "md"} {
				ca2 := connlist.NewConnlistAnalyzer(connlist.WithMuteErrsAndWarns(), connlist.WithExposureAnalysis(), connlist.WithOutputFormat(f))
				c2, _, e2 := ca2.ConnlistFromDirPath(dirM)
				if e2 == nil {
					_, _ = ca2.ConnectionsListToString(c2)
				}
			}
		}
		_ = conns
	})
	run("list-stop", func() {
		_, _, _ = connlist.NewConnlistAnalyzer(connlist.WithMuteErrsAndWarns(), connlist.WithStopOnError()).ConnlistFromDirPath(dirM)
	})
	run("diff", func() {
		da := diff.NewDiffAnalyzer(diff.WithLogger(nullLogger{}))
		d, e := da.ConnDiffFromDirPaths(dirM, dirO)
		if e == nil && d != nil {
			_, _ = da.ConnectivityDiffToString(d)
		}
		_, _ = diff.NewDiffAnalyzer(diff.WithLogger(nullLogger{})).ConnDiffFromDirPaths(dirO, dirM)
	})
	// the commands themselves (they hand what the library returns straight to the formatter), with and without --fail
	run("cli-diff", func() {
		for _, fail := range []bool{true, false} {
			for _, f := range []string{"txt", "md"} {
				_, _ = cli.VerifRun([]string{"diff", "--dir1", dirM, "--dir2", dirO, "-o", f, "-q", "-f", "", fmt.Sprintf("--fail=%v", fail), "--dirpath", ""})
				_, _ = cli.VerifRun([]string{"diff", "--dir1", dirO, "--dir2", dirM, "-o", f, "-q", "-f", "", fmt.Sprintf("--fail=%v", fail), "--dirpath", ""})
			}
		}
	})
	run("lib-diff-stop", func() {
		da := diff.NewDiffAnalyzer(diff.WithLogger(nullLogger{}), diff.WithStopOnError())
		if d, e := da.ConnDiffFromDirPaths(dirM, dirO); e == nil {
			_, _ = da.ConnectivityDiffToString(d) // as the command does: whatever came back without an error is formatted
		}
	})
	if len(pods) >= 1 {
		a, b := pods[0], pods[len(pods)-1]
		sa, sb := strings.SplitN(a, "/", 2), strings.SplitN(b, "/", 2)
		run("eval", func() {
			_, _ = cli.VerifRun(evalArgs(dirM, sa[1], sa[0], sb[1], sb[0], "", "", "80", "tcp"))
			_, _ = cli.VerifRun(evalArgs(dirM, "", "default", sb[1], sb[0], "10.1.2.3", "", "80", "tcp"))
			_, _ = cli.VerifRun(evalArgs(dirM, sa[1], sa[0], "", "default", "", "10.1.2.3", "80", "udp"))
			_, _ = cli.VerifRun(evalArgs(dirM, sa[1], sa[0], "", "default", "", "fd00::1", "443", "tcp"))
			_, _ = cli.VerifRun(evalArgs(dirM, "", "default", sb[1], sb[0], "::ffff:10.0.0.1", "", "80", "tcp"))
		})
	}
	viols := semViols
	if len(panics) == 0 {
		out.Add(At("nopanic"))
		env.nontr[fmt.Sprint(args[2:])] = true
	} else {
		out.Add(Ls(At("panic"), At(us(strings.Split(panics[0], ":")[0]))))
		env.count("panics")
		viols = append(viols, Violation{Prop: "C12", Kind: "panic", Detail: strings.Join(panics, " ; "), Case: c.String()})
	}
	return out, viols
}

func init() {
	families["mut"] = family{gen: genMutCase, exec: execMutCase}
}

// evalArgs: every flag is given explicitly (the command keeps its flag variables between in-process runs)
func evalArgs(dir, srcPod, srcNs, dstPod, dstNs, srcIP, dstIP, port, proto string) []string {
	return evalArgsFail(dir, srcPod, srcNs, dstPod, dstNs, srcIP, dstIP, port, proto, false)
}

func evalArgsFail(dir, srcPod, srcNs, dstPod, dstNs, srcIP, dstIP, port, proto string, fail bool) []string {
	return []string{"eval", "--dirpath", dir, "-s", srcPod, "-n", srcNs, "-d", dstPod, "--destination-namespace", dstNs,
		"--source-ip", srcIP, "--destination-ip", dstIP, "-p", port, "--protocol", proto, "-q", fmt.Sprintf("--fail=%v", fail)}
}

// panicSite: the innermost frame of the stack that lies in netpol-analyzer's own packages
func panicSite(stack string) string {
	lines := strings.Split(stack, "\n")
	for i := 0; i+1 < len(lines); i++ {
		fn := lines[i]
		if strings.HasPrefix(fn, "\t") || !strings.Contains(fn, "netpol-analyzer/pkg/") || strings.Contains(fn, "zz_verifharness") || strings.Contains(fn, "VerifRun") {
			continue
		}
		f := strings.TrimSpace(lines[i+1])
		if j := strings.Index(f, " +0x"); j > 0 {
			f = f[:j]
		}
		if k := strings.Index(f, "/pkg/"); k >= 0 {
			f = f[k+1:]
		}
		return f
	}
	return "?"
}
