package main

// Family "list" (C01, C02, C05, C14, C16, C17, C19): worlds rendered to a directory and analysed by the real
// ConnlistFromDirPath; the observation is the sorted relation (src, dst, connection string) and the peers.

import (
	"fmt"
	"path/filepath"
	"sort"
	"strings"

	"github.com/np-guard/netpol-analyzer/pkg/netpol/connlist"
	"github.com/np-guard/netpol-analyzer/pkg/netpol/internal/common"
)

func classifyErr(err error) string {
	if err == nil {
		return ""
	}
	s := err.Error()
	switch {
	case strings.Contains(s, "cannot convert named port for an IP destination"):
		return "namedPortOnIP"
	case strings.Contains(s, "cannot have empty rule peer"):
		return "emptyRulePeer"
	case strings.Contains(s, "cannot have both IPBlock"):
		return "combinedRulePeer"
	case strings.Contains(s, "selector error"):
		return "badSelector"
	case strings.Contains(s, "NetworkPolicy") && strings.Contains(s, "already exists"):
		return "dupNetpol"
	case strings.Contains(s, "an AdminNetworkPolicy with name"):
		return "dupANP"
	case strings.Contains(s, "one already exists"):
		return "banpExists"
	case strings.Contains(s, "metadata.name=default"):
		return "banpName"
	case strings.Contains(s, "have same priority"), strings.Contains(s, "Invalid Priority Value"):
		return "anpPriority"
	case strings.Contains(s, "but with different set of labels"):
		return "ownerLabels"
	case strings.Contains(s, "is missing") && strings.Contains(s, "namespace"):
		return "missingNamespace"
	case strings.Contains(s, "exactly one field must be set in an AdminNetworkPolicyPort"):
		return "anpPorts"
	case strings.Contains(s, "field must be defined and contain at least one item"):
		return "anpRulePeers"
	case strings.Contains(s, "exactly one field must be set in a rule peer"):
		return "anpRuleFields"
	case strings.Contains(s, "exactly one field must be set in a subject"):
		return "anpSubject"
	case strings.Contains(s, "unrecognized action"):
		return "badAction"
	case strings.Contains(s, "could not find peer namespace"):
		return "notFoundNamespace"
	case strings.Contains(s, "could not find peer"):
		return "notFoundPeer"
	case strings.Contains(s, "is not a valid peer"):
		return "invalidPeer"
	case strings.Contains(s, "exposure analysis is disabled"):
		return "exposureWithANP"
	case strings.Contains(s, "no worker node or IP assigned"):
		return "badPod"
	}
	return "other"
}

func errSx(err error) *Sx { return Ls(At("err"), At(classifyErr(err))) }

func connStrOf(c connlist.Peer2PeerConnection) string {
	return us(common.ConnStrFromConnProperties(c.AllProtocolsAndPorts(), c.ProtocolsAndPorts()))
}

// listResultSx renders a connlist result in the canonical form shared with the Lean driver.
func listResultSx(conns []connlist.Peer2PeerConnection, peers []connlist.Peer) *Sx {
	ps := make([]string, 0, len(peers))
	for _, p := range peers {
		ps = append(ps, p.String())
	}
	sort.Strings(ps)
	pl := Ls(At("peers"))
	for _, p := range ps {
		pl.Add(At(p))
	}
	lines := make([]string, 0, len(conns))
	for _, c := range conns {
		lines = append(lines, c.Src().String()+" "+c.Dst().String()+" "+connStrOf(c))
	}
	sort.Strings(lines)
	r := Ls(At("ok"), pl)
	for _, l := range lines {
		f := strings.Split(l, " ")
		r.Add(Ls(At("e"), At(f[0]), At(f[1]), At(f[2])))
	}
	return r
}

func caseDir(env *execEnv, id string) string { return filepath.Join(env.work, "c"+id) }

// runList executes (list FOCUS|-) on the directory.
func runList(dir string, focus string, env *execEnv, caseStr string) (res *Sx, viols []Violation) {
	opts := []connlist.ConnlistAnalyzerOption{connlist.WithMuteErrsAndWarns()}
	if focus != "" {
		opts = append(opts, connlist.WithFocusWorkload(focus))
	}
	ca := connlist.NewConnlistAnalyzer(opts...)
	var conns []connlist.Peer2PeerConnection
	var peers []connlist.Peer
	var err error
	panicked := ""
	func() {
		defer func() {
			if e := recover(); e != nil {
				panicked = fmt.Sprint(e)
			}
		}()
		conns, peers, err = ca.ConnlistFromDirPath(dir)
	}()
	if panicked != "" {
		env.count("panics")
		return Ls(At("panic")), []Violation{{Prop: "C12", Kind: "panic-list", Detail: panicked, Case: caseStr}}
	}
	if err != nil {
		env.count("err:" + classifyErr(err))
		if classifyErr(err) == "other" {
			env.count("err-other:" + err.Error())
		}
		return errSx(err), nil
	}
	if focus != "" && conns == nil && peers == nil {
		return Ls(At("ok"), At("nofocus")), nil
	}
	env.count("list-ok")
	viols = append(viols, checkWellFormed(conns, peers, caseStr)...)
	return listResultSx(conns, peers), viols
}

func init() {
	families["list"] = family{
		gen: func(r *Rng, id int, tier string) *Sx {
			cfg := &genCfg{anp: r.P(55), banp: true, pods: true, namedOnIPPct: 8, maxNP: 4, maxWl: 5}
			w := genWorld(r, cfg)
			return Ls(At("wcase"), Ai(int64(id)), w.Sx(), Ls(At("list"), At("-")))
		},
		exec: execWorldCase,
	}
}

// execWorldCase: (wcase ID (world …) QUERY…)
func execWorldCase(c *Sx, env *execEnv) (*Sx, []Violation) {
	args := c.Args()
	out := Ls(At("wcase"), args[0])
	w, err := ParseWorld(args[1])
	if err != nil {
		return out.Add(At("bad-world")), nil
	}
	dir := caseDir(env, args[0].A)
	if err := w.WriteDir(dir, nil, nil); err != nil {
		return out.Add(At("io-error")), nil
	}
	var viols []Violation
	for _, q := range args[2:] {
		switch q.Head() {
		case "list":
			r, v := runList(dir, undash(q.L[1].A), env, c.String())
			out.Add(r)
			viols = append(viols, v...)
			noteWorldNontrivial(w, r, env)
		default:
			out.Add(At("bad-query"))
		}
	}
	return out, viols
}

// a world case is non-trivial when the analysis succeeded and at least one pair is restricted (not all
// connections) — i.e. some policy governs some queried pod; distinct = distinct result relation.
func noteWorldNontrivial(w *World, r *Sx, env *execEnv) {
	if r.Head() != "ok" {
		return
	}
	restricted := false
	npairs := 0
	for _, e := range r.Args() {
		if e.Head() == "e" {
			npairs++
			if e.L[3].A != "All_Connections" {
				restricted = true
			}
		}
	}
	npeers := 0
	if p := Field("peers", r.Args()); p != nil {
		npeers = len(p.L) - 1
	}
	if restricted || (npeers > 1 && npairs < npeers*(npeers-1)/2) {
		env.nontr[r.String()] = true
	}
}
