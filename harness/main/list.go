package main

// Family "list" (C01, C02, C05, C14, C16, C17, C19): worlds rendered to a directory and analysed by the real
// ConnlistFromDirPath; the observation is the sorted relation (src, dst, connection string) and the peers.

import (
	"fmt"
	"path/filepath"
	"regexp"
	"sort"
	"strconv"
	"strings"

	"github.com/np-guard/netpol-analyzer/pkg/netpol/connlist"
	"github.com/np-guard/netpol-analyzer/pkg/netpol/internal/common"
)

func classifyErr(err error) string {
	if err == nil {
		return ""
	}
	s := err.Error()
	switch {
	case strings.Contains(s, "cannot convert named port for an IP destination"):
		return "namedPortOnIP"
	case strings.Contains(s, "cannot have empty rule peer"):
		return "emptyRulePeer"
	case strings.Contains(s, "cannot have both IPBlock"):
		return "combinedRulePeer"
	case strings.Contains(s, "selector error"):
		return "badSelector"
	case strings.Contains(s, "NetworkPolicy") && strings.Contains(s, "already exists"):
		return "dupNetpol"
	case strings.Contains(s, "an AdminNetworkPolicy with name"):
		return "dupANP"
	case strings.Contains(s, "one already exists"):
		return "banpExists"
	case strings.Contains(s, "metadata.name=default"):
		return "banpName"
	case strings.Contains(s, "have same priority"), strings.Contains(s, "Invalid Priority Value"):
		return "anpPriority"
	case strings.Contains(s, "but with different set of labels"):
		return "ownerLabels"
	case strings.Contains(s, "is missing") && strings.Contains(s, "namespace"):
		return "missingNamespace"
	case strings.Contains(s, "exactly one field must be set in an AdminNetworkPolicyPort"):
		return "anpPorts"
	case strings.Contains(s, "field must be defined and contain at least one item"):
		return "anpRulePeers"
	case strings.Contains(s, "exactly one field must be set in a rule peer"):
		return "anpRuleFields"
	case strings.Contains(s, "exactly one field must be set in a subject"):
		return "anpSubject"
	case strings.Contains(s, "unrecognized action"):
		return "badAction"
	case strings.Contains(s, "could not find peer namespace"):
		return "notFoundNamespace"
	case strings.Contains(s, "could not find peer"):
		return "notFoundPeer"
	case strings.Contains(s, "is not a valid peer"):
		return "invalidPeer"
	case strings.Contains(s, "exposure analysis is disabled"):
		return "exposureWithANP"
	case strings.Contains(s, "no worker node or IP assigned"):
		return "badPod"
	}
	return "other"
}

func errSx(err error) *Sx { return Ls(At("err"), At(classifyErr(err))) }

func connStrOf(c connlist.Peer2PeerConnection) string {
	return us(common.ConnStrFromConnProperties(c.AllProtocolsAndPorts(), c.ProtocolsAndPorts()))
}

// listResultSx renders a connlist result in the canonical form shared with the Lean driver.
func listResultSx(conns []connlist.Peer2PeerConnection, peers []connlist.Peer) *Sx {
	ps := make([]string, 0, len(peers))
	for _, p := range peers {
		ps = append(ps, p.String())
	}
	sort.Strings(ps)
	pl := Ls(At("peers"))
	for _, p := range ps {
		pl.Add(At(p))
	}
	lines := make([]string, 0, len(conns))
	for _, c := range conns {
		lines = append(lines, c.Src().String()+" "+c.Dst().String()+" "+connStrOf(c))
	}
	sort.Strings(lines)
	r := Ls(At("ok"), pl)
	for _, l := range lines {
		f := strings.Split(l, " ")
		r.Add(Ls(At("e"), At(f[0]), At(f[1]), At(f[2])))
	}
	return r
}

func caseDir(env *execEnv, id string) string { return filepath.Join(env.work, "c"+id) }

// runList executes (list FOCUS|-) on the directory.
func runList(dir string, focus string, env *execEnv, caseStr string) (res *Sx, viols []Violation) {
	opts := []connlist.ConnlistAnalyzerOption{connlist.WithMuteErrsAndWarns()}
	if focus != "" {
		opts = append(opts, connlist.WithFocusWorkload(focus))
	}
	ca := connlist.NewConnlistAnalyzer(opts...)
	var conns []connlist.Peer2PeerConnection
	var peers []connlist.Peer
	var err error
	panicked := ""
	func() {
		defer func() {
			if e := recover(); e != nil {
				panicked = fmt.Sprint(e)
			}
		}()
		conns, peers, err = ca.ConnlistFromDirPath(dir)
	}()
	if panicked != "" {
		env.count("panics")
		return Ls(At("panic")), []Violation{{Prop: "C12", Kind: "panic-list", Detail: panicked, Case: caseStr}}
	}
	if err != nil {
		env.count("err:" + classifyErr(err))
		if classifyErr(err) == "other" {
			env.count("err-other:" + err.Error())
		}
		return errSx(err), nil
	}
	if focus != "" && conns == nil && peers == nil {
		var v []Violation
		warned := false
		for _, e := range ca.Errors() {
			if !e.IsSevere() && !e.IsFatal() && strings.Contains(e.Error().Error(), focus) {
				warned = true
			}
			if e.IsSevere() || e.IsFatal() {
				v = append(v, Violation{Prop: "C16", Kind: "absent-focus-error", Detail: "absent focus workload " + focus + " produced an error entry: " + e.Error().Error(), Case: caseStr})
			}
		}
		if !warned && focus != "ingress-controller" {
			v = append(v, Violation{Prop: "C16", Kind: "absent-focus-no-warning", Detail: "absent focus workload " + focus + ": empty result without a warning naming it", Case: caseStr})
		}
		return Ls(At("ok"), At("nofocus")), v
	}
	env.count("list-ok")
	viols = append(viols, checkWellFormed(conns, peers, caseStr)...)
	r := listResultSx(conns, peers)
	if b := blockedPeers(ca); len(b) > 0 {
		x := Ls(At("blocked"))
		for _, n := range b {
			x.Add(At(n))
		}
		r.Add(x)
	}
	if wd, perr := ParseWorldOfCase(caseStr); perr == nil {
		viols = append(viols, checkBlockedWarningsName(ca, wd, caseStr)...)
	}
	return r, viols
}

var blockedFullRe = regexp.MustCompile(`^(\S+) resource (\S+) specified workload ([^/\s]+)/\S+ as a backend, but network policies are blocking`)

// checkBlockedWarningsName (C10: "a warning names the blocked backend"): the resource a blocked-ingress warning names is an
// Ingress / Route of the input, of the kind the text says, in the namespace of the workload
func checkBlockedWarningsName(ca *connlist.ConnlistAnalyzer, w *World, caseStr string) []Violation {
	var v []Violation
	for _, e := range ca.Errors() {
		m := blockedFullRe.FindStringSubmatch(e.Error().Error())
		if m == nil {
			continue
		}
		kind, obj, ns := m[1], m[2], m[3]
		found := false
		for _, o := range w.Objs {
			switch {
			case o.Kind == "ing" && kind == "K8s-Ingress" && o.Ing.NS == ns && (obj == o.Ing.NS+"/"+o.Ing.Name || obj == o.Ing.Name):
				found = true
			case o.Kind == "route" && kind == "Route" && o.Route.NS == ns && (obj == o.Route.NS+"/"+o.Route.Name || obj == o.Route.Name):
				found = true
			}
		}
		if !found {
			v = append(v, Violation{Prop: "C10", Kind: "blocked-warning-names-no-such-resource", Detail: "the warning names " + kind + " " + obj + " for a workload of namespace " + ns + ": the input holds no such resource there: " + e.Error().Error()[:min(200, len(e.Error().Error()))], Case: caseStr})
			break
		}
	}
	return v
}

func init() {
	families["list"] = family{
		gen: func(r *Rng, id int, tier string) *Sx {
			cfg := &genCfg{anp: r.P(55), banp: true, pods: true, sameName: r.P(25), podPortsVary: true, complementPct: 5, namedOnIPPct: 8, maxNP: 4, maxWl: 5}
			w := genWorld(r, cfg)
			return Ls(At("wcase"), Ai(int64(id)), w.Sx(), Ls(At("list"), At("-")))
		},
		exec: execWorldCase,
	}
}

// execWorldCase: (wcase ID (world …) QUERY…)
func execWorldCase(c *Sx, env *execEnv) (*Sx, []Violation) {
	args := c.Args()
	out := Ls(At("wcase"), args[0])
	w, err := ParseWorld(args[1])
	if err != nil {
		return out.Add(At("bad-world")), nil
	}
	dir := caseDir(env, args[0].A)
	// every second case keeps its policies in a file of their own, below the top directory (the analysis reads the whole tree)
	var assign []int
	if id, e := strconv.Atoi(args[0].A); e == nil && id%2 == 1 {
		for _, o := range w.Objs {
			if o.Kind == "np" || o.Kind == "anp" || o.Kind == "banp" {
				assign = append(assign, 1)
			} else {
				assign = append(assign, 0)
			}
		}
	}
	if err := w.WriteDir(dir, assign, nil); err != nil {
		return out.Add(At("io-error")), nil
	}
	var viols []Violation
	var unfocused *Sx
	for _, q := range args[2:] {
		switch q.Head() {
		case "list":
			if len(q.L) < 2 {
				out.Add(At("bad-query"))
				continue
			}
			focus := undash(q.L[1].A)
			r, v := runList(dir, focus, env, c.String())
			out.Add(r)
			viols = append(viols, v...)
			noteWorldNontrivial(w, r, env)
			if focus == "" {
				unfocused = r
			} else if unfocused != nil && unfocused.Head() == "ok" {
				if d := checkFocusFilter(unfocused, r, focus); d != "" {
					viols = append(viols, Violation{Prop: "C16", Kind: "focus-not-a-filter", Detail: "focus " + focus + ": " + d, Case: c.String()})
				}
				env.count("focus-compared")
			} else if unfocused != nil && unfocused.Head() == "err" && r.String() != unfocused.String() {
				viols = append(viols, Violation{Prop: "C16", Kind: "focus-changes-error", Detail: "unfocused " + unfocused.String() + " focused " + r.String(), Case: c.String()})
			}
		case "listx":
			if len(q.L) < 2 {
				out.Add(At("bad-query"))
				continue
			}
			r, v := runListX(dir, undash(q.L[1].A), env, c.String())
			out.Add(r)
			viols = append(viols, v...)
			noteWorldNontrivial(w, r, env)
		case "evalall":
			r, v := evalAll(dir, w, env, c.String())
			out.Add(r)
			viols = append(viols, v...)
		default:
			out.Add(At("bad-query"))
		}
	}
	return out, viols
}

// a world case is non-trivial when the analysis succeeded and at least one pair is restricted (not all
// connections) — i.e. some policy governs some queried pod; distinct = distinct result relation.
func noteWorldNontrivial(w *World, r *Sx, env *execEnv) {
	if r.Head() != "ok" {
		return
	}
	restricted := false
	npairs := 0
	for _, e := range r.Args() {
		if e.Head() == "e" {
			npairs++
			if e.L[3].A != "All_Connections" {
				restricted = true
			}
		}
	}
	npeers := 0
	if p := Field("peers", r.Args()); p != nil {
		npeers = len(p.L) - 1
	}
	if restricted || (npeers > 1 && npairs < npeers*(npeers-1)/2) {
		env.nontr[r.String()] = true
	}
}

// peerMatchesFocus: a workload peer name ns/name[Kind] (or {ingress-controller}) against a focus string
func peerMatchesFocus(peer, focus string) bool {
	if strings.HasPrefix(peer, "{") {
		// the pod the ingress analysis adds is a workload like any other: it answers to its name and to namespace/name
		n := strings.Trim(peer, "{}")
		return n == focus || "ingress-controller-ns/"+n == focus
	}
	i := strings.LastIndex(peer, "[")
	if i < 0 {
		return false // IP range
	}
	nsName := peer[:i]
	j := strings.Index(nsName, "/")
	return nsName == focus || (j >= 0 && nsName[j+1:] == focus)
}

// checkFocusFilter: the focused result must be exactly the entries of the unfocused one with a matching end
func checkFocusFilter(unf, foc *Sx, focus string) string {
	want := map[string]bool{}
	for _, e := range unf.Args() {
		if e.Head() == "e" && (peerMatchesFocus(e.L[1].A, focus) || peerMatchesFocus(e.L[2].A, focus)) {
			want[e.String()] = true
		}
	}
	if foc.Head() == "err" {
		return "focused run fails with " + foc.String()
	}
	got := map[string]bool{}
	for _, e := range foc.Args() {
		if e.Head() == "e" {
			if got[e.String()] {
				return "duplicate entry " + e.String()
			}
			got[e.String()] = true
		}
	}
	for k := range want {
		if !got[k] {
			return "missing entry " + k
		}
	}
	for k := range got {
		if !want[k] {
			return "extra entry " + k
		}
	}
	return ""
}

func init() {
	families["focus"] = family{
		gen: func(r *Rng, id int, tier string) *Sx {
			cfg := &genCfg{anp: r.P(40), banp: true, pods: true, ingress: r.P(35), icName: true, namedOnIPPct: 0, maxNP: 4, maxWl: 5}
			w := genWorld(r, cfg)
			c := Ls(At("wcase"), Ai(int64(id)), w.Sx(), Ls(At("list"), At("-")))
			seen := map[string]bool{}
			add := func(f string) {
				if !seen[f] {
					seen[f] = true
					c.Add(Ls(At("list"), At(f)))
				}
			}
			for _, o := range w.Objs {
				switch o.Kind {
				case "wl":
					add(o.Wl.Name)
					if r.P(50) {
						add(o.Wl.NS + "/" + o.Wl.Name)
					}
				case "pod":
					n := o.Pod.OwnerName
					if n == "" {
						n = o.Pod.Name
					}
					add(n)
					if r.P(50) {
						add(o.Pod.NS + "/" + n)
					}
				}
			}
			add("nosuchworkload")
			if r.P(30) {
				add("ns0/nosuch")
			}
			if r.P(25) {
				add("/") // what the namespace/name form of an ip-block looks like
			}
			if r.P(35) {
				add("ingress-controller")
			}
			// near misses: proper suffixes / prefixes of an existing name and of an existing namespace/name
			var cands []string
			for f := range seen {
				cands = append(cands, f)
			}
			sort.Strings(cands) // map order must not reach the PRNG stream
			for _, f := range cands {
				if f == "-" || !r.P(25) {
					continue
				}
				switch r.Intn(4) {
				case 0:
					if len(f) > 1 {
						add(f[1:])
					}
				case 1:
					if len(f) > 1 {
						add(f[:len(f)-1])
					}
				case 2:
					add("x" + f)
				default:
					if i := strings.Index(f, "/"); i > 1 {
						add(f[i-1:]) // "0/w1" for ns0/w1
					}
				}
			}
			return c
		},
		exec: execWorldCase,
	}
}

var blockedRe = regexp.MustCompile(`specified workload (\S+) as a backend, but network policies are blocking`)

// blockedPeers: the workloads named by "blocked ingress" warnings
func blockedPeers(ca *connlist.ConnlistAnalyzer) []string {
	var r []string
	for _, e := range ca.Errors() {
		if m := blockedRe.FindStringSubmatch(e.Error().Error()); m != nil {
			r = append(r, m[1])
		}
	}
	sort.Strings(r)
	return r
}

func init() {
	families["ingress"] = family{
		gen: func(r *Rng, id int, tier string) *Sx {
			cfg := &genCfg{anp: r.P(25), banp: true, pods: true, ingress: true, icName: r.P(30), namedOnIPPct: 0, maxNP: 3, maxWl: 4}
			w := genWorld(r, cfg)
			c := Ls(At("wcase"), Ai(int64(id)), w.Sx(), Ls(At("list"), At("-")))
			if r.P(30) {
				c.Add(Ls(At("list"), At("ingress-controller")))
			}
			return c
		},
		exec: execWorldCase,
	}
}
