package main

// Family "render" (C01/C08): one world written as manifests in two ways that mean the same to Kubernetes — the plain
// rendering of every other family, and a variant (documents wrapped in `kind: List`, container ports spread over two
// containers, defaults written out, YAML block style instead of JSON flow style, namespaces given or defaulted). The two
// directories must give the same report in every format. K-diff: the model answers the world once for both.

import (
	"encoding/json"
	"fmt"
	"os"
	"path/filepath"
	"regexp"
	"sort"
	"strings"
)

var yamlPlainOK = regexp.MustCompile(`^[A-Za-z][A-Za-z0-9._/-]*$`)

// words YAML 1.1 reads as booleans or null when unquoted (any case): a writer quotes them
var yamlReserved = map[string]bool{"y": true, "n": true, "yes": true, "no": true, "true": true, "false": true, "on": true, "off": true, "null": true}

// yamlScalar: strings as a YAML writer emits them - plain when that is unambiguous, double-quoted (JSON-escaped) otherwise
func yamlScalar(c interface{}) string {
	if str, ok := c.(string); ok && yamlPlainOK.MatchString(str) && !yamlReserved[strings.ToLower(str)] {
		return str
	}
	s, _ := json.Marshal(c)
	return string(s)
}

// yamlBlock renders a JSON-like value as block-style YAML
func yamlBlock(v interface{}, indent int, b *strings.Builder) {
	pad := strings.Repeat("  ", indent)
	switch x := v.(type) {
	case map[string]interface{}:
		keys := make([]string, 0, len(x))
		for k := range x {
			keys = append(keys, k)
		}
		sort.Strings(keys)
		for _, k := range keys {
			kq := yamlScalar(k)
			switch c := x[k].(type) {
			case map[string]interface{}:
				if len(c) == 0 {
					fmt.Fprintf(b, "%s%s: {}\n", pad, kq)
				} else {
					fmt.Fprintf(b, "%s%s:\n", pad, kq)
					yamlBlock(c, indent+1, b)
				}
			case []interface{}:
				if len(c) == 0 {
					fmt.Fprintf(b, "%s%s: []\n", pad, kq)
				} else {
					fmt.Fprintf(b, "%s%s:\n", pad, kq)
					yamlBlock(c, indent, b)
				}
			default:
				fmt.Fprintf(b, "%s%s: %s\n", pad, kq, yamlScalar(c))
			}
		}
	case []interface{}:
		for _, e := range x {
			switch c := e.(type) {
			case map[string]interface{}, []interface{}:
				var sub strings.Builder
				yamlBlock(c, indent+1, &sub)
				lines := strings.Split(strings.TrimRight(sub.String(), "\n"), "\n")
				if len(lines) == 1 && lines[0] == "" {
					fmt.Fprintf(b, "%s- {}\n", pad)
					continue
				}
				for i, l := range lines {
					if i == 0 {
						fmt.Fprintf(b, "%s- %s\n", pad, strings.TrimPrefix(l, pad+"  "))
					} else {
						fmt.Fprintf(b, "%s\n", l)
					}
				}
			default:
				fmt.Fprintf(b, "%s- %s\n", pad, yamlScalar(c))
			}
		}
	}
}

// variantDocs applies meaning-preserving rewrites selected by bits to the plain documents of a world
func variantDocs(w *World, bits int) []interface{} {
	docs := worldDocs(w)
	for _, d := range docs {
		m, ok := d.(map[string]interface{})
		if !ok {
			continue
		}
		kind, _ := m["kind"].(string)
		md, _ := m["metadata"].(map[string]interface{})
		spec, _ := m["spec"].(map[string]interface{})
		// namespace default: given or omitted
		if bits&1 != 0 && md != nil {
			if ns, _ := md["namespace"].(string); ns == "default" && kind != "Namespace" {
				delete(md, "namespace")
			}
		}
		// container ports over two containers; protocol written out
		podSpecs := []map[string]interface{}{}
		if kind == "Pod" && spec != nil {
			podSpecs = append(podSpecs, spec)
		} else if spec != nil {
			if t, ok := spec["template"].(map[string]interface{}); ok {
				if ps, ok := t["spec"].(map[string]interface{}); ok {
					podSpecs = append(podSpecs, ps)
				}
			}
			if jt, ok := spec["jobTemplate"].(map[string]interface{}); ok {
				if js, ok := jt["spec"].(map[string]interface{}); ok {
					if t, ok := js["template"].(map[string]interface{}); ok {
						if ps, ok := t["spec"].(map[string]interface{}); ok {
							podSpecs = append(podSpecs, ps)
						}
					}
				}
			}
		}
		for _, ps := range podSpecs {
			cs, _ := ps["containers"].([]interface{})
			if len(cs) != 1 {
				continue
			}
			c0, _ := cs[0].(map[string]interface{})
			ports, _ := c0["ports"].([]interface{})
			if bits&2 != 0 {
				for _, p := range ports {
					if pm, ok := p.(map[string]interface{}); ok {
						if _, has := pm["protocol"]; !has {
							pm["protocol"] = "TCP"
						}
					}
				}
			}
			if bits&4 != 0 && len(ports) >= 2 {
				h := len(ports) / 2
				c0["ports"] = ports[:h]
				ps["containers"] = []interface{}{c0, map[string]interface{}{"name": "c2", "image": "img2", "ports": ports[h:]},
					map[string]interface{}{"name": "c3", "image": "img3"}}
			}
		}
		// NetworkPolicy: the defaulted policyTypes written out; rule port protocol written out
		if kind == "NetworkPolicy" && spec != nil && bits&8 != 0 {
			if _, has := spec["policyTypes"]; !has {
				t := []interface{}{"Ingress"}
				if eg, ok := spec["egress"].([]interface{}); ok && len(eg) > 0 {
					t = append(t, "Egress")
				}
				spec["policyTypes"] = t
			}
			for _, dir := range []string{"ingress", "egress"} {
				rules, _ := spec[dir].([]interface{})
				for _, r := range rules {
					rm, _ := r.(map[string]interface{})
					prts, _ := rm["ports"].([]interface{})
					for _, p := range prts {
						if pm, ok := p.(map[string]interface{}); ok {
							if _, has := pm["protocol"]; !has {
								pm["protocol"] = "TCP"
							}
						}
					}
				}
			}
		}
		// workloads: replicas 1 written out where absent (not for DaemonSet / CronJob / Job, which have no such field)
		if bits&16 != 0 && spec != nil && (kind == "Deployment" || kind == "ReplicaSet" || kind == "StatefulSet" || kind == "ReplicationController") {
			if _, has := spec["replicas"]; !has {
				spec["replicas"] = 1
			}
		}
	}
	return docs
}

func writeVariant(w *World, bits int, dir string) error {
	if err := os.RemoveAll(dir); err != nil {
		return err
	}
	if err := os.MkdirAll(dir, 0o755); err != nil {
		return err
	}
	docs := variantDocs(w, bits)
	var b strings.Builder
	if bits&32 != 0 {
		// everything inside one `kind: List`
		list := map[string]interface{}{"apiVersion": "v1", "kind": "List", "items": docs}
		if bits&64 != 0 {
			yamlBlock(list, 0, &b)
		} else {
			js, _ := json.Marshal(list)
			b.Write(js)
			b.WriteString("\n")
		}
	} else {
		for _, d := range docs {
			b.WriteString("---\n")
			if bits&64 != 0 {
				yamlBlock(d, 0, &b)
			} else {
				js, _ := json.Marshal(d)
				b.Write(js)
				b.WriteString("\n")
			}
		}
	}
	ext := "yaml"
	if bits&128 != 0 && bits&64 == 0 && bits&32 != 0 {
		ext = "json"
	}
	return os.WriteFile(filepath.Join(dir, "v00."+ext), []byte(b.String()), 0o644)
}

func execRenderCase(c *Sx, env *execEnv) (*Sx, []Violation) {
	args := c.Args()
	out := Ls(At("wcase"), args[0])
	if len(args) < 3 {
		return out.Add(At("bad-case")), nil
	}
	w, err := ParseWorld(args[1])
	if err != nil {
		return out.Add(At("bad-world")), nil
	}
	bits := atoi(args[0].A) % 256 // the variant travels in the case id (the model answers the world, whatever its rendering)
	dirA, dirB := caseDir(env, args[0].A+"a"), caseDir(env, args[0].A+"v")
	if w.WriteDir(dirA, nil, nil) != nil || writeVariant(w, bits, dirB) != nil {
		return out.Add(At("io-error")), nil
	}
	ra, va := runListRel(dirA, "", env, c.String())
	out.Add(ra.rawSx)
	viols := va
	env.count(fmt.Sprintf("render-variant:%d", bits))
	// the variant under recover first (a panic is C12's); a difference in the ingress-controller lines is C10's as well
	rb, vb := runListRel(dirB, "", env, c.String())
	viols = append(viols, vb...)
	if len(vb) > 0 {
		return out, viols
	}
	if sa, sb := ra.rawSx.String(), rb.rawSx.String(); sa != sb {
		d := fmt.Sprintf("variant %d: the result differs between two renderings of the same objects: %s vs %s", bits, sa[:min(300, len(sa))], sb[:min(300, len(sb))])
		viols = append(viols, Violation{Prop: "C01", Kind: "rendering-changes-result", Detail: d, Case: c.String()})
		ica, icb := ingressLinesOf(ra.rawSx), ingressLinesOf(rb.rawSx)
		if ica != icb {
			viols = append(viols, Violation{Prop: "C10", Kind: "rendering-changes-ingress-lines", Detail: fmt.Sprintf("variant %d: ingress-controller lines %q vs %q", bits, ica, icb), Case: c.String()})
		}
		return out, viols
	}
	for _, exposure := range []bool{false, true} {
		for _, f := range []string{"txt", "json"} {
			la := libList(dirA, f, "", exposure, false)
			lb := libList(dirB, f, "", exposure, false)
			if (la.err == nil) != (lb.err == nil) {
				viols = append(viols, Violation{Prop: "C01", Kind: "rendering-changes-result", Detail: fmt.Sprintf("variant %d, format %s exposure=%v: one rendering of the same objects fails (%v), the other does not (%v)", bits, f, exposure, la.err, lb.err), Case: c.String()})
			} else if la.err == nil && la.out != lb.out {
				viols = append(viols, Violation{Prop: "C01", Kind: "rendering-changes-result", Detail: fmt.Sprintf("variant %d, format %s exposure=%v: the report differs between two renderings of the same objects; first difference: %s", bits, f, exposure,
					firstDiff(strings.Split(la.out, "\n"), strings.Split(lb.out, "\n"))), Case: c.String()})
			}
			if len(viols) > 0 {
				return out, viols
			}
		}
	}
	return out, viols
}

// ingressLinesOf: the `{ingress-controller} => W` entries (and blocked warnings) of a canonical list result
func ingressLinesOf(r *Sx) string {
	var l []string
	for _, e := range r.Args() {
		if (e.Head() == "e" && len(e.L) > 1 && e.L[1].A == "{ingress-controller}") || e.Head() == "blocked" {
			l = append(l, e.String())
		}
	}
	return strings.Join(l, " ")
}

func init() {
	// renderi: the same relation on worlds that always hold Services / Ingresses / Routes (C10)
	families["renderi"] = family{
		gen: func(r *Rng, id int, tier string) *Sx {
			cfg := &genCfg{anp: r.P(20), banp: true, pods: true, ingress: true, namedOnIPPct: 0, maxNP: 3, maxWl: 4}
			w := genWorld(r, cfg)
			bits := 1 // the namespace `default` is always left out here
			for b := 2; b <= 128; b <<= 1 {
				if r.P(45) {
					bits |= b
				}
			}
			return Ls(At("wcase"), Ai(int64(id*256+bits)), w.Sx(), Ls(At("list"), At("-")))
		},
		exec: execRenderCase,
	}
	families["render"] = family{
		gen: func(r *Rng, id int, tier string) *Sx {
			cfg := &genCfg{anp: r.P(30), banp: true, pods: true, ingress: r.P(30), namedOnIPPct: 0, maxNP: 3, maxWl: 4}
			w := genWorld(r, cfg)
			bits := 0
			for b := 1; b <= 128; b <<= 1 {
				if r.P(45) {
					bits |= b
				}
			}
			return Ls(At("wcase"), Ai(int64(id*256+bits)), w.Sx(), Ls(At("list"), At("-")))
		},
		exec: execRenderCase,
	}
}
