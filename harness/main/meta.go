package main

// Metamorphic families: pairs of worlds (wpair) and multi-query worlds, judged by relations between runs of
// the real code (oracle P); every single run is also compared with the model (K-diff).
//   reexpress (C17), edits and respellings (C14), shuffles (C08), focus queries (C16)

import (
	"fmt"
	"regexp"
	"sort"
	"strings"

	"github.com/np-guard/netpol-analyzer/pkg/cli"
	"github.com/np-guard/netpol-analyzer/pkg/netpol/connlist"
	"github.com/np-guard/netpol-analyzer/pkg/netpol/diff"
	"github.com/np-guard/netpol-analyzer/pkg/netpol/internal/common"
)

// relation: connection sets indexed by (src, dst) with IP peers kept as ranges
type relation struct {
	conns   map[[2]string]*common.ConnectionSet
	wl      []string   // workload peer names
	ipr     [][2]int64 // ip ranges
	ok      bool
	errCls  string
	errText string
	rawSx   *Sx
	strings map[[2]string]string
}

func ipRangeOf(name string) (lo, hi int64, ok bool) {
	parts := strings.Split(name, "-")
	if len(parts) != 2 {
		return 0, 0, false
	}
	lo, ok1 := ip4(parts[0])
	hi, ok2 := ip4(parts[1])
	return lo, hi, ok1 && ok2 && strings.Count(name, ".") == 6
}

func runListRel(dir, focus string, env *execEnv, caseStr string) (*relation, []Violation) {
	opts := []connlist.ConnlistAnalyzerOption{connlist.WithMuteErrsAndWarns()}
	if focus != "" {
		opts = append(opts, connlist.WithFocusWorkload(focus))
	}
	ca := connlist.NewConnlistAnalyzer(opts...)
	rel := &relation{conns: map[[2]string]*common.ConnectionSet{}, strings: map[[2]string]string{}}
	var conns []connlist.Peer2PeerConnection
	var peers []connlist.Peer
	var err error
	panicked := ""
	func() {
		defer func() {
			if e := recover(); e != nil {
				panicked = fmt.Sprint(e)
			}
		}()
		conns, peers, err = ca.ConnlistFromDirPath(dir)
	}()
	if panicked != "" {
		rel.rawSx = Ls(At("panic"))
		return rel, []Violation{{Prop: "C12", Kind: "panic-list", Detail: panicked, Case: caseStr}}
	}
	if err != nil {
		rel.errCls = classifyErr(err)
		rel.errText = err.Error()
		rel.rawSx = errSx(err)
		env.count("err:" + rel.errCls)
		return rel, nil
	}
	rel.ok = true
	if focus != "" && conns == nil && peers == nil {
		rel.rawSx = Ls(At("ok"), At("nofocus"))
		return rel, nil
	}
	rel.rawSx = listResultSx(conns, peers)
	if b := blockedPeers(ca); len(b) > 0 {
		x := Ls(At("blocked"))
		for _, n := range b {
			x.Add(At(n))
		}
		rel.rawSx.Add(x)
	}
	for _, p := range peers {
		if p.IsPeerIPType() {
			lo, hi, _ := ipRangeOf(p.String())
			rel.ipr = append(rel.ipr, [2]int64{lo, hi})
		} else {
			rel.wl = append(rel.wl, p.String())
		}
	}
	for _, c := range conns {
		k := [2]string{c.Src().String(), c.Dst().String()}
		rel.conns[k] = connlist.GetConnectionSetFromP2PConnection(c)
		rel.strings[k] = connStrOf(c)
	}
	return rel, checkWellFormed(conns, peers, caseStr)
}

var kindSuffix = regexp.MustCompile(`\[[A-Za-z]+\]$`)

func eraseKind(s string) string { return kindSuffix.ReplaceAllString(s, "") }

// pointwise view: for every workload pair and every (workload, refined ip segment) the connection set
type pointView struct {
	m    map[string]*common.ConnectionSet
	keys []string
}

func (r *relation) rangeContaining(a int64) string {
	for _, x := range r.ipr {
		if x[0] <= a && a <= x[1] {
			return ipStr(x[0]) + "-" + ipStr(x[1])
		}
	}
	return ""
}

func ipStr(n int64) string {
	return fmt.Sprintf("%d.%d.%d.%d", (n>>24)&255, (n>>16)&255, (n>>8)&255, n&255)
}

// pointwise builds the pointwise view of r over the given refined segment starts; nameMap renames workloads.
func (r *relation) pointwise(segStarts []int64, rename func(string) string) *pointView {
	pv := &pointView{m: map[string]*common.ConnectionSet{}}
	get := func(s, d string) *common.ConnectionSet {
		if c, ok := r.conns[[2]string{s, d}]; ok {
			return c
		}
		return common.MakeConnectionSet(false)
	}
	for _, a := range r.wl {
		for _, b := range r.wl {
			if a != b {
				pv.m[rename(a)+" "+rename(b)] = get(a, b)
			}
		}
		for _, s := range segStarts {
			rn := r.rangeContaining(s)
			pv.m[rename(a)+" ip:"+ipStr(s)] = get(a, rn)
			pv.m["ip:"+ipStr(s)+" "+rename(a)] = get(rn, a)
		}
	}
	for k := range pv.m {
		pv.keys = append(pv.keys, k)
	}
	sort.Strings(pv.keys)
	return pv
}

func segStartsOf(rs ...*relation) []int64 {
	set := map[int64]bool{}
	for _, r := range rs {
		for _, x := range r.ipr {
			set[x[0]] = true
		}
	}
	var out []int64
	for k := range set {
		out = append(out, k)
	}
	sort.Slice(out, func(i, j int) bool { return out[i] < out[j] })
	return out
}

type cmpMode int

const (
	cmpEqual     cmpMode = iota
	cmpBSuperset         // B never loses a connection of A
	cmpBSubset           // B never gains a connection
)

// comparePointwise compares two relations pointwise; only keys accepted by `only` are judged.
func comparePointwise(a, b *relation, mode cmpMode, rename func(string) string, only func(key string) bool) string {
	segs := segStartsOf(a, b)
	pa, pb := a.pointwise(segs, rename), b.pointwise(segs, rename)
	keys := map[string]bool{}
	for _, k := range pa.keys {
		keys[k] = true
	}
	for _, k := range pb.keys {
		keys[k] = true
	}
	var ks []string
	for k := range keys {
		ks = append(ks, k)
	}
	sort.Strings(ks)
	for _, k := range ks {
		if only != nil && !only(k) {
			continue
		}
		ca, cb := pa.m[k], pb.m[k]
		if ca == nil {
			ca = common.MakeConnectionSet(false)
		}
		if cb == nil {
			cb = common.MakeConnectionSet(false)
		}
		switch mode {
		case cmpEqual:
			if !ca.Equal(cb) {
				return fmt.Sprintf("%s: %s vs %s", k, ca.String(), cb.String())
			}
		case cmpBSuperset:
			if !ca.ContainedIn(cb) {
				return fmt.Sprintf("%s: %s is not contained in %s", k, ca.String(), cb.String())
			}
		case cmpBSubset:
			if !cb.ContainedIn(ca) {
				return fmt.Sprintf("%s: %s is not contained in %s", k, cb.String(), ca.String())
			}
		}
	}
	return ""
}

// ---------------------------------------------------------------------------------------------
// wpair: (wpair ID KIND (world A) (world B) EXTRA…)

func execWPair(c *Sx, env *execEnv) (*Sx, []Violation) {
	args := c.Args()
	out := Ls(At("wpair"), args[0])
	if len(args) < 4 {
		return out.Add(At("bad-case")), nil
	}
	kind := args[1].A
	wa, err1 := ParseWorld(args[2])
	wb, err2 := ParseWorld(args[3])
	if err1 != nil || err2 != nil {
		return out.Add(At("bad-world")), nil
	}
	dirA, dirB := caseDir(env, args[0].A+"a"), caseDir(env, args[0].A+"b")
	var assignB []int
	if f := Field("files", args[4:]); f != nil { // distribution of B's documents over files
		for _, x := range f.Args() {
			assignB = append(assignB, atoi(x.A))
		}
		if len(assignB) != len(wb.Objs) {
			assignB = nil
		}
	}
	if wa.WriteDir(dirA, nil, nil) != nil || wb.WriteDir(dirB, assignB, nil) != nil {
		return out.Add(At("io-error")), nil
	}
	ra, va := runListRel(dirA, "", env, c.String())
	rb, vb := runListRel(dirB, "", env, c.String())
	out.Add(ra.rawSx, rb.rawSx)
	viols := append(va, vb...)
	rep := func(prop, k, detail string) {
		viols = append(viols, Violation{Prop: prop, Kind: k, Detail: detail, Case: c.String()})
	}
	env.count("pair:" + kind)
	evalCompare := func() {
	// eval (CheckIfAllowed on every pair of pods / probe addresses, every protocol, the probe ports) answers the same
	ea, _ := evalAll(dirA, wa, env, c.String())
	eb, _ := evalAll(dirB, wb, env, c.String())
	if sa, sb := ea.String(), eb.String(); sa != sb {
		k, d := "shuffle-changes-eval", "the answers of eval differ after permuting documents / files / rules: "+sa[:min(80, len(sa))]+" vs "+sb[:min(80, len(sb))]
		if len(sa) == len(sb) {
			onlyErr := true
			for i := range sa {
				if sa[i] != sb[i] && sa[i] != 'e' && sb[i] != 'e' {
					onlyErr = false
				}
			}
			if onlyErr && namedPortMayMeetIPGo(wa) {
				// every differing answer is an error on one side, and the input holds an egress rule with a named port that can
				// meet an IP destination (the documented error): which rule eval meets first decides
				k = "shuffle-changes-eval-named-port-error"
			}
		}
		rep("C08", k, d)
	}
	env.count("shuffle-eval-compared")
	// the eval command fills its engine object by object (InsertObject), from the Pod manifests only
	var podObjs []*PodObj
	for _, o := range wa.Objs {
		if o.Kind == "pod" {
			podObjs = append(podObjs, o.Pod)
		}
	}
	if len(podObjs) >= 2 {
		pa, pb := podObjs[0], podObjs[len(podObjs)-1]
		for _, q := range [][2]string{{"80", "tcp"}, {"53", "udp"}, {"8080", "tcp"}} {
			oa, ea := cli.VerifRun(evalArgs(dirA, pa.Name, pa.NS, pb.Name, pb.NS, "", "", q[0], q[1]))
			ob, eb := cli.VerifRun(evalArgs(dirB, pa.Name, pa.NS, pb.Name, pb.NS, "", "", q[0], q[1]))
			if (ea == nil) != (eb == nil) || oa != ob {
				k := "shuffle-changes-eval-command"
				if namedPortMayMeetIPGo(wa) && ((ea != nil && strings.Contains(ea.Error(), "named port")) || (eb != nil && strings.Contains(eb.Error(), "named port"))) {
					k = "shuffle-changes-eval-named-port-error"
				}
				rep("C08", k, fmt.Sprintf("eval %s/%s -> %s/%s %s/%s: one layout prints %q (error %v), the other %q (error %v)", pa.NS, pa.Name, pb.NS, pb.Name, q[1], q[0], firstLine(oa), ea, firstLine(ob), eb))
				break
			}
			env.count("shuffle-eval-command-compared")
		}
	}
	}
	if !ra.ok || !rb.ok {
		if kind == "shuffle" {
			evalCompare() // eval answers point by point also where list gives up on the whole input
		}
		if ra.ok != rb.ok || ra.errCls != rb.errCls {
			switch kind {
			case "reexpress":
				rep("C17", "reexpress-error-differs", fmt.Sprintf("A: ok=%v %s, B: ok=%v %s", ra.ok, ra.errCls, rb.ok, rb.errCls))
			case "shuffle":
				rep("C08", "shuffle-error-differs", fmt.Sprintf("A: ok=%v %s, B: ok=%v %s", ra.ok, ra.errCls, rb.ok, rb.errCls))
			}
		}
		return out, viols
	}
	id := func(s string) string { return s }
	sel := func(name string) []string { // names listed in EXTRA field
		var r []string
		if f := Field(name, args[4:]); f != nil {
			for _, x := range f.Args() {
				r = append(r, x.A)
			}
		}
		return r
	}
	switch kind {
	case "reexpress":
		if d := comparePointwise(ra, rb, cmpEqual, eraseKind, nil); d != "" {
			rep("C17", "reexpress-changes-connectivity", d)
		}
		if len(ra.wl) != len(rb.wl) {
			rep("C17", "reexpress-changes-peers", fmt.Sprintf("%v vs %v", ra.wl, rb.wl))
		}
	case "shuffle":
		if ra.rawSx.String() != rb.rawSx.String() {
			rep("C08", "shuffle-changes-result", "the relation differs after permuting documents / files / rules")
		}
		// the printed output, every format, with and without exposure analysis, is the same for both layouts
		admin := false
		for _, o := range wa.Objs {
			admin = admin || o.Kind == "anp" || o.Kind == "banp"
		}
		for _, exposure := range []bool{false, true} {
			if exposure && admin {
				continue // exposure analysis does not take admin policies
			}
			for _, f := range listFormats {
				la := libList(dirA, f, "", exposure, false)
				lb := libList(dirB, f, "", exposure, false)
				env.count("shuffle-output:" + f)
				if (la.err == nil) != (lb.err == nil) {
					rep("C08", "shuffle-changes-output", fmt.Sprintf("format %s exposure=%v: one layout fails (%v), the other does not (%v)", f, exposure, la.err, lb.err))
				} else if la.err == nil && la.out != lb.out && exposure && hasMultiValueReq(wa) && sortValuesLists(la.out) == sortValuesLists(lb.out) {
					// the only difference is the order of the values inside `Values:[…]` of a printed requirement
					rep("C08", "shuffle-changes-exposure-values-order", fmt.Sprintf("format %s exposure=%v: the exposure lines differ only in the order of the values of an In / NotIn requirement; first difference: %s",
						f, exposure, firstDiff(strings.Split(la.out, "\n"), strings.Split(lb.out, "\n"))))
				} else if la.err == nil && la.out != lb.out {
					rep("C08", "shuffle-changes-output", fmt.Sprintf("format %s exposure=%v: the output differs after permuting documents / files / rules; first difference: %s",
						f, exposure, firstDiff(strings.Split(la.out, "\n"), strings.Split(lb.out, "\n"))))
				}
			}
		}
		evalCompare()
		// and the two layouts have no connectivity difference
		da := diff.NewDiffAnalyzer(diff.WithLogger(nullLogger{}), diff.WithOutputFormat("txt"))
		if cd, err := da.ConnDiffFromDirPaths(dirA, dirB); err == nil && !cd.IsEmpty() {
			s, _ := da.ConnectivityDiffToString(cd)
			rep("C08", "shuffle-diff-not-empty", "diff between the two layouts of the same documents is not empty: "+firstLine(s))
		}
	case "respell":
		if d := comparePointwise(ra, rb, cmpEqual, id, nil); d != "" {
			rep("C14", "respelling-changes-connectivity", d)
		}
	case "addrule", "addpolicy-governed":
		if d := comparePointwise(ra, rb, cmpBSuperset, id, nil); d != "" {
			rep("C14", kind+"-removes-connection", d)
		}
	case "addpolicy-ungoverned":
		if d := comparePointwise(ra, rb, cmpBSubset, id, nil); d != "" {
			rep("C14", kind+"-adds-connection", d)
		}
	}
	// locality: connections whose source the new policy does not select for egress and whose destination it does
	// not select for ingress are unchanged (the generator lists the selected workloads)
	if kind == "addrule" || strings.HasPrefix(kind, "addpolicy") {
		selE, selI := sel("sel-egress"), sel("sel-ingress")
		inList := func(l []string, x string) bool {
			for _, y := range l {
				if y == x {
					return true
				}
			}
			return false
		}
		only := func(key string) bool {
			f := strings.Split(key, " ")
			return !inList(selE, f[0]) && !inList(selI, f[1])
		}
		if d := comparePointwise(ra, rb, cmpEqual, id, only); d != "" {
			rep("C14", "locality", d)
		}
	}
	env.nontr[kind+"|"+ra.rawSx.String()] = true
	return out, viols
}

// ---------------------------------------------------------------------------------------------
// generators

func cloneWorld(w *World) *World {
	s := w.Sx()
	c, _ := ParseWorld(s)
	return c
}

// reexpress: every workload / pod group of A gets another kind / replica count / bare pods with an owner
func genReexpress(r *Rng, id int, tier string) *Sx {
	cfg := &genCfg{anp: r.P(40), banp: true, pods: false, namedOnIPPct: 0, maxNP: 4, maxWl: 4}
	a := genWorld(r, cfg)
	b := cloneWorld(a)
	var objs []Obj
	for _, o := range b.Objs {
		if o.Kind != "wl" {
			objs = append(objs, o)
			continue
		}
		w := o.Wl
		switch r.Intn(3) {
		case 0: // other kind
			nw := *w
			nw.Kind = Pick(r, wlKinds)
			n := r.Intn(4)
			nw.Replicas = &n
			if r.P(30) {
				nw.Replicas = nil
			}
			objs = append(objs, Obj{Kind: "wl", Wl: &nw})
		case 1: // replicas only
			nw := *w
			n := r.Intn(4)
			nw.Replicas = &n
			objs = append(objs, Obj{Kind: "wl", Wl: &nw})
		default: // bare pods sharing one controller ownerReference
			k := Pick(r, []string{"ReplicaSet", "StatefulSet", "DaemonSet", "Job", "ReplicationController"})
			n := r.Range(1, 3)
			for j := 0; j < n; j++ {
				objs = append(objs, Obj{Kind: "pod", Pod: &PodObj{NS: w.NS, Name: fmt.Sprintf("%s-%c%d", w.Name, 'q', j), Labels: w.Labels, Ports: w.Ports,
					OwnerKind: k, OwnerName: w.Name, HostIP: "192.168.49.2"}})
			}
		}
	}
	b.Objs = objs
	if r.P(50) {
		Shuffle(r, b.Objs)
	}
	return Ls(At("wpair"), Ai(int64(id)), At("reexpress"), a.Sx(), b.Sx())
}

// shuffle: B holds the same documents in another order, spread over several files, rules/peers/ports permuted
func genShuffle(r *Rng, id int, tier string) *Sx {
	// namedOnIPPct 0: whether the documented named-port-on-IP error is raised depends on the rule order
	// (a rule allowing everything ends the walk before the named port is met); kept out of this relation
	cfg := &genCfg{anp: r.P(50), banp: true, pods: true, ingress: r.P(25), podPortsVary: true, complementPct: 8, namedOnIPPct: 8, samePrioPct: 12, dashTwinPct: 10, maxNP: 4, maxWl: 5}
	a := genWorld(r, cfg)
	b := cloneWorld(a)
	Shuffle(r, b.Objs)
	// the values of an In / NotIn requirement are a set: written in another order in B
	shuffleVals := func(s *Sel) {
		if s == nil {
			return
		}
		for i := range s.ME {
			if len(s.ME[i].Vals) > 1 && r.P(50) {
				Shuffle(r, s.ME[i].Vals)
			}
		}
	}
	for _, o := range b.Objs {
		if o.Kind == "np" {
			shuffleVals(&o.Np.PodSel)
			for _, rules := range [][]NPRule{o.Np.Ingress, o.Np.Egress} {
				for i := range rules {
					for j := range rules[i].Peers {
						shuffleVals(rules[i].Peers[j].PodSel)
						shuffleVals(rules[i].Peers[j].NsSel)
					}
				}
			}
			Shuffle(r, o.Np.Ingress)
			Shuffle(r, o.Np.Egress)
			for i := range o.Np.Ingress {
				Shuffle(r, o.Np.Ingress[i].Peers)
				Shuffle(r, o.Np.Ingress[i].Ports)
			}
			for i := range o.Np.Egress {
				Shuffle(r, o.Np.Egress[i].Peers)
				Shuffle(r, o.Np.Egress[i].Ports)
			}
		}
	}
	files := Ls(At("files"))
	nf := r.Range(1, 4)
	for range b.Objs {
		files.Add(Ai(int64(r.Intn(nf))))
	}
	return Ls(At("wpair"), Ai(int64(id)), At("shuffle"), a.Sx(), b.Sx(), files)
}

func init() {
	families["reexpress"] = family{gen: genReexpress, exec: execWPair}
	families["shuffle"] = family{gen: genShuffle, exec: execWPair}
}

func firstLine(s string) string {
	if i := strings.Index(s, "\n"); i >= 0 {
		return s[:i]
	}
	return s
}

// namedPortMayMeetIPGo: an egress rule with a named port and no peers or an ipBlock peer
func namedPortMayMeetIPGo(w *World) bool {
	for _, o := range w.Objs {
		if o.Kind != "np" {
			continue
		}
		for _, r := range o.Np.Egress {
			named, ip := false, len(r.Peers) == 0
			for _, p := range r.Ports {
				named = named || p.Kind == "name"
			}
			for _, p := range r.Peers {
				ip = ip || p.IsIP
			}
			if named && ip {
				return true
			}
		}
	}
	return false
}

var reqTok = regexp.MustCompile(`\{Key:[^{}]*\}`)
var reqRun = regexp.MustCompile(`\{Key:[^{}]*\}(,\{Key:[^{}]*\})+`)
var valuesList = regexp.MustCompile(`Values:\[([^\]]*)\]`)

// sortValuesLists rewrites every `Values:[a b c]` of a printed requirement with its values in sorted order
func sortValuesLists(s string) string {
	n := valuesList.ReplaceAllStringFunc(s, func(m string) string {
		vs := strings.Fields(m[len("Values:[") : len(m)-1])
		sort.Strings(vs)
		return "Values:[" + strings.Join(vs, " ") + "]"
	})
	// the lines are sorted by their text, so another order of the values may also move a line
	// the requirements of one selector are sorted by their text, values included: another order of the values may also
	// move a requirement among its neighbours
	n = reqRun.ReplaceAllStringFunc(n, func(m string) string {
		toks := reqTok.FindAllString(m, -1)
		sort.Strings(toks)
		return strings.Join(toks, ",")
	})
	// and two spellings of one requirement are two entries with two lines (one line twice when they are spelled alike)
	lines := strings.Split(n, "\n")
	sort.Strings(lines)
	var uniq []string
	for i, l := range lines {
		if i == 0 || l != lines[i-1] {
			uniq = append(uniq, l)
		}
	}
	return strings.Join(uniq, "\n")
}

// hasMultiValueReq: some NetworkPolicy selector holds a requirement with two or more values
func hasMultiValueReq(w *World) bool {
	multi := func(s *Sel) bool {
		if s == nil {
			return false
		}
		for _, q := range s.ME {
			if len(q.Vals) > 1 {
				return true
			}
		}
		return false
	}
	for _, o := range w.Objs {
		if o.Kind != "np" {
			continue
		}
		if multi(&o.Np.PodSel) {
			return true
		}
		for _, rules := range [][]NPRule{o.Np.Ingress, o.Np.Egress} {
			for _, r := range rules {
				for _, p := range r.Peers {
					if multi(p.PodSel) || multi(p.NsSel) {
						return true
					}
				}
			}
		}
	}
	return false
}
