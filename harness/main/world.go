package main

// World IR: the manifests of one generated input, printable as an S-expression (for the Lean driver)
// and as Kubernetes documents (for the real pipeline: scanner, parser, engine).

import (
	"encoding/json"
	"fmt"
	"os"
	"path/filepath"
	"sort"
	"strconv"
	"strings"
)

type KV [2]string

type Req struct {
	Key, Op string
	Vals    []string
}

type Sel struct {
	ML []KV
	ME []Req
}

type CPort struct {
	Name, Proto string
	Port        int
	NoProto     bool // the manifest gives no protocol (Proto holds TCP, the default)
}

type NsObj struct {
	Name   string
	Labels []KV
}

type Workload struct {
	Kind, NS, Name string
	Replicas       *int
	Labels         []KV
	Ports          []CPort
}

type PodObj struct {
	NS, Name             string
	Labels               []KV
	Ports                []CPort
	OwnerKind, OwnerName string
	HostIP               string
}

type NPPeer struct {
	IsIP          bool
	PodSel, NsSel *Sel
	CIDR          string
	Except        []string
}

type NPPort struct {
	Proto string // "" = not specified
	Kind  string // all | num | name
	Num   int
	End   *int
	Name  string
}

// EffNS: the namespace the policy belongs to (`default` when it is written without one)
func (n *NetPol) EffNS() string {
	if n.NS == "" {
		return "default"
	}
	return n.NS
}

type NPRule struct {
	Peers []NPPeer
	Ports []NPPort
}

type NetPol struct {
	UID             string // optional metadata.uid (the analysis ignores it)
	NS, Name        string
	PodSel          Sel
	Types           []string // "I", "E"
	Ingress, Egress []NPRule
}

type Subject struct {
	IsPods        bool
	NsSel, PodSel Sel
}

type APort struct {
	Kind  string // num | range | named
	Proto string
	A, B  int
	Name  string
}

type ARule struct {
	Name, Action string
	Peers        []Subject
	PortsNil     bool
	Ports        []APort
}

type ANP struct {
	Name            string
	Prio            int
	Subject         Subject
	Ingress, Egress []ARule
}

type BANP struct {
	Name            string
	Subject         Subject
	Ingress, Egress []ARule
}

type SvcPort struct {
	Name       string
	Port       int
	TargetNum  *int
	TargetName *string
	Proto      string
}

type Service struct {
	NS, Name string
	Selector []KV
	Ports    []SvcPort
}

type IngBackend struct {
	Svc      string
	PortNum  *int
	PortName *string
}

type Ingress struct {
	NS, Name string
	Default  *IngBackend
	Rules    [][]IngBackend
}

type Route struct {
	NS, Name       string
	ToKind, ToName string
	Alt            [][2]string
	TPortNum       *int
	TPortName      *string
}

// Obj is one document.
type Obj struct {
	Kind  string // ns wl pod np anp banp svc ing route
	Ns    *NsObj
	Wl    *Workload
	Pod   *PodObj
	Np    *NetPol
	Anp   *ANP
	Banp  *BANP
	Svc   *Service
	Ing   *Ingress
	Route *Route
}

type World struct {
	Objs []Obj
}

// ---------------------------------------------------------------------------------------------
// S-expression printing

// an empty label value is written as the atom ~
func tilde(s string) string {
	if s == "" {
		return "~"
	}
	return s
}

func untilde(s string) string {
	if s == "~" {
		return ""
	}
	return s
}

func sxLabels(head string, l []KV) *Sx {
	r := Ls(At(head))
	for _, kv := range l {
		r.Add(Ls(At(kv[0]), At(tilde(kv[1]))))
	}
	return r
}

func sxSel(s *Sel) *Sx {
	if s == nil {
		return At("nil")
	}
	me := Ls(At("me"))
	for _, r := range s.ME {
		x := Ls(At(r.Key), At(r.Op))
		for _, v := range r.Vals {
			x.Add(At(tilde(v)))
		}
		me.Add(x)
	}
	return Ls(At("sel"), sxLabels("ml", s.ML), me)
}

func dash(s string) string {
	if s == "" {
		return "-"
	}
	return s
}

func sxCPorts(ps []CPort) *Sx {
	r := Ls(At("cports"))
	for _, p := range ps {
		pr := p.Proto
		if pr == "" || p.NoProto {
			pr = "-" // written without a protocol; read as TCP by every consumer
		}
		r.Add(Ls(At(dash(p.Name)), At(pr), Ai(int64(p.Port))))
	}
	return r
}

func sxNPRule(r NPRule) *Sx {
	peers := Ls(At("peers"))
	for _, p := range r.Peers {
		if p.IsIP {
			ex := Ls(At("ex"))
			for _, e := range p.Except {
				ex.Add(At(e))
			}
			peers.Add(Ls(At("ip"), At(p.CIDR), ex))
		} else {
			peers.Add(Ls(At("sel"), sxSel(p.PodSel), sxSel(p.NsSel)))
		}
	}
	ports := Ls(At("ports"))
	for _, p := range r.Ports {
		switch p.Kind {
		case "all":
			ports.Add(Ls(At("port"), At(dash(p.Proto)), At("all")))
		case "num":
			e := At("-")
			if p.End != nil {
				e = Ai(int64(*p.End))
			}
			ports.Add(Ls(At("port"), At(dash(p.Proto)), At("num"), Ai(int64(p.Num)), e))
		case "name":
			ports.Add(Ls(At("port"), At(dash(p.Proto)), At("name"), At(p.Name)))
		}
	}
	return Ls(At("rule"), peers, ports)
}

func sxSubject(s Subject) *Sx {
	if s.IsPods {
		return Ls(At("pods"), sxSel(&s.NsSel), sxSel(&s.PodSel))
	}
	return Ls(At("nss"), sxSel(&s.NsSel))
}

func sxARules(head string, rs []ARule) *Sx {
	r := Ls(At(head))
	for _, a := range rs {
		peers := Ls(At("peers"))
		for _, p := range a.Peers {
			peers.Add(sxSubject(p))
		}
		ports := Ls(At("ports"))
		if a.PortsNil {
			ports.Add(At("nil"))
		}
		for _, p := range a.Ports {
			switch p.Kind {
			case "num":
				ports.Add(Ls(At("num"), At(dash(p.Proto)), Ai(int64(p.A))))
			case "range":
				ports.Add(Ls(At("range"), At(dash(p.Proto)), Ai(int64(p.A)), Ai(int64(p.B))))
			case "named":
				ports.Add(Ls(At("named"), At(p.Name)))
			}
		}
		r.Add(Ls(At("rule"), At(a.Name), At(a.Action), peers, ports))
	}
	return r
}

func optInt(p *int) *Sx {
	if p == nil {
		return At("-")
	}
	return Ai(int64(*p))
}

func optStr(p *string) *Sx {
	if p == nil {
		return At("-")
	}
	return At(*p)
}

func sxBackend(b IngBackend) *Sx {
	return Ls(At("bk"), At(b.Svc), optInt(b.PortNum), optStr(b.PortName))
}

func (o Obj) Sx() *Sx {
	switch o.Kind {
	case "ns":
		return Ls(At("ns"), At(o.Ns.Name), sxLabels("labels", o.Ns.Labels))
	case "wl":
		w := o.Wl
		return Ls(At("wl"), At(w.Kind), At(w.NS), At(w.Name), optInt(w.Replicas), sxLabels("labels", w.Labels), sxCPorts(w.Ports))
	case "pod":
		p := o.Pod
		owner := Ls(At("owner"))
		if p.OwnerName != "" {
			owner.Add(At(p.OwnerKind), At(p.OwnerName))
		}
		return Ls(At("pod"), At(p.NS), At(p.Name), sxLabels("labels", p.Labels), sxCPorts(p.Ports), owner, Ls(At("hostip"), At(p.HostIP)))
	case "np":
		n := o.Np
		types := Ls(At("types"))
		for _, t := range n.Types {
			types.Add(At(t))
		}
		in, eg := Ls(At("in")), Ls(At("eg"))
		for _, r := range n.Ingress {
			in.Add(sxNPRule(r))
		}
		for _, r := range n.Egress {
			eg.Add(sxNPRule(r))
		}
		r := Ls(At("np"), At(dash(n.NS)), At(n.Name), sxSel(&n.PodSel), types, in, eg)
		if n.UID != "" {
			r.Add(Ls(At("uid"), At(n.UID)))
		}
		return r
	case "anp":
		a := o.Anp
		return Ls(At("anp"), At(a.Name), Ai(int64(a.Prio)), sxSubject(a.Subject), sxARules("in", a.Ingress), sxARules("eg", a.Egress))
	case "banp":
		b := o.Banp
		return Ls(At("banp"), At(b.Name), sxSubject(b.Subject), sxARules("in", b.Ingress), sxARules("eg", b.Egress))
	case "svc":
		s := o.Svc
		sp := Ls(At("sports"))
		for _, p := range s.Ports {
			pr := p.Proto
			if pr == "" {
				pr = "TCP"
			}
			sp.Add(Ls(At(dash(p.Name)), Ai(int64(p.Port)), optInt(p.TargetNum), optStr(p.TargetName), At(pr)))
		}
		return Ls(At("svc"), At(s.NS), At(s.Name), sxLabels("selector", s.Selector), sp)
	case "ing":
		i := o.Ing
		d := Ls(At("default"))
		if i.Default == nil {
			d.Add(At("-"))
		} else {
			d.Add(sxBackend(*i.Default))
		}
		rules := Ls(At("rules"))
		for _, r := range i.Rules {
			x := Ls(At("r"))
			for _, b := range r {
				x.Add(sxBackend(b))
			}
			rules.Add(x)
		}
		return Ls(At("ing"), At(i.NS), At(i.Name), d, rules)
	case "route":
		r := o.Route
		alt := Ls(At("alt"))
		for _, a := range r.Alt {
			alt.Add(Ls(At(dash(a[0])), At(a[1])))
		}
		return Ls(At("route"), At(r.NS), At(r.Name), Ls(At("to"), At(dash(r.ToKind)), At(r.ToName)), alt, Ls(At("tport"), optInt(r.TPortNum), optStr(r.TPortName)))
	}
	return At("bad-obj")
}

func (w *World) Sx() *Sx {
	r := Ls(At("world"))
	for _, o := range w.Objs {
		r.Add(o.Sx())
	}
	return r
}

// ---------------------------------------------------------------------------------------------
// S-expression parsing (replay, shrinking)

func pLabels(s *Sx) []KV {
	var r []KV
	for _, kv := range s.Args() {
		r = append(r, KV{kv.L[0].A, untilde(kv.L[1].A)})
	}
	return r
}

func pSel(s *Sx) *Sel {
	if !s.IsList {
		return nil
	}
	r := &Sel{ML: pLabels(s.L[1])}
	for _, x := range s.L[2].Args() {
		q := Req{Key: x.L[0].A, Op: x.L[1].A}
		for _, v := range x.L[2:] {
			q.Vals = append(q.Vals, untilde(v.A))
		}
		r.ME = append(r.ME, q)
	}
	return r
}

func pSelNN(s *Sx) Sel {
	if r := pSel(s); r != nil {
		return *r
	}
	return Sel{}
}

func undash(s string) string {
	if s == "-" {
		return ""
	}
	return s
}

func atoi(s string) int { n, _ := strconv.Atoi(s); return n }

func pOptInt(s *Sx) *int {
	if s.A == "-" {
		return nil
	}
	n := atoi(s.A)
	return &n
}

func pOptStr(s *Sx) *string {
	if s.A == "-" {
		return nil
	}
	v := s.A
	return &v
}

func pCPorts(s *Sx) []CPort {
	var r []CPort
	for _, c := range s.Args() {
		cp := CPort{Name: undash(c.L[0].A), Proto: c.L[1].A, Port: atoi(c.L[2].A)}
		if cp.Proto == "-" {
			cp.Proto, cp.NoProto = "TCP", true
		}
		r = append(r, cp)
	}
	return r
}

func pNPRule(s *Sx) NPRule {
	var r NPRule
	for _, p := range s.L[1].Args() {
		if p.Head() == "ip" {
			x := NPPeer{IsIP: true, CIDR: p.L[1].A}
			for _, e := range p.L[2].Args() {
				x.Except = append(x.Except, e.A)
			}
			r.Peers = append(r.Peers, x)
		} else {
			r.Peers = append(r.Peers, NPPeer{PodSel: pSel(p.L[1]), NsSel: pSel(p.L[2])})
		}
	}
	for _, p := range s.L[2].Args() {
		x := NPPort{Proto: undash(p.L[1].A), Kind: p.L[2].A}
		switch x.Kind {
		case "num":
			x.Num = atoi(p.L[3].A)
			x.End = pOptInt(p.L[4])
		case "name":
			x.Name = p.L[3].A
		}
		r.Ports = append(r.Ports, x)
	}
	return r
}

func pSubject(s *Sx) Subject {
	if s.Head() == "pods" {
		return Subject{IsPods: true, NsSel: pSelNN(s.L[1]), PodSel: pSelNN(s.L[2])}
	}
	return Subject{NsSel: pSelNN(s.L[1])}
}

func pARules(s *Sx) []ARule {
	var r []ARule
	for _, a := range s.Args() {
		x := ARule{Name: a.L[1].A, Action: a.L[2].A}
		for _, p := range a.L[3].Args() {
			x.Peers = append(x.Peers, pSubject(p))
		}
		for _, p := range a.L[4].Args() {
			if !p.IsList {
				x.PortsNil = true
				continue
			}
			switch p.Head() {
			case "num":
				x.Ports = append(x.Ports, APort{Kind: "num", Proto: undash(p.L[1].A), A: atoi(p.L[2].A)})
			case "range":
				x.Ports = append(x.Ports, APort{Kind: "range", Proto: undash(p.L[1].A), A: atoi(p.L[2].A), B: atoi(p.L[3].A)})
			case "named":
				x.Ports = append(x.Ports, APort{Kind: "named", Name: p.L[1].A})
			}
		}
		r = append(r, x)
	}
	return r
}

func pBackend(s *Sx) IngBackend {
	return IngBackend{Svc: s.L[1].A, PortNum: pOptInt(s.L[2]), PortName: pOptStr(s.L[3])}
}

func ParseWorld(s *Sx) (w *World, err error) {
	defer func() {
		if e := recover(); e != nil {
			err = fmt.Errorf("bad world: %v", e)
		}
	}()
	w = &World{}
	for _, o := range s.Args() {
		switch o.Head() {
		case "ns":
			w.Objs = append(w.Objs, Obj{Kind: "ns", Ns: &NsObj{Name: o.L[1].A, Labels: pLabels(o.L[2])}})
		case "wl":
			w.Objs = append(w.Objs, Obj{Kind: "wl", Wl: &Workload{Kind: o.L[1].A, NS: o.L[2].A, Name: o.L[3].A, Replicas: pOptInt(o.L[4]),
				Labels: pLabels(o.L[5]), Ports: pCPorts(o.L[6])}})
		case "pod":
			p := &PodObj{NS: o.L[1].A, Name: o.L[2].A, Labels: pLabels(o.L[3]), Ports: pCPorts(o.L[4]), HostIP: o.L[6].L[1].A}
			if len(o.L[5].L) == 3 {
				p.OwnerKind, p.OwnerName = o.L[5].L[1].A, o.L[5].L[2].A
			}
			w.Objs = append(w.Objs, Obj{Kind: "pod", Pod: p})
		case "np":
			n := &NetPol{NS: undash(o.L[1].A), Name: o.L[2].A, PodSel: pSelNN(o.L[3])}
			for _, t := range o.L[4].Args() {
				n.Types = append(n.Types, t.A)
			}
			for _, r := range o.L[5].Args() {
				n.Ingress = append(n.Ingress, pNPRule(r))
			}
			for _, r := range o.L[6].Args() {
				n.Egress = append(n.Egress, pNPRule(r))
			}
			if len(o.L) > 7 && o.L[7].Head() == "uid" {
				n.UID = o.L[7].L[1].A
			}
			w.Objs = append(w.Objs, Obj{Kind: "np", Np: n})
		case "anp":
			w.Objs = append(w.Objs, Obj{Kind: "anp", Anp: &ANP{Name: o.L[1].A, Prio: atoi(o.L[2].A), Subject: pSubject(o.L[3]),
				Ingress: pARules(o.L[4]), Egress: pARules(o.L[5])}})
		case "banp":
			w.Objs = append(w.Objs, Obj{Kind: "banp", Banp: &BANP{Name: o.L[1].A, Subject: pSubject(o.L[2]),
				Ingress: pARules(o.L[3]), Egress: pARules(o.L[4])}})
		case "svc":
			s := &Service{NS: o.L[1].A, Name: o.L[2].A, Selector: pLabels(o.L[3])}
			for _, p := range o.L[4].Args() {
				s.Ports = append(s.Ports, SvcPort{Name: undash(p.L[0].A), Port: atoi(p.L[1].A), TargetNum: pOptInt(p.L[2]), TargetName: pOptStr(p.L[3]), Proto: p.L[4].A})
			}
			w.Objs = append(w.Objs, Obj{Kind: "svc", Svc: s})
		case "ing":
			i := &Ingress{NS: o.L[1].A, Name: o.L[2].A}
			if d := o.L[3].L[1]; d.IsList {
				b := pBackend(d)
				i.Default = &b
			}
			for _, r := range o.L[4].Args() {
				var bs []IngBackend
				for _, b := range r.Args() {
					bs = append(bs, pBackend(b))
				}
				i.Rules = append(i.Rules, bs)
			}
			w.Objs = append(w.Objs, Obj{Kind: "ing", Ing: i})
		case "route":
			r := &Route{NS: o.L[1].A, Name: o.L[2].A, ToKind: undash(o.L[3].L[1].A), ToName: o.L[3].L[2].A,
				TPortNum: pOptInt(o.L[5].L[1]), TPortName: pOptStr(o.L[5].L[2])}
			for _, a := range o.L[4].Args() {
				r.Alt = append(r.Alt, [2]string{undash(a.L[0].A), a.L[1].A})
			}
			w.Objs = append(w.Objs, Obj{Kind: "route", Route: r})
		default:
			return nil, fmt.Errorf("unknown object %s", o.Head())
		}
	}
	return w, nil
}

// ---------------------------------------------------------------------------------------------
// Kubernetes documents (JSON, which is YAML: no scalar is ever retyped)

type M = map[string]interface{}

func jLabels(l []KV) M {
	m := M{}
	for _, kv := range l {
		m[kv[0]] = kv[1]
	}
	return m
}

func jSel(s *Sel) interface{} {
	if s == nil {
		return nil
	}
	m := M{}
	if len(s.ML) > 0 {
		m["matchLabels"] = jLabels(s.ML)
	}
	if len(s.ME) > 0 {
		var ex []M
		for _, r := range s.ME {
			e := M{"key": r.Key, "operator": r.Op}
			if len(r.Vals) > 0 {
				e["values"] = r.Vals
			}
			ex = append(ex, e)
		}
		m["matchExpressions"] = ex
	}
	return m
}

func jCPorts(ps []CPort) []M {
	var r []M
	for _, p := range ps {
		m := M{"containerPort": p.Port}
		if p.Name != "" {
			m["name"] = p.Name
		}
		if p.Proto != "" && !p.NoProto {
			m["protocol"] = p.Proto
		}
		r = append(r, m)
	}
	return r
}

func jPodSpec(ps []CPort) M {
	c := M{"name": "c", "image": "img"}
	if len(ps) > 0 {
		c["ports"] = jCPorts(ps)
	}
	spec := M{"containers": []M{c}}
	// one pod spec in three also carries a native sidecar (an init container that keeps running) declaring, on other numbers,
	// the port names the containers do not use: the analysis reads the ports of spec.containers only, for a workload's template
	// and for a Pod alike, so nothing may change - and a rule naming such a port must open nothing in either form
	sum := len(ps)
	used := map[string]bool{}
	for _, p := range ps {
		sum += p.Port
		used[p.Name] = true
	}
	if sum%3 == 1 {
		var sp []M
		for i, nm := range portNames {
			if !used[nm] {
				sp = append(sp, M{"containerPort": 15090 + i, "name": nm})
			}
		}
		side := M{"name": "side", "image": "img", "restartPolicy": "Always"}
		if len(sp) > 0 {
			side["ports"] = sp
		}
		spec["initContainers"] = []M{side}
	}
	return spec
}

// wlAPIVersion: the group/version a workload manifest is written with; every fifth Deployment / ReplicaSet / DaemonSet comes in
// the legacy group extensions/v1beta1 (old charts and exports), which the tool reads as the same kind
func wlAPIVersion(w *Workload) string {
	if w.Kind == "Deployment" || w.Kind == "ReplicaSet" || w.Kind == "DaemonSet" {
		h := 0
		for _, c := range w.NS + "/" + w.Name {
			h = (h*31 + int(c)) % 1000003
		}
		if h%5 == 0 {
			return "extensions/v1beta1"
		}
	}
	return wlAPI[w.Kind]
}

func jNPRules(rs []NPRule, peerKey string) []M {
	out := []M{}
	for _, r := range rs {
		m := M{}
		if len(r.Peers) > 0 {
			var ps []M
			for _, p := range r.Peers {
				if p.IsIP {
					b := M{"cidr": p.CIDR}
					if len(p.Except) > 0 {
						b["except"] = p.Except
					}
					ps = append(ps, M{"ipBlock": b})
				} else {
					x := M{}
					if p.PodSel != nil {
						x["podSelector"] = jSel(p.PodSel)
					}
					if p.NsSel != nil {
						x["namespaceSelector"] = jSel(p.NsSel)
					}
					ps = append(ps, x)
				}
			}
			m[peerKey] = ps
		}
		if len(r.Ports) > 0 {
			var ps []M
			for _, p := range r.Ports {
				x := M{}
				if p.Proto != "" {
					x["protocol"] = p.Proto
				}
				switch p.Kind {
				case "num":
					x["port"] = p.Num
					if p.End != nil {
						x["endPort"] = *p.End
					}
				case "name":
					x["port"] = p.Name
				}
				ps = append(ps, x)
			}
			m["ports"] = ps
		}
		out = append(out, m)
	}
	return out
}

func jSubject(s Subject) M {
	if s.IsPods {
		return M{"pods": M{"namespaceSelector": jSel(&s.NsSel), "podSelector": jSel(&s.PodSel)}}
	}
	return M{"namespaces": jSel(&s.NsSel)}
}

func jARules(rs []ARule, peerKey string) []M {
	var out []M
	for _, r := range rs {
		m := M{"name": r.Name, "action": r.Action}
		var ps []M
		for _, p := range r.Peers {
			ps = append(ps, jSubject(p))
		}
		m[peerKey] = ps
		if !r.PortsNil {
			pp := []M{}
			for _, p := range r.Ports {
				switch p.Kind {
				case "num":
					x := M{"port": p.A}
					if p.Proto != "" {
						x["protocol"] = p.Proto
					}
					pp = append(pp, M{"portNumber": x})
				case "range":
					x := M{"start": p.A, "end": p.B}
					if p.Proto != "" {
						x["protocol"] = p.Proto
					}
					pp = append(pp, M{"portRange": x})
				case "named":
					pp = append(pp, M{"namedPort": p.Name})
				}
			}
			m["ports"] = pp
		}
		out = append(out, m)
	}
	return out
}

func jBackend(b IngBackend) M {
	port := M{}
	if b.PortNum != nil {
		port["number"] = *b.PortNum
	}
	if b.PortName != nil {
		port["name"] = *b.PortName
	}
	return M{"service": M{"name": b.Svc, "port": port}}
}

var wlAPI = map[string]string{"Deployment": "apps/v1", "ReplicaSet": "apps/v1", "StatefulSet": "apps/v1", "DaemonSet": "apps/v1",
	"Job": "batch/v1", "CronJob": "batch/v1", "ReplicationController": "v1"}

// Doc renders one object as a Kubernetes document.
func (o Obj) Doc() M {
	switch o.Kind {
	case "ns":
		md := M{"name": o.Ns.Name}
		if len(o.Ns.Labels) > 0 {
			md["labels"] = jLabels(o.Ns.Labels)
		}
		return M{"apiVersion": "v1", "kind": "Namespace", "metadata": md}
	case "wl":
		w := o.Wl
		tmpl := M{"metadata": M{"labels": jLabels(w.Labels)}, "spec": jPodSpec(w.Ports)}
		spec := M{}
		switch w.Kind {
		case "CronJob":
			spec = M{"schedule": "* * * * *", "jobTemplate": M{"spec": M{"template": tmpl}}}
		case "Job":
			spec = M{"template": tmpl}
			if w.Replicas != nil {
				spec["parallelism"] = *w.Replicas
			}
		case "DaemonSet":
			spec = M{"selector": M{"matchLabels": jLabels(w.Labels)}, "template": tmpl}
		case "ReplicationController":
			spec = M{"selector": jLabels(w.Labels), "template": tmpl}
			if w.Replicas != nil {
				spec["replicas"] = *w.Replicas
			}
		default:
			spec = M{"selector": M{"matchLabels": jLabels(w.Labels)}, "template": tmpl}
			if w.Replicas != nil {
				spec["replicas"] = *w.Replicas
			}
		}
		return M{"apiVersion": wlAPIVersion(w), "kind": w.Kind, "metadata": M{"name": w.Name, "namespace": w.NS}, "spec": spec}
	case "pod":
		p := o.Pod
		md := M{"name": p.Name, "namespace": p.NS}
		if len(p.Labels) > 0 {
			md["labels"] = jLabels(p.Labels)
		}
		if p.OwnerName != "" {
			api := wlAPI[p.OwnerKind]
			if api == "" {
				api = "v1"
			}
			ctl := M{"apiVersion": api, "kind": p.OwnerKind, "name": p.OwnerName, "uid": "u-" + p.OwnerName, "controller": true}
			// rendering only (the analysis reads the controller reference alone): further, non-controlling owners around it
			other := M{"apiVersion": "scheduling.x-k8s.io/v1alpha1", "kind": "PodGroup", "name": "pg-" + p.OwnerName, "uid": "u-pg"}
			switch strHash(p.NS+"/"+p.Name) % 5 {
			case 0:
				md["ownerReferences"] = []M{other, ctl}
			case 1:
				other["controller"] = false
				md["ownerReferences"] = []M{other, ctl, other}
			case 2:
				md["ownerReferences"] = []M{ctl, other}
			default:
				md["ownerReferences"] = []M{ctl}
			}
		} else if strHash(p.NS+"/"+p.Name)%4 == 0 {
			// owners, none of them a controller: a stand-alone pod
			md["ownerReferences"] = []M{{"apiVersion": "v1", "kind": "ConfigMap", "name": "cm-" + p.Name, "uid": "u-cm", "controller": false},
				{"apiVersion": "batch/v1", "kind": "Job", "name": "j-" + p.Name, "uid": "u-j"}}
		}
		return M{"apiVersion": "v1", "kind": "Pod", "metadata": md, "spec": jPodSpec(p.Ports),
			"status": M{"hostIP": p.HostIP, "podIPs": []M{{"ip": "10.244.0.5"}}}}
	case "np":
		n := o.Np
		spec := M{"podSelector": jSel(&n.PodSel)}
		if len(n.Types) > 0 {
			var t []string
			for _, x := range n.Types {
				if x == "I" {
					t = append(t, "Ingress")
				} else {
					t = append(t, "Egress")
				}
			}
			spec["policyTypes"] = t
		}
		// an empty rule list is sometimes written out ("egress: []" is a non-nil empty slice after decoding; it means
		// no rule, exactly like an absent field - also for the defaulting of policyTypes)
		h := strHash(n.NS + "/" + n.Name)
		if len(n.Ingress) > 0 {
			spec["ingress"] = jNPRules(n.Ingress, "from")
		} else if h%3 == 0 {
			spec["ingress"] = []M{}
		}
		if len(n.Egress) > 0 {
			spec["egress"] = jNPRules(n.Egress, "to")
		} else if h%2 == 0 {
			spec["egress"] = []M{}
		}
		md := M{"name": n.Name}
		if n.NS != "" { // no metadata.namespace: the policy belongs to the namespace `default`
			md["namespace"] = n.NS
		}
		if n.UID != "" {
			md["uid"] = n.UID
		}
		// every fifth NetworkPolicy comes in the legacy group extensions/v1beta1 (same schema; old charts and exports)
		api, nh := "networking.k8s.io/v1", 0
		for _, c := range n.NS + "/" + n.Name {
			nh = (nh*31 + int(c)) % 1000003
		}
		if nh%5 == 0 {
			api = "extensions/v1beta1"
		}
		return M{"apiVersion": api, "kind": "NetworkPolicy", "metadata": md, "spec": spec}
	case "anp":
		a := o.Anp
		spec := M{"priority": a.Prio, "subject": jSubject(a.Subject)}
		if len(a.Ingress) > 0 {
			spec["ingress"] = jARules(a.Ingress, "from")
		}
		if len(a.Egress) > 0 {
			spec["egress"] = jARules(a.Egress, "to")
		}
		return M{"apiVersion": "policy.networking.k8s.io/v1alpha1", "kind": "AdminNetworkPolicy", "metadata": M{"name": a.Name}, "spec": spec}
	case "banp":
		b := o.Banp
		spec := M{"subject": jSubject(b.Subject)}
		if len(b.Ingress) > 0 {
			spec["ingress"] = jARules(b.Ingress, "from")
		}
		if len(b.Egress) > 0 {
			spec["egress"] = jARules(b.Egress, "to")
		}
		return M{"apiVersion": "policy.networking.k8s.io/v1alpha1", "kind": "BaselineAdminNetworkPolicy", "metadata": M{"name": b.Name}, "spec": spec}
	case "svc":
		s := o.Svc
		var ps []M
		for _, p := range s.Ports {
			m := M{"port": p.Port}
			if p.Name != "" {
				m["name"] = p.Name
			}
			if p.TargetNum != nil {
				m["targetPort"] = *p.TargetNum
			}
			if p.TargetName != nil {
				m["targetPort"] = *p.TargetName
			}
			if p.Proto != "" {
				m["protocol"] = p.Proto
			}
			ps = append(ps, m)
		}
		spec := M{"ports": ps}
		if len(s.Selector) > 0 {
			spec["selector"] = jLabels(s.Selector)
		} else if strHash(s.NS+"/"+s.Name)%2 == 0 {
			spec["selector"] = M{} // an empty selector is written out: like an absent one it selects no pod
		}
		return M{"apiVersion": "v1", "kind": "Service", "metadata": M{"name": s.Name, "namespace": s.NS}, "spec": spec}
	case "ing":
		i := o.Ing
		spec := M{}
		if i.Default != nil {
			spec["defaultBackend"] = jBackend(*i.Default)
		}
		var rules []M
		for _, r := range i.Rules {
			var paths []M
			for _, b := range r {
				paths = append(paths, M{"path": "/", "pathType": "Prefix", "backend": jBackend(b)})
			}
			rules = append(rules, M{"host": "h.example.com", "http": M{"paths": paths}})
		}
		if len(rules) > 0 {
			spec["rules"] = rules
		}
		return M{"apiVersion": "networking.k8s.io/v1", "kind": "Ingress", "metadata": M{"name": i.Name, "namespace": i.NS}, "spec": spec}
	case "route":
		r := o.Route
		spec := M{"to": M{"kind": r.ToKind, "name": r.ToName}}
		var alt []M
		for _, a := range r.Alt {
			alt = append(alt, M{"kind": a[0], "name": a[1]})
		}
		if len(alt) > 0 {
			spec["alternateBackends"] = alt
		}
		if r.TPortNum != nil {
			spec["port"] = M{"targetPort": *r.TPortNum}
		}
		if r.TPortName != nil {
			spec["port"] = M{"targetPort": *r.TPortName}
		}
		return M{"apiVersion": "route.openshift.io/v1", "kind": "Route", "metadata": M{"name": r.Name, "namespace": r.NS}, "spec": spec}
	}
	return M{}
}

// WriteDir renders the world into dir: documents are distributed over the given number of files
// (assignment[i] = file index of object i; nil = one file).
func (w *World) WriteDir(dir string, assignment []int, extra map[string]string) error {
	if err := os.RemoveAll(dir); err != nil {
		return err
	}
	if err := os.MkdirAll(dir, 0o755); err != nil {
		return err
	}
	files := map[int]*strings.Builder{}
	for i, o := range w.Objs {
		fi := 0
		if assignment != nil {
			fi = assignment[i]
		}
		b, ok := files[fi]
		if !ok {
			b = &strings.Builder{}
			files[fi] = b
		}
		js, err := json.Marshal(o.Doc())
		if err != nil {
			return err
		}
		b.WriteString("---\n")
		b.Write(js)
		b.WriteString("\n")
	}
	keys := []int{}
	for k := range files {
		keys = append(keys, k)
	}
	sort.Ints(keys)
	for _, k := range keys {
		// every second and third file lives below the top directory: the commands read a directory with everything under it
		sub := [3]string{"", "sub", filepath.Join("deep", "er")}[k%3]
		if sub != "" {
			if err := os.MkdirAll(filepath.Join(dir, sub), 0o755); err != nil {
				return err
			}
		}
		if err := os.WriteFile(filepath.Join(dir, sub, fmt.Sprintf("f%02d.yaml", k)), []byte(files[k].String()), 0o644); err != nil {
			return err
		}
	}
	for name, content := range extra {
		p := filepath.Join(dir, name)
		_ = os.MkdirAll(filepath.Dir(p), 0o755)
		if err := os.WriteFile(p, []byte(content), 0o644); err != nil {
			return err
		}
	}
	return nil
}

// strHash: FNV-1a, for rendering choices that must be a function of the object (never of a PRNG or a map order)
func strHash(x string) uint32 {
	h := uint32(2166136261)
	for i := 0; i < len(x); i++ {
		h ^= uint32(x[i])
		h *= 16777619
	}
	return h
}
