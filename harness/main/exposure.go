package main

// Family "exposure" (C06, C07): NetworkPolicy-only worlds analysed with WithExposureAnalysis.
// Observation: the base report and the exposed peers in canonical form. Oracle P (here): the base report equals
// the one without the flag. Soundness / completeness against hypothetical pods is judged by the Lean specification
// (wspec-exp, see check).

import (
	"fmt"
	"sort"
	"strings"

	metav1 "k8s.io/apimachinery/pkg/apis/meta/v1"

	"github.com/np-guard/netpol-analyzer/pkg/logger"
	"github.com/np-guard/netpol-analyzer/pkg/manifests/fsscanner"
	"github.com/np-guard/netpol-analyzer/pkg/manifests/parser"
	"github.com/np-guard/netpol-analyzer/pkg/netpol/connlist"
	"github.com/np-guard/netpol-analyzer/pkg/netpol/eval"
	"github.com/np-guard/netpol-analyzer/pkg/netpol/internal/common"
)

// ParseWorldOfCase extracts the world of a (wcase ID (world …) …) line.
func ParseWorldOfCase(caseStr string) (*World, error) {
	c, err := ParseSx(caseStr)
	if err != nil || len(c.Args()) < 2 {
		return nil, fmt.Errorf("bad case")
	}
	return ParseWorld(c.Args()[1])
}

var hypoDirSeq = 0

// engineOfWorld renders the world and builds a policy engine as list does.
func engineOfWorld(w *World) (*eval.PolicyEngine, error) {
	hypoDirSeq++
	dir := fmt.Sprintf("scratch-hypo-%d", hypoDirSeq%4)
	if err := w.WriteDir(dir, nil, nil); err != nil {
		return nil, err
	}
	infos, _ := fsscanner.GetResourceInfosFromDirPath([]string{dir}, true, false)
	objs, _ := parser.ResourceInfoListToK8sObjectsList(infos, logger.NewDefaultLoggerWithVerbosity(logger.LowVerbosity), true)
	return eval.NewPolicyEngineWithObjects(objs)
}

func selOfLabelSelector(ls metav1.LabelSelector) *Sel {
	s := &Sel{}
	var keys []string
	for k := range ls.MatchLabels {
		keys = append(keys, k)
	}
	sort.Strings(keys)
	for _, k := range keys {
		s.ML = append(s.ML, KV{k, ls.MatchLabels[k]})
	}
	for _, e := range ls.MatchExpressions {
		s.ME = append(s.ME, Req{Key: e.Key, Op: string(e.Operator), Vals: append([]string{}, e.Values...)})
	}
	return s
}

func xEntrySx(x connlist.XgressExposureData) *Sx {
	kind := "SEL"
	ns, pod := selOfLabelSelector(x.NamespaceLabels()), selOfLabelSelector(x.PodLabels())
	if x.IsExposedToEntireCluster() {
		kind = "ALL"
		ns, pod = &Sel{}, &Sel{}
	}
	return Ls(At("ent"), At(kind), sxSel(ns), sxSel(pod), At(us(x.PotentialConnectivity().(*common.ConnectionSet).String())))
}

func sortedSx(l []*Sx) []*Sx {
	sort.Slice(l, func(i, j int) bool { return l[i].String() < l[j].String() })
	return l
}

func runListX(dir, focus string, env *execEnv, caseStr string) (*Sx, []Violation) {
	opts := []connlist.ConnlistAnalyzerOption{connlist.WithMuteErrsAndWarns(), connlist.WithExposureAnalysis()}
	if focus != "" {
		opts = append(opts, connlist.WithFocusWorkload(focus))
	}
	ca := connlist.NewConnlistAnalyzer(opts...)
	var conns []connlist.Peer2PeerConnection
	var peers []connlist.Peer
	var err error
	if p := guarded("list-exposure", func() { conns, peers, err = ca.ConnlistFromDirPath(dir) }); p != "" {
		return Ls(At("panic")), []Violation{{Prop: "C12", Kind: "panic-list-exposure", Detail: p, Case: caseStr}}
	}
	if err != nil {
		env.count("xerr:" + classifyErr(err))
		var v []Violation
		// the one documented refusal: admin policies in the input (the analysis is disabled, nothing is reported)
		refusal := false
		if classifyErr(err) == "exposureWithANP" {
			if wd, perr := ParseWorldOfCase(caseStr); perr == nil {
				for _, o := range wd.Objs {
					if o.Kind == "anp" || o.Kind == "banp" {
						refusal = true
					}
				}
			}
		}
		if refusal {
			env.count("refused-with-admin-policies")
		} else if base, _ := runListRel(dir, focus, env, caseStr); base.ok {
			v = append(v, Violation{Prop: "C06", Kind: "exposure-fails-where-list-succeeds", Detail: "with the flag the analysis fails with " + err.Error() + " ; without it a report is produced", Case: caseStr})
		}
		return errSx(err), v
	}
	if focus != "" && conns == nil && peers == nil {
		return Ls(At("ok"), At("nofocus")), nil
	}
	r := listResultSx(conns, peers)
	var viols []Violation
	var xs []*Sx
	for _, ep := range ca.ExposedPeers() {
		ing := Ls(At("ing"), At(b01(ep.IsProtectedByIngressNetpols())))
		var l []*Sx
		for _, x := range ep.IngressExposure() {
			l = append(l, xEntrySx(x))
		}
		ing.Add(sortedSx(l)...)
		eg := Ls(At("eg"), At(b01(ep.IsProtectedByEgressNetpols())))
		l = nil
		for _, x := range ep.EgressExposure() {
			l = append(l, xEntrySx(x))
		}
		eg.Add(sortedSx(l)...)
		xs = append(xs, Ls(At("x"), At(ep.ExposedPeer().String()), ing, eg))
		env.count("exposed-peers")
	}
	r.Add(sortedSx(xs)...)
	// C11 at the output level: an entry whose structured form is the three full port ranges (and nothing by name)
	// is the full set and is written `All Connections`
	for _, ep := range ca.ExposedPeers() {
		for _, x := range append(append([]connlist.XgressExposureData{}, ep.IngressExposure()...), ep.EgressExposure()...) {
			c := x.PotentialConnectivity()
			m := c.ProtocolsAndPortsMap()
			full := len(m) == 3
			for proto, ranges := range m {
				if len(ranges) != 1 || ranges[0].Start() != 1 || ranges[0].End() != 65535 {
					full = false
				}
				prevEnd := int64(-10)
				for _, rg := range ranges {
					if rg.Start() < 1 || rg.End() > 65535 || rg.Start() > rg.End() || rg.Start() <= prevEnd+1 {
						viols = append(viols, Violation{Prop: "C05", Kind: "exposure-entry-ranges-not-canonical", Detail: fmt.Sprintf("exposure entry of %s: %s %d-%d after end %d", ep.ExposedPeer().String(), proto, rg.Start(), rg.End(), prevEnd), Case: caseStr})
					}
					prevEnd = rg.End()
				}
			}
			if cs, ok := c.(*common.ConnectionSet); ok && full && len(cs.GetNamedPorts()) == 0 && fmt.Sprint(c) != "All Connections" {
				d := fmt.Sprintf("exposure entry of %s holds every port of every protocol and no port name, and is written %q", ep.ExposedPeer().String(), fmt.Sprint(c))
				viols = append(viols, Violation{Prop: "C11", Kind: "full-set-not-recognised-in-output", Detail: d, Case: caseStr},
					Violation{Prop: "C05", Kind: "all-spelled-as-three-ranges-in-exposure-entry", Detail: d, Case: caseStr})
			}
		}
	}
	// C06: the base connectivity is the one reported without the flag
	if focus == "" {
		base, _ := runListRel(dir, "", env, caseStr)
		if base.ok {
			b := base.rawSx.String()
			var only []string
			for _, e := range r.Args() {
				if e.Head() == "e" || e.Head() == "peers" {
					only = append(only, e.String())
				}
			}
			if "(ok "+strings.Join(only, " ")+")" != b {
				viols = append(viols, Violation{Prop: "C06", Kind: "exposure-changes-base-report", Detail: fmt.Sprintf("without the flag %s ; with it %s", b[:min(400, len(b))], strings.Join(only, " ")[:min(400, len(strings.Join(only, " ")))]), Case: caseStr})
			}
		} else if base.errCls != "" {
			viols = append(viols, Violation{Prop: "C06", Kind: "exposure-hides-error", Detail: "without the flag list fails with " + base.errCls + ", with it a report is produced", Case: caseStr})
		}
		if wd, perr := ParseWorldOfCase(caseStr); perr == nil {
			viols = append(viols, checkExposureAgainstHypotheticalPods(wd, ca, env, caseStr)...)
		}
	}
	return r, viols
}

func init() {
	families["exposure"] = family{
		gen: func(r *Rng, id int, tier string) *Sx {
			// admin policies in one input out of eight: the tool refuses the exposure analysis then (an error, never a report
			// that leaves them out)
			adm := r.P(12)
			cfg := &genCfg{anp: adm, banp: adm, pods: true, twinPct: 20, collidePct: 30, complementPct: 10, repName: true, namedOnIPPct: 6, maxNP: 4, maxWl: 4}
			w := genWorld(r, cfg)
			c := Ls(At("wcase"), Ai(int64(id)), w.Sx(), Ls(At("listx"), At("-")))
			if r.P(15) {
				for _, o := range w.Objs {
					if o.Kind == "wl" {
						c.Add(Ls(At("listx"), At(o.Wl.Name)))
						break
					}
				}
			}
			return c
		},
		exec: execWorldCase,
	}
}

// ---------------------------------------------------------------------------------------------
// Oracle P for C06 (soundness) and C07 (completeness): hypothetical pods are added to the input as real pods and
// the real engine (without the exposure flag) is asked what the workload's policies allow towards / from them.

type hypoPod struct {
	ns       string
	nsLabels []KV // labels of the namespace object to add (nil: an existing namespace is used as it is)
	newNs    bool
	labels   []KV
	ports    []CPort
}

func labelSelMatches(ls metav1.LabelSelector, l []KV) bool {
	return selMatchesGo(selOfLabelSelector(ls), l)
}

// vocabulary of the selectors of all policies: key -> values
func selectorVocabulary(w *World) (podV, nsV map[string]map[string]bool, names map[string]bool) {
	podV, nsV, names = map[string]map[string]bool{}, map[string]map[string]bool{}, map[string]bool{}
	add := func(m map[string]map[string]bool, s *Sel) {
		if s == nil {
			return
		}
		for _, kv := range s.ML {
			if m[kv[0]] == nil {
				m[kv[0]] = map[string]bool{}
			}
			m[kv[0]][kv[1]] = true
		}
		for _, r := range s.ME {
			if m[r.Key] == nil {
				m[r.Key] = map[string]bool{}
			}
			for _, v := range r.Vals {
				m[r.Key][v] = true
			}
		}
	}
	for _, o := range w.Objs {
		if o.Kind != "np" {
			continue
		}
		for _, rules := range [][]NPRule{o.Np.Ingress, o.Np.Egress} {
			for _, r := range rules {
				for _, p := range r.Peers {
					add(podV, p.PodSel)
					add(nsV, p.NsSel)
				}
				for _, q := range r.Ports {
					if q.Kind == "name" {
						names[q.Name] = true
					}
				}
			}
		}
	}
	return
}

func labelCombos(v map[string]map[string]bool, max int) [][]KV {
	var keys []string
	for k := range v {
		if k != "kubernetes.io/metadata.name" {
			keys = append(keys, k)
		}
	}
	sort.Strings(keys)
	if len(keys) > 3 {
		keys = keys[:3]
	}
	res := [][]KV{{}}
	for _, k := range keys {
		var vals []string
		for x := range v[k] {
			vals = append(vals, x)
		}
		sort.Strings(vals)
		vals = append(vals, "zzfresh")
		var next [][]KV
		for _, base := range res {
			next = append(next, base) // key absent
			for _, x := range vals {
				next = append(next, append(append([]KV{}, base...), KV{k, x}))
			}
		}
		res = next
		if len(res) > max {
			res = res[:max]
		}
	}
	return res
}

func checkExposureAgainstHypotheticalPods(w *World, ca *connlist.ConnlistAnalyzer, env *execEnv, caseStr string) []Violation {
	var viols []Violation
	rep := func(prop, kind, detail string) {
		for _, v := range viols {
			if v.Kind == kind {
				return
			}
		}
		viols = append(viols, Violation{Prop: prop, Kind: kind, Detail: detail, Case: caseStr})
	}
	podV, nsV, names := selectorVocabulary(w)
	// existing namespaces with their labels
	nsLabels := map[string][]KV{}
	for _, o := range w.Objs {
		switch o.Kind {
		case "wl":
			if _, ok := nsLabels[o.Wl.NS]; !ok {
				nsLabels[o.Wl.NS] = nil
			}
		case "pod":
			if _, ok := nsLabels[o.Pod.NS]; !ok {
				nsLabels[o.Pod.NS] = nil
			}
		case "np":
			if _, ok := nsLabels[o.Np.EffNS()]; !ok {
				nsLabels[o.Np.EffNS()] = nil
			}
		}
	}
	for _, o := range w.Objs {
		if o.Kind == "ns" {
			nsLabels[o.Ns.Name] = o.Ns.Labels
		}
	}
	withName := func(l []KV, name string) []KV {
		if _, ok := lblGet(l, "kubernetes.io/metadata.name"); ok {
			return l
		}
		return append(append([]KV{}, l...), KV{"kubernetes.io/metadata.name", name})
	}
	// named-port declarations of a hypothetical pod: every mentioned name on a fresh number
	var decl []CPort
	var nameList []string
	for n := range names {
		nameList = append(nameList, n)
	}
	sort.Strings(nameList)
	for i, n := range nameList {
		decl = append(decl, CPort{Name: n, Proto: []string{"TCP", "UDP", "SCTP"}[i%3], Port: 7001 + i})
	}
	var hs []hypoPod
	podCombos := labelCombos(podV, 40)
	var nsNames []string
	for n := range nsLabels {
		nsNames = append(nsNames, n)
	}
	sort.Strings(nsNames)
	for _, pl := range podCombos {
		for _, n := range nsNames {
			hs = append(hs, hypoPod{ns: n, labels: pl, ports: decl})
		}
		for i, nl := range labelCombos(nsV, 6) {
			hs = append(hs, hypoPod{ns: fmt.Sprintf("zznew%d", i), nsLabels: nl, newNs: true, labels: pl, ports: decl})
		}
	}
	if len(hs) > 160 {
		hs = hs[:160]
	}
	// real workloads: standing pod names and labels
	type realW struct {
		peer, pod, ns string
		labels        []KV
		ports         []CPort
	}
	var reals []realW
	seen := map[string]bool{}
	for _, o := range w.Objs {
		switch o.Kind {
		case "wl":
			p := wlPeerName(o.Wl)
			if !seen[p] {
				seen[p] = true
				reals = append(reals, realW{p, o.Wl.NS + "/" + o.Wl.Name + "-1", o.Wl.NS, o.Wl.Labels, o.Wl.Ports})
			}
		case "pod":
			name, kind := o.Pod.OwnerName, o.Pod.OwnerKind
			if name == "" {
				name, kind = o.Pod.Name, "Pod"
			}
			p := o.Pod.NS + "/" + name + "[" + kind + "]"
			if !seen[p] {
				seen[p] = true
				reals = append(reals, realW{p, o.Pod.NS + "/" + o.Pod.Name, o.Pod.NS, o.Pod.Labels, o.Pod.Ports})
			}
		}
	}
	// documented omission (C07): selector pairs made of label equalities only that an existing workload satisfies
	omitted := func(h hypoPod, hNsLabels []KV) bool {
		for _, o := range w.Objs {
			if o.Kind != "np" {
				continue
			}
			for _, rules := range [][]NPRule{o.Np.Ingress, o.Np.Egress} {
				for _, r := range rules {
					for _, p := range r.Peers {
						if p.IsIP || p.PodSel == nil || len(p.PodSel.ME) > 0 || len(p.PodSel.ML) == 0 {
							continue
						}
						nsSel := p.NsSel
						if nsSel == nil {
							nsSel = &Sel{ML: []KV{{"kubernetes.io/metadata.name", o.Np.EffNS()}}}
						}
						if len(nsSel.ME) > 0 || len(nsSel.ML) == 0 {
							continue
						}
						if !selMatchesGo(p.PodSel, h.labels) || !selMatchesGo(nsSel, hNsLabels) {
							continue
						}
						for _, rw := range reals {
							if selMatchesGo(p.PodSel, rw.labels) && selMatchesGo(nsSel, withName(nsLabels[rw.ns], rw.ns)) {
								return true
							}
						}
					}
				}
			}
		}
		return false
	}
	exposed := map[string]connlist.ExposedPeer{}
	for _, ep := range ca.ExposedPeers() {
		exposed[ep.ExposedPeer().String()] = ep
	}
	// an ingress entry names ports of the workload itself: a port name it prints is declared by the workload for that
	// protocol (a rule's named port that the workload does not declare opens nothing on it)
	for _, rw := range reals {
		ep, ok := exposed[rw.peer]
		if !ok {
			continue
		}
		for _, it := range ep.IngressExposure() {
			cur := ""
			for _, f := range strings.Split(fmt.Sprint(it.PotentialConnectivity()), ",") {
				if i := strings.Index(f, " "); i > 0 {
					cur, f = f[:i], f[i+1:]
				}
				if f == "" || (f[0] >= '0' && f[0] <= '9') || cur == "All" || cur == "No" {
					continue
				}
				declared := false
				for _, cp := range rw.ports {
					pr := cp.Proto
					if pr == "" {
						pr = "TCP"
					}
					declared = declared || (cp.Name == f && pr == cur)
				}
				if !declared {
					rep("C06", "ingress-exposure-undeclared-named-port", fmt.Sprintf("the ingress exposure of %s prints %s %s, a port name the workload does not declare for that protocol: no connection stands behind it", rw.peer, cur, f))
				}
			}
		}
	}
	for hi, h := range hs {
		hNs := withName(h.nsLabels, h.ns)
		if !h.newNs {
			hNs = withName(nsLabels[h.ns], h.ns)
		}
		w2 := &World{Objs: append([]Obj{}, w.Objs...)}
		if h.newNs {
			w2.Objs = append(w2.Objs, Obj{Kind: "ns", Ns: &NsObj{Name: h.ns, Labels: h.nsLabels}})
		}
		w2.Objs = append(w2.Objs, Obj{Kind: "pod", Pod: &PodObj{NS: h.ns, Name: "zzhypo", Labels: h.labels, Ports: h.ports, HostIP: "192.168.49.9"}})
		pe, err := engineOfWorld(w2)
		if err != nil {
			continue
		}
		env.stats["hypothetical-pods"]++
		hName := h.ns + "/zzhypo"
		for _, rw := range reals {
			ep, isExposed := exposed[rw.peer]
			for _, isIngress := range []bool{true, false} {
				src, dst := rw.pod, hName
				if isIngress {
					src, dst = hName, rw.pod
				}
				side, serr := eval.VerifXgressConns(pe, src, dst, isIngress)
				if serr != nil {
					continue
				}
				var entries []connlist.XgressExposureData
				protected := true
				if isExposed {
					if isIngress {
						entries, protected = ep.IngressExposure(), ep.IsProtectedByIngressNetpols()
					} else {
						entries, protected = ep.EgressExposure(), ep.IsProtectedByEgressNetpols()
					}
				}
				dirS := map[bool]string{true: "ingress", false: "egress"}[isIngress]
				covered := common.MakeConnectionSet(false)
				for _, e := range entries {
					if !e.IsExposedToEntireCluster() && !(labelSelMatches(e.NamespaceLabels(), hNs) && labelSelMatches(e.PodLabels(), h.labels)) {
						continue
					}
					conn := e.PotentialConnectivity().(*common.ConnectionSet)
					// a named port means that name as declared by the hypothetical pod
					// (the hypothetical pod is the destination only on egress; on ingress a remaining name is a port name the
					// workload itself does not declare and denotes nothing)
					resolved := conn.Copy()
					namedOf := conn.GetNamedPorts()
					if isIngress {
						namedOf = nil
					}
					for pr, ns := range namedOf {
						for _, n := range ns {
							for _, d := range h.ports {
								if d.Name == n && d.Proto == string(pr) {
									ps := common.MakePortSet(false)
									ps.AddPortRange(int64(d.Port), int64(d.Port))
									resolved.AddConnection(pr, ps)
								}
							}
						}
					}
					numeric := connlist.GetConnectionSetFromP2PConnection(connlist.NewPeer2PeerConnection(nil, nil, resolved.IsAllConnections(), resolved.ProtocolsAndPortsMap()))
					dropEmptyEntries(numeric)
					covered.Union(numeric)
					// C06 soundness: the workload's policies allow at least the reported connections
					if !numeric.ContainedIn(side) {
						rep("C06", "exposure-entry-not-realizable", fmt.Sprintf("%s %s entry (%s / %s : %s): a pod with labels %v in namespace %s %v is only allowed %s", rw.peer, dirS,
							sxSel(selOfLabelSelector(e.NamespaceLabels())).String(), sxSel(selOfLabelSelector(e.PodLabels())).String(), conn.String(), h.labels, h.ns, hNs, side.String()))
					}
					env.stats["soundness-checks"]++
				}
				// C06: 'not protected' iff no policy governs the workload in that direction
				// (an ungoverned side allows everything to every pod)
				if isExposed && !protected && !side.IsAllConnections() {
					rep("C06", "unprotected-but-restricted", fmt.Sprintf("%s is reported as not protected on %s but is allowed only %s with a new pod", rw.peer, dirS, side.String()))
				}
				// C07 completeness
				if protected && hi >= 0 {
					if isExposed || !side.IsEmpty() {
						if !side.ContainedIn(covered) && !omitted(h, hNs) {
							rep("C07", "potential-connection-unreported", fmt.Sprintf("%s %s: a new pod with labels %v in namespace %s %v would be allowed %s but the exposure entries it satisfies cover only %s", rw.peer, dirS, h.labels, h.ns, hNs, side.String(), covered.String()))
						}
						env.stats["completeness-checks"]++
					}
				}
			}
		}
	}
	return viols
}

func dropEmptyEntries(c *common.ConnectionSet) {
	for pr, ps := range c.AllowedProtocols {
		if ps.IsEmpty() {
			delete(c.AllowedProtocols, pr)
		}
	}
}
