package main

// Family "fmt" (C18, C08, C09): one world, all output formats, through the library and through the command line.
//   C18: CLI stdout == library string; -f FILE == stdout; error iff the library call errs; FromResourceInfos == FromDirPath
//   C08: repeated runs give byte-identical output
//   C09: every format parses back to the relation returned by the API (and diff formats to the computed diff)

import (
	"bytes"
	"encoding/csv"
	"encoding/hex"
	"encoding/json"
	"fmt"
	"os"
	"os/exec"
	"path/filepath"
	"regexp"
	"sort"
	"strings"

	"github.com/np-guard/netpol-analyzer/pkg/cli"
	"github.com/np-guard/netpol-analyzer/pkg/manifests/fsscanner"
	"github.com/np-guard/netpol-analyzer/pkg/netpol/connlist"
	"github.com/np-guard/netpol-analyzer/pkg/netpol/diff"
)

var listFormats = []string{"txt", "json", "dot", "csv", "md"}

// modelsExposure: the Lean model of the formatters covers the exposure sections too (false: bytes are compared for
// runs without --exposure only)
const modelsExposure = true
var diffFormats = []string{"txt", "csv", "md", "dot"}

type triple struct{ src, dst, conn string }

func sortedTriples(t []triple) []string {
	var l []string
	for _, x := range t {
		l = append(l, x.src+" => "+x.dst+" : "+x.conn)
	}
	sort.Strings(l)
	return l
}

func apiTriples(conns []connlist.Peer2PeerConnection) []triple {
	var t []triple
	for _, c := range conns {
		t = append(t, triple{c.Src().String(), c.Dst().String(), indepConnStr(c)})
	}
	return t
}

var txtLine = regexp.MustCompile(`^(.+?) => (.+?) : (.+)$`)
var dotEdge = regexp.MustCompile(`^\s*"(.+?)" -> "(.+?)" \[label="(.*?)"`)

// parseList parses the connlist section of a list output (exposure sections are cut off by the caller).
func parseList(format, out string) ([]triple, error) {
	var t []triple
	switch format {
	case "txt":
		for _, l := range strings.Split(out, "\n") {
			if l == "" {
				continue
			}
			m := txtLine.FindStringSubmatch(l)
			if m == nil {
				return nil, fmt.Errorf("unparsable txt line %q", l)
			}
			t = append(t, triple{m[1], m[2], m[3]})
		}
	case "json":
		var rows []struct{ Src, Dst, Conn string }
		if err := json.Unmarshal([]byte(out), &rows); err != nil {
			var withExp struct {
				ConnlistResults []struct{ Src, Dst, Conn string } `json:"connlist_results"`
			}
			if err2 := json.Unmarshal([]byte(out), &withExp); err2 != nil {
				return nil, err
			}
			rows = withExp.ConnlistResults
		}
		for _, r := range rows {
			t = append(t, triple{r.Src, r.Dst, r.Conn})
		}
	case "csv":
		rd := csv.NewReader(strings.NewReader(out))
		rd.FieldsPerRecord = -1
		recs, err := rd.ReadAll()
		if err != nil {
			return nil, err
		}
		for i, r := range recs {
			if i == 0 {
				if len(r) != 3 || r[0] != "src" || r[1] != "dst" || r[2] != "conn" {
					return nil, fmt.Errorf("bad csv header %v", r)
				}
				continue
			}
			if len(r) == 3 && r[0] == "Exposure Analysis Result:" {
				break
			}
			if len(r) != 3 {
				return nil, fmt.Errorf("bad csv row %v", r)
			}
			t = append(t, triple{r[0], r[1], r[2]})
		}
	case "md":
		lines := strings.Split(out, "\n")
		for i, l := range lines {
			if i < 2 || l == "" {
				continue
			}
			if strings.HasPrefix(l, "## ") {
				break
			}
			f := strings.Split(strings.Trim(l, "|"), " | ")
			if len(f) != 3 {
				return nil, fmt.Errorf("bad md row %q", l)
			}
			t = append(t, triple{strings.TrimSpace(f[0]), strings.TrimSpace(f[1]), strings.TrimSpace(f[2])})
		}
	case "dot":
		for _, l := range strings.Split(out, "\n") {
			if m := dotEdge.FindStringSubmatch(l); m != nil {
				t = append(t, triple{m[1], m[2], m[3]})
			}
		}
	}
	return t, nil
}

func cutExposure(format, out string) string {
	switch format {
	case "txt":
		if i := strings.Index(out, "\nExposure Analysis Result:"); i >= 0 {
			return out[:i]
		}
	}
	return out
}

type libRun struct {
	out   string
	err   error
	conns []connlist.Peer2PeerConnection
	xs    []connlist.ExposedPeer
}

func libList(dir, format, focus string, exposure, stop bool) libRun {
	opts := []connlist.ConnlistAnalyzerOption{connlist.WithMuteErrsAndWarns(), connlist.WithFocusWorkload(focus), connlist.WithOutputFormat(format)}
	if stop {
		opts = append(opts, connlist.WithStopOnError())
	}
	if exposure {
		opts = append(opts, connlist.WithExposureAnalysis())
	}
	ca := connlist.NewConnlistAnalyzer(opts...)
	conns, _, err := ca.ConnlistFromDirPath(dir)
	if err != nil {
		return libRun{err: err}
	}
	out, err := ca.ConnectionsListToString(conns)
	return libRun{out: out, err: err, conns: conns, xs: ca.ExposedPeers()}
}

var realBinary = ""

func init() {
	if p := os.Getenv("VERIF_CLI_BINARY"); p != "" {
		if _, err := os.Stat(p); err == nil {
			realBinary = p
		}
	}
}

func execFmtCase(c *Sx, env *execEnv) (*Sx, []Violation) {
	args := c.Args()
	out := Ls(At("wfmt"), args[0])
	if len(args) < 2 {
		return out.Add(At("bad-case")), nil
	}
	w, err := ParseWorld(args[1])
	if err != nil {
		return out.Add(At("bad-world")), nil
	}
	focus, exposure, stop := "", false, false
	var wb *World
	for _, a := range args[2:] {
		switch a.Head() {
		case "focus":
			focus = undash(a.L[1].A)
		case "exposure":
			exposure = a.L[1].A == "1"
		case "stop":
			stop = a.L[1].A == "1"
		case "world":
			wb, _ = ParseWorld(a)
		}
	}
	dir := caseDir(env, args[0].A)
	if w.WriteDir(dir, nil, nil) != nil {
		return out.Add(At("io-error")), nil
	}
	var viols []Violation
	seenKind := map[string]bool{}
	rep := func(prop, kind, detail string) {
		if seenKind[prop+kind] {
			return
		}
		seenKind[prop+kind] = true
		viols = append(viols, Violation{Prop: prop, Kind: kind, Detail: detail, Case: c.String()})
	}
	var panicked string
	// K-diff on bytes (Model/Format.lean): (out FORMAT HEX|err) per list format, (dout FORMAT HEX|err) per diff format;
	// HEX is the lowercase hex of the returned string, "-" for the empty string
	var outs []*Sx
	emit := func(head, format, s string, err error) {
		if err != nil {
			outs = append(outs, Ls(At(head), At(format), At("err")))
			return
		}
		h := hex.EncodeToString([]byte(s))
		if h == "" {
			h = "-"
		}
		outs = append(outs, Ls(At(head), At(format), At(h)))
	}
	func() {
		defer func() {
			if e := recover(); e != nil {
				panicked = fmt.Sprint(e)
			}
		}()
		var ref []string
		for fi, f := range listFormats {
			l1 := libList(dir, f, focus, exposure, stop)
			l2 := l1
			// repeated runs: Go picks the second order of a two-entry map only about one time in eight
			reps := map[bool]int{false: 2, true: 6}[exposure]
			if l1.err != nil {
				reps = 24 // a failing run is cheap, and which policy the error names is decided by one map iteration
			}
			for k := 0; k < reps; k++ {
				l2 = libList(dir, f, focus, exposure, stop)
				if (l1.err == nil) != (l2.err == nil) || l1.out != l2.out || (l1.err != nil && l1.err.Error() != l2.err.Error()) {
					break
				}
			}
			env.count("fmt-list:" + f)
			if modelsExposure || !exposure {
				emit("out", f, l1.out, l1.err)
			}
			// C08: repeated runs are byte-identical (also the error they return)
			if l1.err != nil && l2.err != nil && l1.err.Error() != l2.err.Error() {
				rep("C08", "nondeterministic-error", fmt.Sprintf("format %s exposure=%v: two runs on the same directory fail with different errors: %q / %q", f, exposure, l1.err.Error(), l2.err.Error()))
			}
			if (l1.err == nil) != (l2.err == nil) || l1.out != l2.out {
				rep("C08", "nondeterministic-output", fmt.Sprintf("format %s exposure=%v: two runs on the same directory differ", f, exposure))
			}
			// C18: command line vs library
			file := filepath.Join(dir, "..", "out-"+args[0].A+"-"+f)
			cargs := []string{"list", "--dirpath", dir, "-o", f, "-q", "--focusworkload", focus, "-f", file}
			if exposure {
				cargs = append(cargs, "--exposure")
			} else {
				cargs = append(cargs, "--exposure=false")
			}
			cargs = append(cargs, fmt.Sprintf("--fail=%v", stop))
			// the -f file already exists and is longer than any report: the command must replace it, not overwrite its head
			_ = os.WriteFile(file, []byte(strings.Repeat("stale report line\n", 4096)), 0o600)
			stdout, cerr := cli.VerifRun(cargs)
			if (cerr != nil) != (l1.err != nil) {
				rep("C18", "cli-error-differs", fmt.Sprintf("format %s: library error %v, command error %v", f, l1.err, cerr))
				if focus != "" && l1.err == nil {
					rep("C16", "focused-command-fails-where-library-reports", fmt.Sprintf("format %s focus=%q: the library returns a (possibly empty) report, the command fails: %v", f, focus, cerr))
				}
			} else if l1.err == nil {
				if stdout != l1.out {
					rep("C18", "cli-stdout-differs", fmt.Sprintf("format %s exposure=%v focus=%q: stdout (%d bytes) is not the library string (%d bytes)", f, exposure, focus, len(stdout), len(l1.out)))
				}
				fb, ferr := os.ReadFile(file)
				if ferr != nil || string(fb) != stdout {
					rep("C18", "cli-file-differs", fmt.Sprintf("format %s: -f file (%d bytes, previously holding an older, longer report) differs from stdout (%d bytes) (%v)", f, len(fb), len(stdout), ferr))
				}
			}
			_ = os.Remove(file)
			// verbosity is about the log (stderr), never about the report: the same bytes on stdout with -v
			if l1.err == nil && fi%2 == 0 {
				vargs := append([]string{}, cargs...)
				qargs := append([]string{}, cargs...)
				for i := range vargs {
					if vargs[i] == "-q" {
						vargs[i], qargs[i] = "-q=false", "-q=true"
					}
					if vargs[i] == "-f" && i+1 < len(vargs) {
						vargs[i+1], qargs[i+1] = "", ""
					}
				}
				vargs, qargs = append(vargs, "-v=true"), append(qargs, "-v=false")
				if vout, verr := cli.VerifRun(vargs); verr != nil || vout != l1.out {
					rep("C18", "cli-stdout-differs-with-verbose", fmt.Sprintf("format %s exposure=%v focus=%q: with -v stdout (%d bytes, error %v) is not the library string (%d bytes)", f, exposure, focus, len(vout), verr, len(l1.out)))
				}
				// the flag variables persist between in-process runs: back to quiet
				_, _ = cli.VerifRun(qargs)
			}
			// the real binary: exit status (first format only, it costs a process)
			if realBinary != "" && fi == 0 {
				cmd := exec.Command(realBinary, cargs...)
				var so bytes.Buffer
				cmd.Stdout = &so
				rerr := cmd.Run()
				code := 0
				if rerr != nil {
					code = 1
					if ee, ok := rerr.(*exec.ExitError); ok {
						code = ee.ExitCode()
					}
				}
				if (code != 0) != (l1.err != nil) {
					rep("C18", "exit-status", fmt.Sprintf("binary exit status %d, library error %v", code, l1.err))
				} else if l1.err == nil && so.String() != l1.out {
					rep("C18", "binary-stdout-differs", "stdout of the built binary is not the library string")
				}
				env.count("real-binary-runs")
			}
			if l1.err != nil {
				continue
			}
			// C09: parse back
			got, perr := parseList(f, cutExposure(f, l1.out))
			if f == "dot" && exposure {
				// exposure edges end in a representative node: keep the edges between peers of the report
				real := map[string]bool{"{ingress-controller}": true}
				for _, x := range l1.conns {
					real[x.Src().String()], real[x.Dst().String()] = true, true
				}
				var keep []triple
				for _, x := range got {
					if real[x.src] && real[x.dst] {
						keep = append(keep, x)
					}
				}
				got = keep
			}
			if perr != nil {
				rep("C09", "unparsable-output", fmt.Sprintf("format %s: %v", f, perr))
				continue
			}
			want := sortedTriples(apiTriples(l1.conns))
			g := sortedTriples(got)
			if strings.Join(g, "\n") != strings.Join(want, "\n") {
				rep("C09", "format-does-not-encode-result", fmt.Sprintf("format %s: parsed %d triples, API returned %d; first difference: %s", f, len(g), len(want), firstDiff(g, want)))
			}
			if exposure && f != "dot" {
				if m := checkExposureSections(f, l1.out, l1.conns, l1.xs); m != "" {
					rep("C09", "exposure-section-does-not-encode-result", fmt.Sprintf("format %s: %s", f, m))
					rep("C06", "reported-exposure-entry-is-not-the-computed-one", fmt.Sprintf("format %s: %s", f, m))
				}
			}
			if ref == nil {
				ref = g
			} else if strings.Join(g, "\n") != strings.Join(ref, "\n") {
				rep("C09", "formats-disagree", fmt.Sprintf("format %s encodes another relation than %s", f, listFormats[0]))
			}
			env.nontr[f+"|"+fmt.Sprint(len(got))+"|"+fmt.Sprint(exposure)] = true
		}
		// C18: ConnlistFromResourceInfos on the scanned infos == ConnlistFromDirPath
		infos, _ := fsscanner.GetResourceInfosFromDirPath([]string{dir}, true, false)
		c1, _, e1 := connlist.NewConnlistAnalyzer(connlist.WithMuteErrsAndWarns()).ConnlistFromResourceInfos(infos)
		c2, _, e2 := connlist.NewConnlistAnalyzer(connlist.WithMuteErrsAndWarns()).ConnlistFromDirPath(dir)
		if (e1 == nil) != (e2 == nil) || strings.Join(sortedTriples(apiTriples(c1)), "\n") != strings.Join(sortedTriples(apiTriples(c2)), "\n") {
			rep("C18", "infos-vs-dir", "ConnlistFromResourceInfos and ConnlistFromDirPath return different connections")
		}
		// diff formats
		if wb != nil {
			dirB := caseDir(env, args[0].A+"b")
			if wb.WriteDir(dirB, nil, nil) != nil {
				return
			}
			for _, f := range diffFormats {
				mk := func() (string, error, diff.ConnectivityDiff) {
					dopts := []diff.DiffAnalyzerOption{diff.WithLogger(nullLogger{}), diff.WithOutputFormat(f), diff.WithArgNames("dir1", "dir2")}
					if stop {
						dopts = append(dopts, diff.WithStopOnError())
					}
					da := diff.NewDiffAnalyzer(dopts...)
					cd, err := da.ConnDiffFromDirPaths(dir, dirB)
					if err != nil {
						return "", err, nil
					}
					s, err := da.ConnectivityDiffToString(cd)
					return s, err, cd
				}
				o1, e1, cd := mk()
				o2, e2 := o1, e1
				for k := 0; k < 4 && (e1 == nil) == (e2 == nil) && o1 == o2; k++ { // map orders differ between runs
					o2, e2, _ = mk()
				}
				env.count("fmt-diff:" + f)
				emit("dout", f, o1, e1)
				if (e1 == nil) != (e2 == nil) || o1 != o2 {
					rep("C08", "nondeterministic-diff-output", fmt.Sprintf("diff format %s: two runs differ", f))
				}
				file := filepath.Join(dir, "..", "dout-"+args[0].A+"-"+f)
				_ = os.WriteFile(file, []byte(strings.Repeat("stale report line\n", 4096)), 0o600)
				stdout, cerr := cli.VerifRun([]string{"diff", "--dir1", dir, "--dir2", dirB, "-o", f, "-q", "-f", file, fmt.Sprintf("--fail=%v", stop), "--dirpath", ""})
				if (cerr != nil) != (e1 != nil) {
					rep("C18", "cli-diff-error-differs", fmt.Sprintf("diff format %s: library error %v, command error %v", f, e1, cerr))
				} else if e1 == nil {
					if stdout != o1 {
						rep("C18", "cli-diff-stdout-differs", fmt.Sprintf("diff format %s: stdout is not the library string", f))
					}
					if fb, ferr := os.ReadFile(file); ferr != nil || string(fb) != stdout {
						rep("C18", "cli-diff-file-differs", fmt.Sprintf("diff format %s: -f file differs from stdout", f))
					}
				}
				_ = os.Remove(file)
				if e1 == nil && cd != nil {
					if m := checkDiffFormat(f, o1, cd); m != "" {
						rep("C09", "diff-format-does-not-encode-result", fmt.Sprintf("diff format %s: %s", f, m))
					}
				}
			}
		}
	}()
	if panicked != "" {
		out.Add(Ls(At("panic")))
		rep("C12", "panic-format", panicked)
		return out, viols
	}
	out.Add(At("done"))
	for _, o := range outs {
		out.Add(o)
	}
	return out, viols
}

func firstDiff(a, b []string) string {
	sa, sb := map[string]bool{}, map[string]bool{}
	for _, x := range a {
		sa[x] = true
	}
	for _, x := range b {
		sb[x] = true
	}
	for _, x := range a {
		if !sb[x] {
			return "only in output: " + x
		}
	}
	for _, x := range b {
		if !sa[x] {
			return "missing from output: " + x
		}
	}
	return "order / multiplicity"
}

// checkDiffFormat: the formatted diff holds exactly the added / removed / changed entries (dot: also unchanged)
func checkDiffFormat(format, out string, cd diff.ConnectivityDiff) string {
	var want []diffRow
	add := func(l []diff.SrcDstDiff) {
		for _, d := range l {
			want = append(want, diffRow{string(d.DiffType()), d.Src().String(), d.Dst().String(),
				strings.ReplaceAll(acStr(d.Ref1Connectivity()), "_", " "), strings.ReplaceAll(acStr(d.Ref2Connectivity()), "_", " "),
				d.IsSrcNewOrRemoved(), d.IsDstNewOrRemoved()})
		}
	}
	add(cd.AddedConnections())
	add(cd.RemovedConnections())
	add(cd.ChangedConnections())
	if format == "dot" {
		add(cd.UnchangedConnections())
	}
	if len(want) == 0 || (cd.IsEmpty() && out == "") {
		return ""
	}
	// every entry must be present with both connection values (formats print "No Connections" for the absent side)
	for _, r := range want {
		if !strings.Contains(out, r.src) || !strings.Contains(out, r.dst) {
			return fmt.Sprintf("entry %s %s => %s is missing", r.typ, r.src, r.dst)
		}
	}
	switch format {
	case "dot":
		return checkDiffDot(out, want, "dir1")
	case "csv":
		rd := csv.NewReader(strings.NewReader(out))
		rd.FieldsPerRecord = -1
		recs, err := rd.ReadAll()
		if err != nil {
			return err.Error()
		}
		got := map[string]bool{}
		for i, r := range recs {
			if i == 0 || len(r) < 6 {
				continue
			}
			got[strings.Join(r[:6], "|")] = true
		}
		if len(recs)-1 != len(want) {
			return fmt.Sprintf("%d rows for %d entries", len(recs)-1, len(want))
		}
		for _, r := range want {
			k := strings.Join([]string{r.typ, r.src, r.dst, r.c1, r.c2, expectedDiffInfo(r)}, "|")
			if !got[k] {
				return "row missing: " + k
			}
		}
	case "txt", "md":
		n := 0
		for _, l := range strings.Split(out, "\n") {
			if strings.HasPrefix(l, "diff-type: ") || (strings.HasPrefix(l, "| ") && !strings.HasPrefix(l, "| diff-type") && !strings.HasPrefix(l, "|--")) {
				n++
			}
		}
		if n != len(want) {
			return fmt.Sprintf("%d lines for %d entries", n, len(want))
		}
		for _, r := range want {
			found := false
			for _, l := range strings.Split(out, "\n") {
				if strings.Contains(l, r.typ) && strings.Contains(l, r.src) && strings.Contains(l, r.dst) && strings.Contains(l, r.c1) && strings.Contains(l, r.c2) &&
					strings.Contains(l, expectedDiffInfo(r)) && (expectedDiffInfo(r) != "" || !strings.Contains(l, "workload ")) {
					found = true
					break
				}
			}
			if !found {
				return fmt.Sprintf("no line carries %s %s => %s with %q / %q", r.typ, r.src, r.dst, r.c1, r.c2)
			}
		}
	}
	return ""
}

func genFmtCase(r *Rng, id int, tier string) *Sx {
	cfg := &genCfg{anp: r.P(30), banp: true, pods: true, ingress: r.P(35), icNs: true, icName: r.P(25), twinPct: 25, complementPct: 8, dashTwinPct: 10, podPortsVary: true, namedOnIPPct: 10, maxNP: 4, maxWl: 5}
	exposure := r.P(40)
	if exposure {
		cfg.anp, cfg.banp = false, false
	}
	w := genWorld(r, cfg)
	var b *World
	if r.P(50) {
		// a second world for the diff formats: an edited copy of the first, or (new and lost workloads on both sides,
		// entries with two new peers) an independent world over the same name pools; in either order
		if r.P(25) {
			b = genWorld(r, cfg)
		} else {
			b = cloneWorld(w)
			if r.P(40) {
				for k := r.Range(1, 3); k > 0 && len(b.Objs) > 1; k-- {
					j := r.Intn(len(b.Objs))
					b.Objs = append(b.Objs[:j], b.Objs[j+1:]...)
				}
				b.Objs = append(b.Objs, Obj{Kind: "np", Np: genNetPol(r, cfg, "ns0", "extra")})
			} else {
				for i, n := 0, r.Range(1, 3); i < n; i++ {
					editForDiff(r, cfg, b, i)
				}
			}
		}
		if r.P(35) {
			w, b = b, w
		}
	}
	c := Ls(At("wfmt"), Ai(int64(id)), w.Sx(), Ls(At("exposure"), At(b01(exposure))), Ls(At("stop"), At(b01(r.P(15)))))
	if r.P(30) {
		for _, o := range w.Objs {
			if o.Kind == "wl" {
				switch k := r.Intn(10); {
				case k < 6:
					c.Add(Ls(At("focus"), At(o.Wl.Name)))
				case k < 7:
					c.Add(Ls(At("focus"), At("nosuch"))) // names nothing: an empty report (and a warning), never an error
				case k < 9:
					c.Add(Ls(At("focus"), At(o.Wl.NS+"/"+o.Wl.Name)))
				default:
					c.Add(Ls(At("focus"), At(o.Wl.Name+"x")))
				}
				break
			}
		}
	}
	if b != nil {
		c.Add(b.Sx())
	}
	return c
}

func init() {
	families["fmt"] = family{gen: genFmtCase, exec: execFmtCase}
}
