package main

// Type-directed generator of worlds (mostly valid inputs; the malformed stream is separate).

import "fmt"

type genCfg struct {
	anp, banp      bool // admin policies allowed
	ingress        bool // services / ingresses / routes
	pods           bool // bare pods (with and without owners)
	namedOnIPPct   int  // probability (pct) to allow a named port where it may meet an IP destination
	maxNP, maxWl   int
	conflictChance int
}

var nsPool = []string{"ns0", "ns1", "ns2", "default"}
var lblKeys = []string{"app", "tier", "role"}
var lblVals = []string{"a", "b", "c"}
var nsLblKeys = []string{"team", "env"}
var nsLblVals = []string{"x", "y"}
var portPool = []int{1, 53, 79, 80, 81, 443, 1023, 1024, 8080, 9090, 65534, 65535}
var portNames = []string{"http", "dns", "x"}
var protoPool = []string{"TCP", "UDP", "SCTP"}
var wlKinds = []string{"Deployment", "ReplicaSet", "StatefulSet", "DaemonSet", "Job", "CronJob", "ReplicationController"}
var cidrPool = []string{"0.0.0.0/0", "10.0.0.0/8", "10.0.0.0/9", "10.128.0.0/9", "10.1.0.0/16", "10.1.2.0/24", "10.1.2.3/32",
	"192.168.0.0/16", "192.168.1.0/31", "128.0.0.0/1", "0.0.0.0/1", "172.16.0.0/12", "255.255.255.255/32", "0.0.0.0/32", "10.1.2.77/24"}

func genLabels(r *Rng, keys, vals []string, max int) []KV {
	var l []KV
	ks := append([]string{}, keys...)
	Shuffle(r, ks)
	n := r.Intn(max + 1)
	for i := 0; i < n && i < len(ks); i++ {
		l = append(l, KV{ks[i], Pick(r, vals)})
	}
	return l
}

// candidate label sets (of generated pods / namespaces) that selectors are biased to match
var candPod, candNs [][]KV

// selFor derives a selector that matches the given label set
func selFor(r *Rng, l []KV, vals []string) Sel {
	var s Sel
	if len(l) == 0 {
		if r.P(50) {
			s.ME = []Req{{Key: "nosuch", Op: "DoesNotExist"}}
		}
		return s
	}
	ls := append([]KV{}, l...)
	Shuffle(r, ls)
	n := r.Range(1, len(ls))
	if n > 2 {
		n = 2
	}
	for _, kv := range ls[:n] {
		switch r.Intn(5) {
		case 0, 1:
			s.ML = append(s.ML, kv)
		case 2:
			vs := []string{kv[1]}
			if r.P(50) {
				o := Pick(r, vals)
				if o != kv[1] {
					vs = append(vs, o)
					Shuffle(r, vs)
				}
			}
			s.ME = append(s.ME, Req{Key: kv[0], Op: "In", Vals: vs})
		case 3:
			s.ME = append(s.ME, Req{Key: kv[0], Op: "Exists"})
		case 4:
			o := Pick(r, vals)
			if o == kv[1] {
				s.ME = append(s.ME, Req{Key: kv[0], Op: "Exists"})
			} else {
				s.ME = append(s.ME, Req{Key: kv[0], Op: "NotIn", Vals: []string{o}})
			}
		}
	}
	return s
}

func genSel(r *Rng, keys, vals []string) Sel {
	var s Sel
	isNs := len(keys) > 0 && (keys[0] == nsLblKeys[0] || keys[0] == "kubernetes.io/metadata.name")
	if isNs && len(candNs) > 0 && r.P(60) {
		return selFor(r, Pick(r, candNs), vals)
	}
	if !isNs && len(candPod) > 0 && r.P(60) {
		return selFor(r, Pick(r, candPod), vals)
	}
	switch k := r.Intn(100); {
	case k < 25: // empty selector
	case k < 60:
		s.ML = genLabels(r, keys, vals, 2)
		if len(s.ML) == 0 {
			s.ML = []KV{{keys[0], Pick(r, vals)}}
		}
	default:
		n := r.Range(1, 2)
		for i := 0; i < n; i++ {
			q := Req{Key: Pick(r, keys), Op: Pick(r, []string{"In", "In", "NotIn", "Exists", "DoesNotExist"})}
			if q.Op == "In" || q.Op == "NotIn" {
				nv := r.Range(1, 2)
				vs := append([]string{}, vals...)
				Shuffle(r, vs)
				q.Vals = vs[:nv]
			}
			s.ME = append(s.ME, q)
		}
		if r.P(30) {
			s.ML = genLabels(r, keys, vals, 1)
		}
	}
	return s
}

func genCPorts(r *Rng) []CPort {
	var ps []CPort
	n := r.Intn(4)
	used := map[string]bool{}
	for i := 0; i < n; i++ {
		p := CPort{Port: Pick(r, portPool), Proto: Pick(r, []string{"TCP", "TCP", "UDP", "SCTP", ""})}
		if r.P(55) {
			nm := Pick(r, portNames)
			if !used[nm] {
				used[nm] = true
				p.Name = nm
			}
		}
		ps = append(ps, p)
	}
	return ps
}

func genNPPorts(r *Rng, allowNamed bool) []NPPort {
	var ps []NPPort
	n := r.Intn(4)
	if r.P(30) {
		n = 0
	}
	for i := 0; i < n; i++ {
		p := NPPort{Proto: Pick(r, []string{"TCP", "UDP", "SCTP", "", ""})}
		switch k := r.Intn(100); {
		case k < 15:
			p.Kind = "all"
		case k < 50:
			p.Kind = "num"
			p.Num = Pick(r, portPool)
		case k < 75:
			p.Kind = "num"
			a, b := Pick(r, portPool), Pick(r, portPool)
			if a > b {
				a, b = b, a
			}
			p.Num = a
			p.End = &b
		default:
			if allowNamed {
				p.Kind = "name"
				p.Name = Pick(r, portNames)
			} else {
				p.Kind = "num"
				p.Num = Pick(r, portPool)
			}
		}
		ps = append(ps, p)
	}
	return ps
}

func genNPPeer(r *Rng, ipOK bool) NPPeer {
	if ipOK && r.P(30) {
		p := NPPeer{IsIP: true, CIDR: Pick(r, cidrPool)}
		ne := r.Intn(3)
		if r.P(50) {
			ne = 0
		}
		for i := 0; i < ne; i++ {
			p.Except = append(p.Except, Pick(r, cidrPool))
		}
		return p
	}
	var p NPPeer
	switch k := r.Intn(100); {
	case k < 40:
		s := genSel(r, lblKeys, lblVals)
		p.PodSel = &s
	case k < 70:
		s := genSel(r, nsLblKeys, nsLblVals)
		p.NsSel = &s
	default:
		s := genSel(r, lblKeys, lblVals)
		t := genSel(r, nsLblKeys, nsLblVals)
		p.PodSel, p.NsSel = &s, &t
	}
	return p
}

func genNPRules(r *Rng, cfg *genCfg, egress bool) []NPRule {
	var rs []NPRule
	n := r.Intn(4)
	for i := 0; i < n; i++ {
		var rule NPRule
		np := r.Intn(4)
		if r.P(20) {
			np = 0
		}
		hasIP := np == 0
		for j := 0; j < np; j++ {
			p := genNPPeer(r, true)
			hasIP = hasIP || p.IsIP
			rule.Peers = append(rule.Peers, p)
		}
		allowNamed := !(egress && hasIP) || r.P(cfg.namedOnIPPct)
		rule.Ports = genNPPorts(r, allowNamed)
		rs = append(rs, rule)
	}
	return rs
}

func genNetPol(r *Rng, cfg *genCfg, ns, name string) *NetPol {
	np := &NetPol{NS: ns, Name: name, PodSel: genSel(r, lblKeys, lblVals)}
	switch r.Intn(6) {
	case 0:
		np.Types = []string{"I"}
	case 1:
		np.Types = []string{"E"}
	case 2:
		np.Types = []string{"I", "E"}
	case 3:
		np.Types = []string{"E", "I"}
	}
	if r.P(75) {
		np.Ingress = genNPRules(r, cfg, false)
	}
	if r.P(65) {
		np.Egress = genNPRules(r, cfg, true)
	}
	return np
}

func genSubject(r *Rng) Subject {
	if r.P(50) {
		return Subject{NsSel: genSel(r, nsLblKeys, nsLblVals)}
	}
	return Subject{IsPods: true, NsSel: genSel(r, nsLblKeys, nsLblVals), PodSel: genSel(r, lblKeys, lblVals)}
}

func genARules(r *Rng, banp bool, pfx string) []ARule {
	var rs []ARule
	n := r.Intn(4)
	for i := 0; i < n; i++ {
		a := ARule{Name: fmt.Sprintf("%s%d", pfx, i)}
		if banp {
			a.Action = Pick(r, []string{"Allow", "Deny", "Deny"})
		} else {
			a.Action = Pick(r, []string{"Allow", "Deny", "Pass"})
		}
		np := r.Range(1, 2)
		for j := 0; j < np; j++ {
			a.Peers = append(a.Peers, genSubject(r))
		}
		if r.P(40) {
			a.PortsNil = true
		} else {
			m := r.Range(1, 3)
			for j := 0; j < m; j++ {
				switch k := r.Intn(100); {
				case k < 40:
					a.Ports = append(a.Ports, APort{Kind: "num", Proto: Pick(r, []string{"TCP", "UDP", "SCTP", ""}), A: Pick(r, portPool)})
				case k < 75:
					x, y := Pick(r, portPool), Pick(r, portPool)
					if x > y {
						x, y = y, x
					}
					a.Ports = append(a.Ports, APort{Kind: "range", Proto: Pick(r, []string{"TCP", "UDP", "SCTP", ""}), A: x, B: y})
				default:
					a.Ports = append(a.Ports, APort{Kind: "named", Name: Pick(r, portNames)})
				}
			}
		}
		rs = append(rs, a)
	}
	return rs
}

// genWorld generates a world; the order of w.Objs is the document order.
func genWorld(r *Rng, cfg *genCfg) *World {
	w := &World{}
	candPod, candNs = nil, nil
	nNs := r.Range(1, 3)
	nss := append([]string{}, nsPool...)
	Shuffle(r, nss)
	nss = nss[:nNs]
	for _, ns := range nss {
		if r.P(60) {
			o := &NsObj{Name: ns, Labels: genLabels(r, nsLblKeys, nsLblVals, 2)}
			w.Objs = append(w.Objs, Obj{Kind: "ns", Ns: o})
			candNs = append(candNs, append(append([]KV{}, o.Labels...), KV{"kubernetes.io/metadata.name", ns}))
		} else {
			candNs = append(candNs, []KV{{"kubernetes.io/metadata.name", ns}})
		}
	}
	nWl := r.Range(1, cfg.maxWl)
	usedNames := map[string]bool{}
	for i := 0; i < nWl; i++ {
		ns := Pick(r, nss)
		name := fmt.Sprintf("w%d", r.Intn(cfg.maxWl+1))
		if usedNames[ns+"/"+name] {
			continue
		}
		usedNames[ns+"/"+name] = true
		labels := genLabels(r, lblKeys, lblVals, 3)
		ports := genCPorts(r)
		candPod = append(candPod, labels)
		if cfg.pods && r.P(25) {
			// bare pods, possibly several sharing one controller owner
			n := 1
			owner := ""
			okind := ""
			if r.P(60) {
				owner = name
				okind = Pick(r, []string{"ReplicaSet", "StatefulSet", "Job", "DaemonSet"})
				n = r.Range(1, 3)
			}
			for j := 0; j < n; j++ {
				pn := name
				if owner != "" {
					pn = fmt.Sprintf("%s-p%d", name, j)
				}
				w.Objs = append(w.Objs, Obj{Kind: "pod", Pod: &PodObj{NS: ns, Name: pn, Labels: labels, Ports: ports, OwnerKind: okind, OwnerName: owner,
					HostIP: Pick(r, []string{"192.168.49.2", "10.1.2.3", "172.18.0.4"})}})
			}
			continue
		}
		wl := &Workload{Kind: Pick(r, wlKinds), NS: ns, Name: name, Labels: labels, Ports: ports}
		if r.P(60) {
			n := r.Intn(4)
			wl.Replicas = &n
		}
		w.Objs = append(w.Objs, Obj{Kind: "wl", Wl: wl})
	}
	nNP := r.Intn(cfg.maxNP + 1)
	for i := 0; i < nNP; i++ {
		w.Objs = append(w.Objs, Obj{Kind: "np", Np: genNetPol(r, cfg, Pick(r, nss), fmt.Sprintf("np%d", i))})
	}
	if cfg.anp && r.P(70) {
		n := r.Intn(4)
		prios := []int{0, 1, 5, 10, 50, 99, 100, 500, 999, 1000}
		Shuffle(r, prios)
		for i := 0; i < n; i++ {
			a := &ANP{Name: fmt.Sprintf("anp%d", i), Prio: prios[i], Subject: genSubject(r)}
			if r.P(75) {
				a.Ingress = genARules(r, false, "i")
			}
			if r.P(75) {
				a.Egress = genARules(r, false, "e")
			}
			w.Objs = append(w.Objs, Obj{Kind: "anp", Anp: a})
		}
	}
	if cfg.banp && r.P(45) {
		b := &BANP{Name: "default", Subject: genSubject(r)}
		if r.P(75) {
			b.Ingress = genARules(r, true, "bi")
		}
		if r.P(75) {
			b.Egress = genARules(r, true, "be")
		}
		w.Objs = append(w.Objs, Obj{Kind: "banp", Banp: b})
	}
	// document order is arbitrary
	if r.P(70) {
		Shuffle(r, w.Objs)
	}
	return w
}
