package main

// Type-directed generator of worlds (mostly valid inputs; the malformed stream is separate).

import (
	"fmt"
	"strings"
)

type genCfg struct {
	anp, banp      bool // admin policies allowed
	ingress        bool // services / ingresses / routes
	pods           bool // bare pods (with and without owners)
	namedOnIPPct   int  // probability (pct) to allow a named port where it may meet an IP destination
	maxNP, maxWl   int
	conflictChance int
	icName         bool // workloads named ingress-controller / names that are suffixes of other names
	twinPct        int  // probability (pct) that a selector rule gets a re-spelled twin with other ports
	complementPct  int  // probability (pct) of two policies whose union is all connections, completed range by range
	podPortsVary   bool // pods of one owner may declare one port name on different numbers
	collidePct     int  // probability (pct) that a twin rule's selector has requirement strings that concatenate to the original's
	repName        bool // a real pod may be named representative-pod
	dashTwinPct    int  // probability (pct) of two rules towards namespaces selected by label values that differ in `-` / `_` only
	samePrioPct    int  // probability (pct) that two AdminNetworkPolicies share one priority (a conflict the tool must reject)
	icNs           bool // the namespace ingress-controller-ns may hold objects
	sameName       bool // several workloads (of different kinds) may share one name in a namespace
}

// nameUse: what already carries a workload name in a namespace
type nameUse struct {
	kinds  map[string]bool
	labels []KV
}

// "0-ns": a legal namespace name whose workloads sort before the ip-block peers ("0-ns/w1" < "0.0.0.0-255.255.255.255")
var nsPool = []string{"ns0", "ns1", "ns2", "default", "0-ns"}
var lblKeys = []string{"app", "tier", "role"}
var lblVals = []string{"a", "b", "c"}
var nsLblKeys = []string{"team", "env"}
var nsLblVals = []string{"x", "y", "x", "y", "pre-prod", "pre_prod"} // the last two differ in `-` / `_` only (dot writes both as `_`)
var portPool = []int{1, 53, 79, 80, 81, 443, 1023, 1024, 8080, 9090, 65534, 65535}
var portNames = []string{"http", "dns", "x"}
var protoPool = []string{"TCP", "UDP", "SCTP"}
var wlKinds = []string{"Deployment", "ReplicaSet", "StatefulSet", "DaemonSet", "Job", "CronJob", "ReplicationController"}
var cidrPool = []string{"0.0.0.0/0", "10.0.0.0/8", "10.0.0.0/9", "10.128.0.0/9", "10.1.0.0/16", "10.1.2.0/24", "10.1.2.3/32",
	"192.168.0.0/16", "192.168.1.0/31", "128.0.0.0/1", "0.0.0.0/1", "172.16.0.0/12", "255.255.255.255/32", "0.0.0.0/32", "10.1.2.77/24"}

func genLabels(r *Rng, keys, vals []string, max int) []KV {
	var l []KV
	ks := append([]string{}, keys...)
	Shuffle(r, ks)
	n := r.Intn(max + 1)
	for i := 0; i < n && i < len(ks); i++ {
		v := Pick(r, vals)
		if r.P(4) {
			v = "" // a label with an empty value (`canary: ""`) is a label like any other
		}
		l = append(l, KV{ks[i], v})
	}
	return l
}

// candidate label sets (of generated pods / namespaces) that selectors are biased to match
var candPod, candNs [][]KV

// selFor derives a selector that matches the given label set
func selFor(r *Rng, l []KV, vals []string) Sel {
	var s Sel
	if len(l) == 0 {
		if r.P(50) {
			s.ME = []Req{{Key: "nosuch", Op: "DoesNotExist"}}
		}
		return s
	}
	ls := append([]KV{}, l...)
	Shuffle(r, ls)
	n := r.Range(1, len(ls))
	if n > 2 {
		n = 2
	}
	for _, kv := range ls[:n] {
		switch r.Intn(5) {
		case 0, 1:
			s.ML = append(s.ML, kv)
		case 2:
			vs := []string{kv[1]}
			if r.P(50) {
				o := Pick(r, vals)
				if o != kv[1] {
					vs = append(vs, o)
					Shuffle(r, vs)
				}
			}
			s.ME = append(s.ME, Req{Key: kv[0], Op: "In", Vals: vs})
		case 3:
			s.ME = append(s.ME, Req{Key: kv[0], Op: "Exists"})
		case 4:
			o := Pick(r, vals)
			if o == kv[1] {
				s.ME = append(s.ME, Req{Key: kv[0], Op: "Exists"})
			} else {
				s.ME = append(s.ME, Req{Key: kv[0], Op: "NotIn", Vals: []string{o}})
			}
		}
	}
	return s
}

// selectors already generated for the current world (pod / namespace selectors): some later selectors are re-spellings
// of an earlier one (requirements and values permuted) - equal selectors that are not equal texts
var selPoolPod, selPoolNs []Sel

func respell(r *Rng, s Sel) Sel {
	var t Sel
	t.ML = append([]KV{}, s.ML...)
	for _, q := range s.ME {
		q2 := Req{Key: q.Key, Op: q.Op, Vals: append([]string{}, q.Vals...)}
		if r.P(60) {
			Shuffle(r, q2.Vals)
		}
		t.ME = append(t.ME, q2)
	}
	if r.P(60) {
		Shuffle(r, t.ME)
	}
	if r.P(30) {
		Shuffle(r, t.ML)
	}
	return t
}

func genSel(r *Rng, keys, vals []string) Sel {
	isNs := len(keys) > 0 && (keys[0] == nsLblKeys[0] || keys[0] == "kubernetes.io/metadata.name")
	pool := &selPoolPod
	if isNs {
		pool = &selPoolNs
	}
	if len(*pool) > 0 && r.P(15) {
		return respell(r, Pick(r, *pool))
	}
	s := genSel0(r, keys, vals, isNs)
	if len(s.ME) > 0 {
		*pool = append(*pool, s)
	}
	return s
}

func genSel0(r *Rng, keys, vals []string, isNs bool) Sel {
	var s Sel
	if isNs && r.P(8) {
		// exactly the name label next to an expression: not "the namespace X" but "X, provided ..."
		s.ML = []KV{{"kubernetes.io/metadata.name", Pick(r, nsPool)}}
		s.ME = []Req{{Key: Pick(r, nsLblKeys), Op: Pick(r, []string{"Exists", "In", "NotIn"})}}
		if s.ME[0].Op != "Exists" {
			s.ME[0].Vals = []string{Pick(r, nsLblVals)}
		}
		return s
	}
	if isNs && len(candNs) > 0 && r.P(60) {
		return selFor(r, Pick(r, candNs), vals)
	}
	if !isNs && len(candPod) > 0 && r.P(60) {
		return selFor(r, Pick(r, candPod), vals)
	}
	switch k := r.Intn(100); {
	case k < 25: // empty selector
	case k < 60:
		s.ML = genLabels(r, keys, vals, 2)
		if len(s.ML) == 0 {
			s.ML = []KV{{keys[0], Pick(r, vals)}}
		}
	default:
		n := r.Range(1, 2)
		for i := 0; i < n; i++ {
			q := Req{Key: Pick(r, keys), Op: Pick(r, []string{"In", "In", "NotIn", "Exists", "DoesNotExist"})}
			if i > 0 && r.P(35) {
				q.Key = s.ME[0].Key // two requirements on one key
			}
			if q.Op == "In" || q.Op == "NotIn" {
				nv := r.Range(1, 2)
				vs := append([]string{}, vals...)
				Shuffle(r, vs)
				q.Vals = vs[:nv]
			}
			s.ME = append(s.ME, q)
		}
		if r.P(30) {
			s.ML = genLabels(r, keys, vals, 1)
		}
	}
	return s
}

func genCPorts(r *Rng) []CPort {
	var ps []CPort
	n := r.Intn(4)
	used := map[string]bool{}
	for i := 0; i < n; i++ {
		p := CPort{Port: Pick(r, portPool), Proto: Pick(r, []string{"TCP", "TCP", "UDP", "SCTP", ""})}
		if p.Proto == "" { // written without a protocol: TCP by default, and the manifest must not say so
			p.Proto, p.NoProto = "TCP", true
		}
		if r.P(55) {
			nm := Pick(r, portNames)
			if !used[nm] {
				used[nm] = true
				p.Name = nm
			}
		}
		ps = append(ps, p)
		// the same number once more, on another protocol and under another name (https 8443/TCP next to quic 8443/UDP)
		if r.P(12) {
			other := map[string]string{"TCP": "UDP", "": "UDP", "UDP": "TCP", "SCTP": "TCP"}[p.Proto]
			q := CPort{Port: p.Port, Proto: other}
			for _, nm := range portNames {
				if !used[nm] {
					used[nm] = true
					q.Name = nm
					break
				}
			}
			ps = append(ps, q)
		}
	}
	return ps
}

func genNPPorts(r *Rng, allowNamed bool) []NPPort {
	var ps []NPPort
	n := r.Intn(4)
	if r.P(30) {
		n = 0
	}
	for i := 0; i < n; i++ {
		p := NPPort{Proto: Pick(r, []string{"TCP", "UDP", "SCTP", "", ""})}
		switch k := r.Intn(100); {
		case k < 15:
			p.Kind = "all"
		case k < 50:
			p.Kind = "num"
			p.Num = Pick(r, portPool)
		case k < 75:
			p.Kind = "num"
			a, b := Pick(r, portPool), Pick(r, portPool)
			if a > b {
				a, b = b, a
			}
			p.Num = a
			p.End = &b
		default:
			if allowNamed {
				p.Kind = "name"
				p.Name = Pick(r, portNames)
			} else {
				p.Kind = "num"
				p.Num = Pick(r, portPool)
			}
		}
		ps = append(ps, p)
	}
	return ps
}

func genNPPeer(r *Rng, ipOK bool) NPPeer {
	if ipOK && r.P(30) {
		p := NPPeer{IsIP: true, CIDR: Pick(r, cidrPool)}
		ne := r.Intn(3)
		if r.P(50) {
			ne = 0
		}
		for i := 0; i < ne; i++ {
			p.Except = append(p.Except, Pick(r, cidrPool))
		}
		return p
	}
	var p NPPeer
	switch k := r.Intn(100); {
	case k < 40:
		s := genSel(r, lblKeys, lblVals)
		p.PodSel = &s
	case k < 70:
		s := genSel(r, nsLblKeys, nsLblVals)
		p.NsSel = &s
	default:
		s := genSel(r, lblKeys, lblVals)
		t := genSel(r, nsLblKeys, nsLblVals)
		p.PodSel, p.NsSel = &s, &t
	}
	return p
}

func genNPRules(r *Rng, cfg *genCfg, egress bool) []NPRule {
	var rs []NPRule
	n := r.Intn(4)
	for i := 0; i < n; i++ {
		var rule NPRule
		np := r.Intn(4)
		if r.P(20) {
			np = 0
		}
		hasIP := np == 0
		for j := 0; j < np; j++ {
			p := genNPPeer(r, true)
			hasIP = hasIP || p.IsIP
			rule.Peers = append(rule.Peers, p)
		}
		allowNamed := !(egress && hasIP) || r.P(cfg.namedOnIPPct)
		rule.Ports = genNPPorts(r, allowNamed)
		rs = append(rs, rule)
		// a twin: the same selector peers re-spelled (requirements / values permuted), other ports - two rules whose
		// peers are equal selectors with different texts (representative peers, exposure lines with equal names)
		if cfg.twinPct > 0 && r.P(cfg.twinPct) && !hasIP && len(rule.Peers) > 0 {
			var twin NPRule
			for _, p := range rule.Peers {
				q := NPPeer{}
				if p.PodSel != nil && cfg.collidePct > 0 && r.P(cfg.collidePct) && len(p.PodSel.ML) == 1 && len(p.PodSel.ME) == 0 && len(p.PodSel.ML[0][0]) > 1 {
					// key "app" = "a" ++ "pp": the requirement strings of {a Exists, pp=v} concatenate to "app=v"
					k, v := p.PodSel.ML[0][0], p.PodSel.ML[0][1]
					t := Sel{ML: []KV{{k[1:], v}}, ME: []Req{{Key: k[:1], Op: "Exists"}}}
					q.PodSel = &t
				} else if p.PodSel != nil {
					if len(p.PodSel.ME) == 1 && r.P(60) {
						// a second requirement on the same key (the original rule shares the pointer and gets it too)
						p.PodSel.ME = append(p.PodSel.ME, Req{Key: p.PodSel.ME[0].Key, Op: "NotIn", Vals: []string{"zz"}})
					}
					t := respell(r, *p.PodSel)
					if len(t.ME) == 2 && t.ME[0].Key == t.ME[1].Key && r.P(70) {
						t.ME[0], t.ME[1] = p.PodSel.ME[1], p.PodSel.ME[0] // the other order for sure
					}
					q.PodSel = &t
				}
				if p.NsSel != nil {
					t := respell(r, *p.NsSel)
					q.NsSel = &t
				} else if p.PodSel != nil && r.P(35) {
					q.NsSel = &Sel{} // the same pods, in every namespace instead of the policy's own
				}
				twin.Peers = append(twin.Peers, q)
			}
			twin.Ports = genNPPorts(r, allowNamed)
			rs = append(rs, twin)
		}
	}
	return rs
}

func genNetPol(r *Rng, cfg *genCfg, ns, name string) *NetPol {
	np := &NetPol{NS: ns, Name: name, PodSel: genSel(r, lblKeys, lblVals)}
	switch r.Intn(6) {
	case 0:
		np.Types = []string{"I"}
	case 1:
		np.Types = []string{"E"}
	case 2:
		np.Types = []string{"I", "E"}
	case 3:
		np.Types = []string{"E", "I"}
	}
	if r.P(75) {
		np.Ingress = genNPRules(r, cfg, false)
	}
	if r.P(65) {
		np.Egress = genNPRules(r, cfg, true)
	}
	return np
}

func genSubject(r *Rng) Subject {
	if r.P(50) {
		return Subject{NsSel: genSel(r, nsLblKeys, nsLblVals)}
	}
	return Subject{IsPods: true, NsSel: genSel(r, nsLblKeys, nsLblVals), PodSel: genSel(r, lblKeys, lblVals)}
}

func genARules(r *Rng, banp bool, pfx string) []ARule {
	var rs []ARule
	n := r.Intn(4)
	for i := 0; i < n; i++ {
		a := ARule{Name: fmt.Sprintf("%s%d", pfx, i)}
		if banp {
			a.Action = Pick(r, []string{"Allow", "Deny", "Deny"})
		} else {
			a.Action = Pick(r, []string{"Allow", "Deny", "Pass"})
		}
		np := r.Range(1, 2)
		for j := 0; j < np; j++ {
			a.Peers = append(a.Peers, genSubject(r))
		}
		if r.P(40) {
			a.PortsNil = true
		} else {
			m := r.Range(1, 3)
			for j := 0; j < m; j++ {
				switch k := r.Intn(100); {
				case k < 40:
					a.Ports = append(a.Ports, APort{Kind: "num", Proto: Pick(r, []string{"TCP", "UDP", "SCTP", ""}), A: Pick(r, portPool)})
				case k < 75:
					x, y := Pick(r, portPool), Pick(r, portPool)
					if x > y {
						x, y = y, x
					}
					a.Ports = append(a.Ports, APort{Kind: "range", Proto: Pick(r, []string{"TCP", "UDP", "SCTP", ""}), A: x, B: y})
				default:
					a.Ports = append(a.Ports, APort{Kind: "named", Name: Pick(r, portNames)})
				}
			}
		}
		rs = append(rs, a)
	}
	return rs
}

// genWorld generates a world; the order of w.Objs is the document order.
func genWorld(r *Rng, cfg *genCfg) *World {
	w := &World{}
	candPod, candNs = nil, nil
	selPoolPod, selPoolNs = nil, nil
	nNs := r.Range(1, 3)
	nss := append([]string{}, nsPool...)
	Shuffle(r, nss)
	nss = nss[:nNs]
	if cfg.icNs && r.P(20) {
		nss = append(nss, "ingress-controller-ns") // the namespace of the fake ingress-controller pod: policies there select it
	}
	for _, ns := range nss {
		if r.P(60) {
			o := &NsObj{Name: ns, Labels: genLabels(r, nsLblKeys, nsLblVals, 2)}
			w.Objs = append(w.Objs, Obj{Kind: "ns", Ns: o})
			candNs = append(candNs, append(append([]KV{}, o.Labels...), KV{"kubernetes.io/metadata.name", ns}))
		} else {
			candNs = append(candNs, []KV{{"kubernetes.io/metadata.name", ns}})
		}
	}
	nWl := r.Range(1, cfg.maxWl)
	usedNames := map[string]*nameUse{}
	for i := 0; i < nWl; i++ {
		ns := Pick(r, nss)
		name := fmt.Sprintf("w%d", r.Intn(cfg.maxWl+1))
		if cfg.repName && r.P(8) {
			name = "representative-pod" // the name of the pods the exposure analysis adds
		} else if cfg.sameName && r.P(12) && len(usedNames) > 0 {
			// a name that collides with the pods generated for a workload object: Pod web-1 next to Deployment web
			var ks []string
			for k := range usedNames {
				ks = append(ks, k)
			}
			sortStrings(ks)
			k := Pick(r, ks)
			ns, name = k[:strings.Index(k, "/")], k[strings.Index(k, "/")+1:]+"-1"
		} else if cfg.icName && r.P(12) {
			name = "ingress-controller" // a real workload with the name of the fake ingress-controller pod
		} else if cfg.icName && r.P(10) {
			name = "x" + name // a name with another workload's name as a proper suffix
		}
		labels := genLabels(r, lblKeys, lblVals, 3)
		prev, used := usedNames[ns+"/"+name]
		if used {
			// mostly unique names; sometimes a second workload of another kind (Pod + Deployment, ReplicaSet-owned pods + Job,
			// Deployment + StatefulSet ...) with the same name in the same namespace - legal in Kubernetes
			if !cfg.sameName || !r.P(40) {
				continue
			}
			if r.P(70) {
				labels = prev.labels // same labels: the owner-consistency check keys by (namespace, owner name) only
			}
		} else {
			prev = &nameUse{kinds: map[string]bool{}}
			usedNames[ns+"/"+name] = prev
		}
		prev.labels = labels
		ports := genCPorts(r)
		candPod = append(candPod, labels)
		if cfg.pods && r.P(25) {
			// bare pods, possibly several sharing one controller owner
			n := 1
			owner := ""
			okind := "Pod"
			if r.P(60) {
				owner = name
				okind = Pick(r, []string{"ReplicaSet", "StatefulSet", "Job", "DaemonSet"})
				n = r.Range(1, 3)
			}
			if prev.kinds[okind] {
				continue // the same workload twice (pod names are unique in a namespace)
			}
			prev.kinds[okind] = true
			for j := 0; j < n; j++ {
				pn := name
				if owner != "" {
					pn = fmt.Sprintf("%s-p%d", name, j)
					if used {
						pn = fmt.Sprintf("%s-%sp%d", name, strings.ToLower(okind[:2]), j)
					}
				}
				ok := okind
				if owner == "" {
					ok = ""
				}
				pports := ports
				if cfg.podPortsVary && j > 0 && r.P(35) {
					// the same port names on other numbers: which pod stands for the workload matters
					pports = append([]CPort{}, ports...)
					for k := range pports {
						if pports[k].Name != "" {
							pports[k].Port = Pick(r, portPool)
						}
					}
				}
				w.Objs = append(w.Objs, Obj{Kind: "pod", Pod: &PodObj{NS: ns, Name: pn, Labels: labels, Ports: pports, OwnerKind: ok, OwnerName: owner,
					HostIP: Pick(r, []string{"192.168.49.2", "10.1.2.3", "172.18.0.4"})}})
			}
			continue
		}
		wl := &Workload{Kind: Pick(r, wlKinds), NS: ns, Name: name, Labels: labels, Ports: ports}
		if prev.kinds[wl.Kind] {
			continue
		}
		prev.kinds[wl.Kind] = true
		if r.P(60) {
			n := r.Intn(4)
			wl.Replicas = &n
		}
		w.Objs = append(w.Objs, Obj{Kind: "wl", Wl: wl})
	}
	if cfg.ingress && cfg.icName && r.P(12) {
		// a real Pod with the name and namespace of the pod the ingress analysis adds (no Namespace manifest for it): the
		// ingress-controller lines are about the analysis' own pod whatever the input calls its pods
		w.Objs = append(w.Objs, Obj{Kind: "pod", Pod: &PodObj{NS: "ingress-controller-ns", Name: "ingress-controller", Labels: genLabels(r, lblKeys, lblVals, 2),
			Ports: genCPorts(r), HostIP: "192.168.49.2"}})
	}
	if cfg.complementPct > 0 && r.P(cfg.complementPct) {
		// two policies on the same pods whose union is everything, the second completing one port range of the first
		ns := Pick(r, nss)
		k := Pick(r, []int{1023, 32767, 8080})
		e := 65535
		all := func(p string) NPPort { return NPPort{Proto: p, Kind: "num", Num: 1, End: &e} }
		a := &NetPol{NS: ns, Name: "cpa", Types: []string{"I"}, Ingress: []NPRule{{Ports: []NPPort{all("TCP"), all("UDP"), {Proto: "SCTP", Kind: "num", Num: 1, End: &k}}}}}
		b := &NetPol{NS: ns, Name: "cpb", Types: []string{"I"}, Ingress: []NPRule{{Ports: []NPPort{{Proto: "SCTP", Kind: "num", Num: k + 1, End: &e}}}}}
		w.Objs = append(w.Objs, Obj{Kind: "np", Np: a}, Obj{Kind: "np", Np: b})
		if r.P(50) {
			// a third one adds a port by name (already inside the union when it resolves); visited before or after the others
			c := &NetPol{NS: ns, Name: Pick(r, []string{"aaa", "zzz"}), Types: []string{"I"}, Ingress: []NPRule{{Ports: []NPPort{{Proto: Pick(r, protoPool), Kind: "name", Name: Pick(r, portNames)}}}}}
			w.Objs = append(w.Objs, Obj{Kind: "np", Np: c})
		}
	}
	nNP := r.Intn(cfg.maxNP + 1)
	for i := 0; i < nNP; i++ {
		npNs := Pick(r, nss)
		if r.P(4) {
			npNs = "" // written without metadata.namespace: the policy belongs to `default`
		}
		w.Objs = append(w.Objs, Obj{Kind: "np", Np: genNetPol(r, cfg, npNs, fmt.Sprintf("np%d", i))})
	}
	if cfg.dashTwinPct > 0 && r.P(cfg.dashTwinPct) {
		// two potential peers whose names differ in `-` / `_` only (the dot writer maps both to `_` in identifiers)
		for _, o := range w.Objs {
			if o.Kind == "np" {
				k := Pick(r, nsLblKeys)
				p80, p81 := 80, 81
				o.Np.Ingress = append(o.Np.Ingress,
					NPRule{Peers: []NPPeer{{NsSel: &Sel{ML: []KV{{k, "pre-prod"}}}}}, Ports: []NPPort{{Proto: "TCP", Kind: "num", Num: p80}}},
					NPRule{Peers: []NPPeer{{NsSel: &Sel{ML: []KV{{k, "pre_prod"}}}}}, Ports: []NPPort{{Proto: "TCP", Kind: "num", Num: p81}}})
				break
			}
		}
	}
	if cfg.anp && r.P(70) {
		n := r.Intn(4)
		prios := []int{0, 1, 5, 10, 50, 99, 100, 500, 999, 1000}
		Shuffle(r, prios)
		twin := n >= 1 && cfg.samePrioPct > 0 && r.P(cfg.samePrioPct)
		for i := 0; i < n; i++ {
			a := &ANP{Name: fmt.Sprintf("anp%d", i), Prio: prios[i], Subject: genSubject(r)}
			if r.P(75) {
				a.Ingress = genARules(r, false, "i")
			}
			if r.P(75) {
				a.Egress = genARules(r, false, "e")
			}
			w.Objs = append(w.Objs, Obj{Kind: "anp", Anp: a})
			if twin && i == 0 {
				// a second policy with the same priority and subject that says the opposite wherever the first speaks:
				// a conflict the tool must reject, by every way the policies reach it
				t := &ANP{Name: "anptwin", Prio: a.Prio, Subject: a.Subject}
				flip := func(rs []ARule) []ARule {
					var o []ARule
					for _, x := range rs {
						y := x
						y.Name = x.Name + "t"
						switch x.Action {
						case "Allow":
							y.Action = "Deny"
						case "Deny":
							y.Action = "Allow"
						}
						o = append(o, y)
					}
					return o
				}
				t.Ingress, t.Egress = flip(a.Ingress), flip(a.Egress)
				if len(t.Ingress)+len(t.Egress) == 0 {
					t.Ingress = []ARule{{Name: "tt", Action: "Deny", Peers: []Subject{{}}, PortsNil: true}}
				}
				w.Objs = append(w.Objs, Obj{Kind: "anp", Anp: t})
			}
		}
	}
	if cfg.banp && r.P(45) {
		b := &BANP{Name: "default", Subject: genSubject(r)}
		if r.P(75) {
			b.Ingress = genARules(r, true, "bi")
		}
		if r.P(75) {
			b.Egress = genARules(r, true, "be")
		}
		w.Objs = append(w.Objs, Obj{Kind: "banp", Banp: b})
	}
	if cfg.ingress {
		genIngressObjs(r, w, nss)
	}
	// document order is arbitrary
	if r.P(70) {
		Shuffle(r, w.Objs)
	}
	return w
}

// genIngressObjs adds Services, Ingresses and Routes targeting the generated workloads.
func genIngressObjs(r *Rng, w *World, nss []string) {
	type wlInfo struct {
		ns     string
		labels []KV
		ports  []CPort
	}
	var wls []wlInfo
	for _, o := range w.Objs {
		switch o.Kind {
		case "wl":
			wls = append(wls, wlInfo{o.Wl.NS, o.Wl.Labels, o.Wl.Ports})
		case "pod":
			wls = append(wls, wlInfo{o.Pod.NS, o.Pod.Labels, o.Pod.Ports})
		}
	}
	if len(wls) == 0 {
		return
	}
	nSvc := r.Range(1, 3)
	type svcInfo struct {
		ns, name string
		ports    []SvcPort
	}
	var svcs []svcInfo
	for i := 0; i < nSvc; i++ {
		t := Pick(r, wls)
		s := &Service{NS: t.ns, Name: fmt.Sprintf("svc%d", i)}
		// selector: a subset of the target's labels (empty labels -> sometimes no selector at all)
		if len(t.labels) > 0 {
			n := r.Range(1, len(t.labels))
			s.Selector = append([]KV{}, t.labels[:n]...)
		} else if r.P(50) {
			s.Selector = []KV{{"app", Pick(r, lblVals)}}
		}
		np := r.Range(1, 3)
		usedNum, usedName := map[int]bool{}, map[string]bool{}
		for j := 0; j < np; j++ {
			sp := SvcPort{Port: Pick(r, []int{80, 443, 8080, 53, 9090, 8000}), Proto: Pick(r, []string{"TCP", "TCP", "TCP", "UDP", ""})}
			if usedNum[sp.Port] {
				continue
			}
			usedNum[sp.Port] = true
			if r.P(60) {
				nm := Pick(r, []string{"web", "x", "http", "dns"}) // overlaps the container port names: a targetPort name may equal another port's name
				if !usedName[nm] {
					usedName[nm] = true
					sp.Name = nm
				}
			}
			switch k := r.Intn(100); {
			case k < 35: // no targetPort: defaults to port
			case k < 70:
				// a container port of the target (any protocol), or an unrelated number
				n := Pick(r, portPool)
				if len(t.ports) > 0 && r.P(75) {
					n = Pick(r, t.ports).Port
				}
				sp.TargetNum = &n
			default:
				nm := Pick(r, portNames)
				if len(t.ports) > 0 && r.P(75) {
					if c := Pick(r, t.ports); c.Name != "" {
						nm = c.Name
					}
				}
				sp.TargetName = &nm
			}
			s.Ports = append(s.Ports, sp)
		}
		if len(s.Ports) == 0 {
			continue
		}
		w.Objs = append(w.Objs, Obj{Kind: "svc", Svc: s})
		svcs = append(svcs, svcInfo{s.NS, s.Name, s.Ports})
	}
	if len(svcs) == 0 {
		return
	}
	backendFor := func(sv svcInfo) IngBackend {
		b := IngBackend{Svc: sv.name}
		sp := Pick(r, sv.ports)
		switch k := r.Intn(100); {
		case k < 45:
			n := sp.Port
			b.PortNum = &n
		case k < 70 && sp.Name != "":
			nm := sp.Name
			b.PortName = &nm
		case k < 85: // a number that is (maybe) only a targetPort, or nothing of the service
			n := Pick(r, portPool)
			if sp.TargetNum != nil {
				n = *sp.TargetNum
			}
			b.PortNum = &n
		default:
			nm := Pick(r, []string{"web", "nosuch", "http", "x"})
			if tp := Pick(r, sv.ports).TargetName; tp != nil && r.P(50) {
				nm = *tp // a name that is (maybe) only the targetPort name of some port of the service
			}
			b.PortName = &nm
		}
		if r.P(8) {
			b.Svc = "nosuchsvc"
		}
		return b
	}
	nIng := r.Intn(3)
	for i := 0; i < nIng; i++ {
		sv := Pick(r, svcs)
		ing := &Ingress{NS: sv.ns, Name: fmt.Sprintf("ing%d", i)}
		if r.P(30) {
			b := backendFor(sv)
			ing.Default = &b
		}
		nr := r.Intn(3)
		for j := 0; j < nr; j++ {
			var bs []IngBackend
			for k := r.Range(1, 2); k > 0; k-- {
				// backends name services of the ingress's own namespace
				var same []svcInfo
				for _, x := range svcs {
					if x.ns == sv.ns {
						same = append(same, x)
					}
				}
				bs = append(bs, backendFor(Pick(r, same)))
			}
			ing.Rules = append(ing.Rules, bs)
		}
		if ing.Default == nil && len(ing.Rules) == 0 {
			b := backendFor(sv)
			ing.Default = &b
		}
		w.Objs = append(w.Objs, Obj{Kind: "ing", Ing: ing})
	}
	nRt := r.Intn(3)
	if nIng == 0 && nRt == 0 {
		nRt = 1
	}
	for i := 0; i < nRt; i++ {
		sv := Pick(r, svcs)
		rt := &Route{NS: sv.ns, Name: fmt.Sprintf("rt%d", i), ToKind: Pick(r, []string{"Service", "Service", "", "Other"}), ToName: sv.name}
		if r.P(30) {
			o := Pick(r, svcs)
			rt.Alt = append(rt.Alt, [2]string{Pick(r, []string{"Service", "Service", "", "Other"}), o.name})
		}
		sp := Pick(r, sv.ports)
		switch k := r.Intn(100); {
		case k < 30: // no port: all service ports
		case k < 50:
			n := sp.Port
			rt.TPortNum = &n
		case k < 65 && sp.TargetNum != nil:
			n := *sp.TargetNum
			rt.TPortNum = &n
		case k < 85 && sp.Name != "":
			nm := sp.Name
			rt.TPortName = &nm
		default:
			nm := Pick(r, portNames)
			if sp.TargetName != nil {
				nm = *sp.TargetName
			}
			rt.TPortName = &nm
		}
		w.Objs = append(w.Objs, Obj{Kind: "route", Route: rt})
	}
}
