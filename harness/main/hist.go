package main

// Family "hist" (C15, C03, C02): histories of InsertObject / DeleteObject / CheckIfAllowed on one PolicyEngine.
// Observation after every operation: the outcome and the verdict cache (keys oldest first, with values).
// Oracle P: every query is also put to a fresh engine holding the same current objects (admin policies
// inserted by ascending priority), and to the connection-set path of the same engine state.

import (
	"encoding/hex"
	"encoding/json"
	"fmt"
	"sort"
	"strconv"
	"strings"

	appsv1 "k8s.io/api/apps/v1"
	batchv1 "k8s.io/api/batch/v1"
	corev1 "k8s.io/api/core/v1"
	netv1 "k8s.io/api/networking/v1"
	"k8s.io/apimachinery/pkg/runtime"
	apisv1a "sigs.k8s.io/network-policy-api/apis/v1alpha1"

	"github.com/np-guard/netpol-analyzer/pkg/netpol/eval"
)

// toRuntime converts an IR object to the typed API object (through its JSON document).
func toRuntime(o Obj) (runtime.Object, error) {
	js, err := json.Marshal(o.Doc())
	if err != nil {
		return nil, err
	}
	var r runtime.Object
	switch o.Kind {
	case "ns":
		r = &corev1.Namespace{}
	case "pod":
		r = &corev1.Pod{}
	case "np":
		r = &netv1.NetworkPolicy{}
	case "anp":
		r = &apisv1a.AdminNetworkPolicy{}
	case "banp":
		r = &apisv1a.BaselineAdminNetworkPolicy{}
	case "wl":
		switch o.Wl.Kind {
		case "Deployment":
			r = &appsv1.Deployment{}
		case "ReplicaSet":
			r = &appsv1.ReplicaSet{}
		case "StatefulSet":
			r = &appsv1.StatefulSet{}
		case "DaemonSet":
			r = &appsv1.DaemonSet{}
		case "Job":
			r = &batchv1.Job{}
		case "CronJob":
			r = &batchv1.CronJob{}
		case "ReplicationController":
			r = &corev1.ReplicationController{}
		}
	}
	if r == nil {
		return nil, fmt.Errorf("no runtime object for %s", o.Kind)
	}
	if err := json.Unmarshal(js, r); err != nil {
		return nil, err
	}
	return r, nil
}

func objKey(o Obj) string {
	switch o.Kind {
	case "ns":
		return "ns/" + o.Ns.Name
	case "pod":
		return "pod/" + o.Pod.NS + "/" + o.Pod.Name
	case "np":
		ns := o.Np.NS
		if ns == "" { // no metadata.namespace: the policy lives in `default`
			ns = "default"
		}
		return "np/" + ns + "/" + o.Np.Name
	case "anp":
		return "anp/" + o.Anp.Name
	case "banp":
		return "banp"
	case "wl":
		return "wl/" + o.Wl.NS + "/" + o.Wl.Name + "/" + o.Wl.Kind
	}
	return o.Kind
}

func parseObj(s *Sx) (Obj, error) {
	w, err := ParseWorld(Ls(At("world"), s))
	if err != nil || len(w.Objs) != 1 {
		return Obj{}, fmt.Errorf("bad object")
	}
	return w.Objs[0], nil
}

// current objects as tracked by the harness (independent of the engine): insertion succeeded => present.
type histTracker struct {
	objs  map[string]Obj
	order []string
}

func (t *histTracker) put(o Obj) {
	k := objKey(o)
	if _, ok := t.objs[k]; !ok {
		t.order = append(t.order, k)
	}
	t.objs[k] = o
}

func (t *histTracker) del(o Obj) {
	k := objKey(o)
	if _, ok := t.objs[k]; ok {
		delete(t.objs, k)
		for i, x := range t.order {
			if x == k {
				t.order = append(t.order[:i], t.order[i+1:]...)
				break
			}
		}
	}
}

// podsOfWorkload: the pods a workload object stands for (one, or two when it asks for several replicas); a workload
// object is accounted for as these pods, which is all the engine keeps of it
func podsOfWorkload(w *Workload) []Obj {
	n := 1
	if w.Replicas != nil && *w.Replicas > 1 && w.Kind != "DaemonSet" && w.Kind != "CronJob" {
		n = 2
	}
	var l []Obj
	for i := 1; i <= n; i++ {
		l = append(l, Obj{Kind: "pod", Pod: &PodObj{NS: w.NS, Name: fmt.Sprintf("%s-%d", w.Name, i), Labels: w.Labels, Ports: w.Ports,
			OwnerKind: w.Kind, OwnerName: w.Name, HostIP: "192.168.49.2"}})
	}
	return l
}

// freshEngine builds a new engine holding the tracked objects; admin policies by ascending priority.
func (t *histTracker) freshEngine() (*eval.PolicyEngine, error) {
	pe := eval.NewPolicyEngine()
	var anps []Obj
	for _, k := range t.order {
		o := t.objs[k]
		if o.Kind == "anp" {
			anps = append(anps, o)
			continue
		}
		r, err := toRuntime(o)
		if err != nil {
			return nil, err
		}
		if err := pe.InsertObject(r); err != nil {
			return nil, fmt.Errorf("fresh insert %s: %w", k, err)
		}
	}
	sort.SliceStable(anps, func(i, j int) bool { return anps[i].Anp.Prio < anps[j].Anp.Prio })
	for _, o := range anps {
		r, _ := toRuntime(o)
		if err := pe.InsertObject(r); err != nil {
			return nil, fmt.Errorf("fresh insert anp: %w", err)
		}
	}
	return pe, nil
}

const sha1Empty = "da39a3ee5e6b4b0d3255bfef95601890afd80709"

// canonKey replaces every label-variant hash hex(preimage ++ sha1("")) by its pre-image (DESIGN.md 3.2)
func canonKey(k string) string {
	parts := strings.Split(k, "/")
	for i, p := range parts {
		if strings.HasSuffix(p, sha1Empty) {
			if b, err := hex.DecodeString(strings.TrimSuffix(p, sha1Empty)); err == nil {
				parts[i] = string(b) + "$" // the constant suffix (hex of sha1 of nothing) that ends every variant
			}
		}
	}
	return strings.ReplaceAll(strings.Join(parts, "/"), " ", "_")
}

func cacheSx(pe *eval.PolicyEngine) *Sx {
	r := Ls(At("cache"))
	for _, k := range eval.VerifCacheKeys(pe) {
		v, _ := eval.VerifCachePeek(pe, k)
		r.Add(Ls(At(canonKey(k)), At(b01(v))))
	}
	return r
}

func ansSx(res bool, err error) *Sx {
	if err != nil {
		c := classifyErr(err)
		if c == "other" && (strings.Contains(err.Error(), "strconv.ParseInt") || strings.Contains(err.Error(), "invalid syntax")) {
			c = "badPort"
		}
		return Ls(At("err"), At(c))
	}
	return Ls(At("ans"), At(b01(res)))
}

func execHistCase(c *Sx, env *execEnv) (*Sx, []Violation) {
	args := c.Args()
	out := Ls(At("hist"), args[0])
	var viols []Violation
	reported := map[string]bool{}
	rep := func(prop, kind, detail string, step int) {
		if reported[prop+kind] {
			return
		}
		reported[prop+kind] = true
		viols = append(viols, Violation{Prop: prop, Kind: kind, Detail: detail, Case: c.String(), Step: step})
	}
	pe := eval.NewPolicyEngine()
	capN := 10
	if f := Field("cap", args[1:]); f != nil {
		capN = atoi(f.L[1].A)
	}
	eval.VerifSetCacheSize(pe, capN)
	tr := &histTracker{objs: map[string]Obj{}}
	ptrs := map[string]runtime.Object{} // inserted pointers (deletes of admin policies compare pointers)
	lastUpdate := -1
	for step, op := range args[1:] {
		if op.Head() == "cap" {
			continue
		}
		var res *Sx
		panicked := ""
		if n := map[string]int{"ins": 2, "del": 2, "q": 5, "clear": 1, "setres": 4}[op.Head()]; n == 0 || len(op.L) < n {
			out.Add(At("bad-op"))
			continue
		}
		func() {
			defer func() {
				if e := recover(); e != nil {
					panicked = fmt.Sprint(e)
				}
			}()
			switch op.Head() {
			case "ins":
				o, err := parseObj(op.L[1])
				if err != nil {
					res = At("bad-op")
					return
				}
				r, err := toRuntime(o)
				if err != nil {
					res = At("bad-op")
					return
				}
				// ---- oracle P: whether an insert is accepted depends on the current objects only - a fresh engine holding them
				// must accept or refuse the same object (a refused insert leaves nothing behind that a later insert can trip over)
				freshErr, freshKnown := error(nil), false
				if o.Kind == "anp" || o.Kind == "banp" || o.Kind == "np" {
					if fe, ferr := tr.freshEngine(); ferr == nil {
						if r2, e2 := toRuntime(o); e2 == nil {
							freshErr, freshKnown = fe.InsertObject(r2), true
						}
					}
				}
				err = pe.InsertObject(r)
				if freshKnown && (err != nil) != (freshErr != nil) {
					rep("C15", "history-dependent-insert", fmt.Sprintf("step %d %s: the engine answers %v, a fresh engine with the same objects answers %v", step, op.String()[:min(200, len(op.String()))], err, freshErr), step)
				}
				if err != nil {
					res = errSx(err)
				} else {
					res = At("ok")
					if o.Kind == "wl" {
						for _, p := range podsOfWorkload(o.Wl) {
							tr.put(p)
							delete(ptrs, objKey(p))
						}
					} else {
						tr.put(o)
						ptrs[objKey(o)] = r
					}
					lastUpdate = step
				}
				env.count("op:ins-" + o.Kind)
			case "setres":
				var objs [3][]Obj
				var nps []*netv1.NetworkPolicy
				var pods []*corev1.Pod
				var nss []*corev1.Namespace
				var rts [3][]runtime.Object
				for gi, g := range op.L[1:4] {
					for _, x := range g.Args() {
						o, err := parseObj(x)
						if err != nil {
							res = At("bad-op")
							return
						}
						r, err := toRuntime(o)
						if err != nil {
							res = At("bad-op")
							return
						}
						objs[gi] = append(objs[gi], o)
						rts[gi] = append(rts[gi], r)
						switch t := r.(type) {
						case *netv1.NetworkPolicy:
							nps = append(nps, t)
						case *corev1.Pod:
							pods = append(pods, t)
						case *corev1.Namespace:
							nss = append(nss, t)
						}
					}
				}
				if len(nps) != len(objs[0]) || len(pods) != len(objs[1]) || len(nss) != len(objs[2]) {
					res = At("bad-op")
					return
				}
				err := pe.SetResources(nps, pods, nss)
				// accounting: namespaces, policies, pods, in that order; a policy whose name is taken is rejected and ends the call
				rejected := false
				for i, o := range objs[2] {
					tr.put(o)
					ptrs[objKey(o)] = rts[2][i]
				}
				for i, o := range objs[0] {
					if _, dup := tr.objs[objKey(o)]; dup {
						rejected = true
						break
					}
					tr.put(o)
					ptrs[objKey(o)] = rts[0][i]
				}
				if !rejected {
					for i, o := range objs[1] {
						tr.put(o)
						ptrs[objKey(o)] = rts[1][i]
					}
				}
				if err != nil {
					res = errSx(err)
				} else {
					res = At("ok")
				}
				if (err != nil) != rejected {
					rep("C15", "setresources-outcome", fmt.Sprintf("step %d %s: error %v, a policy name already taken: %v", step, op.String()[:min(200, len(op.String()))], err, rejected), step)
				}
				lastUpdate = step
				env.count("op:setres")
			case "del":
				o, err := parseObj(op.L[1])
				if err != nil {
					res = At("bad-op")
					return
				}
				fresh := len(op.L) > 2 && op.L[2].A == "fresh"
				var r runtime.Object
				if p, ok := ptrs[objKey(o)]; ok && !fresh {
					r = p
				} else {
					r, _ = toRuntime(o)
				}
				_, present := tr.objs[objKey(o)]
				if !present {
					env.count("op:del-absent-" + o.Kind)
				}
				err = pe.DeleteObject(r)
				if err != nil {
					res = errSx(err)
				} else {
					res = At("ok")
					tr.del(o)
					delete(ptrs, objKey(o))
					lastUpdate = step
				}
				env.count("op:del-" + o.Kind)
			case "clear":
				pe.ClearResources()
				eval.VerifSetCacheSize(pe, capN)
				tr = &histTracker{objs: map[string]Obj{}}
				ptrs = map[string]runtime.Object{}
				res = At("ok")
			case "q":
				src, dst, proto, port := op.L[1].A, op.L[2].A, op.L[3].A, undash(op.L[4].A)
				keysBefore := strings.Join(eval.VerifCacheKeys(pe), " ")
				ans, err := pe.CheckIfAllowed(src, dst, proto, port)
				res = ansSx(ans, err)
				env.count("op:q")
				_ = keysBefore
				// ---- oracle P: fresh engine with the same current objects
				fe, ferr := tr.freshEngine()
				if ferr != nil {
					env.count("fresh-engine-unavailable")
					break
				}
				fans, ferr2 := fe.CheckIfAllowed(src, dst, proto, port)
				fres := ansSx(fans, ferr2)
				if fres.String() != res.String() {
					rep("C15", "history-dependent-answer", fmt.Sprintf("step %d %s: engine answers %s, a fresh engine with the same objects answers %s", step, op.String(), res.String(), fres.String()), step)
				} else if lastUpdate >= 0 {
					env.nontr[fmt.Sprintf("%s|%s|%d", op.String(), res.String(), len(tr.order))] = true
				}
				// ---- oracle P (C03): the connection-set path of the same (fresh) state; the claim covers numeric
				// ports 1..65535 and queries with at least one pod end
				pn, perr := strconv.Atoi(port)
				inDomain := perr == nil && pn >= 1 && pn <= 65535 && (strings.Contains(src, "/") || strings.Contains(dst, "/")) &&
					!(strings.Contains(src, "/") && strings.Count(src, ".") == 3) && !(strings.Contains(dst, "/") && strings.Count(dst, ".") == 3)
				if inDomain {
					cs, cerr := eval.VerifAllowedConns(fe, src, dst)
					switch {
					case ferr2 == nil && cerr == nil:
						if cs.Contains(port, proto) != fans {
							rep("C03", "eval-differs-from-list", fmt.Sprintf("%s: eval=%v, connection set between the peers is %s", op.String(), fans, cs.String()), step)
						} else if err == nil && cs.Contains(port, proto) != ans {
							// the engine of the history itself: its answer must be the one the report of the same resources holds
							rep("C03", "eval-differs-from-list", fmt.Sprintf("step %d %s: the engine answers %v after its history, the connection set between the peers (same objects) is %s", step, op.String(), ans, cs.String()), step)
						} else {
							env.count("c03-compared")
						}
					case ferr2 != nil && cerr == nil:
						rep("C03", "list-answers-eval-fails", fmt.Sprintf("%s: eval fails with %v while the connection-set path gives %s", op.String(), ferr2, cs.String()), step)
					}
				}
			default:
				res = At("bad-op")
			}
		}()
		if panicked != "" {
			env.count("panics")
			out.Add(Ls(At("panic")))
			kind := "panic-" + op.Head()
			rep("C15", kind, fmt.Sprintf("step %d %s panicked: %s", step, op.String(), panicked), step)
			return out, viols // the engine may be left inconsistent
		}
		out.Add(Ls(At("r"), res, cacheSx(pe), anpOrderSx(pe)))
		// ---- oracle P: the admin policies the engine walks are in the order of their priorities, after every operation
		prev, prevName := -1, ""
		for _, n := range eval.VerifSortedANPNames(pe) {
			if o, ok := tr.objs["anp/"+n]; ok && o.Anp != nil {
				if o.Anp.Prio < prev {
					rep("C15", "anp-order-not-by-priority", fmt.Sprintf("step %d %s: the engine holds %s (priority %d) before %s (priority %d)", step, op.String(), prevName, prev, n, o.Anp.Prio), step)
					break
				}
				prev, prevName = o.Anp.Prio, n
			}
		}
	}
	return out, viols
}

func anpOrderSx(pe *eval.PolicyEngine) *Sx {
	r := Ls(At("anps"))
	for _, n := range eval.VerifSortedANPNames(pe) {
		r.Add(At(n))
	}
	return r
}

// ---------------------------------------------------------------------------------------------
// generator

func genHistCase(r *Rng, id int, tier string) *Sx {
	cfg := &genCfg{anp: true, banp: true, pods: true, namedOnIPPct: 5, maxNP: 3, maxWl: 4} // a named port meeting an IP destination: eval answers or fails by the first policy in name order (model and tool alike)
	c := Ls(At("hist"), Ai(int64(id)), Ls(At("cap"), Ai(int64(Pick(r, []int{2, 3, 10, 10, 500})))))
	nss := []string{"ns0", "ns1", "default"}
	// vocabulary: a few pods (some sharing an owner), namespaces, policies
	type podDef struct {
		ns, name, owner string
		labels          []KV
		ports           []CPort
	}
	var pods []podDef
	for i := 0; i < 5; i++ {
		ns := Pick(r, nss)
		owner := Pick(r, []string{"", "dep-a", "dep-a", "dep-b"})
		p := podDef{ns: ns, name: fmt.Sprintf("p%d", i), owner: owner, labels: genLabels(r, lblKeys, lblVals, 2), ports: genCPorts(r)}
		// pods of one owner (in one namespace) share labels
		for _, q := range pods {
			if q.owner == owner && owner != "" && q.ns == ns {
				p.labels = q.labels
				switch {
				case r.P(70):
					p.ports = q.ports
				case r.P(60) && len(q.ports) > 0:
					// the same port names on other numbers: a rule's named port converts differently for the two pods
					p.ports = append([]CPort{}, q.ports...)
					for j := range p.ports {
						if p.ports[j].Name != "" {
							p.ports[j].Port = Pick(r, portPool)
						}
					}
				}
			}
		}
		pods = append(pods, p)
	}
	candPod, candNs = nil, nil
	for _, p := range pods {
		candPod = append(candPod, p.labels)
	}
	for _, ns := range nss {
		candNs = append(candNs, []KV{{"kubernetes.io/metadata.name", ns}})
	}
	podObj := func(p podDef) Obj {
		o := &PodObj{NS: p.ns, Name: p.name, Labels: p.labels, Ports: p.ports, HostIP: "192.168.49.2"}
		if p.owner != "" {
			o.OwnerKind, o.OwnerName = "ReplicaSet", p.owner
		}
		return Obj{Kind: "pod", Pod: o}
	}
	nsObj := func(ns string) Obj {
		l := genLabels(r, nsLblKeys, nsLblVals, 2)
		// selectors of later policies are biased to the namespace labels in play (so that label updates matter)
		candNs = append(candNs, append(append([]KV{}, l...), KV{"kubernetes.io/metadata.name", ns}))
		return Obj{Kind: "ns", Ns: &NsObj{Name: ns, Labels: l}}
	}
	var wlPods []string // pods that workload objects of the history stand for
	// the namespace a policy is written with: sometimes none (the policy then lives in `default`)
	npNs := func() string {
		if r.P(12) {
			return ""
		}
		return Pick(r, nss)
	}
	var live []Obj // what the generator believes is present (for deletes and meaningful queries)
	add := func(o Obj) { c.Add(Ls(At("ins"), o.Sx())); live = append(live, o) }
	// usually start with namespaces and pods so that queries are meaningful
	if r.P(85) {
		for _, ns := range nss {
			add(nsObj(ns))
		}
		for _, p := range pods {
			if r.P(80) {
				add(podObj(p))
			}
		}
	}
	prios := []int{1, 5, 10, 50, 100, 500}
	Shuffle(r, prios)
	anpN := 0
	var queries []*Sx
	// scenario: two pods of one owner declare one port name on different numbers, a policy admits that name, and the
	// same numeric question is put about both pods (verdicts are cached per owner)
	if r.P(30) {
	scenario:
		for _, a := range pods {
			for _, b := range pods {
				if a.name == b.name || a.owner == "" || a.owner != b.owner || a.ns != b.ns {
					continue
				}
				for _, pa := range a.ports {
					for _, pb := range b.ports {
						if pa.Name == "" || pa.Name != pb.Name || pa.Port == pb.Port {
							continue
						}
						proto := pa.Proto
						if proto == "" {
							proto = "TCP"
						}
						np := &NetPol{NS: a.ns, Name: "npn", PodSel: Sel{ML: a.labels}, Types: []string{"I"},
							Ingress: []NPRule{{Ports: []NPPort{{Proto: pa.Proto, Kind: "name", Name: pa.Name}}}}}
						add(Obj{Kind: "pod", Pod: &PodObj{NS: a.ns, Name: a.name, Labels: a.labels, Ports: a.ports, OwnerKind: "ReplicaSet", OwnerName: a.owner, HostIP: "192.168.49.2"}})
						add(Obj{Kind: "pod", Pod: &PodObj{NS: b.ns, Name: b.name, Labels: b.labels, Ports: b.ports, OwnerKind: "ReplicaSet", OwnerName: b.owner, HostIP: "192.168.49.2"}})
						add(Obj{Kind: "np", Np: np})
						src := Pick(r, pods)
						for _, x := range [][2]string{{a.name, fmt.Sprint(pa.Port)}, {b.name, fmt.Sprint(pa.Port)}, {b.name, fmt.Sprint(pb.Port)}, {a.name, fmt.Sprint(pb.Port)}} {
							q := Ls(At("q"), At(src.ns+"/"+src.name), At(a.ns+"/"+x[0]), At(proto), At(x[1]))
							queries = append(queries, q)
							c.Add(q)
						}
						break scenario
					}
				}
			}
		}
	}
	// scenario: a policy admits peers by a label of their namespace; the question is put, the namespace comes back without
	// that label (or with another value, or with one more label), and the question is put again
	if r.P(20) {
		a, b := Pick(r, pods), Pick(r, pods)
		if a.name != b.name {
			nsl := &Sel{ML: []KV{{"team", "x"}}}
			np := &NetPol{NS: b.ns, Name: "npns", PodSel: Sel{ML: b.labels}, Types: []string{"I"}, Ingress: []NPRule{{Peers: []NPPeer{{NsSel: nsl}}}}}
			add(Obj{Kind: "ns", Ns: &NsObj{Name: a.ns, Labels: []KV{{"team", "x"}, {"env", "y"}}}})
			if b.ns != a.ns {
				add(nsObj(b.ns))
			}
			add(podObj(a))
			add(podObj(b))
			add(Obj{Kind: "np", Np: np})
			q := Ls(At("q"), At(a.ns+"/"+a.name), At(b.ns+"/"+b.name), At("TCP"), At("80"))
			queries = append(queries, q)
			c.Add(q)
			add(Obj{Kind: "ns", Ns: &NsObj{Name: a.ns, Labels: Pick(r, [][]KV{{}, {{"env", "y"}}, {{"team", "y"}, {"env", "y"}}, {{"team", "x"}, {"env", "y"}, {"extra", "z"}}})}})
			c.Add(q)
		}
	}
	// scenario: a pod without an owner comes back with other labels between two equal questions - the policy that selected it
	// no longer does (or the other way round), the answer must follow the labels the pod has now
	if r.P(15) {
		a, b := Pick(r, pods), Pick(r, pods)
		if a.name != b.name {
			b.owner = ""
			sel := []KV{{lblKeys[0], lblVals[0]}}
			other := []KV{{lblKeys[0], lblVals[1]}}
			np := &NetPol{NS: b.ns, Name: "nplone", PodSel: Sel{ML: sel}, Types: []string{"I", "E"}}
			for _, ns := range nss {
				add(nsObj(ns))
			}
			first, second := sel, other
			if r.P(40) {
				first, second = other, sel
			}
			b.labels = first
			add(podObj(a))
			add(podObj(b))
			add(Obj{Kind: "np", Np: np})
			q := Ls(At("q"), At(a.ns+"/"+a.name), At(b.ns+"/"+b.name), At("TCP"), At("80"))
			if r.P(40) {
				q = Ls(At("q"), At(b.ns+"/"+b.name), At(a.ns+"/"+a.name), At("TCP"), At("80"))
			}
			queries = append(queries, q)
			c.Add(q)
			b.labels = second
			add(podObj(b))
			c.Add(q)
		}
	}
	n := r.Range(5, 40)
	if tier == "thorough" {
		n = r.Range(5, 60)
	}
	for i := 0; i < n; i++ {
		switch k := r.Intn(100); {
		case k < 4: // SetResources: a batch of policies, pods and namespaces
			sr := [3]*Sx{Ls(At("nps")), Ls(At("pods")), Ls(At("nss"))}
			for j, m := 0, r.Intn(3); j < m; j++ {
				o := Obj{Kind: "np", Np: genNetPol(r, cfg, npNs(), fmt.Sprintf("np%d", r.Intn(4)))}
				sr[0].Add(o.Sx())
				live = append(live, o)
			}
			for j, m := 0, r.Intn(3); j < m; j++ {
				o := podObj(Pick(r, pods))
				sr[1].Add(o.Sx())
				live = append(live, o)
			}
			for j, m := 0, r.Intn(2); j < m; j++ {
				o := nsObj(Pick(r, nss))
				sr[2].Add(o.Sx())
				live = append(live, o)
			}
			c.Add(Ls(At("setres"), sr[0], sr[1], sr[2]))
		case k < 45: // query, often repeating an earlier one
			var q *Sx
			if len(queries) > 0 && r.P(55) {
				q = Pick(r, queries)
				if r.P(25) {
					// the same question about another pod of the same owner (the cache shares verdicts between them)
					q0 := q
					for _, a := range pods {
						for _, b := range pods {
							if a.name != b.name && a.owner != "" && a.owner == b.owner && a.ns == b.ns && q0.L[2].A == a.ns+"/"+a.name {
								q = Ls(At("q"), q0.L[1], At(b.ns+"/"+b.name), q0.L[3], q0.L[4])
							}
						}
					}
				}
			} else {
				end := func() string {
					if r.P(15) {
						return Pick(r, []string{"10.1.2.3", "192.168.1.1", "8.8.8.8", "10.0.0.0/8"})
					}
					if len(wlPods) > 0 && r.P(25) {
						return Pick(r, wlPods)
					}
					p := Pick(r, pods)
					return p.ns + "/" + p.name
				}
				port := fmt.Sprint(Pick(r, portPool))
				if r.P(30) { // a declared container port of some pod
					if pp := Pick(r, pods).ports; len(pp) > 0 {
						port = fmt.Sprint(Pick(r, pp).Port)
					}
				}
				if r.P(4) {
					port = Pick(r, []string{"http", "-", "0", "70000"})
				}
				q = Ls(At("q"), At(end()), At(end()), At(Pick(r, []string{"TCP", "TCP", "UDP", "SCTP", "tcp"})), At(port))
				queries = append(queries, q)
			}
			c.Add(q)
		case k < 55:
			p := Pick(r, pods)
			if r.P(25) { // the same pod (same owner and labels) comes back with another port table
				p.ports = genCPorts(r)
			}
			if r.P(15) {
				// a workload object: it stands for one or two pods named after it; coming back with fewer replicas or other
				// labels it updates the pods it still stands for
				reps := Pick(r, []int{1, 2, 3})
				w := &Workload{Kind: Pick(r, []string{"Deployment", "ReplicaSet", "Job"}), NS: p.ns, Name: Pick(r, []string{"wa", "wb"}), Replicas: &reps, Labels: p.labels, Ports: p.ports}
				c.Add(Ls(At("ins"), Obj{Kind: "wl", Wl: w}.Sx()))
				for _, q := range podsOfWorkload(w) {
					live = append(live, q)
					wlPods = append(wlPods, q.Pod.NS+"/"+q.Pod.Name)
				}
				break
			}
			add(podObj(p))
		case k < 62:
			add(nsObj(Pick(r, nss)))
		case k < 74:
			add(Obj{Kind: "np", Np: genNetPol(r, cfg, npNs(), fmt.Sprintf("np%d", r.Intn(3)))})
		case k < 82:
			if anpN < len(prios) {
				name := fmt.Sprintf("anp%d", anpN)
				if r.P(15) {
					name = fmt.Sprintf("anp%d", r.Intn(3)) // sometimes an existing name: the insert is rejected
				}
				a := &ANP{Name: name, Prio: prios[anpN], Subject: genSubject(r), Ingress: genARules(r, false, "i"), Egress: genARules(r, false, "e")}
				if anpN > 0 && r.P(12) {
					// a priority already in use (rejected while the other policy is held), or outside the range
					a.Prio = Pick(r, []int{prios[r.Intn(anpN)], prios[r.Intn(anpN)], -1, 1001})
					c.Add(Ls(At("ins"), Obj{Kind: "anp", Anp: a}.Sx()))
					break
				}
				anpN++
				add(Obj{Kind: "anp", Anp: a})
			}
		case k < 86:
			add(Obj{Kind: "banp", Banp: &BANP{Name: "default", Subject: genSubject(r), Ingress: genARules(r, true, "bi"), Egress: genARules(r, true, "be")}})
		case k < 98:
			// delete: mostly something present, sometimes something absent
			if len(live) > 0 && r.P(85) {
				j := r.Intn(len(live))
				if r.P(35) { // prefer an admin policy that is not the last one inserted
					for t := 0; t < len(live); t++ {
						if live[t].Kind == "anp" {
							j = t
							break
						}
					}
				}
				if r.P(30) { // prefer a policy written without a namespace
					for t := 0; t < len(live); t++ {
						if live[t].Kind == "np" && live[t].Np.NS == "" {
							j = t
							break
						}
					}
				}
				d := Ls(At("del"), live[j].Sx())
				// fresh: the delete is given an equal object, not the pointer that was inserted (the insert writes the
				// defaulted namespace into the object it is given)
				if r.P(20) || (live[j].Kind == "np" && live[j].Np.NS == "" && r.P(60)) {
					d.Add(At("fresh"))
				}
				c.Add(d)
				live = append(live[:j], live[j+1:]...)
			} else {
				var o Obj
				switch r.Intn(5) {
				case 0:
					o = podObj(podDef{ns: "ns0", name: "ghost"})
				case 1:
					o = nsObj("ghostns")
				case 2:
					o = Obj{Kind: "np", Np: &NetPol{NS: "ns0", Name: "ghostnp"}}
				case 3:
					o = Obj{Kind: "anp", Anp: &ANP{Name: "ghostanp", Prio: 7, Subject: Subject{}}}
				default:
					o = Obj{Kind: "banp", Banp: &BANP{Name: "default", Subject: Subject{}}}
				}
				c.Add(Ls(At("del"), o.Sx()))
			}
		default:
			if r.P(30) {
				c.Add(Ls(At("clear")))
				live = nil
				anpN = 0
			}
		}
	}
	return c
}

func init() {
	families["hist"] = family{gen: genHistCase, exec: execHistCase}
}
