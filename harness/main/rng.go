package main

// Rng is splitmix64: every random choice of the harness derives from one state.
type Rng struct{ s uint64 }

func NewRng(seed uint64) *Rng {
	// scramble the seed so that neighbouring seeds give unrelated streams (a linear seed map makes the
	// stream of seed s+1 the stream of seed s shifted by one)
	z := seed + 0x632BE59BD9B4E019
	z = (z ^ (z >> 30)) * 0xBF58476D1CE4E5B9
	z = (z ^ (z >> 27)) * 0x94D049BB133111EB
	z ^= z >> 31
	z = (z ^ (z >> 33)) * 0xFF51AFD7ED558CCD
	z ^= z >> 33
	return &Rng{s: z}
}

func (r *Rng) U64() uint64 {
	r.s += 0x9E3779B97F4A7C15
	z := r.s
	z = (z ^ (z >> 30)) * 0xBF58476D1CE4E5B9
	z = (z ^ (z >> 27)) * 0x94D049BB133111EB
	return z ^ (z >> 31)
}

// Intn returns a value in [0,n).
func (r *Rng) Intn(n int) int {
	if n <= 0 {
		return 0
	}
	return int(r.U64() % uint64(n))
}

// Range returns a value in [lo,hi].
func (r *Rng) Range(lo, hi int) int { return lo + r.Intn(hi-lo+1) }

// P returns true with probability pct/100.
func (r *Rng) P(pct int) bool { return r.Intn(100) < pct }

func Pick[T any](r *Rng, xs []T) T { return xs[r.Intn(len(xs))] }

func Shuffle[T any](r *Rng, xs []T) {
	for i := len(xs) - 1; i > 0; i-- {
		j := r.Intn(i + 1)
		xs[i], xs[j] = xs[j], xs[i]
	}
}

// Fork derives an independent generator (so that adding choices in one part does not shift others).
func (r *Rng) Fork() *Rng { return NewRng(r.U64()) }
