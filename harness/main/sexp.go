package main

import (
	"fmt"
	"strings"
)

// Sx is an S-expression: an atom (A != "" or L == nil) or a list.
type Sx struct {
	A      string
	L      []*Sx
	IsList bool
}

func At(s string) *Sx { return &Sx{A: s} }
func Ai(i int64) *Sx  { return &Sx{A: fmt.Sprintf("%d", i)} }
func Ls(xs ...*Sx) *Sx {
	return &Sx{L: xs, IsList: true}
}
func (s *Sx) Add(xs ...*Sx) *Sx { s.L = append(s.L, xs...); return s }

func (s *Sx) write(b *strings.Builder) {
	if !s.IsList {
		b.WriteString(s.A)
		return
	}
	b.WriteByte('(')
	for i, x := range s.L {
		if i > 0 {
			b.WriteByte(' ')
		}
		x.write(b)
	}
	b.WriteByte(')')
}

func (s *Sx) String() string {
	var b strings.Builder
	s.write(&b)
	return b.String()
}

func (s *Sx) Head() string {
	if s.IsList && len(s.L) > 0 && !s.L[0].IsList {
		return s.L[0].A
	}
	return ""
}

func (s *Sx) Args() []*Sx {
	if s.IsList && len(s.L) > 0 {
		return s.L[1:]
	}
	return nil
}

// Field returns the first sub-list with the given head among xs.
func Field(k string, xs []*Sx) *Sx {
	for _, x := range xs {
		if x.Head() == k {
			return x
		}
	}
	return nil
}

func Fields(k string, xs []*Sx) []*Sx {
	var r []*Sx
	for _, x := range xs {
		if x.Head() == k {
			r = append(r, x)
		}
	}
	return r
}

func ParseSx(line string) (*Sx, error) {
	stack := []*Sx{Ls()}
	cur := strings.Builder{}
	flush := func() {
		if cur.Len() > 0 {
			top := stack[len(stack)-1]
			top.L = append(top.L, At(cur.String()))
			cur.Reset()
		}
	}
	for _, c := range line {
		switch c {
		case '(':
			flush()
			stack = append(stack, Ls())
		case ')':
			flush()
			if len(stack) < 2 {
				return nil, fmt.Errorf("unbalanced")
			}
			top := stack[len(stack)-1]
			stack = stack[:len(stack)-1]
			stack[len(stack)-1].L = append(stack[len(stack)-1].L, top)
		case ' ', '\t', '\n', '\r':
			flush()
		default:
			cur.WriteRune(c)
		}
	}
	flush()
	if len(stack) != 1 || len(stack[0].L) != 1 {
		return nil, fmt.Errorf("unbalanced or empty")
	}
	return stack[0].L[0], nil
}
