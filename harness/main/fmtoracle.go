package main

// Independent oracles for the fmt family (C09): nothing here calls the formatting code under test.

import (
	"encoding/csv"
	"encoding/json"
	"fmt"
	"regexp"
	"sort"
	"strings"

	"github.com/np-guard/netpol-analyzer/pkg/netpol/connlist"
)

// indepConnStr renders the connection of an API entry from its structured accessors only
// (AllProtocolsAndPorts, ProtocolsAndPorts: protocol -> port ranges with Start/End).
func indepConnStr(c connlist.Peer2PeerConnection) string {
	if c.AllProtocolsAndPorts() {
		return "All Connections"
	}
	m := c.ProtocolsAndPorts()
	if len(m) == 0 {
		return "No Connections"
	}
	var parts []string
	for proto, ranges := range m {
		var rs []string
		for _, pr := range ranges {
			if pr.Start() == pr.End() {
				rs = append(rs, fmt.Sprintf("%d", pr.Start()))
			} else {
				rs = append(rs, fmt.Sprintf("%d-%d", pr.Start(), pr.End()))
			}
		}
		parts = append(parts, string(proto)+" "+strings.Join(rs, ","))
	}
	sort.Strings(parts)
	return strings.Join(parts, ",")
}

// ---------------------------------------------------------------------------------------------
// exposure sections of txt / md / csv / json: parsed back and compared with what the API returned
// (ExposedPeers() and the ip-block entries of the connection list).

type xrow struct{ dir, peer, other, conn string }

func (x xrow) String() string { return x.dir + " " + x.peer + " " + x.other + " : " + x.conn }

var txtXLine = regexp.MustCompile(`^(.+?) \t(=>|<=) \t(.+?) : (.+)$`)
var ipRange = regexp.MustCompile(`^\d+\.\d+\.\d+\.\d+-\d+\.\d+\.\d+\.\d+$`)

// parseExposure returns the rows of the exposure sections and the "not protected" lines (txt only)
func parseExposure(format, out string) (rows []xrow, unprotected []string, err error) {
	switch format {
	case "txt":
		i := strings.Index(out, "\nExposure Analysis Result:")
		if i < 0 {
			return nil, nil, nil
		}
		dir := ""
		for _, l := range strings.Split(out[i+1:], "\n") {
			switch {
			case l == "" || l == "Exposure Analysis Result:":
			case l == "Egress Exposure:":
				dir = "eg"
			case l == "Ingress Exposure:":
				dir = "ing"
			case l == "Workloads not protected by network policies:":
				dir = "unprotected"
			case dir == "unprotected":
				unprotected = append(unprotected, l)
			default:
				m := txtXLine.FindStringSubmatch(l)
				if m == nil || dir == "" || (dir == "eg") != (m[2] == "=>") {
					return nil, nil, fmt.Errorf("unparsable exposure line %q in section %q", l, dir)
				}
				rows = append(rows, xrow{dir, strings.TrimSpace(m[1]), m[3], m[4]}) // peer names are padded to one width
			}
		}
	case "md":
		dir := ""
		for _, l := range strings.Split(out, "\n") {
			switch {
			case l == "### Egress Exposure:":
				dir = "eg"
			case l == "### Ingress Exposure:":
				dir = "ing"
			case dir == "" || l == "" || strings.HasPrefix(l, "|--"):
			case l == "| src | dst | conn |" || l == "| dst | src | conn |":
				if (dir == "eg") != (l == "| src | dst | conn |") {
					return nil, nil, fmt.Errorf("md header %q in section %s", l, dir)
				}
			default:
				f := strings.Split(strings.Trim(l, "|"), " | ")
				if len(f) != 3 {
					return nil, nil, fmt.Errorf("bad md exposure row %q", l)
				}
				rows = append(rows, xrow{dir, strings.TrimSpace(f[0]), strings.TrimSpace(f[1]), strings.TrimSpace(f[2])})
			}
		}
	case "csv":
		rd := csv.NewReader(strings.NewReader(out))
		rd.FieldsPerRecord = -1
		recs, e := rd.ReadAll()
		if e != nil {
			return nil, nil, e
		}
		dir := ""
		for _, r := range recs {
			switch {
			case len(r) == 3 && r[0] == "Egress Exposure:":
				dir = "eg"
			case len(r) == 3 && r[0] == "Ingress Exposure:":
				dir = "ing"
			case dir == "":
			case len(r) == 3 && r[2] == "conn" && (r[0] == "src" || r[0] == "dst"):
				if (dir == "eg") != (r[0] == "src") {
					return nil, nil, fmt.Errorf("csv header %v in section %s", r, dir)
				}
			case len(r) == 3:
				rows = append(rows, xrow{dir, r[0], r[1], r[2]})
			default:
				return nil, nil, fmt.Errorf("bad csv exposure row %v", r)
			}
		}
	case "json":
		var doc struct {
			Exp struct {
				Eg  []struct{ Src, Dst, Conn string } `json:"egress_exposure"`
				Ing []struct{ Src, Dst, Conn string } `json:"ingress_exposure"`
			} `json:"exposure_results"`
		}
		if e := json.Unmarshal([]byte(out), &doc); e != nil {
			return nil, nil, nil // no exposure object (plain array)
		}
		for _, r := range doc.Exp.Eg {
			rows = append(rows, xrow{"eg", r.Src, r.Dst, r.Conn})
		}
		for _, r := range doc.Exp.Ing {
			rows = append(rows, xrow{"ing", r.Dst, r.Src, r.Conn})
		}
	}
	return rows, unprotected, nil
}

// checkExposureSections: "" or what is wrong. Expected, per exposed peer and direction:
//   - not protected: one row `entire-cluster : All Connections` (and, in txt, one "is not protected on" line)
//   - protected: one row per exposure entry, carrying the entry's connection
//   - every entry of the connection list between that peer and an ip-block, in that direction, with its connection
func checkExposureSections(format, out string, conns []connlist.Peer2PeerConnection, xs []connlist.ExposedPeer) string {
	rows, unprot, err := parseExposure(format, out)
	if err != nil {
		return err.Error()
	}
	got := map[string]int{}
	for _, r := range rows {
		got[r.String()]++
	}
	gotNonIP := map[string][]string{} // dir|peer -> connection strings of the rows whose other end is not an ip-block
	for _, r := range rows {
		if !ipRange.MatchString(r.other) {
			gotNonIP[r.dir+"|"+r.peer] = append(gotNonIP[r.dir+"|"+r.peer], r.conn)
		}
	}
	wantUnprot := map[string]bool{}
	nWant := 0
	for _, ep := range xs {
		p := ep.ExposedPeer().String()
		for _, ing := range []bool{true, false} {
			dir, prot, items, dname := "eg", ep.IsProtectedByEgressNetpols(), ep.EgressExposure(), "Egress"
			if ing {
				dir, prot, items, dname = "ing", ep.IsProtectedByIngressNetpols(), ep.IngressExposure(), "Ingress"
			}
			var want []string
			if !prot {
				want = []string{"All Connections"}
				wantUnprot[p+" is not protected on "+dname] = true
				if got[xrow{dir, p, "entire-cluster", "All Connections"}.String()] != 1 {
					return fmt.Sprintf("%s is not protected on %s but the row `entire-cluster : All Connections` is missing", p, dname)
				}
			} else {
				for _, it := range items {
					want = append(want, fmt.Sprint(it.PotentialConnectivity()))
				}
			}
			// the other end of an entry is written by the shape of its selectors: entire-cluster | NS/POD with
			// NS = [all namespaces] (empty selector) | the bare name (exactly the name label) | [namespace with {...}],
			// POD = [all pods] (empty selector) | [pod with {...}]; the shapes printed are the shapes of the entries
			if prot {
				var wantShapes, gotShapes []string
				for _, it := range items {
					if it.IsExposedToEntireCluster() {
						wantShapes = append(wantShapes, "entire-cluster")
						continue
					}
					nsl, pl := it.NamespaceLabels(), it.PodLabels()
					nsShape := "[namespace with"
					if nsl.Size() == 0 {
						nsShape = "[all namespaces]"
					} else if _, ok := nsl.MatchLabels["kubernetes.io/metadata.name"]; ok && len(nsl.MatchLabels) == 1 && len(nsl.MatchExpressions) == 0 {
						nsShape = "name"
					}
					podShape := "[pod with"
					if pl.Size() == 0 {
						podShape = "[all pods]"
					}
					wantShapes = append(wantShapes, nsShape+"/"+podShape)
				}
				for _, r := range rows {
					if r.dir != dir || r.peer != p || ipRange.MatchString(r.other) {
						continue
					}
					if r.other == "entire-cluster" {
						gotShapes = append(gotShapes, "entire-cluster")
						continue
					}
					nsShape, podShape := "name", "[pod with"
					switch {
					case strings.HasPrefix(r.other, "[all namespaces]/"):
						nsShape = "[all namespaces]"
					case strings.HasPrefix(r.other, "[namespace with"):
						nsShape = "[namespace with"
					}
					if strings.HasSuffix(r.other, "/[all pods]") {
						podShape = "[all pods]"
					}
					gotShapes = append(gotShapes, nsShape+"/"+podShape)
				}
				sort.Strings(wantShapes)
				sort.Strings(gotShapes)
				if format != "dot" && strings.Join(wantShapes, ";") != strings.Join(gotShapes, ";") {
					return fmt.Sprintf("%s %s: the other ends are written as %v, the selectors of the entries have the shapes %v", p, dname, gotShapes, wantShapes)
				}
				// every numeric port range of an entry (structured accessors) appears in some row of that peer and direction
				for _, it := range items {
					for proto, ranges := range it.PotentialConnectivity().ProtocolsAndPortsMap() {
						for _, pr := range ranges {
							tok := fmt.Sprintf("%d", pr.Start())
							if pr.Start() != pr.End() {
								tok = fmt.Sprintf("%d-%d", pr.Start(), pr.End())
							}
							found := false
							for _, r := range rows {
								if r.dir == dir && r.peer == p && connHasPort(r.conn, string(proto), tok) {
									found = true
								}
							}
							if !found && !it.PotentialConnectivity().IsAllConnections() {
								return fmt.Sprintf("%s %s: the entry's %s %s (ProtocolsAndPortsMap) is printed in no exposure row", p, dname, proto, tok)
							}
						}
					}
				}
			}
			g := append([]string{}, gotNonIP[dir+"|"+p]...)
			sort.Strings(g)
			sort.Strings(want)
			if strings.Join(g, "\n") != strings.Join(want, "\n") {
				return fmt.Sprintf("%s %s: exposure rows carry connections %q, the API returned entries %q", p, dname, g, want)
			}
			nWant += len(want)
			for _, c := range conns {
				var r xrow
				switch {
				case ing && c.Dst().String() == p && ipRange.MatchString(c.Src().String()):
					r = xrow{dir, p, c.Src().String(), indepConnStr(c)}
				case !ing && c.Src().String() == p && ipRange.MatchString(c.Dst().String()):
					r = xrow{dir, p, c.Dst().String(), indepConnStr(c)}
				default:
					continue
				}
				nWant++
				if got[r.String()] != 1 {
					return fmt.Sprintf("the ip-block entry %q of an exposed peer is missing from its %s exposure section (found %d times)", r.String(), dname, got[r.String()])
				}
			}
		}
	}
	if len(rows) != nWant {
		return fmt.Sprintf("%d exposure rows, %d expected from the API result", len(rows), nWant)
	}
	if format == "txt" {
		if len(unprot) != len(wantUnprot) {
			return fmt.Sprintf("%d 'not protected' lines, %d expected", len(unprot), len(wantUnprot))
		}
		for _, l := range unprot {
			if !wantUnprot[l] {
				return "unexpected line " + l
			}
		}
	}
	return ""
}

// ---------------------------------------------------------------------------------------------
// diff, dot format: every entry is one edge with the colour of its category and its connection value(s);
// every peer of an entry is declared once as a node whose colour says new / lost / persistent.

var dotDiffEdge = regexp.MustCompile(`^\t"(.+?)" -> "(.+?)" \[label="(.*?)" color="(.+?)" fontcolor="(.+?)"`)
var dotDiffNode = regexp.MustCompile(`^\t+"(.+?)" \[label="(.*?)" color="(.+?)" fontcolor="(.+?)"\]`)

type diffRow struct {
	typ, src, dst, c1, c2 string
	srcNR, dstNR          bool
}

func checkDiffDot(out string, want []diffRow, dir1 string) string {
	edges := map[string]int{}
	nodes := map[string][]string{}
	nEdges := 0
	for _, l := range strings.Split(out, "\n") {
		if m := dotDiffEdge.FindStringSubmatch(l); m != nil {
			edges[m[1]+"|"+m[2]+"|"+m[3]+"|"+m[4]]++
			nEdges++
		} else if m := dotDiffNode.FindStringSubmatch(l); m != nil {
			nodes[m[1]] = append(nodes[m[1]], m[3])
		}
	}
	if nEdges != len(want) {
		return fmt.Sprintf("%d edges for %d entries", nEdges, len(want))
	}
	state := map[string]string{} // peer -> expected node colour
	mark := func(p, c string) {
		if state[p] == "" || c != "blue" {
			state[p] = c
		}
	}
	for _, r := range want {
		label, colour := "", ""
		switch r.typ {
		case "added":
			label, colour = r.c2, "#008000"
		case "removed":
			label, colour = r.c1, "red2"
		case "changed":
			label, colour = r.c2+" ("+dir1+": "+r.c1+")", "magenta"
		default:
			label, colour = r.c1, "grey"
		}
		if edges[r.src+"|"+r.dst+"|"+label+"|"+colour] != 1 {
			return fmt.Sprintf("no edge %q -> %q with label %q and colour %s for the %s entry", r.src, r.dst, label, colour, r.typ)
		}
		nr := map[string]string{"added": "#008000", "removed": "red"}[r.typ]
		for _, e := range []struct {
			p  string
			nr bool
		}{{r.src, r.srcNR}, {r.dst, r.dstNR}} {
			if e.nr && nr != "" {
				mark(e.p, nr)
			} else {
				mark(e.p, "blue")
			}
		}
	}
	for p, c := range state {
		if len(nodes[p]) != 1 {
			return fmt.Sprintf("peer %q of an entry is declared %d times as a node", p, len(nodes[p]))
		}
		if nodes[p][0] != c {
			return fmt.Sprintf("node %q has colour %s, expected %s (new = #008000, lost = red, persistent = blue)", p, nodes[p][0], c)
		}
	}
	return ""
}

// expectedDiffInfo: the workloads-diff-info column
func expectedDiffInfo(r diffRow) string {
	if !r.srcNR && !r.dstNR {
		return ""
	}
	s := "workload "
	if r.srcNR {
		s += r.src
	}
	if r.dstNR {
		if r.srcNR {
			s += " and "
		}
		s += r.dst
	}
	return s + " " + r.typ
}

// connHasPort: does a printed connection ("SCTP 1-3,TCP 80,http,UDP 53" | "All Connections") list the port token under the protocol
func connHasPort(conn, proto, tok string) bool {
	if conn == "All Connections" {
		return true
	}
	cur := ""
	for _, f := range strings.Split(conn, ",") {
		if i := strings.Index(f, " "); i > 0 {
			cur, f = f[:i], f[i+1:]
		}
		if cur == proto && f == tok {
			return true
		}
	}
	return false
}
