package main

// Family "baddoc" (C13): a valid world plus injected irrelevant / malformed documents, with and without
// stop-on-first-error, for list and diff.
// The byte -> document step is the third-party scanner: the generator classifies every injection by running the
// real scanner and parser on it alone (good text + that injection) and records the class in the case, so that
// the model (Netpol.Model.Pipeline) predicts the outcome from the classes.

import (
	"encoding/json"
	"fmt"
	"os"
	"path/filepath"
	"strings"

	"github.com/np-guard/netpol-analyzer/pkg/logger"
	"github.com/np-guard/netpol-analyzer/pkg/manifests/fsscanner"
	"github.com/np-guard/netpol-analyzer/pkg/manifests/parser"
	"github.com/np-guard/netpol-analyzer/pkg/netpol/connlist"
	"github.com/np-guard/netpol-analyzer/pkg/netpol/diff"
)

var injKinds = []string{"configmap", "secret", "crd-instance", "list-kind", "truncate", "tabs", "binary", "notyaml", "emptyfile", "listdoc",
	"scalar-doc", "foreign-netpol", "foreign-netpol", "foreign-deploy", "np-bad-selector", "pod-bad-labels", "deploy-bad-replicas", "np-bad-ports", "svc-bad-ports", "ns-bad-labels", "ingress-bad-rules", "route-bad-to", "anp-bad-priority", "no-kind", "kind-only"}

var classByConstruction = map[string]string{
	"configmap": "ignored", "secret": "ignored", "crd-instance": "ignored", "list-kind": "ignored", "foreign-netpol": "ignored", "foreign-deploy": "ignored",
	// (pod-bad-labels / ns-bad-labels break metadata, which the third-party scanner itself reads: classified by running it)
	"np-bad-selector": "malformed", "deploy-bad-replicas": "malformed", "np-bad-ports": "malformed", "svc-bad-ports": "malformed",
	"ingress-bad-rules": "malformed", "route-bad-to": "malformed", "anp-bad-priority": "malformed",
}

func injection(kind string, seed int, good string) (ext, content string) {
	switch kind {
	case "configmap":
		return "yaml", "apiVersion: v1\nkind: ConfigMap\nmetadata:\n  name: cm\n  namespace: ns0\ndata:\n  k: v\n"
	case "secret":
		return "yaml", "apiVersion: v1\nkind: Secret\nmetadata:\n  name: s\ntype: Opaque\n"
	case "crd-instance":
		return "yaml", "apiVersion: example.com/v1\nkind: Widget\nmetadata:\n  name: w\nspec:\n  size: 3\n"
	case "list-kind":
		return "yaml", "apiVersion: v1\nkind: ConfigMapList\nitems: []\n"
	case "no-kind":
		return "yaml", "apiVersion: v1\nmetadata:\n  name: nk\n"
	case "kind-only":
		return "yaml", "kind: Gadget\n"
	case "truncate":
		// an irrelevant document cut in the middle of a flow sequence
		return "yaml", "apiVersion: v1\nkind: ConfigMap\nmetadata:\n  name: cm\ndata: {a: [1, 2"
	case "foreign-netpol":
		// a Calico policy: another resource that happens to be called NetworkPolicy (it selects nothing here)
		return "yaml", "apiVersion: projectcalico.org/v3\nkind: NetworkPolicy\nmetadata:\n  name: allow-tcp-6379\n  namespace: " + []string{"ns0", "ns1", "default"}[seed%3] +
			"\nspec:\n  selector: role == 'database'\n  types: [Ingress]\n  ingress:\n  - action: Allow\n    protocol: TCP\n    source: {selector: role == 'frontend'}\n    destination: {ports: [6379]}\n"
	case "foreign-deploy":
		return "yaml", "apiVersion: example.com/v1\nkind: Deployment\nmetadata:\n  name: shadow\n  namespace: ns0\nspec:\n  size: 3\n"
	case "np-bad-selector":
		return "yaml", "apiVersion: networking.k8s.io/v1\nkind: NetworkPolicy\nmetadata:\n  name: badsel\n  namespace: ns0\nspec:\n  podSelector: 7\n"
	case "pod-bad-labels":
		return "yaml", "apiVersion: v1\nkind: Pod\nmetadata:\n  name: badpod\n  namespace: ns0\n  labels: [a, b]\nspec:\n  containers: []\n"
	case "deploy-bad-replicas":
		return "yaml", "apiVersion: apps/v1\nkind: Deployment\nmetadata:\n  name: baddep\n  namespace: ns0\nspec:\n  replicas: many\n  template:\n    metadata:\n      labels: {app: a}\n"
	case "np-bad-ports":
		return "yaml", "apiVersion: networking.k8s.io/v1\nkind: NetworkPolicy\nmetadata:\n  name: badports\n  namespace: ns0\nspec:\n  podSelector: {}\n  ingress:\n  - ports: {a: b}\n"
	case "ns-bad-labels":
		return "yaml", "apiVersion: v1\nkind: Namespace\nmetadata:\n  name: badns\n  labels: [a, b]\n"
	case "ingress-bad-rules":
		return "yaml", "apiVersion: networking.k8s.io/v1\nkind: Ingress\nmetadata:\n  name: badingress\n  namespace: ns0\nspec:\n  rules: 5\n"
	case "route-bad-to":
		return "yaml", "apiVersion: route.openshift.io/v1\nkind: Route\nmetadata:\n  name: badroute\n  namespace: ns0\nspec:\n  to: [a]\n"
	case "anp-bad-priority":
		return "yaml", "apiVersion: policy.networking.k8s.io/v1alpha1\nkind: AdminNetworkPolicy\nmetadata:\n  name: badanp\nspec:\n  priority: high\n  subject: {namespaces: {}}\n"
	case "svc-bad-ports":
		return "yaml", "apiVersion: v1\nkind: Service\nmetadata:\n  name: badsvc\n  namespace: ns0\nspec:\n  ports: 80\n"
	}
	n, c := garbage(kind, seed, good)
	return strings.TrimPrefix(filepath.Ext(n), "."), c
}

type injSpec struct {
	kind, place string
	seed        int
	class       string
}

// buildDirty writes good text and the given injections; returns the dir.
func buildDirty(dir, good string, injs []injSpec) error {
	if err := os.RemoveAll(dir); err != nil {
		return err
	}
	if err := os.MkdirAll(filepath.Join(dir, "sub", "deeper"), 0o755); err != nil {
		return err
	}
	goodFile := good
	for i, in := range injs {
		ext, content := injection(in.kind, in.seed, good)
		switch in.place {
		case "middle":
			// inside the good file, before its (seed mod n)-th document
			docs := strings.Split(strings.TrimPrefix(goodFile, "---\n"), "---\n")
			k := 0
			if len(docs) > 0 {
				k = in.seed % len(docs)
			}
			goodFile = ""
			for j, d := range docs {
				if j == k {
					goodFile += "---\n" + strings.TrimRight(content, "\n") + "\n"
				}
				goodFile += "---\n" + d
			}
		case "append":
			goodFile += "---\n" + content
		case "nested":
			if err := os.WriteFile(filepath.Join(dir, "sub", "deeper", fmt.Sprintf("inj%d.%s", i, ext)), []byte(content), 0o644); err != nil {
				return err
			}
		case "first": // a file name sorting before the good file
			if err := os.WriteFile(filepath.Join(dir, fmt.Sprintf("a_inj%d.%s", i, ext)), []byte(content), 0o644); err != nil {
				return err
			}
		default:
			if err := os.WriteFile(filepath.Join(dir, fmt.Sprintf("z_inj%d.%s", i, ext)), []byte(content), 0o644); err != nil {
				return err
			}
		}
	}
	return os.WriteFile(filepath.Join(dir, "f00.yaml"), []byte(goodFile), 0o644)
}

func goodText(w *World) string {
	var b strings.Builder
	for _, d := range worldDocs(w) {
		js := mustJSON(d)
		b.WriteString("---\n" + js + "\n")
	}
	return b.String()
}

// classify runs the real scanner + parser on good text plus one injection: ignored | unreadable | malformed
func classify(tmp, good string, in injSpec, goodInfos int) string {
	if buildDirty(tmp, good, []injSpec{in}) != nil {
		return "ioerr"
	}
	// well-formed YAML documents: the class is given by the statement of C13, not by the parser under test - a kind the
	// analysis does not use (or a resource of another API group that shares a kind name) is ignored, a resource of a kind
	// it uses that fails schema conversion is malformed (reported as a severe error)
	if c, ok := classByConstruction[in.kind]; ok {
		return c
	}
	infos, errs := fsscanner.GetResourceInfosFromDirPath([]string{tmp}, true, false)
	if len(errs) > 0 {
		return "unreadable"
	}
	objs, fpErrs := parser.ResourceInfoListToK8sObjectsList(infos, logger.NewDefaultLoggerWithVerbosity(logger.LowVerbosity), true)
	for i := range fpErrs {
		if strings.Contains(fpErrs[i].Error().Error(), "YAML document is malformed") {
			return "malformed"
		}
	}
	if len(objs) != goodInfos {
		return "accepted" // the document became an object the analysis uses: not an irrelevant document
	}
	return "ignored"
}

func genBadDoc(r *Rng, id int, tier string) *Sx {
	cfg := &genCfg{anp: r.P(30), banp: true, pods: true, ingress: r.P(20), namedOnIPPct: 0, maxNP: 3, maxWl: 4}
	w := genWorld(r, cfg)
	if r.P(15) {
		// a genuinely fatal problem among the good documents (a conflict of C19): the analysis must fail, with or without
		// injected documents, and never return a result
		for _, o := range w.Objs {
			if o.Kind == "np" && r.P(70) {
				n := *o.Np
				w.Objs = append(w.Objs, Obj{Kind: "np", Np: &n}) // two NetworkPolicies with one name in one namespace
				break
			}
			if o.Kind == "anp" && r.P(70) {
				n := *o.Anp
				n.Name = "twin"
				w.Objs = append(w.Objs, Obj{Kind: "anp", Anp: &n}) // two AdminNetworkPolicies with one priority
				break
			}
		}
	}
	good := goodText(w)
	tmp := filepath.Join(".", fmt.Sprintf("gen-tmp-%d-%d", os.Getpid(), id)) // cwd is the run's scratch directory
	defer os.RemoveAll(tmp)
	c := Ls(At("baddoc"), Ai(int64(id)), w.Sx(), Ls(At("stop"), At(b01(r.P(40)))))
	goodObjs := 0
	if buildDirty(tmp, good, nil) == nil {
		infos, _ := fsscanner.GetResourceInfosFromDirPath([]string{tmp}, true, false)
		objs, _ := parser.ResourceInfoListToK8sObjectsList(infos, logger.NewDefaultLoggerWithVerbosity(logger.LowVerbosity), true)
		goodObjs = len(objs)
	}
	n := r.Range(1, 3)
	appended := false
	for i := 0; i < n; i++ {
		in := injSpec{kind: Pick(r, injKinds), place: Pick(r, []string{"own", "own", "first", "nested", "append", "middle"}), seed: r.Intn(1000)}
		if in.place == "middle" && i > 0 {
			in.place = "own" // a document inside the good file comes alone (the model mirrors its effect exactly)
		}
		if in.place == "middle" && !map[string]bool{"truncate": true, "tabs": true, "notyaml": true, "configmap": true, "secret": true,
			"crd-instance": true, "foreign-netpol": true, "scalar-doc": true}[in.kind] {
			in.place = "own" // inside the good file: documents that are not YAML at all, or irrelevant ones
		}
		if in.place == "append" || in.place == "middle" {
			if appended || in.kind == "emptyfile" || in.kind == "binary" {
				in.place = "own"
			}
			appended = true // at most one injection goes into the good file
		}
		in.class = classify(tmp, good, in, goodObjs)
		if in.class == "accepted" || in.class == "ioerr" {
			continue
		}
		c.Add(Ls(At("inj"), At(in.kind), At(in.place), Ai(int64(in.seed)), At(in.class)))
		if in.place == "middle" {
			break
		}
	}
	return c
}

func severeCount(errs []connlist.ConnlistError) (severe, fatal int) {
	for _, e := range errs {
		if e.IsFatal() {
			fatal++
		} else if e.IsSevere() && !strings.Contains(e.Error().Error(), "no relevant Kubernetes workload resources found") {
			severe++
		}
	}
	return
}

func execBadDoc(c *Sx, env *execEnv) (*Sx, []Violation) {
	args := c.Args()
	out := Ls(At("baddoc"), args[0])
	if len(args) < 3 {
		return out.Add(At("bad-case")), nil
	}
	w, err := ParseWorld(args[1])
	if err != nil {
		return out.Add(At("bad-world")), nil
	}
	stop := false
	var injs []injSpec
	for _, a := range args[2:] {
		switch a.Head() {
		case "stop":
			stop = len(a.L) > 1 && a.L[1].A == "1"
		case "inj":
			if len(a.L) >= 5 {
				injs = append(injs, injSpec{kind: a.L[1].A, place: a.L[2].A, seed: atoi(a.L[3].A), class: a.L[4].A})
			}
		}
	}
	good := goodText(w)
	clean, dirty := caseDir(env, args[0].A+"c"), caseDir(env, args[0].A+"d")
	if buildDirty(clean, good, nil) != nil || buildDirty(dirty, good, injs) != nil {
		return out.Add(At("io-error")), nil
	}
	var viols []Violation
	rep := func(kind, detail string) {
		viols = append(viols, Violation{Prop: "C13", Kind: kind, Detail: detail, Case: c.String()})
	}
	base, _ := runListRel(clean, "", env, c.String())
	// dirty run with the requested stop flag
	opts := []connlist.ConnlistAnalyzerOption{connlist.WithMuteErrsAndWarns()}
	if stop {
		opts = append(opts, connlist.WithStopOnError())
	}
	ca := connlist.NewConnlistAnalyzer(opts...)
	var conns []connlist.Peer2PeerConnection
	var peers []connlist.Peer
	var lerr error
	if p := guarded("list", func() { conns, peers, lerr = ca.ConnlistFromDirPath(dirty) }); p != "" {
		rep("panic", p)
		return out.Add(Ls(At("panic"))), viols
	}
	var res *Sx
	if lerr != nil {
		res = errSx(lerr)
	} else {
		res = listResultSx(conns, peers)
		if b := blockedPeers(ca); len(b) > 0 {
			x := Ls(At("blocked"))
			for _, n := range b {
				x.Add(At(n))
			}
			res.Add(x)
		}
	}
	out.Add(res)
	// a resource the analysis cannot evaluate (a Service whose selector is not a legal label selector) next to a good
	// Service: whether the run ends with the error or with a report must not depend on which of the two is read first
	if base.ok && atoi(args[0].A)%3 == 0 {
		badSvc := "apiVersion: v1\nkind: Service\nmetadata:\n  name: legacy\n  namespace: ns0\nspec:\n  selector:\n    app: \"legacy app!\"\n  ports:\n  - port: 80\n"
		okSvc := "apiVersion: v1\nkind: Service\nmetadata:\n  name: fine\n  namespace: ns0\nspec:\n  selector:\n    app: a\n  ports:\n  - port: 80\n"
		var outcome [2]string
		for k, order := range [][2]string{{badSvc, okSvc}, {okSvc, badSvc}} {
			d := caseDir(env, fmt.Sprintf("%ss%d", args[0].A, k))
			if buildDirty(d, good, nil) != nil || os.WriteFile(filepath.Join(d, "a_svc.yaml"), []byte(order[0]), 0o644) != nil ||
				os.WriteFile(filepath.Join(d, "z_svc.yaml"), []byte(order[1]), 0o644) != nil {
				continue
			}
			var e error
			if p := guarded("list-bad-service", func() {
				_, _, e = connlist.NewConnlistAnalyzer(connlist.WithMuteErrsAndWarns()).ConnlistFromDirPath(d)
			}); p != "" {
				rep("panic", p)
			}
			outcome[k] = map[bool]string{true: "a report", false: "an error"}[e == nil]
		}
		if outcome[0] != "" && outcome[1] != "" && outcome[0] != outcome[1] {
			rep("unevaluable-resource-reported-by-placement", fmt.Sprintf("a Service with an illegal selector read before a good Service gives %s, read after it gives %s", outcome[0], outcome[1]))
		}
		env.count("bad-service-placements")
	}
	nBad := 0
	for _, in := range injs {
		if in.class == "unreadable" || in.class == "malformed" {
			nBad++
		}
		env.count("inj:" + in.kind + ":" + in.class)
	}
	severe, fatal := severeCount(ca.Errors())
	// (b) every unreadable / malformed document appears as a severe (or fatal) entry
	if lerr == nil && severe+fatal < nBad {
		rep("bad-doc-not-reported", fmt.Sprintf("%d bad documents injected, Errors() holds %d severe and %d fatal entries", nBad, severe, fatal))
	}
	if lerr != nil && len(ca.Errors()) == 0 {
		rep("error-not-in-errors", "the call failed but Errors() is empty")
	}
	// (d) a fatal error always yields an error and no result
	if fatal > 0 && (lerr == nil || conns != nil) {
		rep("fatal-with-result", "Errors() holds a fatal entry but the call returned a result")
	}
	if !stop && !base.ok && lerr == nil {
		// (d') the good documents alone are a fatal error: injected documents must not turn it into a result
		rep("fatal-error-masked", "the good documents alone fail ("+base.errCls+"), with the injected documents the call returns a result")
	}
	if !stop {
		// (a) irrelevant documents never change the computed connections
		if base.rawSx.String() != res.String() {
			rep("bad-doc-skews-result", fmt.Sprintf("clean %s ; with injected documents %s", base.rawSx.String()[:min(300, len(base.rawSx.String()))], res.String()[:min(300, len(res.String()))]))
		}
	} else if (nBad > 0 || severe+fatal > 0) && lerr == nil && len(conns) > 0 {
		// (c) with stop-on-first-error a severe error yields no connections
		rep("partial-report-with-stop", fmt.Sprintf("%d connections reported although a severe error occurred with stop-on-first-error", len(conns)))
	}
	// the same through diff
	dopts := []diff.DiffAnalyzerOption{diff.WithLogger(nullLogger{})}
	if stop {
		dopts = append(dopts, diff.WithStopOnError())
	}
	for _, order := range [][2]string{{dirty, clean}, {clean, dirty}} {
		da := diff.NewDiffAnalyzer(dopts...)
		var cd diff.ConnectivityDiff
		var derr error
		if p := guarded("diff", func() { cd, derr = da.ConnDiffFromDirPaths(order[0], order[1]) }); p != "" {
			rep("panic", p)
			continue
		}
		dsev, dfat := 0, 0
		for _, e := range da.Errors() {
			if e.IsFatal() {
				dfat++
			} else if e.IsSevere() && !strings.Contains(e.Error().Error(), "no relevant Kubernetes workload resources found") {
				dsev++
			}
		}
		if derr == nil && dsev+dfat < nBad {
			rep("bad-doc-not-reported-by-diff", fmt.Sprintf("%d bad documents injected, diff Errors() holds %d severe and %d fatal entries", nBad, dsev, dfat))
		}
		if dfat > 0 && derr == nil {
			rep("diff-fatal-with-result", "diff Errors() holds a fatal entry but the call returned a result")
		}
		if !stop && !base.ok && derr == nil {
			rep("diff-fatal-error-masked", "one side alone is a fatal error ("+base.errCls+") but diff returns a result")
		}
		if !stop && base.ok {
			if derr != nil {
				rep("bad-doc-breaks-diff", "diff fails: "+derr.Error())
			} else if cd != nil && !cd.IsEmpty() {
				rep("bad-doc-skews-diff", "diff between the clean directory and the one with injected documents is not empty")
			}
		}
		if stop && nBad > 0 && derr == nil && cd != nil && !cd.IsEmpty() {
			rep("diff-partial-report-with-stop", "diff reports changes although a severe error occurred with stop-on-first-error")
		}
	}
	// a DiffAnalyzer is an object a caller may use again: after a call that failed (two admin policies of one priority) the clean
	// directory compared with itself must give an empty diff and no error - the errors of the first call are not its errors
	if base.ok {
		da := diff.NewDiffAnalyzer(dopts...)
		var e1, e2 error
		var cd2 diff.ConnectivityDiff
		fatalDir := caseDir(env, args[0].A+"x")
		_ = os.MkdirAll(fatalDir, 0o755)
		_ = os.WriteFile(filepath.Join(fatalDir, "conflict.yaml"), []byte(twoANPsOnePriority), 0o644)
		if p := guarded("diff-reuse", func() {
			_, e1 = da.ConnDiffFromDirPaths(fatalDir, clean)
			cd2, e2 = da.ConnDiffFromDirPaths(clean, clean)
		}); p != "" {
			rep("panic", p)
		} else if e1 != nil && e2 != nil {
			rep("analyzer-reuse-keeps-earlier-errors", "the clean directory diffed with itself by a DiffAnalyzer whose earlier call failed ("+e1.Error()[:min(80, len(e1.Error()))]+") fails: "+e2.Error()[:min(160, len(e2.Error()))])
		} else if e1 != nil && cd2 != nil && !cd2.IsEmpty() {
			rep("analyzer-reuse-keeps-earlier-errors", "the clean directory diffed with itself by a DiffAnalyzer whose earlier call failed is not an empty diff")
		}
	}
	// an unreadable file in each of the two directories (two different files): each side's reading errors are reported
	if !stop && base.ok {
		e1, e2 := caseDir(env, args[0].A+"e"), caseDir(env, args[0].A+"f")
		notYAML := []byte("kind: [\n\tthis: is: not yaml {\n")
		if buildDirty(e1, good, nil) == nil && buildDirty(e2, good, nil) == nil &&
			os.WriteFile(filepath.Join(e1, "zz-broken-one.yaml"), notYAML, 0o644) == nil && os.WriteFile(filepath.Join(e2, "zz-broken-two.yaml"), notYAML, 0o644) == nil {
			da := diff.NewDiffAnalyzer(dopts...)
			var derr error
			if p := guarded("diff", func() { _, derr = da.ConnDiffFromDirPaths(e1, e2) }); p != "" {
				rep("panic", p)
			} else if derr == nil {
				for _, f := range []string{"zz-broken-one.yaml", "zz-broken-two.yaml"} {
					named := false
					for _, e := range da.Errors() {
						if strings.Contains(e.Error().Error(), f) {
							named = true
						}
					}
					if !named {
						rep("bad-doc-not-reported-by-diff", "each directory holds one unreadable file; diff Errors() does not name "+f)
					}
				}
			}
		}
	}
	env.nontr[fmt.Sprint(args[2:])+res.String()] = true
	// the analyzer is an object a caller may use again: what the bad documents of this directory left in it must not decide
	// the analysis of the next one (the clean directory, analysed again with the same analyzer)
	if base.ok {
		var c2 []connlist.Peer2PeerConnection
		var p2 []connlist.Peer
		var e2 error
		if p := guarded("list-again", func() { c2, p2, e2 = ca.ConnlistFromDirPath(clean) }); p != "" {
			rep("panic", p)
		} else if e2 != nil {
			rep("analyzer-reuse-keeps-earlier-errors", "the clean directory analysed with an analyzer that has just read the bad one fails: "+e2.Error())
		} else if s := listResultSx(c2, p2).String(); !strings.HasPrefix(base.rawSx.String(), s[:len(s)-1]) {
			rep("analyzer-reuse-keeps-earlier-errors", "the clean directory analysed with an analyzer that has just read the bad one gives another result: "+s[:min(200, len(s))])
		}
	}
	return out, viols
}

func mustJSON(v interface{}) string {
	b, err := json.Marshal(v)
	if err != nil {
		return "{}"
	}
	return string(b)
}

func min(a, b int) int {
	if a < b {
		return a
	}
	return b
}

func init() {
	families["baddoc"] = family{gen: genBadDoc, exec: execBadDoc}
}

// twoANPsOnePriority: a Pod and two AdminNetworkPolicies sharing a priority - a fatal error of every analysis
const twoANPsOnePriority = `apiVersion: v1
kind: Pod
metadata: {name: p, namespace: default}
spec: {containers: [{name: c, image: i}]}
---
apiVersion: policy.networking.k8s.io/v1alpha1
kind: AdminNetworkPolicy
metadata: {name: one}
spec:
  priority: 7
  subject: {namespaces: {}}
  ingress: [{name: r, action: Allow, from: [{namespaces: {}}]}]
---
apiVersion: policy.networking.k8s.io/v1alpha1
kind: AdminNetworkPolicy
metadata: {name: two}
spec:
  priority: 7
  subject: {namespaces: {}}
  ingress: [{name: r, action: Deny, from: [{namespaces: {}}]}]
`
