package main

// Family "evalw" (C03): a world, every ordered pair of pods / probe addresses, every protocol and a dense set of
// ports: CheckIfAllowed against Contains() on the connection set of the list path, on one engine built like `list`
// builds it; plus the eval command on pod manifests (engine filled with InsertObject from the filtered objects).

import (
	"fmt"
	"sort"
	"strings"

	"github.com/np-guard/netpol-analyzer/pkg/cli"
	"github.com/np-guard/netpol-analyzer/pkg/logger"
	"github.com/np-guard/netpol-analyzer/pkg/manifests/fsscanner"
	"github.com/np-guard/netpol-analyzer/pkg/manifests/parser"
	"github.com/np-guard/netpol-analyzer/pkg/netpol/eval"
	"github.com/np-guard/netpol-analyzer/pkg/netpol/internal/common"
)

var probeIPs = []string{"0.0.0.0", "10.0.0.1", "10.1.2.3", "10.1.2.77", "10.128.0.1", "11.0.0.0", "128.0.0.1", "172.16.0.1", "192.168.0.5", "192.168.1.1", "255.255.255.255"}

func probePortList() []int {
	set := map[int]bool{}
	for _, p := range portPool {
		for _, q := range []int{p - 1, p, p + 1} {
			if q >= 1 && q <= 65535 {
				set[q] = true
			}
		}
	}
	var l []int
	for k := range set {
		l = append(l, k)
	}
	sort.Ints(l)
	return l
}

func podKeysOf(w *World) []string {
	set := map[string]bool{}
	for _, o := range w.Objs {
		switch o.Kind {
		case "pod":
			set[o.Pod.NS+"/"+o.Pod.Name] = true
		case "wl":
			set[o.Wl.NS+"/"+o.Wl.Name+"-1"] = true
		}
	}
	var l []string
	for k := range set {
		l = append(l, k)
	}
	sort.Strings(l)
	return l
}

// evalAll: the answers of CheckIfAllowed in canonical order, and the comparison with the list path
func evalAll(dir string, w *World, env *execEnv, caseStr string) (*Sx, []Violation) {
	var viols []Violation
	infos, _ := fsscanner.GetResourceInfosFromDirPath([]string{dir}, true, false)
	objs, _ := parser.ResourceInfoListToK8sObjectsList(infos, logger.NewDefaultLoggerWithVerbosity(logger.LowVerbosity), true)
	pe, err := eval.NewPolicyEngineWithObjects(objs)
	if err != nil {
		return errSx(err), nil
	}
	peers := append(podKeysOf(w), probeIPs...)
	ports := probePortList()
	var bits strings.Builder
	reported := false
	for _, s := range peers {
		for _, d := range peers {
			sIP, dIP := !strings.Contains(s, "/"), !strings.Contains(d, "/")
			if s == d || (sIP && dIP) {
				continue
			}
			cs, cerr := eval.VerifAllowedConns(pe, s, d)
			for _, pr := range []string{"TCP", "UDP", "SCTP"} {
				for _, p := range ports {
					ans, aerr := pe.CheckIfAllowed(s, d, pr, fmt.Sprint(p))
					switch {
					case aerr != nil:
						bits.WriteByte('e')
					case ans:
						bits.WriteByte('1')
					default:
						bits.WriteByte('0')
					}
					env.stats["evalw-queries"]++
					if cerr == nil && !reported {
						if aerr != nil {
							viols = append(viols, Violation{Prop: "C03", Kind: "list-answers-eval-fails", Detail: fmt.Sprintf("%s -> %s %s %d: eval fails with %v, list gives %s", s, d, pr, p, aerr, cs.String()), Case: caseStr})
							reported = true
						} else if ans != cs.Contains(fmt.Sprint(p), pr) {
							viols = append(viols, Violation{Prop: "C03", Kind: "eval-differs-from-list", Detail: fmt.Sprintf("%s -> %s %s %d: eval=%v, list gives %s", s, d, pr, p, ans, cs.String()), Case: caseStr})
							reported = true
						}
					}
				}
			}
			if cerr == nil && !cs.IsEmpty() && !cs.IsAllConnections() {
				env.nontr[s+d+cs.String()] = true
			}
		}
	}
	// the eval command on pod manifests: engine filled with InsertObject from the filtered objects
	var pods []*PodObj
	for _, o := range w.Objs {
		if o.Kind == "pod" {
			pods = append(pods, o.Pod)
		}
	}
	for i := 0; i+1 < len(pods) && i < 2; i++ {
		a, b := pods[i], pods[len(pods)-1-i]
		if a.NS+"/"+a.Name == b.NS+"/"+b.Name {
			continue
		}
		cs, cerr := eval.VerifAllowedConns(pe, a.NS+"/"+a.Name, b.NS+"/"+b.Name)
		if cerr != nil {
			continue
		}
		for _, q := range [][2]string{{"TCP", "80"}, {"UDP", "53"}, {"SCTP", "9090"}} {
			// --fail on a flawless directory must not change the answer
			stdout, cerr2 := cli.VerifRun(evalArgsFail(dir, a.Name, a.NS, b.Name, b.NS, "", "", q[1], strings.ToLower(q[0]), q[0] == "UDP"))
			env.stats["evalw-cli-runs"]++
			want := cs.Contains(q[1], q[0])
			if cerr2 != nil {
				viols = append(viols, Violation{Prop: "C03", Kind: "eval-command-fails", Detail: fmt.Sprintf("eval %s/%s -> %s/%s %s/%s fails: %v ; list gives %s", a.NS, a.Name, b.NS, b.Name, q[0], q[1], cerr2, cs.String()), Case: caseStr})
				break
			}
			if !strings.HasSuffix(strings.TrimSpace(stdout), fmt.Sprint(want)) {
				viols = append(viols, Violation{Prop: "C03", Kind: "eval-command-differs-from-list", Detail: fmt.Sprintf("eval printed %q, list gives %s", strings.TrimSpace(stdout), cs.String()), Case: caseStr})
				break
			}
		}
	}
	// the eval command with an external address at one end (--source-ip / --destination-ip) against the list path
	if len(pods) > 0 {
		b := pods[0]
		for _, ext := range []string{"10.1.2.3", "192.168.1.1"} {
			for _, srcIsIP := range []bool{true, false} {
				var cs *common.ConnectionSet
				var cerr error
				var args []string
				if srcIsIP {
					cs, cerr = eval.VerifAllowedConns(pe, ext, b.NS+"/"+b.Name)
					args = evalArgs(dir, "", "default", b.Name, b.NS, ext, "", "80", "tcp")
				} else {
					cs, cerr = eval.VerifAllowedConns(pe, b.NS+"/"+b.Name, ext)
					args = evalArgs(dir, b.Name, b.NS, "", "default", "", ext, "80", "tcp")
				}
				if cerr != nil {
					continue
				}
				stdout, e := cli.VerifRun(args)
				env.stats["evalw-cli-ip-runs"]++
				if e != nil {
					viols = append(viols, Violation{Prop: "C03", Kind: "eval-command-fails", Detail: fmt.Sprintf("eval with an external %s (source=%v) and pod %s/%s fails: %v ; list gives %s", ext, srcIsIP, b.NS, b.Name, e, cs.String()), Case: caseStr})
				} else if !strings.HasSuffix(strings.TrimSpace(stdout), fmt.Sprint(cs.Contains("80", "TCP"))) {
					viols = append(viols, Violation{Prop: "C03", Kind: "eval-command-differs-from-list", Detail: fmt.Sprintf("eval with external %s printed %q, list gives %s", ext, strings.TrimSpace(stdout), cs.String()), Case: caseStr})
				}
			}
		}
	}
	return Ls(At("evalall"), At(bits.String())), viols
}

func init() {
	families["evalw"] = family{
		gen: func(r *Rng, id int, tier string) *Sx {
			cfg := &genCfg{anp: r.P(55), banp: true, pods: true, namedOnIPPct: 6, maxNP: 4, maxWl: 4}
			w := genWorld(r, cfg)
			return Ls(At("wcase"), Ai(int64(id)), w.Sx(), Ls(At("evalall")))
		},
		exec: execWorldCase,
	}
}
