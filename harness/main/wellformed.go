package main

// Oracle P for C05: direct well-formedness check of a connlist result.

import (
	"fmt"
	"sort"
	"strings"

	"github.com/np-guard/netpol-analyzer/pkg/netpol/connlist"
)

func ip4(s string) (int64, bool) {
	var a, b, c, d int64
	if n, err := fmt.Sscanf(s, "%d.%d.%d.%d", &a, &b, &c, &d); n != 4 || err != nil {
		return 0, false
	}
	return ((a*256+b)*256+c)*256 + d, true
}

func checkWellFormed(conns []connlist.Peer2PeerConnection, peers []connlist.Peer, caseStr string) []Violation {
	var viols []Violation
	rep := func(kind, detail string) {
		viols = append(viols, Violation{Prop: "C05", Kind: kind, Detail: detail, Case: caseStr})
	}
	seen := map[string]bool{}
	for _, c := range conns {
		k := c.Src().String() + " => " + c.Dst().String()
		if seen[k] {
			rep("duplicate-pair", k)
		}
		seen[k] = true
		if c.Src().String() == c.Dst().String() {
			rep("self-pair", k)
		}
		if c.Src().IsPeerIPType() && c.Dst().IsPeerIPType() {
			rep("ip-ip-pair", k)
		}
		if !c.AllProtocolsAndPorts() && len(c.ProtocolsAndPorts()) == 0 {
			rep("empty-connection", k)
		}
		if c.AllProtocolsAndPorts() && len(c.ProtocolsAndPorts()) != 0 {
			rep("all-with-entries", k)
		}
		full := 0
		for proto, ranges := range c.ProtocolsAndPorts() {
			if proto != "TCP" && proto != "UDP" && proto != "SCTP" {
				rep("bad-protocol", k+" "+string(proto))
			}
			if len(ranges) == 0 {
				rep("empty-protocol-entry", k+" "+string(proto))
			}
			prevEnd := int64(-10)
			for _, r := range ranges {
				if r.Start() < 1 || r.End() > 65535 || r.Start() > r.End() {
					rep("port-out-of-range", fmt.Sprintf("%s %s %d-%d", k, proto, r.Start(), r.End()))
				}
				if r.Start() <= prevEnd+1 {
					rep("ranges-not-canonical", fmt.Sprintf("%s %s %d-%d after end %d", k, proto, r.Start(), r.End(), prevEnd))
				}
				prevEnd = r.End()
			}
			if len(ranges) == 1 && ranges[0].Start() == 1 && ranges[0].End() == 65535 {
				full++
			}
		}
		if full == 3 {
			rep("all-spelled-as-three-ranges", k)
		}
	}
	// IP peers: single contiguous ranges, pairwise disjoint, covering the whole space
	type rng struct{ lo, hi int64 }
	var rs []rng
	names := map[string]bool{}
	for _, p := range peers {
		if names[p.String()] {
			rep("duplicate-peer", p.String())
		}
		names[p.String()] = true
		if !p.IsPeerIPType() {
			continue
		}
		parts := strings.Split(p.String(), "-")
		if len(parts) != 2 || strings.Contains(p.String(), ",") {
			rep("ip-peer-not-single-range", p.String())
			continue
		}
		lo, ok1 := ip4(parts[0])
		hi, ok2 := ip4(parts[1])
		if !ok1 || !ok2 || lo > hi {
			rep("ip-peer-not-single-range", p.String())
			continue
		}
		rs = append(rs, rng{lo, hi})
	}
	if len(peers) > 0 {
		sort.Slice(rs, func(i, j int) bool { return rs[i].lo < rs[j].lo })
		next := int64(0)
		for _, r := range rs {
			if r.lo != next {
				rep("ip-partition", fmt.Sprintf("range starting at %d, expected %d (gap or overlap)", r.lo, next))
				break
			}
			next = r.hi + 1
		}
		if len(rs) == 0 || next != 1<<32 {
			rep("ip-partition", fmt.Sprintf("ranges end at %d", next-1))
		}
	}
	return viols
}
