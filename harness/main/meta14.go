package main

// C14 generators: single-step edits of NetworkPolicy-only worlds (additivity, locality, equivalent spellings).
// The harness has its own small selector matcher to know which workloads an added policy selects.

import (
	"fmt"
	"strconv"
	"strings"
)

func lblGet(l []KV, k string) (string, bool) {
	for _, kv := range l {
		if kv[0] == k {
			return kv[1], true
		}
	}
	return "", false
}

func selMatchesGo(s *Sel, l []KV) bool {
	if s == nil {
		return false
	}
	for _, kv := range s.ML {
		if v, ok := lblGet(l, kv[0]); !ok || v != kv[1] {
			return false
		}
	}
	for _, r := range s.ME {
		v, ok := lblGet(l, r.Key)
		in := false
		for _, x := range r.Vals {
			if x == v {
				in = true
			}
		}
		switch r.Op {
		case "In":
			if !ok || !in {
				return false
			}
		case "NotIn":
			if ok && in {
				return false
			}
		case "Exists":
			if !ok {
				return false
			}
		case "DoesNotExist":
			if ok {
				return false
			}
		}
	}
	return true
}

func npAffectsGo(np *NetPol, dir string) bool {
	if len(np.Types) > 0 {
		for _, t := range np.Types {
			if t == dir {
				return true
			}
		}
		return false
	}
	return dir == "I" || len(np.Egress) > 0
}

func wlPeerName(w *Workload) string { return w.NS + "/" + w.Name + "[" + w.Kind + "]" }

// workloads of w selected by np in direction dir
func selectedBy(w *World, np *NetPol, dir string) []string {
	var r []string
	if !npAffectsGo(np, dir) {
		return r
	}
	for _, o := range w.Objs {
		if o.Kind == "wl" && o.Wl.NS == np.EffNS() && selMatchesGo(&np.PodSel, o.Wl.Labels) {
			r = append(r, wlPeerName(o.Wl))
		}
	}
	return r
}

func governedIn(w *World, wl *Workload, dir string) bool {
	for _, o := range w.Objs {
		if o.Kind == "np" && o.Np.EffNS() == wl.NS && npAffectsGo(o.Np, dir) && selMatchesGo(&o.Np.PodSel, wl.Labels) {
			return true
		}
	}
	return false
}

func namesSx(head string, l []string) *Sx {
	r := Ls(At(head))
	for _, x := range l {
		r.Add(At(x))
	}
	return r
}

func nps(w *World) []*NetPol {
	var r []*NetPol
	for _, o := range w.Objs {
		if o.Kind == "np" {
			r = append(r, o.Np)
		}
	}
	return r
}

func genC14(r *Rng, id int, tier string) *Sx {
	cfg := &genCfg{anp: false, banp: false, pods: false, namedOnIPPct: 0, maxNP: 4, maxWl: 5}
	var a *World
	for tries := 0; ; tries++ {
		a = genWorld(r, cfg)
		if len(nps(a)) > 0 || tries > 5 {
			break
		}
	}
	b := cloneWorld(a)
	mk := func(kind string, extra ...*Sx) *Sx {
		c := Ls(At("wpair"), Ai(int64(id)), At(kind), a.Sx(), b.Sx())
		c.Add(extra...)
		return c
	}
	pols := nps(b)
	choice := r.Intn(100)
	if len(pols) == 0 {
		choice = 40 // only adding a policy is possible
	}
	switch {
	case choice < 25: // add a rule in a direction the policy already governs
		p := Pick(r, pols)
		pa := nps(a)
		var orig *NetPol
		for _, q := range pa {
			if q.EffNS() == p.EffNS() && q.Name == p.Name {
				orig = q
			}
		}
		dirs := []string{}
		for _, d := range []string{"I", "E"} {
			if npAffectsGo(orig, d) {
				dirs = append(dirs, d)
			}
		}
		if len(dirs) == 0 {
			return mk("respell")
		}
		d := Pick(r, dirs)
		nr := genNPRules(r, cfg, d == "E")
		if len(nr) == 0 {
			nr = []NPRule{{}}
		}
		if r.P(35) {
			// the new rule names an ipBlock CIDR the policy already uses, with other exceptions: the partition of the
			// address space must still separate the two rules' ranges
			var ipPeers []NPPeer
			for _, rules := range [][]NPRule{p.Ingress, p.Egress} {
				for _, ru := range rules {
					for _, pe := range ru.Peers {
						if pe.IsIP {
							ipPeers = append(ipPeers, pe)
						}
					}
				}
			}
			if len(ipPeers) > 0 {
				q := Pick(r, ipPeers)
				twin := NPPeer{IsIP: true, CIDR: q.CIDR}
				if len(q.Except) == 0 || r.P(50) {
					if fresh := genNPPeer(r, true); fresh.IsIP {
						twin.Except = nil // no exceptions where the old rule has some (or a fresh, unrelated list)
					}
				} else {
					twin.Except = append([]string{}, q.Except[:len(q.Except)-1]...)
				}
				nr[0].Peers = append([]NPPeer{twin}, nr[0].Peers...)
				for i := range nr[0].Ports { // named ports must not meet the new ip peer on egress
					if nr[0].Ports[i].Kind == "name" {
						nr[0].Ports[i] = NPPort{Kind: "num", Num: 80}
					}
				}
			}
		}
		if d == "I" {
			p.Ingress = append(p.Ingress, nr[0])
			return mk("addrule", namesSx("sel-egress", nil), namesSx("sel-ingress", selectedBy(a, orig, "I")))
		}
		p.Egress = append(p.Egress, nr[0])
		return mk("addrule", namesSx("sel-egress", selectedBy(a, orig, "E")), namesSx("sel-ingress", nil))
	case choice < 55: // add a policy
		nss := map[string]bool{}
		for _, o := range a.Objs {
			if o.Kind == "wl" {
				nss[o.Wl.NS] = true
			}
		}
		var nsl []string
		for k := range nss {
			nsl = append(nsl, k)
		}
		if len(nsl) == 0 {
			return mk("respell")
		}
		// deterministic order for Pick
		sortStrings(nsl)
		q := genNetPol(r, cfg, Pick(r, nsl), "npnew")
		b.Objs = append(b.Objs, Obj{Kind: "np", Np: q})
		allGov, allUngov := true, true
		for _, d := range []string{"I", "E"} {
			if !npAffectsGo(q, d) {
				continue
			}
			for _, o := range a.Objs {
				if o.Kind == "wl" && o.Wl.NS == q.EffNS() && selMatchesGo(&q.PodSel, o.Wl.Labels) {
					if governedIn(a, o.Wl, d) {
						allUngov = false
					} else {
						allGov = false
					}
				}
			}
		}
		kind := "addpolicy-mixed"
		if allGov && !allUngov {
			kind = "addpolicy-governed"
		} else if allUngov && !allGov {
			kind = "addpolicy-ungoverned"
		} else if allGov && allUngov {
			kind = "addpolicy-governed" // selects nothing
		}
		return mk(kind, namesSx("sel-egress", selectedBy(a, q, "E")), namesSx("sel-ingress", selectedBy(a, q, "I")))
	default: // equivalent spellings
		p := Pick(r, pols)
		switch r.Intn(5) {
		case 0: // matchLabels <-> single-value In
			respellSel := func(s *Sel) {
				if s == nil {
					return
				}
				if len(s.ML) > 0 && r.P(70) {
					kv := s.ML[len(s.ML)-1]
					s.ML = s.ML[:len(s.ML)-1]
					s.ME = append(s.ME, Req{Key: kv[0], Op: "In", Vals: []string{kv[1]}})
				}
			}
			respellSel(&p.PodSel)
			for _, rules := range [][]NPRule{p.Ingress, p.Egress} {
				for i := range rules {
					for j := range rules[i].Peers {
						respellSel(rules[i].Peers[j].PodSel)
						respellSel(rules[i].Peers[j].NsSel)
					}
				}
			}
		case 1: // one port range <-> two adjacent ranges
			for _, rules := range []*[]NPRule{&p.Ingress, &p.Egress} {
				for i := range *rules {
					var np []NPPort
					for _, q := range (*rules)[i].Ports {
						if q.Kind == "num" && q.End != nil && *q.End > q.Num {
							m := q.Num + r.Intn(*q.End-q.Num)
							e1, e2 := m, *q.End
							np = append(np, NPPort{Proto: q.Proto, Kind: "num", Num: q.Num, End: &e1}, NPPort{Proto: q.Proto, Kind: "num", Num: m + 1, End: &e2})
						} else {
							np = append(np, q)
						}
					}
					(*rules)[i].Ports = np
				}
			}
		case 2: // a CIDR <-> its two halves
			for _, rules := range []*[]NPRule{&p.Ingress, &p.Egress} {
				for i := range *rules {
					var npeers []NPPeer
					for _, q := range (*rules)[i].Peers {
						if q.IsIP {
							if h1, h2, ok := cidrHalves(q.CIDR); ok {
								npeers = append(npeers, NPPeer{IsIP: true, CIDR: h1, Except: q.Except}, NPPeer{IsIP: true, CIDR: h2, Except: q.Except})
								continue
							}
						}
						npeers = append(npeers, q)
					}
					(*rules)[i].Peers = npeers
				}
			}
		case 3: // one policy <-> the same rules split over two policies with the same selector
			q := &NetPol{NS: p.NS, Name: p.Name + "s", PodSel: p.PodSel, Types: p.Types}
			var keepI, keepE []NPRule
			for _, x := range p.Ingress {
				if r.P(50) {
					q.Ingress = append(q.Ingress, x)
				} else {
					keepI = append(keepI, x)
				}
			}
			for _, x := range p.Egress {
				if r.P(50) {
					q.Egress = append(q.Egress, x)
				} else {
					keepE = append(keepE, x)
				}
			}
			p.Ingress, p.Egress = keepI, keepE
			b.Objs = append(b.Objs, Obj{Kind: "np", Np: q})
		default: // explicit <-> defaulted policyTypes
			if len(p.Types) == 0 {
				p.Types = []string{"I"}
				if len(p.Egress) > 0 {
					p.Types = append(p.Types, "E")
				}
			} else {
				hasI, hasE := false, false
				for _, t := range p.Types {
					hasI = hasI || t == "I"
					hasE = hasE || t == "E"
				}
				if hasI && hasE == (len(p.Egress) > 0) {
					p.Types = nil
				}
			}
		}
		return mk("respell")
	}
}

func sortStrings(l []string) {
	for i := 1; i < len(l); i++ {
		for j := i; j > 0 && l[j] < l[j-1]; j-- {
			l[j], l[j-1] = l[j-1], l[j]
		}
	}
}

func cidrHalves(c string) (string, string, bool) {
	parts := strings.Split(c, "/")
	n, _ := strconv.Atoi(parts[1])
	if n >= 32 {
		return "", "", false
	}
	a, ok := ip4(parts[0])
	if !ok {
		return "", "", false
	}
	size := int64(1) << uint(32-n)
	lo := (a / size) * size
	return fmt.Sprintf("%s/%d", ipStr(lo), n+1), fmt.Sprintf("%s/%d", ipStr(lo+size/2), n+1), true
}

func init() {
	families["edit14"] = family{gen: genC14, exec: execWPair}
}
