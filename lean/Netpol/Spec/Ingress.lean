import Netpol.Spec.K8s
/-! Specification of the ingress-controller lines (property C10). -/
namespace Netpol.Spec
open Netpol

/-- how a backend designates a service port -/
inductive Designator where
  | byNumberLenient (n : Int) -- the tool's reading of an Ingress `port.number`: service port number OR targetPort (known finding)
  | byNumber (n : Int)
  | byName (s : String)
  | all                       -- a Route without `port`
  | routeNum (n : Int)        -- Route `port.targetPort` number
  | routeName (s : String)    -- Route `port.targetPort` name
deriving Repr, Inhabited

/-- the service ports a backend designates. Ingress: by the service port's number or name.
Route (as the tool implements OpenShift's `port.targetPort`): the first service port whose name,
number or targetPort equals it; every port when unspecified. -/
def designated (d : Designator) (ports : List SvcPort) : List SvcPort :=
  match d with
  | .byNumber n => ports.filter (·.port == n)
  | .byNumberLenient n => (ports.find? (fun p => p.port == n || p.targetNum == some n)).toList
  | .byName s => ports.filter (fun p => p.name != "" && p.name == s)
  | .all => ports
  | .routeNum n => (ports.find? (fun p => p.port == n || p.targetNum == some n)).toList
  | .routeName s => (ports.find? (fun p => (p.name != "" && p.name == s) || (p.targetNum.isNone && p.targetName == some s))).toList

/-- the TCP container port of the workload reached through a service port -/
def reachedPort (w : Pod) (sp : SvcPort) : Option Int :=
  let tcpPorts := (w.ports.filter (·.proto == .TCP)).map (·.port)
  match sp.targetNum, sp.targetName with
  | some n, _ => if n != 0 then (if tcpPorts.contains n then some n else none)
                 else (if tcpPorts.contains sp.port then some sp.port else none)
  | none, some s =>
    match w.ports.find? (·.name == s) with
    | some c => if c.proto == .TCP && tcpPorts.contains c.port then some c.port else none
    | none => none
  | none, none => if tcpPorts.contains sp.port then some sp.port else none

def backendDesignator (lenient : Bool) (b : IngBackend) : Designator :=
  let num (n : Int) : Designator := if lenient then .byNumberLenient n else .byNumber n
  match b.portName with
  | some s => if s != "" then .byName s else num (b.portNum.getD 0)
  | none => num (b.portNum.getD 0)

/-- all (service name, designator) pairs of Ingresses and Routes in a namespace -/
def nsTargets (objs : List Obj) (ns : String) (lenient : Bool := false) : List (String × Designator) :=
  objs.flatMap fun o =>
    match o with
    | .ing i => if i.ns != ns then [] else
        ((match i.default with | some b => [b] | none => []) ++ i.rules.flatMap id).map fun b => (b.svc, backendDesignator lenient b)
    | .route r => if r.ns != ns then [] else
        let d := match r.targetPortNum, r.targetPortName with
          | some n, _ => Designator.routeNum n
          | none, some s => Designator.routeName s
          | none, none => Designator.all
        ((if r.toKind == "" || r.toKind == "Service" then [r.toName] else []) ++
          r.alternates.filterMap fun (k, n) => if k == "" || k == "Service" then some n else none).map fun n => (n, d)
    | _ => []

/-- some Ingress or Route of the workload's namespace targets a Service of that namespace whose selector
matches the workload's labels -/
def targeted (objs : List Obj) (w : Pod) : Bool :=
  (nsTargets objs w.ns).any fun (svcName, _) =>
    objs.any fun o => match o with
      | .svc s => s.name == svcName && s.ns == w.ns && !s.selector.isEmpty && s.selector.all (fun kv => w.labels.get? kv.1 == some kv.2)
      | _ => false

/-- the TCP ports of workload `w` exposed through Ingress/Route → Service -/
def ingressPorts (objs : List Obj) (w : Pod) (lenient : Bool := false) : List Int :=
  let svcs := objs.filterMap fun o => match o with
    | .svc s => if s.ns == w.ns && !s.selector.isEmpty && s.selector.all (fun kv => w.labels.get? kv.1 == some kv.2) then some s else none
    | _ => none
  (nsTargets objs w.ns lenient).flatMap fun (svcName, d) =>
    -- the last Service document with that name is the one in effect
    match (svcs.filter (·.name == svcName)).getLast? with
    | none => []
    | some s => (designated d s.ports).filterMap (reachedPort w)

end Netpol.Spec
