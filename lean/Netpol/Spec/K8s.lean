import Netpol.Model.World
/-! Declarative, pointwise specification of what Kubernetes NetworkPolicy, AdminNetworkPolicy and
BaselineAdminNetworkPolicy semantics allow (properties C01, C02). Order-free: every definition is
an `any`/`all` over policies and rules, except the ANP layer, which is by definition "first
matching rule in priority order". Nothing here refers to connection sets. -/
namespace Netpol.Spec
open Netpol

/-- one end of a connection at the level of the specification -/
inductive End where
  | pod (p : Pod) (nsLabels : Labels)
  | ip (a : Int)
deriving Repr, Inhabited

structure View where
  pods : List (Pod × Labels)       -- every pod with the labels of its namespace
  netpols : List NetPol
  anps : List ANP
  banp : Option BANP
deriving Inhabited

def inPortRange (p : Int) : Bool := decide (1 ≤ p ∧ p ≤ 65535)

def cidrMem (c : Cidr) (a : Int) : Bool := decide (c.toIv.lo ≤ a ∧ a ≤ c.toIv.hi)

/-- does one NetworkPolicy peer clause match the other end? -/
def npPeerMatches (np : NetPol) (rp : NPPeer) (other : End) : Bool :=
  match rp, other with
  | .sel podSel nsSel, .pod p nsl =>
    (match nsSel with
      | none => np.ns == p.ns
      | some s => s.matches nsl) &&
    (match podSel with
      | none => true
      | some s => s.matches p.labels)
  | .ip c ex, .ip a => cidrMem c a && ex.all (fun e => !cidrMem e a)
  | _, _ => false

/-- does one NetworkPolicy port clause match (protocol, port) towards `dst`? -/
def npPortMatches (port : NPPort) (dst : End) (pr : Proto) (p : Int) : Bool :=
  port.proto.getD .TCP == pr &&
  match port.kind with
  | .all => true
  | .num a e => decide (a ≤ p ∧ p ≤ e.getD a)
  | .name n =>
    match dst with
    | .pod d _ =>
      match d.ports.find? (fun c => c.name == n) with
      | some c => c.proto == pr && c.port == p
      | none => false
    | .ip _ => false

def npRuleAllows (np : NetPol) (r : NPRule) (other dst : End) (pr : Proto) (p : Int) : Bool :=
  (r.peers.isEmpty || r.peers.any (npPeerMatches np · other)) &&
  (r.ports.isEmpty || r.ports.any (npPortMatches · dst pr p))

/-- policyTypes defaulting -/
def npAffects (np : NetPol) (d : Dir) : Bool :=
  if np.types.isEmpty then (d == .ingress || !np.egress.isEmpty) else np.types.contains d

def npSelects (np : NetPol) (p : Pod) (d : Dir) : Bool :=
  np.ns == p.ns && npAffects np d && np.podSel.matches p.labels

def npRules (np : NetPol) (d : Dir) : List NPRule :=
  match d with
  | .ingress => np.ingress
  | .egress => np.egress

/-- a NetworkPolicy governs the pod in the direction -/
def governs (v : View) (p : Pod) (d : Dir) : Bool := v.netpols.any (npSelects · p d)

/-- some rule of some governing policy matches the other end and the port -/
def npAllows (v : View) (p : Pod) (other dst : End) (d : Dir) (pr : Proto) (port : Int) : Bool :=
  v.netpols.any fun np => npSelects np p d && (npRules np d).any (npRuleAllows np · other dst pr port)

/-- admin policy subject / peer -/
def subjectMatches (s : Subject) (e : End) : Bool :=
  match e with
  | .ip _ => false
  | .pod p nsl =>
    match s with
    | .nss sel => sel.matches nsl
    | .pods nsSel podSel => nsSel.matches nsl && podSel.matches p.labels

def aPortMatches (ap : APort) (dst : End) (pr : Proto) (p : Int) : Bool :=
  match ap with
  | .num rpr n => rpr.getD .TCP == pr && p == n
  | .range rpr a b => rpr.getD .TCP == pr && decide (a ≤ p ∧ p ≤ b)
  | .named n =>
    match dst with
    | .pod d _ =>
      match d.ports.find? (fun c => c.name == n) with
      | some c => c.proto == pr && c.port == p
      | none => false
    | .ip _ => false

def aRuleMatches (r : ARule) (other dst : End) (pr : Proto) (p : Int) : Bool :=
  r.peers.any (subjectMatches · other) &&
  match r.ports with
  | none => true
  | some ps => ps.any (aPortMatches · dst pr p)

/-- the action of the first matching rule of a rule list -/
def firstMatch (rules : List ARule) (other dst : End) (pr : Proto) (p : Int) : Option Action :=
  (rules.find? (aRuleMatches · other dst pr p)).map (·.action)

def anpRules (a : ANP) (d : Dir) : List ARule :=
  match d with
  | .ingress => a.ingress
  | .egress => a.egress

/-- ANPs whose subject selects the pod, by ascending priority, each contributing its rules in order -/
def anpVerdict (v : View) (self other dst : End) (d : Dir) (pr : Proto) (p : Int) : Option Action :=
  let sorted := v.anps.mergeSort (fun a b => a.prio ≤ b.prio)
  let rules := sorted.flatMap fun a => if subjectMatches a.subject self then anpRules a d else []
  firstMatch rules other dst pr p

def banpVerdict (v : View) (self other dst : End) (d : Dir) (pr : Proto) (p : Int) : Option Action :=
  match v.banp with
  | none => none
  | some b =>
    if subjectMatches b.subject self then
      firstMatch (match d with | .ingress => b.ingress | .egress => b.egress) other dst pr p
    else none

/-- is (pr, p) allowed in direction `d` for `self` (the pod whose policies apply; an external
address is never restricted) -/
def allowedDir (v : View) (self other dst : End) (d : Dir) (pr : Proto) (p : Int) : Bool :=
  match self with
  | .ip _ => true
  | .pod pod _ =>
    match anpVerdict v self other dst d pr p with
    | some .Allow => true
    | some .Deny => false
    | _ =>
      if governs v pod d then npAllows v pod other dst d pr p
      else banpVerdict v self other dst d pr p != some .Deny

/-- the specification of the report: (pr, p) from src to dst -/
def allowed (v : View) (src dst : End) (pr : Proto) (p : Int) : Bool :=
  inPortRange p && allowedDir v src dst dst .egress pr p && allowedDir v dst src dst .ingress pr p

end Netpol.Spec
