import Netpol.Model.WorldParse
import Netpol.Spec.K8s
import Netpol.Spec.Ingress
/-! Spec side of the search for a failing input (leg P of C01/C02/C05/C19): evaluates the pointwise
specification on every pair of peers and every elementary port segment, and lists the conflicts
present in the input. Independent of `Netpol.Model.Engine`. -/
namespace Netpol.Spec
namespace SpecDriver
open Sexp

def us (s : String) : String := s.replace " " "_"

/-- namespace name ↦ labels (explicit objects win; the name label is added when missing) -/
def nsLabelsOf (objs : List Obj) (name : String) : Labels :=
  let explicit := objs.foldl (fun (acc : Option Labels) o =>
    match o with
    | .ns n => if n.name == name then some n.labels else acc
    | _ => acc) none
  match explicit with
  | some l => if (l.get? nsNameLabelKey).isSome then l else l ++ [(nsNameLabelKey, name)]
  | none => [(nsNameLabelKey, name)]

def wlName (p : Pod) : String :=
  let name := if p.ownerName == "" then p.name else p.ownerName
  let kind := if p.ownerKind == "" then "Pod" else p.ownerKind
  p.ns ++ "/" ++ name ++ "[" ++ kind ++ "]"

/-- one standing pod per workload manifest / pod manifest -/
def podsOf (objs : List Obj) : List Pod :=
  objs.filterMap fun o =>
    match o with
    | .wl w => some { ns := w.ns, name := w.name ++ "-1", labels := w.labels, ports := w.ports, ownerKind := w.kind, ownerName := w.name }
    | .pod p => some p
    | _ => none

def viewOf (objs : List Obj) : View :=
  { pods := (podsOf objs).map fun p => (p, nsLabelsOf objs p.ns)
    netpols := objs.filterMap fun o => match o with
      | .np p => some (if p.ns == "" then { p with ns := "default" } else p)
      | _ => none
    anps := objs.filterMap fun o => match o with | .anp a => some a | _ => none
    banp := (objs.filterMap fun o => match o with | .banp b => some b | _ => none).head? }

def hasDup {α} [BEq α] : List α → Bool
  | [] => false
  | x :: xs => xs.contains x || hasDup xs

def sameLabels (a b : Labels) : Bool :=
  a.all (fun kv => b.get? kv.1 == some kv.2) && b.all (fun kv => a.get? kv.1 == some kv.2)

/-- the conflicts of property C19 present in the input -/
def conflicts (objs : List Obj) : List String :=
  let v := viewOf objs
  let banps := objs.filterMap fun o => match o with | .banp b => some b | _ => none
  let pods := podsOf objs
  (if hasDup (v.netpols.map fun p => p.ns ++ "/" ++ p.name) then ["dupNetpol"] else []) ++
  (if hasDup (v.anps.map (·.name)) then ["dupANP"] else []) ++
  (if banps.length > 1 then ["banpExists"] else []) ++
  (if banps.any (·.name != "default") then ["banpName"] else []) ++
  (if hasDup (v.anps.map (·.prio)) || v.anps.any (fun a => a.prio < 0 || a.prio > 1000) then ["anpPriority"] else []) ++
  -- one owner = one (namespace, kind, name): Job x and ReplicaSet x are two owners
  (if pods.any (fun p => p.ownerName != "" && pods.any (fun q => q.ownerName == p.ownerName && q.ownerKind == p.ownerKind && q.ns == p.ns && !sameLabels p.labels q.labels))
    then ["ownerLabels"] else [])

/-- necessary condition of the documented deviation: an egress rule with a named port that may meet an IP destination -/
def namedPortMayMeetIP (objs : List Obj) : Bool :=
  (viewOf objs).netpols.any fun np => npAffects np .egress && np.egress.any fun r =>
    r.ports.any (fun p => match p.kind with | .name _ => true | _ => false) &&
    (r.peers.isEmpty || r.peers.any (fun p => match p with | .ip .. => true | _ => false))

/-- every port number mentioned anywhere (rule ports, container ports) -/
def mentionedPorts (objs : List Obj) : List Int :=
  let v := viewOf objs
  let np := v.netpols.flatMap fun p => (p.ingress ++ p.egress).flatMap fun r => r.ports.flatMap fun q =>
    match q.kind with
    | .num a e => [a, e.getD a]
    | _ => []
  let ar (rs : List ARule) := rs.flatMap fun r => (r.ports.getD []).flatMap fun q =>
    match q with
    | .num _ n => [n]
    | .range _ a b => [a, b]
    | .named _ => []
  let an := v.anps.flatMap fun a => ar a.ingress ++ ar a.egress
  let bn := match v.banp with | some b => ar b.ingress ++ ar b.egress | none => []
  let cp := v.pods.flatMap fun (p, _) => p.ports.map (·.port)
  np ++ an ++ bn ++ cp

/-- segment starts: on each segment [b_i, b_{i+1}) the specification is constant -/
def boundaries (objs : List Obj) : List Int :=
  let pts := (mentionedPorts objs).flatMap fun n => [n, n + 1]
  let pts := (pts ++ [1, 65536]).filter (fun x => 1 ≤ x ∧ x ≤ 65536)
  (pts.mergeSort (· ≤ ·)).eraseDups

/-- the allowed set of one protocol as a canonical interval list, by sweeping the segments -/
def sweep (bs : List Int) (f : Int → Bool) : List Iv :=
  let segs := (bs.zip bs.tail).filter (fun (a, _) => f a)
  segs.foldl (fun (acc : List Iv) (a, b) =>
    match acc.getLast? with
    | some last => if last.hi + 1 == a then acc.dropLast ++ [⟨last.lo, b - 1⟩] else acc ++ [⟨a, b - 1⟩]
    | none => [⟨a, b - 1⟩]) []

def connStr (m : List (Proto × List Iv)) : String :=
  let m := m.filter (fun x => !x.2.isEmpty)
  if m.length == 3 && m.all (fun x => x.2 == [⟨1, 65535⟩]) then "All Connections"
  else if m.isEmpty then "No Connections"
  else ",".intercalate (m.map fun (pr, l) => pr.toStr ++ " " ++ ",".intercalate (l.map fun i =>
    if i.lo != i.hi then toString i.lo ++ "-" ++ toString i.hi else toString i.lo))

def ipStr (n : Int) : String :=
  let n := n.toNat
  s!"{n / 16777216 % 256}.{n / 65536 % 256}.{n / 256 % 256}.{n % 256}"

/-- boundary addresses of every ipBlock and except -/
def ipBoundaries (objs : List Obj) : List Int :=
  (viewOf objs).netpols.flatMap fun p => (p.ingress ++ p.egress).flatMap fun r => r.peers.flatMap fun q =>
    match q with
    | .ip c ex => ([c] ++ ex).flatMap fun x => [x.toIv.lo, x.toIv.hi + 1]
    | _ => []

structure SPeer where
  name : String
  e : End
  isIP : Bool

def sortStrs (l : List String) : List String := l.mergeSort (· ≤ ·)

/-- `(wspec ID WORLD (ipranges (lo hi)…))` -/
def run (args : List Sexp) : Sexp :=
  match args with
  | [id, w, ranges] =>
    match WorldParse.pWorld w with
    | none => .list [.atom "wspec", id, .atom "bad-world"]
    | some objs =>
      let v := viewOf objs
      let rs : List (Int × Int) := ranges.args.filterMap fun r =>
        match r with
        | .list [a, b] => do some (← a.int?, ← b.int?)
        | _ => none
      let ipb := ipBoundaries objs
      -- pods of one workload may differ (named container ports): the pod standing for the workload is, by the tool's
      -- convention, the one with the greatest key namespace/name
      let podsDesc := v.pods.mergeSort (fun a b => (b.1.ns ++ "/" ++ b.1.name) ≤ (a.1.ns ++ "/" ++ a.1.name))
      let wls : List SPeer := (podsDesc.foldl (fun (acc : List SPeer) (p, nsl) =>
        if acc.any (·.name == wlName p) then acc else acc ++ [⟨wlName p, .pod p nsl, false⟩]) [])
      let ips : List SPeer := rs.map fun (lo, hi) => ⟨ipStr lo ++ "-" ++ ipStr hi, .ip lo, true⟩
      let peers := ips ++ wls
      let bs := boundaries objs
      let connOf (s d : End) : String :=
        connStr ([Proto.SCTP, Proto.TCP, Proto.UDP].map fun pr => (pr, sweep bs (fun p => allowed v s d pr p)))
      -- every address of a reported range has the connectivity of its first address: membership in every
      -- ipBlock is constant between consecutive candidate boundaries, so these samples are exhaustive
      let nonuni := rs.filter fun (lo, hi) =>
        (ipb.filter (fun b => lo < b ∧ b ≤ hi)).any fun b =>
          wls.any fun w => connOf (.ip b) w.e != connOf (.ip lo) w.e || connOf w.e (.ip b) != connOf w.e (.ip lo)
      let lines := peers.flatMap fun s => peers.filterMap fun d =>
        if (s.isIP && d.isIP) || s.name == d.name then none
        else
          let c := connOf s.e d.e
          if c == "No Connections" then none else some (s.name ++ " " ++ d.name ++ " " ++ us c)
      -- ingress-controller lines: an arbitrary unlabeled pod in a namespace unknown to the input
      let icPod : Pod := { ns := "ingress-controller-ns", name := "ingress-controller", labels := [], ports := [], fake := true }
      let ic : End := .pod icPod [(nsNameLabelKey, "ingress-controller-ns")]
      let icFor (lenient : Bool) : List String × List String :=
        let icRes := wls.filterMap fun w =>
          match w.e with
          | .pod p _ =>
            let ports := ((ingressPorts objs p lenient).mergeSort (· ≤ ·)).eraseDups
            if !targeted objs p then none
            else
              let ok := ports.filter fun x => allowed v ic w.e .TCP x
              some (w.name, ok)
          | _ => none
        (icRes.filterMap fun (n, ok) =>
          if ok.isEmpty then none
          else some ("{ingress-controller} " ++ n ++ " " ++ us (connStr [(Proto.TCP, ok.foldl (fun acc x => CSet.addIv ⟨x, x⟩ acc) [])])),
         icRes.filterMap fun (n, ok) => if ok.isEmpty then some n else none)
      let (icLines, blockedL) := icFor false
      let (icLenient, blockedLenient) := icFor true
      let lines := lines ++ icLines
      .list ([.atom "wspec", id,
        .list (.atom "blocked" :: (sortStrs blockedL).map .atom),
        .list (.atom "lenient-blocked" :: (sortStrs blockedLenient).map .atom),
        .list (.atom "lenient-ic" :: (sortStrs icLenient).map fun l => .list ((l.splitOn " ").map .atom)),
        .list (.atom "conflicts" :: (conflicts objs).map .atom),
        .list [.atom "named-port-may-meet-ip", .atom (if namedPortMayMeetIP objs then "1" else "0")],
        .list (.atom "nonuniform" :: nonuni.map fun (lo, hi) => .atom (ipStr lo ++ "-" ++ ipStr hi)),
        .list (.atom "peers" :: (sortStrs (peers.map (·.name))).map .atom)] ++
        (sortStrs lines).map fun l => .list (.atom "e" :: (l.splitOn " ").map .atom))
  | _ => .atom "bad-case"

end SpecDriver
end Netpol.Spec
