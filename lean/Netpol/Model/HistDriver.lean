import Netpol.Model.WorldParse
import Netpol.Model.Cache
/-! Driver side of the history correspondence (`hist` lines). -/
namespace Netpol
namespace HistDriver
open Sexp

def b01 (b : Bool) : String := if b then "1" else "0"

def outSx (o : EState.Out) : Sexp :=
  match o with
  | .ok => .atom "ok"
  | .err e => .list [.atom "err", .atom e.toStr]
  | .ans b => .list [.atom "ans", .atom (b01 b)]
  | .panic => .atom "panic"

def stateSx (s : EState) : List Sexp :=
  [.list (.atom "cache" :: s.cache.items.reverse.map fun (k, v) => .list [.atom (k.replace " " "_"), .atom (b01 v)]),
   .list (.atom "anps" :: s.eng.anps.map fun a => .atom a.name)]

def undash (s : String) : String := if s == "-" then "" else s

/-- `(hist ID (cap N) OP…)` -/
def run (args : List Sexp) : Sexp :=
  match args with
  | id :: ops =>
    let cap := match Sexp.field "cap" ops with
      | some (.list [_, n]) => (n.nat?).getD 10
      | _ => 10
    let init : EState := { cache := { cap := cap } }
    let (_, outs) := ops.foldl (fun (st : Option EState × List Sexp) op =>
      match st.1 with
      | none => st
      | some s =>
        match op with
        | .list [.atom "cap", _] => st
        | .list [.atom "ins", o] =>
          match WorldParse.pObj o with
          | none => (some s, .atom "bad-op" :: st.2)
          | some obj =>
            let (out, s') := s.insert obj
            (some s', .list ([.atom "r", outSx out] ++ stateSx s') :: st.2)
        | .list (.atom "del" :: o :: rest) =>
          match WorldParse.pObj o with
          | none => (some s, .atom "bad-op" :: st.2)
          | some obj =>
            let _ := rest
            let (out, s') := s.delete obj
            match out with
            | .panic => (none, .list [.atom "panic"] :: st.2)
            | _ => (some s', .list ([.atom "r", outSx out] ++ stateSx s') :: st.2)
        | .list [.atom "setres", nps, pods, nss] =>
          match nps.args.mapM WorldParse.pObj, pods.args.mapM WorldParse.pObj, nss.args.mapM WorldParse.pObj with
          | some nl, some pl, some sl =>
            let nps' := nl.filterMap fun o => match o with | .np p => some p | _ => none
            let pods' := pl.filterMap fun o => match o with | .pod p => some p | _ => none
            let nss' := sl.filterMap fun o => match o with | .ns n => some n | _ => none
            let (out, s') := s.setResources nps' pods' nss'
            (some s', .list ([.atom "r", outSx out] ++ stateSx s') :: st.2)
          | _, _, _ => (some s, .atom "bad-op" :: st.2)
        | .list [.atom "clear"] =>
          let s' : EState := { cache := { cap := cap } }
          (some s', .list ([.atom "r", .atom "ok"] ++ stateSx s') :: st.2)
        | .list [.atom "q", .atom src, .atom dst, .atom proto, .atom port] =>
          let (r, s') := s.checkIfAllowed src dst proto (undash port)
          let out := match r with
            | .ok b => EState.Out.ans b
            | .error e => EState.Out.err e
          (some s', .list ([.atom "r", outSx out] ++ stateSx s') :: st.2)
        | _ => (some s, .atom "bad-op" :: st.2)) (some init, [])
    .list (.atom "hist" :: id :: outs.reverse)
  | _ => .atom "bad-case"

end HistDriver
end Netpol
