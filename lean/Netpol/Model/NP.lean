import Netpol.Model.World
/-! Model of `pkg/netpol/eval/internal/k8s/netpol.go` (the connection-set path used by `list`
and the rule-walking twin used by `eval`). -/
namespace Netpol

inductive Err where
  | namedPortOnIP | emptyRulePeer | combinedRulePeer | badSelector
  | dupNetpol | dupANP | banpExists | banpName | anpPriority | ownerLabels
  | missingNamespace | anpPorts | anpRulePeers | anpRuleFields | anpSubject | badAction
  | notFoundPeer | notFoundNamespace | invalidPeer | bothIP | exposureWithANP | badPod | badPort
  | other
deriving Repr, DecidableEq, Inhabited

def Err.toStr (e : Err) : String := (reprStr e).replace "Netpol.Err." ""

def representativePodName : String := "representative-pod"

def Pod.isRepresentative (p : Pod) : Bool := p.fake && p.name == representativePodName

/-- `k8s.Peer`: a pod with its namespace object (nil for representative peers outside a namespace) or an IP block -/
inductive KPeer where
  | pod (p : Pod) (ns : Option NsObj)
  | ip (r : CSet)
deriving Repr, Inhabited

def KPeer.isPod : KPeer → Bool
  | .pod .. => true
  | .ip _ => false

def KPeer.isRepresentative : KPeer → Bool
  | .pod p _ => p.isRepresentative
  | .ip _ => false

/-- `Pod.ConvertPodNamedPort`: protocol and number of the first container port with that name -/
def Pod.convertNamedPort (p : Pod) (name : String) : Option (Proto × Int) :=
  (p.ports.find? (fun c => c.name == name)).map fun c => (c.proto, c.port)

namespace NetPol

/-- `policyAffectsDirection` -/
def affects (np : NetPol) (d : Dir) : Bool :=
  if !np.types.isEmpty then np.types.contains d
  else match d with
    | .ingress => true
    | .egress => !np.egress.isEmpty

/-- `NetworkPolicy.Selects` -/
def selects (np : NetPol) (p : Pod) (d : Dir) : Bool :=
  if p.ns != np.ns then false
  else if !np.affects d then false
  else if p.isRepresentative then false
  else if np.podSel.isEmpty then true
  else np.podSel.matches p.labels

/-- `getPortsRange`: (start, end, portName); (-1,-1,name) is the unresolved named port -/
def portsRange (port : NPPort) (dst : Option KPeer) : Except Err (Int × Int × String) :=
  match port.kind with
  | .all => .ok (noPort, noPort, "")   -- not reached: callers test `Port == nil` first
  | .num p e => .ok (p, e.getD p, "")
  | .name n =>
    let ruleProto := port.proto.getD .TCP
    match dst with
    | none => .ok (noPort, noPort, n)
    | some (.ip _) => .error .namedPortOnIP
    | some (.pod pod _) =>
      match pod.convertNamedPort n with
      | none => .ok (noPort, noPort, n)
      | some (pr, num) => if pr != ruleProto then .ok (noPort, noPort, n) else .ok (num, num, n)

def isEmptyPortRange (s e : Int) : Bool := s == noPort && e == noPort

/-- `ruleConnections` -/
def ruleConnections (ports : List NPPort) (dst : Option KPeer) : Except Err ConnSet :=
  if ports.isEmpty then .ok (ConnSet.mk' true)
  else ports.foldlM (fun (res : ConnSet) port => do
    let protocol := port.proto.getD .TCP
    let ps ← match port.kind with
      | .all => pure (PortSet.mk' true)
      | _ => do
        let (s, e, name) ← portsRange port dst
        let ps0 := PortSet.mk' false
        let unresolvedOk := match dst with
          | none => true
          | some d => d.isRepresentative
        let ps1 := if unresolvedOk && isEmptyPortRange s e && name != "" then ps0.addPort (.name name) else ps0
        pure (if !isEmptyPortRange s e then ps1.addPortRange s e else ps1)
    pure (res.addConnection protocol ps)) (ConnSet.mk' false)

/-- `doesRulePortContain` (protocols already parsed; `none` = a string that is no protocol name) -/
def rulePortContains (rulePr : Proto) (otherPr : Option Proto) (s e port : Int) : Bool :=
  if some rulePr != otherPr then false
  else if isEmptyPortRange s e then false
  else decide (port ≥ s ∧ port ≤ e)

/-- `ruleConnsContain` (after `ParseInt` succeeded) -/
def ruleConnsContain (ports : List NPPort) (pr : Option Proto) (port : Int) (dst : KPeer) : Except Err Bool :=
  if ports.isEmpty then .ok true
  else
    let rec go : List NPPort → Except Err Bool
      | [] => .ok false
      | p :: rest =>
        match p.kind with
        | .all => if some (p.proto.getD .TCP) == pr then .ok true else go rest
        | _ => do
          let (s, e, _) ← portsRange p (some dst)
          if rulePortContains (p.proto.getD .TCP) pr s e port then pure true else go rest
    go ports

/-- the IP set of an `ipBlock` peer: the CIDR minus its excepts -/
def ipBlockSet (c : Cidr) (excepts : List Cidr) : CSet :=
  let holes := excepts.foldl (fun acc e => CSet.addIv e.toIv acc) []
  CSet.subtract [c.toIv] holes

end NetPol

/-- `SelectorsFullMatch`-style comparison is defined with the exposure model; until then a
representative peer matches a rule selector iff the normalised requirement strings agree. -/
def reqString (r : Req) : String :=
  let vs := r.vals.mergeSort (· ≤ ·)
  match r.op with
  -- `len(req.Values()) == 1`: `Values()` is a *set* of strings, so `In (x, x)` is one value and is rewritten to `k=x`
  | .In => if vs.eraseDups.length == 1 then r.key ++ "=" ++ vs.head! else r.key ++ " in (" ++ ",".intercalate vs ++ ")"
  | .NotIn => r.key ++ " notin (" ++ ",".intercalate vs ++ ")"
  | .Exists => r.key
  | .DoesNotExist => "!" ++ r.key

/-- requirements of a selector as `LabelSelectorAsSelector` builds them: matchLabels (as `=`)
then expressions, sorted by key (stable) -/
def Selector.reqStrings (s : Selector) : List String :=
  let reqs : List (String × String) :=
    (s.matchLabels.map fun kv => (kv.1, kv.1 ++ "=" ++ kv.2)) ++ (s.exprs.map fun r => (r.key, reqString r))
  (reqs.mergeSort (fun a b => a.1 ≤ b.1)).map (·.2)

/-- `SelectorsFullMatch(ruleSelector, repSelector)`: an empty rule selector matches every
representative peer; otherwise the two sorted requirement lists must have the same length and
pairwise equal strings (`k in (v)` rewritten to `k=v`). Pointer equality of the two selectors is a
special case of equal requirement lists. -/
def selectorsFullMatch (rule : Selector) (peer : Option Selector) : Bool :=
  if rule.isEmpty then true          -- "empty rule matches everything"
  else match peer with
    | none => false                  -- a nil selector converts to Nothing: no requirements
    | some ps => rule.reqStrings == ps.reqStrings

namespace NetPol

/-- `selectorsMatch` -/
def selectorsMatch (ruleSel : Selector) (peerSel : Option Selector) (peerLabels : Labels) (isRepr : Bool) : Bool :=
  if isRepr then selectorsFullMatch ruleSel peerSel else ruleSel.matches peerLabels

/-- a rule peer without namespaceSelector: pods of the policy's namespace; a representative peer stands for
them iff its namespace selector is exactly the name label of that namespace -/
def nsMatchNil (np : NetPol) (pod : Pod) : Bool :=
  if pod.isRepresentative then selectorsFullMatch ⟨[(nsNameLabelKey, np.ns)], []⟩ pod.reprNsSel
  else np.ns == pod.ns

theorem nsMatchNil_real (np : NetPol) (pod : Pod) (h : pod.isRepresentative = false) :
    nsMatchNil np pod = (np.ns == pod.ns) := by
  simp [nsMatchNil, h]

/-- `ruleSelectsPeer` -/
def ruleSelectsPeer (np : NetPol) (peers : List NPPeer) (peer : KPeer) : Except Err Bool :=
  if peers.isEmpty then .ok true
  else
    let rec go : List NPPeer → Except Err Bool
      | [] => .ok false
      | rp :: rest =>
        match rp with
        | .sel none none => .error .emptyRulePeer
        | .sel podSel nsSel =>
          match peer with
          | .ip _ => go rest
          | .pod pod nsObj =>
            let isRepr := pod.isRepresentative
            let nsMatch := match nsSel with
              | none => nsMatchNil np pod
              | some s => selectorsMatch s pod.reprNsSel ((nsObj.map (·.labels)).getD []) isRepr
            if !nsMatch then go rest
            else
              let podMatch := match podSel with
                | none => true
                | some s => selectorsMatch s pod.reprPodSel pod.labels isRepr
              if podMatch then .ok true else go rest
        | .ip cidr excepts =>
          match peer with
          | .pod .. => go rest
          | .ip r => if CSet.isSubset r (ipBlockSet cidr excepts) then .ok true else go rest
    go peers

/-- `GetEgressAllowedConns` / `GetIngressAllowedConns`: union over the rules selecting `other`;
every rule is examined (no early stop when the result becomes all connections), so a failing rule
fails the policy wherever it stands -/
def allowedConns (np : NetPol) (rules : List NPRule) (other : KPeer) (dst : KPeer) : Except Err ConnSet :=
  let rec go (res : ConnSet) : List NPRule → Except Err ConnSet
    | [] => .ok res
    | r :: rest => do
      let sel ← np.ruleSelectsPeer r.peers other
      if !sel then go res rest
      else
        let rc ← ruleConnections r.ports (some dst)
        let res' := res.union rc
        go res' rest
  go (ConnSet.mk' false) rules

def egressAllowedConns (np : NetPol) (dst : KPeer) : Except Err ConnSet := np.allowedConns np.egress dst dst
def ingressAllowedConns (np : NetPol) (src dst : KPeer) : Except Err ConnSet := np.allowedConns np.ingress src dst

/-- `EgressAllowedConn` / `IngressAllowedConn` (the rule-walking twin used by eval) -/
def allowedConn (np : NetPol) (rules : List NPRule) (other : KPeer) (pr : Option Proto) (port : Int) (dst : KPeer) : Except Err Bool :=
  let rec go : List NPRule → Except Err Bool
    | [] => .ok false
    | r :: rest => do
      let sel ← np.ruleSelectsPeer r.peers other
      if !sel then go rest
      else
        let c ← ruleConnsContain r.ports pr port dst
        if c then pure true else go rest
  go rules

/-- `rulePeersReferencedIPBlocks` + `GetReferencedIPBlocks`: the contiguous pieces of every ipBlock peer -/
def referencedIPBlocks (np : NetPol) : List Iv :=
  (np.ingress ++ np.egress).flatMap fun r => r.peers.flatMap fun p =>
    match p with
    | .ip c ex => ipBlockSet c ex
    | _ => []

end NetPol
end Netpol
