/-! Model of `github.com/np-guard/models/pkg/interval` (v0.5.2) as used by
`pkg/netpol/internal/common/portset.go`: `Interval` and `CanonicalSet`.

A `CanonicalSet` is a list of intervals, sorted, pairwise disjoint and non-touching.
The Go code locates the affected window with `sort.Search`; the model scans the sorted list
recursively (same result on canonical lists; that equality is a K-diff obligation). -/
namespace Netpol

structure Iv where
  lo : Int
  hi : Int
deriving Repr, DecidableEq, Inhabited

namespace Iv

/-- `interval.New`: an empty interval is normalised to `[0,-1]` -/
def new (s e : Int) : Iv := if e < s then ⟨0, -1⟩ else ⟨s, e⟩

def isEmpty (i : Iv) : Bool := i.hi < i.lo

def mem (i : Iv) (x : Int) : Prop := i.lo ≤ x ∧ x ≤ i.hi

instance (i : Iv) (x : Int) : Decidable (i.mem x) := by unfold mem; infer_instance

/-- `Interval.Overlap` -/
def overlap (i o : Iv) : Bool := if i.isEmpty then false else decide (o.hi ≥ i.lo ∧ o.lo ≤ i.hi)

/-- `Interval.IsSubset` -/
def isSubset (i o : Iv) : Bool := if i.isEmpty then true else decide (o.lo ≤ i.lo ∧ o.hi ≥ i.hi)

/-- `Interval.Intersect` -/
def inter (i o : Iv) : Iv := new (max i.lo o.lo) (min i.hi o.hi)

/-- `Interval.SubtractSplit` -/
def subtractSplit (i o : Iv) : List Iv :=
  if i.isEmpty then []
  else if o.isEmpty then [i]
  else if !(i.overlap o) then [i]
  else if i.isSubset o then []
  else if i.lo < o.lo ∧ i.hi > o.hi then [⟨i.lo, o.lo - 1⟩, ⟨o.hi + 1, i.hi⟩]
  else if i.lo < o.lo then [⟨i.lo, min i.hi (o.lo - 1)⟩]
  else [⟨max i.lo (o.hi + 1), i.hi⟩]

/-- `Interval.ShortString` -/
def shortString (i : Iv) : String :=
  if i.isEmpty then "" else if i.lo == i.hi then toString i.lo else toString i.lo ++ "-" ++ toString i.hi

end Iv

abbrev CSet := List Iv

namespace CSet

def memL (l : CSet) (x : Int) : Prop := ∃ i ∈ l, i.mem x

instance (l : CSet) (x : Int) : Decidable (memL l x) := by unfold memL; infer_instance

/-- sorted, disjoint, non-touching, non-empty intervals -/
def Canon (l : CSet) : Prop :=
  l.Pairwise (fun a b => a.hi + 1 < b.lo) ∧ ∀ a ∈ l, a.lo ≤ a.hi

instance (l : CSet) : Decidable (Canon l) := by unfold Canon; infer_instance

/-- the scan behind `CanonicalSet.AddInterval` (for a non-empty `v`) -/
def addIvNE (v : Iv) : CSet → CSet
  | [] => [v]
  | i :: rest =>
    if i.hi + 1 < v.lo then i :: addIvNE v rest
    else if v.hi + 1 < i.lo then v :: i :: rest
    else addIvNE ⟨min v.lo i.lo, max v.hi i.hi⟩ rest

/-- `CanonicalSet.AddInterval` -/
def addIv (v : Iv) (l : CSet) : CSet := if v.isEmpty then l else addIvNE v l

/-- `CanonicalSet.AddHole` -/
def addHole (h : Iv) (l : CSet) : CSet :=
  if h.isEmpty then l else l.flatMap (fun i => i.subtractSplit h)

/-- `CanonicalSet.Union` -/
def union (a b : CSet) : CSet := b.foldl (fun acc v => addIv v acc) a

/-- `CanonicalSet.Intersect` -/
def inter (a b : CSet) : CSet :=
  a.foldl (fun acc l => b.foldl (fun acc r => addIv (l.inter r) acc) acc) []

/-- `CanonicalSet.Subtract` -/
def subtract (a b : CSet) : CSet := b.foldl (fun acc h => addHole h acc) a

/-- one step of `IsSubset`: the first interval of `larger` whose end is ≥ `t.hi`;
returns the remaining suffix (starting at that interval) when it also starts at or before `t.lo` -/
def subsetStep (t : Iv) : CSet → Option CSet
  | [] => none
  | j :: rest => if j.hi ≥ t.hi then (if j.lo > t.lo then none else some (j :: rest)) else subsetStep t rest

/-- `CanonicalSet.IsSubset` -/
def isSubset : CSet → CSet → Bool
  | [], _ => true
  | t :: ts, larger =>
    match subsetStep t larger with
    | none => false
    | some larger' => isSubset ts larger'

/-- `CanonicalSet.Contains` -/
def contains (l : CSet) (n : Int) : Bool := isSubset [⟨n, n⟩] l

/-- `CanonicalSet.Equal` -/
def equal (a b : CSet) : Bool := decide (a = b)

/-- `CanonicalSet.String` -/
def toStr (l : CSet) : String :=
  if l.isEmpty then "Empty" else ",".intercalate (l.map Iv.shortString)

end CSet
end Netpol
