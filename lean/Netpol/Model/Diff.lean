import Netpol.Model.Engine
/-! Model of `pkg/netpol/diff/diff.go`: refinement of the two reports to common disjoint IP blocks,
the diff map, merging of IP blocks per (other peer, conn1, conn2), classification, new/lost flags. -/
namespace Netpol
namespace Diff
open Engine

/-- a `Peer2PeerConnection` as the diff sees it: the exported numeric view of the connection -/
structure P2P where
  src : LPeer
  dst : LPeer
  all : Bool
  ports : List (Proto × CSet)
deriving Repr, Inhabited

def ofEntry (e : Entry) : P2P := ⟨e.src, e.dst, e.conn.allowAll, e.conn.protocolsAndPorts⟩

/-- `GetConnectionSetFromP2PConnection(c).String()` -/
def P2P.connStr (p : P2P) : String := ConnSet.connStrFromProps p.all p.ports

def P2P.key (p : P2P) : String := p.src.str ++ ";" ++ p.dst.str

/-- `getIPblocksFromConnList`: the IP ranges occurring in the connections (deduplicated) -/
def ipBlocksOf (l : List P2P) : List Iv :=
  (l.flatMap fun p => (match p.src with | .ip r => [r] | _ => []) ++ (match p.dst with | .ip r => [r] | _ => [])).eraseDups

/-- `netset.DisjointIPBlocks(set1, set2)` by the boundary construction restricted to covered segments -/
def disjointBlocks (s1 s2 : List Iv) : List Iv :=
  let blocks := s1 ++ s2
  let pts := blocks.flatMap fun b => [b.lo, b.hi + 1]
  let sorted := (pts.mergeSort (· ≤ ·)).eraseDups
  (sorted.zip sorted.tail).filterMap fun (a, b) =>
    if a < b ∧ blocks.any (fun k => decide (k.lo ≤ a ∧ b - 1 ≤ k.hi)) then some ⟨a, b - 1⟩ else none

/-- `RefineConnListByDisjointPeers` -/
def refine (l : List P2P) (dis : List Iv) : List P2P :=
  l.flatMap fun p =>
    match p.src, p.dst with
    | .ip r, _ => (dis.filter fun d => decide (r.lo ≤ d.lo ∧ d.hi ≤ r.hi)).map fun d => { p with src := .ip d }
    | _, .ip r => (dis.filter fun d => decide (r.lo ≤ d.lo ∧ d.hi ≤ r.hi)).map fun d => { p with dst := .ip d }
    | _, _ => [p]

structure Pair where
  first : Option P2P := none
  second : Option P2P := none
deriving Repr, Inhabited

abbrev DMap := List (String × Pair)

def DMap.update (m : DMap) (key : String) (isFirst : Bool) (c : Option P2P) : DMap :=
  let upd (p : Pair) : Pair := if isFirst then { p with first := c } else { p with second := c }
  if m.any (·.1 == key) then m.map fun (k, p) => if k == key then (k, upd p) else (k, p)
  else m ++ [(key, upd {})]

def Pair.any (p : Pair) : Option P2P := p.first <|> p.second

/-- the grouping key of `addConnsPair`: other peer ; conn1 ; conn2 -/
def groupKey (p : Pair) (srcIsIP : Bool) : String :=
  match p.any with
  | none => ""
  | some x =>
    let other := if srcIsIP then x.dst.str else x.src.str
    other ++ ";" ++ (p.first.map (·.connStr)).getD "" ++ ";" ++ (p.second.map (·.connStr)).getD ""

/-- `MergePeerIPList`: union of the ranges, split into contiguous ranges -/
def mergeRanges (l : List Iv) : List Iv := l.foldl (fun acc r => CSet.addIv r acc) []

/-- `mergeBySrcOrDstIPPeers` for one direction -/
def mergeGroups (pairs : List Pair) (srcIsIP : Bool) (res : DMap) : DMap :=
  let keys := (pairs.map (groupKey · srcIsIP)).eraseDups
  keys.foldl (fun (res : DMap) k =>
    let grp := pairs.filter (fun p => groupKey p srcIsIP == k)
    match grp.head? with
    | none => res
    | some g0 =>
      let ranges := grp.filterMap fun p => match p.any with
        | some x => (match (if srcIsIP then x.src else x.dst) with | .ip r => some r | _ => none)
        | none => none
      (mergeRanges ranges).foldl (fun (res : DMap) r =>
        let mk (x : P2P) : P2P := if srcIsIP then { x with src := .ip r } else { x with dst := .ip r }
        let res := match g0.first with
          | some x => res.update (mk x).key true (some (mk x))
          | none => res
        match g0.second with
          | some x => res.update (mk x).key false (some (mk x))
          | none => res) res) res

/-- `mergeIPblocks` -/
def mergeIPblocks (m : DMap) : DMap :=
  let isIP (p : Pair) (src : Bool) : Bool := match p.any with
    | some x => if src then x.src.isIP else x.dst.isIP
    | none => false
  let plain := m.filter fun (_, p) => !isIP p true && !isIP p false
  let res : DMap := plain.foldl (fun res (k, p) => (res.update k true p.first).update k false p.second) []
  let dstIP := (m.filter fun (_, p) => isIP p false).map (·.2)
  let srcIP := (m.filter fun (_, p) => !isIP p false && isIP p true).map (·.2)
  mergeGroups srcIP true (mergeGroups dstIP false res)

structure DEntry where
  typ : String
  src : String
  dst : String
  c1 : String
  c2 : String
  newSrc : Bool
  newDst : Bool
deriving Repr, Inhabited

def isWorkloadAbsent (p : LPeer) (names : List String) : Bool :=
  match p with
  | .ip _ => false
  | .wl n pod => !(pod.fake && pod.name == "ingress-controller") && !names.contains n

def noConns : String := "No Connections"

/-- `diffConnectionsLists` -/
def diffLists (c1 c2 : List P2P) (peers1 peers2 : List String) : List DEntry :=
  let m : DMap := c2.foldl (fun m c => m.update c.key false (some c)) (c1.foldl (fun m c => m.update c.key true (some c)) [])
  (mergeIPblocks m).filterMap fun (_, d) =>
    match d.first, d.second with
    | some a, some b =>
      let eq := a.all == b.all && a.ports == b.ports
      some ⟨if eq then "unchanged" else "changed", a.src.str, a.dst.str, a.connStr, b.connStr, false, false⟩
    | some a, none => some ⟨"removed", a.src.str, a.dst.str, a.connStr, noConns, isWorkloadAbsent a.src peers2, isWorkloadAbsent a.dst peers2⟩
    | none, some b => some ⟨"added", b.src.str, b.dst.str, noConns, b.connStr, isWorkloadAbsent b.src peers1, isWorkloadAbsent b.dst peers1⟩
    | none, none => none

/-- `computeDiffFromConnlistResults` -/
def compute (e1 e2 : List Entry) (peers1 peers2 : List LPeer) : List DEntry :=
  let c1 := e1.map ofEntry
  let c2 := e2.map ofEntry
  let dis := disjointBlocks (ipBlocksOf c1) (ipBlocksOf c2)
  let names (l : List LPeer) := l.filterMap fun p => match p with | .wl n _ => some n | _ => none
  diffLists (refine c1 dis) (refine c2 dis) (names peers1) (names peers2)

end Diff
end Netpol
