import Netpol.Model.PortSet
/-! Model of `pkg/netpol/internal/common/connectionset.go`.
`AllowedProtocols map[v1.Protocol]*PortSet` is a total function `Proto → Option PortSet`
(three fields); every loop over the map treats each protocol independently, so the iteration
order is immaterial. -/
namespace Netpol

inductive Proto where
  | TCP | UDP | SCTP
deriving Repr, DecidableEq, Inhabited

namespace Proto
def toStr : Proto → String
  | TCP => "TCP" | UDP => "UDP" | SCTP => "SCTP"
instance : ToString Proto := ⟨toStr⟩
def ofStr? (s : String) : Option Proto :=
  if s == "TCP" then some TCP else if s == "UDP" then some UDP else if s == "SCTP" then some SCTP else none
/-- `strings.EqualFold` against the three protocol names -/
def ofStrFold? (s : String) : Option Proto := ofStr? s.toUpper
/-- `allProtocols` in the order of the Go slice -/
def all : List Proto := [TCP, UDP, SCTP]
end Proto

structure ConnSet where
  allowAll : Bool
  tcp : Option PortSet
  udp : Option PortSet
  sctp : Option PortSet
deriving Repr, DecidableEq, Inhabited

namespace ConnSet

def get (c : ConnSet) : Proto → Option PortSet
  | .TCP => c.tcp | .UDP => c.udp | .SCTP => c.sctp

def set (c : ConnSet) (pr : Proto) (v : Option PortSet) : ConnSet :=
  match pr with
  | .TCP => { c with tcp := v } | .UDP => { c with udp := v } | .SCTP => { c with sctp := v }

/-- apply `f` to every protocol entry independently (a `for … range conn.AllowedProtocols` loop) -/
def mapProtos (c : ConnSet) (f : Proto → Option PortSet → Option PortSet) : ConnSet :=
  { c with tcp := f .TCP c.tcp, udp := f .UDP c.udp, sctp := f .SCTP c.sctp }

def noProtos (c : ConnSet) : Bool := c.tcp.isNone && c.udp.isNone && c.sctp.isNone

/-- `MakeConnectionSet` -/
def mk' (all : Bool) : ConnSet := ⟨all, none, none, none⟩

/-- `ConnectionSet.IsEmpty` -/
def isEmpty (c : ConnSet) : Bool := !c.allowAll && c.noProtos

/-- `isAllConnectionsWithoutAllowAll` -/
def isAllWithoutAllowAll (c : ConnSet) : Bool :=
  if c.allowAll then false
  else Proto.all.all fun pr => match c.get pr with | none => false | some ps => ps.isAll

/-- `checkIfAllConnections` -/
def checkIfAll (c : ConnSet) : ConnSet := if c.isAllWithoutAllowAll then mk' true else c

/-- `ConnectionSet.addConnection` (no canonicalisation) -/
def addConnectionRaw (c : ConnSet) (pr : Proto) (ports : PortSet) : ConnSet :=
  if ports.isEmpty then c
  else match c.get pr with
    | some cur => c.set pr (some (cur.union ports))
    | none => c.set pr (some ports.copy)

/-- `ConnectionSet.AddConnection`: a no-op on the AllowAll form (`if conn.AllowAll { return }`:
All Connections already holds every connection, and no entry is stored next to the flag);
otherwise `addConnection` followed by `checkIfAllConnections` -/
def addConnection (c : ConnSet) (pr : Proto) (ports : PortSet) : ConnSet :=
  if c.allowAll then c else (c.addConnectionRaw pr ports).checkIfAll

/-- `GetAllTCPConnections` -/
def allTCP : ConnSet := (mk' false).addConnection .TCP (PortSet.mk' true)

/-- `ConnectionSet.Intersection` -/
def inter (c o : ConnSet) : ConnSet :=
  if o.allowAll then c
  else if c.allowAll then
    { allowAll := false, tcp := o.tcp <|> c.tcp, udp := o.udp <|> c.udp, sctp := o.sctp <|> c.sctp }
  else c.mapProtos fun pr cur =>
    match cur with
    | none => none
    | some ports =>
      match o.get pr with
      | none => none
      | some op => let r := ports.inter op; if r.isEmpty then none else some r

/-- `ConnectionSet.Union` -/
def union (c o : ConnSet) : ConnSet :=
  if c.allowAll || o.isEmpty then c
  else if o.allowAll then mk' true
  else (c.mapProtos fun pr cur =>
    match cur, o.get pr with
    | some ports, some op => some (ports.union op)
    | some ports, none => some ports
    | none, some op => some op.copy
    | none, none => none).checkIfAll

/-- `addAllConns` -/
def addAllConns (c : ConnSet) : ConnSet :=
  Proto.all.foldl (fun acc pr => acc.addConnectionRaw pr (PortSet.mk' true)) c

/-- `ConnectionSet.Subtract` -/
def subtract (c o : ConnSet) : ConnSet :=
  if o.isEmpty then c
  else if o.allowAll then mk' false
  else
    let c1 := if c.allowAll then ({ c with allowAll := false } : ConnSet).addAllConns else c
    c1.mapProtos fun pr cur =>
      match cur with
      | none => none
      | some ports =>
        match o.get pr with
        | none => some ports
        | some op => if ports.containedIn op then none else some (ports.subtract op)

/-- `ConnectionSet.Contains` after `strconv.Atoi` succeeded and `EqualFold` picked `pr` -/
def contains (c : ConnSet) (pr : Proto) (port : Int) : Bool :=
  c.allowAll || match c.get pr with | some ps => ps.contains port | none => false

/-- `ConnectionSet.Contains(port, protocol string)` -/
def containsStr (c : ConnSet) (port protocol : String) : Bool :=
  match port.toInt? with
  | none => false
  | some n =>
    if c.allowAll then true
    else match Proto.ofStrFold? protocol with
      | none => false
      | some pr => match c.get pr with | some ps => ps.contains n | none => false

/-- `ConnectionSet.ContainedIn` -/
def containedIn (c o : ConnSet) : Bool :=
  if o.allowAll then true
  else if c.allowAll then false
  else Proto.all.all fun pr =>
    match c.get pr with
    | none => true
    | some ports => match o.get pr with | none => false | some op => ports.containedIn op

def protoStr (pr : Proto) (ports : String) : String := pr.toStr ++ " " ++ ports

/-- `ConnectionSet.String` (`sort.Strings` of the per-protocol strings: SCTP < TCP < UDP) -/
def toStr (c : ConnSet) : String :=
  if c.allowAll then "All Connections"
  else if c.isEmpty then "No Connections"
  else ",".intercalate ([Proto.SCTP, Proto.TCP, Proto.UDP].filterMap fun pr =>
    (c.get pr).map fun ps => protoStr pr ps.toStr)

/-- `ConnectionSet.Equal` -/
def equal (c o : ConnSet) : Bool :=
  if c.allowAll != o.allowAll then false
  else Proto.all.all fun pr =>
    match c.get pr, o.get pr with
    | none, none => true
    | some a, some b => a.equal b
    | _, _ => false

/-- `ConnectionSet.Copy` -/
def copy (c : ConnSet) : ConnSet := c

/-- `ReplaceNamedPortWithMatchingPortNum`; the Go code dereferences the protocol entry without
a check: an absent entry is a nil-pointer panic, modelled as `none`. -/
def replaceNamedPort (c : ConnSet) (pr : Proto) (name : String) (num : Int) : Option ConnSet :=
  match c.get pr with
  | none => none
  | some ps =>
    let ps1 := if num != noPort then ps.addPort (.num num) else ps
    some (c.set pr (some { ps1 with named := serase name ps1.named }))

/-- `ProtocolsAndPortsMap`: per protocol the list of numeric ranges -/
def protocolsAndPorts (c : ConnSet) : List (Proto × CSet) :=
  [Proto.SCTP, Proto.TCP, Proto.UDP].filterMap fun pr => (c.get pr).map fun ps => (pr, ps.ports)

/-- `ConnStrFromConnProperties` on (`IsAllConnections`, `ProtocolsAndPortsMap`) -/
def connStrFromProps (all : Bool) (m : List (Proto × CSet)) : String :=
  if all then "All Connections"
  else if m.isEmpty then "No Connections"
  else ",".intercalate (m.map fun (pr, l) => protoStr pr (",".intercalate (l.map fun i =>
    if i.lo != i.hi then toString i.lo ++ "-" ++ toString i.hi else toString i.lo)))

end ConnSet
end Netpol
