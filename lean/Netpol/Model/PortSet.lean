import Netpol.Model.Interval
/-! Model of `pkg/netpol/internal/common/portset.go`.
A Go `map[string]bool` used as a set is a strictly sorted list of keys (canonical form, so that
`reflect.DeepEqual` on the maps is list equality). Methods that mutate their receiver return
the new value. -/
namespace Netpol

/-- sorted-set insert -/
def sinsert (s : String) : List String → List String
  | [] => [s]
  | x :: xs => if s < x then s :: x :: xs else if s = x then x :: xs else x :: sinsert s xs

def serase (s : String) (l : List String) : List String := l.filter (· ≠ s)

def minPort : Int := 1
def maxPort : Int := 65535
def noPort : Int := -1

structure PortSet where
  ports : CSet
  named : List String
  excluded : List String
deriving Repr, DecidableEq, Inhabited

/-- a port as `intstr.IntOrString` -/
inductive PortRef where
  | num : Int → PortRef
  | name : String → PortRef
deriving Repr, DecidableEq, Inhabited

namespace PortSet

/-- `MakePortSet` -/
def mk' (all : Bool) : PortSet :=
  if all then ⟨[⟨minPort, maxPort⟩], [], []⟩ else ⟨[], [], []⟩

/-- `PortSet.Equal` -/
def equal (p o : PortSet) : Bool := CSet.equal p.ports o.ports && decide (p.named = o.named) && decide (p.excluded = o.excluded)

/-- `PortSet.IsEmpty` -/
def isEmpty (p : PortSet) : Bool := p.ports.isEmpty && p.named.isEmpty

/-- `PortSet.Copy` -/
def copy (p : PortSet) : PortSet := p

/-- `PortSet.AddPort` -/
def addPort (p : PortSet) : PortRef → PortSet
  | .name s => { p with named := sinsert s p.named, excluded := serase s p.excluded }
  | .num n => { p with ports := CSet.addIv (Iv.new n n) p.ports }

/-- `PortSet.RemovePort` -/
def removePort (p : PortSet) : PortRef → PortSet
  | .name s => { p with named := serase s p.named, excluded := sinsert s p.excluded }
  | .num n => { p with ports := CSet.addHole (Iv.new n n) p.ports }

/-- `PortSet.AddPortRange` -/
def addPortRange (p : PortSet) (lo hi : Int) : PortSet := { p with ports := CSet.addIv (Iv.new lo hi) p.ports }

/-- `PortSet.Union` -/
def union (p o : PortSet) : PortSet :=
  let named := o.named.foldl (fun acc k => sinsert k acc) p.named
  let excl0 := o.named.foldl (fun acc k => serase k acc) p.excluded
  let excl := o.excluded.foldl (fun acc k => if named.contains k then acc else sinsert k acc) excl0
  ⟨CSet.union p.ports o.ports, named, excl⟩

/-- `PortSet.ContainedIn`: numeric inclusion, and every named port is held by `o` unless `o`
has the full port range -/
def containedIn (p o : PortSet) : Bool :=
  CSet.isSubset p.ports o.ports &&
    (CSet.equal o.ports [⟨minPort, maxPort⟩] || p.named.all (fun n => o.named.contains n))

/-- `PortSet.Intersection` (numeric ports only, as coded) -/
def inter (p o : PortSet) : PortSet := { p with ports := CSet.inter p.ports o.ports }

/-- `PortSet.IsAll`: the numeric ports are the full range and no named port is excluded. The named
ports held are ignored: the full range covers whatever number a name resolves to (as
`containedIn` already assumes). -/
def isAll (p : PortSet) : Bool := CSet.equal p.ports [⟨minPort, maxPort⟩] && p.excluded.isEmpty

/-- `PortSet.String` -/
def toStr (p : PortSet) : String :=
  let res := p.ports.toStr
  if p.named.isEmpty then res
  else (if res == "Empty" then "" else res ++ ",") ++ ",".intercalate p.named

/-- `PortSet.Contains` -/
def contains (p : PortSet) (n : Int) : Bool := p.ports.contains n

/-- `PortSet.subtract` -/
def subtract (p o : PortSet) : PortSet :=
  ⟨CSet.subtract p.ports o.ports,
   o.named.foldl (fun acc k => serase k acc) p.named,
   o.named.foldl (fun acc k => sinsert k acc) p.excluded⟩

end PortSet
end Netpol
