import Netpol.Model.WorldParse
import Netpol.Model.Engine
/-! Driver side of the world-level correspondence (`wcase` lines). -/
namespace Netpol
namespace WorldDriver
open Sexp

def us (s : String) : String := s.replace " " "_"

def errSx (e : Err) : Sexp := .list [.atom "err", .atom e.toStr]

def sortStrs (l : List String) : List String := l.mergeSort (· ≤ ·)

def entryLine (x : Engine.Entry) : String := x.src ++ " " ++ x.dst ++ " " ++ us x.conn.toStr

/-- `(list FOCUS|-)` → `(ok (peers …) (e SRC DST CONN)…)`; connections printed from
(`IsAllConnections`, `ProtocolsAndPortsMap`) as `Peer2PeerConnection` exposes them -/
def runList (objs : List Obj) (focus : String) : Sexp :=
  match Engine.build objs with
  | .error e => errSx e
  | .ok eng =>
    if eng.pods.isEmpty then .list [.atom "ok", .list [.atom "peers"]]
    else match eng.peersList with
      | .error e => errSx e
      | .ok peers =>
        let focusExists := focus == "" || peers.any (Engine.isFocus focus)
        if !focusExists then .list [.atom "ok", .atom "nofocus"]
        else match eng.connsBetweenPeers peers focus with
          | .error e => errSx e
          | .ok entries =>
            let lines := sortStrs (entries.map fun x =>
              x.src ++ " " ++ x.dst ++ " " ++ us (ConnSet.connStrFromProps x.conn.allowAll x.conn.protocolsAndPorts))
            .list ([.atom "ok", .list (.atom "peers" :: (sortStrs (peers.map (·.str))).map .atom)] ++
              lines.map fun l => .list (.atom "e" :: (l.splitOn " ").map .atom))

def runQuery (objs : List Obj) (q : Sexp) : Sexp :=
  match q with
  | .list [.atom "list", .atom f] => runList objs (if f == "-" then "" else f)
  | _ => .atom "bad-query"

/-- `(wcase ID (world …) QUERY…)` -/
def run (args : List Sexp) : Sexp :=
  match args with
  | id :: w :: qs =>
    match WorldParse.pWorld w with
    | none => .list [.atom "wcase", id, .atom "bad-world"]
    | some objs => .list (.atom "wcase" :: id :: qs.map (runQuery objs))
  | _ => .atom "bad-case"

end WorldDriver
end Netpol
