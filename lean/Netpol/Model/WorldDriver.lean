import Netpol.Model.WorldParse
import Netpol.Model.Engine
import Netpol.Model.Diff
import Netpol.Model.Ingress
import Netpol.Model.Cache
import Netpol.Model.Exposure
/-! Driver side of the world-level correspondence (`wcase` lines). -/
namespace Netpol
namespace WorldDriver
open Sexp

def us (s : String) : String := s.replace " " "_"

def errSx (e : Err) : Sexp := .list [.atom "err", .atom e.toStr]

def sortStrs (l : List String) : List String := l.mergeSort (· ≤ ·)


/-- `(list FOCUS|-)` → `(ok (peers …) (e SRC DST CONN)…)`; connections printed from
(`IsAllConnections`, `ProtocolsAndPortsMap`) as `Peer2PeerConnection` exposes them -/
def runList (objs : List Obj) (focus : String) : Sexp :=
  match Engine.build objs with
  | .error e => errSx e
  | .ok eng =>
    if eng.pods.isEmpty then .list [.atom "ok", .list [.atom "peers"]]
    else match eng.peersList, eng.podOwnersMap with
      | .error e, _ => errSx e
      | _, .error e => errSx e
      | .ok peers, .ok owners =>
        let hasIngress := (IngressA.allowedIngress objs owners).isSome
        let focusExists := focus == "" || (focus == "ingress-controller" && hasIngress) || peers.any (Engine.isFocus focus)
        if !focusExists then .list [.atom "ok", .atom "nofocus"]
        else match eng.connsBetweenPeers peers focus with
          | .error e => errSx e
          | .ok entries =>
            match IngressA.ingressEntries eng objs owners focus with
            | .error e => errSx e
            | .ok (ing, blocked) =>
              let lines := sortStrs ((entries ++ ing).map fun x =>
                x.src.str ++ " " ++ x.dst.str ++ " " ++ us (ConnSet.connStrFromProps x.conn.allowAll x.conn.protocolsAndPorts))
              .list ([.atom "ok", .list (.atom "peers" :: (sortStrs (peers.map (·.str))).map .atom)] ++
                (lines.map fun l => .list (.atom "e" :: (l.splitOn " ").map .atom)) ++
                (if blocked.isEmpty then [] else [.list (.atom "blocked" :: (sortStrs blocked).map .atom)]))

def probeIPs : List String :=
  ["0.0.0.0", "10.0.0.1", "10.1.2.3", "10.1.2.77", "10.128.0.1", "11.0.0.0", "128.0.0.1", "172.16.0.1", "192.168.0.5", "192.168.1.1", "255.255.255.255"]

def portPool : List Int := [1, 53, 79, 80, 81, 443, 1023, 1024, 8080, 9090, 65534, 65535]

def probePorts : List Int :=
  (((portPool.flatMap fun p => [p - 1, p, p + 1]).filter fun q => 1 ≤ q ∧ q ≤ 65535).mergeSort (· ≤ ·)).eraseDups

/-- `(evalall)`: CheckIfAllowed for every ordered pair of pods / probe addresses, protocol and probe port, on one
engine built like `list` builds it (so the verdict cache is exercised as well) -/
def runEvalAll (objs : List Obj) : Sexp :=
  match Engine.build objs with
  | .error e => errSx e
  | .ok eng =>
    let podKeys := sortStrs ((objs.filterMap fun o => match o with
      | .pod p => some (p.ns ++ "/" ++ p.name)
      | .wl w => some (w.ns ++ "/" ++ w.name ++ "-1")
      | _ => none).eraseDups)
    let peers := podKeys ++ probeIPs
    let isIP (s : String) : Bool := !EState.strContains s "/"
    -- the cache of a fresh engine: default capacity 500, owner bookkeeping from the inserted pods
    let s0 : EState := eng.pods.foldl (fun acc p => acc.cacheAddPod p) { eng := eng }
    let (bits, _) := peers.foldl (fun (acc : String × EState) s =>
      peers.foldl (fun (acc : String × EState) d =>
        if s == d || (isIP s && isIP d) then acc
        else ["TCP", "UDP", "SCTP"].foldl (fun (acc : String × EState) pr =>
          probePorts.foldl (fun (acc : String × EState) p =>
            let (r, st) := acc.2.checkIfAllowed s d pr (toString p)
            (acc.1 ++ (match r with | .ok true => "1" | .ok false => "0" | .error _ => "e"), st)) acc) acc) acc) ("", s0)
    .list [.atom "evalall", .atom bits]

def selSx (s : Option Selector) : Sexp :=
  let s := s.getD ⟨[], []⟩
  let ml := s.matchLabels.mergeSort (fun a b => a.1 ≤ b.1)
  -- the empty label value travels as `~` (an empty atom would vanish from the line)
  let tilde (v : String) : String := if v == "" then "~" else v
  .list [.atom "sel", .list (.atom "ml" :: ml.map fun (k, v) => .list [.atom k, .atom (tilde v)]),
    .list (.atom "me" :: s.exprs.map fun r => .list ([.atom r.key, .atom (match r.op with
      | .In => "In" | .NotIn => "NotIn" | .Exists => "Exists" | .DoesNotExist => "DoesNotExist")] ++ r.vals.map fun v => .atom (tilde v)))]

def xEntrySx (x : Exposure.XEntry) : Sexp :=
  .list [.atom "ent", .atom (if x.entireCluster then "ALL" else "SEL"), selSx (if x.entireCluster then none else x.nsSel),
    selSx (if x.entireCluster then none else x.podSel), .atom (us x.conn.toStr)]

def sortSx (l : List Sexp) : List Sexp := (l.map fun x => (toString x, x)).mergeSort (fun a b => a.1 ≤ b.1) |>.map (·.2)

/-- `(listx FOCUS|-)`: `list --exposure` — the base report and the exposed peers -/
def runListX (objs : List Obj) (focus : String) : Sexp :=
  match Exposure.build objs with
  | .error e => errSx e
  | .ok x =>
    let eng := x.eng
    if eng.pods.isEmpty then .list [.atom "ok", .list [.atom "peers"]]
    else match eng.peersList with
      | .error e => errSx e
      | .ok peers =>
        let focusExists := focus == "" || peers.any (Engine.isFocus focus)
        if !focusExists then .list [.atom "ok", .atom "nofocus"]
        else if Exposure.repNamespaceError x peers focus then errSx .missingNamespace
        else match Exposure.connsBetweenPeers eng peers focus, Exposure.exposedPeers x peers focus with
          | .error e, _ => errSx e
          | _, .error e => errSx e
          | .ok entries, .ok xs =>
            let lines := sortStrs (entries.map fun e =>
              e.src.str ++ " " ++ e.dst.str ++ " " ++ us (ConnSet.connStrFromProps e.conn.allowAll e.conn.protocolsAndPorts))
            .list ([.atom "ok", .list (.atom "peers" :: (sortStrs (peers.map (·.str))).map .atom)] ++
              (lines.map fun l => .list (.atom "e" :: (l.splitOn " ").map .atom)) ++
              sortSx (xs.map fun p => .list [.atom "x", .atom p.name,
                .list (.atom "ing" :: .atom (b01' p.ingProtected) :: sortSx (p.ing.map xEntrySx)),
                .list (.atom "eg" :: .atom (b01' p.egProtected) :: sortSx (p.eg.map xEntrySx))]))
where b01' (b : Bool) : String := if b then "1" else "0"

def runQuery (objs : List Obj) (q : Sexp) : Sexp :=
  match q with
  | .list [.atom "evalall"] => runEvalAll objs
  | .list [.atom "listx", .atom f] => runListX objs (if f == "-" then "" else f)
  | .list [.atom "list", .atom f] => runList objs (if f == "-" then "" else f)
  | _ => .atom "bad-query"

/-- `(wcase ID (world …) QUERY…)` -/
def run (args : List Sexp) : Sexp :=
  match args with
  | id :: w :: qs =>
    match WorldParse.pWorld w with
    | none => .list [.atom "wcase", id, .atom "bad-world"]
    | some objs => .list (.atom "wcase" :: id :: qs.map (runQuery objs))
  | _ => .atom "bad-case"

/-- `(wpair ID KIND (world A) (world B) …)` → the two list results -/
def runPair (args : List Sexp) : Sexp :=
  match args with
  | id :: _ :: wa :: wb :: _ =>
    match WorldParse.pWorld wa, WorldParse.pWorld wb with
    | some a, some b => .list [.atom "wpair", id, runList a "", runList b ""]
    | _, _ => .list [.atom "wpair", id, .atom "bad-world"]
  | id :: _ => .list [.atom "wpair", id, .atom "bad-case"]
  | _ => .atom "bad-case"

/-- the ingress-controller entries in a canonical order: by the name of the destination workload.
(In Go they come out of a map iteration, and every observable output sorts afterwards; the names
are distinct, one entry per workload.) -/
def sortIngress (ing : List Engine.Entry) : List Engine.Entry :=
  ing.mergeSort (fun a b => a.dst.str ≤ b.dst.str)

/-- the list analysis as the diff analyzer consumes it -/
def listFor (objs : List Obj) : Except Err (List Engine.Entry × List Engine.LPeer) :=
  match Engine.build objs with
  | .error e => .error e
  | .ok eng =>
    if eng.pods.isEmpty then .ok ([], [])
    else do
      let peers ← eng.peersList
      let owners ← eng.podOwnersMap
      let entries ← eng.connsBetweenPeers peers ""
      -- the lines of the ingress controller are part of the report the diff compares
      let (ing, _) ← IngressA.ingressEntries eng objs owners ""
      pure (entries ++ sortIngress ing, peers)

def b01 (b : Bool) : String := if b then "1" else "0"

def runDiff (a b : List Obj) : Sexp :=
  match listFor a with
  | .error e => errSx e
  | .ok (e1, p1) =>
    match listFor b with
    | .error e => errSx e
    | .ok (e2, p2) =>
      let lines := sortStrs ((Diff.compute e1 e2 p1 p2).map fun d =>
        " ".intercalate [d.typ, d.src, d.dst, us d.c1, us d.c2, b01 d.newSrc, b01 d.newDst])
      .list (.atom "ok" :: lines.map fun l => .list (.atom "d" :: (l.splitOn " ").map .atom))

/-- `(wdiff ID KIND (world A) (world B))` → list A, list B, diff -/
def runWDiff (args : List Sexp) : Sexp :=
  match args with
  | id :: _ :: wa :: wb :: _ =>
    match WorldParse.pWorld wa, WorldParse.pWorld wb with
    | some a, some b => .list [.atom "wdiff", id, runList a "", runList b "", runDiff a b]
    | _, _ => .list [.atom "wdiff", id, .atom "bad-world"]
  | id :: _ => .list [.atom "wdiff", id, .atom "bad-case"]
  | _ => .atom "bad-case"

end WorldDriver
end Netpol
