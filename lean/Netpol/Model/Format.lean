import Netpol.Model.WorldParse
import Netpol.Model.Engine
import Netpol.Model.Diff
import Netpol.Model.Ingress
import Netpol.Model.Exposure
import Netpol.Model.Pipeline
/-! Model of the output formatters, byte for byte.

* `pkg/netpol/connlist/conns_formatter*.go` (`ConnectionsListToString`: txt, json, csv, md, dot; without and with
  the exposure-analysis sections), `pkg/netpol/internal/dotformatting/dot_output_formatting.go`;
* `pkg/netpol/diff/diff_formatter*.go` (`ConnectivityDiffToString`: txt, csv, md, dot).

The first part is pure string processing over what the formatters read off their arguments (`PeerInfo`, `Conn`,
`DConn`); the second part (`report`, `diffConns`, `runWFmt`) feeds it with the results of the engine model.

Library behaviour that is modelled, not imported (third-party code the Go formatters call):
`fmt`'s `%q` (`goQuote`: exact on ASCII; every rune ≥ U+0080 is taken as printable), `encoding/json` string escaping
with HTML escaping (`jsonStr`), `encoding/csv` quoting (`csvField`), `sort.Strings` (`sortStrings`: any sort gives the
same list, the order is total and antisymmetric), `sort.Slice` with the key (src, dst, conn) (`sortRows`; the key is total on
rows, so the result does not depend on the sorting algorithm — see `Properties/C08/Format.lean`). -/
namespace Netpol
namespace Format

-- ------------------------------------------------------------------------------------------
-- helpers

def sortStrings (l : List String) : List String := l.mergeSort (fun a b => decide (a ≤ b))

/-- first occurrence per key (Go: a `visited` set keyed by `key`) -/
def dedupKey {α} (key : α → String) : List α → List α
  | [] => []
  | x :: xs => x :: (dedupKey key xs).filter (fun y => key y != key x)

def hexDigit (n : Nat) : Char := if n < 10 then Char.ofNat (48 + n) else Char.ofNat (87 + n)

/-- `strconv.Quote` of one rune (`%q`) -/
def quoteChar (c : Char) : List Char :=
  if c = '"' then ['\\', '"']
  else if c = '\\' then ['\\', '\\']
  else if c = '\x07' then ['\\', 'a']
  else if c = '\x08' then ['\\', 'b']
  else if c = '\x0c' then ['\\', 'f']
  else if c = '\n' then ['\\', 'n']
  else if c = '\r' then ['\\', 'r']
  else if c = '\t' then ['\\', 't']
  else if c = '\x0b' then ['\\', 'v']
  else if c.toNat < 32 ∨ c.toNat = 127 then ['\\', 'x', hexDigit (c.toNat / 16), hexDigit (c.toNat % 16)]
  else [c]

/-- `fmt.Sprintf("%q", s)` -/
def goQuote (s : String) : String := String.ofList ('"' :: s.toList.flatMap quoteChar ++ ['"'])

/-- `encoding/json` `appendString` with `escapeHTML` -/
def jsonChar (c : Char) : List Char :=
  if c = '"' then ['\\', '"']
  else if c = '\\' then ['\\', '\\']
  else if c = '\x08' then ['\\', 'b']
  else if c = '\x0c' then ['\\', 'f']
  else if c = '\n' then ['\\', 'n']
  else if c = '\r' then ['\\', 'r']
  else if c = '\t' then ['\\', 't']
  else if c.toNat < 32 ∨ c = '<' ∨ c = '>' ∨ c = '&' then
    ['\\', 'u', '0', '0', hexDigit (c.toNat / 16), hexDigit (c.toNat % 16)]
  else if c.toNat = 0x2028 then "\\u2028".toList
  else if c.toNat = 0x2029 then "\\u2029".toList
  else [c]

def jsonStr (s : String) : String := String.ofList ('"' :: s.toList.flatMap jsonChar ++ ['"'])

/-- `unicode.IsSpace` -/
def isGoSpace (c : Char) : Bool :=
  let n := c.toNat
  (9 ≤ n && n ≤ 13) || n == 32 || n == 0x85 || n == 0xA0 || n == 0x1680 || (0x2000 ≤ n && n ≤ 0x200a) ||
    n == 0x2028 || n == 0x2029 || n == 0x202f || n == 0x205f || n == 0x3000

/-- `csv.Writer.fieldNeedsQuotes` (Comma = ',') -/
def csvNeedsQuotes (f : String) : Bool :=
  if f == "" then false
  else if f == "\\." then true
  else f.toList.any (fun c => c == ',' || c == '"' || c == '\r' || c == '\n') ||
    (match f.toList.head? with | some c => isGoSpace c | none => false)

/-- one field as `csv.Writer.Write` emits it (`UseCRLF` false) -/
def csvField (f : String) : String :=
  if csvNeedsQuotes f then String.ofList ('"' :: f.toList.flatMap (fun c => if c = '"' then ['"', '"'] else [c]) ++ ['"'])
  else f

/-- `csv.Writer.Write` -/
def csvRecord (fs : List String) : String := ",".intercalate (fs.map csvField) ++ "\n"

/-- `strings.Split(s, string(c))` on the characters -/
def splitOnChar (c : Char) : List Char → List (List Char)
  | [] => [[]]
  | x :: xs =>
    if x = c then [] :: splitOnChar c xs
    else match splitOnChar c xs with
      | l :: ls => (x :: l) :: ls
      | [] => [[x]]

-- ------------------------------------------------------------------------------------------
-- what the formatters read

/-- the methods of `Peer` the formatters call -/
structure PeerInfo where
  str : String    -- `String()`
  name : String   -- `Name()`
  ns : String     -- `Namespace()`
  kind : String   -- `Kind()`
  isIP : Bool     -- `IsPeerIPType()`
deriving Repr, DecidableEq, Inhabited

/-- a `Peer2PeerConnection` as seen by the formatters; `conn` is `ConnStrFromConnProperties` of it -/
structure Conn where
  src : PeerInfo
  dst : PeerInfo
  conn : String
deriving Repr, DecidableEq, Inhabited

/-- `singleConnFields`: one row of the table every list format prints -/
structure Row where
  src : String
  dst : String
  conn : String
deriving Repr, DecidableEq, Inhabited

/-- `formSingleP2PConn` -/
def Conn.row (c : Conn) : Row := ⟨c.src.str, c.dst.str, c.conn⟩

-- ------------------------------------------------------------------------------------------
-- list: txt

/-- `singleConnFields.string` -/
def Row.txtLine (r : Row) : String := r.src ++ " => " ++ r.dst ++ " : " ++ r.conn

/-- `formatText.writeConnlistOutput`: the lines, `sort.Strings`, joined, one trailing newline -/
def listTxt (conns : List Conn) : String :=
  "\n".intercalate (sortStrings (conns.map fun c => c.row.txtLine)) ++ "\n"

-- ------------------------------------------------------------------------------------------
-- list: json, csv, md share the sorted rows

/-- `less` of `sortConnFields` (sortBySrc): source, then destination, then the connection string (the last component
makes the order total on rows; /repo commit 555098c — before it, rows with equal peers were left in an unspecified order) -/
def Row.less (a b : Row) : Bool :=
  if a.src != b.src then decide (a.src < b.src)
  else if a.dst != b.dst then decide (a.dst < b.dst)
  else decide (a.conn < b.conn)

/-- `sortConnFields(…, true)` (`sort.Slice`: any sort gives the same list, the order is total and antisymmetric) -/
def sortRows (l : List Row) : List Row := l.mergeSort (fun a b => !(Row.less b a))

/-- `getConnlistAsSortedSingleConnFieldsArray` -/
def table (conns : List Conn) : List Row := sortRows (conns.map Conn.row)

/-- one element of the array under `json.MarshalIndent(…, "", "  ")` -/
def Row.json (r : Row) : String :=
  "  {\n    \"src\": " ++ jsonStr r.src ++ ",\n    \"dst\": " ++ jsonStr r.dst ++ ",\n    \"conn\": " ++ jsonStr r.conn ++ "\n  }"

def renderJson (rows : List Row) : String :=
  if rows.isEmpty then "[]" else "[\n" ++ ",\n".intercalate (rows.map Row.json) ++ "\n]"

def listJson (conns : List Conn) : String := renderJson (table conns)

def Row.csv (r : Row) : String := csvRecord [r.src, r.dst, r.conn]

def renderCsv (rows : List Row) : String := String.join (csvRecord ["src", "dst", "conn"] :: rows.map Row.csv)

def listCsv (conns : List Conn) : String := renderCsv (table conns)

/-- `getMDLine` -/
def Row.md (r : Row) : String := "| " ++ r.src ++ " | " ++ r.dst ++ " | " ++ r.conn ++ " |"

/-- `getMDHeader(true)` -/
def mdHeader : String := "| src | dst | conn |\n|-----|-----|------|"

def renderMd (rows : List Row) : String := "\n".intercalate (mdHeader :: rows.map Row.md) ++ "\n"

def listMd (conns : List Conn) : String := renderMd (table conns)

-- ------------------------------------------------------------------------------------------
-- dot (shared with the diff)

/-- `common.IngressPodString`: the string of the peer of the pod the analysis adds for Ingress / Route objects -/
def ingressPodString : String := "{ingress-controller}"

/-- `dotformatting.GetEdgeLine` -/
def edgeLine (src dst label color fontColor : String) : String :=
  "\t" ++ goQuote src ++ " -> " ++ goQuote dst ++ " [label=" ++ goQuote label ++ " color=" ++ goQuote color ++
    " fontcolor=" ++ goQuote fontColor ++ " weight=" ++ (if src ≤ dst then "0.5" else "1") ++ "]"

/-- a peer line `\t%q [label=%q color=%q fontcolor=%q]` -/
def nodeLine (str label color : String) : String :=
  "\t" ++ goQuote str ++ " [label=" ++ goQuote label ++ " color=" ++ goQuote color ++ " fontcolor=" ++ goQuote color ++ "]"

/-- not drawn inside a namespace cluster: IP blocks and the ingress-controller peer the analysis adds (recognised by its
peer string; a workload of the input named `ingress-controller` is `namespace/ingress-controller[Kind]`) -/
def PeerInfo.external (p : PeerInfo) : Bool := p.isIP || p.str == ingressPodString

/-- `peerNameAndColorByType` / `getNodePeerLabelAndType`: the node label -/
def PeerInfo.label (p : PeerInfo) : String := if p.external then p.str else p.name ++ "[" ++ p.kind ++ "]"

/-- `dotformatting.AddNsGroups` on the map built by `AddPeerToNsGroup` from (namespace, peer line) pairs
(`strings.ReplaceAll(ns, "-", "_")` is the character map) -/
def nsGroups (members : List (String × String)) (color : String) : List String :=
  (sortStrings (dedupKey id (members.map (·.1)))).flatMap fun ns =>
    ["\tsubgraph \"cluster_" ++ ns.map (fun c => if c = '-' then '_' else c) ++ "\" {", "\t\tcolor=" ++ goQuote color, "\t\tfontcolor=" ++ goQuote color] ++
    sortStrings ((members.filter (·.1 == ns)).map fun m => "\t" ++ m.2) ++
    ["\t\tlabel=\"" ++ ns ++ "\"", "\t}"]

-- ------------------------------------------------------------------------------------------
-- list: dot

def PeerInfo.listColor (p : PeerInfo) : String := if p.isIP then "red2" else "blue"

/-- `getPeerLine` (connlist) -/
def PeerInfo.listLine (p : PeerInfo) : String := nodeLine p.str p.label p.listColor

def Row.dotEdge (r : Row) : String := edgeLine r.src r.dst r.conn "gold2" "darkgreen"

/-- the peers in the order `addConnlistOutputData` visits them, first visit per `String()` -/
def listVisited (conns : List Conn) (peers : List PeerInfo) : List PeerInfo :=
  dedupKey (·.str) (conns.flatMap (fun c => [c.src, c.dst]) ++ peers.filter (!·.isIP))

/-- the lines before the edges -/
def listNodeLines (conns : List Conn) (peers : List PeerInfo) : List String :=
  let v := listVisited conns peers
  nsGroups ((v.filter (!·.external)).map fun p => (p.ns, p.listLine)) "black" ++
    sortStrings ((v.filter (·.external)).map (·.listLine))

/-- `formatDOT.writeOutput` without exposure results -/
def listDot (conns : List Conn) (peers : List PeerInfo) : String :=
  "\n".intercalate (["digraph {"] ++ listNodeLines conns peers ++ sortStrings (conns.map fun c => c.row.dotEdge) ++ ["}"])

-- ------------------------------------------------------------------------------------------
-- diff

/-- a `SrcDstDiff` as seen by the formatters; `c1`, `c2` are the strings of `getDirsConnsStrings` -/
structure DConn where
  typ : String
  src : PeerInfo
  dst : PeerInfo
  c1 : String
  c2 : String
  newSrc : Bool
  newDst : Bool
deriving Repr, DecidableEq, Inhabited

/-- `singleDiffFields` -/
structure DRow where
  typ : String
  src : String
  dst : String
  c1 : String
  c2 : String
  info : String
deriving Repr, DecidableEq, Inhabited

/-- `getDiffInfo` -/
def DConn.info (d : DConn) : String :=
  if d.newSrc || d.newDst then
    "workload " ++ (if d.newSrc then d.src.str else "") ++ (if d.newSrc && d.newDst then " and " else "") ++
      (if d.newDst then d.dst.str else "") ++ " " ++ d.typ
  else ""

def DConn.row (d : DConn) : DRow := ⟨d.typ, d.src.str, d.dst.str, d.c1, d.c2, d.info⟩

/-- `isIngressControllerPeer(c.Src())` -/
def DConn.isIngress (d : DConn) : Bool := d.src.str == ingressPodString

/-- one block of `writeDiffLinesOrderedByCategory`: the entries of a category and kind, as lines, `sort.Strings` -/
def diffPart (line : DRow → String) (ds : List DConn) (ing : Bool) (typ : String) : List String :=
  sortStrings ((ds.filter fun d => d.typ == typ && d.isIngress == ing).map fun d => line d.row)

/-- `writeDiffLinesOrderedByCategory` -/
def diffLines (line : DRow → String) (ds : List DConn) : List String :=
  diffPart line ds false "changed" ++ diffPart line ds false "added" ++ diffPart line ds false "removed" ++
  diffPart line ds true "changed" ++ diffPart line ds true "added" ++ diffPart line ds true "removed"

/-- `diffFormatText.singleDiffLine` -/
def DRow.txtLine (ref1 ref2 : String) (r : DRow) : String :=
  "diff-type: " ++ r.typ ++ ", source: " ++ r.src ++ ", destination: " ++ r.dst ++ ", " ++ ref1 ++ ": " ++ r.c1 ++ ", " ++
    ref2 ++ ": " ++ r.c2 ++ (if r.info != "" then ", workloads-diff-info: " ++ r.info else "")

def diffTxt (ref1 ref2 : String) (ds : List DConn) : String :=
  "\n".intercalate ("Connectivity diff:" :: diffLines (DRow.txtLine ref1 ref2) ds) ++ "\n"

/-- `diffFormatMD.singleDiffLine` -/
def DRow.mdLine (r : DRow) : String :=
  "| " ++ r.typ ++ " | " ++ r.src ++ " | " ++ r.dst ++ " | " ++ r.c1 ++ " | " ++ r.c2 ++ " | " ++ r.info ++ " |"

def diffMdHeader (ref1 ref2 : String) : String :=
  "| diff-type | source | destination | " ++ ref1 ++ " | " ++ ref2 ++ " | workloads-diff-info |\n" ++
  "|-----------|--------|-------------|------|------|---------------------|"

def diffMd (ref1 ref2 : String) (ds : List DConn) : String :=
  "\n".intercalate (diffMdHeader ref1 ref2 :: diffLines DRow.mdLine ds)

/-- `diffFormatCSV.singleDiffLine` -/
def DRow.csvLine (r : DRow) : String := ";".intercalate [r.typ, r.src, r.dst, r.c1, r.c2, r.info]

/-- the record written for one line: `strings.Split(line, ";")` -/
def csvOfLine (l : String) : String := csvRecord ((splitOnChar ';' l.toList).map String.ofList)

def diffCsv (ref1 ref2 : String) (ds : List DConn) : String :=
  String.join (csvRecord ["diff-type", "source", "destination", ref1, ref2, "workloads-diff-info"] ::
    (diffLines DRow.csvLine ds).map csvOfLine)

/-- `getPeerLine` (diff): colour of a peer at its first visit -/
def diffNodeColor (typ : String) (isNewOrLost : Bool) : String :=
  if isNewOrLost then (if typ == "added" then "#008000" else if typ == "removed" then "red" else "blue") else "blue"

/-- `diffFormatDOT.addEdgesLines` -/
def DConn.dotEdge (ref1 : String) (d : DConn) : String :=
  if d.typ == "unchanged" then edgeLine d.src.str d.dst.str d.c1 "grey" "grey"
  else if d.typ == "changed" then edgeLine d.src.str d.dst.str (d.c2 ++ " (" ++ ref1 ++ ": " ++ d.c1 ++ ")") "magenta" "magenta"
  else if d.typ == "removed" then edgeLine d.src.str d.dst.str d.c1 "red2" "red2"
  else if d.typ == "added" then edgeLine d.src.str d.dst.str d.c2 "#008000" "#008000"
  else ""

/-- `addLegend` (constant) -/
def legend : List String :=
  ["\tnodesep=0.5", "\tsubgraph cluster_legend {", "\t\tlabel=\"Legend\"", "\t\tfontsize = 10", "\t\tmargin=0"] ++
  (["a", "b", "c", "d", "e", "f", "g", "h"].map fun v => "\t\t" ++ v ++ " [style=invis height=0 width=0]") ++
  ["\t\t{rank=source a b c d}", "\t\t{rank=same e f g h}"] ++
  ([("a", "b", "added connection", "#008000"), ("c", "d", "removed connection", "red2"),
    ("e", "f", "changed connection", "magenta"), ("g", "h", "unchanged connection", "grey")].map fun (s, d, l, c) =>
    "\t\t" ++ s ++ " -> " ++ d ++ " [label=" ++ goQuote l ++ ", color=" ++ goQuote c ++ " fontcolor=" ++ goQuote c ++
      " fontsize = 10 arrowsize=0.2]") ++
  ([("np", "new peer", "#008000"), ("lp", "lost peer", "red"), ("pp", "persistent peer", "blue")].map fun (n, l, c) =>
    "\t\t" ++ n ++ " [label=" ++ goQuote l ++ " color=" ++ goQuote c ++ " fontcolor=" ++ goQuote c ++ " fontsize = 10]") ++
  ["\t\t{rank=sink np lp pp}", "\t\tnp->lp [style=invis]", "\t\tlp->pp [style=invis]", "\t}"]

/-- the entries in the order the dot formatter walks them: unchanged, changed, added, removed -/
def diffDotSeq (ds : List DConn) : List DConn :=
  ["unchanged", "changed", "added", "removed"].flatMap fun t => ds.filter (·.typ == t)

/-- a visited peer with its colour at that visit -/
def diffVisited (ds : List DConn) : List (PeerInfo × String) :=
  dedupKey (·.1.str) ((diffDotSeq ds).flatMap fun d => [(d.src, diffNodeColor d.typ d.newSrc), (d.dst, diffNodeColor d.typ d.newDst)])

def diffNodeLine (v : PeerInfo × String) : String := nodeLine v.1.str v.1.label v.2

def diffNodeLines (ds : List DConn) : List String :=
  let v := diffVisited ds
  nsGroups ((v.filter (!·.1.external)).map fun p => (p.1.ns, diffNodeLine p)) "black" ++
    sortStrings ((v.filter (·.1.external)).map diffNodeLine)

/-- `diffFormatDOT.writeDiffOutput` -/
def diffDot (ref1 : String) (ds : List DConn) : String :=
  let seq := diffDotSeq ds
  "\n".intercalate (["digraph {"] ++ diffNodeLines ds ++
    sortStrings ((seq.filter (!·.isIngress)).map (DConn.dotEdge ref1)) ++
    sortStrings ((seq.filter (·.isIngress)).map (DConn.dotEdge ref1)) ++ legend ++ ["}"])

/-- `connectivityDiff.IsEmpty` -/
def diffIsEmpty (ds : List DConn) : Bool := !ds.any fun d => d.typ == "changed" || d.typ == "added" || d.typ == "removed"

/-- `ConnectivityDiffToString` for the format names of `ValidDiffFormats` -/
def diffToString (format ref1 ref2 : String) (ds : List DConn) : String :=
  if diffIsEmpty ds then ""
  else if format == "csv" then diffCsv ref1 ref2 ds
  else if format == "md" then diffMd ref1 ref2 ds
  else if format == "dot" then diffDot ref1 ds
  else diffTxt ref1 ref2 ds

/-- `ConnectionsListToString` for the format names of `ValidFormats`, without exposure analysis -/
def listToString (format : String) (conns : List Conn) (dotPeers : List PeerInfo) : String :=
  if format == "json" then listJson conns
  else if format == "csv" then listCsv conns
  else if format == "md" then listMd conns
  else if format == "dot" then listDot conns dotPeers
  else listTxt conns

-- ------------------------------------------------------------------------------------------
-- list with exposure analysis (`--exposure`)

/-- an `XgressExposureData` as seen by the formatters; `conn` is `ConnectionSet.String()` -/
structure XData where
  entireCluster : Bool
  nsSel : Option Selector
  podSel : Option Selector
  conn : String
deriving Repr, Inhabited

/-- an `ExposedPeer` -/
structure XPeerF where
  peer : PeerInfo
  ingProtected : Bool
  ing : List XData
  egProtected : Bool
  eg : List XData
deriving Repr, Inhabited

/-- `LabelSelectorRequirement.String()` without its `&LabelSelectorRequirement` prefix -/
def reqString (r : Req) : String :=
  "{Key:" ++ r.key ++ ",Operator:" ++
    (match r.op with | .In => "In" | .NotIn => "NotIn" | .Exists => "Exists" | .DoesNotExist => "DoesNotExist") ++
    ",Values:[" ++ " ".intercalate r.vals ++ "],}"

/-- `writeLabelSelectorAsString` -/
def selString (s : Selector) : String :=
  let ml := ",".intercalate ((s.matchLabels.mergeSort (fun a b => decide (a.1 ≤ b.1))).map fun kv => kv.1 ++ "=" ++ kv.2)
  let me := ",".intercalate (sortStrings (s.exprs.map reqString))
  if s.matchLabels.isEmpty then me else if s.exprs.isEmpty then ml else ml ++ "," ++ me

def bracket (txt : Bool) (s : String) : String := if txt then "[" ++ s ++ "]" else s

/-- `getRepresentativeNamespaceString` -/
def repNsString (s : Option Selector) (txt : Bool) : String :=
  let sel := s.getD ⟨[], []⟩
  match sel.matchLabels, sel.exprs with
  | [(k, v)], [] => if k == nsNameLabelKey then v else bracket txt ("namespace with {" ++ selString sel ++ "}")
  | [], [] => bracket txt "all namespaces"
  | _, _ => bracket txt ("namespace with {" ++ selString sel ++ "}")

/-- `getRepresentativePodString` -/
def repPodString (s : Option Selector) (txt : Bool) : String :=
  let sel := s.getD ⟨[], []⟩
  if sel.isEmpty then bracket txt "all pods" else bracket txt ("pod with {" ++ selString sel ++ "}")

/-- `formExposureItemAsSingleConnFiled` -/
def xItemRow (peer : String) (isIngress : Bool) (x : XData) : Row :=
  let rep := if x.entireCluster then "entire-cluster" else repNsString x.nsSel true ++ "/" ++ repPodString x.podSel true
  if isIngress then ⟨rep, peer, x.conn⟩ else ⟨peer, rep, x.conn⟩

/-- `getXgressExposureConnsAsSingleConnFieldsArray` over all exposed peers: the exposure rows of a direction, with the
connections to / from IP blocks of the report (`ipMaps`) -/
def xRows (conns : List Conn) (xs : List XPeerF) (isIngress : Bool) : List Row :=
  xs.flatMap fun p =>
    let prot := if isIngress then p.ingProtected else p.egProtected
    (if !prot then [xItemRow p.peer.str isIngress ⟨true, none, none, "All Connections"⟩]
     else (if isIngress then p.ing else p.eg).map (xItemRow p.peer.str isIngress)) ++
    (conns.filter fun c => if isIngress then c.src.isIP && c.dst.str == p.peer.str else c.dst.isIP && c.src.str == p.peer.str).map Conn.row

/-- `less` of `sortConnFields` sorting by dst -/
def Row.lessByDst (a b : Row) : Bool :=
  if a.dst != b.dst then decide (a.dst < b.dst)
  else if a.src != b.src then decide (a.src < b.src)
  else decide (a.conn < b.conn)

def sortRowsByDst (l : List Row) : List Row := l.mergeSort (fun a b => !(Row.lessByDst b a))

def egressRows (conns : List Conn) (xs : List XPeerF) : List Row := sortRows (xRows conns xs false)
def ingressRows (conns : List Conn) (xs : List XPeerF) : List Row := sortRowsByDst (xRows conns xs true)

def unprotectedLines (xs : List XPeerF) : List String :=
  sortStrings (xs.flatMap fun p =>
    (if !p.ingProtected then [p.peer.str ++ " is not protected on Ingress"] else []) ++
    (if !p.egProtected then [p.peer.str ++ " is not protected on Egress"] else []))

/-- `writeExposureSubSection` -/
def subSection (lines : List String) (header : String) : String :=
  if lines.isEmpty then "" else header ++ "\n".intercalate lines ++ "\n"

/-- `%-Ns` -/
def padRight (s : String) (n : Nat) : String := s ++ String.ofList (List.replicate (n - s.length) ' ')

/-- `formatText.writeOutput` with exposure results -/
def listTxtX (conns : List Conn) (xs : List XPeerF) : String :=
  let res := listTxt conns
  let res := if res != "" && res != "\n" then res ++ "\n" else res
  let maxLen := xs.foldl (fun m p => max m p.peer.str.utf8ByteSize) 0
  let eg := egressRows conns xs
  let egLines := eg.map fun r => padRight r.src maxLen ++ " \t=> \t" ++ r.dst ++ " : " ++ r.conn
  let ingLines := (ingressRows conns xs).map fun r => padRight r.dst maxLen ++ " \t<= \t" ++ r.src ++ " : " ++ r.conn
  res ++ "Exposure Analysis Result:\n" ++ subSection egLines "Egress Exposure:\n" ++
    subSection ingLines ((if eg.isEmpty then "" else "\n") ++ "Ingress Exposure:\n") ++
    subSection (unprotectedLines xs) "\nWorkloads not protected by network policies:\n"

def spaces (n : Nat) : String := String.ofList (List.replicate n ' ')

/-- an array of rows under `json.MarshalIndent(…, "", "  ")` whose elements are at nesting depth `d`; `nil` is `null` -/
def jsonRows (d : Nat) (rows : List Row) (isNil : Bool) : String :=
  if isNil then "null"
  else if rows.isEmpty then "[]"
  else "[\n" ++ ",\n".intercalate (rows.map fun r =>
      spaces (2 * d) ++ "{\n" ++ spaces (2 * d + 2) ++ "\"src\": " ++ jsonStr r.src ++ ",\n" ++ spaces (2 * d + 2) ++ "\"dst\": " ++
        jsonStr r.dst ++ ",\n" ++ spaces (2 * d + 2) ++ "\"conn\": " ++ jsonStr r.conn ++ "\n" ++ spaces (2 * d) ++ "}") ++
    "\n" ++ spaces (2 * d - 2) ++ "]"

/-- `formatJSON.writeOutput` with exposure results -/
def listJsonX (conns : List Conn) (xs : List XPeerF) : String :=
  let eg := egressRows conns xs
  let ing := ingressRows conns xs
  "{\n  \"connlist_results\": " ++ jsonRows 2 (table conns) false ++ ",\n  \"exposure_results\": {\n    \"egress_exposure\": " ++
    jsonRows 3 eg eg.isEmpty ++ ",\n    \"ingress_exposure\": " ++ jsonRows 3 ing ing.isEmpty ++ "\n  }\n}"

/-- `formatCSV.writeOutput` with exposure results -/
def listCsvX (conns : List Conn) (xs : List XPeerF) : String :=
  let eg := egressRows conns xs
  let ing := ingressRows conns xs
  renderCsv (table conns) ++ csvRecord ["Exposure Analysis Result:", "", ""] ++
    (if eg.isEmpty then "" else String.join (csvRecord ["Egress Exposure:", "", ""] :: csvRecord ["src", "dst", "conn"] :: eg.map Row.csv)) ++
    (if ing.isEmpty then "" else String.join (csvRecord ["Ingress Exposure:", "", ""] :: csvRecord ["dst", "src", "conn"] ::
      ing.map fun r => csvRecord [r.dst, r.src, r.conn]))

/-- `formatMD.writeOutput` with exposure results -/
def listMdX (conns : List Conn) (xs : List XPeerF) : String :=
  let eg := (egressRows conns xs).map Row.md
  let ing := (ingressRows conns xs).map fun r => "| " ++ r.dst ++ " | " ++ r.src ++ " | " ++ r.conn ++ " |"
  "\n".intercalate ((mdHeader :: (table conns).map Row.md) ++ ["## Exposure Analysis Result:",
    subSection eg ("### Egress Exposure:\n" ++ mdHeader ++ "\n"),
    subSection ing ("### Ingress Exposure:\n| dst | src | conn |\n|-----|-----|------|\n")])

/-- `getExposureEdgeLine` -/
def xEdgeLine (real rep conn : String) (isIngress : Bool) : String :=
  if isIngress then
    "\t" ++ goQuote rep ++ " -> " ++ goQuote real ++ " [label=" ++ goQuote conn ++ " color=" ++ goQuote "darkorange2" ++
      " fontcolor=" ++ goQuote "darkgreen" ++ " weight=1 style=dashed]"
  else
    "\t" ++ goQuote real ++ " -> " ++ goQuote rep ++ " [label=" ++ goQuote conn ++ " color=" ++ goQuote "darkorange4" ++
      " fontcolor=" ++ goQuote "darkgreen" ++ " weight=0.5 style=dashed]"

/-- state of `addExposureOutputData` -/
structure XDotState where
  nsMembers : List (String × String)      -- `nsPeers`
  repMembers : List (String × String) := []  -- `nsRepPeers`
  repVisited : List String := []
  edges : List String := []

/-- `getXgressExposureEdges` -/
def xDotEdges (st : XDotState) (peer : String) (prot : Bool) (items : List XData) (isIngress : Bool) : XDotState :=
  if !prot then
    { st with repVisited := st.repVisited ++ ["entire-cluster"], edges := st.edges ++ [xEdgeLine peer "entire-cluster" "All Connections" isIngress] }
  else items.foldl (fun (st : XDotState) x =>
    if x.entireCluster then
      { st with repVisited := st.repVisited ++ ["entire-cluster"], edges := st.edges ++ [xEdgeLine peer "entire-cluster" x.conn isIngress] }
    else
      let nsLabel := repNsString x.nsSel false
      let podLabel := repPodString x.podSel false
      let repStr := podLabel ++ "_in_" ++ nsLabel
      let st :=
        if st.repVisited.contains repStr then st
        else
          let line := nodeLine repStr podLabel "red2"
          if st.nsMembers.any (·.1 == nsLabel) then { st with repVisited := st.repVisited ++ [repStr], nsMembers := st.nsMembers ++ [(nsLabel, line)] }
          else { st with repVisited := st.repVisited ++ [repStr], repMembers := st.repMembers ++ [(nsLabel, line)] }
      { st with edges := st.edges ++ [xEdgeLine peer repStr x.conn isIngress] }) st

/-- `formatDOT.writeOutput` with exposure results -/
def listDotX (conns : List Conn) (peers : List PeerInfo) (xs : List XPeerF) : String :=
  let v := listVisited conns peers
  let st0 : XDotState := { nsMembers := (v.filter (!·.external)).map fun p => (p.ns, p.listLine) }
  let st := xs.foldl (fun (st : XDotState) p =>
    let st := if v.any (·.str == p.peer.str) then st else { st with nsMembers := st.nsMembers ++ [(p.peer.ns, p.peer.listLine)] }
    let st := xDotEdges st p.peer.str p.ingProtected p.ing true
    xDotEdges st p.peer.str p.egProtected p.eg false) st0
  let ext := (v.filter (·.external)).map (·.listLine) ++
    (if st.repVisited.contains "entire-cluster" then
      ["\t" ++ goQuote "entire-cluster" ++ " [label=" ++ goQuote "entire-cluster" ++ " color=" ++ goQuote "red2" ++ " fontcolor=" ++
        goQuote "red2" ++ " shape=diamond]"] else [])
  "\n".intercalate (["digraph {"] ++ nsGroups st.nsMembers "black" ++ nsGroups st.repMembers "red2" ++ sortStrings ext ++
    sortStrings ((conns.map fun c => c.row.dotEdge) ++ st.edges) ++ ["}"])

/-- `ConnectionsListToString` with exposure analysis -/
def listToStringX (format : String) (conns : List Conn) (dotPeers : List PeerInfo) (xs : List XPeerF) : String :=
  if format == "json" then listJsonX conns xs
  else if format == "csv" then listCsvX conns xs
  else if format == "md" then listMdX conns xs
  else if format == "dot" then listDotX conns dotPeers xs
  else listTxtX conns xs

-- ------------------------------------------------------------------------------------------
-- from the engine model to the formatters' arguments

open Engine

/-- `WorkloadPeer.Name` -/
def podPeerName (p : Pod) : String := if p.ownerName == "" then p.name else p.ownerName

/-- `WorkloadPeer.Kind` (no representative peers without exposure analysis) -/
def podPeerKind (p : Pod) : String := if p.ownerKind == "" then "Pod" else p.ownerKind

def PeerInfo.ofLPeer : LPeer → PeerInfo
  | .ip r => ⟨(LPeer.ip r).str, "", "", "", true⟩
  | .wl n p => ⟨n, podPeerName p, p.ns, podPeerKind p, false⟩

def Conn.ofEntry (e : Entry) : Conn :=
  ⟨.ofLPeer e.src, .ofLPeer e.dst, ConnSet.connStrFromProps e.conn.allowAll e.conn.protocolsAndPorts⟩

/-- what `ConnlistFromDirPath` leaves behind: the connections, the returned peers and `ca.peersList` -/
structure Report where
  entries : List Entry := []
  peers : List LPeer := []
  dotPeers : List LPeer := []
deriving Inhabited

/-- `getConnectionsList` (as `WorldDriver.runList` drives the model), keeping the peers -/
def report (objs : List Obj) (focus : String) (stop : Bool := false) : Except Err Report :=
  -- `stopProcessing`: with stop-on-error the severe "no workload resources" error ends the run with an empty result
  if stop && !Pipeline.hasWorkload objs then .ok {} else
  match Engine.build objs with
  | .error e => .error e
  | .ok eng =>
    if eng.pods.isEmpty then .ok {}
    else match eng.peersList, eng.podOwnersMap with
      | .error e, _ => .error e
      | _, .error e => .error e
      | .ok peers, .ok owners =>
        let hasIngress := (IngressA.allowedIngress objs owners).isSome
        let focusExists := focus == "" || (focus == "ingress-controller" && hasIngress) || peers.any (Engine.isFocus focus)
        let dotPeers := peers.filter (Engine.isFocus focus)
        if !focusExists then .ok { dotPeers := dotPeers }
        else match eng.connsBetweenPeers peers focus with
          | .error e => .error e
          | .ok entries =>
            match IngressA.ingressEntries eng objs owners focus with
            | .error e => .error e
            | .ok (ing, _) => .ok { entries := entries ++ ing, peers := peers, dotPeers := dotPeers }

/-- `getIngressAllowedConnections` with the exposure-mode connection evaluation -/
def ingressEntriesX (eng : Engine) (objs : List Obj) (owners : List (String × Pod)) (focus : String) : Except Err (List Entry) :=
  match IngressA.allowedIngress objs owners with
  | none => .ok []
  | some l =>
    let eng := if (eng.findNs IngressA.ingressPod.ns).isSome then eng
      else { eng with namespaces := eng.namespaces ++ [⟨IngressA.ingressPod.ns, [(nsNameLabelKey, IngressA.ingressPod.ns)]⟩] }
    let src := LPeer.wl (workloadName IngressA.ingressPod) IngressA.ingressPod
    l.foldlM (fun (acc : List Entry) (n, p, c) => do
      let dst := LPeer.wl n p
      if !(isFocus focus src || isFocus focus dst) then pure acc
      else
        let ks ← eng.toKPeer src
        let kd ← eng.toKPeer dst
        let pc ← Exposure.peerConns eng ks kd
        let r := c.inter pc
        if r.isEmpty then pure acc else pure (acc ++ [⟨src, dst, r⟩])) []

def XData.ofXEntry (x : Exposure.XEntry) : XData := ⟨x.entireCluster, x.nsSel, x.podSel, x.conn.toStr⟩

/-- the report with exposure analysis: connections, `ca.peersList`, exposed peers -/
def reportX (objs : List Obj) (focus : String) (stop : Bool := false) : Except Err (Report × List XPeerF) :=
  if stop && !Pipeline.hasWorkload objs then .ok ({}, []) else
  match Exposure.build objs with
  | .error e => .error e
  | .ok x =>
    let eng := x.eng
    if eng.pods.isEmpty then .ok ({}, [])
    else match eng.peersList, eng.podOwnersMap with
      | .error e, _ => .error e
      | _, .error e => .error e
      | .ok peers, .ok owners =>
        let hasIngress := (IngressA.allowedIngress objs owners).isSome
        let focusExists := focus == "" || (focus == "ingress-controller" && hasIngress) || peers.any (Engine.isFocus focus)
        let dotPeers := peers.filter (Engine.isFocus focus)
        if !focusExists then .ok ({ dotPeers := dotPeers }, [])
        else if Exposure.repNamespaceError x peers focus then .error .missingNamespace
        else match Exposure.connsBetweenPeers eng peers focus, Exposure.exposedPeers x peers focus with
          | .error e, _ => .error e
          | _, .error e => .error e
          | .ok entries, .ok xs =>
            match ingressEntriesX eng objs owners focus with
            | .error e => .error e
            | .ok ing =>
              let xf := xs.filterMap fun p => (peers.find? (·.str == p.name)).map fun lp =>
                (⟨PeerInfo.ofLPeer lp, p.ingProtected, p.ing.map XData.ofXEntry, p.egProtected, p.eg.map XData.ofXEntry⟩ : XPeerF)
              .ok ({ entries := entries ++ ing, peers := peers, dotPeers := dotPeers }, xf)

/-- the classification step of `diffConnectionsLists`, keeping the peers (cf. `Diff.diffLists`) -/
def classify (peers1 peers2 : List String) : String × Diff.Pair → Option DConn
  | (_, d) =>
    match d.first, d.second with
    | some a, some b =>
      let eq := a.all == b.all && a.ports == b.ports
      some ⟨if eq then "unchanged" else "changed", .ofLPeer a.src, .ofLPeer a.dst, a.connStr, b.connStr, false, false⟩
    | some a, none => some ⟨"removed", .ofLPeer a.src, .ofLPeer a.dst, a.connStr, Diff.noConns,
        Diff.isWorkloadAbsent a.src peers2, Diff.isWorkloadAbsent a.dst peers2⟩
    | none, some b => some ⟨"added", .ofLPeer b.src, .ofLPeer b.dst, Diff.noConns, b.connStr,
        Diff.isWorkloadAbsent b.src peers1, Diff.isWorkloadAbsent b.dst peers1⟩
    | none, none => none

/-- `diffConnectionsLists` with the peers kept -/
def diffConnsLists (c1 c2 : List Diff.P2P) (peers1 peers2 : List String) : List DConn :=
  let m : Diff.DMap := c2.foldl (fun m c => m.update c.key false (some c)) (c1.foldl (fun m c => m.update c.key true (some c)) [])
  (Diff.mergeIPblocks m).filterMap (classify peers1 peers2)

/-- `computeDiffFromConnlistResults` with the peers kept (cf. `Diff.compute`) -/
def diffConns (e1 e2 : List Entry) (peers1 peers2 : List LPeer) : List DConn :=
  let c1 := e1.map Diff.ofEntry
  let c2 := e2.map Diff.ofEntry
  let dis := Diff.disjointBlocks (Diff.ipBlocksOf c1) (Diff.ipBlocksOf c2)
  let names (l : List LPeer) := l.filterMap fun p => match p with | .wl n _ => some n | _ => none
  diffConnsLists (Diff.refine c1 dis) (Diff.refine c2 dis) (names peers1) (names peers2)

def DConn.toDEntry (d : DConn) : Diff.DEntry := ⟨d.typ, d.src.str, d.dst.str, d.c1, d.c2, d.newSrc, d.newDst⟩

-- ------------------------------------------------------------------------------------------
-- driver

def listFormats : List String := ["txt", "json", "dot", "csv", "md"]
def diffFormats : List String := ["txt", "csv", "md", "dot"]

/-- lowercase hex of the UTF-8 bytes; `-` for the empty string -/
def hexOf (s : String) : String :=
  let b := s.toUTF8
  if b.size == 0 then "-"
  else b.foldl (fun acc x => (acc.push (hexDigit (x.toNat / 16))).push (hexDigit (x.toNat % 16))) ""

open Sexp in
/-- `(wfmt ID (world …) (focus F|-)? (exposure 0|1) (stop 0|1) (world …)?)` →
`(wfmt ID done (out FORMAT HEX|err)… (dout FORMAT HEX|err)…)`: the list formats of the first world (with or without
exposure analysis), the diff formats when a second world is given -/
def runWFmt (args : List Sexp) : Sexp :=
  match args with
  | id :: w :: opts =>
    match WorldParse.pWorld w with
    | none => .list [.atom "wfmt", id, .atom "bad-world"]
    | some objs =>
      let opt (k : String) : Option String := opts.findSome? fun o =>
        match o with
        | .list [.atom h, .atom v] => if h == k then some v else none
        | _ => none
      let focus := match opt "focus" with | some f => if f == "-" then "" else f | none => ""
      let exposure := opt "exposure" == some "1"
      let stop := opt "stop" == some "1"
      -- a directory without manifests: `GetResourceInfosFromDirPath` fails, `ConnlistFromDirPath` returns that error
      let outs : List Sexp :=
        if objs.isEmpty then listFormats.map fun f => .list [.atom "out", .atom f, .atom "err"]
        else if exposure then
          match reportX objs focus stop with
          | .error _ => listFormats.map fun f => .list [.atom "out", .atom f, .atom "err"]
          | .ok (r, xs) =>
            let conns := r.entries.map Conn.ofEntry
            let peers := r.dotPeers.map PeerInfo.ofLPeer
            listFormats.map fun f => .list [.atom "out", .atom f, .atom (hexOf (listToStringX f conns peers xs))]
        else match report objs focus stop with
          | .error _ => listFormats.map fun f => .list [.atom "out", .atom f, .atom "err"]
          | .ok r =>
            let conns := r.entries.map Conn.ofEntry
            let peers := r.dotPeers.map PeerInfo.ofLPeer
            listFormats.map fun f => .list [.atom "out", .atom f, .atom (hexOf (listToString f conns peers))]
      let douts : List Sexp :=
        match opts.find? (fun o => o.head? == some "world") with
        | none => []
        | some wb =>
          match WorldParse.pWorld wb with
          | none => [.atom "bad-world"]
          | some objsB =>
            -- `getConnlistAnalysis` for dir1, then for dir2: a severe error under stop-on-error ends the diff with an
            -- empty result (no error), a fatal error of the list analysis is the error of the diff
            let res (t : String) : List Sexp := diffFormats.map fun f => .list [.atom "dout", .atom f, .atom t]
            -- `ConnDiffFromDirPaths`: unreadable directories are fatal when both are empty or under stop-on-error
            if (objs.isEmpty && objsB.isEmpty) || (stop && (objs.isEmpty || objsB.isEmpty)) then res "err"
            else if stop && !Pipeline.hasWorkload objs then res "-"
            else match report objs "" with
              | .error _ => res "err"
              | .ok a =>
                if stop && !Pipeline.hasWorkload objsB then res "-"
                else match report objsB "" with
                  | .error _ => res "err"
                  | .ok b =>
                    let ds := diffConns a.entries b.entries a.peers b.peers
                    diffFormats.map fun f => .list [.atom "dout", .atom f, .atom (hexOf (diffToString f "dir1" "dir2" ds))]
      .list ([.atom "wfmt", id, .atom "done"] ++ outs ++ douts)
  | id :: _ => .list [.atom "wfmt", id, .atom "bad-case"]
  | _ => .atom "bad-case"

end Format
end Netpol
