import Netpol.Sexp
import Netpol.Model.World
/-! S-expression → input objects (grammar in DESIGN.md appendix B, as implemented by the harness). -/
namespace Netpol
namespace WorldParse
open Sexp

def pLabels (s : Sexp) : Option Labels :=
  s.args.mapM fun kv => match kv with
    | .list [.atom k, .atom v] => some (k, if v == "~" then "" else v)   -- `~` is the empty value
    | _ => none

def pOp (s : String) : Option SelOp :=
  match s with
  | "In" => some .In | "NotIn" => some .NotIn | "Exists" => some .Exists | "DoesNotExist" => some .DoesNotExist
  | _ => none

def pReq (s : Sexp) : Option Req :=
  match s with
  | .list (.atom k :: .atom op :: vs) => do some ⟨k, ← pOp op, ← vs.mapM fun v => v.atom?.map fun a => if a == "~" then "" else a⟩
  | _ => none

/-- `nil` or `(sel (ml …) (me …))` -/
def pSel (s : Sexp) : Option (Option Selector) :=
  match s with
  | .atom "nil" => some none
  | .list [.atom "sel", ml, me] => do some (some ⟨← pLabels ml, ← me.args.mapM pReq⟩)
  | _ => none

def pSelNN (s : Sexp) : Option Selector := do (← pSel s)

def pProtoOpt (s : Sexp) : Option (Option Proto) :=
  match s with
  | .atom "-" => some none
  | .atom p => (Proto.ofStr? p).map some
  | _ => none

def pCidr (s : String) : Option Cidr :=
  match s.splitOn "/" with
  | [a, p] =>
    match a.splitOn "." with
    | [b0, b1, b2, b3] => do
      let n0 ← b0.toNat?; let n1 ← b1.toNat?; let n2 ← b2.toNat?; let n3 ← b3.toNat?
      some ⟨((n0 * 256 + n1) * 256 + n2) * 256 + n3, ← p.toNat?⟩
    | _ => none
  | _ => none

def pIPv4 (s : String) : Option Nat :=
  match s.splitOn "." with
  | [b0, b1, b2, b3] => do
    let n0 ← b0.toNat?; let n1 ← b1.toNat?; let n2 ← b2.toNat?; let n3 ← b3.toNat?
    if n0 < 256 ∧ n1 < 256 ∧ n2 < 256 ∧ n3 < 256 then some (((n0 * 256 + n1) * 256 + n2) * 256 + n3) else none
  | _ => none

def pCPorts (s : Sexp) : Option (List CPort) :=
  s.args.mapM fun c => match c with
    | .list [.atom nm, .atom pr, n] => do
        -- `-`: the manifest gives no protocol; a container port without one is TCP (`ConvertPodNamedPort`, `PodExposedTCPConnections`)
        some ⟨if nm == "-" then "" else nm, ← (if pr == "-" then some Proto.TCP else Proto.ofStr? pr), ← n.int?⟩
    | _ => none

def pNPPeer (s : Sexp) : Option NPPeer :=
  match s with
  | .list [.atom "sel", ps, ns] => do some (.sel (← pSel ps) (← pSel ns))
  | .list [.atom "ip", .atom c, ex] => do
      some (.ip (← pCidr c) (← ex.args.mapM fun e => do pCidr (← e.atom?)))
  | _ => none

def pNPPort (s : Sexp) : Option NPPort :=
  match s with
  | .list [.atom "port", pr, .atom "all"] => do some ⟨← pProtoOpt pr, .all⟩
  | .list [.atom "port", pr, .atom "num", n, .atom "-"] => do some ⟨← pProtoOpt pr, .num (← n.int?) none⟩
  | .list [.atom "port", pr, .atom "num", n, e] => do some ⟨← pProtoOpt pr, .num (← n.int?) (some (← e.int?))⟩
  | .list [.atom "port", pr, .atom "name", .atom nm] => do some ⟨← pProtoOpt pr, .name nm⟩
  | _ => none

def pNPRule (s : Sexp) : Option NPRule :=
  match s with
  | .list [.atom "rule", peers, ports] => do
      some ⟨← peers.args.mapM pNPPeer, ← ports.args.mapM pNPPort⟩
  | _ => none

def pDirs (s : Sexp) : Option (List Dir) :=
  s.args.mapM fun d => match d with
    | .atom "I" => some Dir.ingress
    | .atom "E" => some Dir.egress
    | _ => none

def pSubject (s : Sexp) : Option Subject :=
  match s with
  | .list [.atom "nss", sel] => do some (.nss (← pSelNN sel))
  | .list [.atom "pods", ns, pod] => do some (.pods (← pSelNN ns) (← pSelNN pod))
  | _ => none

def pAction (s : String) : Option Action :=
  match s with
  | "Allow" => some .Allow | "Deny" => some .Deny | "Pass" => some .Pass | _ => none

def pAPort (s : Sexp) : Option APort :=
  match s with
  | .list [.atom "num", pr, n] => do some (.num (← pProtoOpt pr) (← n.int?))
  | .list [.atom "range", pr, a, b] => do some (.range (← pProtoOpt pr) (← a.int?) (← b.int?))
  | .list [.atom "named", .atom n] => some (.named n)
  | _ => none

def pARule (s : Sexp) : Option ARule :=
  match s with
  | .list [.atom "rule", .atom nm, .atom act, peers, ports] => do
      let ps ← match ports with
        | .list [.atom "ports", .atom "nil"] => some none
        | _ => do some (some (← ports.args.mapM pAPort))
      some ⟨nm, ← pAction act, ← peers.args.mapM pSubject, ps⟩
  | _ => none

def pOptInt (s : Sexp) : Option (Option Int) :=
  match s with
  | .atom "-" => some none
  | _ => s.int?.map some

def pOptStr (s : Sexp) : Option (Option String) :=
  match s with
  | .atom "-" => some none
  | .atom x => some (some x)
  | _ => none

def pBackend (s : Sexp) : Option IngBackend :=
  match s with
  | .list [.atom "bk", .atom svc, n, nm] => do some ⟨svc, ← pOptInt n, ← pOptStr nm⟩
  | _ => none

def pObj (s : Sexp) : Option Obj :=
  match s with
  | .list [.atom "ns", .atom name, labels] => do some (.ns ⟨name, ← pLabels labels⟩)
  | .list [.atom "wl", .atom kind, .atom ns, .atom name, repl, labels, cports] => do
      some (.wl ⟨kind, ns, name, ← pOptInt repl, ← pLabels labels, ← pCPorts cports⟩)
  | .list [.atom "pod", .atom ns, .atom name, labels, cports, owner, .list [.atom "hostip", .atom hip]] => do
      let l ← pLabels labels
      let (ok, on) ← match owner with
        | .list [.atom "owner", .atom k, .atom n] => some (k, n)
        | .list [.atom "owner"] => some ("", "")
        | _ => none
      -- PodFromCoreObject / addPodOwner: an owner of kind Node is ignored
      let (ok, on) := if ok == "Node" then ("", "") else (ok, on)
      let cps ← pCPorts cports
      some (.pod { ns := ns, name := name, labels := l, ports := cps, ownerKind := ok, ownerName := on,
                   variant := if on == "" then "" else variantOf l cps, hostIP := hip })
  | .list [.atom "np", .atom ns, .atom name, sel, types, ing, eg] => do
      some (.np ⟨if ns == "-" then "" else ns, name, ← pSelNN sel, ← pDirs types, ← ing.args.mapM pNPRule, ← eg.args.mapM pNPRule⟩)
  | .list [.atom "np", .atom ns, .atom name, sel, types, ing, eg, .list [.atom "uid", _]] => do
      -- metadata.uid is not part of what the analysis reads
      some (.np ⟨if ns == "-" then "" else ns, name, ← pSelNN sel, ← pDirs types, ← ing.args.mapM pNPRule, ← eg.args.mapM pNPRule⟩)
  | .list [.atom "anp", .atom name, prio, subj, ing, eg] => do
      some (.anp ⟨name, ← prio.int?, ← pSubject subj, ← ing.args.mapM pARule, ← eg.args.mapM pARule⟩)
  | .list [.atom "banp", .atom name, subj, ing, eg] => do
      some (.banp ⟨name, ← pSubject subj, ← ing.args.mapM pARule, ← eg.args.mapM pARule⟩)
  | .list [.atom "svc", .atom ns, .atom name, sel, sports] => do
      let ps ← sports.args.mapM fun p => match p with
        | .list [nm, port, tn, tnm, .atom pr] => do
            some (⟨(← pOptStr nm).getD "", ← port.int?, ← pOptInt tn, ← pOptStr tnm, ← Proto.ofStr? pr⟩ : SvcPort)
        | _ => none
      some (.svc ⟨ns, name, ← pLabels sel, ps⟩)
  | .list [.atom "ing", .atom ns, .atom name, .list [.atom "default", d], rules] => do
      let dflt ← match d with
        | .atom "-" => some none
        | _ => (pBackend d).map some
      some (.ing ⟨ns, name, dflt, ← rules.args.mapM fun r => r.args.mapM pBackend⟩)
  | .list [.atom "route", .atom ns, .atom name, .list [.atom "to", .atom k, .atom n], alt, .list [.atom "tport", tn, tnm]] => do
      let und (x : String) : String := if x == "-" then "" else x
      let alts ← alt.args.mapM fun a => match a with
        | .list [.atom k, .atom n] => some (und k, n)
        | _ => none
      some (.route ⟨ns, name, und k, n, alts, ← pOptInt tn, ← pOptStr tnm⟩)
  | _ => none

/-- `(world OBJ…)` -/
def pWorld (s : Sexp) : Option (List Obj) :=
  match s with
  | .list (.atom "world" :: objs) => objs.mapM pObj
  | _ => none

end WorldParse
end Netpol
