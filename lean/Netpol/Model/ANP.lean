import Netpol.Model.NP
/-! Model of `adminnetpol.go`, `baseline_admin_netpol.go` and `policy_connections.go`. -/
namespace Netpol

/-- `PolicyConnections` -/
structure PolicyConns where
  allowed : ConnSet
  pass : ConnSet
  denied : ConnSet
deriving Repr, DecidableEq, Inhabited

namespace PolicyConns

def empty : PolicyConns := ⟨ConnSet.mk' false, ConnSet.mk' false, ConnSet.mk' false⟩

/-- `UpdateWithRuleConns` -/
def updateWithRule (pc : PolicyConns) (rc : ConnSet) (a : Action) (banp : Bool) : Except Err PolicyConns :=
  match a with
  | .Allow => .ok { pc with allowed := pc.allowed.union ((rc.subtract pc.denied).subtract pc.pass) }
  | .Deny => .ok { pc with denied := pc.denied.union ((rc.subtract pc.allowed).subtract pc.pass) }
  | .Pass => if banp then .error .badAction
             else .ok { pc with pass := pc.pass.union ((rc.subtract pc.allowed).subtract pc.denied) }

/-- `CollectANPConns` -/
def collectANP (pc new : PolicyConns) : PolicyConns :=
  let d := (new.denied.subtract pc.allowed).subtract pc.pass
  let a := (new.allowed.subtract pc.denied).subtract pc.pass
  let p := (new.pass.subtract pc.denied).subtract pc.allowed
  ⟨pc.allowed.union a, pc.pass.union p, pc.denied.union d⟩

/-- `CollectAllowedConnsFromNetpols` -/
def collectNetpols (pc : PolicyConns) (np : ConnSet) : PolicyConns :=
  { pc with allowed := pc.allowed.union (np.subtract pc.denied) }

/-- `CollectConnsFromBANP` -/
def collectBANP (pc banp : PolicyConns) : PolicyConns :=
  let denied := pc.denied.union (banp.denied.subtract pc.allowed)
  { pc with denied := denied, allowed := (ConnSet.mk' true).subtract denied }

/-- `PolicyConnections.IsEmpty` -/
def isEmpty (pc : PolicyConns) : Bool := pc.allowed.isEmpty && pc.denied.isEmpty && pc.pass.isEmpty

/-- `DeterminesAllConns` -/
def determinesAll (pc : PolicyConns) : Bool := (pc.allowed.copy.union pc.denied).allowAll

end PolicyConns

/-- labels of the peer's namespace; the Go code dereferences `GetPeerNamespace()` unchecked -/
def KPeer.nsLabels : KPeer → Labels
  | .pod _ (some ns) => ns.labels
  | _ => []

/-- `doesNamespacesFieldMatchPeer` / `doesPodsFieldMatchPeer` through `subjectSelectsPeer` / `ruleFieldsSelectsPeer` -/
def Subject.selectsPeer (s : Subject) (peer : KPeer) : Bool :=
  match peer with
  | .ip _ => false
  | .pod p _ =>
    match s with
    | .nss sel => sel.matches peer.nsLabels
    | .pods nsSel podSel => nsSel.matches peer.nsLabels && podSel.matches p.labels

namespace ARule

/-- `ruleConnections` of adminnetpol.go -/
def conns (ports : Option (List APort)) (dst : KPeer) : ConnSet :=
  match ports with
  | none => ConnSet.mk' true
  | some ps => ps.foldl (fun (res : ConnSet) ap =>
    match ap with
    | .num pr n => res.addConnection (pr.getD .TCP) ((PortSet.mk' false).addPort (.num n))
    | .named name =>
      match dst with
      | .pod pod _ =>
        match pod.convertNamedPort name with
        | none => res
        | some (pr, n) => res.addConnection pr ((PortSet.mk' false).addPort (.num n))
      | .ip _ => res   -- not reached: admin policies never select IP peers
    | .range pr a b =>
      if NetPol.isEmptyPortRange a b then res
      else res.addConnection (pr.getD .TCP) ((PortSet.mk' false).addPortRange a b)) (ConnSet.mk' false)

/-- `egressRuleSelectsPeer` / `ingressRuleSelectsPeer` -/
def selectsPeer (r : ARule) (peer : KPeer) : Bool := r.peers.any (·.selectsPeer peer)

/-- `anpPortContains` (after `ParseInt` succeeded) -/
def portContains (ports : Option (List APort)) (pr : Option Proto) (port : Int) (dst : KPeer) : Bool :=
  match ports with
  | none => true
  | some ps => ps.any fun ap =>
    match ap with
    | .num rpr n => NetPol.rulePortContains (rpr.getD .TCP) pr n n port
    | .named name =>
      match dst with
      | .pod pod _ =>
        match pod.convertNamedPort name with
        | none => false
        | some (ppr, n) => NetPol.rulePortContains ppr pr n n port
      | .ip _ => false
    | .range rpr a b => NetPol.rulePortContains (rpr.getD .TCP) pr a b port

end ARule

/-- `updateConnsIf{In,E}gressRuleSelectsPeer` folded over the rules of one (B)ANP:
`GetIngressPolicyConns` / `GetEgressPolicyConns` -/
def adminPolicyConns (rules : List ARule) (other dst : KPeer) (banp : Bool) : Except Err PolicyConns :=
  rules.foldlM (fun (pc : PolicyConns) r =>
    if r.peers.isEmpty then .error .anpRulePeers
    else if !r.selectsPeer other then .ok pc
    else pc.updateWithRule (ARule.conns r.ports dst) r.action banp) PolicyConns.empty

inductive RuleRes where
  | notCaptured | pass | allow | deny
deriving Repr, DecidableEq, Inhabited

/-- `Check{In,E}gressConnAllowed` of an ANP: the first rule capturing the connection decides -/
def adminPolicyCheck (rules : List ARule) (other dst : KPeer) (pr : Option Proto) (port : Int) (banp : Bool) : Except Err RuleRes :=
  let rec go : List ARule → Except Err RuleRes
    | [] => .ok .notCaptured
    | r :: rest =>
      if r.peers.isEmpty then .error .anpRulePeers
      else if !r.selectsPeer other then go rest
      else if !ARule.portContains r.ports pr port dst then go rest
      else match r.action with
        | .Pass => if banp then .error .badAction else .ok .pass
        | .Allow => .ok .allow
        | .Deny => .ok .deny
  go rules

namespace ANP
/-- `AdminNetworkPolicy.Selects` -/
def selects (a : ANP) (p : KPeer) (isIngress : Bool) : Bool :=
  p.isPod && (if isIngress then !a.ingress.isEmpty else !a.egress.isEmpty) && a.subject.selectsPeer p
def validPriority (a : ANP) : Bool := decide (a.prio ≥ 0 ∧ a.prio ≤ 1000)
end ANP

namespace BANP
def selects (b : BANP) (p : KPeer) (isIngress : Bool) : Bool :=
  p.isPod && (if isIngress then !b.ingress.isEmpty else !b.egress.isEmpty) && b.subject.selectsPeer p
end BANP

end Netpol
