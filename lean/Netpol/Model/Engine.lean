import Netpol.Model.ANP
/-! Model of `pkg/netpol/eval/resources.go` (object insertion, ANP sorting, missing namespaces,
peers list, IP partition) and `pkg/netpol/eval/check.go` (allowed connections between peers). -/
namespace Netpol

/-- the objects held by a `PolicyEngine`. Go maps are association lists with unique keys;
insertion of an existing key replaces in place, a new key is appended (the position is the
iteration order of the list, which no result may depend on — see the `Perm` theorems). -/
structure Engine where
  namespaces : List NsObj := []
  pods : List Pod := []
  netpols : List NetPol := []
  anps : List ANP := []              -- `sortedAdminNetpols` (slice order)
  anpNames : List String := []       -- `adminNetpolsMap`
  banp : Option BANP := none
  exposure : Bool := false
deriving Repr, Inhabited

namespace Engine

def podKey (p : Pod) : String := p.ns ++ "/" ++ p.name

def upsert {α} (key : α → String) (x : α) : List α → List α
  | [] => [x]
  | y :: ys => if key y == key x then x :: ys else y :: upsert key x ys

def findNs (e : Engine) (name : String) : Option NsObj := e.namespaces.find? (·.name == name)
def findPod (e : Engine) (key : String) : Option Pod := e.pods.find? (fun p => podKey p == key)

/-- `NamespaceFromCoreObject` -/
def nsFromCore (n : NsObj) : NsObj :=
  if (n.labels.get? nsNameLabelKey).isSome then n else { n with labels := n.labels ++ [(nsNameLabelKey, n.name)] }

def insertNamespace (e : Engine) (n : NsObj) : Engine :=
  { e with namespaces := upsert (·.name) (nsFromCore n) e.namespaces }

def workloadKinds : List String :=
  ["ReplicaSet", "Deployment", "StatefulSet", "DaemonSet", "ReplicationController", "CronJob", "Job"]

/-- `PodsFromWorkloadObject`: one pod, or two when more than one replica is requested -/
def podsFromWorkload (w : Workload) : List Pod :=
  let replicas : Int :=
    if w.kind == "DaemonSet" || w.kind == "CronJob" then 1 else w.replicas.getD 1
  let n := if replicas > 1 then 2 else 1
  (List.range n).map fun i =>
    { ns := w.ns, name := w.name ++ "-" ++ toString (i + 1), labels := w.labels, ports := w.ports,
      ownerKind := w.kind, ownerName := w.name, variant := variantOf w.labels w.ports, hostIP := "127.0.0.1" }

def insertPodObj (e : Engine) (p : Pod) : Engine := { e with pods := upsert podKey p e.pods }

def insertWorkload (e : Engine) (w : Workload) : Engine :=
  (podsFromWorkload w).foldl insertPodObj e

/-- `insertNetworkPolicy` (exposure pre-scan not included here) -/
def insertNetpol (e : Engine) (np : NetPol) : Except Err Engine :=
  let np := if np.ns == "" then { np with ns := "default" } else np
  if e.netpols.any (fun q => q.ns == np.ns && q.name == np.name) then .error .dupNetpol
  else .ok { e with netpols := e.netpols ++ [np] }

/-- position by priority: after every entry whose priority is not greater (`sort.Search` for the first greater one) -/
def insertSorted (a : ANP) : List ANP → List ANP
  | [] => [a]
  | b :: bs => if b.prio > a.prio then a :: b :: bs else b :: insertSorted a bs

def insertANP (e : Engine) (a : ANP) : Except Err Engine :=
  if e.exposure then .error .exposureWithANP
  else if e.anpNames.contains a.name then .error .dupANP
  -- a priority outside the range, or held already, is rejected at insertion (as the sort of a batch does): the list is
  -- ordered by priority, so the entry before the insertion point is the only candidate for an equal one
  else if !a.validPriority then .error .anpPriority
  else if e.anps.any (fun b => b.prio == a.prio) then .error .anpPriority
  else .ok { e with anpNames := e.anpNames ++ [a.name], anps := insertSorted a e.anps }

def insertBANP (e : Engine) (b : BANP) : Except Err Engine :=
  if e.exposure then .error .exposureWithANP
  else if e.banp.isSome then .error .banpExists
  else if b.name != "default" then .error .banpName
  else .ok { e with banp := some b }

/-- `InsertObject` -/
def insertObject (e : Engine) (o : Obj) : Except Err Engine :=
  match o with
  | .ns n => .ok (e.insertNamespace n)
  | .wl w => .ok (e.insertWorkload w)
  | .pod p => if p.hostIP == "" then .error .badPod else .ok (e.insertPodObj p)
  | .np p => e.insertNetpol p
  | .anp a => e.insertANP a
  | .banp b => e.insertBANP b
  | .svc _ | .ing _ | .route _ => .ok e

/-- insertion sort by priority: any correct comparison sort yields this list when priorities are
distinct (Properties/C19 shows that the real sort must also report every conflict) -/
def insertByPrio (a : ANP) : List ANP → List ANP
  | [] => [a]
  | b :: bs => if a.prio < b.prio then a :: b :: bs else b :: insertByPrio a bs

/-- `sortAdminNetpolsByPriority` -/
def sortANPs (e : Engine) : Except Err Engine :=
  let l := e.anps
  if l.any (fun a => !a.validPriority) then .error .anpPriority
  else if !(l.map (·.prio)).Nodup then .error .anpPriority
  else .ok { e with anps := l.foldr insertByPrio [] }

/-- `resolveMissingNamespaces` -/
def resolveMissingNamespaces (e : Engine) : Engine :=
  e.pods.foldl (fun acc p =>
    if (acc.findNs p.ns).isSome then acc
    else { acc with namespaces := acc.namespaces ++ [⟨p.ns, [(nsNameLabelKey, p.ns)]⟩] }) e

/-- `addObjectsByKind` (without exposure analysis) -/
def build (objs : List Obj) : Except Err Engine := do
  let e ← objs.foldlM insertObject ({} : Engine)
  let e ← e.sortANPs
  pure e.resolveMissingNamespaces

-- ------------------------------------------------------------------------------------------
-- peers

/-- `WorkloadPeer.String` -/
def workloadName (p : Pod) : String :=
  if p.fake then "{" ++ p.name ++ "}"
  else
    let name := if p.ownerName == "" then p.name else p.ownerName
    let kind := if p.ownerKind == "" then "Pod" else p.ownerKind
    p.ns ++ "/" ++ name ++ "[" ++ kind ++ "]"

def labelsEq (a b : Labels) : Bool :=
  a.all (fun kv => b.get? kv.1 == some kv.2) && b.all (fun kv => a.get? kv.1 == some kv.2)

/-- the pods in the order of their keys: `createPodOwnersMap` walks the pods map in sorted key order -/
def sortedPods (e : Engine) : List Pod := e.pods.mergeSort (fun a b => podKey a ≤ podKey b)

/-- the loop of `createPodOwnersMap` over a list of pods: error when two pods of one owner
(namespace, owner kind, owner name) differ in labels; otherwise one workload peer per distinct workload string (the pod standing for it is the
last one met in the list) -/
def podOwnersMapOf (pods : List Pod) : Except Err (List (String × Pod)) :=
  let rec go (firsts : List (String × Pod)) (res : List (String × Pod)) : List Pod → Except Err (List (String × Pod))
    | [] => .ok res
    | p :: rest =>
      let okey := p.ns ++ "//" ++ p.ownerKind ++ "/" ++ p.ownerName
      let chk : Except Err (List (String × Pod)) :=
        if p.ownerName == "" then .ok firsts
        else match firsts.find? (·.1 == okey) with
          | none => .ok (firsts ++ [(okey, p)])
          | some (_, f) => if labelsEq f.labels p.labels then .ok firsts else .error .ownerLabels
      match chk with
      | .error err => .error err
      | .ok firsts' => go firsts' (upsert (·.1) (workloadName p, p) res) rest
  go [] [] pods

/-- `createPodOwnersMap`: the loop over the pods in sorted key order, so the pod standing for a
workload is the one with the greatest key (`namespace/name`), whatever the order of the pods map -/
def podOwnersMap (e : Engine) : Except Err (List (String × Pod)) := podOwnersMapOf e.sortedPods

def ipMax : Int := 4294967295

/-- the partition of the address space induced by a list of contiguous blocks (boundary
construction; equality with `netset.DisjointIPBlocks` as a set of ranges is a K-diff obligation) -/
def partition (blocks : List Iv) : List Iv :=
  let pts := (blocks.flatMap fun b => [b.lo, b.hi + 1]) ++ [0, ipMax + 1]
  let sorted := (pts.mergeSort (· ≤ ·)).eraseDups
  (sorted.zip sorted.tail).filterMap fun (a, b) => if a < b ∧ 0 ≤ a ∧ b ≤ ipMax + 1 then some ⟨a, b - 1⟩ else none

/-- `getDisjointIPBlocks` -/
def disjointIPBlocks (e : Engine) : List Iv :=
  partition ((e.netpols.flatMap (·.referencedIPBlocks)) ++ [⟨0, ipMax⟩])

-- ------------------------------------------------------------------------------------------
-- check.go

/-- insert a policy into a list sorted by name, before the first policy whose name is not smaller
(so that the sort below is stable) -/
def insertByName (p : NetPol) : List NetPol → List NetPol
  | [] => [p]
  | q :: qs => if p.name ≤ q.name then p :: q :: qs else q :: insertByName p qs

/-- the policies in the order of their names: a stable insertion sort (the same list as a stable
merge sort on the name; written structurally so that the kernel can evaluate it) -/
def sortByName (l : List NetPol) : List NetPol := l.foldr insertByName []

/-- `getPoliciesSelectingPod`: the policies of the pod's namespace that select it, visited in the
order of their names (`sort.Strings` on the policy names, in the list path and in the eval path
alike), whatever the order of the policies map -/
def policiesSelecting (e : Engine) (peer : KPeer) (d : Dir) : List NetPol :=
  match peer with
  | .ip _ => []
  | .pod p _ => sortByName (e.netpols.filter (fun np => np.selects p d))

/-- `isPodToItself` -/
def isPodToItself (a b : KPeer) : Bool :=
  match a, b with
  | .pod p _, .pod q _ => p.name == q.name && p.ns == q.ns && p.fake == q.fake
  | _, _ => false

/-- `getAllAllowedXgressConnsFromNetpols` (without the exposure shortcuts) -/
def netpolConns (e : Engine) (src dst : KPeer) (isIngress : Bool) : Except Err (Option ConnSet) := do
  let pols := if isIngress then e.policiesSelecting dst .ingress else e.policiesSelecting src .egress
  if pols.isEmpty then pure none
  else
    let res ← pols.foldlM (fun (acc : ConnSet) np => do
      let c ← if isIngress then np.ingressAllowedConns src dst else np.egressAllowedConns dst
      pure (acc.union c)) (ConnSet.mk' false)
    pure (some res)

/-- `getAllAllowedXgressConnectionsFromANPs` -/
def anpConns (e : Engine) (src dst : KPeer) (isIngress : Bool) : Except Err (PolicyConns × Bool) := do
  let pc ← e.anps.foldlM (fun (pc : PolicyConns) a => do
    let single ←
      if !isIngress then
        (if a.selects src false then adminPolicyConns a.egress dst dst false else pure PolicyConns.empty)
      else
        (if a.selects dst true then adminPolicyConns a.ingress src dst false else pure PolicyConns.empty)
    pure (if !single.isEmpty then pc.collectANP single else pc)) PolicyConns.empty
  if pc.isEmpty then pure (PolicyConns.empty, false) else pure (pc, true)

/-- `getXgressDefaultConns` -/
def defaultConns (e : Engine) (src dst : KPeer) (isIngress : Bool) : Except Err PolicyConns :=
  match e.banp with
  | none => .ok { PolicyConns.empty with allowed := ConnSet.mk' true }
  | some b => do
    let res ←
      if isIngress then
        (if b.selects dst true then adminPolicyConns b.ingress src dst true else pure PolicyConns.empty)
      else
        (if b.selects src false then adminPolicyConns b.egress dst dst true else pure PolicyConns.empty)
    pure (if res.isEmpty then { res with allowed := ConnSet.mk' true } else res)

/-- `allAllowedXgressConnections` -/
def xgressConns (e : Engine) (src dst : KPeer) (isIngress : Bool) : Except Err ConnSet := do
  let (anp, anpCaptured) ← e.anpConns src dst isIngress
  if anpCaptured && anp.determinesAll then pure anp.allowed
  else
    let np ← e.netpolConns src dst isIngress
    match np with
    | some npc =>
      if !anpCaptured then pure npc
      else pure (anp.collectNetpols npc).allowed
    | none =>
      let dflt ← e.defaultConns src dst isIngress
      pure (anp.collectBANP dflt).allowed

/-- `allAllowedConnectionsBetweenPeers` (`isPeerNodeIP` is false for every parsable host address) -/
def peerConns (e : Engine) (src dst : KPeer) : Except Err ConnSet := do
  if isPodToItself src dst then pure (ConnSet.mk' true)
  else
    let res ← e.xgressConns src dst false
    if res.isEmpty then pure res
    else
      let ing ← e.xgressConns src dst true
      pure (res.inter ing)

-- ------------------------------------------------------------------------------------------
-- connlist.go: the peers × peers loop

/-- a connlist peer: a workload (standing pod) or an IP range -/
inductive LPeer where
  | wl (name : String) (p : Pod)
  | ip (r : Iv)
deriving Repr, Inhabited

def ipStr (n : Int) : String :=
  let n := n.toNat
  s!"{n / 16777216 % 256}.{n / 65536 % 256}.{n / 256 % 256}.{n % 256}"

def LPeer.str : LPeer → String
  | .wl n _ => n
  | .ip r => ipStr r.lo ++ "-" ++ ipStr r.hi

def LPeer.isIP : LPeer → Bool
  | .ip _ => true
  | _ => false

/-- `convertPeerToPodPeer` -/
def toKPeer (e : Engine) (p : LPeer) : Except Err KPeer :=
  match p with
  | .ip r => .ok (.ip [r])
  | .wl _ pod =>
    if pod.ns == "" && pod.isRepresentative then .ok (.pod pod none)
    else match e.findNs pod.ns with
      | none => .error .missingNamespace
      | some ns => .ok (.pod pod (some ns))

/-- `GetPeersList`: IP blocks first, then workloads -/
def peersList (e : Engine) : Except Err (List LPeer) := do
  let owners ← e.podOwnersMap
  pure ((e.disjointIPBlocks.map LPeer.ip) ++ owners.map fun (n, p) => LPeer.wl n p)

structure Entry where
  src : LPeer
  dst : LPeer
  conn : ConnSet
deriving Repr, Inhabited

/-- `isPeerFocusWorkload` on a peer -/
def isFocus (focus : String) (p : LPeer) : Bool :=
  focus == "" || match p with
    | .ip _ => false
    | .wl _ pod =>
      let name := if pod.ownerName == "" then pod.name else pod.ownerName
      name == focus || pod.ns ++ "/" ++ name == focus

/-- `getConnectionsBetweenPeers` without exposure analysis -/
def connsBetweenPeers (e : Engine) (peers : List LPeer) (focus : String) : Except Err (List Entry) :=
  peers.foldlM (fun (acc : List Entry) s =>
    peers.foldlM (fun (acc : List Entry) d =>
      if s.isIP && d.isIP then pure acc
      else if s.str == d.str then pure acc
      else if !(isFocus focus s || isFocus focus d) then pure acc
      else do
        let ks ← e.toKPeer s
        let kd ← e.toKPeer d
        let c ← e.peerConns ks kd
        if c.isEmpty then pure acc else pure (acc ++ [⟨s, d, c⟩])) acc) []

end Engine
end Netpol
