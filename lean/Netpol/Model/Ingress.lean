import Netpol.Model.Engine
/-! Model of `pkg/netpol/connlist/internal/ingressanalyzer/ingress_analyzer.go` and of
`getIngressAllowedConnections` (connlist.go): Ingress/Route → Service → workload + policies. -/
namespace Netpol
namespace IngressA
open Engine

/-- `intstr.IntOrString` with its `Type` field (the analyzer compares whole structs) -/
structure IOS where
  intVal : Int := 0
  strVal : String := ""
  isStr : Bool := false
deriving Repr, DecidableEq, Inhabited

def IOS.isZero (x : IOS) : Bool := x.intVal == 0 && x.strVal == ""

def SvcPort.target (p : SvcPort) : IOS :=
  match p.targetNum, p.targetName with
  | some n, _ => { intVal := n }
  | none, some s => { strVal := s, isStr := true }
  | none, none => {}

/-- `getServiceInfo`: the backend's port assigned field-wise (Type stays Int) -/
def backendPort (b : IngBackend) : IOS :=
  match b.portName with
  | some s => if s != "" then { strVal := s } else { intVal := b.portNum.getD 0 }
  | none => { intVal := b.portNum.getD 0 }

/-- `rt.Spec.Port.TargetPort` as decoded -/
def routePort (r : Route) : IOS :=
  match r.targetPortNum, r.targetPortName with
  | some n, _ => { intVal := n }
  | none, some s => { strVal := s, isStr := true }
  | none, none => {}

/-- `getPeerAccessPort` -/
def accessPorts (ports : List SvcPort) (req : IOS) (byTargetPort : Bool) : List IOS :=
  let access (p : SvcPort) : IOS := if !(SvcPort.target p).isZero then SvcPort.target p else { intVal := p.port }
  if req.isZero then ports.map access
  else
    match ports.find? (fun p => (p.name != "" && p.name == req.strVal) || p.port == req.intVal || (byTargetPort && SvcPort.target p == req)) with
    | some p => [access p]
    | none => []

/-- `PodExposedTCPConnections` -/
def podExposedTCP (p : Pod) : ConnSet :=
  p.ports.foldl (fun (res : ConnSet) c =>
    if c.proto == .TCP then res.addConnection .TCP ((PortSet.mk' false).addPortRange c.port c.port) else res) (ConnSet.mk' false)

/-- `getIngressPeerConnection` -/
def peerConnection (pod : Pod) (svcPorts : List SvcPort) (req : IOS) (byTargetPort : Bool) : ConnSet :=
  let tcp := podExposedTCP pod
  (accessPorts svcPorts req byTargetPort).foldl (fun (res : ConnSet) ap =>
    let portNum : Option Int :=
      if ap.strVal != "" then
        match pod.convertNamedPort ap.strVal with
        | some (pr, n) => if pr != .TCP || n < 0 then none else some n
        | none => none
      else some ap.intVal
    match portNum with
    | none => res
    | some n => if tcp.contains .TCP n then res.addConnection .TCP ((PortSet.mk' false).addPort (.num n)) else res) (ConnSet.mk' false)

/-- services of the input with their selected workload peers (`mapServiceToPeers`); a Service without
selector or selecting nothing is not recorded -/
def services (objs : List Obj) (owners : List (String × Pod)) : List (Service × List (String × Pod)) :=
  objs.filterMap fun o =>
    match o with
    | .svc s =>
      if s.selector.isEmpty then none
      else
        let peers := owners.filter fun (_, p) => p.ns == s.ns && s.selector.all (fun kv => p.labels.get? kv.1 == some kv.2)
        if peers.isEmpty then none else some (s, peers)
    | _ => none

/-- (namespace, service name, required port) targets of Routes and Ingresses that kept at least one target -/
def targets (objs : List Obj) : List (String × String × List (String × IOS × Bool)) :=
  objs.filterMap fun o =>
    match o with
    | .route r =>
      let req := routePort r
      let first := if r.toKind != "" && r.toKind != "Service" then [] else [(r.toName, req, true)]
      let alts := r.alternates.filterMap fun (k, n) => if k != "" && k != "Service" then none else some (n, req, true)
      let l := first ++ alts
      if l.isEmpty then none else some (r.ns, "route:" ++ r.name, l)
    | .ing i =>
      -- as coded, the targetPort comparison applies to Ingress backends too (known finding, DESIGN.md section 9)
      let l := (match i.default with | some b => [(b.svc, backendPort b, true)] | none => []) ++
        i.rules.flatMap fun bs => bs.map fun b => (b.svc, backendPort b, true)
      if l.isEmpty then none else some (i.ns, "ing:" ++ i.name, l)
    | _ => none

/-- later entry for the same service name replaces the earlier (Go map assignment) -/
def lookupSvc (svcs : List (Service × List (String × Pod))) (ns name : String) : Option (Service × List (String × Pod)) :=
  (svcs.filter fun (s, _) => s.ns == ns && s.name == name).getLast?

/-- `AllowedIngressConnections`: per workload peer the union over all targeting objects -/
def allowedIngress (objs : List Obj) (owners : List (String × Pod)) : Option (List (String × Pod × ConnSet)) :=
  let svcs := services objs owners
  let tg := targets objs
  if svcs.isEmpty || tg.isEmpty then none     -- `IngressAnalyzer.IsEmpty`
  else
    let contributions : List (String × Pod × ConnSet) := tg.flatMap fun (ns, _, l) =>
      if !(svcs.any fun (s, _) => s.ns == ns) then []
      else l.flatMap fun (svcName, req, byT) =>
        match lookupSvc svcs ns svcName with
        | none => []
        | some (s, peers) => peers.map fun (n, p) => (n, p, peerConnection p s.ports req byT)
    some (contributions.foldl (fun (acc : List (String × Pod × ConnSet)) (n, p, c) =>
      if acc.any (·.1 == n) then acc.map fun (n', p', c') => if n' == n then (n', p', c'.union c) else (n', p', c')
      else acc ++ [(n, p, c)]) [])

def ingressPod : Pod := { ns := "ingress-controller-ns", name := "ingress-controller", labels := [], ports := [], fake := true }

/-- `getIngressAllowedConnections`: (entries, blocked peers) -/
def ingressEntries (eng : Engine) (objs : List Obj) (owners : List (String × Pod)) (focus : String) :
    Except Err (List Entry × List String) :=
  match allowedIngress objs owners with
  | none => .ok ([], [])
  | some l =>
    -- AddPodByNameAndNamespace: the fake pod and, when missing, its namespace
    let eng := if (eng.findNs ingressPod.ns).isSome then eng
      else { eng with namespaces := eng.namespaces ++ [⟨ingressPod.ns, [(nsNameLabelKey, ingressPod.ns)]⟩] }
    let src := LPeer.wl (workloadName ingressPod) ingressPod
    l.foldlM (fun (acc : List Entry × List String) (n, p, c) => do
      let dst := LPeer.wl n p
      if !(isFocus focus src || isFocus focus dst) then pure acc
      else
        let ks ← eng.toKPeer src
        let kd ← eng.toKPeer dst
        let pc ← eng.peerConns ks kd
        let r := c.inter pc
        if r.isEmpty then pure (acc.1, acc.2 ++ [n]) else pure (acc.1 ++ [⟨src, dst, r⟩], acc.2)) ([], [])

end IngressA
end Netpol
