import Netpol.Model.Engine
/-! Model of `pkg/netpol/eval/check_eval.go` (rule-walking evaluation of one connection),
`pkg/netpol/eval/eval_cache.go` (LRU verdict cache keyed by owner) and of the `PolicyEngine` as a
state machine `step : EState → HOp → EState × Out` (InsertObject / DeleteObject / CheckIfAllowed). -/
namespace Netpol

/-- hashicorp/golang-lru as used here: most recently used first; capacity `cap` -/
structure LRU where
  items : List (String × Bool) := []
  cap : Nat := 500
deriving Repr, Inhabited

namespace LRU
def get (c : LRU) (k : String) : Option Bool × LRU :=
  match c.items.find? (·.1 == k) with
  | none => (none, c)
  | some kv => (some kv.2, { c with items := kv :: c.items.filter (·.1 != k) })

def add (c : LRU) (k : String) (v : Bool) : LRU :=
  let items := (k, v) :: c.items.filter (·.1 != k)
  { c with items := items.take c.cap }

def remove (c : LRU) (k : String) : LRU := { c with items := c.items.filter (·.1 != k) }
def purge (c : LRU) : LRU := { c with items := [] }
/-- `Keys()`: oldest first -/
def keys (c : LRU) : List String := (c.items.map (·.1)).reverse
end LRU

structure EState where
  eng : Engine := {}
  cache : LRU := {}
  owners : List (String × List String) := []     -- `ownerToPods`
deriving Repr, Inhabited

namespace EState

/-- `getPodOwnerKey` -/
def ownerKey (p : Pod) : String := p.ns ++ "/" ++ p.ownerName ++ "/" ++ p.variant

/-- `keyPerConnection` ("" = not cacheable) -/
def connKey (src dst : KPeer) (proto port : String) : String :=
  match src, dst with
  | .pod s _, .pod d _ =>
    if s.ownerName != "" && d.ownerName != "" then
      ownerKey s ++ "/" ++ ownerKey d ++ "/" ++ proto ++ "/" ++ port
    else ""
  | _, _ => ""

def cacheAdd (s : EState) (src dst : KPeer) (proto port : String) (v : Bool) : EState :=
  let k := connKey src dst proto port
  if k == "" then s else { s with cache := s.cache.add k v }

/-- `evalCache.clear` -/
def cacheClear (s : EState) : EState := { s with cache := s.cache.purge, owners := [] }

/-- `evalCache.addPod` -/
def cacheAddPod (s : EState) (p : Pod) : EState :=
  let k := ownerKey p
  let name := Engine.podKey p
  let owners :=
    if s.owners.any (·.1 == k) then
      s.owners.map fun (k', l) => if k' == k then (k', if l.contains name then l else l ++ [name]) else (k', l)
    else s.owners ++ [(k, [name])]
  { s with owners := owners }

/-- `strings.Contains` -/
def strContains (s sub : String) : Bool := (s.splitOn sub).length > 1 || sub == ""

/-- `evalCache.deletePod` (+ `deleteWorkload`) -/
def cacheDeletePod (s : EState) (p : Pod) : EState :=
  let k := ownerKey p
  let name := Engine.podKey p
  let owners := s.owners.map fun (k', l) => if k' == k then (k', l.filter (· != name)) else (k', l)
  let remaining := (owners.find? (·.1 == k)).map (·.2) |>.getD []
  if remaining.isEmpty then
    { s with owners := owners.filter (·.1 != k),
             cache := { s.cache with items := s.cache.items.filter (fun kv => !strContains kv.1 k) } }
  else { s with owners := owners }

-- ------------------------------------------------------------------------------------------
-- rule-walking evaluation (check_eval.go)

/-- `ruleConnsContain` on the query strings -/
def npRuleConnsContain (ports : List NPPort) (proto port : String) (dst : KPeer) : Except Err Bool :=
  if ports.isEmpty then .ok true
  else if proto == "" && port == "" then .ok false
  else match port.toInt? with
    | none => .error .badPort
    | some n => NetPol.ruleConnsContain ports (Proto.ofStrFold? proto) n dst

/-- `IngressAllowedConn` / `EgressAllowedConn` -/
def npAllowedConn (np : NetPol) (rules : List NPRule) (other : KPeer) (proto port : String) (dst : KPeer) : Except Err Bool :=
  let rec go : List NPRule → Except Err Bool
    | [] => .ok false
    | r :: rest => do
      let sel ← np.ruleSelectsPeer r.peers other
      if !sel then go rest
      else
        let c ← npRuleConnsContain r.ports proto port dst
        if c then pure true else go rest
  go rules

/-- `anpPortContains` on the query strings -/
def anpPortContains (ports : Option (List APort)) (proto port : String) (dst : KPeer) : Except Err Bool :=
  match ports with
  | none => .ok true
  | some _ =>
    if proto == "" && port == "" then .ok false
    else match port.toInt? with
      | none => .error .badPort
      | some n => .ok (ARule.portContains ports (Proto.ofStrFold? proto) n dst)

/-- `Check{In,E}gressConnAllowed` of an (B)ANP -/
def adminCheck (rules : List ARule) (other dst : KPeer) (proto port : String) (banp : Bool) : Except Err RuleRes :=
  let rec go : List ARule → Except Err RuleRes
    | [] => .ok .notCaptured
    | r :: rest =>
      if r.peers.isEmpty then .error .anpRulePeers
      else if !r.selectsPeer other then go rest
      else do
        let c ← anpPortContains r.ports proto port dst
        if !c then go rest
        else match r.action with
          | .Pass => if banp then .error .badAction else pure .pass
          | .Allow => pure .allow
          | .Deny => pure .deny
  go rules

/-- `allowedXgressConnectionByAdminNetpols`: (result, passOrNonCaptured) -/
def byANPs (e : Engine) (src dst : KPeer) (isIngress : Bool) (proto port : String) : Except Err (Bool × Bool) :=
  let rec go : List ANP → Except Err (Bool × Bool)
    | [] => .ok (false, true)
    | a :: rest =>
      if isIngress then
        if a.selects dst true then do
          let r ← adminCheck a.ingress src dst proto port false
          match r with
          | .notCaptured => go rest
          | .pass => pure (false, true)
          | .allow => pure (true, false)
          | .deny => pure (false, false)
        else go rest
      else
        if a.selects src false then do
          let r ← adminCheck a.egress dst dst proto port false
          match r with
          | .notCaptured => go rest
          | .pass => pure (false, true)
          | .allow => pure (true, false)
          | .deny => pure (false, false)
        else go rest
  go e.anps

/-- `allowedXgressConnectionByNetpols`: (result, captured) -/
def byNetpols (e : Engine) (src dst : KPeer) (isIngress : Bool) (proto port : String) : Except Err (Bool × Bool) :=
  let pols := if isIngress then e.policiesSelecting dst .ingress else e.policiesSelecting src .egress
  if pols.isEmpty then .ok (false, false)
  else
    let rec go : List NetPol → Except Err (Bool × Bool)
      | [] => .ok (false, true)
      | np :: rest => do
        let r ← if isIngress then npAllowedConn np np.ingress src proto port dst
                else npAllowedConn np np.egress dst proto port dst
        if r then pure (true, true) else go rest
    go pols

/-- `allowedXgressByBaselineAdminNetpolOrByDefault` -/
def byBANP (e : Engine) (src dst : KPeer) (isIngress : Bool) (proto port : String) : Except Err Bool :=
  match e.banp with
  | none => .ok true
  | some b =>
    if isIngress then
      if b.selects dst true then do
        let r ← adminCheck b.ingress src dst proto port true
        match r with
        | .notCaptured => pure true
        | .allow => pure true
        | .deny => pure false
        | .pass => .error .badAction
      else pure true
    else
      if b.selects src false then do
        let r ← adminCheck b.egress dst dst proto port true
        match r with
        | .notCaptured => pure true
        | .allow => pure true
        | .deny => pure false
        | .pass => .error .badAction
      else pure true

/-- `allowedXgressConnection`: the verdict of one direction -/
def xgress (s : EState) (src dst : KPeer) (isIngress : Bool) (proto port : String) : Except Err Bool := do
  let (anpRes, pass) ← byANPs s.eng src dst isIngress proto port
  if !pass then pure anpRes
  else
    let (npRes, captured) ← byNetpols s.eng src dst isIngress proto port
    if captured then pure npRes
    else byBANP s.eng src dst isIngress proto port

def isIPv4 (s : String) : Option Nat :=
  match s.splitOn "." with
  | [a, b, c, d] => do
    let a ← a.toNat?; let b ← b.toNat?; let c ← c.toNat?; let d ← d.toNat?
    if a < 256 ∧ b < 256 ∧ c < 256 ∧ d < 256 then some (((a * 256 + b) * 256 + c) * 256 + d) else none
  | _ => none

/-- `getPeer` -/
def getPeer (e : Engine) (p : String) : Except Err KPeer :=
  let cidr : Option Cidr := match p.splitOn "/" with
    | [a, n] => do
      let addr ← isIPv4 a
      let pfx ← n.toNat?
      if pfx ≤ 32 then some ⟨addr, pfx⟩ else none
    | _ => none
  match cidr with
  | some c => .ok (.ip [c.toIv])
  | none =>
    match isIPv4 p with
    | some a => .ok (.ip [⟨a, a⟩])
    | none =>
      if strContains p "/" then
        match e.findPod p with
        | none => .error .notFoundPeer
        | some pod =>
          match e.findNs (if pod.ns == "" then "default" else pod.ns) with
          | none => .error .notFoundNamespace
          | some ns => .ok (.pod pod (some ns))
      else .error .invalidPeer

/-- `CheckIfAllowed` -/
def checkIfAllowed (s : EState) (src dst proto port : String) : Except Err Bool × EState :=
  match getPeer s.eng src with
  | .error e => (.error e, s)
  | .ok sp =>
    match getPeer s.eng dst with
    | .error e => (.error e, s)
    | .ok dp =>
      if Engine.isPodToItself sp dp then (.ok true, s)
      else if (proto != "" || port != "") && port.toInt?.isNone then (.error .badPort, s)
      else
        let k := connKey sp dp proto port
        let (hit, cache') := if k == "" then (none, s.cache) else s.cache.get k
        let s := { s with cache := cache' }
        match hit with
        | some v => (.ok v, s)
        | none =>
          match xgress s sp dp false proto port with
          | .error e => (.error e, s)
          | .ok eg =>
            if !eg then (.ok false, s.cacheAdd sp dp proto port false)
            else match xgress s sp dp true proto port with
              | .error e => (.error e, s)
              | .ok ing => (.ok ing, s.cacheAdd sp dp proto port ing)

-- ------------------------------------------------------------------------------------------
-- updates

inductive Out where
  | ok | err (e : Err) | ans (b : Bool) | panic
deriving Repr, Inhabited

/-- `InsertObject` with its cache maintenance -/
def insert (s : EState) (o : Obj) : Out × EState :=
  match o with
  | .ns n => (.ok, ({ s with eng := s.eng.insertNamespace n } : EState).cacheClear)
  | .wl w =>
    let pods := Engine.podsFromWorkload w
    (.ok, pods.foldl (fun acc p => ({ acc with eng := acc.eng.insertPodObj p } : EState).cacheAddPod p) s)
  | .pod p =>
    if p.hostIP == "" then (.err .badPod, s)
    else (.ok, ({ s with eng := s.eng.insertPodObj p } : EState).cacheAddPod p)
  | .np p =>
    match s.eng.insertNetpol p with
    | .error e => (.err e, s)
    | .ok e => (.ok, ({ s with eng := e } : EState).cacheClear)
  | .anp a =>
    match s.eng.insertANP a with
    | .error e => (.err e, s)
    | .ok e => (.ok, ({ s with eng := e } : EState).cacheClear)
  | .banp b =>
    match s.eng.insertBANP b with
    | .error e => (.err e, s)
    | .ok e => (.ok, ({ s with eng := e } : EState).cacheClear)
  | _ => (.ok, s)

/-- remove the first entry with that name -/
def removeFirstNamed (name : String) : List ANP → List ANP
  | [] => []
  | a :: rest => if a.name == name then rest else a :: removeFirstNamed name rest

/-- `DeleteObject` -/
def delete (s : EState) (o : Obj) : Out × EState :=
  match o with
  | .ns n => (.ok, ({ s with eng := { s.eng with namespaces := s.eng.namespaces.filter (·.name != n.name) } } : EState).cacheClear)
  | .pod p =>
    match s.eng.findPod (Engine.podKey p) with
    | none => (.ok, s)
    | some cur =>
      let s1 := s.cacheDeletePod cur
      (.ok, { s1 with eng := { s1.eng with pods := s1.eng.pods.filter (fun q => Engine.podKey q != Engine.podKey p) } })
  | .np p =>
    let ns := if p.ns == "" then "default" else p.ns
    (.ok, ({ s with eng := { s.eng with netpols := s.eng.netpols.filter (fun q => !(q.ns == ns && q.name == p.name)) } } : EState).cacheClear)
  | .anp a =>
    let names := s.eng.anpNames.filter (· != a.name)
    (.ok, ({ s with eng := { s.eng with anpNames := names, anps := removeFirstNamed a.name s.eng.anps } } : EState).cacheClear)
  | .banp b =>
    match s.eng.banp with
    | none => (.ok, s)
    | some cur => if cur.name == b.name then (.ok, ({ s with eng := { s.eng with banp := none } } : EState).cacheClear) else (.ok, s)
  | _ => (.ok, s)

/-- inserts in the given order through the insert entry point; stops at the first rejected one -/
def insertAll (s : EState) : List Obj → Out × EState
  | [] => (.ok, s)
  | o :: rest =>
    match s.insert o with
    | (.err e, s') => (.err e, s')
    | (_, s') => insertAll s' rest

/-- `SetResources`: the namespaces, then the policies, then the pods -/
def setResources (s : EState) (nps : List NetPol) (pods : List Pod) (nss : List NsObj) : Out × EState :=
  s.insertAll (nss.map .ns ++ nps.map .np ++ pods.map .pod)

end EState
end Netpol
