import Netpol.Model.WorldDriver
/-! Model of the file-processing pipeline around the analysis (`ConnlistFromDirPath`,
`ResourceInfoListToK8sObjectsList`, `stopProcessing`, `hasFatalError`): the scanner is a
parameter — every injected document comes with the class the real scanner/parser gave it. -/
namespace Netpol
namespace Pipeline
open Sexp

inductive ScanClass where
  | ignored      -- other kinds, non-manifests: skipped silently
  | unreadable   -- the builder reports an error for the file
  | malformed    -- a known kind that fails schema conversion: `MalformedYamlDoc`, severe
deriving Repr, DecidableEq, Inhabited

def ScanClass.ofStr? (s : String) : Option ScanClass :=
  match s with
  | "ignored" => some .ignored | "unreadable" => some .unreadable | "malformed" => some .malformed
  | _ => none

def hasWorkload (objs : List Obj) : Bool :=
  objs.any fun o => match o with | .wl _ | .pod _ => true | _ => false

/-- the result of `list` on the good documents `objs` plus documents of the given classes -/
def outcome (objs : List Obj) (classes : List ScanClass) (stop : Bool) : Sexp :=
  if stop && classes.contains .unreadable then
    -- the builder stops at the first error; ConnlistFromDirPath returns it as a fatal error
    .list [.atom "err", .atom "other"]
  else
    let severe := classes.contains .malformed || !hasWorkload objs
    if stop && severe then .list [.atom "ok", .list [.atom "peers"]]      -- stopProcessing: empty result, no error
    else WorldDriver.runList objs ""

/-- `(baddoc ID (world …) (stop b) (inj KIND PLACE SEED CLASS)…)` -/
def run (args : List Sexp) : Sexp :=
  match args with
  | id :: w :: rest =>
    match WorldParse.pWorld w with
    | none => .list [.atom "baddoc", id, .atom "bad-world"]
    | some objs =>
      let stop := match Sexp.field "stop" rest with
        | some (.list [_, .atom b]) => b == "1"
        | _ => false
      let classes := (Sexp.fields "inj" rest).filterMap fun i =>
        match i with
        | .list [_, _, _, _, .atom c] => ScanClass.ofStr? c
        | _ => none
      -- as coded (recorded finding C13-broken-document-cuts-the-file): the scanner stops reading a file at a document
      -- it cannot parse, so an unreadable document placed inside the good file, before its (seed mod n)-th document,
      -- loses that document and all the later ones of the file
      let cut : Option Nat := (Sexp.fields "inj" rest).findSome? fun i =>
        match i with
        | .list [_, .atom kind, .atom "middle", seed, .atom "unreadable"] =>
            if kind == "truncate" || kind == "tabs" || kind == "notyaml" then seed.nat?.map (· % objs.length) else none
        | _ => none
      let objs := match cut with | some k => objs.take k | none => objs
      -- nothing could be read at all (every document of the input is lost or unreadable): ConnlistFromDirPath fails
      if cut.isSome && objs.isEmpty && classes.all (· == .unreadable) then
        .list [.atom "baddoc", id, .list [.atom "err", .atom "other"]]
      else
      .list [.atom "baddoc", id, outcome objs classes stop]
  | _ => .atom "bad-case"

end Pipeline
end Netpol
