import Netpol.Model.ConnSet
/-! Input objects of the analysis: label maps and selectors (Kubernetes `LabelSelector`
semantics, pinned in DESIGN.md appendix A), namespaces, pods/workloads, NetworkPolicy,
AdminNetworkPolicy, BaselineAdminNetworkPolicy. -/
namespace Netpol

abbrev Labels := List (String × String)

def Labels.get? (l : Labels) (k : String) : Option String := (l.find? (·.1 == k)).map (·.2)

inductive SelOp where
  | In | NotIn | Exists | DoesNotExist
deriving Repr, DecidableEq, Inhabited

structure Req where
  key : String
  op : SelOp
  vals : List String
deriving Repr, DecidableEq, Inhabited

/-- `Requirement.Matches` -/
def Req.matches (r : Req) (l : Labels) : Bool :=
  match r.op, l.get? r.key with
  | .In, some v => r.vals.contains v
  | .In, none => false
  | .NotIn, some v => !r.vals.contains v
  | .NotIn, none => true
  | .Exists, o => o.isSome
  | .DoesNotExist, o => o.isNone

structure Selector where
  matchLabels : Labels
  exprs : List Req
deriving Repr, DecidableEq, Inhabited

/-- a non-nil selector after `LabelSelectorAsSelector`: all requirements must match -/
def Selector.matches (s : Selector) (l : Labels) : Bool :=
  s.matchLabels.all (fun kv => l.get? kv.1 == some kv.2) && s.exprs.all (·.matches l)

/-- `LabelSelector.Size() == 0` -/
def Selector.isEmpty (s : Selector) : Bool := s.matchLabels.isEmpty && s.exprs.isEmpty

/-- `LabelSelectorAsSelector` on a possibly nil selector: nil selects nothing -/
def selMatches (s : Option Selector) (l : Labels) : Bool :=
  match s with
  | none => false
  | some s => s.matches l

structure CPort where
  name : String      -- "" when unnamed
  proto : Proto      -- defaulted to TCP
  port : Int
deriving Repr, DecidableEq, Inhabited

structure Pod where
  ns : String
  name : String
  labels : Labels
  ports : List CPort
  ownerKind : String := ""
  ownerName : String := ""
  variant : String := ""      -- pre-image of the label hash; "" when there is no owner
  hostIP : String := "127.0.0.1"
  fake : Bool := false
  /-- only for representative pods (exposure analysis) -/
  reprPodSel : Option Selector := none
  reprNsSel : Option Selector := none
deriving Repr, DecidableEq, Inhabited

structure NsObj where
  name : String
  labels : Labels
deriving Repr, DecidableEq, Inhabited

/-- IPv4 CIDR -/
structure Cidr where
  addr : Nat
  pfx : Nat
deriving Repr, DecidableEq, Inhabited

/-- `cidrToInterval` -/
def Cidr.toIv (c : Cidr) : Iv :=
  let size : Nat := 2 ^ (32 - c.pfx)
  let lo := (c.addr / size) * size
  ⟨lo, lo + size - 1⟩

inductive NPPeer where
  | sel (pod : Option Selector) (ns : Option Selector)
  | ip (cidr : Cidr) (excepts : List Cidr)
deriving Repr, DecidableEq, Inhabited

inductive NPPortKind where
  | all
  | num (p : Int) (endPort : Option Int)
  | name (n : String)
deriving Repr, DecidableEq, Inhabited

structure NPPort where
  proto : Option Proto
  kind : NPPortKind
deriving Repr, DecidableEq, Inhabited

structure NPRule where
  peers : List NPPeer
  ports : List NPPort
deriving Repr, DecidableEq, Inhabited

inductive Dir where
  | ingress | egress
deriving Repr, DecidableEq, Inhabited

structure NetPol where
  ns : String
  name : String
  podSel : Selector
  types : List Dir          -- explicit spec.policyTypes
  ingress : List NPRule
  egress : List NPRule
deriving Repr, DecidableEq, Inhabited

inductive Action where
  | Allow | Deny | Pass
deriving Repr, DecidableEq, Inhabited

inductive Subject where
  | nss (s : Selector)
  | pods (ns : Selector) (pod : Selector)
deriving Repr, DecidableEq, Inhabited

inductive APort where
  | num (pr : Option Proto) (n : Int)
  | range (pr : Option Proto) (a b : Int)
  | named (n : String)
deriving Repr, DecidableEq, Inhabited

structure ARule where
  name : String
  action : Action
  peers : List Subject
  ports : Option (List APort)
deriving Repr, DecidableEq, Inhabited

structure ANP where
  name : String
  prio : Int
  subject : Subject
  ingress : List ARule
  egress : List ARule
deriving Repr, DecidableEq, Inhabited

structure BANP where
  name : String
  subject : Subject
  ingress : List ARule
  egress : List ARule
deriving Repr, DecidableEq, Inhabited

/-- a workload manifest (Deployment, ReplicaSet, StatefulSet, DaemonSet, Job, CronJob, ReplicationController) -/
structure Workload where
  kind : String
  ns : String
  name : String
  replicas : Option Int    -- `spec.replicas` / `spec.parallelism`; ignored for DaemonSet and CronJob
  labels : Labels
  ports : List CPort
deriving Repr, DecidableEq, Inhabited

structure SvcPort where
  name : String
  port : Int
  targetNum : Option Int
  targetName : Option String
  proto : Proto
deriving Repr, DecidableEq, Inhabited

structure Service where
  ns : String
  name : String
  selector : Labels
  ports : List SvcPort
deriving Repr, DecidableEq, Inhabited

/-- Ingress backend: service name and port by number or name -/
structure IngBackend where
  svc : String
  portNum : Option Int
  portName : Option String
deriving Repr, DecidableEq, Inhabited

structure Ingress where
  ns : String
  name : String
  default : Option IngBackend
  rules : List (List IngBackend)     -- per rule the backends of its http paths
deriving Repr, DecidableEq, Inhabited

structure Route where
  ns : String
  name : String
  toKind : String
  toName : String
  alternates : List (String × String)
  targetPortNum : Option Int
  targetPortName : Option String
deriving Repr, DecidableEq, Inhabited

inductive Obj where
  | ns (n : NsObj)
  | wl (w : Workload)
  | pod (p : Pod)
  | np (p : NetPol)
  | anp (a : ANP)
  | banp (b : BANP)
  | svc (s : Service)
  | ing (i : Ingress)
  | route (r : Route)
deriving Repr, Inhabited

def nsNameLabelKey : String := "kubernetes.io/metadata.name"

/-- `fmt.Sprintf("%v", labels)` of a Go map prints keys sorted: the pre-image of the variant hash -/
def variantOfLabels (l : Labels) : String :=
  let sorted := l.mergeSort (fun a b => a.1 ≤ b.1)
  "map[" ++ " ".intercalate (sorted.map fun kv => kv.1 ++ ":" ++ kv.2) ++ "]"

/-- `variantFromLabelsAndPorts`: what the evaluation reads from a pod of a given owner — its labels and its named
container ports (`name/protocol/number` in the pod's order, protocol defaulted to TCP; nothing is appended when no port
is named): the pre-image of the variant hash -/
def variantOf (l : Labels) (ports : List CPort) : String :=
  let named := (ports.filter fun c => c.name != "").map fun c => c.name ++ "/" ++ c.proto.toStr ++ "/" ++ toString c.port
  -- `hex(pre-image) ++ hex(sha1 "")`: the constant suffix is modelled by the terminator `$`, so that one variant is
  -- never a proper prefix of another (the cache deletes keys by substring)
  (if named.isEmpty then variantOfLabels l
   else variantOfLabels l ++ "[" ++ " ".intercalate named ++ "]") ++ "$"

end Netpol
