import Netpol.Sexp
import Netpol.Model.ConnSet
/-! Driver side of the C11 correspondence: executes an operation sequence over a pool of
connection sets and prints, after every operation, the observable state of every pool member. -/
namespace Netpol
namespace AlgDriver
open Sexp

def b01 (b : Bool) : String := if b then "1" else "0"

/-- ports probed by `Contains` after every step -/
def probePorts : List Int := [0, 1, 2, 79, 80, 81, 443, 1023, 1024, 65534, 65535, 65536]

def dumpPS (ps : PortSet) : Sexp :=
  .list [.atom "ps",
    .list (.atom "iv" :: ps.ports.map fun i => .list [.atom (toString i.lo), .atom (toString i.hi)]),
    .list (.atom "n" :: ps.named.map .atom),
    .list (.atom "x" :: ps.excluded.map .atom)]

def dumpCS (c : ConnSet) : Sexp :=
  .list ([.atom "cs", .atom (b01 c.allowAll), .atom (b01 c.isEmpty),
    .atom (c.toStr.replace " " "_")] ++
    ([Proto.SCTP, Proto.TCP, Proto.UDP].filterMap fun pr =>
      (c.get pr).map fun ps => .list [.atom pr.toStr, dumpPS ps]) ++
    [.atom ((ConnSet.connStrFromProps c.allowAll c.protocolsAndPorts).replace " " "_")])

def parsePortSet (s : Sexp) : Option PortSet := do
  -- (ps all|none ITEM...)  ITEM = (r lo hi) | (n name) | (p num) | (rm num) | (rmn name)
  let xs ← s.list?
  match xs with
  | .atom "ps" :: .atom a :: items =>
    let base := PortSet.mk' (a == "all")
    items.foldlM (fun (acc : PortSet) it =>
      match it with
      | .list [.atom "r", lo, hi] => do some (acc.addPortRange (← lo.int?) (← hi.int?))
      | .list [.atom "p", n] => do some (acc.addPort (.num (← n.int?)))
      | .list [.atom "n", .atom nm] => some (acc.addPort (.name nm))
      | .list [.atom "rm", n] => do some (acc.removePort (.num (← n.int?)))
      | .list [.atom "rmn", .atom nm] => some (acc.removePort (.name nm))
      | _ => none) base
  | _ => none

def getP (pool : Array ConnSet) (s : Sexp) : Option ConnSet := do
  let i ← s.nat?
  pool[i]?

/-- one operation; `none` in the state position means the Go code would panic (nil entry) -/
def stepOp (pool : Array ConnSet) (op : Sexp) : Option (Array ConnSet) :=
  match op with
  | .list [.atom "mk", i, .atom a] => do some (pool.setIfInBounds (← i.nat?) (ConnSet.mk' (a == "all")))
  | .list [.atom "alltcp", i] => do some (pool.setIfInBounds (← i.nat?) ConnSet.allTCP)
  | .list [.atom "addconn", i, .atom pr, ps] => do
      let c ← getP pool i
      some (pool.setIfInBounds (← i.nat?) (c.addConnection (← Proto.ofStr? pr) (← parsePortSet ps)))
  | .list [.atom "union", i, j] => do
      some (pool.setIfInBounds (← i.nat?) ((← getP pool i).union (← getP pool j)))
  | .list [.atom "inter", i, j] => do
      some (pool.setIfInBounds (← i.nat?) ((← getP pool i).inter (← getP pool j)))
  | .list [.atom "sub", i, j] => do
      some (pool.setIfInBounds (← i.nat?) ((← getP pool i).subtract (← getP pool j)))
  | .list [.atom "copy", i, j] => do
      some (pool.setIfInBounds (← i.nat?) (← getP pool j).copy)
  | .list [.atom "replace", i, .atom pr, .atom nm, n] => do
      let c ← getP pool i
      let r ← c.replaceNamedPort (← Proto.ofStr? pr) nm (← n.int?)
      some (pool.setIfInBounds (← i.nat?) r)
  | _ => none

def observe (pool : Array ConnSet) : Sexp :=
  let l := pool.toList
  let eqM := String.join (l.map fun a => String.join (l.map fun b => b01 (a.equal b)))
  let subM := String.join (l.map fun a => String.join (l.map fun b => b01 (a.containedIn b)))
  let cont := String.join (l.map fun a => String.join (Proto.all.map fun pr =>
    String.join (probePorts.map fun p => b01 (a.containsStr (toString p) pr.toStr))))
  .list ([.atom "st"] ++ l.map dumpCS ++ [.atom eqM, .atom subM, .atom cont])

/-- `(alg ID OP…)` → `(alg ID OBS…)`: one observation per operation -/
def run (args : List Sexp) : Sexp :=
  match args with
  | id :: ops =>
    let init : Array ConnSet := Array.replicate 4 (ConnSet.mk' false)
    let (_, outs) := ops.foldl (fun (st : Option (Array ConnSet) × List Sexp) op =>
      match st.1 with
      | none => (none, st.2)
      | some pool =>
        match stepOp pool op with
        | none => (none, .atom "panic" :: st.2)
        | some pool' => (some pool', observe pool' :: st.2)) (some init, [])
    .list (.atom "alg" :: id :: outs.reverse)
  | _ => .atom "bad-case"

end AlgDriver
end Netpol
