/-! Prototype: any correct comparison sort must compare two tied elements. -/
namespace Netpol.Sort

inductive Alg (n : Nat) where
  | done : List (Fin n) → Alg n
  | cmp  : Fin n → Fin n → Alg n → Alg n → Alg n

variable {n : Nat}

/-- run with an arbitrary `less` oracle: output and the list of asked pairs -/
def run (less : Fin n → Fin n → Bool) : Alg n → List (Fin n) × List (Fin n × Fin n)
  | .done out => (out, [])
  | .cmp a b l r =>
    let sub := if less a b then run less l else run less r
    (sub.1, (a, b) :: sub.2)

def lessOf (k : Fin n → Nat) (a b : Fin n) : Bool := decide (k a < k b)

/-- correctness: for every key assignment the output contains every index and is sorted -/
def Correct (alg : Alg n) : Prop :=
  ∀ k : Fin n → Nat, (∀ i, i ∈ (run (lessOf k) alg).1) ∧ (run (lessOf k) alg).1.Nodup ∧
    (run (lessOf k) alg).1.Pairwise (fun a b => k a ≤ k b)

/-- two oracles that agree on every asked pair give the same run -/
theorem run_congr (f g : Fin n → Fin n → Bool) (alg : Alg n)
    (h : ∀ p ∈ (run f alg).2, f p.1 p.2 = g p.1 p.2) : run g alg = run f alg := by
  induction alg with
  | done out => rfl
  | cmp a b l r ihl ihr =>
    have hab : f a b = g a b := h (a, b) (by simp [run])
    simp only [run] at h ⊢
    rw [← hab]
    cases hf : f a b
    · simp only [hf] at h ⊢
      have := ihr (fun p hp => h p (by simp [hp]))
      simp [this]
    · simp only [hf] at h ⊢
      have := ihl (fun p hp => h p (by simp [hp]))
      simp [this]

theorem sublist_pair_of_mem {α} [DecidableEq α] {l : List α} (hn : l.Nodup) {a b : α}
    (ha : a ∈ l) (hb : b ∈ l) (hab : a ≠ b) : [a, b].Sublist l ∨ [b, a].Sublist l := by
  induction l with
  | nil => cases ha
  | cons x xs ih =>
    have hn' := (List.nodup_cons.mp hn)
    rcases List.mem_cons.mp ha with rfl | ha'
    · rcases List.mem_cons.mp hb with rfl | hb'
      · exact absurd rfl hab
      · left; exact List.Sublist.cons_cons _ (List.singleton_sublist.mpr hb')
    · rcases List.mem_cons.mp hb with rfl | hb'
      · right; exact List.Sublist.cons_cons _ (List.singleton_sublist.mpr ha')
      · rcases ih hn'.2 ha' hb' with h | h
        · left; exact List.Sublist.cons _ h
        · right; exact List.Sublist.cons _ h

/-- MAIN: a correct algorithm, run on keys with a tie, asks about some tied pair. -/
theorem tie_is_compared (alg : Alg n) (hc : Correct alg) (k : Fin n → Nat)
    (i j : Fin n) (hij : i ≠ j) (hk : k i = k j) :
    ∃ p ∈ (run (lessOf k) alg).2, p.1 ≠ p.2 ∧ k p.1 = k p.2 := by
  apply Classical.byContradiction
  intro hno
  have hno' : ∀ p ∈ (run (lessOf k) alg).2, p.1 = p.2 ∨ k p.1 ≠ k p.2 := by
    intro p hp
    by_cases h1 : p.1 = p.2
    · exact Or.inl h1
    · right; intro h2; exact hno ⟨p, hp, h1, h2⟩
  -- two strict perturbations
  let k1 : Fin n → Nat := fun x => (n + 1) * k x + x.val
  let k2 : Fin n → Nat := fun x => (n + 1) * k x + (n - x.val)
  have agree1 : ∀ p ∈ (run (lessOf k) alg).2, lessOf k p.1 p.2 = lessOf k1 p.1 p.2 := by
    intro p hp
    rcases hno' p hp with h | h
    · simp [lessOf, h]
    · simp only [lessOf, k1]
      have := p.1.isLt; have := p.2.isLt
      rcases Nat.lt_or_gt_of_ne h with hlt | hgt
      · have : (n+1) * k p.1 + (n+1) ≤ (n+1) * k p.2 := by
          have := Nat.mul_le_mul_left (n+1) (Nat.succ_le_of_lt hlt)
          simpa [Nat.mul_succ] using this
        simp [hlt]; omega
      · have : (n+1) * k p.2 + (n+1) ≤ (n+1) * k p.1 := by
          have := Nat.mul_le_mul_left (n+1) (Nat.succ_le_of_lt hgt)
          simpa [Nat.mul_succ] using this
        have h1 : ¬ k p.1 < k p.2 := by omega
        simp [h1]; omega
  have agree2 : ∀ p ∈ (run (lessOf k) alg).2, lessOf k p.1 p.2 = lessOf k2 p.1 p.2 := by
    intro p hp
    rcases hno' p hp with h | h
    · simp [lessOf, h]
    · simp only [lessOf, k2]
      have := p.1.isLt; have := p.2.isLt
      rcases Nat.lt_or_gt_of_ne h with hlt | hgt
      · have : (n+1) * k p.1 + (n+1) ≤ (n+1) * k p.2 := by
          have := Nat.mul_le_mul_left (n+1) (Nat.succ_le_of_lt hlt)
          simpa [Nat.mul_succ] using this
        simp [hlt]; omega
      · have : (n+1) * k p.2 + (n+1) ≤ (n+1) * k p.1 := by
          have := Nat.mul_le_mul_left (n+1) (Nat.succ_le_of_lt hgt)
          simpa [Nat.mul_succ] using this
        have h1 : ¬ k p.1 < k p.2 := by omega
        simp [h1]; omega
  have r1 := run_congr (lessOf k) (lessOf k1) alg agree1
  have r2 := run_congr (lessOf k) (lessOf k2) alg agree2
  obtain ⟨m1, nd1, s1⟩ := hc k1
  obtain ⟨m2, nd2, s2⟩ := hc k2
  rw [r1] at m1 nd1 s1
  rw [r2] at m2 nd2 s2
  -- wlog on the order of i j by value
  have key : ∀ a b : Fin n, a ≠ b → k a = k b → a.val < b.val → False := by
    intro a b hab hkab hlt
    have k1lt : k1 a < k1 b := by simp only [k1, hkab]; omega
    have k2lt : k2 b < k2 a := by
      simp only [k2, hkab]; have := a.isLt; have := b.isLt; omega
    rcases sublist_pair_of_mem nd1 (m1 a) (m1 b) hab with h | h
    · -- a before b: contradict k2
      have := (List.pairwise_pair.mp (s2.sublist h))
      omega
    · have := (List.pairwise_pair.mp (s1.sublist h))
      omega
  rcases Nat.lt_or_gt_of_ne (fun h => hij (Fin.ext h)) with h | h
  · exact key i j hij hk h
  · exact key j i (Ne.symm hij) hk.symm h

/-! ## (B) for `n ≥ 2` every index takes part in some comparison -/

theorem le_sum_of_mem {l : List Nat} {a : Nat} (h : a ∈ l) : a ≤ l.sum := by
  induction l with
  | nil => cases h
  | cons x xs ih =>
    rw [List.sum_cons]
    rcases List.mem_cons.mp h with rfl | h'
    · omega
    · have := ih h'; omega

/-- the sum of all keys: an upper bound of every key -/
def sumKeys (k : Fin n → Nat) : Nat := ((List.finRange n).map k).sum

theorem le_sumKeys (k : Fin n → Nat) (x : Fin n) : k x ≤ sumKeys k :=
  le_sum_of_mem (List.mem_map.mpr ⟨x, List.mem_finRange x, rfl⟩)

/-- a correct algorithm on at least two elements asks about every index, whatever the keys -/
theorem every_index_compared (alg : Alg n) (hc : Correct alg) (hn : 2 ≤ n) (k : Fin n → Nat)
    (i : Fin n) : ∃ p ∈ (run (lessOf k) alg).2, p.1 = i ∨ p.2 = i := by
  apply Classical.byContradiction
  intro hno
  have hno' : ∀ p ∈ (run (lessOf k) alg).2, p.1 ≠ i ∧ p.2 ≠ i := by
    intro p hp
    refine ⟨fun h => hno ⟨p, hp, Or.inl h⟩, fun h => hno ⟨p, hp, Or.inr h⟩⟩
  -- index `i` pushed above everything / below everything; other keys shifted by one
  let khi : Fin n → Nat := fun x => if x = i then sumKeys k + 2 else k x + 1
  let klo : Fin n → Nat := fun x => if x = i then 0 else k x + 1
  have agree1 : ∀ p ∈ (run (lessOf k) alg).2, lessOf k p.1 p.2 = lessOf khi p.1 p.2 := by
    intro p hp
    obtain ⟨h1, h2⟩ := hno' p hp
    simp [lessOf, khi, h1, h2]
  have agree2 : ∀ p ∈ (run (lessOf k) alg).2, lessOf k p.1 p.2 = lessOf klo p.1 p.2 := by
    intro p hp
    obtain ⟨h1, h2⟩ := hno' p hp
    simp [lessOf, klo, h1, h2]
  have r1 := run_congr (lessOf k) (lessOf khi) alg agree1
  have r2 := run_congr (lessOf k) (lessOf klo) alg agree2
  obtain ⟨m1, nd1, s1⟩ := hc khi
  obtain ⟨_, _, s2⟩ := hc klo
  rw [r1] at m1 nd1 s1
  rw [r2] at s2
  -- some other index
  obtain ⟨j, hji⟩ : ∃ j : Fin n, j ≠ i := by
    by_cases h0 : i.val = 0
    · exact ⟨⟨1, by omega⟩, fun h => by have := congrArg Fin.val h; simp at this; omega⟩
    · exact ⟨⟨0, by omega⟩, fun h => by have := congrArg Fin.val h; simp at this; omega⟩
  have hkj := le_sumKeys k j
  rcases sublist_pair_of_mem nd1 (m1 i) (m1 j) (Ne.symm hji) with h | h
  · -- `i` before `j`: impossible when `i` has the largest key
    have := List.pairwise_pair.mp (s1.sublist h)
    simp only [khi, hji, if_true, if_false] at this
    omega
  · -- `j` before `i`: impossible when `i` has the smallest key
    have := List.pairwise_pair.mp (s2.sublist h)
    simp only [klo, hji, if_true, if_false] at this
    omega

/-! ## The Go `less` callback with its error flag, run through the same tree -/

structure Item where
  prio : Int
  /-- priority within 0..1000 -/
  valid : Bool

inductive Flag where
  | none | same | bad
  deriving DecidableEq, Repr

/-- does the flag record an error -/
def Flag.isErr : Flag → Bool
  | .none => false
  | _ => true

/-- the Go callback: result and the error it sets -/
def goLess (items : Fin n → Item) (a b : Fin n) : Bool × Flag :=
  if (items a).prio = (items b).prio then (false, .same)
  else if !(items a).valid then (false, .bad)
  else if !(items b).valid then (false, .bad)
  else (decide ((items a).prio < (items b).prio), .none)

/-- run the tree with `goLess` as the oracle; `true` iff some asked pair sets a flag `≠ none`
(the Go variable `err` is never reset to nil, and the sort goes on after it is set) -/
def runGo (items : Fin n → Item) : Alg n → Bool
  | .done _ => false
  | .cmp a b l r =>
    (goLess items a b).2.isErr ||
      (if (goLess items a b).1 then runGo items l else runGo items r)

/-- when `goLess` sets no flag, the priorities differ, both are valid, and the answer is honest -/
theorem goLess_clean (items : Fin n → Item) (a b : Fin n)
    (h : (goLess items a b).2.isErr = false) :
    (items a).prio ≠ (items b).prio ∧ (items a).valid = true ∧ (items b).valid = true ∧
      (goLess items a b).1 = decide ((items a).prio < (items b).prio) := by
  unfold goLess at h ⊢
  by_cases h1 : (items a).prio = (items b).prio
  · simp [h1, Flag.isErr] at h
  · cases h2 : (items a).valid
    · simp [h1, h2, Flag.isErr] at h
    · cases h3 : (items b).valid
      · simp [h1, h2, h3, Flag.isErr] at h
      · simp [h1]

/-- `keys` is an order-preserving encoding of the priorities -/
def Encodes (items : Fin n → Item) (keys : Fin n → Nat) : Prop :=
  ∀ a b, (items a).prio < (items b).prio ↔ keys a < keys b

/-- if the Go run sets no flag, it coincides with the honest run, and every pair asked by the
honest run has different priorities and two valid priorities -/
theorem runGo_clean (items : Fin n → Item) (keys : Fin n → Nat) (hk : Encodes items keys)
    (alg : Alg n) (h : runGo items alg = false) :
    ∀ p ∈ (run (lessOf keys) alg).2,
      (items p.1).prio ≠ (items p.2).prio ∧ (items p.1).valid = true ∧ (items p.2).valid = true := by
  induction alg with
  | done out => intro p hp; simp [run] at hp
  | cmp a b l r ihl ihr =>
    simp only [runGo, Bool.or_eq_false_iff] at h
    obtain ⟨hflag, hsub⟩ := h
    obtain ⟨hne, hva, hvb, hans⟩ := goLess_clean items a b hflag
    have hsame : lessOf keys a b = (goLess items a b).1 := by
      rw [hans]; simp only [lessOf]
      exact (decide_eq_decide.mpr (hk a b)).symm
    intro p hp
    simp only [run, hsame] at hp
    rcases List.mem_cons.mp hp with rfl | hp'
    · exact ⟨hne, hva, hvb⟩
    · cases hg : (goLess items a b).1
      · simp only [hg] at hsub hp'
        exact ihr (by simpa using hsub) p hp'
      · simp only [hg] at hsub hp'
        exact ihl (by simpa using hsub) p hp'

/-- a canonical encoding of the `Int` priorities by `Nat` keys: shift by the sum of absolute values -/
def keyOf (items : Fin n → Item) (x : Fin n) : Nat :=
  ((items x).prio + (sumKeys (fun y => (items y).prio.natAbs) : Nat)).toNat

theorem keyOf_spec (items : Fin n → Item) (a b : Fin n) :
    ((items a).prio < (items b).prio ↔ keyOf items a < keyOf items b) ∧
    ((items a).prio = (items b).prio ↔ keyOf items a = keyOf items b) := by
  have ha : (items a).prio.natAbs ≤ _ := le_sumKeys (fun y => (items y).prio.natAbs) a
  have hb : (items b).prio.natAbs ≤ _ := le_sumKeys (fun y => (items y).prio.natAbs) b
  unfold keyOf
  constructor <;> omega

theorem keyOf_encodes (items : Fin n → Item) : Encodes items (keyOf items) :=
  fun a b => (keyOf_spec items a b).1

/-- two distinct policies with the same priority: the error is always set -/
theorem conflict_detected (alg : Alg n) (hc : Correct alg) (items : Fin n → Item)
    (i j : Fin n) (hij : i ≠ j) (h : (items i).prio = (items j).prio)
    (hvalid : ∀ x, (items x).valid) : runGo items alg = true := by
  have _ := hvalid
  cases hr : runGo items alg
  · exfalso
    have hclean := runGo_clean items (keyOf items) (keyOf_encodes items) alg hr
    obtain ⟨p, hp, _, hpk⟩ := tie_is_compared alg hc (keyOf items) i j hij
      ((keyOf_spec items i j).2.mp h)
    exact (hclean p hp).1 ((keyOf_spec items p.1 p.2).2.mpr hpk)
  · rfl

/-- MAIN: a tie between distinct elements, or an invalid priority anywhere, always sets the error -/
theorem bad_input_detected (alg : Alg n) (hc : Correct alg) (hn : 2 ≤ n) (items : Fin n → Item)
    (hbad : (∃ i j, i ≠ j ∧ (items i).prio = (items j).prio) ∨ (∃ i, (items i).valid = false)) :
    runGo items alg = true := by
  cases hr : runGo items alg
  · exfalso
    have hclean := runGo_clean items (keyOf items) (keyOf_encodes items) alg hr
    rcases hbad with ⟨i, j, hij, h⟩ | ⟨i, hi⟩
    · obtain ⟨p, hp, _, hpk⟩ := tie_is_compared alg hc (keyOf items) i j hij
        ((keyOf_spec items i j).2.mp h)
      exact (hclean p hp).1 ((keyOf_spec items p.1 p.2).2.mpr hpk)
    · obtain ⟨p, hp, hpi⟩ := every_index_compared alg hc hn (keyOf items) i
      obtain ⟨_, hv1, hv2⟩ := hclean p hp
      rcases hpi with rfl | rfl
      · rw [hi] at hv1; cases hv1
      · rw [hi] at hv2; cases hv2
  · rfl

/-- the whole Go check, with its special case `if len(xs) == 1 && !valid(xs[0]) { return err }` -/
def sortCheck (items : Fin n → Item) (alg : Alg n) : Bool :=
  (if h : n = 1 then !(items ⟨0, by omega⟩).valid else false) || runGo items alg

/-- COROLLARY: for every length, every correct sort: a tie or an invalid priority is reported -/
theorem priority_conflict_rejected (alg : Alg n) (hc : Correct alg) (items : Fin n → Item)
    (hbad : (∃ i j, i ≠ j ∧ (items i).prio = (items j).prio) ∨ (∃ i, (items i).valid = false)) :
    sortCheck items alg = true := by
  unfold sortCheck
  by_cases hn : 2 ≤ n
  · simp [bad_input_detected alg hc hn items hbad]
  · rcases hbad with ⟨i, j, hij, _⟩ | ⟨i, hi⟩
    · exfalso; apply hij; apply Fin.ext; have := i.isLt; have := j.isLt; omega
    · have h1 : n = 1 := by have := i.isLt; omega
      subst h1
      have hi0 : i = ⟨0, by omega⟩ := by
        apply Fin.ext; have := i.isLt; show i.val = 0; omega
      subst hi0
      rw [dif_pos rfl, hi]; rfl

/-! ## No false alarm (not needed for the detection theorems) -/

/-- the tree never compares an element with itself -/
def NoSelfCmp : Alg n → Prop
  | .done _ => True
  | .cmp a b l r => a ≠ b ∧ NoSelfCmp l ∧ NoSelfCmp r

/-- distinct valid priorities never set the error, provided no element is compared with itself -/
theorem clean_input_accepted (alg : Alg n) (hs : NoSelfCmp alg) (items : Fin n → Item)
    (hinj : ∀ i j, i ≠ j → (items i).prio ≠ (items j).prio)
    (hvalid : ∀ x, (items x).valid = true) : runGo items alg = false := by
  induction alg with
  | done out => rfl
  | cmp a b l r ihl ihr =>
    obtain ⟨hab, hl, hr⟩ := hs
    have hflag : (goLess items a b).2.isErr = false := by
      simp [goLess, hinj a b hab, hvalid a, hvalid b, Flag.isErr]
    simp only [runGo, hflag, Bool.false_or]
    cases (goLess items a b).1
    · simpa using ihr hr
    · simpa using ihl hl

/-! ## Non-vacuity: concrete correct algorithms -/

/-- the sort of two elements -/
def sort2 : Alg 2 := .cmp 0 1 (.done [0, 1]) (.done [1, 0])

theorem sort2_correct : Correct sort2 := by
  intro k
  by_cases h : k 0 < k 1 <;>
    simp only [sort2, run, lessOf, h, decide_true, decide_false, Bool.false_eq_true,
      if_true, if_false] <;>
    refine ⟨by decide, by decide, ?_⟩ <;>
    simp <;> omega

/-- insertion sort of three elements, written as a decision tree -/
def sort3 : Alg 3 :=
  .cmp 0 1
    (.cmp 1 2
      (.done [0, 1, 2])
      (.cmp 0 2
        (.done [0, 2, 1])
        (.done [2, 0, 1])))
    (.cmp 0 2
      (.done [1, 0, 2])
      (.cmp 1 2
        (.done [1, 2, 0])
        (.done [2, 1, 0])))

theorem sort3_correct : Correct sort3 := by
  intro k
  by_cases h1 : k 0 < k 1 <;> by_cases h2 : k 1 < k 2 <;> by_cases h3 : k 0 < k 2 <;>
    simp only [sort3, run, lessOf, h1, h2, h3, decide_true, decide_false, Bool.false_eq_true,
      if_true, if_false] <;>
    refine ⟨by decide, by decide, ?_⟩ <;>
    simp <;> omega

/-- the main theorem applies to `sort2` … -/
example (items : Fin 2 → Item)
    (hbad : (∃ i j, i ≠ j ∧ (items i).prio = (items j).prio) ∨ (∃ i, (items i).valid = false)) :
    runGo items sort2 = true :=
  bad_input_detected sort2 sort2_correct (by omega) items hbad

/-- … and to `sort3` -/
example (items : Fin 3 → Item)
    (hbad : (∃ i j, i ≠ j ∧ (items i).prio = (items j).prio) ∨ (∃ i, (items i).valid = false)) :
    sortCheck items sort3 = true :=
  priority_conflict_rejected sort3 sort3_correct items hbad

/-- a wrong "sort" is not `Correct` (so `Correct` is not trivially true either) -/
example : ¬ Correct (.done [0, 1] : Alg 2) := by
  intro hc
  have := (hc (fun i => 1 - i.val)).2.2
  simp [run] at this

/-- concrete runs: a tie between the first and the last element, an invalid middle element,
and a clean input -/
def mkItems (l : List (Int × Bool)) (i : Fin n) : Item := ⟨(l[i.val]!).1, (l[i.val]!).2⟩

example : runGo (n := 3) (mkItems [(5, true), (7, true), (5, true)]) sort3 = true := by decide
example : runGo (n := 3) (mkItems [(5, true), (2000, false), (6, true)]) sort3 = true := by decide
example : runGo (n := 3) (mkItems [(5, true), (7, true), (6, true)]) sort3 = false := by decide

end Netpol.Sort
