import Netpol.Model.Engine
/-! Model of the exposure analysis: `pkg/netpol/eval/exposure.go`, the policy pre-scan of
`netpol.go` (`GetPolicyRulesSelectorsAndUpdateExposureClusterWideConns`), the representative
peers of `resources.go`, the exposure shortcuts of `check.go` and `pkg/netpol/connlist/exposure_map.go`.

The Go code fills per-pod flags (`IsProtected`, `ClusterWideConnection`) as a side effect of
connectivity queries and reads them when a peer is first visited; because the peers list starts
with the IP ranges, the flag of a direction is always computed before it is read (a pair with an
IP end always evaluates the workload's side), so the model computes them as pure functions. -/
namespace Netpol
namespace Exposure
open Engine

/-- the rule selectors for which a representative peer is generated -/
structure RuleSel where
  podSel : Option Selector
  nsSel : Option Selector
deriving Repr, Inhabited

/-- pre-scanned data of one policy direction -/
structure Scan where
  external : ConnSet := ConnSet.mk' false      -- `ExternalExposure`
  clusterWide : ConnSet := ConnSet.mk' false   -- `ClusterWideExposure`
  sels : List RuleSel := []
deriving Repr, Inhabited

def selSize0 (s : Option Selector) : Bool :=
  match s with
  | some x => x.isEmpty
  | none => false

/-- `getSelectorsAndUpdateExposureClusterWideConns` for one rule -/
def scanRule (sc : Scan) (r : NPRule) : Except Err Scan := do
  if r.peers.isEmpty then
    let c ← NetPol.ruleConnections r.ports none
    pure { sc with external := sc.external.union c, clusterWide := sc.clusterWide.union c }
  else
    -- walk the peers; an entire-cluster peer ends the walk and drops the selectors collected in this rule
    let rec go (acc : List RuleSel) : List NPPeer → Except Err (Option (List RuleSel))
      | [] => .ok (some acc)
      | p :: rest =>
        match p with
        | .ip .. => go acc rest
        | .sel podSel nsSel =>
          if nsSel.isSome && selSize0 nsSel && (podSel.isNone || selSize0 podSel) then .ok none
          else go (acc ++ [⟨podSel, nsSel⟩]) rest
    match ← go [] r.peers with
    | none => do
      let c ← NetPol.ruleConnections r.ports none
      pure { sc with clusterWide := sc.clusterWide.union c }
    | some l => pure { sc with sels := sc.sels ++ l }

/-- `scanIngressRules` / `scanEgressRules` (only when the policy affects the direction) -/
def scan (np : NetPol) (d : Dir) : Except Err Scan :=
  if !np.affects d then .ok {}
  else (match d with | .ingress => np.ingress | .egress => np.egress).foldlM scanRule {}

/-- `UniqueKeyFromLabelsSelector`: the requirement strings joined with `;` (hash pre-image) -/
def uniqueKey (s : Option Selector) : String :=
  match s with
  | none => ""
  | some x => ";".intercalate x.reqStrings

def nsNameSelector (ns : String) : Selector := ⟨[(nsNameLabelKey, ns)], []⟩

/-- `(*metav1.LabelSelector).String()` (generated code: matchLabels printed by sorted key, expressions as written) -/
def goSelString (s : Option Selector) : String :=
  match s with
  | none => "nil"
  | some x =>
    let ml := (x.matchLabels.mergeSort (fun a b => a.1 ≤ b.1)).map fun kv => kv.1 ++ ": " ++ kv.2 ++ ","
    let me := x.exprs.map fun r =>
      "LabelSelectorRequirement{Key:" ++ r.key ++ ",Operator:" ++
        (match r.op with | .In => "In" | .NotIn => "NotIn" | .Exists => "Exists" | .DoesNotExist => "DoesNotExist") ++
        ",Values:[" ++ " ".intercalate r.vals ++ "],},"
    "&LabelSelector{MatchLabels:map[string]string{" ++ String.join ml ++ "},MatchExpressions:[]LabelSelectorRequirement{" ++
      String.join me ++ "},}"

/-- `representativeSpelling`: orders the ways in which the selectors of one representative peer may be written -/
def spelling (p : Pod) : String :=
  (if p.ns == "" then "true" else "false") ++ "|" ++ goSelString p.reprNsSel ++ "|" ++ goSelString p.reprPodSel

/-- `addRepresentativePod`: one peer per key; of several spellings of equal selectors the least one is kept, whatever
the order in which the rules are met -/
def addRepresentative (reps : List (String × Pod)) (policyNs : String) (rs : RuleSel) : List (String × Pod) :=
  let podNs := if rs.nsSel.isNone then policyNs else ""
  let nsSel : Selector := match rs.nsSel with
    | some s => s
    | none => nsNameSelector podNs
  let key := uniqueKey (some nsSel) ++ "|" ++ uniqueKey rs.podSel
  let newPod : Pod := { ns := podNs, name := representativePodName, labels := [], ports := [], fake := true,
                        reprPodSel := rs.podSel, reprNsSel := some nsSel }
  match reps.find? (·.1 == key) with
  | some (_, old) =>
    if spelling newPod < spelling old then reps.map fun kp => if kp.1 == key then (key, newPod) else kp
    else reps
  | none => reps ++ [(key, newPod)]

/-- `removeRepresentativePeersMatchingLabels` -/
def removeMatching (reps : List (String × Pod)) (podLabels nsLabels : Labels) : List (String × Pod) :=
  reps.filter fun (_, rp) =>
    match rp.reprPodSel, rp.reprNsSel with
    | none, _ => true
    | some ps, some ns =>
      if !ps.exprs.isEmpty || !ns.exprs.isEmpty then true
      else if ns.matchLabels.isEmpty || ps.matchLabels.isEmpty then true
      else !((⟨ps.matchLabels, []⟩ : Selector).matches podLabels && (⟨ns.matchLabels, []⟩ : Selector).matches nsLabels)
    | some _, none => true

structure XEngine where
  eng : Engine
  reps : List (String × Pod)
deriving Inhabited

/-- `AddObjectsForExposureAnalysis`: policies and namespaces first, then the other objects -/
def build (objs : List Obj) : Except Err XEngine := do
  let isPolNs (o : Obj) : Bool := match o with | .np _ | .ns _ => true | _ => false
  let first := objs.filter isPolNs
  let rest := objs.filter (fun o => !isPolNs o)
  let x0 : XEngine := { eng := { exposure := true }, reps := [] }
  let step (x : XEngine) (o : Obj) : Except Err XEngine := do
    match o with
    | .np p =>
      let e ← x.eng.insertNetpol p
      let p := if p.ns == "" then { p with ns := "default" } else p
      let si ← scan p .ingress
      let se ← scan p .egress
      -- addRepresentativePod: a representative pod placed in the policy's namespace resolves that namespace
      let needsNs := (si.sels ++ se.sels).any (fun rs => rs.nsSel.isNone)
      let e := if needsNs && (e.findNs p.ns).isNone then { e with namespaces := e.namespaces ++ [⟨p.ns, [(nsNameLabelKey, p.ns)]⟩] } else e
      pure { eng := e, reps := (si.sels ++ se.sels).foldl (fun acc rs => addRepresentative acc p.ns rs) x.reps }
    | .wl w =>
      let e := x.eng.insertWorkload w
      -- removeRedundantRepresentativePeers on the last generated pod: its namespace is created when missing
      let e := if (e.findNs w.ns).isSome then e else { e with namespaces := e.namespaces ++ [⟨w.ns, [(nsNameLabelKey, w.ns)]⟩] }
      let nsl := ((e.findNs w.ns).map (·.labels)).getD []
      pure { eng := e, reps := removeMatching x.reps w.labels nsl }
    | .pod p =>
      if p.hostIP == "" then .error .badPod
      else
        let e := x.eng.insertPodObj p
        let e := if (e.findNs p.ns).isSome then e else { e with namespaces := e.namespaces ++ [⟨p.ns, [(nsNameLabelKey, p.ns)]⟩] }
        let nsl := ((e.findNs p.ns).map (·.labels)).getD []
        pure { eng := e, reps := removeMatching x.reps p.labels nsl }
    | o => do
      let e ← x.eng.insertObject o
      pure { x with eng := e }
  let x ← first.foldlM step x0
  rest.foldlM step x

/-- `determineAllowedConnsPerDirection` -/
def policyConns (np : NetPol) (src dst : KPeer) (isIngress : Bool) : Except Err ConnSet := do
  let sc ← scan np (if isIngress then .ingress else .egress)
  if sc.external.allowAll then pure sc.external
  else if sc.clusterWide.allowAll && (if isIngress then src.isPod else dst.isPod) then pure sc.clusterWide
  else if isIngress then np.ingressAllowedConns src dst else np.egressAllowedConns dst

/-- `allAllowedXgressConnections` in exposure mode (no admin policies) -/
def xgressConns (e : Engine) (src dst : KPeer) (isIngress : Bool) : Except Err ConnSet := do
  let pols := if isIngress then e.policiesSelecting dst .ingress else e.policiesSelecting src .egress
  if pols.isEmpty then pure (ConnSet.mk' true)
  else pols.foldlM (fun (acc : ConnSet) np => do
    let c ← policyConns np src dst isIngress
    pure (acc.union c)) (ConnSet.mk' false)

def peerConns (e : Engine) (src dst : KPeer) : Except Err ConnSet := do
  if isPodToItself src dst then pure (ConnSet.mk' true)
  else
    let res ← xgressConns e src dst false
    if res.isEmpty then pure res
    else
      let ing ← xgressConns e src dst true
      pure (res.inter ing)

/-- `checkAndConvertNamedPortsInConnection` -/
def convertNamedPorts (pod : Pod) (c : ConnSet) : ConnSet :=
  [Proto.TCP, Proto.UDP, Proto.SCTP].foldl (fun (acc : ConnSet) pr =>
    match c.get pr with
    | none => acc
    | some ps => ps.named.foldl (fun (acc : ConnSet) name =>
        match pod.convertNamedPort name with
        | some (ppr, n) => if ppr == pr then (acc.replaceNamedPort pr name n).getD acc else acc
        | none => acc) acc) c.copy

def noNamed (c : ConnSet) : Bool :=
  [Proto.TCP, Proto.UDP, Proto.SCTP].all fun pr => match c.get pr with | some ps => ps.named.isEmpty | none => true

/-- the pod's `ClusterWideConnection` of a direction: union over the selecting policies -/
def clusterWideConn (e : Engine) (pod : Pod) (isIngress : Bool) : Except Err ConnSet := do
  let pols := e.netpols.filter (fun np => np.selects pod (if isIngress then .ingress else .egress))
  pols.foldlM (fun (acc : ConnSet) np => do
    let sc ← scan np (if isIngress then .ingress else .egress)
    let c := if isIngress && !(noNamed sc.clusterWide) then convertNamedPorts pod sc.clusterWide else sc.clusterWide
    pure (acc.union c)) (ConnSet.mk' false)

def isProtected (e : Engine) (pod : Pod) (isIngress : Bool) : Bool :=
  e.netpols.any (fun np => np.selects pod (if isIngress then .ingress else .egress))

/-- one exposure entry -/
structure XEntry where
  entireCluster : Bool
  nsSel : Option Selector
  podSel : Option Selector
  conn : ConnSet
deriving Repr, Inhabited

structure XPeer where
  name : String
  ingProtected : Bool
  ing : List XEntry
  egProtected : Bool
  eg : List XEntry
deriving Repr, Inhabited

/-- the exposure data of one real workload in one direction: `none` = the peer gets no entry in that map -/
def xgressExposure (x : XEngine) (w : LPeer) (isIngress : Bool) : Except Err (Option (Bool × List XEntry)) := do
  match w with
  | .ip _ => pure none
  | .wl _ pod =>
    let e := x.eng
    let kw ← e.toKPeer w
    if !isProtected e pod isIngress then pure (some (false, []))
    else
      let cw ← clusterWideConn e pod isIngress
      let general : List XEntry := if cw.isEmpty then [] else [⟨true, none, none, cw⟩]
      let perRep ← x.reps.foldlM (fun (acc : List XEntry) (_, rp) => do
        let kr : KPeer := .pod rp (if rp.ns == "" then none else e.findNs rp.ns)
        -- a representative peer in a namespace that is not in the engine: convertPeerToPodPeer fails
        if rp.ns != "" && (e.findNs rp.ns).isNone then throw Err.missingNamespace
        let c ← if isIngress then peerConns e kr kw else peerConns e kw kr
        if c.isEmpty then pure acc
        else if !cw.isEmpty && c.containedIn cw then pure acc
        else pure (acc ++ [⟨false, rp.reprNsSel, rp.reprPodSel, c⟩])) []
      if general.isEmpty && perRep.isEmpty then pure none else pure (some (true, general ++ perRep))

/-- the pair loop visits every (real workload, representative peer) pair; `convertPeerToPodPeer` fails for a
representative peer placed in a namespace the engine does not hold -/
def repNamespaceError (x : XEngine) (peers : List LPeer) (focus : String) : Bool :=
  x.reps.any (fun (_, rp) => rp.ns != "" && (x.eng.findNs rp.ns).isNone) &&
    peers.any (fun p => !p.isIP && isFocus focus p)

/-- `buildExposedPeerListFromExposureMaps` -/
def exposedPeers (x : XEngine) (peers : List LPeer) (focus : String) : Except Err (List XPeer) :=
  peers.foldlM (fun (acc : List XPeer) w => do
    match w with
    | .ip _ => pure acc
    | .wl n _ =>
      if !isFocus focus w then pure acc
      else
        let i ← xgressExposure x w true
        let g ← xgressExposure x w false
        match i, g with
        | none, none => pure acc
        | _, _ =>
          let (ip, il) := i.getD (true, [])
          let (gp, gl) := g.getD (true, [])
          pure (acc ++ [⟨n, ip, il, gp, gl⟩])) []

/-- the base report in exposure mode (same pair loop, exposure-mode connection evaluation) -/
def connsBetweenPeers (e : Engine) (peers : List LPeer) (focus : String) : Except Err (List Entry) :=
  peers.foldlM (fun (acc : List Entry) s =>
    peers.foldlM (fun (acc : List Entry) d =>
      if s.isIP && d.isIP then pure acc
      else if s.str == d.str then pure acc
      else if !(isFocus focus s || isFocus focus d) then pure acc
      else do
        let ks ← e.toKPeer s
        let kd ← e.toKPeer d
        let c ← peerConns e ks kd
        if c.isEmpty then pure acc else pure (acc ++ [⟨s, d, c⟩])) acc) []

end Exposure
end Netpol
