/-! Model of the command-line layer (`pkg/cli/list.go`, `diff.go`, `root.go`): the library is a parameter; what the
commands do around it is a record of facts (`Wiring`) that `tools/goextract` regenerates from the Go source on every run
(`Netpol.Gen.cliWiring`, `listPrintsReturnedString`, …). Core-only. -/
namespace Netpol
namespace Cli

/-- the library entry points used by a command, for a fixed directory (or pair of directories) -/
structure Lib (Res : Type) where
  /-- `ConnlistFromDirPath` / `ConnDiffFromDirPaths` under the given options -/
  analyse : List String → Except String Res
  /-- `ConnectionsListToString` / `ConnectivityDiffToString` under the same options -/
  render : List String → Res → Except String String

/-- facts about one command, as extracted from the source -/
structure Wiring where
  /-- options appended by `get…Options`: (guarding flag variable, or "" when unconditional; option expression) -/
  options : List (String × String)
  /-- stdout receives exactly the string returned by the library (`fmt.Println(out)` on the returned value) -/
  printsReturnedString : Bool
  /-- `-f FILE`: the file receives the same string as stdout -/
  writesSameBytesToFile : Bool
  /-- `Execute`: `os.Exit(1)` whenever the command returns an error -/
  exitsOneOnError : Bool

structure Outcome where
  stdout : Option String     -- `none`: nothing printed
  file : Option String       -- content of the `-f` file, `none` when not written
  exit : Nat
deriving Repr, DecidableEq

/-- options handed to the library for an assignment of the boolean flags -/
def optionsOf (w : List (String × String)) (flags : String → Bool) : List String :=
  (w.filter fun p => p.1 == "" || flags p.1).map (·.2)

/-- what the code does when a fact does not hold is outside the model: any other string -/
def unknownBytes : String := "<unmodelled>"

/-- `runListCommand` / `runDiffCommand` followed by `Execute`'s exit handling -/
def run {Res : Type} (w : Wiring) (lib : Lib Res) (flags : String → Bool) (toFile : Bool) : Outcome :=
  let opts := optionsOf w.options flags
  let fail : Outcome := ⟨none, none, if w.exitsOneOnError then 1 else 0⟩
  match lib.analyse opts with
  | .error _ => fail
  | .ok r =>
    match lib.render opts r with
    | .error _ => fail
    | .ok s =>
      ⟨some (if w.printsReturnedString then s else unknownBytes),
       if toFile then some (if w.writesSameBytesToFile then s else unknownBytes) else none, 0⟩

end Cli
end Netpol
