import Netpol.Gen.Facts
import Netpol.Model.Cache
/-! Which PolicyEngine mutators maintain the verdict cache.
Part of the K-gen tie: facts regenerated from the Go sources (`Netpol/Gen/Facts.lean`, rewritten by
`tools/goextract` on every run) against the hand-written model and the hand-written expectations. -/
namespace Netpol.Tie.C15
open Netpol

/-- the extractor could regenerate everything -/
theorem extractor_complete : Gen.broken = [] := by decide

/-- which mutators must clear the verdict cache: every change of namespaces, policies, admin policies -/
def mustClear : List String :=
  ["insertNamespace", "deleteNamespace", "insertNetworkPolicy", "deleteNetworkPolicy", "insertAdminNetworkPolicy",
   "deleteAdminNetworkPolicy", "insertBaselineAdminNetworkPolicy", "deleteBaselineAdminNetworkPolicy"]

def callsOf (m : String) : List String := ((Gen.mutatorCalls.find? (·.1 == m)).map (·.2)).getD []

theorem policy_mutators_clear_cache : ∀ m ∈ mustClear, "pe.cache.clear" ∈ callsOf m := by decide
theorem pod_insert_registers_owner : "pe.cache.addPod" ∈ callsOf "insertPod" ∧ "pe.cache.addPod" ∈ callsOf "insertWorkload" := by decide
theorem pod_delete_evicts_owner : "pe.cache.deletePod" ∈ callsOf "deletePod" := by decide
theorem anp_inserted_by_priority : "sort.Search" ∈ callsOf "insertAdminNetworkPolicy" := by decide
theorem clear_resources_renews_cache : "newEvalCache" ∈ callsOf "ClearResources" := by decide

/-- `SetResources` is nothing but the three insert entry points, namespaces first, then policies, then pods
(`EState.setResources` folds `EState.insert` in this order; `Netpol.Properties.C15.setResources_is_history`) -/
theorem set_resources_is_inserts :
    Gen.setResourcesCalls = ["pe.insertNamespace", "pe.insertNetworkPolicy", "pe.insertPod"] := by decide

/-- the model does what the table says: the state after an accepted insert/delete of these kinds has an empty cache
(`Netpol.Properties.C15.update_never_leaks` is the general statement) -/
example (s : EState) (n : NsObj) : (s.insert (.ns n)).2.cache.items = [] := by
  simp [EState.insert, EState.cacheClear, LRU.purge]

end Netpol.Tie.C15
