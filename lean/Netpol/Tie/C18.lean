import Netpol.Gen.Facts
/-! pkg/cli: flags to options, stdout = returned string, file = stdout, exit status.
Part of the K-gen tie: facts regenerated from the Go sources (`Netpol/Gen/Facts.lean`, rewritten by
`tools/goextract` on every run) against the hand-written model and the hand-written expectations. -/
namespace Netpol.Tie.C18
open Netpol

/-- the extractor could regenerate everything -/
theorem extractor_complete : Gen.broken = [] := by decide

/-- the specification of the flag -> option wiring -/
def specListOptions : List (String × String) :=
  [("", "connlist.WithLogger(l)"), ("", "connlist.WithFocusWorkload(focusWorkload)"), ("", "connlist.WithOutputFormat(output)"),
   ("stopOnFirstError", "connlist.WithStopOnError()"), ("exposureAnalysis", "connlist.WithExposureAnalysis()")]

def specDiffOptions : List (String × String) :=
  [("", "diff.WithLogger(l)"), ("", "diff.WithOutputFormat(outFormat)"), ("", "diff.WithArgNames(dir1Arg, dir2Arg)"),
   ("stopOnFirstError", "diff.WithStopOnError()")]

theorem list_options_eq : (Gen.cliWiring.find? (·.1 == "getConnlistOptions")).map (·.2) = some specListOptions := by decide
theorem diff_options_eq : (Gen.cliWiring.find? (·.1 == "getDiffOptions")).map (·.2) = some specDiffOptions := by decide
theorem stdout_eq_library_string : Gen.listPrintsReturnedString = true ∧ Gen.diffPrintsReturnedString = true := by decide
theorem file_eq_stdout : Gen.listWritesSameBytesToFile = true ∧ Gen.diffWritesSameBytesToFile = true := by decide
theorem exit_nonzero_on_error : Gen.executeExitsOneOnError = true := by decide

end Netpol.Tie.C18
