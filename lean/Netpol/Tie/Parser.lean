import Netpol.Gen.Facts
/-! Glue of the manifest parser that the world-level model takes for granted: an object written without
`metadata.namespace` belongs to the namespace `default`, for every namespaced kind the analysis uses.
Part of the K-gen tie: the table is regenerated from `pkg/manifests/parser/k8sobj.go` (`initDefaultNamespace`) by
`tools/goextract` on every run; the model (`WorldParse`, `Engine.insertNetpol`) and the harness rendering (a world object
in `default` may be written with or without the field: families `render`, `renderi`) rely on it. -/
namespace Netpol.Tie.Parser
open Netpol

/-- the namespaced kinds the analysis reads -/
def namespacedKinds : List String :=
  ["Deployment", "DaemonSet", "ReplicaSet", "StatefulSet", "ReplicationController", "Job", "CronJob", "Route", "Ingress",
   "Service", "Pod", "NetworkPolicy"]

/-- every namespaced kind has a case, and the case sets the very field it tests: `k.<Kind>.Namespace` -/
theorem namespace_defaulted_for_every_kind :
    ∀ k ∈ namespacedKinds, (k, "k." ++ k ++ ".Namespace", "k." ++ k ++ ".Namespace") ∈ Gen.nsDefaulting := by decide

/-- no case tests one object and sets another (a copy/paste slip dereferences the nil sibling) -/
theorem namespace_case_sets_what_it_tests : ∀ r ∈ Gen.nsDefaulting, r.2.1 = r.2.2 := by decide

end Netpol.Tie.Parser
