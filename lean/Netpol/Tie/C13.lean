import Netpol.Gen.Facts
/-! Error severities the pipeline model relies on.
Part of the K-gen tie: facts regenerated from the Go sources (`Netpol/Gen/Facts.lean`, rewritten by
`tools/goextract` on every run) against the hand-written model and the hand-written expectations. -/
namespace Netpol.Tie.C13
open Netpol

/-- the extractor could regenerate everything -/
theorem extractor_complete : Gen.broken = [] := by decide

/-- the severities the pipeline model relies on: unreadable files and malformed documents are severe and not fatal,
a missing workload is severe, a missing policy is only a warning -/
theorem errorFlags_expected :
    Gen.errorFlags = [("FailedReadingFile", false, true), ("malformedYamlDoc", false, true),
      ("noK8sNetworkPolicyResourcesFound", false, false), ("noK8sWorkloadResourcesFound", false, true)] := by decide

end Netpol.Tie.C13
