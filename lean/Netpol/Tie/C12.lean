import Netpol.Gen.Facts
/-! Every dereference of an optional API field is dominated by a nil check.
Part of the K-gen tie: facts regenerated from the Go sources (`Netpol/Gen/Facts.lean`, rewritten by
`tools/goextract` on every run) against the hand-written model and the hand-written expectations. -/
namespace Netpol.Tie.C12
open Netpol

/-- the extractor could regenerate everything -/
theorem extractor_complete : Gen.broken = [] := by decide

/-- unguarded uses that are not dereferences of an optional pointer, or whose guard is not a dominating nil check in the
same function; each with its reason -/
def derefAllowlist : List (String × String × String) := [
  -- struct-typed fields (not pointers)
  ("getServiceInfo", "backendService.Port", "ServiceBackendPort is a struct"),
  ("NetworkPolicy.Selects", "np.Spec.PodSelector", "NetworkPolicySpec.PodSelector is a struct"),
  ("FilterObjectsList", "obj.Service", "K8sObject.Service is set whenever Kind is Service (switch on obj.Kind)"),
  ("K8sObject.initDefaultNamespace", "k.Service", "set by getEmptyInitializedFieldObjByKind for this Kind (switch on k.Kind)"),
  -- guarded by the caller
  ("NetworkPolicy.getPortsRange", "rulePort.Port", "both callers test rulePorts[i].Port == nil first"),
  -- guarded by the three-way nil test at the top of the loop body (all nil is an error, selectors non-nil takes the other branch)
  ("NetworkPolicy.ruleSelectsPeer", "rulePeers[i].IPBlock", "else-branch of (PodSelector != nil || NamespaceSelector != nil) after the all-nil error")]

theorem deref_sites_guarded :
    ∀ s ∈ Gen.derefSites, s.2.2.2.2 = true ∨ derefAllowlist.any (fun a => a.1 == s.2.1 && a.2.1 == s.2.2.1) = true := by decide

/-- the sites that crashed before the repairs are present and guarded now -/
theorem former_crash_sites_guarded :
    ("pod.go", "PodFromCoreObject", "ownerRef.Controller", "*", true) ∈ Gen.derefSites ∧
    ("pod.go", "PodsFromWorkloadObject", "obj.Spec.Template", "*", true) ∈ Gen.derefSites ∧
    ("ingress_analyzer.go", "IngressAnalyzer.getK8sIngressServices", "rule.IngressRuleValue.HTTP", ".Paths", true) ∈ Gen.derefSites ∧
    ("resources.go", "PolicyEngine.deleteBaselineAdminNetworkPolicy", "pe.baselineAdminNetpol", ".Name", true) ∈ Gen.derefSites := by decide

end Netpol.Tie.C12
