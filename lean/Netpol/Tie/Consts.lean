import Netpol.Gen.Facts
import Netpol.Model.Cache
import Netpol.Model.Pipeline
/-! Constants and small boolean functions: the regenerated definitions equal the model's.
Part of the K-gen tie: facts regenerated from the Go sources (`Netpol/Gen/Facts.lean`, rewritten by
`tools/goextract` on every run) against the hand-written model and the hand-written expectations. -/
namespace Netpol.Tie.Consts
open Netpol

/-- the extractor could regenerate everything -/
theorem extractor_complete : Gen.broken = [] := by decide

theorem noPort_eq : Gen.noPort = Netpol.noPort := by decide
theorem minPort_eq : Gen.minPort = Netpol.minPort := by decide
theorem maxPort_eq : Gen.maxPort = Netpol.maxPort := by decide
theorem priorities_eq : Gen.minANPPriority = 0 ∧ Gen.maxANPPriority = 1000 := by decide
theorem defaultCacheSize_eq : Gen.defaultCacheSize = 500 := by decide
theorem allConnsStr_eq : Gen.allConnsStr = (ConnSet.mk' true).toStr := by decide
theorem noConnsStr_eq : Gen.noConnsStr = (ConnSet.mk' false).toStr := by decide
theorem nsNameLabelKey_eq : Gen.k8sNsNameLabelKey = Netpol.nsNameLabelKey := by decide
theorem allProtocols_eq : Gen.allProtocols = Proto.all.map Proto.toStr := by decide


theorem isEmptyPortRange_eq : Gen.isEmptyPortRange = NetPol.isEmptyPortRange := by
  funext s e
  simp [Gen.isEmptyPortRange, NetPol.isEmptyPortRange, Gen.noPort, Netpol.noPort]

theorem hasValidPriority_eq (a : ANP) : Gen.hasValidPriority a.prio = a.validPriority := by
  unfold Gen.hasValidPriority ANP.validPriority Gen.minANPPriority Gen.maxANPPriority
  by_cases h1 : a.prio ≥ 0 <;> by_cases h2 : a.prio ≤ 1000 <;> simp [h1, h2]

theorem connSetIsEmpty_eq (c : ConnSet) : Gen.connSetIsEmpty c.allowAll c.noProtos = c.isEmpty := by
  simp [Gen.connSetIsEmpty, ConnSet.isEmpty]

theorem portSetIsEmpty_eq (p : PortSet) : Gen.portSetIsEmpty p.ports.isEmpty p.named.isEmpty = p.isEmpty := by
  simp [Gen.portSetIsEmpty, PortSet.isEmpty]

theorem policyConnsIsEmpty_eq (pc : PolicyConns) :
    Gen.policyConnsIsEmpty pc.allowed.isEmpty pc.denied.isEmpty pc.pass.isEmpty = pc.isEmpty := by
  simp [Gen.policyConnsIsEmpty, PolicyConns.isEmpty, Bool.and_assoc]

theorem isPodToItself_eq (p q : Pod) (n m : Option NsObj) :
    Gen.isPodToItself true true p.name q.name p.ns q.ns p.fake q.fake =
      Engine.isPodToItself (.pod p n) (.pod q m) := by
  simp [Gen.isPodToItself, Engine.isPodToItself]

theorem isPodToItself_ip (r : CSet) (k : KPeer) (a b c d : String) (f g : Bool) :
    Gen.isPodToItself false k.isPod a b c d f g = Engine.isPodToItself (.ip r) k := by
  cases k <;> simp [Gen.isPodToItself, Engine.isPodToItself, KPeer.isPod]

/-- `isPeerFocusWorkload` on a workload peer -/
theorem isPeerFocusWorkload_eq (f n : String) (pod : Pod) :
    Gen.isPeerFocusWorkload f (if pod.ownerName == "" then pod.name else pod.ownerName)
      (pod.ns ++ "/" ++ (if pod.ownerName == "" then pod.name else pod.ownerName)) false = Engine.isFocus f (.wl n pod) := by
  simp [Gen.isPeerFocusWorkload, Engine.isFocus, Bool.or_assoc]

/-- `isPeerFocusWorkload` on an ip-block (name "", namespace/name form "/"): only "no focus" includes it -/
theorem isPeerFocusWorkload_ip (f name nsName : String) (r : Iv) :
    Gen.isPeerFocusWorkload f name nsName true = Engine.isFocus f (.ip r) := by
  simp [Gen.isPeerFocusWorkload, Engine.isFocus]

end Netpol.Tie.Consts
