import Netpol.Gen.Procs
import Netpol.Model.Cache
/-! K-gen tie, statement level: the definitions of `Netpol/Gen/Procs.lean` are rewritten from the Go sources on every run
(`tools/goextract/procs.go`: one Lean `do` statement per Go statement). Each theorem below states that the hand-written model
function *is* that rewriting - so a Go change that swaps two subtractions of `PolicyConnections`, drops a case of the
precedence switch of `allAllowedXgressConnections`, or moves the early return of the egress/ingress intersection, breaks a
proof obligation on the next run, before any differential case is generated. -/
namespace Netpol.Tie.Procs
open Netpol

/-- the translator could regenerate every procedure -/
theorem extractor_complete : Gen.Procs.broken = [] := by decide

/-- the strings of `AdminNetworkPolicyRuleAction` (sigs.k8s.io/network-policy-api; third party) -/
def actStr : Action → String
  | .Allow => "Allow"
  | .Deny => "Deny"
  | .Pass => "Pass"

private theorem ite_ok {α : Type} (b : Prop) [Decidable b] (x y : α) :
    (if b then (Except.ok x : Except Err α) else Except.ok y) = Except.ok (if b then x else y) := by
  split <;> rfl
private theorem ok_bind {α β : Type} (a : α) (f : α → Except Err β) : (Except.ok a >>= f) = f a := rfl
private theorem pure_ok {α : Type} (a : α) : (pure a : Except Err α) = Except.ok a := rfl
private theorem bind_ok_id {α : Type} (x : Except Err α) : (x >>= fun s => Except.ok s) = x := by cases x <;> rfl

/-- `UpdateWithRuleConns`: the model's `updateWithRule` is the Go function's effect on the receiver -/
theorem updateWithRuleConns_eq (pc : PolicyConns) (rc : ConnSet) (a : Action) (banp : Bool) :
    (Gen.Procs.updateWithRuleConns pc rc (actStr a) banp).map (·.1) = pc.updateWithRule rc a banp := by
  cases a <;> cases banp <;> rfl

/-- an action string that is none of the three is the unknown-action error -/
theorem updateWithRuleConns_unknown (pc : PolicyConns) (rc : ConnSet) (s : String) (banp : Bool)
    (h1 : s ≠ "Allow") (h2 : s ≠ "Deny") (h3 : s ≠ "Pass") :
    Gen.Procs.updateWithRuleConns pc rc s banp = .error .badAction := by
  simp [Gen.Procs.updateWithRuleConns, h1, h2, h3]
  rfl

/-- `CollectANPConns` -/
theorem collectANPConns_eq (pc new : PolicyConns) :
    (Gen.Procs.collectANPConns pc new).map (·.1) = .ok (pc.collectANP new) := by
  rfl

/-- `CollectAllowedConnsFromNetpols` (the model passes the netpols' allowed set only: the Go function reads nothing else) -/
theorem collectAllowedConnsFromNetpols_eq (pc np : PolicyConns) :
    (Gen.Procs.collectAllowedConnsFromNetpols pc np).map (·.1) = .ok (pc.collectNetpols np.allowed) := by
  rfl

/-- `CollectConnsFromBANP` -/
theorem collectConnsFromBANP_eq (pc banp : PolicyConns) :
    (Gen.Procs.collectConnsFromBANP pc banp).map (·.1) = .ok (pc.collectBANP banp) := by
  rfl

/-- `DeterminesAllConns` -/
theorem determinesAllConns_eq (pc : PolicyConns) :
    Gen.Procs.determinesAllConns pc = .ok pc.determinesAll := by
  rfl

/-- what the rule walk of `adminPolicyCheck` does with the action of the capturing rule -/
def actionRes (a : Action) (banp : Bool) : Except Err RuleRes :=
  match a with
  | .Pass => if banp then .error .badAction else .ok .pass
  | .Allow => .ok .allow
  | .Deny => .ok .deny

/-- `determineConnResByAction` -/
theorem determineConnResByAction_eq (a : Action) (banp : Bool) :
    Gen.Procs.determineConnResByAction (actStr a) banp = actionRes a banp := by
  cases a <;> cases banp <;> rfl

/-- `allowedByBANPRules`: Allow is true, Deny is false, anything else an error -/
theorem allowedByBANPRules_eq :
    Gen.Procs.allowedByBANPRules .allow = .ok true ∧ Gen.Procs.allowedByBANPRules .deny = .ok false ∧
    Gen.Procs.allowedByBANPRules .pass = .error .badAction ∧ Gen.Procs.allowedByBANPRules .notCaptured = .error .badAction := by
  refine ⟨rfl, rfl, rfl, rfl⟩

/-- `onlyOnePortFieldsSet`: exactly one of the three fields -/
theorem onlyOnePortFieldsSet_eq (a b c : Bool) :
    Gen.Procs.onlyOnePortFieldsSet a b c = .ok ((a && !b && !c) || (!a && b && !c) || (!a && !b && c)) := by
  cases a <;> cases b <;> cases c <;> rfl

/-- `adminPolicyAffectsDirection`: the direction test inside `ANP.selects` -/
theorem adminPolicyAffectsDirection_eq (a : ANP) (isIngress : Bool) :
    Gen.Procs.adminPolicyAffectsDirection isIngress a.ingress.length a.egress.length =
      .ok (if isIngress then !a.ingress.isEmpty else !a.egress.isEmpty) := by
  cases isIngress
  · cases h : a.egress <;> simp [Gen.Procs.adminPolicyAffectsDirection, pure, Except.pure]
  · cases h : a.ingress <;> simp [Gen.Procs.adminPolicyAffectsDirection, pure, Except.pure]

/-- `baselineAdminPolicyAffectsDirection`: the direction test inside `BANP.selects` -/
theorem baselineAdminPolicyAffectsDirection_eq (b : BANP) (isIngress : Bool) :
    Gen.Procs.baselineAdminPolicyAffectsDirection isIngress b.ingress.length b.egress.length =
      .ok (if isIngress then !b.ingress.isEmpty else !b.egress.isEmpty) := by
  cases isIngress
  · cases h : b.egress <;> simp [Gen.Procs.baselineAdminPolicyAffectsDirection, pure, Except.pure]
  · cases h : b.ingress <;> simp [Gen.Procs.baselineAdminPolicyAffectsDirection, pure, Except.pure]

/-- `AdminNetworkPolicy.Selects`: no IP peer, the direction has rules, the subject selects the pod -/
theorem anpSelects_eq (a : ANP) (p : KPeer) (isIngress : Bool) :
    Gen.Procs.anpSelects a p isIngress = .ok (a.selects p isIngress) := by
  unfold Gen.Procs.anpSelects ANP.selects
  simp only [adminPolicyAffectsDirection_eq, ok_bind, pure_ok]
  cases p.isPod <;> cases isIngress <;> simp [pure_ok, bind_ok_id, ok_bind]
  all_goals (repeat (first | rfl | (split <;> simp_all [ok_bind, pure_ok, bind_ok_id])))

/-- `BaselineAdminNetworkPolicy.Selects` -/
theorem banpSelects_eq (b : BANP) (p : KPeer) (isIngress : Bool) :
    Gen.Procs.banpSelects b p isIngress = .ok (b.selects p isIngress) := by
  unfold Gen.Procs.banpSelects BANP.selects
  simp only [baselineAdminPolicyAffectsDirection_eq, ok_bind, pure_ok]
  cases p.isPod <;> cases isIngress <;> simp [pure_ok, bind_ok_id, ok_bind]
  all_goals (repeat (first | rfl | (split <;> simp_all [ok_bind, pure_ok, bind_ok_id])))

/-- the pair `(npConns, npCaptured)` of `getAllAllowedXgressConnsFromNetpols` as the model keeps it: `none` = no policy
selects the pod in the direction, `some c` = the union of what the selecting policies allow -/
def npLift (r : Except Err (Option ConnSet)) : Except Err (PolicyConns × Bool) :=
  r.map fun
    | some c => ({ PolicyConns.empty with allowed := c }, true)
    | none => (PolicyConns.empty, false)

/-- `allAllowedXgressConnections`: the model's `xgressConns` is the Go function applied to the three sub-results -/
theorem allAllowedXgressConnections_eq (e : Engine) (src dst : KPeer) (isIngress : Bool) :
    e.xgressConns src dst isIngress =
      Gen.Procs.allAllowedXgressConnections (e.anpConns src dst isIngress) (npLift (e.netpolConns src dst isIngress))
        (e.defaultConns src dst isIngress) := by
  unfold Engine.xgressConns Gen.Procs.allAllowedXgressConnections
  cases h1 : e.anpConns src dst isIngress with
  | error err => rfl
  | ok p =>
    obtain ⟨anp, cap⟩ := p
    cases hd : (cap && anp.determinesAll)
    · cases h2 : e.netpolConns src dst isIngress with
      | error err => simp [hd, npLift, bind, Except.bind, Except.map]
      | ok o =>
        cases o with
        | none =>
          cases h3 : e.defaultConns src dst isIngress with
          | error err => simp [hd, npLift, bind, Except.bind, Except.map, h3]
          | ok d => simp [hd, npLift, bind, Except.bind, Except.map, h3, pure, Except.pure,
              Gen.Procs.collectConnsFromBANP, PolicyConns.collectBANP]
        | some c =>
          cases cap <;> simp [hd, npLift, bind, Except.bind, Except.map, pure, Except.pure,
            Gen.Procs.collectAllowedConnsFromNetpols, PolicyConns.collectNetpols, PolicyConns.empty]
    · simp [hd, bind, Except.bind, pure, Except.pure]

/-- `allAllowedConnectionsBetweenPeers`: egress first, ingress only when egress left something, then the intersection
(`isPeerNodeIP` is false in the model: host addresses are never peers of the analysed relation) -/
theorem allAllowedConnectionsBetweenPeers_eq (e : Engine) (src dst : KPeer) :
    e.peerConns src dst =
      Gen.Procs.allAllowedConnectionsBetweenPeers (Engine.isPodToItself src dst) false false
        (e.xgressConns src dst false) (e.xgressConns src dst true) := by
  unfold Engine.peerConns Gen.Procs.allAllowedConnectionsBetweenPeers
  cases hp : Engine.isPodToItself src dst
  · cases h1 : e.xgressConns src dst false with
    | error err => simp [bind, Except.bind]
    | ok res =>
      cases hemp : res.isEmpty
      · cases h2 : e.xgressConns src dst true with
        | error err => simp [bind, Except.bind, hemp, pure, Except.pure]
        | ok ing => simp [bind, Except.bind, hemp, pure, Except.pure]
      · simp [bind, Except.bind, hemp, pure, Except.pure]
  · simp [bind, Except.bind, pure, Except.pure]

/-- `getXgressDefaultConns` without a BANP: allow-all, whatever the unused sub-results are -/
theorem getXgressDefaultConns_none (e : Engine) (src dst : KPeer) (isIngress : Bool) (h : e.banp = none)
    (a b : Except Err Bool) (c d : Except Err PolicyConns) :
    e.defaultConns src dst isIngress = Gen.Procs.getXgressDefaultConns false isIngress a b c d := by
  simp [Engine.defaultConns, h, Gen.Procs.getXgressDefaultConns, pure, Except.pure]

/-- `getXgressDefaultConns` with a BANP -/
theorem getXgressDefaultConns_some (e : Engine) (src dst : KPeer) (isIngress : Bool) (b : BANP) (h : e.banp = some b) :
    e.defaultConns src dst isIngress =
      Gen.Procs.getXgressDefaultConns true isIngress (.ok (b.selects dst true)) (.ok (b.selects src false))
        (adminPolicyConns b.ingress src dst true) (adminPolicyConns b.egress dst dst true) := by
  simp only [Engine.defaultConns, h, Gen.Procs.getXgressDefaultConns]
  cases isIngress
  · cases hs : b.selects src false
    · simp [bind, Except.bind, pure, Except.pure, PolicyConns.isEmpty, PolicyConns.empty, ConnSet.isEmpty, ConnSet.mk', ConnSet.noProtos]
    · cases hc : adminPolicyConns b.egress dst dst true with
      | error err => simp [bind, Except.bind, pure, Except.pure]
      | ok r => cases hr : r.isEmpty <;> simp [bind, Except.bind, pure, Except.pure, hr]
  · cases hs : b.selects dst true
    · simp [bind, Except.bind, pure, Except.pure, PolicyConns.isEmpty, PolicyConns.empty, ConnSet.isEmpty, ConnSet.mk', ConnSet.noProtos]
    · cases hc : adminPolicyConns b.ingress src dst true with
      | error err => simp [bind, Except.bind, pure, Except.pure]
      | ok r => cases hr : r.isEmpty <;> simp [bind, Except.bind, pure, Except.pure, hr]

-- ------------------------------------------------------------------------------------------
-- the rule-walking evaluation of one connection (check_eval.go) and the insertion guards (resources.go)
open EState

/-- `isAllowedByANPCapturedRes`: (result, passOrNonCaptured) of a captured connection -/
theorem isAllowedByANPCapturedRes_eq :
    Gen.Procs.isAllowedByANPCapturedRes .pass = .ok (false, true) ∧ Gen.Procs.isAllowedByANPCapturedRes .allow = .ok (true, false) ∧
    Gen.Procs.isAllowedByANPCapturedRes .deny = .ok (false, false) ∧ Gen.Procs.isAllowedByANPCapturedRes .notCaptured = .error .badAction := by
  refine ⟨rfl, rfl, rfl, rfl⟩

/-- `allowedXgressConnection`: admin policies first, NetworkPolicies when they pass, the baseline when nothing captured -/
theorem allowedXgressConnection_eq (s : EState) (src dst : KPeer) (isIngress : Bool) (proto port : String) :
    xgress s src dst isIngress proto port =
      Gen.Procs.allowedXgressConnection (byANPs s.eng src dst isIngress proto port) (byNetpols s.eng src dst isIngress proto port)
        (byBANP s.eng src dst isIngress proto port) := by
  unfold xgress Gen.Procs.allowedXgressConnection
  cases h1 : byANPs s.eng src dst isIngress proto port with
  | error err => rfl
  | ok p =>
    obtain ⟨r, pass⟩ := p
    cases pass
    · simp [bind, Except.bind, pure, Except.pure]
    · cases h2 : byNetpols s.eng src dst isIngress proto port with
      | error err => simp [bind, Except.bind]
      | ok q =>
        obtain ⟨r2, cap⟩ := q
        cases cap
        · cases h3 : byBANP s.eng src dst isIngress proto port <;> simp [bind, Except.bind, pure, Except.pure]
        · simp [bind, Except.bind, pure, Except.pure]

/-- the verdict of the baseline policy's rule walk (`Check{In,E}gressConnAllowed` of a BANP): not captured = allowed -/
def banpVerdict (r : Except Err RuleRes) : Except Err Bool :=
  r.bind fun
    | .notCaptured => .ok true
    | .allow => .ok true
    | .deny => .ok false
    | .pass => .error .badAction

/-- `allowedXgressByBaselineAdminNetpolOrByDefault` without a BANP -/
theorem byBANP_none (e : Engine) (src dst : KPeer) (isIngress : Bool) (proto port : String) (h : e.banp = none)
    (a b c d : Except Err Bool) :
    byBANP e src dst isIngress proto port = Gen.Procs.allowedXgressByBaselineAdminNetpolOrByDefault false isIngress a b c d := by
  simp [byBANP, h, Gen.Procs.allowedXgressByBaselineAdminNetpolOrByDefault, pure, Except.pure]

/-- `allowedXgressByBaselineAdminNetpolOrByDefault` with a BANP -/
theorem byBANP_some (e : Engine) (src dst : KPeer) (isIngress : Bool) (proto port : String) (b : BANP) (h : e.banp = some b) :
    byBANP e src dst isIngress proto port =
      Gen.Procs.allowedXgressByBaselineAdminNetpolOrByDefault true isIngress (.ok (b.selects dst true)) (.ok (b.selects src false))
        (banpVerdict (adminCheck b.ingress src dst proto port true)) (banpVerdict (adminCheck b.egress dst dst proto port true)) := by
  simp only [byBANP, h, Gen.Procs.allowedXgressByBaselineAdminNetpolOrByDefault]
  cases isIngress
  · cases hs : b.selects src false
    · simp [bind, Except.bind, pure, Except.pure]
    · cases hc : adminCheck b.egress dst dst proto port true with
      | error err => simp [bind, Except.bind, pure, Except.pure, banpVerdict]
      | ok r => cases r <;> simp [bind, Except.bind, pure, Except.pure, banpVerdict]
  · cases hs : b.selects dst true
    · simp [bind, Except.bind, pure, Except.pure]
    · cases hc : adminCheck b.ingress src dst proto port true with
      | error err => simp [bind, Except.bind, pure, Except.pure, banpVerdict]
      | ok r => cases r <;> simp [bind, Except.bind, pure, Except.pure, banpVerdict]

/-- `insertBaselineAdminNetworkPolicy`: the three refusals in the order of the Go function, then the assignment -/
theorem insertBaselineAdminNetworkPolicy_eq (e : Engine) (b : BANP) :
    e.insertBANP b = Gen.Procs.insertBaselineAdminNetworkPolicy e b := by
  unfold Engine.insertBANP Gen.Procs.insertBaselineAdminNetworkPolicy
  cases h1 : e.exposure <;> cases h2 : e.banp.isSome <;> cases h3 : (b.name != "default") <;>
    simp [h1, h2, h3, bind, Except.bind, pure, Except.pure, throw, throwThe, MonadExceptOf.throw] <;> rfl

-- ------------------------------------------------------------------------------------------
-- NetworkPolicy layer and the pair filter of the report

/-- `policyAffectsDirection`: listed policyTypes decide; without them ingress always, egress iff there are egress rules -/
theorem policyAffectsDirection_eq (np : NetPol) (d : Dir) :
    Gen.Procs.policyAffectsDirection np.types d np.egress.length = .ok (np.affects d) := by
  unfold Gen.Procs.policyAffectsDirection NetPol.affects
  cases ht : np.types with
  | nil =>
    cases d <;> cases he : np.egress <;> simp [pure, Except.pure]
  | cons t ts =>
    by_cases h : d ∈ (t :: ts)
    · have h2 : d = t ∨ d ∈ ts := by simpa using h
      simp [h2, pure, Except.pure]
    · have h2 : ¬ (d = t ∨ d ∈ ts) := by simpa using h
      have h3 : ¬ d = t ∧ ¬ d ∈ ts := by
        constructor
        · exact fun x => h2 (Or.inl x)
        · exact fun x => h2 (Or.inr x)
      simp [h3, h2, pure, Except.pure]

/-- `doesRulePortContain` (the protocol strings compared by `EqualFold` are the parsed protocols of the model) -/
theorem doesRulePortContain_eq (rulePr : Proto) (otherPr : Option Proto) (s e port : Int) :
    Gen.Procs.doesRulePortContain (some rulePr == otherPr) s e port = .ok (NetPol.rulePortContains rulePr otherPr s e port) := by
  unfold Gen.Procs.doesRulePortContain NetPol.rulePortContains
  cases h1 : (some rulePr == otherPr) <;> cases h2 : NetPol.isEmptyPortRange s e <;>
    by_cases h3 : port ≥ s <;> by_cases h4 : port ≤ e <;> simp [h1, h2, h3, h4, pure, Except.pure, bne]

/-- `includePairOfWorkloads` without exposure analysis: the three skip tests of the model's peers × peers loop -/
theorem includePairOfWorkloads_eq (focus : String) (s d : Engine.LPeer) :
    Gen.Procs.includePairOfWorkloads s.isIP d.isIP s.str d.str false true focus (Engine.isFocus focus s) false (Engine.isFocus focus d) false =
      .ok (!(s.isIP && d.isIP) && !(s.str == d.str) && (Engine.isFocus focus s || Engine.isFocus focus d)) := by
  unfold Gen.Procs.includePairOfWorkloads
  by_cases hf : focus = ""
  · subst hf
    cases h1 : (s.isIP && d.isIP) <;> cases h2 : (s.str == d.str) <;> simp [h1, h2, pure, Except.pure, Engine.isFocus]
  · cases h1 : (s.isIP && d.isIP) <;> cases h2 : (s.str == d.str) <;> simp [h1, h2, hf, pure, Except.pure]

-- ------------------------------------------------------------------------------------------
-- adminnetpol.go / baseline_admin_netpol.go: the rules of one admin policy folded into its PolicyConnections

theorem actionString_eq (a : Action) : Gen.Procs.actionString a = actStr a := by cases a <;> rfl

/-- `updatePolicyConns` -/
theorem updatePolicyConns_eq (ports : Option (List APort)) (pc : PolicyConns) (dst : KPeer) (a : Action) (banp : Bool) :
    Gen.Procs.updatePolicyConns ports pc dst (actStr a) banp = pc.updateWithRule (ARule.conns ports dst) a banp := by
  have h := updateWithRuleConns_eq pc (ARule.conns ports dst) a banp
  unfold Gen.Procs.updatePolicyConns
  simp only [ok_bind, pure_ok]
  cases hg : Gen.Procs.updateWithRuleConns pc (ARule.conns ports dst) (actStr a) banp with
  | error e => rw [hg] at h; exact h
  | ok r => rw [hg] at h; exact h

/-- what `adminPolicyConns` does with one rule -/
def ruleStep (other dst : KPeer) (banp : Bool) (pc : PolicyConns) (r : ARule) : Except Err PolicyConns :=
  if r.peers.isEmpty then .error .anpRulePeers
  else if !r.selectsPeer other then .ok pc
  else pc.updateWithRule (ARule.conns r.ports dst) r.action banp

/-- `updateConnsIfEgressRuleSelectsPeer` -/
theorem updateConnsIfEgressRuleSelectsPeer_eq (r : ARule) (dst : KPeer) (pc : PolicyConns) (banp : Bool) :
    Gen.Procs.updateConnsIfEgressRuleSelectsPeer r.peers r.ports dst pc (actStr r.action) banp = ruleStep dst dst banp pc r := by
  unfold Gen.Procs.updateConnsIfEgressRuleSelectsPeer ruleStep ARule.selectsPeer
  cases hp : r.peers with
  | nil => rfl
  | cons s ss =>
    cases hs : (s :: ss).any (·.selectsPeer dst) <;>
      simp [hs, ok_bind, pure_ok, updatePolicyConns_eq]

/-- `updateConnsIfIngressRuleSelectsPeer` -/
theorem updateConnsIfIngressRuleSelectsPeer_eq (r : ARule) (src dst : KPeer) (pc : PolicyConns) (banp : Bool) :
    Gen.Procs.updateConnsIfIngressRuleSelectsPeer r.peers r.ports src dst pc (actStr r.action) banp = ruleStep src dst banp pc r := by
  unfold Gen.Procs.updateConnsIfIngressRuleSelectsPeer ruleStep ARule.selectsPeer
  cases hp : r.peers with
  | nil => rfl
  | cons s ss =>
    cases hs : (s :: ss).any (·.selectsPeer src) <;>
      simp [hs, ok_bind, pure_ok, updatePolicyConns_eq]

theorem adminPolicyConns_fold (rules : List ARule) (other dst : KPeer) (banp : Bool) :
    adminPolicyConns rules other dst banp = rules.foldlM (ruleStep other dst banp) PolicyConns.empty := rfl

/-- `AdminNetworkPolicy.GetEgressPolicyConns` -/
theorem anpGetEgressPolicyConns_eq (rules : List ARule) (dst : KPeer) :
    Gen.Procs.anpGetEgressPolicyConns rules dst = adminPolicyConns rules dst dst false := by
  rw [adminPolicyConns_fold]
  unfold Gen.Procs.anpGetEgressPolicyConns
  simp only [ok_bind, pure_ok, bind_ok_id, actionString_eq, updateConnsIfEgressRuleSelectsPeer_eq]

/-- `AdminNetworkPolicy.GetIngressPolicyConns` -/
theorem anpGetIngressPolicyConns_eq (rules : List ARule) (src dst : KPeer) :
    Gen.Procs.anpGetIngressPolicyConns rules src dst = adminPolicyConns rules src dst false := by
  rw [adminPolicyConns_fold]
  unfold Gen.Procs.anpGetIngressPolicyConns
  simp only [ok_bind, pure_ok, bind_ok_id, actionString_eq, updateConnsIfIngressRuleSelectsPeer_eq]

/-- `BaselineAdminNetworkPolicy.GetEgressPolicyConns` -/
theorem banpGetEgressPolicyConns_eq (rules : List ARule) (dst : KPeer) :
    Gen.Procs.banpGetEgressPolicyConns rules dst = adminPolicyConns rules dst dst true := by
  rw [adminPolicyConns_fold]
  unfold Gen.Procs.banpGetEgressPolicyConns
  simp only [ok_bind, pure_ok, bind_ok_id, actionString_eq, updateConnsIfEgressRuleSelectsPeer_eq]

/-- `BaselineAdminNetworkPolicy.GetIngressPolicyConns` -/
theorem banpGetIngressPolicyConns_eq (rules : List ARule) (src dst : KPeer) :
    Gen.Procs.banpGetIngressPolicyConns rules src dst = adminPolicyConns rules src dst true := by
  rw [adminPolicyConns_fold]
  unfold Gen.Procs.banpGetIngressPolicyConns
  simp only [ok_bind, pure_ok, bind_ok_id, actionString_eq, updateConnsIfIngressRuleSelectsPeer_eq]

-- ------------------------------------------------------------------------------------------
-- netpol.go: the union over the rules of one NetworkPolicy that select the other end (`continue` = go on with the state as it is)

private theorem allowedConns_go_fold (np : NetPol) (other dst : KPeer) (rules : List NPRule) (res : ConnSet) :
    NetPol.allowedConns.go np other dst res rules =
      rules.foldlM (m := Except Err) (fun res rule => do
        let mut res := res
        let mut rulePeers := rule.peers
        let mut rulePorts := rule.ports
        let mut peerSelected ← (np.ruleSelectsPeer rulePeers other)
        if (!peerSelected) then
          return res
        let mut ruleConns ← (NetPol.ruleConnections rulePorts (some dst))
        res := res.union ruleConns
        return res) res := by
  induction rules generalizing res with
  | nil => rfl
  | cons r rest ih =>
    unfold NetPol.allowedConns.go
    simp only [List.foldlM]
    cases hs : np.ruleSelectsPeer r.peers other with
    | error e => rfl
    | ok sel =>
      cases sel
      · simp only [ok_bind, pure_ok, Bool.not_false, if_true]
        exact ih res
      · cases hc : NetPol.ruleConnections r.ports (some dst) with
        | error e => simp [ok_bind, pure_ok, hc]; rfl
        | ok rc =>
          simp only [ok_bind, pure_ok, Bool.not_true, Bool.false_eq_true, if_false, hc]
          exact ih (res.union rc)

/-- `GetEgressAllowedConns` -/
theorem npGetEgressAllowedConns_eq (np : NetPol) (dst : KPeer) :
    Gen.Procs.npGetEgressAllowedConns np dst = np.egressAllowedConns dst := by
  unfold Gen.Procs.npGetEgressAllowedConns NetPol.egressAllowedConns NetPol.allowedConns
  rw [allowedConns_go_fold]

/-- `GetIngressAllowedConns` -/
theorem npGetIngressAllowedConns_eq (np : NetPol) (src dst : KPeer) :
    Gen.Procs.npGetIngressAllowedConns np src dst = np.ingressAllowedConns src dst := by
  unfold Gen.Procs.npGetIngressAllowedConns NetPol.ingressAllowedConns NetPol.allowedConns
  rw [allowedConns_go_fold]

/-- `determineAllowedConnsPerDirection` without exposure analysis (the exposure sets of a policy are then empty): the rule walk -/
theorem determineAllowedConnsPerDirection_eq (np : NetPol) (src dst : KPeer) (isIngress sp dp : Bool) :
    Gen.Procs.determineAllowedConnsPerDirection np src dst isIngress (ConnSet.mk' false) (ConnSet.mk' false) (ConnSet.mk' false)
      (ConnSet.mk' false) sp dp = (if isIngress then np.ingressAllowedConns src dst else np.egressAllowedConns dst) := by
  unfold Gen.Procs.determineAllowedConnsPerDirection
  cases isIngress <;>
    simp [ConnSet.mk', npGetIngressAllowedConns_eq, npGetEgressAllowedConns_eq, bind_ok_id, pure_ok]

-- ------------------------------------------------------------------------------------------
-- loops: a Go `for … range` whose body only updates variables of the enclosing scope is the monadic left fold of its body

/-- `getAllAllowedXgressConnectionsFromANPs`: the fold over the admin policies in priority order -/
theorem getAllAllowedXgressConnectionsFromANPs_eq (e : Engine) (src dst : KPeer) (isIngress : Bool) :
    e.anpConns src dst isIngress = Gen.Procs.getAllAllowedXgressConnectionsFromANPs e.anps src dst isIngress := by
  unfold Engine.anpConns Gen.Procs.getAllAllowedXgressConnectionsFromANPs
  simp only [anpGetEgressPolicyConns_eq, anpGetIngressPolicyConns_eq, anpSelects_eq]
  congr 1
  · congr 1
    funext pc a
    cases isIngress
    · cases hs : a.selects src false
      · simp [hs, bind, Except.bind, pure, Except.pure, PolicyConns.isEmpty, PolicyConns.empty, ConnSet.isEmpty, ConnSet.mk', ConnSet.noProtos]
      · cases hc : adminPolicyConns a.egress dst dst false with
        | error err => simp [hs, hc, bind, Except.bind, pure, Except.pure]
        | ok r => cases hr : r.isEmpty <;> simp [hs, hc, hr, bind, Except.bind, pure, Except.pure, Gen.Procs.collectANPConns, PolicyConns.collectANP]
    · cases hs : a.selects dst true
      · simp [hs, bind, Except.bind, pure, Except.pure, PolicyConns.isEmpty, PolicyConns.empty, ConnSet.isEmpty, ConnSet.mk', ConnSet.noProtos]
      · cases hc : adminPolicyConns a.ingress src dst false with
        | error err => simp [hs, hc, bind, Except.bind, pure, Except.pure]
        | ok r => cases hr : r.isEmpty <;> simp [hs, hc, hr, bind, Except.bind, pure, Except.pure, Gen.Procs.collectANPConns, PolicyConns.collectANP]

/-- `getAllAllowedXgressConnsFromNetpols`: no policy selects the pod = not captured; otherwise the union over the selecting
policies in the order of their names (the exposure bookkeeping of the loop body is modelled in `Model/Exposure.lean`) -/
theorem getAllAllowedXgressConnsFromNetpols_eq (e : Engine) (src dst : KPeer) (isIngress : Bool) :
    npLift (e.netpolConns src dst isIngress) =
      Gen.Procs.getAllAllowedXgressConnsFromNetpols (.ok (e.policiesSelecting dst .ingress)) (.ok (e.policiesSelecting src .egress))
        src dst isIngress := by
  unfold Engine.netpolConns Gen.Procs.getAllAllowedXgressConnsFromNetpols npLift
  simp only [determineAllowedConnsPerDirection_eq]
  cases isIngress
  · cases hp : e.policiesSelecting src .egress with
    | nil => simp [hp, bind, Except.bind, pure, Except.pure, Except.map]
    | cons p ps =>
      simp only [hp, ↓reduceIte, List.isEmpty_cons, Bool.false_eq_true, if_false, if_true, bind, Except.bind, pure, Except.pure, Except.map, List.length_cons]
      have hl : (ps.length + 1 == 0) = false := by simp
      simp only [hl]
      try simp only [Bool.false_eq_true, if_false]
      generalize @List.foldlM (Except Err) _ ConnSet NetPol _ (ConnSet.mk' false) (p :: ps) = r
      cases r <;> rfl
  · cases hp : e.policiesSelecting dst .ingress with
    | nil => simp [hp, bind, Except.bind, pure, Except.pure, Except.map]
    | cons p ps =>
      simp only [hp, ↓reduceIte, List.isEmpty_cons, Bool.false_eq_true, if_false, if_true, bind, Except.bind, pure, Except.pure, Except.map, List.length_cons]
      try simp only [Bool.false_eq_true, if_false]
      generalize @List.foldlM (Except Err) _ ConnSet NetPol _ (ConnSet.mk' false) (p :: ps) = r
      cases r <;> rfl

-- ------------------------------------------------------------------------------------------
-- the call chain of check.go, regenerated end to end

/-- `getXgressDefaultConns` as the regenerated function of the engine's BANP (the two cases above in one term) -/
def genDefaultConns (e : Engine) (src dst : KPeer) (isIngress : Bool) : Except Err PolicyConns :=
  match e.banp with
  | none => Gen.Procs.getXgressDefaultConns false isIngress (.ok false) (.ok false) (.ok PolicyConns.empty) (.ok PolicyConns.empty)
  | some b => Gen.Procs.getXgressDefaultConns true isIngress (Gen.Procs.banpSelects b dst true) (Gen.Procs.banpSelects b src false)
      (Gen.Procs.banpGetIngressPolicyConns b.ingress src dst) (Gen.Procs.banpGetEgressPolicyConns b.egress dst)

theorem genDefaultConns_eq (e : Engine) (src dst : KPeer) (isIngress : Bool) :
    e.defaultConns src dst isIngress = genDefaultConns e src dst isIngress := by
  unfold genDefaultConns
  cases h : e.banp with
  | none => exact getXgressDefaultConns_none e src dst isIngress h _ _ _ _
  | some b =>
    simp only [banpGetIngressPolicyConns_eq, banpGetEgressPolicyConns_eq, banpSelects_eq]
    exact getXgressDefaultConns_some e src dst isIngress b h

/-- one direction, every function of check.go on the way regenerated from the source: the admin-policy side down to
`UpdateWithRuleConns` is regenerated too (`Get{In,E}gressPolicyConns` of ANP and BANP); the leaves left to the model are `Selects`, the rule's
connection set (`ruleConnections`), `getPoliciesSelectingPod` and the per-NetworkPolicy allowed connections -/
def genXgress (e : Engine) (src dst : KPeer) (isIngress : Bool) : Except Err ConnSet :=
  Gen.Procs.allAllowedXgressConnections
    (Gen.Procs.getAllAllowedXgressConnectionsFromANPs e.anps src dst isIngress)
    (Gen.Procs.getAllAllowedXgressConnsFromNetpols (.ok (e.policiesSelecting dst .ingress)) (.ok (e.policiesSelecting src .egress)) src dst isIngress)
    (genDefaultConns e src dst isIngress)

theorem xgressConns_regenerated (e : Engine) (src dst : KPeer) (isIngress : Bool) :
    e.xgressConns src dst isIngress = genXgress e src dst isIngress := by
  rw [allAllowedXgressConnections_eq, getAllAllowedXgressConnectionsFromANPs_eq, getAllAllowedXgressConnsFromNetpols_eq, genDefaultConns_eq]
  rfl

/-- `allAllowedConnectionsBetweenPeers` with both directions regenerated: the connection set the report holds for a pair of
peers is the composition of the regenerated functions of check.go over the model's rule-level leaves -/
theorem peerConns_regenerated (e : Engine) (src dst : KPeer) :
    e.peerConns src dst =
      Gen.Procs.allAllowedConnectionsBetweenPeers (Engine.isPodToItself src dst) false false
        (genXgress e src dst false) (genXgress e src dst true) := by
  rw [allAllowedConnectionsBetweenPeers_eq, xgressConns_regenerated, xgressConns_regenerated]

-- ------------------------------------------------------------------------------------------
-- the eval twin of the rule walk of one NetworkPolicy (`for i := range np.Spec.Ingress` reading `np.Spec.Ingress[i]`)

theorem npIngressAllowedConn_loop (np : NetPol) (src dst : KPeer) (proto port : String) (l : List NPRule) :
    npAllowedConn.go np src proto port dst l = Gen.Procs.npIngressAllowedConn_loop1 np src proto port dst l := by
  induction l with
  | nil => rfl
  | cons r rest ih =>
    unfold npAllowedConn.go Gen.Procs.npIngressAllowedConn_loop1
    rw [ih]

/-- `IngressAllowedConn` -/
theorem npIngressAllowedConn_eq (np : NetPol) (src dst : KPeer) (proto port : String) :
    npAllowedConn np np.ingress src proto port dst = Gen.Procs.npIngressAllowedConn np src proto port dst := by
  unfold npAllowedConn Gen.Procs.npIngressAllowedConn
  rw [npIngressAllowedConn_loop]

theorem npEgressAllowedConn_loop (np : NetPol) (dst : KPeer) (proto port : String) (l : List NPRule) :
    npAllowedConn.go np dst proto port dst l = Gen.Procs.npEgressAllowedConn_loop1 np dst proto port l := by
  induction l with
  | nil => rfl
  | cons r rest ih =>
    unfold npAllowedConn.go Gen.Procs.npEgressAllowedConn_loop1
    rw [ih]

/-- `EgressAllowedConn` -/
theorem npEgressAllowedConn_eq (np : NetPol) (dst : KPeer) (proto port : String) :
    npAllowedConn np np.egress dst proto port dst = Gen.Procs.npEgressAllowedConn np dst proto port := by
  unfold npAllowedConn Gen.Procs.npEgressAllowedConn
  rw [npEgressAllowedConn_loop]

-- ------------------------------------------------------------------------------------------
-- first-match loops: a Go loop whose body returns a value or goes on with the next element is a structural recursion

theorem byANPs_loop (src dst : KPeer) (isIngress : Bool) (proto port : String) (anps l : List ANP) :
    byANPs.go src dst isIngress proto port l =
      Gen.Procs.allowedXgressConnectionByAdminNetpols_loop1 src dst isIngress proto port anps l := by
  induction l with
  | nil => rfl
  | cons a rest ih =>
    unfold byANPs.go Gen.Procs.allowedXgressConnectionByAdminNetpols_loop1
    simp only [anpSelects_eq]
    rw [ih]
    cases isIngress
    · cases hs : a.selects src false
      · simp [hs, bind, Except.bind, pure, Except.pure]
      · cases hc : adminCheck a.egress dst dst proto port false with
        | error err => simp [hs, hc, bind, Except.bind, pure, Except.pure]
        | ok r => cases r <;> simp [hs, hc, bind, Except.bind, pure, Except.pure] <;> rfl
    · cases hs : a.selects dst true
      · simp [hs, bind, Except.bind, pure, Except.pure]
      · cases hc : adminCheck a.ingress src dst proto port false with
        | error err => simp [hs, hc, bind, Except.bind, pure, Except.pure]
        | ok r => cases r <;> simp [hs, hc, bind, Except.bind, pure, Except.pure] <;> rfl

/-- `allowedXgressConnectionByAdminNetpols`: the first admin policy (in priority order) that selects the pod and captures the
connection decides; Pass and "no policy captured" hand over to the next layer -/
theorem allowedXgressConnectionByAdminNetpols_eq (e : Engine) (src dst : KPeer) (isIngress : Bool) (proto port : String) :
    byANPs e src dst isIngress proto port =
      Gen.Procs.allowedXgressConnectionByAdminNetpols src dst isIngress proto port e.anps := by
  unfold byANPs Gen.Procs.allowedXgressConnectionByAdminNetpols
  rw [byANPs_loop src dst isIngress proto port e.anps e.anps]

theorem byNetpols_loop (a b : Except Err (List NetPol)) (src dst : KPeer) (isIngress : Bool) (proto port : String) (l : List NetPol) :
    byNetpols.go src dst isIngress proto port l =
      Gen.Procs.allowedXgressConnectionByNetpols_loop1 a b src dst isIngress proto port l := by
  induction l with
  | nil => rfl
  | cons p rest ih =>
    unfold byNetpols.go Gen.Procs.allowedXgressConnectionByNetpols_loop1
    simp only [← npIngressAllowedConn_eq, ← npEgressAllowedConn_eq]
    rw [ih]

/-- `allowedXgressConnectionByNetpols`: not captured when no policy selects the pod; otherwise the first policy (in name
order) with a rule that admits the connection -/
theorem allowedXgressConnectionByNetpols_eq (e : Engine) (src dst : KPeer) (isIngress : Bool) (proto port : String) :
    byNetpols e src dst isIngress proto port =
      Gen.Procs.allowedXgressConnectionByNetpols (.ok (e.policiesSelecting dst .ingress)) (.ok (e.policiesSelecting src .egress))
        src dst isIngress proto port := by
  unfold byNetpols Gen.Procs.allowedXgressConnectionByNetpols
  cases isIngress
  · cases hp : e.policiesSelecting src .egress with
    | nil => simp [hp, bind, Except.bind, pure, Except.pure]
    | cons p ps =>
      simp only [hp, ↓reduceIte, List.isEmpty_cons, Bool.false_eq_true, if_false, bind, Except.bind, pure, Except.pure, List.length_cons]
      rw [byNetpols_loop (.ok (e.policiesSelecting dst .ingress)) (.ok (p :: ps))]
      have hl : (ps.length + 1 == 0) = false := by simp
      simp only [hl, Bool.false_eq_true, if_false]
  · cases hp : e.policiesSelecting dst .ingress with
    | nil => simp [hp, bind, Except.bind, pure, Except.pure]
    | cons p ps =>
      simp only [hp, ↓reduceIte, List.isEmpty_cons, Bool.false_eq_true, if_false, bind, Except.bind, pure, Except.pure, List.length_cons]
      rw [byNetpols_loop (.ok (p :: ps)) (.ok (e.policiesSelecting src .egress))]
      have hl : (ps.length + 1 == 0) = false := by simp
      simp only [hl, Bool.false_eq_true, if_false]

/-- `allowedXgressByBaselineAdminNetpolOrByDefault` as the regenerated function of the engine's BANP -/
def genByBANP (e : Engine) (src dst : KPeer) (isIngress : Bool) (proto port : String) : Except Err Bool :=
  match e.banp with
  | none => Gen.Procs.allowedXgressByBaselineAdminNetpolOrByDefault false isIngress (.ok false) (.ok false) (.ok true) (.ok true)
  | some b => Gen.Procs.allowedXgressByBaselineAdminNetpolOrByDefault true isIngress (Gen.Procs.banpSelects b dst true) (Gen.Procs.banpSelects b src false)
      (banpVerdict (adminCheck b.ingress src dst proto port true)) (banpVerdict (adminCheck b.egress dst dst proto port true))

theorem genByBANP_eq (e : Engine) (src dst : KPeer) (isIngress : Bool) (proto port : String) :
    byBANP e src dst isIngress proto port = genByBANP e src dst isIngress proto port := by
  unfold genByBANP
  cases h : e.banp with
  | none => exact byBANP_none e src dst isIngress proto port h _ _ _ _
  | some b =>
    simp only [banpSelects_eq]
    exact byBANP_some e src dst isIngress proto port b h

/-- the rule-walking verdict of one direction (`eval` / `CheckIfAllowed`), every function of check_eval.go on the way regenerated
from the source: admin policies in priority order with the first capturing rule, then the NetworkPolicies in name order, then
the baseline policy or the default; the leaves are the rule-level functions of the model -/
theorem xgress_regenerated (s : EState) (src dst : KPeer) (isIngress : Bool) (proto port : String) :
    xgress s src dst isIngress proto port =
      Gen.Procs.allowedXgressConnection
        (Gen.Procs.allowedXgressConnectionByAdminNetpols src dst isIngress proto port s.eng.anps)
        (Gen.Procs.allowedXgressConnectionByNetpols (.ok (s.eng.policiesSelecting dst .ingress)) (.ok (s.eng.policiesSelecting src .egress))
          src dst isIngress proto port)
        (genByBANP s.eng src dst isIngress proto port) := by
  rw [allowedXgressConnection_eq, allowedXgressConnectionByAdminNetpols_eq, allowedXgressConnectionByNetpols_eq, genByBANP_eq]

-- ------------------------------------------------------------------------------------------
-- insertAdminNetworkPolicy: the refusals in the order of the Go function, the binary search, the splice

/-- the index `sort.Search` returns on a list ordered by priority: the number of leading policies whose priority is not greater -/
def searchIdx (a : ANP) (l : List ANP) : Nat := (l.takeWhile (fun b => !decide (b.prio > a.prio))).length

/-- the model's `insertSorted` is the splice at the index the search finds (for every list) -/
theorem insertSorted_eq_splice (a : ANP) (l : List ANP) :
    Engine.insertSorted a l = l.take (searchIdx a l) ++ [a] ++ l.drop (searchIdx a l) := by
  induction l with
  | nil => rfl
  | cons b bs ih =>
    unfold Engine.insertSorted searchIdx
    by_cases h : b.prio > a.prio
    · simp [h, List.takeWhile]
    · simp only [h, if_false, List.takeWhile, decide_false, Bool.not_false, List.length_cons, List.take_succ_cons, List.drop_succ_cons,
        List.cons_append]
      rw [ih]
      simp [searchIdx]

/-- on a list strictly ordered by priority, "the entry before the insertion point has the same priority" is "some entry has" -/
theorem samePrio_at_searchIdx (a : ANP) (l : List ANP) (hs : l.Pairwise (fun x y => x.prio < y.prio)) :
    (decide (searchIdx a l > 0) && ((l[searchIdx a l - 1]?.map (·.prio)) == some a.prio)) = l.any (fun b => b.prio == a.prio) := by
  induction l with
  | nil => rfl
  | cons b bs ih =>
    have hb : ∀ c ∈ bs, b.prio < c.prio := (List.pairwise_cons.mp hs).1
    have hbs := (List.pairwise_cons.mp hs).2
    by_cases h : b.prio > a.prio
    · -- nothing is ≤ a.prio: the index is 0 and no entry has the priority
      have hany : bs.any (fun c => c.prio == a.prio) = false := by
        rw [List.any_eq_false]
        intro c hc
        have := hb c hc
        simp; omega
      have hbe : (b.prio == a.prio) = false := by simp; omega
      simp [searchIdx, List.takeWhile, h, hany, hbe]
    · have hk : searchIdx a (b :: bs) = searchIdx a bs + 1 := by simp [searchIdx, List.takeWhile, h]
      rw [hk]
      by_cases hk0 : searchIdx a bs = 0
      · -- the block of entries ≤ a.prio is `[b]`: every later entry is greater
        have hany : bs.any (fun c => c.prio == a.prio) = false := by
          cases bs with
          | nil => rfl
          | cons c cs =>
            have hc : c.prio > a.prio := by
              by_cases hc : c.prio > a.prio
              · exact hc
              · simp [searchIdx, List.takeWhile, hc] at hk0
            rw [List.any_eq_false]
            intro d hd
            have h1 : c.prio ≤ d.prio := by
              rcases List.mem_cons.mp hd with rfl | hd'
              · exact Int.le_refl _
              · exact Int.le_of_lt ((List.pairwise_cons.mp hbs).1 d hd')
            simp; omega
        simp [hk0, hany]
      · -- the entry before the insertion point lies in `bs`; `b` is strictly smaller than all of it, hence than a.prio
        have hpos : searchIdx a bs > 0 := Nat.pos_of_ne_zero hk0
        have hbne : (b.prio == a.prio) = false := by
          cases bs with
          | nil => simp [searchIdx] at hk0
          | cons c cs =>
            have hc : ¬ c.prio > a.prio := by
              intro hc
              simp [searchIdx, List.takeWhile, hc] at hk0
            have := hb c (List.mem_cons_self)
            simp; omega
        have hidx : (b :: bs)[searchIdx a bs + 1 - 1]? = bs[searchIdx a bs - 1]? := by
          have : searchIdx a bs + 1 - 1 = (searchIdx a bs - 1) + 1 := by omega
          rw [this, List.getElem?_cons_succ]
        rw [hidx]
        have := ih hbs
        simp only [List.any_cons, hbne, Bool.false_or]
        rw [← this]
        simp [hpos]

/-- `insertAdminNetworkPolicy` on an engine whose admin policies are strictly ordered by priority (the invariant of every
reachable state: C15 `anps_strictly_sorted_invariant`): the model's `insertANP` is the Go function - exposure refusal, name
refusal, range refusal, the binary search and the same-priority refusal, then the splice at the index found -/
theorem insertAdminNetworkPolicy_eq (e : Engine) (a : ANP) (hs : e.anps.Pairwise (fun x y => x.prio < y.prio)) :
    e.insertANP a = Gen.Procs.insertAdminNetworkPolicy e a := by
  have h1 := insertSorted_eq_splice a e.anps
  have h2 := samePrio_at_searchIdx a e.anps hs
  unfold searchIdx at h1 h2
  unfold Engine.insertANP Gen.Procs.insertAdminNetworkPolicy
  rw [h1, ← h2]
  cases hd : (decide ((List.takeWhile (fun b => !decide (b.prio > a.prio)) e.anps).length > 0) &&
      Option.map (fun x => x.prio) e.anps[(List.takeWhile (fun b => !decide (b.prio > a.prio)) e.anps).length - 1]? == some a.prio) <;>
    cases hx : e.exposure <;> cases hv : a.validPriority <;> by_cases hn : a.name ∈ e.anpNames <;>
    simp [hd, hx, hv, hn, bind, Except.bind, pure, Except.pure, throw, throwThe, MonadExceptOf.throw]

-- ------------------------------------------------------------------------------------------
-- connectionset.go: the set algebra itself. A Go map keyed by protocol is visited protocol by protocol; the body of a
-- `for … range conn.AllowedProtocols` loop runs for the protocols that have an entry.

theorem isAllConnectionsWithoutAllowAll_eq (c : ConnSet) :
    Gen.Procs.isAllConnectionsWithoutAllowAll c = .ok c.isAllWithoutAllowAll := by
  obtain ⟨a, t, u, s⟩ := c
  cases a
  · cases t <;> cases u <;> cases s <;>
      simp [Gen.Procs.isAllConnectionsWithoutAllowAll, ConnSet.isAllWithoutAllowAll, Proto.all,
        Gen.Procs.isAllConnectionsWithoutAllowAll_loop1, ConnSet.get, bind, Except.bind, pure, Except.pure]
    rename_i p q r
    cases p.isAll <;> cases q.isAll <;> cases r.isAll <;> rfl
  · rfl

theorem checkIfAllConnections_eq (c : ConnSet) : Gen.Procs.checkIfAllConnections c = .ok c.checkIfAll := by
  unfold Gen.Procs.checkIfAllConnections ConnSet.checkIfAll
  simp only [isAllConnectionsWithoutAllowAll_eq, bind, Except.bind]
  cases c.isAllWithoutAllowAll <;> rfl

theorem addConnection_eq (c : ConnSet) (pr : Proto) (ps : PortSet) :
    Gen.Procs.addConnection c pr ps = .ok (c.addConnectionRaw pr ps) := by
  unfold Gen.Procs.addConnection ConnSet.addConnectionRaw
  cases he : ps.isEmpty
  · cases hg : c.get pr <;> simp [he, hg, pure, Except.pure]
  · simp [he, pure, Except.pure]

theorem addConnectionPublic_eq (c : ConnSet) (pr : Proto) (ps : PortSet) :
    Gen.Procs.addConnectionPublic c pr ps = .ok (c.addConnection pr ps) := by
  unfold Gen.Procs.addConnectionPublic ConnSet.addConnection
  simp only [addConnection_eq, checkIfAllConnections_eq, bind, Except.bind]
  cases c.allowAll <;> rfl

theorem addAllConns_eq (c : ConnSet) : Gen.Procs.addAllConns c = .ok c.addAllConns := by
  unfold Gen.Procs.addAllConns ConnSet.addAllConns
  simp [Proto.all, List.foldlM, bind, Except.bind, pure, Except.pure, addConnection_eq]


/-- `ConnectionSet.Intersection` -/
theorem intersection_eq (c o : ConnSet) : Gen.Procs.intersection c o = .ok (c.inter o) := by
  obtain ⟨ca, ct, cu, cs⟩ := c
  obtain ⟨oa, ot, ou, os⟩ := o
  cases oa <;> cases ca <;> cases ct <;> cases cu <;> cases cs <;> cases ot <;> cases ou <;> cases os <;>
    simp [Gen.Procs.intersection, ConnSet.inter, ConnSet.mapProtos, Proto.all, List.foldlM, ConnSet.get, ConnSet.set,
      ok_bind, pure_ok, bind_ok_id, PortSet.copy, HOrElse.hOrElse, OrElse.orElse, Option.orElse, ite_ok,
      apply_ite ConnSet.tcp, apply_ite ConnSet.udp, apply_ite ConnSet.sctp, apply_ite ConnSet.allowAll]
  all_goals (repeat (first | rfl | (split <;> simp_all [ok_bind, pure_ok, bind_ok_id, ite_ok])))

/-- `ConnectionSet.Union` -/
theorem union_eq (c o : ConnSet) : Gen.Procs.union c o = .ok (c.union o) := by
  obtain ⟨ca, ct, cu, cs⟩ := c
  obtain ⟨oa, ot, ou, os⟩ := o
  cases oa <;> cases ca <;> cases ct <;> cases cu <;> cases cs <;> cases ot <;> cases ou <;> cases os <;>
    simp [Gen.Procs.union, ConnSet.union, ConnSet.mapProtos, Proto.all, List.foldlM, ConnSet.get, ConnSet.set, ConnSet.isEmpty,
      ConnSet.noProtos, ConnSet.mk', checkIfAllConnections_eq, ok_bind, pure_ok, bind_ok_id, PortSet.copy, ite_ok,
      apply_ite ConnSet.tcp, apply_ite ConnSet.udp, apply_ite ConnSet.sctp, apply_ite ConnSet.allowAll]
  all_goals (repeat (first | rfl | (split <;> simp_all [ok_bind, pure_ok, bind_ok_id, ite_ok])))

/-- the loop of `Subtract` over the entries of the receiver (after the AllowAll form was expanded) -/
private theorem subtract_loop (c1 o : ConnSet) :
    (Proto.all.foldlM (m := Except Err) (fun conn protocol => do
      let mut conn := conn
      if (conn.get protocol).isSome then
        let mut ports := (conn.get protocol).getD default
        let mut otherPorts := (o.get protocol).getD default
        let mut ok := (o.get protocol).isSome
        if ok then
          if (ports.containedIn otherPorts) then
            conn := conn.set protocol none
          else
            conn := conn.set protocol (some (((conn.get protocol).getD default).subtract otherPorts))
      return conn) c1) =
    .ok (c1.mapProtos fun pr cur =>
      match cur with
      | none => none
      | some ports =>
        match o.get pr with
        | none => some ports
        | some op => if ports.containedIn op then none else some (ports.subtract op)) := by
  obtain ⟨ca, ct, cu, cs⟩ := c1
  obtain ⟨oa, ot, ou, os⟩ := o
  cases ct <;> cases cu <;> cases cs <;> cases ot <;> cases ou <;> cases os <;>
    simp [ConnSet.mapProtos, Proto.all, List.foldlM, ConnSet.get, ConnSet.set, ok_bind, pure_ok, bind_ok_id, ite_ok,
      apply_ite ConnSet.tcp, apply_ite ConnSet.udp, apply_ite ConnSet.sctp, apply_ite ConnSet.allowAll]
  all_goals (repeat (first | rfl | (split <;> simp_all [ok_bind, pure_ok, bind_ok_id, ite_ok])))

/-- `ConnectionSet.Subtract` -/
theorem subtract_eq (c o : ConnSet) : Gen.Procs.subtract c o = .ok (c.subtract o) := by
  obtain ⟨ca, ct, cu, cs⟩ := c
  cases hoe : o.isEmpty
  · cases hoa : o.allowAll
    · cases ca
      · have h := subtract_loop ⟨false, ct, cu, cs⟩ o
        simp only [pure_ok] at h
        simp [Gen.Procs.subtract, ConnSet.subtract, hoe, hoa, ok_bind, pure_ok, bind_ok_id, h]
        rfl
      · have h := subtract_loop (ConnSet.addAllConns ⟨false, ct, cu, cs⟩) o
        simp only [pure_ok] at h
        simp [Gen.Procs.subtract, ConnSet.subtract, hoe, hoa, addAllConns_eq, ok_bind, pure_ok, bind_ok_id, h]
        rfl
    · simp [Gen.Procs.subtract, ConnSet.subtract, hoe, hoa, pure_ok, ConnSet.mk']
  · simp [Gen.Procs.subtract, ConnSet.subtract, hoe, pure_ok]

/-- `ConnectionSet.ContainedIn` -/
theorem containedIn_eq (c o : ConnSet) : Gen.Procs.containedIn c o = .ok (c.containedIn o) := by
  obtain ⟨ca, ct, cu, cs⟩ := c
  obtain ⟨oa, ot, ou, os⟩ := o
  cases oa <;> cases ca <;> cases ct <;> cases cu <;> cases cs <;> cases ot <;> cases ou <;> cases os <;>
    simp [Gen.Procs.containedIn, Gen.Procs.containedIn_loop1, ConnSet.containedIn, Proto.all, ConnSet.get, ok_bind, pure_ok, bind_ok_id, ite_ok]
  all_goals (repeat (first | rfl | (split <;> simp_all [ok_bind, pure_ok, bind_ok_id, ite_ok])))

-- ------------------------------------------------------------------------------------------
-- portset.go: a Go `map[string]bool` used as a set of names is the model's sorted list of names; `S[k] = true` is `sinsert`,
-- `delete(S, k)` is `serase`, `S[k]` is membership, and a loop over the set visits its names

private theorem union_names_loop (l : List String) (p : PortSet) :
    l.foldlM (m := Except Err) (fun p k => do
      let mut p := p
      let v := true
      p := { p with named := sinsert k p.named }
      p := { p with excluded := serase k p.excluded }
      return p) p =
    .ok { p with named := l.foldl (fun acc k => sinsert k acc) p.named, excluded := l.foldl (fun acc k => serase k acc) p.excluded } := by
  induction l generalizing p with
  | nil => rfl
  | cons k ks ih =>
    simp only [List.foldlM, List.foldl, ok_bind, pure_ok]
    exact ih _

private theorem union_excluded_loop (l : List String) (p : PortSet) :
    l.foldlM (m := Except Err) (fun p k => do
      let mut p := p
      let v := true
      if (!(p.named.contains k)) then
        p := { p with excluded := sinsert k p.excluded }
      return p) p =
    .ok { p with excluded := l.foldl (fun acc k => if p.named.contains k then acc else sinsert k acc) p.excluded } := by
  induction l generalizing p with
  | nil => rfl
  | cons k ks ih =>
    simp only [List.foldlM, List.foldl]
    cases hc : p.named.contains k
    · simp only [hc, Bool.not_false, if_true, ok_bind, pure_ok, Bool.false_eq_true, if_false]
      exact ih _
    · simp only [hc, Bool.not_true, Bool.false_eq_true, if_false, ok_bind, pure_ok, if_true]
      exact ih _

/-- `PortSet.Union` -/
theorem portSetUnion_eq (p o : PortSet) : Gen.Procs.portSetUnion p o = .ok (p.union o) := by
  unfold Gen.Procs.portSetUnion PortSet.union
  simp only []
  rw [union_names_loop]
  simp only [ok_bind]
  rw [union_excluded_loop]

private theorem subtract_names_loop (l : List String) (p : PortSet) :
    l.foldlM (m := Except Err) (fun p namedPort => do
      let mut p := p
      p := { p with named := serase namedPort p.named }
      p := { p with excluded := sinsert namedPort p.excluded }
      return p) p =
    .ok { p with named := l.foldl (fun acc k => serase k acc) p.named, excluded := l.foldl (fun acc k => sinsert k acc) p.excluded } := by
  induction l generalizing p with
  | nil => rfl
  | cons k ks ih =>
    simp only [List.foldlM, List.foldl, ok_bind, pure_ok]
    exact ih _

/-- `PortSet.subtract` (with `subtractNamedPorts`) -/
theorem portSetSubtract_eq (p o : PortSet) : Gen.Procs.portSetSubtract p o = .ok (p.subtract o) := by
  unfold Gen.Procs.portSetSubtract Gen.Procs.portSetSubtractNamedPorts PortSet.subtract
  simp only []
  rw [subtract_names_loop]

/-- `PortSet.Intersection` (numeric ports only, as coded) -/
theorem portSetIntersection_eq (p o : PortSet) : Gen.Procs.portSetIntersection p o = .ok (p.inter o) := rfl

/-- `PortSet.ContainedIn` -/
theorem portSetContainedIn_eq (p o : PortSet) : Gen.Procs.portSetContainedIn p o = .ok (p.containedIn o) := by
  unfold Gen.Procs.portSetContainedIn PortSet.containedIn
  cases h1 : CSet.isSubset p.ports o.ports <;> cases h2 : CSet.equal o.ports (PortSet.mk' true).ports <;>
    cases h3 : p.named.all (fun n => o.named.contains n) <;>
    simp_all [PortSet.mk', pure_ok, List.any_eq_true, List.all_eq_true]

/-- `PortSet.IsAll` -/
theorem portSetIsAll_eq (p : PortSet) : Gen.Procs.portSetIsAll p = .ok p.isAll := by
  unfold Gen.Procs.portSetIsAll PortSet.isAll
  cases p.excluded <;> simp [PortSet.mk', pure_ok]

/-- `ConnectionSet.Equal`: same flag, same number of entries, every entry of the receiver present and equal on the other side -/
theorem connSetEqual_eq (c o : ConnSet) : Gen.Procs.connSetEqual c o = .ok (c.equal o) := by
  obtain ⟨ca, ct, cu, cs⟩ := c
  obtain ⟨oa, ot, ou, os⟩ := o
  cases oa <;> cases ca <;> cases ct <;> cases cu <;> cases cs <;> cases ot <;> cases ou <;> cases os <;>
    simp [Gen.Procs.connSetEqual, Gen.Procs.connSetEqual_loop1, ConnSet.equal, ConnSet.numProtos, Proto.all, ConnSet.get, List.filter,
      ok_bind, pure_ok, bind_ok_id, ite_ok]
  all_goals (repeat (first | rfl | (split <;> simp_all [ok_bind, pure_ok, bind_ok_id, ite_ok])))

/-- `ConnectionSet.Copy`: the same value (entry by entry, each a copy) -/
theorem connSetCopy_eq (c : ConnSet) : Gen.Procs.connSetCopy c = .ok c.copy := by
  obtain ⟨ca, ct, cu, cs⟩ := c
  cases ct <;> cases cu <;> cases cs <;>
    simp [Gen.Procs.connSetCopy, ConnSet.copy, ConnSet.mk', Proto.all, List.foldlM, ConnSet.get, ConnSet.set, PortSet.copy,
      ok_bind, pure_ok, bind_ok_id, ite_ok]

/-- `PortSet.AddPort` (an `intstr` of type String is a name, otherwise the number) -/
theorem portSetAddPort_eq (p : PortSet) (r : PortRef) :
    (match r with
     | .name s => Gen.Procs.portSetAddPort p true s 0
     | .num n => Gen.Procs.portSetAddPort p false "" n) = .ok (p.addPort r) := by
  cases r <;> rfl

/-- `PortSet.RemovePort` -/
theorem portSetRemovePort_eq (p : PortSet) (r : PortRef) :
    (match r with
     | .name s => Gen.Procs.portSetRemovePort p true s 0
     | .num n => Gen.Procs.portSetRemovePort p false "" n) = .ok (p.removePort r) := by
  cases r <;> rfl

/-- `PortSet.AddPortRange` -/
theorem portSetAddPortRange_eq (p : PortSet) (lo hi : Int) :
    Gen.Procs.portSetAddPortRange p lo hi = .ok (p.addPortRange lo hi) := rfl

/-- `ConnectionSet.Contains(port, protocol string)`: the port must be a number; the full set holds it; otherwise the entry of the
protocol the string names (case-insensitively) decides -/
theorem connSetContains_eq (c : ConnSet) (port protocol : String) :
    Gen.Procs.connSetContains c port protocol = .ok (c.containsStr port protocol) := by
  obtain ⟨ca, ct, cu, cs⟩ := c
  unfold Gen.Procs.connSetContains ConnSet.containsStr
  cases hp : port.toInt? with
  | none => simp [pure_ok]
  | some n =>
    cases ca
    · cases hpr : Proto.ofStrFold? protocol with
      | none =>
        cases ct <;> cases cu <;> cases cs <;>
          simp [hpr, Gen.Procs.connSetContains_loop1, Proto.all, ConnSet.get, ok_bind, pure_ok, bind_ok_id]
      | some pr =>
        cases pr <;> cases ct <;> cases cu <;> cases cs <;>
          simp [hp, hpr, Gen.Procs.connSetContains_loop1, Proto.all, ConnSet.get, ok_bind, pure_ok, bind_ok_id]
    · simp [pure_ok]

end Netpol.Tie.Procs
