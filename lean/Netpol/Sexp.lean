/-! S-expressions: the line protocol between the Go harness and the Lean driver.
Atoms never contain blanks or parentheses. -/
namespace Netpol

inductive Sexp where
  | atom : String → Sexp
  | list : List Sexp → Sexp
deriving Repr, Inhabited, BEq

namespace Sexp

partial def toStr : Sexp → String
  | atom s => s
  | list xs => "(" ++ " ".intercalate (xs.map toStr) ++ ")"

instance : ToString Sexp := ⟨toStr⟩

/-- tokeniser: parentheses and blank-separated atoms -/
def tokens (s : String) : List String := Id.run do
  let mut out : Array String := #[]
  let mut cur : String := ""
  for c in s.toList do
    if c == '(' || c == ')' then
      if cur != "" then out := out.push cur
      cur := ""
      out := out.push (String.singleton c)
    else if c == ' ' || c == '\t' || c == '\n' || c == '\r' then
      if cur != "" then out := out.push cur
      cur := ""
    else
      cur := cur.push c
  if cur != "" then out := out.push cur
  return out.toList

/-- parse with an explicit stack; returns none on unbalanced input -/
def parseTokens (toks : List String) : Option Sexp := Id.run do
  let mut stack : List (List Sexp) := [[]]   -- reversed partial lists
  for t in toks do
    if t == "(" then
      stack := [] :: stack
    else if t == ")" then
      match stack with
      | top :: next :: rest => stack := (Sexp.list top.reverse :: next) :: rest
      | _ => return none
    else
      match stack with
      | top :: rest => stack := (Sexp.atom t :: top) :: rest
      | [] => return none
  match stack with
  | [[x]] => return some x
  | _ => return none

def parse (s : String) : Option Sexp := parseTokens (tokens s)

def atom? : Sexp → Option String
  | atom s => some s
  | _ => none

def list? : Sexp → Option (List Sexp)
  | list xs => some xs
  | _ => none

/-- head atom of a list -/
def head? : Sexp → Option String
  | list (atom h :: _) => some h
  | _ => none

def args : Sexp → List Sexp
  | list (_ :: xs) => xs
  | _ => []

def int? : Sexp → Option Int
  | atom s => s.toInt?
  | _ => none

def nat? : Sexp → Option Nat
  | atom s => s.toNat?
  | _ => none

/-- find the first sub-list whose head is `k` -/
def field (k : String) (xs : List Sexp) : Option Sexp :=
  xs.find? (fun x => x.head? == some k)

def fields (k : String) (xs : List Sexp) : List Sexp :=
  xs.filter (fun x => x.head? == some k)

end Sexp
end Netpol
