def hello := "world"
