import Netpol.Model.Cache
namespace Netpol.Properties.C12
open Netpol

end Netpol.Properties.C12
