import Netpol.Model.Pipeline
import Netpol.Tie.C12
/-! C12 — analysis is total: any input yields a result or an error, never a crash.

What a theorem can carry here: (1) the model of the pipeline is a total function whose value is always a report or a
classified error (Lean definitions cannot crash, so this is the statement that the model *has* no third outcome), and
(2) every dereference of an optional pointer of an API object in the analysed packages is dominated by a nil check — a
fact table regenerated from the Go source on every run (`Netpol.Gen.derefSites`, `tools/goextract`).
What it cannot carry: panics inside the Kubernetes decoding libraries, index-out-of-range and nil-map writes elsewhere;
those are the P leg of the check (`mut` and `baddoc` families: structural mutations of valid manifests through the real
entry points under `recover`). The property is therefore labelled partial in MANIFEST.json. -/
namespace Netpol.Properties.C12
open Netpol Pipeline

/-- a report: `(ok …)` -/
def IsReport (s : Sexp) : Prop := ∃ xs, s = .list (.atom "ok" :: xs)
/-- a classified error: `(err CLASS)` -/
def IsError (s : Sexp) : Prop := ∃ c, s = .list [.atom "err", .atom c]

theorem errSx_isError (e : Err) : IsError (WorldDriver.errSx e) := ⟨_, rfl⟩

/-- `list` on any set of objects, any focus: a report or a classified error -/
theorem list_total (objs : List Obj) (focus : String) :
    IsReport (WorldDriver.runList objs focus) ∨ IsError (WorldDriver.runList objs focus) := by
  unfold WorldDriver.runList
  simp only []
  repeat' split
  all_goals first
    | exact .inr (errSx_isError _)
    | exact .inl ⟨_, rfl⟩

/-- the whole pipeline (good documents plus documents of any scan class, with or without stop-on-first-error):
a report or a classified error -/
theorem pipeline_total (objs : List Obj) (classes : List ScanClass) (stop : Bool) :
    IsReport (outcome objs classes stop) ∨ IsError (outcome objs classes stop) := by
  unfold outcome
  simp only []
  split
  · exact .inr ⟨_, rfl⟩
  · split
    · exact .inl ⟨_, rfl⟩
    · exact list_total objs ""

/-- every dereference of an optional API field found in the current source is dominated by a nil check, or is one of the
reasoned exceptions of `Tie.C12.derefAllowlist` -/
theorem optional_fields_guarded :
    ∀ s ∈ Gen.derefSites, s.2.2.2.2 = true ∨
      Tie.C12.derefAllowlist.any (fun a => a.1 == s.2.1 && a.2.1 == s.2.2.1) = true :=
  Tie.C12.deref_sites_guarded

/-- the optional fields named in the property (ownerReferences without controller, workloads without a pod template,
Ingress rules without http) and the absent BaselineAdminNetworkPolicy are guarded in the current source -/
theorem named_optional_fields_guarded :
    ("pod.go", "PodFromCoreObject", "ownerRef.Controller", "*", true) ∈ Gen.derefSites ∧
    ("pod.go", "PodsFromWorkloadObject", "obj.Spec.Template", "*", true) ∈ Gen.derefSites ∧
    ("ingress_analyzer.go", "IngressAnalyzer.getK8sIngressServices", "rule.IngressRuleValue.HTTP", ".Paths", true) ∈ Gen.derefSites ∧
    ("resources.go", "PolicyEngine.deleteBaselineAdminNetworkPolicy", "pe.baselineAdminNetpol", ".Name", true) ∈ Gen.derefSites :=
  Tie.C12.former_crash_sites_guarded

/-- the model of workload conversion handles every optional field: an owner of kind Node is ignored, a missing replica
count means one pod -/
example : (WorldParse.pObj (.list [.atom "wl", .atom "Deployment", .atom "n", .atom "w", .atom "-", .list [.atom "labels"],
    .list [.atom "ports"]])).isSome = true := by decide

end Netpol.Properties.C12
