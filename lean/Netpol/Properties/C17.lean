import Netpol.Model.Engine
import Netpol.Model.Diff
import Netpol.Model.Sort
namespace Netpol.Properties.C17
open Netpol

end Netpol.Properties.C17
