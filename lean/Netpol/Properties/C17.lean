import Netpol.Proofs.EngineLayer
import Netpol.Proofs.CacheLayer
import Netpol.Properties.C05
import Netpol.Properties.C11
/-! # C17 — connectivity is per workload, independent of replicas and controller kind

`list` reports connections between *workloads*. A workload manifest (Deployment, ReplicaSet,
StatefulSet, DaemonSet, Job, CronJob, ReplicationController) is expanded into one or two pods
(`Engine.podsFromWorkload`); the report line of a workload is computed on one of them. This file
shows that nothing of the controller kind, the replica count or the names reaches the computed
connections:

* `podsFromWorkload_sim` — the pods generated from two workloads with the same namespace,
  pod-template labels and container ports are pairwise `PodSim` (agree on namespace, labels,
  ports; all real pods), whatever `kind`, `replicas`, `name`; there are one or two of them, named
  `name-1`, `name-2`;
* `spec_allowed_congr` — the specification `Spec.allowed` reads a pod end only through namespace,
  labels, container ports (and the labels of its namespace);
* `kind_replica_invariance` — for `PodSim` pods the connection sets computed by `peerConns` denote
  the same connections (from `peerConns_spec` and the previous item), as source and as destination;
* `peerConns_congr` — stronger, and without any validity assumption: the computed sets are *equal*
  (`peerConns` itself reads a real pod only through namespace, labels, ports, and through its name
  in the pod-to-itself test);
* `workload_name_suffix` — in the reported name `ns/owner[Kind]` only the bracket depends on the
  kind;
* `no_self_line` — no report line from a workload to itself (C05). -/
namespace Netpol.Properties.C17
open Netpol Engine

/-! ### A. the pods of a workload -/

/-- the replica count `PodsFromWorkloadObject` looks at -/
def effReplicas (w : Workload) : Int :=
  if w.kind == "DaemonSet" || w.kind == "CronJob" then 1 else w.replicas.getD 1

/-- the `i`-th generated pod -/
def podOf (w : Workload) (i : Nat) : Pod :=
  { ns := w.ns, name := w.name ++ "-" ++ toString (i + 1), labels := w.labels, ports := w.ports,
    ownerKind := w.kind, ownerName := w.name, variant := variantOf w.labels w.ports, hostIP := "127.0.0.1" }

theorem podsFromWorkload_eq (w : Workload) :
    podsFromWorkload w = if effReplicas w > 1 then [podOf w 0, podOf w 1] else [podOf w 0] := by
  have : podsFromWorkload w = (List.range (if effReplicas w > 1 then 2 else 1)).map (podOf w) := rfl
  rw [this]
  split <;> rfl

/-- one pod, or two -/
theorem podsFromWorkload_length (w : Workload) :
    1 ≤ (podsFromWorkload w).length ∧ (podsFromWorkload w).length ≤ 2 := by
  rw [podsFromWorkload_eq]
  split <;> simp

/-- two exactly when more than one replica is asked for (never for a DaemonSet or a CronJob) -/
theorem podsFromWorkload_length_eq (w : Workload) :
    (podsFromWorkload w).length = if effReplicas w > 1 then 2 else 1 := by
  rw [podsFromWorkload_eq]
  split <;> rfl

theorem podOf_name_0 (w : Workload) : (podOf w 0).name = w.name ++ "-1" := by
  show w.name ++ "-" ++ toString (0 + 1) = _
  rw [String.append_assoc]
  rfl

theorem podOf_name_1 (w : Workload) : (podOf w 1).name = w.name ++ "-2" := by
  show w.name ++ "-" ++ toString (1 + 1) = _
  rw [String.append_assoc]
  rfl

/-- the names of the generated pods -/
theorem podsFromWorkload_names (w : Workload) :
    (podsFromWorkload w).map (·.name) =
      if effReplicas w > 1 then [w.name ++ "-1", w.name ++ "-2"] else [w.name ++ "-1"] := by
  rw [podsFromWorkload_eq]
  split
  · simp only [List.map_cons, List.map_nil, podOf_name_0, podOf_name_1]
  · simp only [List.map_cons, List.map_nil, podOf_name_0]

theorem mem_podsFromWorkload {w : Workload} {p : Pod} (h : p ∈ podsFromWorkload w) :
    p = podOf w 0 ∨ p = podOf w 1 := by
  rw [podsFromWorkload_eq] at h
  split at h
  · simpa using h
  · left; simpa using h

theorem podOf_mem_0 (w : Workload) : podOf w 0 ∈ podsFromWorkload w := by
  rw [podsFromWorkload_eq]
  split <;> simp

theorem podOf_mem_1 (w : Workload) (h : effReplicas w > 1) : podOf w 1 ∈ podsFromWorkload w := by
  rw [podsFromWorkload_eq, if_pos h]
  simp

/-- what a generated pod takes from the manifest: namespace, template labels, container ports, and
the owner; it is a real pod (`fake = false`, so not a representative peer) -/
theorem podsFromWorkload_fields {w : Workload} {p : Pod} (h : p ∈ podsFromWorkload w) :
    p.ns = w.ns ∧ p.labels = w.labels ∧ p.ports = w.ports ∧ p.ownerKind = w.kind ∧
      p.ownerName = w.name ∧ p.variant = variantOf w.labels w.ports ∧ p.fake = false ∧
      p.isRepresentative = false := by
  rcases mem_podsFromWorkload h with rfl | rfl <;>
    exact ⟨rfl, rfl, rfl, rfl, rfl, rfl, rfl, rfl⟩

/-- **C17, the pods of equal templates are interchangeable.** Two workloads with the same
namespace, pod-template labels and container ports — any kind, any replica count, any name —
generate pods that agree pairwise on everything the analysis reads. -/
theorem podsFromWorkload_sim {w w' : Workload} (hns : w.ns = w'.ns) (hl : w.labels = w'.labels)
    (hp : w.ports = w'.ports) {p p' : Pod} (h : p ∈ podsFromWorkload w)
    (h' : p' ∈ podsFromWorkload w') : PodSim p p' := by
  obtain ⟨a1, a2, a3, _, _, _, _, a8⟩ := podsFromWorkload_fields h
  obtain ⟨b1, b2, b3, _, _, _, _, b8⟩ := podsFromWorkload_fields h'
  exact ⟨by rw [a1, b1, hns], by rw [a2, b2, hl], by rw [a3, b3, hp], a8, b8⟩

/-- in particular the replicas of one workload, and the same template under another kind, replica
count or name -/
theorem podsFromWorkload_sim_self {w : Workload} (kind name : String) (replicas : Option Int)
    {p p' : Pod} (h : p ∈ podsFromWorkload w)
    (h' : p' ∈ podsFromWorkload { w with kind := kind, name := name, replicas := replicas }) :
    PodSim p p' :=
  podsFromWorkload_sim (w := w) (w' := { w with kind := kind, name := name, replicas := replicas })
    rfl rfl rfl h h'

/-! ### B. the specification reads a pod through namespace, labels, ports -/

/-- two specification ends the specification cannot tell apart: pods that agree on namespace,
labels and container ports, in namespaces with the same labels; or the same address -/
inductive EndSim : Spec.End → Spec.End → Prop
  | pod {p p' : Pod} (l : Labels) (hns : p.ns = p'.ns) (hl : p.labels = p'.labels)
      (hp : p.ports = p'.ports) : EndSim (.pod p l) (.pod p' l)
  | ip (a : Int) : EndSim (.ip a) (.ip a)

theorem EndSim.refl (e : Spec.End) : EndSim e e := by
  cases e with
  | pod p l => exact .pod l rfl rfl rfl
  | ip a => exact .ip a

theorem EndSim.of_podSim {p p' : Pod} (h : PodSim p p') (l : Labels) :
    EndSim (.pod p l) (.pod p' l) := .pod l h.ns h.labels h.ports

section SpecCongr
variable {s s' o o' d d' : Spec.End}

theorem npPeerMatches_congr (h : EndSim o o') (np : NetPol) (rp : NPPeer) :
    Spec.npPeerMatches np rp o = Spec.npPeerMatches np rp o' := by
  cases h with
  | ip a => rfl
  | pod l hns hl hp => cases rp <;> simp only [Spec.npPeerMatches, hns, hl]

theorem npPortMatches_congr (h : EndSim d d') (q : NPPort) (pr : Proto) (x : Int) :
    Spec.npPortMatches q d pr x = Spec.npPortMatches q d' pr x := by
  cases h with
  | ip a => rfl
  | pod l hns hl hp => simp only [Spec.npPortMatches, hp]

theorem npRuleAllows_congr (ho : EndSim o o') (hd : EndSim d d') (np : NetPol) (r : NPRule)
    (pr : Proto) (x : Int) :
    Spec.npRuleAllows np r o d pr x = Spec.npRuleAllows np r o' d' pr x := by
  simp only [Spec.npRuleAllows, npPeerMatches_congr ho, npPortMatches_congr hd]

theorem subjectMatches_congr (h : EndSim s s') (sub : Subject) :
    Spec.subjectMatches sub s = Spec.subjectMatches sub s' := by
  cases h with
  | ip a => rfl
  | pod l hns hl hp => cases sub <;> simp only [Spec.subjectMatches, hl]

theorem aPortMatches_congr (h : EndSim d d') (ap : APort) (pr : Proto) (x : Int) :
    Spec.aPortMatches ap d pr x = Spec.aPortMatches ap d' pr x := by
  cases h with
  | ip a => rfl
  | pod l hns hl hp => cases ap <;> simp only [Spec.aPortMatches, hp]

theorem aRuleMatches_congr (ho : EndSim o o') (hd : EndSim d d') (r : ARule) (pr : Proto) (x : Int) :
    Spec.aRuleMatches r o d pr x = Spec.aRuleMatches r o' d' pr x := by
  simp only [Spec.aRuleMatches, subjectMatches_congr ho, aPortMatches_congr hd]

theorem firstMatch_congr (ho : EndSim o o') (hd : EndSim d d') (rules : List ARule) (pr : Proto)
    (x : Int) : Spec.firstMatch rules o d pr x = Spec.firstMatch rules o' d' pr x := by
  simp only [Spec.firstMatch, aRuleMatches_congr ho hd]

theorem anpVerdict_congr (hs : EndSim s s') (ho : EndSim o o') (hd : EndSim d d') (v : Spec.View)
    (dir : Dir) (pr : Proto) (x : Int) :
    Spec.anpVerdict v s o d dir pr x = Spec.anpVerdict v s' o' d' dir pr x := by
  simp only [Spec.anpVerdict, subjectMatches_congr hs, firstMatch_congr ho hd]

theorem banpVerdict_congr (hs : EndSim s s') (ho : EndSim o o') (hd : EndSim d d') (v : Spec.View)
    (dir : Dir) (pr : Proto) (x : Int) :
    Spec.banpVerdict v s o d dir pr x = Spec.banpVerdict v s' o' d' dir pr x := by
  simp only [Spec.banpVerdict, subjectMatches_congr hs, firstMatch_congr ho hd]

theorem allowedDir_congr (hs : EndSim s s') (ho : EndSim o o') (hd : EndSim d d') (v : Spec.View)
    (dir : Dir) (pr : Proto) (x : Int) :
    Spec.allowedDir v s o d dir pr x = Spec.allowedDir v s' o' d' dir pr x := by
  have hA := anpVerdict_congr hs ho hd v dir pr x
  have hB := banpVerdict_congr hs ho hd v dir pr x
  cases hs with
  | ip a => rfl
  | pod l hns hl hp =>
    simp only [Spec.allowedDir, hA, hB, Spec.governs, Spec.npAllows, Spec.npSelects, hns, hl,
      npRuleAllows_congr ho hd]
    rfl

/-- **C17, the specification.** `Spec.allowed` depends on a pod end only through its namespace,
labels, container ports and the labels of its namespace — on the source side and on the
destination side. -/
theorem spec_allowed_congr' (hs : EndSim s s') (hd : EndSim d d') (v : Spec.View) (pr : Proto)
    (x : Int) : Spec.allowed v s d pr x = Spec.allowed v s' d' pr x := by
  simp only [Spec.allowed, allowedDir_congr hs hd hd, allowedDir_congr hd hs hd]

end SpecCongr

/-- the form of the task statement: `PodSim` pods as source, and as destination -/
theorem spec_allowed_congr {p p' : Pod} (h : PodSim p p') (nsl : Labels) (v : Spec.View)
    (other : Spec.End) (pr : Proto) (x : Int) :
    Spec.allowed v (.pod p nsl) other pr x = Spec.allowed v (.pod p' nsl) other pr x ∧
    Spec.allowed v other (.pod p nsl) pr x = Spec.allowed v other (.pod p' nsl) pr x :=
  ⟨spec_allowed_congr' (EndSim.of_podSim h nsl) (EndSim.refl other) v pr x,
   spec_allowed_congr' (EndSim.refl other) (EndSim.of_podSim h nsl) v pr x⟩

/-! ### C. the report of a workload: same connections -/

theorem podSim_dstOK {p p' : Pod} (h : PodSim p p') (n : Option NsObj)
    (hd : (KPeer.pod p n).DstOK) : (KPeer.pod p' n).DstOK :=
  ⟨h.real', by have := hd.2; unfold Pod.ValidPorts at *; rw [← h.ports]; exact this⟩

/-- **C17, kind / replica invariance (from the specification).** For a valid engine, two `PodSim`
pods in the same namespace object and a concrete other end that is neither of them: the connection
sets `list` computes for the two pods denote the same connections — with the pod as source and
with the pod as destination. "The report for a workload depends only on its namespace,
pod-template labels and container ports." -/
theorem kind_replica_invariance (e : Engine) (hv : e.Valid) {p p' : Pod} (h : PodSim p p')
    (ns : NsObj) (o : KPeer) (a : Int) (ho : o.Concrete a) :
    (∀ c c', o.DstOK → isPodToItself (.pod p (some ns)) o = false →
      isPodToItself (.pod p' (some ns)) o = false →
      e.peerConns (.pod p (some ns)) o = .ok c → e.peerConns (.pod p' (some ns)) o = .ok c' →
      ∀ pr x, c.den pr x ↔ c'.den pr x) ∧
    (∀ c c', p.ValidPorts → isPodToItself o (.pod p (some ns)) = false →
      isPodToItself o (.pod p' (some ns)) = false →
      e.peerConns o (.pod p (some ns)) = .ok c → e.peerConns o (.pod p' (some ns)) = .ok c' →
      ∀ pr x, c.den pr x ↔ c'.den pr x) := by
  constructor
  · intro c c' hok hne hne' hc hc' pr x
    obtain ⟨_, h1⟩ := (peerConns_spec e hv (.pod p (some ns)) o 0 a h.real ho hok hne).1 c hc
    obtain ⟨_, h2⟩ := (peerConns_spec e hv (.pod p' (some ns)) o 0 a h.real' ho hok hne').1 c' hc'
    rw [h1, h2]
    exact Eq.to_iff (congrArg (· = true) (spec_allowed_congr h ns.labels e.toView (o.toEnd a) pr x).1)
  · intro c c' hp hne hne' hc hc' pr x
    have hd : (KPeer.pod p (some ns)).DstOK := ⟨h.real, hp⟩
    obtain ⟨_, h1⟩ := (peerConns_spec e hv o (.pod p (some ns)) a 0 ho h.real hd hne).1 c hc
    obtain ⟨_, h2⟩ := (peerConns_spec e hv o (.pod p' (some ns)) a 0 ho h.real'
      (podSim_dstOK h _ hd) hne').1 c' hc'
    rw [h1, h2]
    exact Eq.to_iff (congrArg (· = true) (spec_allowed_congr h ns.labels e.toView (o.toEnd a) pr x).2)

/-! ### D. the report of a workload: the same value

`peerConns` itself — not only what its result denotes — reads a real pod through namespace, labels
and container ports only (and through name and namespace in the pod-to-itself test). No validity
assumption, any other end. -/

section ListCongr
variable {p p' : Pod} (n : Option NsObj)

theorem ruleConnections_congr (h : PodSim p p') (ports : List NPPort) :
    NetPol.ruleConnections ports (some (.pod p n)) =
      NetPol.ruleConnections ports (some (.pod p' n)) := by
  simp only [NetPol.ruleConnections, CacheLayer.portsRange_congr n h, KPeer.isRepresentative,
    h.real, h.real']

theorem allowedConns_go_congr_dst (h : PodSim p p') (np : NetPol) (other : KPeer)
    (rules : List NPRule) (res : ConnSet) :
    NetPol.allowedConns.go np other (.pod p n) res rules =
      NetPol.allowedConns.go np other (.pod p' n) res rules := by
  induction rules generalizing res with
  | nil => rfl
  | cons r rest ih =>
    rw [NetPol.allowedConns.go_cons, NetPol.allowedConns.go_cons, ruleConnections_congr n h]
    simp only [ih]

theorem allowedConns_go_congr_other (h : PodSim p p') (np : NetPol) (dst : KPeer)
    (rules : List NPRule) (res : ConnSet) :
    NetPol.allowedConns.go np (.pod p n) dst res rules =
      NetPol.allowedConns.go np (.pod p' n) dst res rules := by
  induction rules generalizing res with
  | nil => rfl
  | cons r rest ih =>
    rw [NetPol.allowedConns.go_cons, NetPol.allowedConns.go_cons,
      CacheLayer.ruleSelectsPeer_congr n h]
    simp only [ih]

theorem allowedConns_congr_dst (h : PodSim p p') (np : NetPol) (rules : List NPRule)
    (other : KPeer) :
    np.allowedConns rules other (.pod p n) = np.allowedConns rules other (.pod p' n) :=
  allowedConns_go_congr_dst n h np other rules _

theorem allowedConns_congr_other (h : PodSim p p') (np : NetPol) (rules : List NPRule)
    (dst : KPeer) :
    np.allowedConns rules (.pod p n) dst = np.allowedConns rules (.pod p' n) dst :=
  allowedConns_go_congr_other n h np dst rules _

theorem aruleConns_congr (h : PodSim p p') (ports : Option (List APort)) :
    ARule.conns ports (.pod p n) = ARule.conns ports (.pod p' n) := by
  simp only [ARule.conns, CacheLayer.convertNamedPort_congr h]

theorem adminPolicyConns_congr_dst (h : PodSim p p') (rules : List ARule) (other : KPeer)
    (banp : Bool) :
    adminPolicyConns rules other (.pod p n) banp = adminPolicyConns rules other (.pod p' n) banp := by
  simp only [adminPolicyConns, aruleConns_congr n h]

theorem adminPolicyConns_congr_other (h : PodSim p p') (rules : List ARule) (dst : KPeer)
    (banp : Bool) :
    adminPolicyConns rules (.pod p n) dst banp = adminPolicyConns rules (.pod p' n) dst banp := by
  simp only [adminPolicyConns, CacheLayer.arule_selectsPeer_congr n h]

/-- one direction, the pod as source -/
theorem xgressConns_congr_src (h : PodSim p p') (e : Engine) (dst : KPeer) (i : Bool) :
    e.xgressConns (.pod p n) dst i = e.xgressConns (.pod p' n) dst i := by
  apply xgressConns_congr
  · apply anpConns_congr
    intro a
    cases i
    · simp only [anpSingle, Bool.not_false, if_true, CacheLayer.anp_selects_congr n h]
    · simp only [anpSingle, Bool.not_true, Bool.false_eq_true, if_false,
        adminPolicyConns_congr_other n h]
  · rw [netpolConns_eq, netpolConns_eq]
    have hstep : npFold (.pod p n) dst i = npFold (.pod p' n) dst i := by
      funext acc np
      cases i
      · rfl
      · simp only [npFold, npStep, if_true, NetPol.ingressAllowedConns,
          allowedConns_congr_other n h]
    have hpol : e.policiesSelecting (selfPeer (.pod p n) dst i) (dirOf i) =
        e.policiesSelecting (selfPeer (.pod p' n) dst i) (dirOf i) := by
      cases i
      · exact CacheLayer.policiesSelecting_congr n h e _
      · rfl
    rw [hstep, hpol]
  · apply defaultConns_congr
    intro b
    cases i
    · simp only [banpSingle, Bool.false_eq_true, if_false, CacheLayer.banp_selects_congr n h]
    · simp only [banpSingle, if_true, adminPolicyConns_congr_other n h]

/-- one direction, the pod as destination -/
theorem xgressConns_congr_dst (h : PodSim p p') (e : Engine) (src : KPeer) (i : Bool) :
    e.xgressConns src (.pod p n) i = e.xgressConns src (.pod p' n) i := by
  apply xgressConns_congr
  · apply anpConns_congr
    intro a
    cases i
    · simp only [anpSingle, Bool.not_false, if_true, adminPolicyConns_congr_dst n h,
        adminPolicyConns_congr_other n h]
    · simp only [anpSingle, Bool.not_true, Bool.false_eq_true, if_false,
        CacheLayer.anp_selects_congr n h, adminPolicyConns_congr_dst n h]
  · rw [netpolConns_eq, netpolConns_eq]
    have hstep : npFold src (.pod p n) i = npFold src (.pod p' n) i := by
      funext acc np
      cases i
      · simp only [npFold, npStep, Bool.false_eq_true, if_false, NetPol.egressAllowedConns,
          allowedConns_congr_dst n h, allowedConns_congr_other n h]
      · simp only [npFold, npStep, if_true, NetPol.ingressAllowedConns,
          allowedConns_congr_dst n h]
    have hpol : e.policiesSelecting (selfPeer src (.pod p n) i) (dirOf i) =
        e.policiesSelecting (selfPeer src (.pod p' n) i) (dirOf i) := by
      cases i
      · rfl
      · exact CacheLayer.policiesSelecting_congr n h e _
    rw [hstep, hpol]
  · apply defaultConns_congr
    intro b
    cases i
    · simp only [banpSingle, Bool.false_eq_true, if_false, adminPolicyConns_congr_dst n h,
        adminPolicyConns_congr_other n h]
    · simp only [banpSingle, if_true, CacheLayer.banp_selects_congr n h,
        adminPolicyConns_congr_dst n h]

theorem peerConns_of_self_eq (e : Engine) {s d s' d' : KPeer}
    (hself : isPodToItself s d = isPodToItself s' d')
    (hx : ∀ i, e.xgressConns s d i = e.xgressConns s' d' i) :
    e.peerConns s d = e.peerConns s' d' := by
  unfold peerConns
  rw [hself, hx false, hx true]

/-- **C17, kind / replica invariance (the same value).** `PodSim` pods get *equal* connection
sets, as source and as destination, towards any other end, provided the pod-to-itself test answers
the same for both (e.g. the other end is neither of them). No assumption on the policies. -/
theorem peerConns_congr (h : PodSim p p') (e : Engine) (o : KPeer) :
    (isPodToItself (.pod p n) o = isPodToItself (.pod p' n) o →
      e.peerConns (.pod p n) o = e.peerConns (.pod p' n) o) ∧
    (isPodToItself o (.pod p n) = isPodToItself o (.pod p' n) →
      e.peerConns o (.pod p n) = e.peerConns o (.pod p' n)) :=
  ⟨fun hs => peerConns_of_self_eq e hs (xgressConns_congr_src n h e o),
   fun hs => peerConns_of_self_eq e hs (xgressConns_congr_dst n h e o)⟩

/-- both ends replaced at once: two workloads against two workloads with the same templates -/
theorem peerConns_congr_both {q q' : Pod} (m : Option NsObj) (h : PodSim p p') (hq : PodSim q q')
    (e : Engine)
    (hself : isPodToItself (.pod p n) (.pod q m) = isPodToItself (.pod p' n) (.pod q' m)) :
    e.peerConns (.pod p n) (.pod q m) = e.peerConns (.pod p' n) (.pod q' m) :=
  peerConns_of_self_eq e hself (fun i =>
    (xgressConns_congr_src n h e (.pod q m) i).trans (xgressConns_congr_dst m hq e (.pod p' n) i))

end ListCongr

/-! ### E. names -/

/-- the part of the reported name that does not depend on the controller kind: `ns/owner`, or
`ns/pod` for a pod without owner -/
def workloadBase (p : Pod) : String :=
  p.ns ++ "/" ++ (if p.ownerName == "" then p.name else p.ownerName)

/-- the kind shown in brackets -/
def workloadKind (p : Pod) : String := if p.ownerKind == "" then "Pod" else p.ownerKind

/-- **C17, the name.** For a real pod `WorkloadPeer.String()` is `base[Kind]`; the base does not
read the owner kind. -/
theorem workload_name_suffix (p : Pod) (h : p.fake = false) :
    workloadName p = workloadBase p ++ "[" ++ workloadKind p ++ "]" ∧
    ∀ k : String, workloadBase { p with ownerKind := k } = workloadBase p := by
  constructor
  · unfold workloadName workloadBase workloadKind
    rw [h]
    rfl
  · intro k; rfl

/-- two pods equal except for the owner kind: same base, the bracket shows the kind -/
theorem workload_name_kind (p : Pod) (h : p.fake = false) (k k' : String) (hk : k ≠ "")
    (hk' : k' ≠ "") :
    workloadName { p with ownerKind := k } = workloadBase p ++ "[" ++ k ++ "]" ∧
    workloadName { p with ownerKind := k' } = workloadBase p ++ "[" ++ k' ++ "]" := by
  have e1 : (k == "") = false := by simpa using hk
  have e2 : (k' == "") = false := by simpa using hk'
  constructor
  · rw [(workload_name_suffix { p with ownerKind := k } h).1]
    simp only [workloadKind, e1, Bool.false_eq_true, if_false]
    rfl
  · rw [(workload_name_suffix { p with ownerKind := k' } h).1]
    simp only [workloadKind, e2, Bool.false_eq_true, if_false]
    rfl

/-- all pods generated from a (named) workload carry the same report name `ns/name[kind]`: the
replicas are one line of the report -/
theorem podsFromWorkload_workloadName {w : Workload} (hn : w.name ≠ "") (hk : w.kind ≠ "")
    {p : Pod} (h : p ∈ podsFromWorkload w) :
    workloadName p = w.ns ++ "/" ++ w.name ++ "[" ++ w.kind ++ "]" := by
  obtain ⟨a1, _, _, a4, a5, _, a7, _⟩ := podsFromWorkload_fields h
  have e1 : (w.name == "") = false := by simpa using hn
  have e2 : (w.kind == "") = false := by simpa using hk
  rw [(workload_name_suffix p a7).1]
  simp only [workloadBase, workloadKind, a1, a4, a5, e1, e2, Bool.false_eq_true, if_false]

/-- **C17, no line from a workload to itself** (C05, 4b) -/
theorem no_self_line {e : Engine} {peers : List LPeer} {focus : String} {entries : List Entry}
    (h : e.connsBetweenPeers peers focus = .ok entries) :
    ∀ x ∈ entries, x.src.str ≠ x.dst.str :=
  C05.no_self_pair h

/-! ## non-vacuity: a Deployment with three replicas, a StatefulSet with one, same template -/
namespace Example
attribute [local instance] Engine.decEqExcept

def nsN : NsObj := ⟨"n", [(nsNameLabelKey, "n")]⟩
def tmplLabels : Labels := [("app", "web")]
def tmplPorts : List CPort := [⟨"http", .TCP, 8080⟩]
def dep : Workload := ⟨"Deployment", "n", "web", some 3, tmplLabels, tmplPorts⟩
def sts : Workload := ⟨"StatefulSet", "n", "web2", some 1, tmplLabels, tmplPorts⟩
def ds : Workload := ⟨"DaemonSet", "n", "agent", some 5, [("app", "agent")], []⟩
def job : Workload := ⟨"Job", "n", "client", none, [("app", "client")], []⟩

/-- two pods for three replicas, one for one, one for a DaemonSet whatever it says -/
example : (podsFromWorkload dep).map (·.name) = ["web-1", "web-2"] ∧
    (podsFromWorkload sts).map (·.name) = ["web2-1"] ∧
    (podsFromWorkload ds).map (·.name) = ["agent-1"] ∧
    (podsFromWorkload job).map (·.name) = ["client-1"] := by decide

def web1 : Pod := podOf dep 0
def web2 : Pod := podOf dep 1
def other : Pod := podOf sts 0
def cl : Pod := podOf job 0

theorem web1_mem : web1 ∈ podsFromWorkload dep := podOf_mem_0 dep
theorem web2_mem : web2 ∈ podsFromWorkload dep := podOf_mem_1 dep (by decide)
theorem other_mem : other ∈ podsFromWorkload sts := podOf_mem_0 sts

/-- replicas of one workload, and pods of two kinds of controller with the same template -/
theorem sim_replicas : PodSim web1 web2 := podsFromWorkload_sim rfl rfl rfl web1_mem web2_mem
theorem sim_kinds : PodSim web1 other :=
  podsFromWorkload_sim (w := dep) (w' := sts) rfl rfl rfl web1_mem other_mem

/-- … and they do differ in what the analysis must not read -/
example : web1.name ≠ other.name ∧ web1.ownerKind ≠ other.ownerKind ∧
    web1.ownerName ≠ other.ownerName ∧ web1.name ≠ web2.name := by decide

/-- ingress to `app=web`: from `app=client` on the named port `http` -/
def np : NetPol :=
  { ns := "n", name := "to-web", podSel := ⟨[("app", "web")], []⟩, types := [.ingress],
    ingress := [⟨[.sel (some ⟨[("app", "client")], []⟩) none], [⟨none, .name "http"⟩]⟩],
    egress := [] }

def eng : Engine :=
  { namespaces := [nsN],
    pods := podsFromWorkload dep ++ podsFromWorkload sts ++ podsFromWorkload job,
    netpols := [np] }

abbrev K (p : Pod) : KPeer := .pod p (some nsN)

example : eng.Valid := by decide
example : (K cl).Concrete 0 ∧ (K cl).DstOK ∧ web1.ValidPorts := by decide

/-- the report line `client → web`, computed on the first replica -/
theorem conn_cl_web1 : eng.peerConns (K cl) (K web1) =
    .ok ⟨false, some ⟨[⟨8080, 8080⟩], [], []⟩, none, none⟩ := by decide

/-- the theorem at work: the same set for the second replica and for the StatefulSet's pod -/
example : eng.peerConns (K cl) (K web2) = .ok ⟨false, some ⟨[⟨8080, 8080⟩], [], []⟩, none, none⟩ := by
  rw [← (peerConns_congr (some nsN) sim_replicas eng (K cl)).2 (by decide)]
  exact conn_cl_web1
example : eng.peerConns (K cl) (K other) = .ok ⟨false, some ⟨[⟨8080, 8080⟩], [], []⟩, none, none⟩ := by
  rw [← (peerConns_congr (some nsN) sim_kinds eng (K cl)).2 (by decide)]
  exact conn_cl_web1
/-- as a source -/
example : eng.peerConns (K web1) (K cl) = eng.peerConns (K other) (K cl) :=
  (peerConns_congr (some nsN) sim_kinds eng (K cl)).1 (by decide)

/-- `kind_replica_invariance` applied (its hypotheses hold) -/
example (c c' : ConnSet) (h : eng.peerConns (K cl) (K web1) = .ok c)
    (h' : eng.peerConns (K cl) (K other) = .ok c') : ∀ pr x, c.den pr x ↔ c'.den pr x :=
  (kind_replica_invariance eng (by decide) sim_kinds nsN (K cl) 0 (by decide)).2 c c' (by decide)
    (by decide) (by decide) h h'

/-- the hypothesis on the pod-to-itself test cannot be dropped: a pod to itself gets everything,
its sibling replica towards it only what the policies allow -/
example : eng.peerConns (K web1) (K web1) = .ok (ConnSet.mk' true) ∧
    eng.peerConns (K web2) (K web1) = .ok (ConnSet.mk' false) := by decide

/-- the specification on the two pods -/
example : Spec.allowed eng.toView (.pod cl nsN.labels) (.pod web1 nsN.labels) .TCP 8080 =
    Spec.allowed eng.toView (.pod cl nsN.labels) (.pod other nsN.labels) .TCP 8080 :=
  (spec_allowed_congr sim_kinds nsN.labels eng.toView (.pod cl nsN.labels) .TCP 8080).2

/-- names: one report name per workload, the kind only in the bracket -/
example : workloadName web1 = "n/web[Deployment]" ∧ workloadName web2 = "n/web[Deployment]" ∧
    workloadName other = "n/web2[StatefulSet]" ∧
    workloadName { web1 with ownerKind := "ReplicaSet" } = "n/web[ReplicaSet]" ∧
    workloadBase web1 = "n/web" ∧ workloadBase { web1 with ownerKind := "ReplicaSet" } = "n/web" := by
  decide

/-- the workload peers of the engine: three, for four pods, in the order of the pod keys
(`n/client-1 < n/web-1 < n/web-2 < n/web2-1`; `podOwnersMap_eq` because `decide` does not unfold the
`mergeSort` of `sortedPods`) -/
example : (eng.podOwnersMap.toOption.map fun l => l.map (·.1)) =
    some ["n/client[Job]", "n/web[Deployment]", "n/web2[StatefulSet]"] := by
  rw [Structure.podOwnersMap_eq
    (l := podsFromWorkload job ++ (podsFromWorkload dep ++ podsFromWorkload sts))
    List.perm_append_comm (by decide)]
  decide

end Example

end Netpol.Properties.C17
