import Netpol.Proofs.Structure

/-! C05: the report is a well-formed relation.

Part A: `Engine.partition blocks` (the IP peers of the report, model of
`getDisjointIPBlocks`) is a partition of the IPv4 space `0 .. ipMax` that refines every input
block. Part B: the structure of the peers × peers loop `Engine.connsBetweenPeers` and of the peers
list `Engine.peersList`. Proofs are in `Netpol.Proofs.Structure`. -/
namespace Netpol.Properties.C05
open Netpol Netpol.Engine Netpol.Structure

/-! ### A. the IP partition -/

/-- 1. the partition is a list of non-empty ranges, sorted, pairwise disjoint, and contiguous:
each range starts right after the previous one ends -/
theorem partition_sorted_disjoint (blocks : List Iv) :
    (∀ r ∈ partition blocks, r.lo ≤ r.hi) ∧
    (partition blocks).Pairwise (fun r r' => r.hi < r'.lo) ∧
    (∀ (i : Nat) (h : i + 1 < (partition blocks).length),
      (partition blocks)[i + 1].lo = (partition blocks)[i].hi + 1) :=
  ⟨fun r hr => (partition_wf blocks r hr).1, partition_pairwise blocks,
    contig_getElem (partition_contig blocks)⟩

/-- all ranges lie inside the address space -/
theorem partition_in_space (blocks : List Iv) :
    ∀ r ∈ partition blocks, 0 ≤ r.lo ∧ r.hi ≤ ipMax :=
  fun r hr => (partition_wf blocks r hr).2

/-- 2. the first range starts at 0 and the last one ends at `ipMax`. No hypothesis on the blocks
is needed: the model adds the points 0 and `ipMax + 1` itself and drops what lies outside. -/
theorem partition_covers (blocks : List Iv) :
    (∃ r t, partition blocks = r :: t ∧ r.lo = 0) ∧
    (∃ t r, partition blocks = t ++ [r] ∧ r.hi = ipMax) :=
  ⟨partition_head blocks, partition_last blocks⟩

/-- every address belongs to exactly one IP peer -/
theorem partition_unique_owner (blocks : List Iv) :
    ∀ a : Int, 0 ≤ a → a ≤ ipMax → ∃ r, (r ∈ partition blocks ∧ r.lo ≤ a ∧ a ≤ r.hi) ∧
      ∀ r', (r' ∈ partition blocks ∧ r'.lo ≤ a ∧ a ≤ r'.hi) → r' = r := by
  intro a h0 h1
  obtain ⟨r, hr, hx⟩ := partition_owner_exists blocks h0 h1
  exact ⟨r, ⟨hr, hx⟩, fun r' ⟨hr', hx'⟩ => partition_owner_unique blocks hr' hr hx' hx⟩

/-- 3. no block boundary lies strictly inside a range of the partition -/
theorem partition_refines_blocks (blocks : List Iv) :
    ∀ r ∈ partition blocks, ∀ b ∈ blocks,
      ¬ (r.lo < b.lo ∧ b.lo ≤ r.hi) ∧ ¬ (r.lo < b.hi + 1 ∧ b.hi + 1 ≤ r.hi) :=
  fun _ hr _ hb => partition_refines blocks hr hb

/-- hence a block contains a whole range or nothing of it: membership in any input block is
constant on a reported IP range -/
theorem partition_uniform (blocks : List Iv) :
    ∀ r ∈ partition blocks, ∀ b ∈ blocks, ∀ x y, r.mem x → r.mem y → (b.mem x ↔ b.mem y) := by
  intro r hr b hb x y hx hy
  have := partition_refines blocks hr hb
  unfold Iv.mem at *
  omega

/-- the ranges are distinct -/
theorem partition_nodup (blocks : List Iv) : (partition blocks).Nodup :=
  Structure.partition_nodup blocks

/-! ### B. the loop -/

variable {e : Engine} {peers : List LPeer} {focus : String} {entries : List Entry}

/-- the loop is the ordered concatenation, over all (src, dst) pairs, of `pairEntry` (nothing or
one entry per pair), or the first error -/
theorem connsBetweenPeers_eq_collect (e : Engine) (peers : List LPeer) (focus : String) :
    e.connsBetweenPeers peers focus =
      collect (fun s => collect (fun d => pairEntry e focus s d) peers) peers :=
  connsBetweenPeers_eq e peers focus

/-- 4a. no entry between two IP ranges -/
theorem no_ip_ip_pair (h : e.connsBetweenPeers peers focus = .ok entries) :
    ∀ x ∈ entries, ¬ (x.src.isIP = true ∧ x.dst.isIP = true) := by
  refine entries_forall h _ ?_
  intro s _ d _ xs hxs x hx
  rcases pairEntry_ok hxs with rfl | ⟨c, rfl, h1, _⟩
  · cases hx
  · rw [List.mem_singleton] at hx; subst hx; exact h1

/-- 4b. no entry from a peer to itself -/
theorem no_self_pair (h : e.connsBetweenPeers peers focus = .ok entries) :
    ∀ x ∈ entries, x.src.str ≠ x.dst.str := by
  refine entries_forall h _ ?_
  intro s _ d _ xs hxs x hx
  rcases pairEntry_ok hxs with rfl | ⟨c, rfl, _, h2, _⟩
  · cases hx
  · rw [List.mem_singleton] at hx; subst hx; exact h2

/-- 4c. no entry with an empty connection set -/
theorem no_empty_conn (h : e.connsBetweenPeers peers focus = .ok entries) :
    ∀ x ∈ entries, x.conn.isEmpty = false := by
  refine entries_forall h _ ?_
  intro s _ d _ xs hxs x hx
  rcases pairEntry_ok hxs with rfl | ⟨c, rfl, _, _, _, h4⟩
  · cases hx
  · rw [List.mem_singleton] at hx; subst hx; exact h4

/-- 4d. both ends of an entry are peers of the list -/
theorem entries_from_peers (h : e.connsBetweenPeers peers focus = .ok entries) :
    ∀ x ∈ entries, x.src ∈ peers ∧ x.dst ∈ peers := by
  rw [connsBetweenPeers_eq] at h
  intro x hx
  obtain ⟨s, hs, ys, hys, hxy⟩ := collect_mem h hx
  obtain ⟨d, hd, xs, hxs, hxx⟩ := collect_mem hys hxy
  rcases pairEntry_ok hxs with rfl | ⟨c, rfl, _⟩
  · cases hxx
  · rw [List.mem_singleton] at hxx; subst hxx; exact ⟨hs, hd⟩

/-- the connection set of an entry is what `peerConns` computes for its two ends -/
theorem entry_conn (h : e.connsBetweenPeers peers focus = .ok entries) :
    ∀ x ∈ entries, ∃ ks kd, e.toKPeer x.src = .ok ks ∧ e.toKPeer x.dst = .ok kd ∧
      e.peerConns ks kd = .ok x.conn := by
  refine entries_forall h _ ?_
  intro s _ d _ xs hxs x hx
  unfold pairEntry at hxs
  split at hxs
  · cases Except.ok.inj hxs; cases hx
  split at hxs
  · cases Except.ok.inj hxs; cases hx
  split at hxs
  · cases Except.ok.inj hxs; cases hx
  cases hs : e.toKPeer s with
  | error err => simp [hs] at hxs
  | ok ks =>
    cases hd : e.toKPeer d with
    | error err => simp [hs, hd] at hxs
    | ok kd =>
      cases hc : e.peerConns ks kd with
      | error err => simp [hs, hd, hc] at hxs
      | ok c =>
        simp only [hs, hd, hc] at hxs
        split at hxs
        · cases Except.ok.inj hxs; cases hx
        · cases Except.ok.inj hxs
          rw [List.mem_singleton] at hx; subst hx
          exact ⟨ks, kd, hs, hd, hc⟩

/-- 4e. with distinct peer names, no (src, dst) pair is reported twice; the pairs come in the
order of the peers list (they form a sublist of the product) -/
theorem pairs_sublist_product (h : e.connsBetweenPeers peers focus = .ok entries) :
    (entries.map fun x => (x.src.str, x.dst.str)).Sublist
      (peers.flatMap fun s => peers.map fun d => (s.str, d.str)) :=
  entries_pairs_sublist h

theorem no_dup_pair (h : e.connsBetweenPeers peers focus = .ok entries)
    (hn : (peers.map (·.str)).Nodup) : (entries.map fun x => (x.src.str, x.dst.str)).Nodup :=
  (entries_pairs_sublist h).nodup (nodup_product hn peers hn)

/-! ### the peers list -/

/-- the names of the IP peers are distinct (strict sortedness of the partition; the dotted-quad
rendering `ipStr` is injective on `0 .. ipMax`) -/
theorem ipPeers_names_nodup (e : Engine) :
    (e.disjointIPBlocks.map fun r => (LPeer.ip r).str).Nodup := Structure.ipPeers_names_nodup e

theorem ipStr_injective {n m : Int} (hn : 0 ≤ n ∧ n ≤ ipMax) (hm : 0 ≤ m ∧ m ≤ ipMax)
    (h : ipStr n = ipStr m) : n = m := ipStr_inj hn hm h

/-- the names of the workload peers are distinct (`podOwnersMap` keys its result by the name) -/
theorem ownerPeers_names_nodup {owners : List (String × Pod)} (h : e.podOwnersMap = .ok owners) :
    (owners.map (·.1)).Nodup := Structure.ownerPeers_names_nodup h

/-- a workload name ends with `]` or `}`, an IP range name ends with a digit -/
theorem workloadName_ne_ipRange (p : Pod) (r : Iv) : workloadName p ≠ (LPeer.ip r).str :=
  Structure.workloadName_ne_ipRange p r

/-- all peer names of `GetPeersList` are distinct — no hypothesis is needed -/
theorem peers_names_nodup (h : e.peersList = .ok peers) : (peers.map (·.str)).Nodup :=
  Structure.peers_names_nodup h

/-- so the report over the peers list never repeats a (src, dst) pair -/
theorem report_no_dup_pair (hp : e.peersList = .ok peers)
    (h : e.connsBetweenPeers peers focus = .ok entries) :
    (entries.map fun x => (x.src.str, x.dst.str)).Nodup :=
  no_dup_pair h (peers_names_nodup hp)

/-! ### non-vacuity -/

/-- two overlapping blocks and one touching the end of the space -/
def exBlocks : List Iv := [⟨10, 20⟩, ⟨15, 30⟩, ⟨4294967040, 4294967295⟩]

/-- (`mergeSort` is defined by well-founded recursion, so `decide` cannot evaluate `partition`;
`simp` with the unfolding equations can) -/
theorem exBlocks_partition : partition exBlocks =
    [⟨0, 9⟩, ⟨10, 14⟩, ⟨15, 20⟩, ⟨21, 30⟩, ⟨31, 4294967039⟩, ⟨4294967040, 4294967295⟩] := by
  simp [partition, exBlocks, List.mergeSort, List.MergeSort.Internal.splitInTwo, ipMax,
    List.eraseDups_cons]

example : partition [] = [⟨0, ipMax⟩] := by
  simp [partition, List.mergeSort, List.MergeSort.Internal.splitInTwo, ipMax, List.eraseDups_cons]

/-- points outside the space are dropped, the cover is kept -/
example : partition [⟨-5, 3⟩, ⟨7, 5000000000⟩] = [⟨0, 3⟩, ⟨4, 6⟩, ⟨7, ipMax⟩] := by
  simp [partition, List.mergeSort, List.MergeSort.Internal.splitInTwo, ipMax, List.eraseDups_cons]

/-- `partition_uniform` is not vacuous: block `[15,30]` contains the whole range `[21,30]` and
nothing of `[10,14]` -/
example : (⟨21, 30⟩ : Iv) ∈ partition exBlocks ∧ (⟨10, 14⟩ : Iv) ∈ partition exBlocks ∧
    (⟨15, 30⟩ : Iv) ∈ exBlocks ∧ (⟨15, 30⟩ : Iv).mem 21 ∧ (⟨15, 30⟩ : Iv).mem 30 ∧
    ¬ (⟨15, 30⟩ : Iv).mem 10 ∧ ¬ (⟨15, 30⟩ : Iv).mem 14 := by
  rw [exBlocks_partition]; decide

def podA : Pod := { ns := "default", name := "a", labels := [("app", "a")], ports := [] }
def podB : Pod := { ns := "default", name := "b", labels := [("app", "b")], ports := [] }

def exEngine : Engine :=
  { namespaces := [⟨"default", [(nsNameLabelKey, "default")]⟩], pods := [podA, podB] }

theorem exEngine_blocks : exEngine.disjointIPBlocks = [⟨0, ipMax⟩] := by
  simp [disjointIPBlocks, exEngine, partition, List.mergeSort, List.MergeSort.Internal.splitInTwo,
    ipMax, List.eraseDups_cons]

def exPeers : List LPeer :=
  [.ip ⟨0, ipMax⟩, .wl "default/a[Pod]" podA, .wl "default/b[Pod]" podB]

/-- the peers list of the example: one IP range and two workloads -/
example : (exEngine.peersList.toOption.map fun l => l.map (·.str)) =
    some ["0.0.0.0-255.255.255.255", "default/a[Pod]", "default/b[Pod]"] := by
  unfold peersList
  rw [exEngine_blocks, podOwnersMap_eq (l := [podA, podB]) (by decide) (by decide)]
  decide

example : exPeers.map (·.str) =
    ["0.0.0.0-255.255.255.255", "default/a[Pod]", "default/b[Pod]"] := by decide

/-- its report: 6 entries (3 × 3 minus the diagonal minus ip→ip), in the order of the product -/
example : ((exEngine.connsBetweenPeers exPeers "").toOption.map fun es =>
      es.map fun x => (x.src.str, x.dst.str)) =
    some [("0.0.0.0-255.255.255.255", "default/a[Pod]"),
      ("0.0.0.0-255.255.255.255", "default/b[Pod]"),
      ("default/a[Pod]", "0.0.0.0-255.255.255.255"), ("default/a[Pod]", "default/b[Pod]"),
      ("default/b[Pod]", "0.0.0.0-255.255.255.255"), ("default/b[Pod]", "default/a[Pod]")] := by
  decide

end Netpol.Properties.C05
