import Netpol.Model.Exposure
namespace Netpol.Properties.C06
open Netpol

end Netpol.Properties.C06
