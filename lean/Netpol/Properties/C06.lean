import Netpol.Model.Exposure
import Netpol.Spec.K8s
import Netpol.Proofs.ExposureLayer
import Netpol.Proofs.ExposureBuild
import Netpol.Properties.C01

/-! C06: "Running `list --exposure` reports the same workload/IP connectivity as without the
flag, marks a workload 'not protected' in a direction iff no NetworkPolicy governs it in that
direction, and every reported exposure entry is realizable: for any hypothetical new pod whose
labels and namespace labels satisfy the entry's selectors (any pod at all for 'entire-cluster'),
the workload's policies in that direction allow at least the reported connections (a named port
meaning that name as declared by the hypothetical pod)."

The model of the exposure analysis is `Netpol.Model.Exposure`; the proofs are in
`Netpol.Proofs.ExposureLayer`.

Vocabulary.
* `Exposure.Dev x y` — `y = x`, unless `x` is the failure `namedPortOnIP` (the one recorded
  deviation of exposure mode: a policy whose pre-scanned connection is "all connections" answers
  without evaluating its rules, so that a rule with a named port is never evaluated against an IP
  block and the error of the plain analysis does not arise).
* `Exposure.NpValid e` — the rules of the engine's NetworkPolicies are as the API server accepts
  them (legal port numbers, no rule peer without selector and ipBlock).
* `LPeer.Real p` — a peer of the report that stands for real objects (a workload whose pod is not a
  representative peer and declares legal container ports, or an IP range).
* `Exposure.RepWF rp` — a representative pod as `addRepresentativePod` builds it (fake, named
  `representative-pod`, no container ports).
* a hypothetical pod is a `Pod` `q` together with the labels `nsl` of its namespace (an existing
  or a new one); `Exposure.Sat P N q nsl` — `q` satisfies the pod selector `P` and `nsl` the
  namespace selector `N` of an entry; `Exposure.NsConsistent q nsl` — `nsl` carries the name of
  `q`'s namespace under `kubernetes.io/metadata.name` (set by the API server on every namespace).
* `Exposure.Faithful e P N` — `SelectorsFullMatch` is semantically sound for the rule selectors of
  the engine's policies against the representative selectors `P`, `N`: labels that satisfy the
  representative selector satisfy a rule selector with the same requirement strings.
* `Exposure.denFor i c q pr x` — the points a reported connection set `c` stands for, for the
  hypothetical pod `q`: its numeric points and, on egress (`i = false`), each named port as `q`
  declares it. (On ingress named ports were converted against the workload itself.)
* `Exposure.dstEnd i pod nslw q nsl` — the destination of the query: the workload on ingress, the
  hypothetical pod on egress. -/
namespace Netpol.Properties.C06
open Netpol Engine Exposure

/-! ### 0. what `Exposure.build` provides

The theorems below are stated for an arbitrary `XEngine` under explicit hypotheses. Those on the
engine's shape hold of every engine `Exposure.build` returns: no admin policies, well-formed
representative pods, and the namespaces of the representative pods exist (so that
`xgressExposure` does not fail with `missingNamespace`, `Exposure.xgressExposure_ok`). -/

theorem build_provides {objs : List Obj} {x : XEngine} (h : Exposure.build objs = .ok x) :
    x.eng.anps = [] ∧ x.eng.banp = none ∧ (∀ krp ∈ x.reps, RepWF krp.2) ∧ RepNamespaces x :=
  ⟨(build_np_only h).1, (build_np_only h).2, build_repWF h, build_repNamespaces h⟩

/-! ### 1. the base report is the report of `list` -/

/-- one policy: the exposure-mode evaluation (with the two shortcuts through the pre-scanned
connections) yields the value of the plain evaluation, unless the latter fails with the
named-port-on-IP error. `src`/`dst` are real peers: pods or IP blocks. -/
theorem policy_conns_unchanged (np : NetPol) (src dst : KPeer) (i : Bool)
    (hv : ∀ r ∈ Spec.npRules np (dirOf i), r.Valid) (hd : dst.DstOK)
    (ho : (otherPeer src dst i).isRepresentative = false) :
    Dev (npStep src dst i np) (policyConns np src dst i) :=
  policyConns_dev np src dst i hv hd ho

/-- in particular: whenever the plain evaluation of a policy succeeds, the shortcut returns the
same connection set (as a value, hence with the same printed string) -/
theorem policy_conns_unchanged_of_ok (np : NetPol) (src dst : KPeer) (i : Bool)
    (hv : ∀ r ∈ Spec.npRules np (dirOf i), r.Valid) (hd : dst.DstOK)
    (ho : (otherPeer src dst i).isRepresentative = false) (c : ConnSet)
    (h : npStep src dst i np = .ok c) : policyConns np src dst i = .ok c :=
  (policyConns_dev np src dst i hv hd ho).ok_imp h

/-- one direction, engine without admin policies -/
theorem direction_conns_unchanged (e : Engine) (ha : e.anps = []) (hb : e.banp = none)
    (hv : NpValid e) (src dst : KPeer) (i : Bool) (hd : dst.DstOK)
    (ho : (otherPeer src dst i).isRepresentative = false) :
    Dev (e.xgressConns src dst i) (Exposure.xgressConns e src dst i) :=
  xgressConns_dev e ha hb hv src dst i hd ho

/-- one pair of real peers -/
theorem pair_conns_unchanged (e : Engine) (ha : e.anps = []) (hb : e.banp = none) (hv : NpValid e)
    (src dst : KPeer) (hs : src.isRepresentative = false) (hd : dst.DstOK) :
    Dev (e.peerConns src dst) (Exposure.peerConns e src dst) :=
  peerConns_dev e ha hb hv src dst hs hd

/-- the base report over real peers: the report of `list --exposure` is the report of `list`,
unless `list` fails with the named-port-on-IP error -/
theorem base_report_unchanged (e : Engine) (ha : e.anps = []) (hb : e.banp = none) (hv : NpValid e)
    (peers : List LPeer) (hp : ∀ p ∈ peers, p.Real) (focus : String) :
    Dev (e.connsBetweenPeers peers focus) (Exposure.connsBetweenPeers e peers focus) :=
  connsBetweenPeers_dev e ha hb hv peers hp focus

/-- whenever `list` produces a report, `list --exposure` produces the same entries -/
theorem base_report_of_plain_ok (e : Engine) (ha : e.anps = []) (hb : e.banp = none)
    (hv : NpValid e) (peers : List LPeer) (hp : ∀ p ∈ peers, p.Real) (focus : String)
    (l : List Entry) (h : e.connsBetweenPeers peers focus = .ok l) :
    Exposure.connsBetweenPeers e peers focus = .ok l :=
  (base_report_unchanged e ha hb hv peers hp focus).ok_imp h

/-- the minimal hypothesis that excludes the recorded deviation: the plain run does not end in the
named-port-on-IP error. Then the two runs agree, also on every other failure. -/
theorem base_report_eq (e : Engine) (ha : e.anps = []) (hb : e.banp = none) (hv : NpValid e)
    (peers : List LPeer) (hp : ∀ p ∈ peers, p.Real) (focus : String)
    (hne : e.connsBetweenPeers peers focus ≠ .error .namedPortOnIP) :
    Exposure.connsBetweenPeers e peers focus = e.connsBetweenPeers peers focus := by
  rcases base_report_unchanged e ha hb hv peers hp focus with h | h
  · exact h
  · exact absurd h hne

/-- a syntactic sufficient condition for one pair: no policy rule holds a named port — then the
plain evaluation of a pair of concrete peers never fails (C01) and the two evaluations agree -/
theorem pair_conns_eq_of_no_failure (e : Engine) (ha : e.anps = []) (hb : e.banp = none)
    (hv : NpValid e) (src dst : KPeer) (hs : src.isRepresentative = false) (hd : dst.DstOK)
    (c : ConnSet) (h : Exposure.peerConns e src dst = .ok c)
    (hne : e.peerConns src dst ≠ .error .namedPortOnIP) : e.peerConns src dst = .ok c := by
  rcases pair_conns_unchanged e ha hb hv src dst hs hd with h' | h'
  · rw [← h', h]
  · exact absurd h' hne

/-- the two runs on the same input objects. `Exposure.build` (policies and namespaces first, missing
namespaces created on the way) and `Engine.build` (input order, missing namespaces created at the
end) yield the same peers list, and the base report of `list --exposure` is the report of `list`,
unless `list` fails with the named-port-on-IP error -/
theorem runs_same_report (objs : List Obj) (x : XEngine) (e : Engine)
    (hx : Exposure.build objs = .ok x) (he : Engine.build objs = .ok e) (hv : NpValid e)
    (peers : List LPeer) (hpl : e.peersList = .ok peers) (hreal : ∀ p ∈ peers, p.Real)
    (focus : String) :
    x.eng.peersList = .ok peers ∧
      Dev (e.connsBetweenPeers peers focus) (Exposure.connsBetweenPeers x.eng peers focus) :=
  runs_agree hx he hv peers hpl hreal focus

/-! ### 2. the 'protected' flag -/

/-- a workload is marked protected in a direction iff some NetworkPolicy of the engine selects it
and affects that direction -/
theorem protected_iff (e : Engine) (pod : Pod) (i : Bool) :
    isProtected e pod i = true ↔
      ∃ np ∈ e.netpols, np.selects pod (dirOf i) = true :=
  isProtected_iff e pod i

/-- with the definition of `selects` spelled out for a real pod: same namespace, the policy affects
the direction, the pod selector matches -/
theorem protected_iff_governs (e : Engine) (pod : Pod) (hrep : pod.isRepresentative = false)
    (i : Bool) : isProtected e pod i = Spec.governs e.toView pod (dirOf i) := by
  rw [Bool.eq_iff_iff, protected_iff, governs_iff e pod (dirOf i) hrep]

/-- 'not protected' iff no NetworkPolicy governs the workload in the direction -/
theorem not_protected_iff (e : Engine) (pod : Pod) (hrep : pod.isRepresentative = false) (i : Bool) :
    isProtected e pod i = false ↔ ¬ ∃ np ∈ e.netpols, Spec.npSelects np pod (dirOf i) = true := by
  rw [← Bool.not_eq_true, protected_iff]
  simp only [NetPol.selects_spec _ pod (dirOf i) hrep]

/-- the flag reported for a workload in one direction is `isProtected`: an unprotected workload
gets `(false, [])`; a protected one gets `true`, or no entry at all when nothing is exposed -/
theorem reported_flag (x : XEngine) (hv : NpValid x.eng) (hreps : ∀ krp ∈ x.reps, RepWF krp.2)
    (n : String) (pod : Pod) (hpod : pod.isRepresentative = false ∧ pod.ValidPorts)
    (i : Bool) (res : Option (Bool × List XEntry))
    (h : xgressExposure x (.wl n pod) i = .ok res) :
    (res.getD (true, [])).1 = isProtected x.eng pod i ∧
    (isProtected x.eng pod i = false → res = some (false, [])) := by
  obtain ⟨ns, _, h1 | h1⟩ := xgressExposure_spec x hv hreps n pod hpod i res h
  · obtain ⟨hp, rfl⟩ := h1
    exact ⟨hp.symm, fun _ => rfl⟩
  · obtain ⟨hp, cw, perRep, _, _, rfl⟩ := h1
    refine ⟨?_, fun hf => by rw [hp] at hf; cases hf⟩
    rw [hp]
    split <;> rfl

/-- the report: every exposed peer is a focus workload of the peers list, and its two flags are
`isProtected` of the two directions -/
theorem report_flags (x : XEngine) (hv : NpValid x.eng) (hreps : ∀ krp ∈ x.reps, RepWF krp.2)
    (peers : List LPeer)
    (hp : ∀ n pod, LPeer.wl n pod ∈ peers →
      pod.isRepresentative = false ∧ pod.ValidPorts)
    (focus : String) (xs : List XPeer) (h : exposedPeers x peers focus = .ok xs) :
    ∀ xp ∈ xs, ∃ n pod, LPeer.wl n pod ∈ peers ∧ isFocus focus (.wl n pod) = true ∧ xp.name = n ∧
      xp.ingProtected = isProtected x.eng pod true ∧
      xp.egProtected = isProtected x.eng pod false := by
  intro xp hxp
  obtain ⟨n, pod, ri, rg, hw, hf, hi, hg, rfl⟩ := exposedPeers_mem h hxp
  have hpod := hp n pod hw
  exact ⟨n, pod, hw, hf, rfl, (reported_flag x hv hreps n pod hpod true ri hi).1,
    (reported_flag x hv hreps n pod hpod false rg hg).1⟩

/-! ### 3. and 4. every reported entry is realizable -/

/-- without admin policies, what `Spec.npAllows` allows is allowed in the direction -/
theorem allowedDir_of_npAllows (v : Spec.View) (ha : v.anps = []) (hb : v.banp = none) (p : Pod)
    (l : Labels) (other dst : Spec.End) (d : Dir) (pr : Proto) (x : Int)
    (h : Spec.npAllows v p other dst d pr x = true) :
    Spec.allowedDir v (.pod p l) other dst d pr x = true := by
  rw [C01.allowedDir_np_only v ha hb]
  simp only [C01.npOnlyDir]
  split
  · exact h
  · rfl

/-- an exposure entry is realizable: for every hypothetical pod that satisfies its selectors (any
pod for the entire-cluster entry), the workload's policies of the direction allow every point the
entry stands for -/
def Realizable (e : Engine) (pod : Pod) (nslw : Labels) (i : Bool) (en : XEntry) : Prop :=
  ∀ (q : Pod) (nsl : Labels),
    (en.entireCluster = true ∨
      (Sat en.podSel en.nsSel q nsl ∧ NsConsistent q nsl ∧ Faithful e en.podSel en.nsSel)) →
    ∀ pr x, denFor i en.conn q pr x →
      Spec.allowedDir e.toView (.pod pod nslw) (.pod q nsl) (dstEnd i pod nslw q nsl) (dirOf i) pr x
        = true

/-- Rung 3: the entire-cluster connection of a workload is allowed with every pod whatsoever
(any labels, any namespace labels, an existing or a new namespace): every numeric point, and on
egress every named port as the other pod declares it. On ingress the named ports of the rules were
converted against the workload's own container ports. -/
theorem entire_cluster_sound (e : Engine) (ha : e.anps = []) (hb : e.banp = none) (hv : NpValid e)
    (pod : Pod) (hpod : pod.isRepresentative = false ∧ pod.ValidPorts) (nslw : Labels) (i : Bool)
    (cw : ConnSet) (hcw : clusterWideConn e pod i = .ok cw) (q : Pod) (nsl : Labels) (pr : Proto)
    (x : Int) (h : denFor i cw q pr x) :
    Spec.allowedDir e.toView (.pod pod nslw) (.pod q nsl) (dstEnd i pod nslw q nsl) (dirOf i) pr x
      = true :=
  allowedDir_of_npAllows e.toView ha hb pod nslw _ _ _ pr x
    (clusterWide_sound e hv pod hpod nslw i cw hcw q nsl pr x h)

/-- Rungs 3 and 4 for the result of one workload in one direction: every entry is realizable -/
theorem exposure_entries_realizable (x : XEngine) (ha : x.eng.anps = []) (hb : x.eng.banp = none)
    (hv : NpValid x.eng) (hreps : ∀ krp ∈ x.reps, RepWF krp.2) (n : String) (pod : Pod)
    (hpod : pod.isRepresentative = false ∧ pod.ValidPorts)
    (i : Bool) (prot : Bool) (entries : List XEntry)
    (h : xgressExposure x (.wl n pod) i = .ok (some (prot, entries))) :
    ∃ ns, x.eng.findNs pod.ns = some ns ∧
      ∀ en ∈ entries, Realizable x.eng pod ns.labels i en := by
  obtain ⟨ns, hns, h1 | h1⟩ := xgressExposure_spec x hv hreps n pod hpod i _ h
  · obtain ⟨_, heq⟩ := h1
    cases heq
    exact ⟨ns, hns, fun en hen => by cases hen⟩
  · obtain ⟨_, cw, perRep, hcw, hX, heq⟩ := h1
    refine ⟨ns, hns, ?_⟩
    have hent : entries = general cw ++ perRep := by
      split at heq
      · cases heq
      · cases heq; rfl
    subst hent
    intro en hen q nsl hq pr p hden
    rcases List.mem_append.mp hen with hg | hr
    · -- the entire-cluster entry
      have : en = ⟨true, none, none, cw⟩ := by
        unfold general at hg
        split at hg
        · cases hg
        · exact List.mem_singleton.mp hg
      subst this
      exact entire_cluster_sound x.eng ha hb hv pod hpod ns.labels i cw hcw q nsl pr p hden
    · -- a selector entry
      obtain ⟨krp, _, c, hs, _, rfl⟩ := hX.sound en hr
      rcases hq with hq | ⟨hsat, hcons, hF⟩
      · cases hq
      · exact allowedDir_of_npAllows x.eng.toView ha hb pod ns.labels _ _ _ pr p
          (entrySpec_sound x.eng pod hpod.1 ns i _ _ c hs hF q nsl hsat hcons pr p hden)

/-- The same for the engine `Exposure.build` returns, when the selectors of the input have label
syntax. `SelectorsOK e` (decidable) excludes exactly: a selector key or value, or a policy
namespace name, that holds one of the characters space `=` `!` `,` `(` `)` `;` `|`; an empty selector
key; a `NotIn` requirement without values. The hypothesis `Faithful` is then a theorem
(`Netpol.Proofs.SelectorStrings`: selectors with the same requirement strings select the same label
sets), and so are the hypotheses on the shape of the engine. -/
theorem exposure_entries_realizable_build (objs : List Obj) (x : XEngine)
    (hbuild : Exposure.build objs = .ok x) (hv : NpValid x.eng) (hok : SelectorsOK x.eng)
    (n : String) (pod : Pod) (hpod : pod.isRepresentative = false ∧ pod.ValidPorts)
    (i : Bool) (prot : Bool) (entries : List XEntry)
    (h : xgressExposure x (.wl n pod) i = .ok (some (prot, entries))) :
    ∃ ns, x.eng.findNs pod.ns = some ns ∧
      ∀ en ∈ entries, ∀ (q : Pod) (nsl : Labels),
        (en.entireCluster = true ∨ (Sat en.podSel en.nsSel q nsl ∧ NsConsistent q nsl)) →
        ∀ pr p, denFor i en.conn q pr p →
          Spec.allowedDir x.eng.toView (.pod pod ns.labels) (.pod q nsl)
            (dstEnd i pod ns.labels q nsl) (dirOf i) pr p = true := by
  obtain ⟨ha, hb, hreps, _⟩ := build_provides hbuild
  obtain ⟨ns, hns, h1 | h1⟩ := xgressExposure_spec x hv hreps n pod hpod i _ h
  · obtain ⟨_, heq⟩ := h1
    cases heq
    exact ⟨ns, hns, fun en hen => by cases hen⟩
  · obtain ⟨_, cw, perRep, hcw, hX, heq⟩ := h1
    refine ⟨ns, hns, ?_⟩
    have hent : entries = general cw ++ perRep := by
      split at heq
      · cases heq
      · cases heq; rfl
    subst hent
    intro en hen q nsl hq pr p hden
    rcases List.mem_append.mp hen with hg | hr
    · have : en = ⟨true, none, none, cw⟩ := by
        unfold general at hg
        split at hg
        · cases hg
        · exact List.mem_singleton.mp hg
      subst this
      exact entire_cluster_sound x.eng ha hb hv pod hpod ns.labels i cw hcw q nsl pr p hden
    · obtain ⟨krp, hk, c, hs, _, rfl⟩ := hX.sound en hr
      rcases hq with hq | ⟨hsat, hcons⟩
      · cases hq
      · exact allowedDir_of_npAllows x.eng.toView ha hb pod ns.labels _ _ _ pr p
          (entrySpec_sound x.eng pod hpod.1 ns i _ _ c hs (build_faithful hbuild hok krp hk) q nsl
            hsat hcons pr p hden)

/-- the same for the whole report: every entry of every exposed peer is realizable -/
theorem exposed_peers_realizable (x : XEngine) (ha : x.eng.anps = []) (hb : x.eng.banp = none)
    (hv : NpValid x.eng) (hreps : ∀ krp ∈ x.reps, RepWF krp.2) (peers : List LPeer)
    (hp : ∀ n pod, LPeer.wl n pod ∈ peers →
      pod.isRepresentative = false ∧ pod.ValidPorts)
    (focus : String) (xs : List XPeer) (h : exposedPeers x peers focus = .ok xs) :
    ∀ xp ∈ xs, ∃ pod ns, LPeer.wl xp.name pod ∈ peers ∧ x.eng.findNs pod.ns = some ns ∧
      (∀ en ∈ xp.ing, Realizable x.eng pod ns.labels true en) ∧
      (∀ en ∈ xp.eg, Realizable x.eng pod ns.labels false en) := by
  intro xp hxp
  obtain ⟨n, pod, ri, rg, hw, _, hi, hg, rfl⟩ := exposedPeers_mem h hxp
  have hpod := hp n pod hw
  obtain ⟨ns, hns, _⟩ := xgressExposure_spec x hv hreps n pod hpod true ri hi
  refine ⟨pod, ns, hw, hns, ?_, ?_⟩
  · cases ri with
    | none => intro en hen; cases hen
    | some r =>
      obtain ⟨b, l⟩ := r
      obtain ⟨ns', hns', hall⟩ := exposure_entries_realizable x ha hb hv hreps n pod hpod true
        b l hi
      rw [hns] at hns'
      cases hns'
      exact hall
  · cases rg with
    | none => intro en hen; cases hen
    | some r =>
      obtain ⟨b, l⟩ := r
      obtain ⟨ns', hns', hall⟩ := exposure_entries_realizable x ha hb hv hreps n pod hpod false
        b l hg
      rw [hns] at hns'
      cases hns'
      exact hall

/-- Engine form of realizability, for a hypothetical pod that is given as a real peer `kq` (a pod
with a namespace object): the plain evaluation of the direction (`Engine.xgressConns`, the analysis
of `list` without the flag) contains every in-range point the entry stands for -/
theorem realizable_engine (e : Engine) (ha : e.anps = []) (hb : e.banp = none) (hv : NpValid e)
    (pod : Pod) (hpod : pod.isRepresentative = false ∧ pod.ValidPorts) (nsw : NsObj) (i : Bool)
    (en : XEntry) (hre : Realizable e pod nsw.labels i en) (q : Pod)
    (hq : q.isRepresentative = false ∧ q.ValidPorts) (nsq : NsObj)
    (hsat : en.entireCluster = true ∨ (Sat en.podSel en.nsSel q nsq.labels ∧
      NsConsistent q nsq.labels ∧ Faithful e en.podSel en.nsSel))
    (c : ConnSet)
    (hc : e.xgressConns (xSrc i (.pod q (some nsq)) (.pod pod (some nsw)))
      (xDst i (.pod q (some nsq)) (.pod pod (some nsw))) i = .ok c) :
    ∀ pr x, inRange x → denFor i en.conn q pr x → c.contains pr x = true := by
  intro pr x hx hden
  have hal := hre q nsq.labels hsat pr x hden
  have hval : e.Valid := C01.valid_np_only e ha hb hv
  cases i
  · obtain ⟨s1, _⟩ := xgressConns_spec e hval (.pod pod (some nsw)) (.pod q (some nsq)) 0 0 hpod.1
      hq.1 hq false
    obtain ⟨hw, hd⟩ := s1 c hc
    rw [ConnSet.contains_iff hw pr hx, hd]
    exact ⟨hx, hal⟩
  · obtain ⟨s1, _⟩ := xgressConns_spec e hval (.pod q (some nsq)) (.pod pod (some nsw)) 0 0 hq.1
      hpod.1 hpod true
    obtain ⟨hw, hd⟩ := s1 c hc
    rw [ConnSet.contains_iff hw pr hx, hd]
    exact ⟨hx, hal⟩

/-! ### non-vacuity: a concrete engine -/
namespace Examples
attribute [local instance] Engine.decEqExcept

def nsDefault : NsObj := ⟨"default", [("kubernetes.io/metadata.name", "default")]⟩
def web : Pod :=
  { ns := "default", name := "web", labels := [("app", "web")], ports := [⟨"http", .TCP, 8080⟩] }
def other : Pod :=
  { ns := "default", name := "other", labels := [("app", "other")], ports := [] }

def selClient : Selector := ⟨[("app", "client")], []⟩
def selProd : Selector := ⟨[("env", "prod")], []⟩

/-- selects `web`. Ingress: from pods `app=client` of the policy's namespace on the named port
`http` and UDP 53; from the entire cluster on TCP 9090. Egress: to every pod of the namespaces
`env=prod` on the named port `pg` and TCP 5432; to everything on UDP 53. -/
def np : NetPol :=
  { ns := "default", name := "np", podSel := ⟨[("app", "web")], []⟩, types := [.ingress, .egress],
    ingress := [⟨[.sel (some selClient) none], [⟨none, .name "http"⟩, ⟨some .UDP, .num 53 none⟩]⟩,
                ⟨[.sel none (some ⟨[], []⟩)], [⟨none, .num 9090 none⟩]⟩],
    egress := [⟨[.sel none (some selProd)], [⟨none, .name "pg"⟩, ⟨none, .num 5432 none⟩]⟩,
               ⟨[], [⟨some .UDP, .num 53 none⟩]⟩] }

def repClient : Pod :=
  { ns := "default", name := representativePodName, labels := [], ports := [], fake := true,
    reprPodSel := some selClient, reprNsSel := some (nsNameSelector "default") }
def repProd : Pod :=
  { ns := "", name := representativePodName, labels := [], ports := [], fake := true,
    reprPodSel := none, reprNsSel := some selProd }

/-- the engine `Exposure.build` yields for the namespace, the two pods and the policy (checked with
`#eval`: the two representative peers, in this order, under these keys) -/
def ex : XEngine :=
  { eng := { namespaces := [nsDefault], pods := [web, other], netpols := [np], exposure := true },
    reps := [("kubernetes.io/metadata.name=default|app=client", repClient), ("env=prod|", repProd)] }

/-- `ex` is what `Exposure.build` returns for the namespace, the two pods and the policy -/
def exObjs : List Obj := [.ns nsDefault, .pod web, .pod other, .np np]

theorem allSels_np : allSels np = [⟨some selClient, none⟩, ⟨none, some selProd⟩] := by rfl

theorem key1 : keyOf "default" ⟨some selClient, none⟩ =
    "kubernetes.io/metadata.name=default|app=client" := by
  simp [keyOf, nsOf, uniqueKey, nsNameSelector, Selector.reqStrings, selClient, nsNameLabelKey]
theorem key2 : keyOf "default" ⟨none, some selProd⟩ = "env=prod|" := by
  simp [keyOf, nsOf, uniqueKey, Selector.reqStrings, selProd]

theorem build_ex : Exposure.build exObjs = .ok ex := by
  rw [build_eq]
  have h1 : (exObjs.filter isPolNs) = [.ns nsDefault, .np np] := rfl
  have h2 : (exObjs.filter (fun o => !isPolNs o)) = [.pod web, .pod other] := rfl
  rw [h1, h2]
  have s1 : bstep x0 (.ns nsDefault) =
      .ok ⟨{ namespaces := [nsDefault], exposure := true }, []⟩ := rfl
  have s2 : bstep ⟨{ namespaces := [nsDefault], exposure := true }, []⟩ (.np np) =
      .ok ⟨{ namespaces := [nsDefault], netpols := [np], exposure := true }, ex.reps⟩ := by
    unfold bstep
    have hins : ({ namespaces := [nsDefault], exposure := true } : Engine).insertNetpol np =
        .ok { namespaces := [nsDefault], netpols := [np], exposure := true } := rfl
    simp only [hins, bind, Except.bind, pure, Except.pure]
    have hd : npDefaulted np = np := rfl
    rw [hd, allSels_np]
    simp only [addAll, List.foldl_cons, List.foldl_nil, addRepresentative_eq]
    have hns : np.ns = "default" := rfl
    rw [hns, key1, key2]
    simp [newRep, nsOf, ex, repClient, repProd, Engine.findNs, nsDefault]
  have s3 : bstep ⟨{ namespaces := [nsDefault], netpols := [np], exposure := true }, ex.reps⟩
      (.pod web) =
      .ok ⟨{ namespaces := [nsDefault], pods := [web], netpols := [np], exposure := true }, ex.reps⟩ :=
    by rfl
  have s4 : bstep ⟨{ namespaces := [nsDefault], pods := [web], netpols := [np], exposure := true },
      ex.reps⟩ (.pod other) = .ok ex := by rfl
  simp only [List.foldlM_cons, List.foldlM_nil, s1, s2, s3, s4, bind, Except.bind, pure, Except.pure]

def wWeb : LPeer := .wl "default/web[Pod]" web
def wOther : LPeer := .wl "default/other[Pod]" other
def peers : List LPeer := [.ip ⟨0, 4294967295⟩, wWeb, wOther]

/-! the hypotheses hold -/
example : ex.eng.anps = [] ∧ ex.eng.banp = none := ⟨rfl, rfl⟩
example : NpValid ex.eng := by decide
example : NamesNonEmpty ex.eng := by decide
example : ∀ krp ∈ ex.reps, RepWF krp.2 := by decide
example : RepNamespaces ex := by decide
example : ∀ p ∈ peers, p.Real := by decide
example : web.isRepresentative = false ∧ web.ValidPorts := by decide
example : ex.eng.findNs web.ns = some nsDefault := by decide
/-- validity is not trivially true -/
example : ¬ NpValid { ex.eng with netpols := [{ np with ingress := [⟨[.sel none none], []⟩] }] } := by
  decide

/-! 1. the base report (both sides evaluate, and the theorem applies) -/
theorem plain_report_ok : (match ex.eng.connsBetweenPeers peers "" with
    | .ok l => l.length
    | .error _ => 0) = 5 := by decide
example : Exposure.connsBetweenPeers ex.eng peers "" = ex.eng.connsBetweenPeers peers "" :=
  base_report_eq ex.eng rfl rfl (by decide) peers (by decide) "" (by
    intro h
    have := plain_report_ok
    rw [h] at this
    cases this)

/-- the selectors of the example have label syntax -/
example : SelectorsOK ex.eng := by decide

/-- the plain engine for the same objects, and its peers list (the theorem `runs_same_report`
applies: its hypotheses hold) -/
def exPlain : Engine := { namespaces := [nsDefault], pods := [web, other], netpols := [np] }
theorem build_plain : Engine.build exObjs = .ok exPlain := by rfl
example : ∃ ps, exPlain.peersList = .ok ps ∧ (∀ p ∈ ps, p.Real) ∧ NpValid exPlain ∧
    ex.eng.peersList = .ok ps ∧
    Dev (exPlain.connsBetweenPeers ps "") (Exposure.connsBetweenPeers ex.eng ps "") := by
  have hpl : ∃ ps, exPlain.peersList = .ok ps ∧ ∀ p ∈ ps, p.Real := by
    cases h : exPlain.peersList with
    | error err =>
      exfalso
      have hom : exPlain.podOwnersMap = podOwnersMapOf [other, web] :=
        Structure.podOwnersMap_eq (l := [other, web]) (List.Perm.swap web other []) (by decide)
      have : (match exPlain.podOwnersMap with | .ok _ => true | .error _ => false) = true := by
        rw [hom]; decide
      unfold Engine.peersList at h
      cases ho : exPlain.podOwnersMap with
      | error e' => rw [ho] at this; cases this
      | ok o => rw [ho] at h; cases h
    | ok ps =>
      refine ⟨ps, rfl, ?_⟩
      intro p hp
      cases p with
      | ip r => trivial
      | wl n pod =>
        have hmem := peersList_pods h hp
        have : pod = web ∨ pod = other := by simpa [exPlain] using hmem
        rcases this with rfl | rfl
        · exact (by decide : web.isRepresentative = false ∧ web.ValidPorts)
        · exact (by decide : other.isRepresentative = false ∧ other.ValidPorts)
  obtain ⟨ps, h1, h2⟩ := hpl
  obtain ⟨h3, h4⟩ := runs_same_report exObjs ex exPlain build_ex build_plain (by decide) ps h1 h2 ""
  exact ⟨ps, h1, h2, by decide, h3, h4⟩

/-- the recorded deviation: an egress rule with a named port towards an ipBlock, next to a rule that
allows everything. `list` fails, `list --exposure` answers "All Connections" for the pair. -/
def npDev : NetPol :=
  { ns := "default", name := "dev", podSel := ⟨[("app", "web")], []⟩, types := [.egress],
    ingress := [],
    egress := [⟨[.ip ⟨0x0A000000, 8⟩ []], [⟨none, .name "dns"⟩]⟩, ⟨[], []⟩] }
def engDev : Engine := { namespaces := [nsDefault], pods := [web], netpols := [npDev], exposure := true }
example : NpValid engDev := by decide
example : engDev.peerConns (.pod web (some nsDefault)) (.ip [⟨167772160, 184549375⟩]) =
      .error .namedPortOnIP ∧
    Exposure.peerConns engDev (.pod web (some nsDefault)) (.ip [⟨167772160, 184549375⟩]) =
      .ok (ConnSet.mk' true) := by decide

/-- the same with the rules in the other order: the plain analysis examines every rule (no early
stop at "All Connections"), so it fails here too; the exposure shortcut still answers -/
def engDev' : Engine :=
  { engDev with netpols := [{ npDev with egress := [⟨[], []⟩, ⟨[.ip ⟨0x0A000000, 8⟩ []], [⟨none, .name "dns"⟩]⟩] }] }
example : engDev'.peerConns (.pod web (some nsDefault)) (.ip [⟨167772160, 184549375⟩]) =
      .error .namedPortOnIP ∧
    Exposure.peerConns engDev' (.pod web (some nsDefault)) (.ip [⟨167772160, 184549375⟩]) =
      .ok (ConnSet.mk' true) := by decide

/-! A real Pod named `representative-pod` (formerly a finding: `isPodToItself` compared pod name and
namespace only, so that this pod was "the same pod" as the representative peer of a rule without
namespaceSelector, and its exposure entry reported "All Connections"). `isPodToItself` now also
compares the `fake` flags: the pair is evaluated like any other, and the entry holds what the policy
allows — TCP 80, not TCP 81. The theorems no longer ask for `pod.name ≠ representativePodName`. -/
def rpod : Pod :=
  { ns := "default", name := "representative-pod", labels := [("app", "web")], ports := [] }
def ruleR : NPRule := ⟨[.sel (some selClient) none], [⟨none, .num 80 none⟩]⟩
def npR : NetPol :=
  { ns := "default", name := "r", podSel := ⟨[("app", "web")], []⟩, types := [.ingress],
    ingress := [ruleR], egress := [] }
def engR : Engine := { namespaces := [nsDefault], pods := [rpod], netpols := [npR], exposure := true }

example : isPodToItself (.pod repClient (some nsDefault)) (.pod rpod (some nsDefault)) = false := by
  decide

example : ∃ c, Exposure.peerConns engR (.pod repClient (some nsDefault)) (.pod rpod (some nsDefault))
    = .ok c ∧ c.den .TCP 80 ∧ ¬ c.den .TCP 81 := by
  obtain ⟨c, hc, hs⟩ := peerConns_repr engR (by decide) true repClient (some nsDefault) (by decide)
    rpod (some nsDefault) (by decide) (by decide)
    (isPodToItself_x true _ _ _ _ (by decide) (by decide))
  refine ⟨c, hc, ?_, ?_⟩
  · refine (hs.den _ _).mpr ⟨npR, ruleR, ⟨by decide, by decide, by decide⟩, ?_, ?_⟩
    · unfold repSel
      rw [Bool.or_eq_true, List.any_eq_true]
      refine Or.inr ⟨_, List.mem_singleton.mpr rfl, ?_⟩
      unfold repPeerMatch
      rw [Bool.and_eq_true]
      exact ⟨selectorsFullMatch_self _, selectorsFullMatch_self _⟩
    · simp only [RD, if_true]
      exact ⟨by decide, by decide⟩
  · intro h
    obtain ⟨p, r, ⟨hp, _, hr⟩, _, hrd⟩ := (hs.den _ _).mp h
    have e1 : p = npR := by simpa [engR] using hp
    subst e1
    have e2 : r = ruleR := by simpa [Spec.npRules, npR] using hr
    subst e2
    simp only [RD, if_true] at hrd
    revert hrd
    unfold NetPol.portsDen
    decide

/-! 2. the flags -/
example : isProtected ex.eng web true = true ∧ isProtected ex.eng web false = true ∧
    isProtected ex.eng other true = false ∧ isProtected ex.eng other false = false := by decide

/-! 3. the entire-cluster connection of `web`: TCP 9090 on ingress; UDP 53 on egress -/
example : clusterWideConn ex.eng web true = .ok ⟨false, some ⟨[⟨9090, 9090⟩], [], []⟩, none, none⟩ ∧
    clusterWideConn ex.eng web false = .ok ⟨false, none, some ⟨[⟨53, 53⟩], [], []⟩, none⟩ := by decide

/-- a hypothetical pod in a new namespace `prod` labelled `env=prod`, declaring the port `pg` -/
def qDb : Pod :=
  { ns := "prod", name := "db", labels := [("role", "db")], ports := [⟨"pg", .TCP, 6432⟩] }
def nslProd : Labels := [("kubernetes.io/metadata.name", "prod"), ("env", "prod")]

/-- `SelectorsFullMatch` is sound for the selectors of `repProd` against the rule selectors of `np` -/
theorem faithful_prod : Faithful ex.eng none (some selProd) := by
  intro p hp r hr peer hpeer
  have : p = np := by simpa [ex] using hp
  subst this
  simp only [np, List.cons_append, List.nil_append, List.mem_cons, List.not_mem_nil, or_false] at hr
  rcases hr with rfl | rfl | rfl | rfl
  · have : peer = .sel (some selClient) none := by simpa using hpeer
    subst this
    refine ⟨?_, ?_⟩
    · intro h
      exfalso
      revert h
      simp [selectorsFullMatch, Selector.isEmpty, Selector.reqStrings, selProd, nsNameLabelKey, np]
    · intro ps hps
      cases hps
      exact fullMatchSound_none (by decide)
  · have : peer = .sel none (some ⟨[], []⟩) := by simpa using hpeer
    subst this
    exact ⟨fullMatchSound_of_isEmpty (by decide) _, fun ps hps => by cases hps⟩
  · have : peer = .sel none (some selProd) := by simpa using hpeer
    subst this
    exact ⟨fullMatchSound_self selProd, fun ps hps => by cases hps⟩
  · simp at hpeer

/-- the hypothetical pod satisfies the selectors of `repProd`'s entries -/
theorem sat_qDb : Sat none (some selProd) qDb nslProd := by
  unfold Sat
  refine ⟨fun ps h => (by cases h), fun ns h => ?_⟩
  cases h
  decide
theorem cons_qDb : NsConsistent qDb nslProd := by
  unfold NsConsistent
  decide

/-- 4. the theorem at work on the egress result of `web` (which exists, `xgressExposure_ok`): every
entry is realizable; an entry with the selectors of `repProd` that holds the name `pg` for TCP makes
`web`'s policies allow TCP 6432 towards `qDb`, the port `qDb` declares under that name -/
example : ∃ res, xgressExposure ex wWeb false = .ok res ∧ ∀ prot entries,
    res = some (prot, entries) → ∀ en ∈ entries, en.podSel = none → en.nsSel = some selProd →
      "pg" ∈ en.conn.names .TCP →
      Spec.allowedDir ex.eng.toView (.pod web nsDefault.labels) (.pod qDb nslProd) (.pod qDb nslProd)
        .egress .TCP 6432 = true := by
  obtain ⟨res, hres⟩ := xgressExposure_ok ex (by decide) (by decide) (by decide) "default/web[Pod]" web
    (by decide) nsDefault (by decide) false
  refine ⟨res, hres, ?_⟩
  rintro prot entries rfl en hen hP hN hpg
  obtain ⟨ns, hns, hall⟩ := exposure_entries_realizable ex rfl rfl (by decide) (by decide)
    "default/web[Pod]" web (by decide) false prot entries hres
  have : ns = nsDefault := by
    have h : ex.eng.findNs web.ns = some nsDefault := by decide
    rw [h] at hns
    exact (Option.some.inj hns).symm
  subst this
  have hsat : Sat en.podSel en.nsSel qDb nslProd := by rw [hP, hN]; exact sat_qDb
  have hF : Faithful ex.eng en.podSel en.nsSel := by rw [hP, hN]; exact faithful_prod
  exact hall en hen qDb nslProd (Or.inr ⟨hsat, cons_qDb, hF⟩) .TCP 6432
    (Or.inr ⟨rfl, "pg", hpg, ⟨"pg", .TCP, 6432⟩, by decide, rfl, rfl⟩)

end Examples

end Netpol.Properties.C06
