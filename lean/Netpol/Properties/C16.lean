import Netpol.Proofs.Structure

/-! C16: `--focusworkload` is a pure filter on the report.

`Engine.connsBetweenPeers e peers focus` is the model of `getConnectionsBetweenPeers`
(`connlist.go`); `Engine.isFocus focus p` is `isPeerFocusWorkload`. The empty focus string is
"no focus". -/
namespace Netpol.Properties.C16
open Netpol Netpol.Engine Netpol.Structure

/-- without a focus every peer passes the filter -/
theorem isFocus_empty (p : LPeer) : isFocus "" p = true := Structure.isFocus_empty p

/-- the loop is the ordered concatenation, over all (src, dst) pairs in the order of `peers`,
of the contribution `Structure.pairEntry` of each pair (no entry or one entry), with the first
error otherwise -/
theorem connsBetweenPeers_eq_collect (e : Engine) (peers : List LPeer) (f : String) :
    e.connsBetweenPeers peers f =
      collect (fun s => collect (fun d => pairEntry e f s d) peers) peers :=
  connsBetweenPeers_eq e peers f

/-- 5. the focused report is the unfocused report filtered by "source or destination is the
focus workload": same entries, same order, identical connection sets; if the unfocused run has no
error the focused one has none -/
theorem focus_is_filter {e : Engine} {peers : List LPeer} {all : List Entry} (f : String)
    (h : e.connsBetweenPeers peers "" = .ok all) :
    e.connsBetweenPeers peers f =
      .ok (all.filter fun x => isFocus f x.src || isFocus f x.dst) := by
  rw [connsBetweenPeers_eq] at h ⊢
  refine collect_filter _ h ?_
  intro s _ ys hys
  refine collect_filter _ hys ?_
  intro d _ xs hxs
  exact pairEntry_focus f hxs

/-- 6. a focus that matches no peer gives the empty report — whatever the unfocused run does -/
theorem focus_absent_empty {e : Engine} {peers : List LPeer} {f : String}
    (h : ∀ p ∈ peers, isFocus f p = false) : e.connsBetweenPeers peers f = .ok [] := by
  rw [connsBetweenPeers_eq]
  refine collect_nil_of_all ?_
  intro s hs
  refine collect_nil_of_all ?_
  intro d hd
  exact pairEntry_no_focus (h s hs) (h d hd)

/-- corollary: every entry of a focused report has the focus workload at one end -/
theorem focus_entries_match {e : Engine} {peers : List LPeer} {f : String} {entries : List Entry}
    (h : e.connsBetweenPeers peers f = .ok entries) :
    ∀ x ∈ entries, (isFocus f x.src || isFocus f x.dst) = true := by
  refine entries_forall h _ ?_
  intro s _ d _ xs hxs x hx
  rcases pairEntry_ok hxs with rfl | ⟨c, rfl, _, _, hf, _⟩
  · cases hx
  · rw [List.mem_singleton] at hx; subst hx; exact hf

/-- corollary: focusing twice on the same workload changes nothing -/
theorem focus_idempotent {e : Engine} {peers : List LPeer} {all : List Entry} (f : String)
    (h : e.connsBetweenPeers peers "" = .ok all) :
    ∃ r, e.connsBetweenPeers peers f = .ok r ∧
      r.filter (fun x => isFocus f x.src || isFocus f x.dst) = r := by
  refine ⟨_, focus_is_filter f h, ?_⟩
  rw [List.filter_filter]; simp

/-! ### non-vacuity: a concrete engine with two workloads and one IP range -/

def podA : Pod := { ns := "default", name := "a", labels := [("app", "a")], ports := [] }
def podB : Pod := { ns := "default", name := "b", labels := [("app", "b")], ports := [] }

def exEngine : Engine :=
  { namespaces := [⟨"default", [(nsNameLabelKey, "default")]⟩], pods := [podA, podB] }

def exPeers : List LPeer :=
  [.ip ⟨0, ipMax⟩, .wl "default/a[Pod]" podA, .wl "default/b[Pod]" podB]

/-- the unfocused run succeeds and reports 6 pairs (3 × 3 minus the diagonal minus ip→ip) -/
example : (exEngine.connsBetweenPeers exPeers "").toOption.map (·.length) = some 6 := by decide

/-- focus on `a`: the 4 pairs with `a` at one end -/
example : (exEngine.connsBetweenPeers exPeers "a").toOption.map (·.length) = some 4 := by decide

/-- the hypothesis of `focus_absent_empty` holds for a workload that does not exist -/
example : ∀ p ∈ exPeers, isFocus "zzz" p = false := by decide

example : (exEngine.connsBetweenPeers exPeers "zzz").toOption.map (·.length) = some 0 := by decide

/-- the filter keeps some entries and drops others -/
example : isFocus "a" (.wl "default/a[Pod]" podA) = true ∧
    isFocus "default/a" (.wl "default/a[Pod]" podA) = true ∧
    isFocus "a" (.wl "default/b[Pod]" podB) = false ∧ isFocus "a" (.ip ⟨0, ipMax⟩) = false := by
  decide

end Netpol.Properties.C16
