import Netpol.Model.Ingress
import Netpol.Spec.Ingress
namespace Netpol.Properties.C10
open Netpol

end Netpol.Properties.C10
