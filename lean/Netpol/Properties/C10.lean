import Netpol.Proofs.IngressLayer

/-! C10: the ingress-controller lines.

For every workload the tool reports which of its ports the ingress controller can reach through
an Ingress or Route, a Service and the network policies. The model of the Go ingress analyzer is
`Netpol.Model.Ingress` (`accessPorts`, `podExposedTCP`, `peerConnection`, `services`, `targets`,
`lookupSvc`, `allowedIngress`, `ingressEntries`); the specification is `Netpol.Spec.Ingress`
(`designated`, `reachedPort`, `nsTargets`, `targeted`, `ingressPorts`). The theorems compare the
model with the `lenient := true` variant of the specification, which is the tool's reading: an
Ingress `port.number` also selects a service port whose *targetPort* has that number (the model
passes `byTargetPort = true` for Ingress backends, as the Go code does; known finding).
`chosen_ingress_number_strict` shows that this flag is the only source of the deviation, and the
last example exhibits it.

The theorems follow the layers of the analyzer:

* G  `podExposedTCP`: the TCP container ports of a pod.
* H  `accessPorts` / `peerConnection`: one backend against one Service and one selected pod.
* I  `allowedIngress` / `ingressEntries`: all Ingresses, Routes and Services of the input; the
     connection per workload (`ingress_lines_exact`, `ingress_entry_exact`, `entry_iff_targeted`);
     the reported lines and the blocked workloads (`line_iff`, `blocked_iff`), the latter also
     against the specification (`blocked_spec`) and, through the engine theorem, against
     `Spec.allowed` (`blocked_end_to_end`).

Hypotheses (all in `Netpol.IngressLayer`; each is needed, see the counterexamples below):

* `ValidPod p`: container ports are in 1..65535 (needed for well-formedness of the computed
  sets, and for "a named port resolves to a number ≥ 0").
* `ValidSvcPorts sps`: service port numbers are ≥ 1 (a required Ingress *name* has `intVal = 0`
  and the Go code also compares numbers, so a service port 0 would match every name); a named
  targetPort is not the empty string (the Go code treats `""` as "no targetPort" and falls back
  to the port number, the specification looks for a container port named `""`); given service
  port names are distinct (the Go code takes the first port of that name, the specification all).
* `ValidBackend b`: an Ingress backend has a non-empty port name or a non-zero port number (for
  the zero value the Go code takes *every* service port).
* `ValidRoute r`: a Route's `port.targetPort`, when present, is not `0` / `""` (same reason).
* `SvcUnique objs`: no two Service documents share namespace and name (the Go map keeps the last
  Service of that name among those selecting some workload; the specification keeps the last one
  selecting *this* workload).
* `(owners.map (·.1)).Nodup`: workload names are distinct (the merge is by name).

`ValidInput objs owners` bundles them for a whole input. Kubernetes / OpenShift API validation
guarantees all of them for objects accepted by a cluster. -/
namespace Netpol.Properties.C10
open Netpol Netpol.IngressA Netpol.Spec Netpol.Engine Netpol.IngressLayer

/-! ### G. the TCP ports a pod exposes -/

/-- `PodExposedTCPConnections` holds exactly the TCP container ports (no hypothesis needed) -/
theorem podExposedTCP_den (p : Pod) (x : Int) :
    (podExposedTCP p).den .TCP x ↔ ∃ c ∈ p.ports, c.proto = .TCP ∧ c.port = x :=
  IngressLayer.podExposedTCP_den p x

/-- for a pod with legal port numbers the set is well-formed and has no UDP or SCTP points -/
theorem podExposedTCP_wf {p : Pod} (hp : ValidPod p) :
    (podExposedTCP p).WF ∧ (∀ x, ¬ (podExposedTCP p).den .UDP x) ∧
      (∀ x, ¬ (podExposedTCP p).den .SCTP x) :=
  let h := podExposedTCP_tcpOnly hp
  ⟨h.wf, h.noUDP, h.noSCTP⟩

/-- `Contains` on that set is membership among the TCP container ports, for every integer -/
theorem podExposedTCP_contains {p : Pod} (hp : ValidPod p) (n : Int) :
    (podExposedTCP p).contains .TCP n = true ↔ ∃ c ∈ p.ports, c.proto = .TCP ∧ c.port = n :=
  contains_exposed hp n

/-! ### H. one backend, one Service, one pod -/

/-- `getPeerAccessPort` returns the access ports of the service ports it selects (`chosen`: all
ports for the zero value of the required port, else the first port matching it) -/
theorem accessPorts_eq_chosen (sps : List SvcPort) (req : IOS) (byT : Bool) :
    accessPorts sps req byT = (chosen sps req byT).map access :=
  accessPorts_eq sps req byT

/-- Ingress `port.number` `n ≠ 0`: the first service port whose number or targetPort number is
`n` (the lenient designator) -/
theorem accessPorts_ingress_number {n : Int} (hn : n ≠ 0) (sps : List SvcPort) :
    accessPorts sps { intVal := n } true = (designated (.byNumberLenient n) sps).map access := by
  rw [accessPorts_eq, chosen_ingress_number hn]

/-- Ingress `port.name` `s ≠ ""`: the service port of that name, for port numbers ≥ 1 and
distinct port names; with or without the targetPort comparison -/
theorem accessPorts_ingress_name {s : String} (hs : s ≠ "") {sps : List SvcPort} (byT : Bool)
    (hport : ∀ sp ∈ sps, 1 ≤ sp.port) (hu : UniqueNames sps) :
    accessPorts sps { strVal := s } byT = (designated (.byName s) sps).map access := by
  rw [accessPorts_eq, chosen_ingress_name hs byT hport hu]

/-- Route without `port`: every service port -/
theorem accessPorts_route_all (sps : List SvcPort) (byT : Bool) :
    accessPorts sps {} byT = (designated .all sps).map access := by
  rw [accessPorts_eq, chosen_route_all]

/-- Route `port.targetPort` number `n ≠ 0`: the first service port whose number or targetPort
number is `n` -/
theorem accessPorts_route_number {n : Int} (hn : n ≠ 0) (sps : List SvcPort) :
    accessPorts sps { intVal := n } true = (designated (.routeNum n) sps).map access := by
  rw [accessPorts_eq, chosen_route_number hn]

/-- Route `port.targetPort` name `s ≠ ""`: the first service port with that name or that named
targetPort, for port numbers ≥ 1 -/
theorem accessPorts_route_name {s : String} (hs : s ≠ "") {sps : List SvcPort}
    (hport : ∀ sp ∈ sps, 1 ≤ sp.port) :
    accessPorts sps { strVal := s, isStr := true } true =
      (designated (.routeName s) sps).map access := by
  rw [accessPorts_eq, chosen_route_name hs hport]

/-- any valid Ingress backend against any valid Service -/
theorem accessPorts_backend {b : IngBackend} (hb : ValidBackend b) {sps : List SvcPort}
    (hs : ValidSvcPorts sps) :
    accessPorts sps (backendPort b) true =
      (designated (backendDesignator true b) sps).map access := by
  rw [accessPorts_eq, chosen_backend hb hs]

/-- any valid Route against any valid Service -/
theorem accessPorts_route {r : Route} (hr : ValidRoute r) {sps : List SvcPort}
    (hs : ValidSvcPorts sps) :
    accessPorts sps (routePort r) true = (designated (routeDesignator r) sps).map access := by
  rw [accessPorts_eq, chosen_route hr hs]

/-- the strict reading is what the code would compute without the targetPort comparison (for
Services with distinct port numbers) -/
theorem accessPorts_ingress_number_strict {n : Int} (hn : n ≠ 0) {sps : List SvcPort}
    (hu : sps.Pairwise (fun a b => a.port ≠ b.port)) :
    accessPorts sps { intVal := n } false = (designated (.byNumber n) sps).map access := by
  rw [accessPorts_eq, chosen_ingress_number_strict hn hu]

/-- one iteration of `getIngressPeerConnection`: the access port of service port `sp` yields
port `x`, and the pod exposes `x` on TCP, exactly when the specification says `sp` reaches `x` -/
theorem peerConnection_step {p : Pod} (hp : ValidPod p) {sp : SvcPort} (hs : ValidTarget sp)
    (x : Int) :
    (stepPort p (access sp) = some x ∧ ∃ c ∈ p.ports, c.proto = .TCP ∧ c.port = x) ↔
      reachedPort p sp = some x :=
  IngressLayer.peerConnection_step hp hs x

/-- `getIngressPeerConnection`: the TCP points are the ports reached through the selected
service ports -/
theorem peerConnection_spec {p : Pod} (hp : ValidPod p) {sps : List SvcPort}
    (hs : ∀ sp ∈ sps, ValidTarget sp) (req : IOS) (byT : Bool) (x : Int) :
    (peerConnection p sps req byT).den .TCP x ↔
      ∃ sp ∈ chosen sps req byT, reachedPort p sp = some x := by
  rw [peerConnection_den hp hs, List.mem_filterMap]

/-- the set is well-formed and has no UDP or SCTP points -/
theorem peerConnection_wf {p : Pod} (hp : ValidPod p) (sps : List SvcPort) (req : IOS)
    (byT : Bool) :
    (peerConnection p sps req byT).WF ∧ (∀ x, ¬ (peerConnection p sps req byT).den .UDP x) ∧
      (∀ x, ¬ (peerConnection p sps req byT).den .SCTP x) :=
  let h := peerConnection_tcpOnly hp sps req byT
  ⟨h.wf, h.noUDP, h.noSCTP⟩

/-- an Ingress backend: the TCP points are the specification's ports for its (lenient)
designator -/
theorem peerConnection_backend {p : Pod} (hp : ValidPod p) {sps : List SvcPort}
    (hs : ValidSvcPorts sps) {b : IngBackend} (hb : ValidBackend b) (x : Int) :
    (peerConnection p sps (backendPort b) true).den .TCP x ↔
      x ∈ (designated (backendDesignator true b) sps).filterMap (reachedPort p) := by
  rw [peerConnection_den hp hs.target, chosen_backend hb hs]

/-- a Route: the TCP points are the specification's ports for its designator -/
theorem peerConnection_route {p : Pod} (hp : ValidPod p) {sps : List SvcPort}
    (hs : ValidSvcPorts sps) {r : Route} (hr : ValidRoute r) (x : Int) :
    (peerConnection p sps (routePort r) true).den .TCP x ↔
      x ∈ (designated (routeDesignator r) sps).filterMap (reachedPort p) := by
  rw [peerConnection_den hp hs.target, chosen_route hr hs]

/-! ### I. the whole input -/

/-- for a workload `(n, w)` of a valid input: port `x` is one of the specification's ingress
ports of `w` (lenient reading) exactly when `AllowedIngressConnections` has an entry for `n`
holding TCP port `x`. In particular: no result, or no entry for `n`, exactly when the
specification's list is empty. -/
theorem ingress_lines_exact {objs : List Obj} {owners : List (String × Pod)}
    (hv : ValidInput objs owners) {n : String} {w : Pod} (hw : (n, w) ∈ owners) (x : Int) :
    x ∈ ingressPorts objs w true ↔
      ∃ l p c, allowedIngress objs owners = some l ∧ (n, p, c) ∈ l ∧ c.den .TCP x :=
  IngressLayer.ingress_lines_exact hv hw x

/-- the result has at most one entry per workload name -/
theorem allowedIngress_nodup {objs : List Obj} {owners : List (String × Pod)}
    (hv : ValidInput objs owners) {l : List (String × Pod × ConnSet)}
    (hl : allowedIngress objs owners = some l) : (l.map (·.1)).Nodup :=
  (allowedIngress_entries hv hl).1

/-- every entry is a workload of the input with its own pod; its connection set is well-formed,
has no UDP or SCTP points, and its TCP points are exactly the specification's ingress ports -/
theorem ingress_entry_exact {objs : List Obj} {owners : List (String × Pod)}
    (hv : ValidInput objs owners) {l : List (String × Pod × ConnSet)}
    (hl : allowedIngress objs owners = some l) {n : String} {p : Pod} {c : ConnSet}
    (hm : (n, p, c) ∈ l) :
    (n, p) ∈ owners ∧ c.WF ∧ (∀ x, ¬ c.den .UDP x) ∧ (∀ x, ¬ c.den .SCTP x) ∧
      ∀ x, c.den .TCP x ↔ x ∈ ingressPorts objs p true :=
  let ⟨h1, h2, h3⟩ := entry_den hv hl hm
  ⟨h1, h2.wf, h2.noUDP, h2.noSCTP, h3⟩

/-- a workload has an entry exactly when the specification calls it targeted -/
theorem entry_iff_targeted {objs : List Obj} {owners : List (String × Pod)}
    (hv : ValidInput objs owners) {n : String} {w : Pod} (hw : (n, w) ∈ owners) :
    targeted objs w = true ↔ ∃ l p c, allowedIngress objs owners = some l ∧ (n, p, c) ∈ l :=
  IngressLayer.entry_iff_targeted hv hw

/-- `getIngressAllowedConnections`, blocked list: `n` is reported as blocked exactly when it has
an `AllowedIngressConnections` entry that passes the focus filter and whose intersection with
the policy connection (ingress controller → workload, computed without error) is empty. No
hypothesis on the input. -/
theorem blocked_iff {eng : Engine} {objs : List Obj} {owners : List (String × Pod)}
    {focus : String} {entries : List Entry} {blocked : List String}
    (h : ingressEntries eng objs owners focus = .ok (entries, blocked)) (n : String) :
    n ∈ blocked ↔ ∃ l p c, allowedIngress objs owners = some l ∧ (n, p, c) ∈ l ∧
      focused focus n p = true ∧ ∃ pc, policyConn (ingressEngine eng) n p = .ok pc ∧
        (c.inter pc).isEmpty = true :=
  IngressLayer.blocked_iff h n

/-- `getIngressAllowedConnections`, lines: there is a line ingress controller → `(n, p)` with
connection `r` exactly when `(n, p)` has an entry passing the focus filter and `r` is its
non-empty intersection with the policy connection -/
theorem line_iff {eng : Engine} {objs : List Obj} {owners : List (String × Pod)}
    {focus : String} {entries : List Entry} {blocked : List String}
    (h : ingressEntries eng objs owners focus = .ok (entries, blocked)) (n : String) (p : Pod)
    (r : ConnSet) :
    (∃ x ∈ entries, x.src = ingressSrc ∧ x.dst = LPeer.wl n p ∧ x.conn = r) ↔
      ∃ l c, allowedIngress objs owners = some l ∧ (n, p, c) ∈ l ∧
        focused focus n p = true ∧ ∃ pc, policyConn (ingressEngine eng) n p = .ok pc ∧
          r = c.inter pc ∧ r.isEmpty = false :=
  IngressLayer.line_iff h n p r

/-- every reported line runs from the ingress-controller peer to a workload -/
theorem lines_shape {eng : Engine} {objs : List Obj} {owners : List (String × Pod)}
    {focus : String} {entries : List Entry} {blocked : List String}
    (h : ingressEntries eng objs owners focus = .ok (entries, blocked)) :
    ∀ x ∈ entries, x.src = ingressSrc ∧ ∃ n p, x.dst = LPeer.wl n p := by
  rw [ingressEntries_eq] at h
  cases hl : allowedIngress objs owners with
  | none =>
    rw [hl] at h
    simp only [Except.ok.injEq, Prod.mk.injEq] at h
    rw [← h.1]
    intro x hx
    cases hx
  | some l =>
    rw [hl] at h
    exact line_shape l h (fun x hx => by cases hx)

/-- the blocked list against the specification: for a valid input and a workload `(n, w)` whose
policy connection, when computed, is well-formed (`EngineLayer.peerConns_spec` gives this for
valid engines), `n` is blocked exactly when it passes the focus filter, is targeted, and the
policies allow none of its ingress ports on TCP -/
theorem blocked_spec {eng : Engine} {objs : List Obj} {owners : List (String × Pod)}
    {focus : String} {entries : List Entry} {blocked : List String}
    (hv : ValidInput objs owners)
    (h : ingressEntries eng objs owners focus = .ok (entries, blocked)) {n : String} {w : Pod}
    (hw : (n, w) ∈ owners)
    (hpc : ∀ pc, policyConn (ingressEngine eng) n w = .ok pc → pc.WF) :
    n ∈ blocked ↔ focused focus n w = true ∧ targeted objs w = true ∧
      ∃ pc, policyConn (ingressEngine eng) n w = .ok pc ∧
        ∀ x ∈ ingressPorts objs w true, ¬ pc.den .TCP x := by
  rw [IngressLayer.blocked_iff h n]
  constructor
  · rintro ⟨l, p, c, hl, hm, hf, pc, hp, he⟩
    obtain ⟨ho, ht, hd⟩ := entry_den hv hl hm
    have : p = w := pair_unique hv.ownerNames ho hw
    subst this
    refine ⟨hf, (IngressLayer.entry_iff_targeted hv hw).mpr ⟨l, p, c, hl, hm⟩, pc, hp, ?_⟩
    intro x hx hpx
    exact (inter_isEmpty_iff ht (hpc pc hp)).mp he x ⟨(hd x).mpr hx, hpx⟩
  · rintro ⟨hf, ht, pc, hp, hno⟩
    obtain ⟨l, p, c, hl, hm⟩ := (IngressLayer.entry_iff_targeted hv hw).mp ht
    obtain ⟨ho, htc, hd⟩ := entry_den hv hl hm
    have : p = w := pair_unique hv.ownerNames ho hw
    subst this
    refine ⟨l, p, c, hl, hm, hf, pc, hp, ?_⟩
    rw [inter_isEmpty_iff htc (hpc pc hp)]
    rintro x ⟨h1, h2⟩
    exact hno x ((hd x).mp h1) h2

/-- end to end, through the engine theorem (`EngineLayer.peerConns_spec`): for a valid input, a
valid engine and a real workload `(n, w)` other than the ingress-controller pod itself (same name,
namespace and `fake` flag; see `blocked_end_to_end_real` for pods that are not fake), `n` is
reported as blocked exactly when it passes the focus filter, is targeted, its namespace is known
to the engine, and `Spec.allowed` (ingress-controller pod → workload pod) grants none of the
specification's ingress ports on TCP -/
theorem blocked_end_to_end {eng : Engine} {objs : List Obj} {owners : List (String × Pod)}
    {focus : String} {entries : List Entry} {blocked : List String}
    (hv : ValidInput objs owners) (he : eng.Valid)
    (h : ingressEntries eng objs owners focus = .ok (entries, blocked)) {n : String} {w : Pod}
    (hw : (n, w) ∈ owners) (hrep : w.isRepresentative = false)
    (hne : (ingressPod.name == w.name && ingressPod.ns == w.ns && ingressPod.fake == w.fake) = false) :
    n ∈ blocked ↔ focused focus n w = true ∧ targeted objs w = true ∧
      ∃ nsI nsW, (ingressEngine eng).findNs ingressPod.ns = some nsI ∧
        (ingressEngine eng).findNs w.ns = some nsW ∧
        ∀ x ∈ ingressPorts objs w true,
          Spec.allowed (ingressEngine eng).toView (.pod ingressPod nsI.labels)
            (.pod w nsW.labels) .TCP x = false := by
  have hp : ValidPod w := hv.pods _ hw
  rw [blocked_spec hv h hw (fun pc hpc => (policyConn_spec he hrep hp hne hpc).1)]
  constructor
  · rintro ⟨hf, ht, pc, hpc, hno⟩
    obtain ⟨_, nsI, nsW, h1, h2, hd⟩ := policyConn_spec he hrep hp hne hpc
    refine ⟨hf, ht, nsI, nsW, h1, h2, fun x hx => ?_⟩
    have := hno x hx
    rw [hd] at this
    simpa using this
  · rintro ⟨hf, ht, nsI, nsW, h1, h2, hno⟩
    obtain ⟨pc, hpc⟩ := policyConn_ok (n := n) he hrep hp hne h1 h2
    obtain ⟨_, nsI', nsW', h1', h2', hd⟩ := policyConn_spec he hrep hp hne hpc
    rw [h1] at h1'
    rw [h2] at h2'
    cases h1'
    cases h2'
    refine ⟨hf, ht, pc, hpc, fun x hx => ?_⟩
    rw [hd, hno x hx]
    decide

/-- the same for a pod that is not a fake pod — every pod of the input —, whatever its name and
namespace: since `isPodToItself` compares the `FakePod` flags, a real pod named
`ingress-controller` in `ingress-controller-ns` is no longer taken for the pod the analysis adds -/
theorem blocked_end_to_end_real {eng : Engine} {objs : List Obj} {owners : List (String × Pod)}
    {focus : String} {entries : List Entry} {blocked : List String}
    (hv : ValidInput objs owners) (he : eng.Valid)
    (h : ingressEntries eng objs owners focus = .ok (entries, blocked)) {n : String} {w : Pod}
    (hw : (n, w) ∈ owners) (hreal : w.fake = false) :
    n ∈ blocked ↔ focused focus n w = true ∧ targeted objs w = true ∧
      ∃ nsI nsW, (ingressEngine eng).findNs ingressPod.ns = some nsI ∧
        (ingressEngine eng).findNs w.ns = some nsW ∧
        ∀ x ∈ ingressPorts objs w true,
          Spec.allowed (ingressEngine eng).toView (.pod ingressPod nsI.labels)
            (.pod w nsW.labels) .TCP x = false :=
  blocked_end_to_end hv he h hw (by simp [Pod.isRepresentative, hreal])
    (ingress_self_false_of_real hreal)

/-! ### non-vacuity: a pod, a Service, an Ingress by number and by name -/

def exPorts : List CPort := [⟨"http", .TCP, 8080⟩, ⟨"metrics", .TCP, 9090⟩, ⟨"dns", .UDP, 53⟩]

def exPod : Pod := { ns := "default", name := "web-1", labels := [("app", "web")], ports := exPorts }

def exSvcPorts : List SvcPort :=
  [⟨"web", 80, some 8080, none, .TCP⟩, ⟨"mon", 9000, none, some "metrics", .TCP⟩]

def exSvc : Service :=
  { ns := "default", name := "web-svc", selector := [("app", "web")], ports := exSvcPorts }

def exBackends : List (List IngBackend) := [[⟨"web-svc", none, some "mon"⟩]]

def exIng : Ingress :=
  { ns := "default", name := "ing", default := some ⟨"web-svc", some 80, none⟩, rules := exBackends }

def exObjs : List Obj := [.svc exSvc, .ing exIng]

def exOwners : List (String × Pod) := [("default/web-1[Pod]", exPod)]

/-- the exposed TCP ports: 8080 and 9090, not the UDP port -/
example : (podExposedTCP exPod).den .TCP 8080 ∧ (podExposedTCP exPod).den .TCP 9090 ∧
    ¬ (podExposedTCP exPod).den .TCP 53 ∧ ¬ (podExposedTCP exPod).den .UDP 53 := by decide

/-- backend by number 80 → service port "web" → targetPort 8080 -/
example : accessPorts exSvcPorts { intVal := 80 } true = [{ intVal := 8080 }] := by decide

example : (peerConnection exPod exSvcPorts { intVal := 80 } true).den .TCP 8080 ∧
    ¬ (peerConnection exPod exSvcPorts { intVal := 80 } true).den .TCP 9090 := by decide

/-- backend by name "mon" → service port "mon" → named targetPort "metrics" → 9090 -/
example : accessPorts exSvcPorts { strVal := "mon" } true =
    [{ strVal := "metrics", isStr := true }] := by decide

example : (peerConnection exPod exSvcPorts { strVal := "mon" } true).den .TCP 9090 := by decide

/-- the specification and the model on the whole input -/
example : ingressPorts exObjs exPod true = [8080, 9090] := by decide

example : targeted exObjs exPod = true := by decide

example : (allowedIngress exObjs exOwners).map (fun l => l.map fun (n, _, c) => (n, c.toStr)) =
    some [("default/web-1[Pod]", "TCP 8080,9090")] := by decide

/-- the example satisfies every hypothesis -/
example : ValidInput exObjs exOwners where
  ownerNames := by decide
  pods := by decide
  svcPorts := by
    intro s hs
    simp only [exObjs, List.mem_cons, Obj.svc.injEq, reduceCtorEq, List.not_mem_nil, or_false] at hs
    subst hs
    exact ⟨by decide, by decide, by decide⟩
  svcUnique := by
    intro s₁ s₂ h₁ h₂ _ _
    simp only [exObjs, List.mem_cons, Obj.svc.injEq, reduceCtorEq, List.not_mem_nil, or_false]
      at h₁ h₂
    rw [h₁, h₂]
  backends := by
    intro i hi
    simp only [exObjs, List.mem_cons, Obj.ing.injEq, reduceCtorEq, List.not_mem_nil, or_false,
      false_or] at hi
    subst hi
    intro b hb
    simp only [ingBackends, exIng, exBackends, List.flatMap_cons, List.flatMap_nil, id,
      List.cons_append, List.nil_append, List.append_nil, List.mem_cons, List.not_mem_nil,
      or_false] at hb
    rcases hb with rfl | rfl
    · exact Or.inr (by decide)
    · exact Or.inl ⟨"mon", rfl, by decide⟩
  routes := by
    intro r hr
    simp [exObjs] at hr

/-- Routes: without port (every service port), by targetPort name, by targetPort number -/
def exRoute (num : Option Int) (name : Option String) : Route :=
  { ns := "default", name := "rt", toKind := "Service", toName := "web-svc", alternates := [],
    targetPortNum := num, targetPortName := name }

example : ingressPorts [.svc exSvc, .route (exRoute none none)] exPod true = [8080, 9090] ∧
    ingressPorts [.svc exSvc, .route (exRoute none (some "metrics"))] exPod true = [9090] ∧
    ingressPorts [.svc exSvc, .route (exRoute (some 8080) none)] exPod true = [8080] := by decide

example : (allowedIngress [.svc exSvc, .route (exRoute none (some "metrics"))] exOwners).map
      (fun l => l.map fun (n, _, c) => (n, c.toStr)) =
        some [("default/web-1[Pod]", "TCP 9090")] := by decide

/-- `getIngressAllowedConnections` without policies (one line) and under a deny-all ingress policy
(no line, the workload is reported as blocked) -/
def denyAll : NetPol :=
  { ns := "default", name := "deny", podSel := ⟨[], []⟩, types := [.ingress], ingress := [], egress := [] }

def exEngine (pols : List NetPol) : Engine :=
  { namespaces := [⟨"default", [(nsNameLabelKey, "default")]⟩], pods := [exPod], netpols := pols }

example : (ingressEntries (exEngine []) exObjs exOwners "").toOption.map
    (fun r => (r.1.map (fun x => (x.src.str, x.dst.str, x.conn.toStr)), r.2)) =
    some ([("{ingress-controller}", "default/web-1[Pod]", "TCP 8080,9090")], []) := by decide

example : (ingressEntries (exEngine [denyAll]) exObjs exOwners "").toOption.map
    (fun r => (r.1.length, r.2)) = some (0, ["default/web-1[Pod]"]) := by decide

/-! ### each hypothesis is needed -/

/-- container port out of range: the exposed set is not well-formed -/
example : ¬ (podExposedTCP { exPod with ports := [⟨"x", .TCP, 70000⟩] }).WF := by decide

/-- Ingress port number 0 (`ValidBackend`): the code takes every service port, the specification
the ports numbered 0 -/
example : accessPorts exSvcPorts { intVal := 0 } true ≠
    (designated (.byNumberLenient 0) exSvcPorts).map access := by decide

/-- a service port numbered 0 (`ValidSvcPorts.port`) matches every Ingress port name -/
example : accessPorts [⟨"x", 0, none, none, .TCP⟩, ⟨"web", 80, none, none, .TCP⟩]
      { strVal := "web" } true ≠
    (designated (.byName "web") [⟨"x", 0, none, none, .TCP⟩, ⟨"web", 80, none, none, .TCP⟩]).map
      access := by decide

/-- two service ports of one name (`ValidSvcPorts.names`): first match against all matches -/
example : accessPorts [⟨"web", 80, none, none, .TCP⟩, ⟨"web", 81, none, none, .TCP⟩]
      { strVal := "web" } true ≠
    (designated (.byName "web") [⟨"web", 80, none, none, .TCP⟩, ⟨"web", 81, none, none, .TCP⟩]).map
      access := by decide

/-- an empty named targetPort (`ValidTarget`): the code falls back to the service port number,
the specification resolves the name `""` to the first unnamed container port -/
example :
    let p : Pod := { exPod with ports := [⟨"", .TCP, 9090⟩] }
    let sp : SvcPort := ⟨"web", 80, none, some "", .TCP⟩
    stepPort p (access sp) = some 80 ∧ reachedPort p sp = some 9090 := by decide

/-- Route targetPort 0 and `""` (`ValidRoute`): every service port against the first match -/
example : accessPorts exSvcPorts { intVal := 0 } true ≠
    (designated (.routeNum 0) exSvcPorts).map access := by decide

example : accessPorts exSvcPorts { strVal := "", isStr := true } true ≠
    (designated (.routeName "") exSvcPorts).map access := by decide

/-- two Service documents with one name (`SvcUnique`): the code keeps the later one, which here
selects another workload, so the workload selected by the earlier one gets no entry although the
specification gives it port 8080 -/
def otherPod : Pod := { ns := "default", name := "db-1", labels := [("app", "db")], ports := exPorts }

def dupObjs : List Obj :=
  [.svc exSvc, .svc { exSvc with selector := [("app", "db")] }, .ing exIng]

def dupOwners : List (String × Pod) := [("default/web-1[Pod]", exPod), ("default/db-1[Pod]", otherPod)]

example : ingressPorts dupObjs exPod true = [8080, 9090] ∧
    (allowedIngress dupObjs dupOwners).map (fun l => l.map (·.1)) =
      some ["default/db-1[Pod]"] := by decide

/-- the known finding: Ingress `port.number: 8080` is not a port of the Service (its port is 80,
targetPort 8080); the tool's lenient reading reaches 8080, the strict reading nothing -/
def findingIng : Ingress :=
  { ns := "default", name := "ing", default := some ⟨"web-svc", some 8080, none⟩, rules := [] }

example : ingressPorts [.svc exSvc, .ing findingIng] exPod true = [8080] ∧
    ingressPorts [.svc exSvc, .ing findingIng] exPod false = [] ∧
    (allowedIngress [.svc exSvc, .ing findingIng] exOwners).map
      (fun l => l.map fun (n, _, c) => (n, c.toStr)) =
        some [("default/web-1[Pod]", "TCP 8080")] := by decide

end Netpol.Properties.C10
