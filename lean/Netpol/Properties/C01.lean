import Netpol.Model.Engine
import Netpol.Spec.K8s
namespace Netpol.Properties.C01
open Netpol

end Netpol.Properties.C01
