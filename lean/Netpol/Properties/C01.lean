import Netpol.Model.Engine
import Netpol.Spec.K8s
import Netpol.Proofs.EngineLayer

/-! C01: what `list` reports for a pair of peers is exactly what Kubernetes NetworkPolicy
semantics allow.

The model of `allAllowedConnectionsBetweenPeers` (`Engine.peerConns`, `Netpol.Model.Engine`)
against the declarative pointwise specification `Spec.allowed` (`Netpol.Spec.K8s`). Only the
property statements are here; the proofs are in `Netpol.Proofs.EngineLayer`, on top of
`Netpol.Proofs.NPLayer` (one NetworkPolicy), `Netpol.Proofs.ANPLayer` (admin policies) and
`Netpol.Proofs.ConnSet` (connection sets).

Vocabulary.
* `Engine.toView e` — the objects of the engine as the specification sees them.
* `Engine.Valid e` — what API validation and `sortANPs` guarantee: rule ports are legal numbers,
  no rule peer is empty, admin rules have at least one peer, the BANP has no `Pass` rule, and the
  slice of ANPs is sorted by priority (`Engine.build_sorted`: `build` always establishes this).
* `KPeer.Concrete k a` — `k` is a real pod with its namespace object, or the single address `a`;
  `KPeer.toEnd k a` is then the specification's end. IP *ranges* are reduced to single addresses
  by `list_ip_range_src` / `list_ip_range_dst`.
* `KPeer.DstOK k` — a destination pod is real and its container ports are legal port numbers.
* `ConnSet.den c pr x` — port `x` of protocol `pr` is in the connection set `c`; `inRange x` is
  `1 ≤ x ≤ 65535`. -/
namespace Netpol.Properties.C01
open Netpol Engine

/-! ### the general statement -/

/-- between two different peers, the reported set is well-formed and holds exactly the
(protocol, port) pairs the specification allows -/
theorem list_exact_pair (e : Engine) (hv : e.Valid) (src dst : KPeer) (a b : Int)
    (hs : src.Concrete a) (hd : dst.Concrete b) (hdok : dst.DstOK)
    (hne : Engine.isPodToItself src dst = false) (c : ConnSet) (h : e.peerConns src dst = .ok c) :
    c.WF ∧ ∀ pr x, c.den pr x ↔ Spec.allowed e.toView (src.toEnd a) (dst.toEnd b) pr x = true :=
  (peerConns_spec e hv src dst a b hs hd hdok hne).1 c h

/-- a pod to itself: all connections, whatever the policies -/
theorem list_self (e : Engine) (src dst : KPeer) (h : Engine.isPodToItself src dst = true) :
    e.peerConns src dst = .ok (ConnSet.mk' true) :=
  peerConns_self e src dst h

/-- the only way `peerConns` fails on valid objects: a named port in an egress rule, from a pod
towards an IP block -/
theorem list_error_only_named_port_on_ip (e : Engine) (hv : e.Valid) (src dst : KPeer) (a b : Int)
    (hs : src.Concrete a) (hd : dst.Concrete b) (hdok : dst.DstOK)
    (hne : Engine.isPodToItself src dst = false) (err : Err) (h : e.peerConns src dst = .error err) :
    err = .namedPortOnIP ∧ dst.isPod = false ∧ src.isPod = true :=
  (peerConns_spec e hv src dst a b hs hd hdok hne).2 err h

/-- in particular there is no failure between two pods -/
theorem list_pods_never_fail (e : Engine) (hv : e.Valid) (src dst : KPeer) (a b : Int)
    (hs : src.Concrete a) (hd : dst.Concrete b) (hdok : dst.DstOK) (hp : dst.isPod = true)
    (hne : Engine.isPodToItself src dst = false) : ∃ c, e.peerConns src dst = .ok c := by
  cases h : e.peerConns src dst with
  | ok c => exact ⟨c, rfl⟩
  | error err =>
    have := (list_error_only_named_port_on_ip e hv src dst a b hs hd hdok hne err h).2.1
    rw [hp] at this
    cases this

/-! ### engines without admin policies: NetworkPolicy semantics alone -/

/-- one direction under NetworkPolicies only: an external address and an ungoverned pod are
unrestricted; a governed pod accepts what some rule of some governing policy allows -/
def npOnlyDir (v : Spec.View) (self other dst : Spec.End) (d : Dir) (pr : Proto) (x : Int) : Bool :=
  match self with
  | .ip _ => true
  | .pod p _ => if Spec.governs v p d then Spec.npAllows v p other dst d pr x else true

theorem allowedDir_np_only (v : Spec.View) (ha : v.anps = []) (hb : v.banp = none)
    (self other dst : Spec.End) (d : Dir) (pr : Proto) (x : Int) :
    Spec.allowedDir v self other dst d pr x = npOnlyDir v self other dst d pr x := by
  cases self with
  | ip a => rfl
  | pod p l =>
    simp only [Spec.allowedDir, npOnlyDir, Spec.anpVerdict, Spec.banpVerdict, Spec.firstMatch, ha,
      hb, List.mergeSort_nil, List.flatMap_nil, List.find?_nil, Option.map_none]
    cases Spec.governs v p d <;> rfl

/-- without admin policies validity is the validity of the NetworkPolicy rules -/
theorem valid_np_only (e : Engine) (ha : e.anps = []) (hb : e.banp = none)
    (h : ∀ np ∈ e.netpols, (∀ r ∈ np.ingress, r.Valid) ∧ (∀ r ∈ np.egress, r.Valid)) : e.Valid where
  npRules := h
  anpRules := by rw [ha]; intro a h; cases h
  banpRules := by rw [hb]; intro b h; cases h
  anpSorted := by rw [ha]; exact List.Pairwise.nil

/-- `list_exact_pair` for an engine that holds NetworkPolicies only -/
theorem list_exact_pair_np_only (e : Engine) (ha : e.anps = []) (hb : e.banp = none)
    (hv : ∀ np ∈ e.netpols, (∀ r ∈ np.ingress, r.Valid) ∧ (∀ r ∈ np.egress, r.Valid))
    (src dst : KPeer) (a b : Int)
    (hs : src.Concrete a) (hd : dst.Concrete b) (hdok : dst.DstOK)
    (hne : Engine.isPodToItself src dst = false) (c : ConnSet) (h : e.peerConns src dst = .ok c) :
    c.WF ∧ ∀ pr x, c.den pr x ↔ (inRange x ∧
      npOnlyDir e.toView (src.toEnd a) (dst.toEnd b) (dst.toEnd b) .egress pr x = true ∧
      npOnlyDir e.toView (dst.toEnd b) (src.toEnd a) (dst.toEnd b) .ingress pr x = true) := by
  obtain ⟨hw, hden⟩ := list_exact_pair e (valid_np_only e ha hb hv) src dst a b hs hd hdok hne c h
  refine ⟨hw, fun pr x => ?_⟩
  rw [hden]
  simp only [Spec.allowed, Bool.and_eq_true, Spec.inPortRange_iff,
    allowedDir_np_only e.toView ha hb, and_assoc]

/-- two ungoverned pods (no policy selects either in the relevant direction): all connections -/
theorem list_ungoverned_all (e : Engine) (ha : e.anps = []) (hb : e.banp = none)
    (hv : ∀ np ∈ e.netpols, (∀ r ∈ np.ingress, r.Valid) ∧ (∀ r ∈ np.egress, r.Valid))
    (p q : Pod) (nsp nsq : NsObj) (hp : p.isRepresentative = false)
    (hq : q.isRepresentative = false ∧ q.ValidPorts)
    (hne : Engine.isPodToItself (.pod p (some nsp)) (.pod q (some nsq)) = false)
    (hgp : Spec.governs e.toView p .egress = false) (hgq : Spec.governs e.toView q .ingress = false)
    (c : ConnSet) (h : e.peerConns (.pod p (some nsp)) (.pod q (some nsq)) = .ok c) :
    ∀ pr x, c.den pr x ↔ inRange x := by
  obtain ⟨_, hden⟩ := list_exact_pair_np_only e ha hb hv (.pod p (some nsp)) (.pod q (some nsq)) 0 0
    hp hq.1 hq hne c h
  intro pr x
  rw [hden]
  simp [npOnlyDir, KPeer.toEnd, hgp, hgq]

/-! ### IP ranges

The connlist loop queries an IP *range* `.ip [R]` of the partition `disjointIPBlocks`, on which
every `ipBlock` peer of every rule has constant membership (`Engine.UniformOn e R`). -/

/-- every address of the range has, as a source, the connectivity computed for the range -/
theorem list_ip_range_src (e : Engine) (R : Iv) (hR : R.lo ≤ R.hi) (hu : e.UniformOn R)
    (a : Int) (ha : R.mem a) (dst : KPeer) :
    e.peerConns (.ip [R]) dst = e.peerConns (.ip [⟨a, a⟩]) dst :=
  peerConns_ip_range_src e R hR hu a ha dst

/-- … and as a destination -/
theorem list_ip_range_dst (e : Engine) (R : Iv) (hR : R.lo ≤ R.hi) (hu : e.UniformOn R)
    (a : Int) (ha : R.mem a) (src : KPeer) :
    e.peerConns src (.ip [R]) = e.peerConns src (.ip [⟨a, a⟩]) :=
  peerConns_ip_range_dst e R hR hu a ha src

/-- what is reported from an IP range is exactly what the specification allows from each of its
addresses -/
theorem list_exact_ip_range_src (e : Engine) (hv : e.Valid) (R : Iv) (hR : R.lo ≤ R.hi)
    (hu : e.UniformOn R) (a : Int) (ha : R.mem a) (dst : KPeer) (b : Int) (hd : dst.Concrete b)
    (hdok : dst.DstOK) (c : ConnSet) (h : e.peerConns (.ip [R]) dst = .ok c) :
    c.WF ∧ ∀ pr x, c.den pr x ↔ Spec.allowed e.toView (.ip a) (dst.toEnd b) pr x = true := by
  rw [list_ip_range_src e R hR hu a ha dst] at h
  exact list_exact_pair e hv (.ip [⟨a, a⟩]) dst a b rfl hd hdok rfl c h

/-- what is reported towards an IP range is exactly what the specification allows towards each of
its addresses -/
theorem list_exact_ip_range_dst (e : Engine) (hv : e.Valid) (R : Iv) (hR : R.lo ≤ R.hi)
    (hu : e.UniformOn R) (b : Int) (hb : R.mem b) (src : KPeer) (a : Int) (hs : src.Concrete a)
    (c : ConnSet) (h : e.peerConns src (.ip [R]) = .ok c) :
    c.WF ∧ ∀ pr x, c.den pr x ↔ Spec.allowed e.toView (src.toEnd a) (.ip b) pr x = true := by
  rw [list_ip_range_dst e R hR hu b hb src] at h
  have hne : Engine.isPodToItself src (.ip [⟨b, b⟩]) = false := by cases src <;> rfl
  exact list_exact_pair e hv src (.ip [⟨b, b⟩]) a b hs rfl trivial hne c h

/-! ### non-vacuity: a concrete engine -/
namespace Examples
attribute [local instance] Engine.decEqExcept

def nsDefault : NsObj := ⟨"default", [("kubernetes.io/metadata.name", "default")]⟩
def web : Pod :=
  { ns := "default", name := "web", labels := [("app", "web")], ports := [⟨"http", .TCP, 8080⟩] }
def client : Pod :=
  { ns := "default", name := "client", labels := [("app", "client")], ports := [] }

/-- `10.0.0.0/8` except `10.1.0.0/16` -/
def blk : NPPeer := .ip ⟨0x0A000000, 8⟩ [⟨0x0A010000, 16⟩]

/-- selects `web`; ingress from `client` on the named port `http` and UDP 53; egress to `blk` on
TCP 443 -/
def np : NetPol :=
  { ns := "default", name := "np", podSel := ⟨[("app", "web")], []⟩, types := [],
    ingress := [⟨[.sel (some ⟨[("app", "client")], []⟩) none],
      [⟨none, .name "http"⟩, ⟨some .UDP, .num 53 none⟩]⟩],
    egress := [⟨[blk], [⟨none, .num 443 none⟩]⟩] }

def eng : Engine := { namespaces := [nsDefault], pods := [web, client], netpols := [np] }

def kweb : KPeer := .pod web (some nsDefault)
def kclient : KPeer := .pod client (some nsDefault)
/-- 10.0.0.1, and 10.1.0.1 (inside the except) -/
def ipIn : Int := 167772161
def ipExcept : Int := 167837697

/-! the hypotheses hold -/
example : eng.Valid := by decide
example : eng.anps = [] ∧ eng.banp = none := ⟨rfl, rfl⟩
example : kweb.Concrete 0 ∧ kclient.Concrete 0 ∧ kweb.DstOK ∧ kclient.DstOK ∧
    (KPeer.ip [⟨ipIn, ipIn⟩]).Concrete ipIn ∧ (KPeer.ip [⟨ipIn, ipIn⟩]).DstOK := by decide
example : Engine.isPodToItself kclient kweb = false ∧ Engine.isPodToItself kweb kweb = true := by
  decide
/-- validity is not trivially true -/
example : ¬ ({ eng with netpols := [{ np with ingress := [⟨[.sel none none], []⟩] }] } : Engine).Valid := by
  decide

/-! the model's answers -/
example : eng.peerConns kclient kweb =
    .ok ⟨false, some ⟨[⟨8080, 8080⟩], [], []⟩, some ⟨[⟨53, 53⟩], [], []⟩, none⟩ := by decide
/-- `web` may only send to `blk`, so nothing reaches `client` -/
example : eng.peerConns kweb kclient = .ok (ConnSet.mk' false) := by decide
example : eng.peerConns kweb (.ip [⟨ipIn, ipIn⟩]) =
    .ok ⟨false, some ⟨[⟨443, 443⟩], [], []⟩, none, none⟩ := by decide
example : eng.peerConns kweb (.ip [⟨ipExcept, ipExcept⟩]) = .ok (ConnSet.mk' false) := by decide
/-- `client` is not governed; an external address is never restricted -/
example : eng.peerConns kclient (.ip [⟨ipIn, ipIn⟩]) = .ok (ConnSet.mk' true) := by decide
example : eng.peerConns kweb kweb = .ok (ConnSet.mk' true) := by decide
/-- a named port in an egress rule towards an IP block: the one failure -/
example : ({ eng with netpols := [{ np with egress := [⟨[blk], [⟨none, .name "dns"⟩]⟩] }] } : Engine).peerConns
    kweb (.ip [⟨ipIn, ipIn⟩]) = .error .namedPortOnIP := by decide

/-! the specification's answers on the same pairs (`Spec.anpVerdict` sorts with `mergeSort`, which
`decide` does not unfold; `Engine.anpVerdict_sorted` removes it on the engine's sorted list) -/
example :
    Spec.allowed eng.toView (kclient.toEnd 0) (kweb.toEnd 0) .TCP 8080 = true ∧
    Spec.allowed eng.toView (kclient.toEnd 0) (kweb.toEnd 0) .TCP 8081 = false ∧
    Spec.allowed eng.toView (kclient.toEnd 0) (kweb.toEnd 0) .UDP 53 = true ∧
    Spec.allowed eng.toView (kweb.toEnd 0) (kclient.toEnd 0) .TCP 8080 = false ∧
    Spec.allowed eng.toView (kweb.toEnd 0) (.ip ipIn) .TCP 443 = true ∧
    Spec.allowed eng.toView (kweb.toEnd 0) (.ip ipExcept) .TCP 443 = false ∧
    Spec.allowed eng.toView (kclient.toEnd 0) (.ip ipIn) .SCTP 7 = true ∧
    Spec.allowed eng.toView (kclient.toEnd 0) (.ip ipIn) .SCTP 0 = false := by
  simp only [Spec.allowed, Spec.allowedDir_eq, Engine.anpVerdict_sorted eng (by decide)]
  decide

/-- the theorem at work: facts about the model's result obtained from the specification alone -/
example : ∃ c, eng.peerConns kclient kweb = .ok c ∧ c.WF ∧ c.den .TCP 8080 ∧ ¬ c.den .TCP 8081 := by
  obtain ⟨c, hc⟩ := list_pods_never_fail eng (by decide) kclient kweb 0 0 (by decide) (by decide)
    (by decide) rfl (by decide)
  obtain ⟨hw, hden⟩ := list_exact_pair eng (by decide) kclient kweb 0 0 (by decide) (by decide)
    (by decide) (by decide) c hc
  refine ⟨c, hc, hw, (hden _ _).mpr ?_, fun h => ?_⟩
  · simp only [Spec.allowed, Spec.allowedDir_eq, Engine.anpVerdict_sorted eng (by decide)]
    decide
  · have := (hden _ _).mp h
    revert this
    simp only [Spec.allowed, Spec.allowedDir_eq, Engine.anpVerdict_sorted eng (by decide)]
    decide

/-! IP ranges: `10.0.0.0 – 10.0.255.255` is uniform for the engine; `10.0.0.0 – 10.1.0.0` is not,
and the model tells them apart -/
example : eng.UniformOn ⟨167772160, 167837695⟩ := by
  intro p hp
  have : p = np := by simpa [eng] using hp
  subst this
  constructor
  · intro r hr rp hrp c ex hc
    have hr' : r = ⟨[.sel (some ⟨[("app", "client")], []⟩) none],
        [⟨none, .name "http"⟩, ⟨some .UDP, .num 53 none⟩]⟩ := by simpa [np] using hr
    subst hr'
    have : rp = .sel (some ⟨[("app", "client")], []⟩) none := by simpa using hrp
    subst this
    cases hc
  · intro r hr rp hrp c ex hc a b ha hb
    have hr' : r = ⟨[blk], [⟨none, .num 443 none⟩]⟩ := by simpa [np] using hr
    subst hr'
    have : rp = blk := by simpa using hrp
    subst this
    cases hc
    rw [NetPol.memL_ipBlockSet, NetPol.memL_ipBlockSet]
    have e1 : (⟨0x0A000000, 8⟩ : Cidr).toIv = ⟨167772160, 184549375⟩ := by decide
    have e2 : (⟨0x0A010000, 16⟩ : Cidr).toIv = ⟨167837696, 167903231⟩ := by decide
    simp only [List.mem_singleton, forall_eq, e1, e2, Iv.mem] at ha hb ⊢
    omega
example : eng.peerConns kweb (.ip [⟨167772160, 167837695⟩]) =
      .ok ⟨false, some ⟨[⟨443, 443⟩], [], []⟩, none, none⟩ ∧
    eng.peerConns kweb (.ip [⟨167772160, 167837696⟩]) = .ok (ConnSet.mk' false) := by decide

end Examples

end Netpol.Properties.C01
