import Netpol.Model.Engine
import Netpol.Model.Diff
import Netpol.Model.Sort
namespace Netpol.Properties.C14
open Netpol

end Netpol.Properties.C14
