import Netpol.Proofs.SpecLaws

/-! C14: NetworkPolicies are additive and local, and equivalent spellings agree — proved on the
pointwise specification `Netpol.Spec.allowed` (`Netpol/Spec/K8s.lean`). The last section holds
the order-independence part of C08 (`perm_…`), also on the specification.

Vocabulary (defined in `Netpol.Proofs.SpecLaws`): `Spec.NPOnly v` = the view has no
AdminNetworkPolicy and no BaselineAdminNetworkPolicy; `np.setRules d rs` = the policy `np` with the
rule list of direction `d` replaced by `rs` (`np.setRules .ingress rs = { np with ingress := rs }`
by `rfl`, same for egress); `Spec.selectsEnd q e d` = `e` is a pod selected by `q` in direction
`d` (false for an external address); `Spec.allowedNP` = `Spec.allowed` without the admin layers
(equal to it on `NPOnly` views, and evaluable by `decide`); `c.halves` = the two half-blocks of
a CIDR. An edited view is always written `{ v with netpols := … }` next to a hypothesis
`v.netpols = …` that locates the edit. -/
namespace Netpol.Properties.C14
open Netpol Netpol.Spec

/-! ## A. additivity, monotonicity, locality (views without admin policies) -/

/-- A1. Adding a rule to a policy, in a direction the policy already affects, can only allow
more. `np.setRules dr (rs1 ++ r :: rs2)` is `np` with `r` inserted anywhere in direction `dr`. -/
theorem add_rule_monotone {v : View} (hv : NPOnly v) {pre post : List NetPol} {np : NetPol}
    (hnp : v.netpols = pre ++ np :: post) {dr : Dir} {rs1 rs2 : List NPRule} (r : NPRule)
    (hrs : npRules np dr = rs1 ++ rs2)
    (haff : ∀ d, npAffects (np.setRules dr (rs1 ++ r :: rs2)) d = npAffects np d)
    (src dst : End) (pr : Proto) (p : Int) :
    allowed v src dst pr p = true →
      allowed { v with netpols := pre ++ np.setRules dr (rs1 ++ r :: rs2) :: post }
        src dst pr p = true := by
  have hsub : ∀ d, ∀ x ∈ npRules np d, x ∈ npRules (np.setRules dr (rs1 ++ r :: rs2)) d := by
    intro d x hx
    by_cases hd : d = dr
    · subst hd
      rw [hrs] at hx
      simp only [npRules_setRules_same, List.mem_append, List.mem_cons] at hx ⊢
      rcases hx with h | h
      · exact Or.inl h
      · exact Or.inr (Or.inr h)
    · rw [npRules_setRules_ne np _ hd]; exact hx
  exact allowed_replace_np_mono hv hnp
    (npSelects_congr (by simp) (by simp) haff)
    (npContrib_mono_of_subset (by simp) (by simp) haff hsub) src dst pr p

/-- the hypothesis `haff` of `add_rule_monotone` always holds for an ingress rule -/
theorem add_ingress_rule_affects (np : NetPol) (rs : List NPRule) (d : Dir) :
    npAffects (np.setRules .ingress rs) d = npAffects np d :=
  npAffects_setRules_ingress np rs d

/-- the hypothesis `haff` of `add_rule_monotone` holds for an egress rule when `policyTypes` is
explicit or the policy already has an egress rule -/
theorem add_egress_rule_affects (np : NetPol) (h : np.types ≠ [] ∨ np.egress ≠ [])
    (rs1 rs2 : List NPRule) (r : NPRule) (d : Dir) :
    npAffects (np.setRules .egress (rs1 ++ r :: rs2)) d = npAffects np d := by
  apply npAffects_setRules_egress
  rcases h with h | h
  · exact Or.inl h
  · right
    cases he : np.egress with
    | nil => exact absurd he h
    | cons a l => simp [isEmpty_append']

/-- A1, ingress: no side condition -/
theorem add_ingress_rule_monotone {v : View} (hv : NPOnly v) {pre post : List NetPol}
    {np : NetPol} (hnp : v.netpols = pre ++ np :: post) {rs1 rs2 : List NPRule} (r : NPRule)
    (hrs : np.ingress = rs1 ++ rs2) (src dst : End) (pr : Proto) (p : Int) :
    allowed v src dst pr p = true →
      allowed { v with netpols := pre ++ { np with ingress := rs1 ++ r :: rs2 } :: post }
        src dst pr p = true :=
  add_rule_monotone hv hnp (dr := .ingress) r hrs (add_ingress_rule_affects np _) src dst pr p

/-- A1, egress: `policyTypes` explicit, or an egress rule is already there -/
theorem add_egress_rule_monotone {v : View} (hv : NPOnly v) {pre post : List NetPol}
    {np : NetPol} (hnp : v.netpols = pre ++ np :: post) (h : np.types ≠ [] ∨ np.egress ≠ [])
    {rs1 rs2 : List NPRule} (r : NPRule)
    (hrs : np.egress = rs1 ++ rs2) (src dst : End) (pr : Proto) (p : Int) :
    allowed v src dst pr p = true →
      allowed { v with netpols := pre ++ { np with egress := rs1 ++ r :: rs2 } :: post }
        src dst pr p = true :=
  add_rule_monotone hv hnp (dr := .egress) r hrs (add_egress_rule_affects np h _ _ r) src dst pr p

/-- A2 (local form). Adding a policy `q` anywhere: if the source, when `q` selects it for egress,
was already governed for egress, and the destination, when `q` selects it for ingress, was
already governed for ingress, then nothing allowed is lost. -/
theorem add_policy_governed_monotone_local {v : View} (hv : NPOnly v) {pre post : List NetPol}
    (hnp : v.netpols = pre ++ post) (q : NetPol) (src dst : End) (pr : Proto) (p : Int)
    (hsrc : ∀ pod nsl, src = .pod pod nsl → npSelects q pod .egress = true →
      governs v pod .egress = true)
    (hdst : ∀ pod nsl, dst = .pod pod nsl → npSelects q pod .ingress = true →
      governs v pod .ingress = true) :
    allowed v src dst pr p = true →
      allowed { v with netpols := pre ++ q :: post } src dst pr p = true := by
  refine allowed_mono_of_dir hv (hv.withNetpols _) (allowedDirNP_mono ?_ ?_)
    (allowedDirNP_mono ?_ ?_)
  · intro pod nsl h
    rw [governs_insert hnp]
    have := hsrc pod nsl h
    revert this
    cases governs v pod .egress <;> cases npSelects q pod .egress <;> simp
  · intro pod nsl _ h
    rw [npAllows_insert hnp, h, Bool.true_or]
  · intro pod nsl h
    rw [governs_insert hnp]
    have := hdst pod nsl h
    revert this
    cases governs v pod .ingress <;> cases npSelects q pod .ingress <;> simp
  · intro pod nsl _ h
    rw [npAllows_insert hnp, h, Bool.true_or]

/-- A2. Adding a policy that only selects pods already governed (in the direction in which it
selects them) can only allow more. The hypothesis ranges over all pods; see
`add_policy_governed_monotone_local` for the version that looks at the two ends only. -/
theorem add_policy_governed_monotone {v : View} (hv : NPOnly v) {pre post : List NetPol}
    (hnp : v.netpols = pre ++ post) (q : NetPol)
    (hq : ∀ pod d, npSelects q pod d = true → governs v pod d = true)
    (src dst : End) (pr : Proto) (p : Int) :
    allowed v src dst pr p = true →
      allowed { v with netpols := pre ++ q :: post } src dst pr p = true :=
  add_policy_governed_monotone_local hv hnp q src dst pr p
    (fun pod _ _ => hq pod .egress) (fun pod _ _ => hq pod .ingress)

/-- A3 (local form). Adding a policy `q` anywhere: if the source, when `q` selects it for egress,
was not governed for egress, and likewise the destination for ingress, then nothing becomes
allowed that was not. -/
theorem add_policy_ungoverned_antitone_local {v : View} (hv : NPOnly v) {pre post : List NetPol}
    (hnp : v.netpols = pre ++ post) (q : NetPol) (src dst : End) (pr : Proto) (p : Int)
    (hsrc : ∀ pod nsl, src = .pod pod nsl → npSelects q pod .egress = true →
      governs v pod .egress = false)
    (hdst : ∀ pod nsl, dst = .pod pod nsl → npSelects q pod .ingress = true →
      governs v pod .ingress = false) :
    allowed { v with netpols := pre ++ q :: post } src dst pr p = true →
      allowed v src dst pr p = true := by
  have key : ∀ (self other : End) (d : Dir),
      (∀ pod nsl, self = .pod pod nsl → npSelects q pod d = true → governs v pod d = false) →
      allowedDirNP { v with netpols := pre ++ q :: post } self other dst d pr p = true →
      allowedDirNP v self other dst d pr p = true := by
    intro self other d h
    cases self with
    | ip a => intro _; rfl
    | pod pod nsl =>
      have h := h pod nsl rfl
      simp only [allowedDirNP, governs_insert hnp, npAllows_insert hnp]
      cases hs : npSelects q pod d
      · rw [npContrib_of_not_selects hs]; simp
      · rw [h hs]; simp
  exact allowed_mono_of_dir (hv.withNetpols _) hv (key src dst .egress hsrc)
    (key dst src .ingress hdst)

/-- A3. Adding a policy that only selects pods not governed so far (in the direction in which it
selects them) can only allow less. -/
theorem add_policy_ungoverned_antitone {v : View} (hv : NPOnly v) {pre post : List NetPol}
    (hnp : v.netpols = pre ++ post) (q : NetPol)
    (hq : ∀ pod d, npSelects q pod d = true → governs v pod d = false)
    (src dst : End) (pr : Proto) (p : Int) :
    allowed { v with netpols := pre ++ q :: post } src dst pr p = true →
      allowed v src dst pr p = true :=
  add_policy_ungoverned_antitone_local hv hnp q src dst pr p
    (fun pod _ _ => hq pod .egress) (fun pod _ _ => hq pod .ingress)

/-- A4 (general form). Replacing a policy that selects neither the source for egress nor the
destination for ingress by another such policy does not change the verdict for this pair — in
any view, admin policies included. -/
theorem locality_replace (v : View) {pre post : List NetPol} {np np' : NetPol}
    (hnp : v.netpols = pre ++ np :: post) (src dst : End)
    (hsrc : selectsEnd np src .egress = false) (hdst : selectsEnd np dst .ingress = false)
    (hsrc' : selectsEnd np' src .egress = false) (hdst' : selectsEnd np' dst .ingress = false)
    (pr : Proto) (p : Int) :
    allowed { v with netpols := pre ++ np' :: post } src dst pr p = allowed v src dst pr p := by
  have key : ∀ (self other : End) (d : Dir), selectsEnd np self d = false →
      selectsEnd np' self d = false →
      allowedDir { v with netpols := pre ++ np' :: post } self other dst d pr p =
        allowedDir v self other dst d pr p := by
    intro self other d h h'
    refine allowedDir_congr (v := v) (v' := { v with netpols := pre ++ np' :: post }) rfl rfl ?_ ?_
    · rintro pod nsl rfl
      simp only [selectsEnd] at h h'
      simp only [governs_eq_any, hnp, List.any_append, List.any_cons, h, h']
    · rintro pod nsl rfl
      simp only [selectsEnd] at h h'
      simp only [npAllows_eq_any, hnp, List.any_append, List.any_cons,
        npContrib_of_not_selects h, npContrib_of_not_selects h']
  simp only [allowed, key src dst .egress hsrc hsrc', key dst src .ingress hdst hdst']

/-- A4. A new policy that selects neither the source for egress nor the destination for ingress
(void for an external address) does not change the verdict for this pair — in any view. -/
theorem locality (v : View) {pre post : List NetPol} (hnp : v.netpols = pre ++ post) (q : NetPol)
    (src dst : End) (hsrc : selectsEnd q src .egress = false)
    (hdst : selectsEnd q dst .ingress = false) (pr : Proto) (p : Int) :
    allowed { v with netpols := pre ++ q :: post } src dst pr p = allowed v src dst pr p := by
  have key : ∀ (self other : End) (d : Dir), selectsEnd q self d = false →
      allowedDir { v with netpols := pre ++ q :: post } self other dst d pr p =
        allowedDir v self other dst d pr p := by
    intro self other d h
    refine allowedDir_congr (v := v) (v' := { v with netpols := pre ++ q :: post }) rfl rfl ?_ ?_
    · rintro pod nsl rfl
      simp only [selectsEnd] at h
      rw [governs_insert hnp, h, Bool.or_false]
    · rintro pod nsl rfl
      simp only [selectsEnd] at h
      rw [npAllows_insert hnp, npContrib_of_not_selects h, Bool.or_false]
  simp only [allowed, key src dst .egress hsrc, key dst src .ingress hdst]

/-- A4 for an added rule: if the policy (which keeps its affected directions, as in
`add_rule_monotone`) selects neither the source for egress nor the destination for ingress, the
verdict for this pair is unchanged — in any view. -/
theorem locality_rule (v : View) {pre post : List NetPol} {np : NetPol}
    (hnp : v.netpols = pre ++ np :: post) {dr : Dir} (rs : List NPRule)
    (haff : ∀ d, npAffects (np.setRules dr rs) d = npAffects np d)
    (src dst : End) (hsrc : selectsEnd np src .egress = false)
    (hdst : selectsEnd np dst .ingress = false) (pr : Proto) (p : Int) :
    allowed { v with netpols := pre ++ np.setRules dr rs :: post } src dst pr p =
      allowed v src dst pr p := by
  have hsel : ∀ e d, selectsEnd (np.setRules dr rs) e d = selectsEnd np e d := by
    intro e d
    cases e with
    | ip a => rfl
    | pod pod nsl => exact npSelects_congr (by simp) (by simp) haff pod d
  exact locality_replace v hnp src dst hsrc hdst (by rw [hsel, hsrc]) (by rw [hsel, hdst]) pr p

/-! ## B. equivalent spellings (any view, admin policies included) -/

/-- B5. A `matchLabels` pair is the `matchExpressions` requirement `key In [value]`. -/
theorem matchLabels_eq_In (ml : Labels) (ex : List Req) (k val : String) (l : Labels) :
    Selector.matches ⟨ml ++ [(k, val)], ex⟩ l =
      Selector.matches ⟨ml, ex ++ [⟨k, .In, [val]⟩]⟩ l := by
  have := matchLabels_eq_In_mid ml [] ex [] k val l
  simpa using this

/-- B5, the pair and the requirement anywhere in their lists. -/
theorem matchLabels_eq_In_anywhere (ml1 ml2 : Labels) (ex1 ex2 : List Req) (k val : String)
    (l : Labels) :
    Selector.matches ⟨ml1 ++ (k, val) :: ml2, ex1 ++ ex2⟩ l =
      Selector.matches ⟨ml1 ++ ml2, ex1 ++ ⟨k, .In, [val]⟩ :: ex2⟩ l :=
  matchLabels_eq_In_mid ml1 ml2 ex1 ex2 k val l

/-- lifting to `allowed`: an equivalent pod selector of a policy -/
theorem podSel_congr_allowed (v : View) {pre post : List NetPol} {np : NetPol}
    (hnp : v.netpols = pre ++ np :: post) (sel' : Selector)
    (h : ∀ l, sel'.matches l = np.podSel.matches l) :
    allowed { v with netpols := pre ++ { np with podSel := sel' } :: post } = allowed v :=
  allowed_replace_np_of_rules v hnp rfl h (fun _ => rfl) (fun d _ _ _ _ => by cases d <;> rfl)

/-- lifting to `allowed`: one peer of one rule replaced by a peer matching the same ends -/
theorem peer_congr_allowed (v : View) {pre post : List NetPol} {np : NetPol}
    (hnp : v.netpols = pre ++ np :: post) {dr : Dir} {rs1 rs2 : List NPRule}
    {ps1 ps2 : List NPPeer} {pe pe' : NPPeer} {ports : List NPPort}
    (hrs : npRules np dr = rs1 ++ ⟨ps1 ++ pe :: ps2, ports⟩ :: rs2)
    (h : ∀ other, npPeerMatches np pe' other = npPeerMatches np pe other) :
    allowed { v with netpols :=
      pre ++ np.setRules dr (rs1 ++ ⟨ps1 ++ pe' :: ps2, ports⟩ :: rs2) :: post } = allowed v := by
  have := allowed_replace_peers v hnp (dr := dr) (rs1 := rs1) (rs2 := rs2) (ps1 := ps1)
    (mid := [pe]) (mid' := [pe']) (ps2 := ps2) (ports := ports) (by simpa using hrs) rfl
    (by simpa using h)
  simpa using this

/-- B5 on the pod selector of a policy -/
theorem matchLabels_eq_In_podSel_allowed (v : View) {pre post : List NetPol} {np : NetPol}
    (hnp : v.netpols = pre ++ np :: post) {ml1 ml2 : Labels} {ex1 ex2 : List Req} {k val : String}
    (hsel : np.podSel = ⟨ml1 ++ (k, val) :: ml2, ex1 ++ ex2⟩) :
    allowed { v with netpols :=
      pre ++ { np with podSel := ⟨ml1 ++ ml2, ex1 ++ ⟨k, .In, [val]⟩ :: ex2⟩ } :: post } =
      allowed v :=
  podSel_congr_allowed v hnp _ (fun l => by rw [hsel, matchLabels_eq_In_mid])

/-- B5 on the pod selector of a rule peer -/
theorem matchLabels_eq_In_peerPodSel_allowed (v : View) {pre post : List NetPol} {np : NetPol}
    (hnp : v.netpols = pre ++ np :: post) {dr : Dir} {rs1 rs2 : List NPRule}
    {ps1 ps2 : List NPPeer} {nsSel : Option Selector} {ports : List NPPort}
    {ml1 ml2 : Labels} {ex1 ex2 : List Req} {k val : String}
    (hrs : npRules np dr = rs1 ++
      ⟨ps1 ++ .sel (some ⟨ml1 ++ (k, val) :: ml2, ex1 ++ ex2⟩) nsSel :: ps2, ports⟩ :: rs2) :
    allowed { v with netpols := pre ++ np.setRules dr (rs1 ++
      ⟨ps1 ++ .sel (some ⟨ml1 ++ ml2, ex1 ++ ⟨k, .In, [val]⟩ :: ex2⟩) nsSel :: ps2, ports⟩ :: rs2)
        :: post } = allowed v :=
  peer_congr_allowed v hnp hrs
    (npPeerMatches_podSel_congr np nsSel (fun l => (matchLabels_eq_In_mid ml1 ml2 ex1 ex2 k val l).symm))

/-- B5 on the namespace selector of a rule peer -/
theorem matchLabels_eq_In_peerNsSel_allowed (v : View) {pre post : List NetPol} {np : NetPol}
    (hnp : v.netpols = pre ++ np :: post) {dr : Dir} {rs1 rs2 : List NPRule}
    {ps1 ps2 : List NPPeer} {podSel : Option Selector} {ports : List NPPort}
    {ml1 ml2 : Labels} {ex1 ex2 : List Req} {k val : String}
    (hrs : npRules np dr = rs1 ++
      ⟨ps1 ++ .sel podSel (some ⟨ml1 ++ (k, val) :: ml2, ex1 ++ ex2⟩) :: ps2, ports⟩ :: rs2) :
    allowed { v with netpols := pre ++ np.setRules dr (rs1 ++
      ⟨ps1 ++ .sel podSel (some ⟨ml1 ++ ml2, ex1 ++ ⟨k, .In, [val]⟩ :: ex2⟩) :: ps2, ports⟩ :: rs2)
        :: post } = allowed v :=
  peer_congr_allowed v hnp hrs
    (npPeerMatches_nsSel_congr np podSel (fun l => (matchLabels_eq_In_mid ml1 ml2 ex1 ex2 k val l).symm))

/-- B6. A port range is the union of two adjacent ranges. -/
theorem port_range_split (pr' : Option Proto) (a m b : Int) (hm : a ≤ m ∧ m < b)
    (dst : End) (pr : Proto) (p : Int) :
    npPortMatches ⟨pr', .num a (some b)⟩ dst pr p =
      (npPortMatches ⟨pr', .num a (some m)⟩ dst pr p ||
        npPortMatches ⟨pr', .num (m + 1) (some b)⟩ dst pr p) :=
  npPortMatches_range_split pr' a m b hm dst pr p

/-- B6 on a rule: the range replaced by the two adjacent ranges allows the same points. -/
theorem port_range_split_rule (np : NetPol) (peers : List NPPeer) (qs1 qs2 : List NPPort)
    (pr' : Option Proto) (a m b : Int) (hm : a ≤ m ∧ m < b) (other dst : End) (pr : Proto)
    (p : Int) :
    npRuleAllows np ⟨peers, qs1 ++ [⟨pr', .num a (some m)⟩, ⟨pr', .num (m + 1) (some b)⟩] ++ qs2⟩
        other dst pr p =
      npRuleAllows np ⟨peers, qs1 ++ [⟨pr', .num a (some b)⟩] ++ qs2⟩ other dst pr p :=
  npRuleAllows_replace_ports np (mid := [⟨pr', .num a (some b)⟩])
    (mid' := [⟨pr', .num a (some m)⟩, ⟨pr', .num (m + 1) (some b)⟩]) rfl
    (by simp only [List.any_cons, List.any_nil, Bool.or_false, port_range_split pr' a m b hm]) other

/-- B6 lifted to `allowed`. -/
theorem port_range_split_allowed (v : View) {pre post : List NetPol} {np : NetPol}
    (hnp : v.netpols = pre ++ np :: post) {dr : Dir} {rs1 rs2 : List NPRule}
    {peers : List NPPeer} {qs1 qs2 : List NPPort} {pr' : Option Proto} {a m b : Int}
    (hm : a ≤ m ∧ m < b)
    (hrs : npRules np dr = rs1 ++ ⟨peers, qs1 ++ ⟨pr', .num a (some b)⟩ :: qs2⟩ :: rs2) :
    allowed { v with netpols := pre ++ np.setRules dr (rs1 ++
      ⟨peers, qs1 ++ ⟨pr', .num a (some m)⟩ :: ⟨pr', .num (m + 1) (some b)⟩ :: qs2⟩ :: rs2)
        :: post } = allowed v := by
  have := allowed_replace_ports v hnp (dr := dr) (rs1 := rs1) (rs2 := rs2) (peers := peers)
    (qs1 := qs1) (mid := [⟨pr', .num a (some b)⟩])
    (mid' := [⟨pr', .num a (some m)⟩, ⟨pr', .num (m + 1) (some b)⟩]) (qs2 := qs2)
    (by simpa using hrs) rfl
    (fun dst pr p => by
      simp only [List.any_cons, List.any_nil, Bool.or_false, port_range_split pr' a m b hm])
  simpa using this

/-- B7. A CIDR block is the union of its two halves. -/
theorem cidr_halves (c : Cidr) (h : c.pfx < 32) (a : Int) :
    cidrMem c a = (cidrMem c.halves.1 a || cidrMem c.halves.2 a) :=
  cidrMem_halves c h a

/-- B7 on a peer: the two half-blocks, with the same exceptions, match the same ends. -/
theorem cidr_halves_peer (np : NetPol) (c : Cidr) (h : c.pfx < 32) (ex : List Cidr)
    (other : End) :
    (npPeerMatches np (.ip c.halves.1 ex) other || npPeerMatches np (.ip c.halves.2 ex) other) =
      npPeerMatches np (.ip c ex) other := by
  have := npPeerMatches_cidr_halves np c h ex other
  simpa using this

/-- B7 on a rule. -/
theorem cidr_halves_rule (np : NetPol) (ps1 ps2 : List NPPeer) (ports : List NPPort) (c : Cidr)
    (h : c.pfx < 32) (ex : List Cidr) (other dst : End) (pr : Proto) (p : Int) :
    npRuleAllows np ⟨ps1 ++ [.ip c.halves.1 ex, .ip c.halves.2 ex] ++ ps2, ports⟩ other dst pr p =
      npRuleAllows np ⟨ps1 ++ [.ip c ex] ++ ps2, ports⟩ other dst pr p :=
  npRuleAllows_replace_peers np (mid := [.ip c ex])
    (mid' := [.ip c.halves.1 ex, .ip c.halves.2 ex]) rfl
    (npPeerMatches_cidr_halves np c h ex other) dst pr p

/-- B7 lifted to `allowed`. -/
theorem cidr_halves_allowed (v : View) {pre post : List NetPol} {np : NetPol}
    (hnp : v.netpols = pre ++ np :: post) {dr : Dir} {rs1 rs2 : List NPRule}
    {ps1 ps2 : List NPPeer} {ports : List NPPort} {c : Cidr} (h : c.pfx < 32) {ex : List Cidr}
    (hrs : npRules np dr = rs1 ++ ⟨ps1 ++ .ip c ex :: ps2, ports⟩ :: rs2) :
    allowed { v with netpols := pre ++ np.setRules dr (rs1 ++
      ⟨ps1 ++ .ip c.halves.1 ex :: .ip c.halves.2 ex :: ps2, ports⟩ :: rs2) :: post } =
      allowed v := by
  have := allowed_replace_peers v hnp (dr := dr) (rs1 := rs1) (rs2 := rs2) (ps1 := ps1)
    (mid := [.ip c ex]) (mid' := [.ip c.halves.1 ex, .ip c.halves.2 ex]) (ps2 := ps2)
    (ports := ports) (by simpa using hrs) rfl (npPeerMatches_cidr_halves np c h ex)
  simpa using this

/-- B8. Splitting a policy in two (same namespace, pod selector and `policyTypes`; the rules of
each direction distributed over the two parts in any order; names are irrelevant) changes
nothing. No side condition on the affected directions is needed: with defaulted `policyTypes` a
part without egress rules does not affect egress, but then it has no egress rule to contribute,
and the pair governs egress exactly when the original did. -/
theorem policy_split (v : View) {pre post : List NetPol} {np np1 np2 : NetPol}
    (hnp : v.netpols = pre ++ np :: post)
    (hns1 : np1.ns = np.ns) (hns2 : np2.ns = np.ns)
    (hsel1 : np1.podSel = np.podSel) (hsel2 : np2.podSel = np.podSel)
    (hty1 : np1.types = np.types) (hty2 : np2.types = np.types)
    (hin : np.ingress.Perm (np1.ingress ++ np2.ingress))
    (heg : np.egress.Perm (np1.egress ++ np2.egress)) :
    allowed { v with netpols := pre ++ np1 :: np2 :: post } = allowed v := by
  obtain ⟨hs, hc⟩ := policy_split_segment hns1 hns2 hsel1 hsel2 hty1 hty2
    (fun d => by cases d <;> assumption)
  have := allowed_replace_segment v (pre := pre) (mid := [np]) (mid' := [np1, np2]) (post := post)
    (by simpa using hnp) hs hc
  simpa using this

/-- B8, the two facts behind it: the pair governs what the original governed … -/
theorem policy_split_governs {np np1 np2 : NetPol}
    (hns1 : np1.ns = np.ns) (hns2 : np2.ns = np.ns)
    (hsel1 : np1.podSel = np.podSel) (hsel2 : np2.podSel = np.podSel)
    (hty1 : np1.types = np.types) (hty2 : np2.types = np.types)
    (hin : np.ingress.Perm (np1.ingress ++ np2.ingress))
    (heg : np.egress.Perm (np1.egress ++ np2.egress)) (pod : Pod) (d : Dir) :
    (npSelects np1 pod d || npSelects np2 pod d) = npSelects np pod d := by
  have := (policy_split_segment hns1 hns2 hsel1 hsel2 hty1 hty2
    (fun d => by cases d <;> assumption)).1 pod d
  simpa using this

/-- … and contributes what the original contributed. -/
theorem policy_split_contrib {np np1 np2 : NetPol}
    (hns1 : np1.ns = np.ns) (hns2 : np2.ns = np.ns)
    (hsel1 : np1.podSel = np.podSel) (hsel2 : np2.podSel = np.podSel)
    (hty1 : np1.types = np.types) (hty2 : np2.types = np.types)
    (hin : np.ingress.Perm (np1.ingress ++ np2.ingress))
    (heg : np.egress.Perm (np1.egress ++ np2.egress))
    (pod : Pod) (other dst : End) (d : Dir) (pr : Proto) (p : Int) :
    (npContrib np1 pod other dst d pr p || npContrib np2 pod other dst d pr p) =
      npContrib np pod other dst d pr p := by
  have := (policy_split_segment hns1 hns2 hsel1 hsel2 hty1 hty2
    (fun d => by cases d <;> assumption)).2 pod other dst d pr p
  simpa using this

/-- B9. Writing out the defaulted `policyTypes` changes nothing: the affected directions … -/
theorem policyTypes_explicit_eq_default (np : NetPol) (h : np.types = []) (d : Dir) :
    npAffects { np with types := [.ingress] ++ (if np.egress.isEmpty then [] else [.egress]) } d =
      npAffects np d :=
  npAffects_explicit_default np h d

/-- … and hence `allowed`. -/
theorem policyTypes_explicit_eq_default_allowed (v : View) {pre post : List NetPol} {np : NetPol}
    (hnp : v.netpols = pre ++ np :: post) (h : np.types = []) :
    allowed { v with netpols := pre ++
      { np with types := [.ingress] ++ (if np.egress.isEmpty then [] else [.egress]) } :: post } =
      allowed v :=
  allowed_replace_np_of_rules v hnp rfl (fun _ => rfl) (policyTypes_explicit_eq_default np h)
    (fun d _ _ _ _ => by cases d <;> rfl)

/-! ## C. order independence on the specification (C08) -/

/-- the order of the NetworkPolicies is irrelevant -/
theorem perm_netpols (v : View) {l : List NetPol} (h : v.netpols.Perm l) :
    allowed { v with netpols := l } = allowed v := by
  refine allowed_congr (v := v) (v' := { v with netpols := l }) rfl rfl ?_ ?_
  · intro pod d
    simp only [governs_eq_any, h.any_eq]
  · intro pod other dst d pr p
    simp only [npAllows_eq_any, h.any_eq]

/-- the order of the rules of a policy is irrelevant -/
theorem perm_rules (v : View) {pre post : List NetPol} {np : NetPol}
    (hnp : v.netpols = pre ++ np :: post) {rsI rsE : List NPRule}
    (hin : np.ingress.Perm rsI) (heg : np.egress.Perm rsE) :
    allowed { v with netpols := pre ++ { np with ingress := rsI, egress := rsE } :: post } =
      allowed v := by
  refine allowed_replace_np_of_rules v hnp rfl (fun _ => rfl) ?_ ?_
  · intro d
    simp only [npAffects, heg.isEmpty_eq]
  · intro d other dst pr p
    cases d
    · exact hin.symm.any_eq
    · exact heg.symm.any_eq

/-- the order of the peers of a rule is irrelevant -/
theorem perm_peers (v : View) {pre post : List NetPol} {np : NetPol}
    (hnp : v.netpols = pre ++ np :: post) {dr : Dir} {rs1 rs2 : List NPRule} {r : NPRule}
    (hrs : npRules np dr = rs1 ++ r :: rs2) {peers' : List NPPeer} (h : r.peers.Perm peers') :
    allowed { v with netpols :=
      pre ++ np.setRules dr (rs1 ++ { r with peers := peers' } :: rs2) :: post } = allowed v :=
  allowed_replace_rule v hnp hrs (npRuleAllows_perm np h (List.Perm.refl _))

/-- the order of the ports of a rule is irrelevant -/
theorem perm_ports (v : View) {pre post : List NetPol} {np : NetPol}
    (hnp : v.netpols = pre ++ np :: post) {dr : Dir} {rs1 rs2 : List NPRule} {r : NPRule}
    (hrs : npRules np dr = rs1 ++ r :: rs2) {ports' : List NPPort} (h : r.ports.Perm ports') :
    allowed { v with netpols :=
      pre ++ np.setRules dr (rs1 ++ { r with ports := ports' } :: rs2) :: post } = allowed v :=
  allowed_replace_rule v hnp hrs (npRuleAllows_perm np (List.Perm.refl _) h)

/-- the list of pods of the view is not used by `allowed` at all -/
theorem perm_pods (v : View) (l : List (Pod × Labels)) :
    allowed { v with pods := l } = allowed v := rfl

/-- the order of the AdminNetworkPolicies is irrelevant when no two of them share a priority -/
theorem perm_anps (v : View) {l : List ANP} (h : v.anps.Perm l)
    (hd : ∀ a ∈ v.anps, ∀ b ∈ v.anps, a.prio = b.prio → a = b) :
    allowed { v with anps := l } = allowed v := by
  have hv : ∀ self other dst d pr p, anpVerdict { v with anps := l } self other dst d pr p =
      anpVerdict v self other dst d pr p := by
    intro self other dst d pr p
    simp only [anpVerdict, mergeSort_prio_perm h hd]
  funext src dst pr p
  have hdir : ∀ self other d, allowedDir { v with anps := l } self other dst d pr p =
      allowedDir v self other dst d pr p := by
    intro self other d
    cases self with
    | ip a => rfl
    | pod pod nsl =>
      simp only [allowedDir, hv]
      rfl
  simp only [allowed, hdir]

/-- `perm_anps` with the hypothesis as a `Pairwise` statement -/
theorem perm_anps_of_pairwise (v : View) {l : List ANP} (h : v.anps.Perm l)
    (hd : v.anps.Pairwise (fun a b => a.prio ≠ b.prio)) :
    allowed { v with anps := l } = allowed v :=
  perm_anps v h (prio_injOn_of_pairwise hd)

/-! ## non-vacuity: the laws on a concrete small view -/
namespace Ex

def podA : Pod := { ns := "n", name := "a", labels := [("app", "a")], ports := [] }
def podB : Pod := { ns := "n", name := "b", labels := [("app", "b")], ports := [] }
def podC : Pod := { ns := "n", name := "c", labels := [("app", "c")], ports := [] }
def A : End := .pod podA []
def B : End := .pod podB []
def C : End := .pod podC []
def selApp (x : String) : Selector := ⟨[("app", x)], []⟩
def fromApp (x : String) : NPRule := ⟨[.sel (some (selApp x)) none], [⟨none, .num 80 none⟩]⟩

/-- `b` accepts TCP 80 from `a`; `policyTypes` defaulted, no egress rule -/
def np0 : NetPol :=
  { ns := "n", name := "np0", podSel := selApp "b", types := [], ingress := [fromApp "a"], egress := [] }
def v0 : View := { pods := [], netpols := [np0], anps := [], banp := none }

example : NPOnly v0 := by decide
example : allowedNP v0 A B .TCP 80 = true ∧ allowedNP v0 C B .TCP 80 = false ∧
    allowedNP v0 B A .TCP 80 = true := by decide

/-- A1: a second ingress rule (from `c`) keeps `a → b` and adds `c → b` -/
def v1 : View := { v0 with netpols := [{ np0 with ingress := [fromApp "a", fromApp "c"] }] }
example : allowed v1 A B .TCP 80 = true :=
  add_ingress_rule_monotone (v := v0) (by decide) (pre := []) (post := []) (np := np0) rfl
    (rs1 := [fromApp "a"]) (rs2 := []) (fromApp "c") rfl A B .TCP 80
    (by rw [allowed_eq_allowedNP (by decide)]; decide)
example : allowedNP v1 C B .TCP 80 = true := by decide

/-- A1, the side condition for egress is needed: the first egress rule of a policy with defaulted
`policyTypes` makes the policy govern egress, and `b → a` is lost -/
def v1e : View := { v0 with netpols := [{ np0 with egress := [fromApp "c"] }] }
example : ¬ (np0.types ≠ [] ∨ np0.egress ≠ []) := by decide
example : allowedNP v0 B A .TCP 80 = true ∧ allowedNP v1e B A .TCP 80 = false := by decide

/-- A2: a second policy on the already governed `b` -/
def q2 : NetPol := { np0 with name := "q2", ingress := [fromApp "c"] }
example : ∀ pod d, npSelects q2 pod d = true → governs v0 pod d = true := by
  intro pod d h
  show (npSelects np0 pod d || false) = true
  rw [Bool.or_false]; exact h
example : allowedNP { v0 with netpols := [np0, q2] } A B .TCP 80 = true ∧
    allowedNP { v0 with netpols := [np0, q2] } C B .TCP 80 = true := by decide

/-- A3: a first policy on the so far ungoverned `a` -/
def q3 : NetPol := { np0 with name := "q3", podSel := selApp "a", ingress := [fromApp "c"] }
example : ∀ pod d, npSelects q3 pod d = true → governs v0 pod d = false := by
  intro pod d h
  show (npSelects np0 pod d || false) = false
  simp only [npSelects, Bool.and_eq_true, q3, np0, selApp, Selector.matches, List.all_cons,
    List.all_nil, Bool.and_true, beq_iff_eq] at h ⊢
  simp [h.2]
example : allowedNP v0 B A .TCP 80 = true ∧
    allowedNP { v0 with netpols := [q3, np0] } B A .TCP 80 = false := by decide

/-- A4: a policy on `c` is invisible for `a → b` -/
def q4 : NetPol := { np0 with name := "q4", podSel := selApp "c", ingress := [] }
example : selectsEnd q4 A .egress = false ∧ selectsEnd q4 B .ingress = false := by decide
example : allowed { v0 with netpols := [np0, q4] } A B .TCP 80 = allowed v0 A B .TCP 80 :=
  locality v0 (pre := [np0]) (post := []) rfl q4 A B (by decide) (by decide) .TCP 80

/-! B5 -/
example : Selector.matches ⟨[("app", "a")], []⟩ podA.labels = true ∧
    Selector.matches ⟨[], [⟨"app", .In, ["a"]⟩]⟩ podA.labels = true ∧
    Selector.matches ⟨[("app", "a")], []⟩ podB.labels = false ∧
    Selector.matches ⟨[], [⟨"app", .In, ["a"]⟩]⟩ podB.labels = false := by decide
example : allowed { v0 with netpols := [{ np0 with podSel := ⟨[], [⟨"app", .In, ["b"]⟩]⟩ }] } =
    allowed v0 :=
  matchLabels_eq_In_podSel_allowed v0 (pre := []) (post := []) (np := np0) rfl
    (ml1 := []) (ml2 := []) (ex1 := []) (ex2 := []) rfl
example : allowed { v0 with netpols := [{ np0 with ingress :=
      [⟨[.sel (some ⟨[], [⟨"app", .In, ["a"]⟩]⟩) none], [⟨none, .num 80 none⟩]⟩] }] } = allowed v0 :=
  matchLabels_eq_In_peerPodSel_allowed v0 (pre := []) (post := []) (np := np0) rfl
    (dr := .ingress) (rs1 := []) (rs2 := []) (ps1 := []) (ps2 := [])
    (ml1 := []) (ml2 := []) (ex1 := []) (ex2 := []) rfl

/-! B6 -/
example : (80 : Int) ≤ 85 ∧ (85 : Int) < 90 := by decide
example : npPortMatches ⟨none, .num 80 (some 90)⟩ B .TCP 87 = true ∧
    npPortMatches ⟨none, .num 80 (some 85)⟩ B .TCP 87 = false ∧
    npPortMatches ⟨none, .num 86 (some 90)⟩ B .TCP 87 = true := by decide
def npR : NetPol := { np0 with ingress := [⟨[], [⟨none, .num 80 (some 90)⟩]⟩] }
example : allowed { v0 with netpols := [{ npR with ingress :=
      [⟨[], [⟨none, .num 80 (some 85)⟩, ⟨none, .num (85 + 1) (some 90)⟩]⟩] }] } =
    allowed { v0 with netpols := [npR] } :=
  port_range_split_allowed { v0 with netpols := [npR] } (pre := []) (post := []) (np := npR) rfl
    (dr := .ingress) (rs1 := []) (rs2 := []) (qs1 := []) (qs2 := []) (m := 85) (by decide) rfl

/-! B7 -/
example : (⟨0x0A000000, 8⟩ : Cidr).halves = (⟨0x0A000000, 9⟩, ⟨0x0A800000, 9⟩) := by decide
example : (⟨0x0A0B0C0D, 8⟩ : Cidr).halves = (⟨0x0A000000, 9⟩, ⟨0x0A800000, 9⟩) := by decide
example : cidrMem ⟨0x0A000000, 8⟩ 0x0A800001 = true ∧ cidrMem ⟨0x0A000000, 9⟩ 0x0A800001 = false ∧
    cidrMem ⟨0x0A800000, 9⟩ 0x0A800001 = true := by decide
/-- the hypothesis `c.pfx < 32` is needed: a /32 has no halves -/
example : cidrMem ⟨5, 32⟩ 6 = false ∧ cidrMem (⟨5, 32⟩ : Cidr).halves.2 6 = true := by decide
def npIP : NetPol := { np0 with ingress := [⟨[.ip ⟨0x0A000000, 8⟩ [⟨0x0A010000, 16⟩]], []⟩] }
example : allowed { v0 with netpols := [{ npIP with ingress :=
      [⟨[.ip (⟨0x0A000000, 8⟩ : Cidr).halves.1 [⟨0x0A010000, 16⟩],
         .ip (⟨0x0A000000, 8⟩ : Cidr).halves.2 [⟨0x0A010000, 16⟩]], []⟩] }] } =
    allowed { v0 with netpols := [npIP] } :=
  cidr_halves_allowed { v0 with netpols := [npIP] } (pre := []) (post := []) (np := npIP) rfl
    (dr := .ingress) (rs1 := []) (rs2 := []) (ps1 := []) (ps2 := []) (by decide) rfl

/-! B8: defaulted `policyTypes`, one part takes the ingress rule, the other the egress rule -/
def npS : NetPol := { np0 with egress := [fromApp "c"] }
def npS1 : NetPol := { np0 with name := "s1" }
def npS2 : NetPol := { np0 with name := "s2", ingress := [], egress := [fromApp "c"] }
example : npAffects npS1 .egress = false ∧ npAffects npS2 .egress = true ∧
    npAffects npS .egress = true := by decide
example : allowed { v0 with netpols := [npS1, npS2] } = allowed { v0 with netpols := [npS] } :=
  policy_split { v0 with netpols := [npS] } (pre := []) (post := []) (np := npS) rfl
    rfl rfl rfl rfl rfl rfl (.refl _) (.refl _)

/-! B9 -/
example : allowed { v0 with netpols := [{ np0 with types := [.ingress] }] } = allowed v0 :=
  policyTypes_explicit_eq_default_allowed v0 (pre := []) (post := []) (np := np0) rfl rfl
example : allowed { v0 with netpols := [{ npS with types := [.ingress, .egress] }] } =
    allowed { v0 with netpols := [npS] } :=
  policyTypes_explicit_eq_default_allowed { v0 with netpols := [npS] } (pre := []) (post := [])
    (np := npS) rfl rfl

/-! C -/
example : allowed { v0 with netpols := [npS2, npS1] } = allowed { v0 with netpols := [npS1, npS2] } :=
  perm_netpols { v0 with netpols := [npS1, npS2] } (List.Perm.swap _ _ _)

def anp1 : ANP :=
  { name := "x", prio := 1, subject := .nss ⟨[], []⟩,
    ingress := [⟨"d", .Deny, [.nss ⟨[], []⟩], none⟩], egress := [] }
def anp2 : ANP :=
  { name := "y", prio := 2, subject := .nss ⟨[], []⟩,
    ingress := [⟨"a", .Allow, [.nss ⟨[], []⟩], none⟩], egress := [] }
example : allowed { v0 with anps := [anp2, anp1] } = allowed { v0 with anps := [anp1, anp2] } :=
  perm_anps { v0 with anps := [anp1, anp2] } (List.Perm.swap _ _ _) (by
    intro a ha b hb h
    have ha : a = anp1 ∨ a = anp2 := by simpa using ha
    have hb : b = anp1 ∨ b = anp2 := by simpa using hb
    rcases ha with rfl | rfl <;> rcases hb with rfl | rfl <;>
      first | rfl | exact absurd h (by decide))
example : allowed { v0 with anps := [anp2, anp1] } = allowed { v0 with anps := [anp1, anp2] } :=
  perm_anps_of_pairwise { v0 with anps := [anp1, anp2] } (List.Perm.swap _ _ _) (by decide)

/-! C, inside a policy and inside a rule -/
example : allowed { v0 with netpols := [{ np0 with ingress := [fromApp "c", fromApp "a"], egress := [] }] } =
    allowed v1 :=
  perm_rules v1 (pre := []) (post := []) (np := { np0 with ingress := [fromApp "a", fromApp "c"] })
    rfl (List.Perm.swap _ _ _) (.refl _)
def r2 : NPRule :=
  ⟨[.sel (some (selApp "a")) none, .sel (some (selApp "c")) none], [⟨none, .num 80 none⟩, ⟨none, .num 81 none⟩]⟩
example : allowed { v0 with netpols := [{ np0 with ingress := [{ r2 with peers := r2.peers.reverse }] }] } =
    allowed { v0 with netpols := [{ np0 with ingress := [r2] }] } :=
  perm_peers { v0 with netpols := [{ np0 with ingress := [r2] }] } (pre := []) (post := [])
    (np := { np0 with ingress := [r2] }) rfl (dr := .ingress) (rs1 := []) (rs2 := []) (r := r2) rfl
    (List.Perm.swap _ _ _)
example : allowed { v0 with netpols := [{ np0 with ingress := [{ r2 with ports := r2.ports.reverse }] }] } =
    allowed { v0 with netpols := [{ np0 with ingress := [r2] }] } :=
  perm_ports { v0 with netpols := [{ np0 with ingress := [r2] }] } (pre := []) (post := [])
    (np := { np0 with ingress := [r2] }) rfl (dr := .ingress) (rs1 := []) (rs2 := []) (r := r2) rfl
    (List.Perm.swap _ _ _)

end Ex

end Netpol.Properties.C14
