import Netpol.Proofs.CacheLayer
import Std.Data.String.ToInt
/-! # C15 — the evaluation cache is transparent

After any sequence of inserts / deletes / queries, `CheckIfAllowed` returns what the same engine
would return without any cache (cached results never leak through an update); admin policies stay
ordered by priority whatever the insertion order, with pairwise distinct priorities within 0..1000
(an insertion that would break this is refused and changes nothing); deleting an absent object is a
no-op.

The model is `Netpol.Model.Cache` (`EState.insert`, `EState.delete`, `EState.checkIfAllowed`); the
proofs are in `Netpol.Proofs.CacheLayer`.

**The hypothesis.** The cache key of a query is the string
`ns/owner/variant/ns/owner/variant/proto/port` (`EState.connKey`). The design presupposes that this
string determines everything the evaluation reads. `OpsConsistent attrs nsOf ops` states it for a
history `ops`: owned pods ever inserted are real pods whose labels, ports and namespace are
functions (`attrs`, `nsOf`) of their owner key ("pods with one owner key are interchangeable"), and
the concatenation can be split in one way only on the owner keys and the (protocol, port) strings
of the history. The last clause cannot be dropped: with a source pod of owner key `n/a/v` and
destination pods of owner keys `n/b/v` and `n/b/v/x` (the model puts no constraint on the variant
string) the queries `(proto, port) = ("x/TCP", "80")` towards the first and `("TCP", "80")` towards
the second have the same key `n/a/v/n/b/v/x/TCP/80`; the first is answered `false` by a policy with
ports (unknown protocol) and cached, the second may be `true` without cache (remark, not a theorem
here). Hence the queried strings of the final query belong to the hypothesis:
`OpsConsistent attrs nsOf (ops ++ [.q src dst proto port])`.

A collision on the port string alone is harmless since the port is validated before the cache
lookup: a port that parses contains no `/`, and a query whose port does not parse — such as
`("TCP", "80/80")`, whose key is that of `("TCP/80", "80")` — is rejected before the lookup, in any
state and without any hypothesis (`bad_port_answer`, `Example.collision_rejected`). -/
namespace Netpol.Properties.C15
open Netpol EState

/-- **C15, cache transparency.** After any history `ops` (inserts, deletes, queries, clears) a
query is answered as by the same engine state with an empty cache. -/
theorem cache_transparent (attrs : String → Labels × List CPort) (nsOf : String → String)
    (n : Nat) (ops : List HOp) (src dst proto port : String)
    (h : OpsConsistent attrs nsOf (ops ++ [.q src dst proto port])) :
    ((EState.run { cache := { cap := n } } ops).checkIfAllowed src dst proto port).1 =
      (EState.run { cache := { cap := n } } ops).uncached src dst proto port :=
  cache_transparent_faithful n ops src dst proto port h.faithful

/-- the shape "consistent history, then any query with (protocol, port) strings seen before" -/
theorem cache_transparent_requery (attrs : String → Labels × List CPort) (nsOf : String → String)
    (n : Nat) (ops : List HOp) (h : OpsConsistent attrs nsOf ops) (src dst proto port : String)
    (hq : (proto, port) ∈ opsQueries ops) :
    ((EState.run { cache := { cap := n } } ops).checkIfAllowed src dst proto port).1 =
      (EState.run { cache := { cap := n } } ops).uncached src dst proto port :=
  cache_transparent attrs nsOf n ops src dst proto port (h.requery src dst hq)

/-- the same for every query inside a consistent history -/
theorem cache_transparent_everywhere (attrs : String → Labels × List CPort) (nsOf : String → String)
    (n : Nat) (pre post : List HOp) (src dst proto port : String)
    (h : OpsConsistent attrs nsOf (pre ++ .q src dst proto port :: post)) :
    ((EState.run { cache := { cap := n } } pre).checkIfAllowed src dst proto port).1 =
      (EState.run { cache := { cap := n } } pre).uncached src dst proto port :=
  Netpol.cache_transparent_everywhere n pre post src dst proto port h.faithful

/-- the uncached answer is the rule-walking verdict of the resolved peers: it reads the state
only through the engine's objects -/
theorem uncached_is_verdict (s : EState) (src dst proto port : String) :
    s.uncached src dst proto port =
      match getPeer s.eng src with
      | .error e => .error e
      | .ok sp =>
        match getPeer s.eng dst with
        | .error e => .error e
        | .ok dp =>
          if Engine.isPodToItself sp dp then .ok true else verdict s.eng sp dp proto port :=
  uncached_eq s src dst proto port

/-- **cached results never leak through an update**: inserting or deleting a NetworkPolicy, a
Namespace, an AdminNetworkPolicy or the BaselineAdminNetworkPolicy either leaves the state as it
is (rejected insertion, absent baseline policy) or leaves an empty cache -/
theorem update_never_leaks (s : EState) (o : Obj) (ho : o.isPolicyOrNs = true) :
    ((s.step (.ins o)).1 = s ∨ (s.step (.ins o)).1.cache.items = []) ∧
    ((s.step (.del o)).1 = s ∨ (s.step (.del o)).1.cache.items = []) :=
  ⟨insert_policy_cache s o ho, delete_policy_cache s o ho⟩

/-- an accepted insertion of such an object empties the cache -/
theorem accepted_update_clears (s : EState) (o : Obj) (ho : o.isPolicyOrNs = true)
    (hok : (s.insert o).1 = .ok) : (s.step (.ins o)).1.cache.items = [] :=
  insert_policy_ok_cache s o ho hok

/-- **admin policies stay ordered by priority** whatever the history -/
theorem anps_sorted_invariant (n : Nat) (ops : List HOp) :
    ((EState.run { cache := { cap := n } } ops).eng.anps).Pairwise (fun a b => a.prio ≤ b.prio) :=
  EState.run_byPrio (s := { cache := { cap := n } }) List.Pairwise.nil ops

theorem anps_sorted_invariant' (ops : List HOp) :
    ((EState.run {} ops).eng.anps).Pairwise (fun a b => a.prio ≤ b.prio) :=
  EState.run_byPrio (s := {}) List.Pairwise.nil ops

/-- the admission condition of a sequence of `InsertObject` calls on admin policies, clause by
clause (`CacheLayer.Insertable e l`): exposure analysis off, names new and pairwise distinct,
priorities within 0..1000, held by no policy of the engine and pairwise distinct. All clauses are
about the multiset of `l`. -/
theorem anps_accepted_iff (e : Engine) (l : List ANP) :
    (∃ e', l.foldlM Engine.insertANP e = .ok e') ↔
      (l ≠ [] → e.exposure = false) ∧ (∀ a ∈ l, a.name ∉ e.anpNames) ∧ (l.map (·.name)).Nodup ∧
      (∀ a ∈ l, 0 ≤ a.prio ∧ a.prio ≤ 1000) ∧ (∀ a ∈ l, ∀ b ∈ e.anps, b.prio ≠ a.prio) ∧
      (l.map (·.prio)).Nodup := by
  have hv : ∀ a : ANP, a.validPriority = true ↔ (0 ≤ a.prio ∧ a.prio ≤ 1000) := by
    intro a; unfold ANP.validPriority; simp
  constructor
  · intro h
    have hi := (CacheLayer.insertANPs_ok_iff e l).mp h
    exact ⟨hi.expo, hi.fresh, hi.names, fun a ha => (hv a).mp (hi.valid a ha), hi.free, hi.prios⟩
  · rintro ⟨h1, h2, h3, h4, h5, h6⟩
    exact (CacheLayer.insertANPs_ok_iff e l).mpr ⟨h1, h2, h3, fun a ha => (hv a).mpr (h4 a ha), h5, h6⟩

/-- **the insertion order is irrelevant — for admission and for the result.** Two permutations of
any list of admin policies, inserted one by one into any engine: either both sequences are
rejected (an insertion with a name or a priority held already, or a priority outside 0..1000, is
refused, in whatever order the policies come; the class of the error is `dupANP` or `anpPriority`,
or `exposureWithANP` when the engine runs the exposure analysis), or both are accepted and the
engines hold the same sorted slice — they are equal up to the order of the name map. No hypothesis:
that the priorities are pairwise distinct and within the range is enforced by `insertANP`, not
assumed. -/
theorem anps_insertion_order_irrelevant (e : Engine) (l₁ l₂ : List ANP) (hp : l₁.Perm l₂) :
    (∃ err₁ err₂, l₁.foldlM Engine.insertANP e = .error err₁ ∧
        l₂.foldlM Engine.insertANP e = .error err₂ ∧
        (err₁ = .exposureWithANP ∧ e.exposure = true ∨ err₁ = .dupANP ∨ err₁ = .anpPriority) ∧
        (err₂ = .exposureWithANP ∧ e.exposure = true ∨ err₂ = .dupANP ∨ err₂ = .anpPriority)) ∨
    (∃ e₁ e₂, l₁.foldlM Engine.insertANP e = .ok e₁ ∧ l₂.foldlM Engine.insertANP e = .ok e₂ ∧
      e₁.anps = e₂.anps ∧ e₁.anpNames.Perm e₂.anpNames ∧
      e₂ = { e₁ with anpNames := e₂.anpNames }) := by
  rcases CacheLayer.insertANPs_perm e hp with ⟨err₁, err₂, h1, h2⟩ | h
  · exact Or.inl ⟨err₁, err₂, h1, h2, CacheLayer.insertANPs_error h1, CacheLayer.insertANPs_error h2⟩
  · exact Or.inr h

/-- from the empty engine -/
theorem anps_insertion_order_irrelevant_empty (l₁ l₂ : List ANP) (hp : l₁.Perm l₂) :
    (∃ err₁ err₂, l₁.foldlM Engine.insertANP {} = .error err₁ ∧
        l₂.foldlM Engine.insertANP {} = .error err₂ ∧
        (err₁ = .dupANP ∨ err₁ = .anpPriority) ∧ (err₂ = .dupANP ∨ err₂ = .anpPriority)) ∨
    (∃ e₁ e₂, l₁.foldlM Engine.insertANP {} = .ok e₁ ∧ l₂.foldlM Engine.insertANP {} = .ok e₂ ∧
      e₁.anps = e₂.anps) := by
  rcases anps_insertion_order_irrelevant {} l₁ l₂ hp with ⟨err₁, err₂, h1, h2, c1, c2⟩ | ⟨e₁, e₂, h1, h2, h3, _⟩
  · refine Or.inl ⟨err₁, err₂, h1, h2, ?_, ?_⟩
    · rcases c1 with ⟨_, h⟩ | h | h
      · cases h
      · exact Or.inl h
      · exact Or.inr h
    · rcases c2 with ⟨_, h⟩ | h | h
      · cases h
      · exact Or.inl h
      · exact Or.inr h
  · exact Or.inr ⟨e₁, e₂, h1, h2, h3⟩

/-- the former statement, as a corollary: when the admission condition holds (the names are new
and pairwise distinct, the priorities within the range, new and pairwise distinct) both orders are
accepted and yield the same slice. The engine need not be sorted. -/
theorem anps_insertion_order_irrelevant_accepted (e : Engine) (l₁ l₂ : List ANP) (hp : l₁.Perm l₂)
    (hexp : e.exposure = false) (hn : (e.anpNames ++ l₁.map (·.name)).Nodup)
    (hprio : ((l₁ ++ e.anps).map (·.prio)).Nodup)
    (hvalid : ∀ a ∈ l₁, 0 ≤ a.prio ∧ a.prio ≤ 1000) :
    ∃ e₁ e₂, l₁.foldlM Engine.insertANP e = .ok e₁ ∧ l₂.foldlM Engine.insertANP e = .ok e₂ ∧
      e₁.anps = e₂.anps := by
  have hacc : ∃ e', l₁.foldlM Engine.insertANP e = .ok e' := by
    rw [anps_accepted_iff]
    rw [List.map_append] at hprio
    obtain ⟨n1, n2, n3⟩ := List.nodup_append.mp hn
    obtain ⟨p1, p2, p3⟩ := List.nodup_append.mp hprio
    refine ⟨fun _ => hexp, ?_, n2, hvalid, ?_, p1⟩
    · intro a ha hm
      exact n3 _ hm _ (List.mem_map.mpr ⟨a, ha, rfl⟩) rfl
    · intro a ha b hb hne
      exact p3 _ (List.mem_map.mpr ⟨a, ha, rfl⟩) _ (List.mem_map.mpr ⟨b, hb, rfl⟩) hne.symm
  obtain ⟨e', he'⟩ := hacc
  rcases anps_insertion_order_irrelevant e l₁ l₂ hp with ⟨err₁, _, h1, _⟩ | ⟨e₁, e₂, h1, h2, h3, _⟩
  · rw [he'] at h1; cases h1
  · exact ⟨e₁, e₂, h1, h2, h3⟩

/-- the error *class* of a rejected sequence may depend on the order when the list holds both a
repeated name and a repeated priority: the first conflict met is the one reported -/
example :
    let a5 : ANP := ⟨"a", 5, .nss ⟨[], []⟩, [], []⟩
    let b5 : ANP := ⟨"b", 5, .nss ⟨[], []⟩, [], []⟩
    let a7 : ANP := ⟨"a", 7, .nss ⟨[], []⟩, [], []⟩
    ([a5, b5, a7].Perm [a5, a7, b5]) ∧
    (match [a5, b5, a7].foldlM Engine.insertANP {} with | .error err => some err | .ok _ => none)
      = some .anpPriority ∧
    (match [a5, a7, b5].foldlM Engine.insertANP {} with | .error err => some err | .ok _ => none)
      = some .dupANP := by
  refine ⟨(List.Perm.swap _ _ _).cons _, ?_, ?_⟩ <;> decide

/-- in every reachable state the sorted slice and the name map agree -/
theorem anps_names_invariant (n : Nat) (ops : List HOp) :
    AdmInv (EState.run { cache := { cap := n } } ops).eng :=
  EState.run_admInv (s := { cache := { cap := n } }) ⟨List.nodup_nil, fun _ h => by cases h⟩ ops

/-- **in every reachable state the held admin policies have pairwise distinct priorities, all
within 0..1000**: an insertion that would break this is refused by `insertANP` (it used to be
examined by the sort of the batch path only), deletions and clears cannot break it -/
theorem anps_priorities_invariant (n : Nat) (ops : List HOp) :
    ((EState.run { cache := { cap := n } } ops).eng.anps.map (·.prio)).Nodup ∧
    ∀ a ∈ (EState.run { cache := { cap := n } } ops).eng.anps, 0 ≤ a.prio ∧ a.prio ≤ 1000 := by
  obtain ⟨h1, h2⟩ := EState.run_prioInv (s := { cache := { cap := n } }) Structure.prioInv_empty ops
  refine ⟨h1, fun a ha => ?_⟩
  have := h2 a ha
  unfold ANP.validPriority at this
  simpa using this

theorem anps_priorities_invariant' (ops : List HOp) :
    ((EState.run {} ops).eng.anps.map (·.prio)).Nodup ∧
    ∀ a ∈ (EState.run {} ops).eng.anps, 0 ≤ a.prio ∧ a.prio ≤ 1000 := by
  obtain ⟨h1, h2⟩ := EState.run_prioInv (s := {}) Structure.prioInv_empty ops
  refine ⟨h1, fun a ha => ?_⟩
  have := h2 a ha
  unfold ANP.validPriority at this
  simpa using this

/-- hence the slice is *strictly* ordered by priority in every reachable state: the order in which
`getAllAllowedXgressConnectionsFromANPs` visits the policies is determined by their priorities -/
theorem anps_strictly_sorted_invariant (n : Nat) (ops : List HOp) :
    ((EState.run { cache := { cap := n } } ops).eng.anps).Pairwise (fun a b => a.prio < b.prio) :=
  CacheLayer.strict_of_byPrio_nodup (anps_sorted_invariant n ops) (anps_priorities_invariant n ops).1

/-- **an admin policy whose priority is held already is refused and nothing changes**: the answer
of `InsertObject` is the error `anpPriority` (the exposure flag being off and the name new — the
two checks that come first), and the state — engine, name map, cache, owner bookkeeping — is the
state before -/
theorem insert_same_priority_noop (s : EState) {a b : ANP} (hexp : s.eng.exposure = false)
    (hn : a.name ∉ s.eng.anpNames) (hb : b ∈ s.eng.anps) (hp : b.prio = a.prio) :
    s.insert (.anp a) = (.err .anpPriority, s) :=
  EState.insert_same_prio s hexp hn hb hp

/-- the same for a priority outside 0..1000 -/
theorem insert_invalid_priority_noop (s : EState) {a : ANP} (hexp : s.eng.exposure = false)
    (hn : a.name ∉ s.eng.anpNames) (hv : ¬ (0 ≤ a.prio ∧ a.prio ≤ 1000)) :
    s.insert (.anp a) = (.err .anpPriority, s) :=
  EState.insert_invalid_prio s hexp hn (by unfold ANP.validPriority; simpa using hv)

/-- whatever the object and the reason: a rejected `InsertObject` leaves the state as it is -/
theorem rejected_insert_noop (s : EState) (o : Obj) {err : Err} (h : (s.insert o).1 = .err err) :
    (s.insert o).2 = s :=
  EState.insert_err_unchanged s o h

/-- **deleting an absent object is a no-op**: the answer is `ok` and the engine is unchanged. For a
pod and the baseline policy the whole state is unchanged; for a namespace, a NetworkPolicy and an
admin policy the cache is cleared as by every such update (`cacheClear` keeps `eng`). -/
theorem delete_absent_noop (s : EState) :
    (∀ p : Pod, s.eng.findPod (Engine.podKey p) = none → s.delete (.pod p) = (.ok, s)) ∧
    (∀ n : NsObj, (∀ x ∈ s.eng.namespaces, x.name ≠ n.name) →
      s.delete (.ns n) = (.ok, s.cacheClear)) ∧
    (∀ p : NetPol, (∀ x ∈ s.eng.netpols, ¬ (x.ns = npNs p ∧ x.name = p.name)) →
      s.delete (.np p) = (.ok, s.cacheClear)) ∧
    (∀ a : ANP, a.name ∉ s.eng.anpNames → (∀ x ∈ s.eng.anps, x.name ≠ a.name) →
      s.delete (.anp a) = (.ok, s.cacheClear)) ∧
    (∀ b : BANP, s.eng.banp = none → s.delete (.banp b) = (.ok, s)) ∧
    (∀ b cur : BANP, s.eng.banp = some cur → cur.name ≠ b.name → s.delete (.banp b) = (.ok, s)) ∧
    s.cacheClear.eng = s.eng :=
  ⟨delete_absent_pod s, delete_absent_ns s, delete_absent_np s, delete_absent_anp s,
   delete_absent_banp s, delete_other_banp s, rfl⟩

/-- **`DeleteObject` of a NetworkPolicy removes it from the namespace `InsertObject` stored it in**, also when the
object is written without `metadata.namespace` (stored under `default`): no policy of that name is left there -/
theorem delete_np_removes (s : EState) (p : NetPol) :
    ∀ x ∈ (s.delete (.np p)).2.eng.netpols, ¬ (x.ns = npNs p ∧ x.name = p.name) :=
  EState.delete_np_removes s p

/-- **`SetResources` is a history of `InsertObject` calls** (namespaces, then policies, then pods, ending with the first
rejected one): every statement above about all histories covers the histories that contain it -/
theorem setResources_is_history (s : EState) (nps : List NetPol) (pods : List Pod) (nss : List NsObj) :
    ∃ k, (s.setResources nps pods nss).2 =
      s.run (((nss.map Obj.ns ++ nps.map Obj.np ++ pods.map Obj.pod).take k).map HOp.ins) :=
  EState.insertAll_is_run s _

/-- in a reachable state an admin policy is absent as soon as its name is not registered -/
theorem delete_absent_anp_reachable (n : Nat) (ops : List HOp) (a : ANP)
    (h : a.name ∉ (EState.run { cache := { cap := n } } ops).eng.anpNames) :
    (EState.run { cache := { cap := n } } ops).delete (.anp a) =
      (.ok, (EState.run { cache := { cap := n } } ops).cacheClear) :=
  delete_absent_anp_of_admInv _ (anps_names_invariant n ops) a h

/-! ## the query port is validated before the cache lookup and before any rule is examined

`CheckIfAllowed` parses the port string right after the pod-to-itself check: before the cache
lookup and before the egress walk. (Formerly `strconv.ParseInt` ran only inside a rule with ports
that happened to be examined, and the policies are visited in map order: a port that does not
parse was answered with an error or with a verdict depending on the iteration order. Validating
only after the cache lookup would still let such a query be answered from a colliding cache key:
`Example.collision_rejected`.) A query "names a connection" when `proto != "" || port != ""`; its
port must parse (`EState.badQuery`). None of the theorems below has a hypothesis on the state, the
history or the cache. -/

/-- a query that names a connection and whose port does not parse -/
theorem badQuery_iff (proto port : String) :
    badQuery proto port = true ↔ (proto != "" || port != "") = true ∧ port.toInt? = none := by
  simp only [badQuery, Bool.and_eq_true, Option.isNone_iff_eq_none]

/-- **the verdict on such a query does not read the policies**: on resolved peers it is `badPort`
for every engine — no rule is examined, so the order in which policies and rules are visited
cannot matter -/
theorem bad_port_verdict (e : Engine) (sp dp : KPeer) (proto port : String)
    (hport : port.toInt? = none) (hne : (proto != "" || port != "") = true) :
    verdict e sp dp proto port = .error .badPort :=
  verdict_of_badQuery e sp dp (badQuery_of_none hport hne)

/-- **a port that does not parse is always rejected** (any state, whatever is cached): the peers
resolve, are not one pod, the query names a connection and its port does not parse: the answer is
the error `badPort` -/
theorem bad_port_always_rejected (s : EState) (src dst proto port : String) (sp dp : KPeer)
    (hs : getPeer s.eng src = .ok sp) (hd : getPeer s.eng dst = .ok dp)
    (hself : Engine.isPodToItself sp dp = false)
    (hport : port.toInt? = none) (hne : (proto != "" || port != "") = true) :
    (s.checkIfAllowed src dst proto port).1 = .error .badPort := by
  rw [checkIfAllowed_badQuery s src dst hs hd hself (badQuery_of_none hport hne)]

/-- … and the state is left as it is: nothing is cached for it, no cache entry is touched (the
LRU order is unchanged) -/
theorem bad_port_leaves_state (s : EState) (src dst proto port : String) (sp dp : KPeer)
    (hs : getPeer s.eng src = .ok sp) (hd : getPeer s.eng dst = .ok dp)
    (hself : Engine.isPodToItself sp dp = false)
    (hport : port.toInt? = none) (hne : (proto != "" || port != "") = true) :
    s.checkIfAllowed src dst proto port = (.error .badPort, s) :=
  checkIfAllowed_badQuery s src dst hs hd hself (badQuery_of_none hport hne)

/-- **the complete answer to such a query, in any state**: a peer resolution error, `true` for one
pod, `badPort` otherwise — never a cached or computed verdict; the state is left as it is -/
theorem bad_port_answer (s : EState) (src dst proto port : String)
    (hport : port.toInt? = none) (hne : (proto != "" || port != "") = true) :
    s.checkIfAllowed src dst proto port =
      (match getPeer s.eng src with
      | .error e => .error e
      | .ok sp =>
        match getPeer s.eng dst with
        | .error e => .error e
        | .ok dp => if Engine.isPodToItself sp dp then .ok true else .error .badPort, s) :=
  checkIfAllowed_badQuery_eq s src dst (badQuery_of_none hport hne)

/-- without cache the answer to such a query is the same -/
theorem bad_port_uncached (s : EState) (src dst proto port : String)
    (hport : port.toInt? = none) (hne : (proto != "" || port != "") = true) :
    s.uncached src dst proto port =
      match getPeer s.eng src with
      | .error e => .error e
      | .ok sp =>
        match getPeer s.eng dst with
        | .error e => .error e
        | .ok dp => if Engine.isPodToItself sp dp then .ok true else .error .badPort :=
  uncached_badQuery s src dst (badQuery_of_none hport hne)

/-- **the cache is transparent for such a query without any assumption** on the history or the
keys (compare `cache_transparent`) -/
theorem bad_port_transparent (s : EState) (src dst proto port : String)
    (hport : port.toInt? = none) (hne : (proto != "" || port != "") = true) :
    (s.checkIfAllowed src dst proto port).1 = s.uncached src dst proto port := by
  rw [bad_port_answer s src dst proto port hport hne, bad_port_uncached s src dst proto port hport hne]

/-- **history level, without any assumption**: in every reachable state each cached verdict was
stored for a query that passed the validation (its key is `connKey sp dp proto port` of a query
`proto`, `port` that names no connection or whose port parses) -/
theorem cache_only_validated (n : Nat) (ops : List HOp) :
    (EState.run { cache := { cap := n } } ops).CacheValidated :=
  EState.run_validated (CacheValidated.of_empty rfl) ops

/-- **history level**: after any history whatsoever (no consistency assumption), a query that names
a connection and whose port does not parse is answered by a peer resolution error, by `true` for
one pod, and by `badPort` otherwise; never by a cached or computed verdict -/
theorem bad_port_after_history (n : Nat) (ops : List HOp) (src dst proto port : String)
    (hport : port.toInt? = none) (hne : (proto != "" || port != "") = true) :
    ((EState.run { cache := { cap := n } } ops).checkIfAllowed src dst proto port).1 =
      match getPeer (EState.run { cache := { cap := n } } ops).eng src with
      | .error e => .error e
      | .ok sp =>
        match getPeer (EState.run { cache := { cap := n } } ops).eng dst with
        | .error e => .error e
        | .ok dp => if Engine.isPodToItself sp dp then .ok true else .error .badPort := by
  rw [bad_port_answer _ src dst proto port hport hne]

/-- **after any history a port that does not parse is never answered with a verdict**: resolved
peers that are not one pod get `badPort`, whatever was queried and cached before -/
theorem bad_port_never_answered (n : Nat) (ops : List HOp) (src dst proto port : String)
    (sp dp : KPeer)
    (hs : getPeer (EState.run { cache := { cap := n } } ops).eng src = .ok sp)
    (hd : getPeer (EState.run { cache := { cap := n } } ops).eng dst = .ok dp)
    (hself : Engine.isPodToItself sp dp = false)
    (hport : port.toInt? = none) (hne : (proto != "" || port != "") = true) :
    ((EState.run { cache := { cap := n } } ops).checkIfAllowed src dst proto port).1 =
      .error .badPort :=
  bad_port_always_rejected _ src dst proto port sp dp hs hd hself hport hne

/-- in any state the only `ok` answer to such a query is the `true` of a pod to itself -/
theorem bad_port_ok_only_self (s : EState) (src dst proto port : String) (v : Bool)
    (hport : port.toInt? = none) (hne : (proto != "" || port != "") = true)
    (hv : (s.checkIfAllowed src dst proto port).1 = .ok v) :
    v = true ∧ ∃ sp dp, getPeer s.eng src = .ok sp ∧ getPeer s.eng dst = .ok dp ∧
      Engine.isPodToItself sp dp = true := by
  rw [bad_port_answer s src dst proto port hport hne] at hv
  cases h1 : getPeer s.eng src with
  | error e => rw [h1] at hv; cases hv
  | ok sp =>
    cases h2 : getPeer s.eng dst with
    | error e => rw [h1, h2] at hv; cases hv
    | ok dp =>
      rw [h1, h2] at hv
      simp only at hv
      by_cases hself : Engine.isPodToItself sp dp = true
      · rw [if_pos hself] at hv
        cases hv
        exact ⟨rfl, sp, dp, rfl, rfl, hself⟩
      · rw [if_neg hself] at hv; cases hv

/-- a history never changes its state on such a query: the step is the identity -/
theorem bad_port_step (s : EState) (src dst proto port : String)
    (hport : port.toInt? = none) (hne : (proto != "" || port != "") = true) :
    (s.step (.q src dst proto port)).1 = s := by
  show (s.checkIfAllowed src dst proto port).2 = s
  rw [bad_port_answer s src dst proto port hport hne]

/-! ## non-vacuity: a concrete history

`ns n`, two owned pods `n/a`, `n/b`, a query (allowed, cached under the owner key), a NetworkPolicy
denying it (cache cleared), the same query (denied = uncached). `String.splitOn` is defined by
well-founded recursion and does not reduce in the kernel, hence the hand-unrolled `splitOn` facts. -/
namespace Example
open String in
theorem aux_end {s sep : String} {b i j : Pos.Raw} {r : List String} (h : i.atEnd s = true) :
    splitOnAux s sep b i j r = ((b.extract s i) :: r).reverse := by
  rw [splitOnAux]; simp [h]

open String in
theorem aux_ne {s sep : String} {b i j : Pos.Raw} {r : List String} (h1 : i.atEnd s = false)
    (h2 : (i.get s == j.get sep) = false) :
    splitOnAux s sep b i j r = splitOnAux s sep b ((i.unoffsetBy j).next s) 0 r := by
  rw [splitOnAux]; simp [h1, h2]

open String in
theorem aux_eq_end {s sep : String} {b i j : Pos.Raw} {r : List String} (h1 : i.atEnd s = false)
    (h2 : (i.get s == j.get sep) = true) (h3 : (j.next sep).atEnd sep = true) :
    splitOnAux s sep b i j r =
      splitOnAux s sep (i.next s) (i.next s) 0 (b.extract s ((i.next s).unoffsetBy (j.next sep)) :: r) := by
  rw [splitOnAux]; simp [h1, h2, h3]

theorem split_na : "n/a".splitOn "/" = ["n", "a"] := by
  unfold String.splitOn
  rw [if_neg (by decide), aux_ne (by decide) (by decide),
    aux_eq_end (by decide) (by decide) (by decide), aux_ne (by decide) (by decide),
    aux_end (by decide)]
  decide

theorem split_nb : "n/b".splitOn "/" = ["n", "b"] := by
  unfold String.splitOn
  rw [if_neg (by decide), aux_ne (by decide) (by decide),
    aux_eq_end (by decide) (by decide) (by decide), aux_ne (by decide) (by decide),
    aux_end (by decide)]
  decide

theorem dot_na : "n/a".splitOn "." = ["n/a"] := by
  unfold String.splitOn
  rw [if_neg (by decide), aux_ne (by decide) (by decide), aux_ne (by decide) (by decide),
    aux_ne (by decide) (by decide), aux_end (by decide)]
  decide

theorem dot_nb : "n/b".splitOn "." = ["n/b"] := by
  unfold String.splitOn
  rw [if_neg (by decide), aux_ne (by decide) (by decide), aux_ne (by decide) (by decide),
    aux_ne (by decide) (by decide), aux_end (by decide)]
  decide

theorem dot_n : "n".splitOn "." = ["n"] := by
  unfold String.splitOn
  rw [if_neg (by decide), aux_ne (by decide) (by decide), aux_end (by decide)]
  decide

/-- the pod and namespace lookup of `getPeer` -/
def lookup (e : Engine) (x : String) : Except Err KPeer :=
  match e.findPod x with
  | none => .error .notFoundPeer
  | some pod =>
    match e.findNs (if pod.ns == "" then "default" else pod.ns) with
    | none => .error .notFoundNamespace
    | some ns => .ok (.pod pod (some ns))

/-- `getPeer` on a `namespace/name` string whose parts are no addresses -/
theorem getPeer_name (e : Engine) (x a b : String) (h1 : x.splitOn "/" = [a, b])
    (h2 : isIPv4 a = none) (h3 : isIPv4 x = none) : getPeer e x = lookup e x := by
  simp only [getPeer, h1, h2, h3, strContains, lookup]
  cases e.findPod x with
  | none => simp
  | some pod => simp only []; cases e.findNs (if pod.ns == "" then "default" else pod.ns) <;> simp

theorem getPeer_na (e : Engine) : getPeer e "n/a" = lookup e "n/a" :=
  getPeer_name e "n/a" "n" "a" split_na (by simp [isIPv4, dot_n]) (by simp [isIPv4, dot_na])
theorem getPeer_nb (e : Engine) : getPeer e "n/b" = lookup e "n/b" :=
  getPeer_name e "n/b" "n" "b" split_nb (by simp [isIPv4, dot_n]) (by simp [isIPv4, dot_nb])


def nsN : NsObj := ⟨"n", []⟩
def podA : Pod :=
  { ns := "n", name := "a", labels := [("app", "a")], ports := [], ownerKind := "ReplicaSet",
    ownerName := "ra", variant := "map[app:a]$" }
def podB : Pod :=
  { ns := "n", name := "b", labels := [("app", "b")], ports := [], ownerKind := "ReplicaSet",
    ownerName := "rb", variant := "map[app:b]$" }
/-- selects `b`, affects ingress, allows nothing -/
def denyB : NetPol :=
  { ns := "n", name := "deny-b", podSel := ⟨[("app", "b")], []⟩, types := [.ingress],
    ingress := [], egress := [] }

def init : EState := { cache := { cap := 10 } }
def setup : List HOp := [.ins (.ns nsN), .ins (.pod podA), .ins (.pod podB)]
def query : HOp := .q "n/a" "n/b" "TCP" "80"
def hist : List HOp := setup ++ [query, .ins (.np denyB)]

example : variantOf podA.labels podA.ports = podA.variant := by decide +kernel

/-- the port string of the example parses (`Nat.toInt?_repr` of the toolchain's
`Std.Data.String.ToInt`; `String.toInt?` does not reduce in the kernel) -/
theorem toInt_80 : "80".toInt? = some 80 := Nat.toInt?_repr 80

/-- so the validation of the query port passes and the verdict is the walk -/
theorem verdict_tcp_80 (e : Engine) (sp dp : KPeer) :
    verdict e sp dp "TCP" "80" = walk e sp dp "TCP" "80" := verdict_of_toInt e sp dp toInt_80

theorem answer_tcp_80 (s : EState) (sp dp : KPeer) :
    s.answer sp dp "TCP" "80" = s.cachedAnswer sp dp "TCP" "80" :=
  answer_goodQuery s sp dp (badQuery_of_toInt toInt_80)

/-- first query: allowed -/
theorem first_answer : ((init.run setup).checkIfAllowed "n/a" "n/b" "TCP" "80").1 = .ok true := by
  rw [checkIfAllowed_eq, getPeer_na, getPeer_nb]
  simp only [answer_tcp_80, cachedAnswer, verdict_tcp_80]
  rfl


theorem run_append (s : EState) (a b : List HOp) : s.run (a ++ b) = (s.run a).run b := by
  simp [EState.run, List.foldl_append]

def key : String := "n/ra/map[app:a]$/n/rb/map[app:b]$/TCP/80"

/-- the state after the first query: the verdict is cached under the owner key -/
theorem after_first : init.run (setup ++ [query]) =
    { eng := (init.run setup).eng, cache := { items := [(key, true)], cap := 10 },
      owners := (init.run setup).owners } := by
  rw [run_append]
  show ((init.run setup).checkIfAllowed "n/a" "n/b" "TCP" "80").2 = _
  rw [checkIfAllowed_eq, getPeer_na, getPeer_nb]
  simp only [answer_tcp_80, cachedAnswer, verdict_tcp_80]
  rfl

theorem hist_eq : hist = (setup ++ [query]) ++ [.ins (.np denyB)] := rfl

/-- the accepted NetworkPolicy clears the cache -/
theorem after_update : (init.run hist).cache.items = [] ∧ (init.run hist).eng.netpols = [denyB] := by
  rw [hist_eq, run_append, after_first]
  exact ⟨rfl, rfl⟩

/-- second, identical query: now denied -/
theorem second_answer : ((init.run hist).checkIfAllowed "n/a" "n/b" "TCP" "80").1 = .ok false := by
  rw [hist_eq, run_append, after_first, checkIfAllowed_eq, getPeer_na, getPeer_nb]
  simp only [answer_tcp_80, cachedAnswer, verdict_tcp_80]
  rfl

theorem second_uncached : (init.run hist).uncached "n/a" "n/b" "TCP" "80" = .ok false := by
  rw [hist_eq, run_append, after_first, uncached_eq, getPeer_na, getPeer_nb]
  simp only [verdict_tcp_80]
  rfl

/-- the clearing matters: with the cache of before the update the stale verdict would leak -/
theorem stale_would_leak :
    (({ init.run hist with cache := (init.run (setup ++ [query])).cache } : EState).checkIfAllowed
      "n/a" "n/b" "TCP" "80").1 = .ok true := by
  rw [hist_eq, run_append, after_first, checkIfAllowed_eq, getPeer_na, getPeer_nb]
  simp only [answer_tcp_80, cachedAnswer, verdict_tcp_80]
  rfl

def exAttrs (k : String) : Labels × List CPort :=
  if k = "n/ra/map[app:a]$" then ([("app", "a")], []) else ([("app", "b")], [])
def exNsOf (_ : String) : String := "n"

/-- the hypothesis of `cache_transparent` is satisfiable -/
theorem hist_consistent : OpsConsistent exAttrs exNsOf (hist ++ [query]) := by
  constructor <;> decide


/-- a second identical query without update is a cache hit and agrees with the uncached answer -/
theorem hit_answer :
    ((init.run (setup ++ [query])).checkIfAllowed "n/a" "n/b" "TCP" "80").1 = .ok true ∧
    (init.run (setup ++ [query])).uncached "n/a" "n/b" "TCP" "80" = .ok true := by
  rw [after_first, checkIfAllowed_eq, uncached_eq, getPeer_na, getPeer_nb]
  simp only [answer_tcp_80, cachedAnswer, verdict_tcp_80]
  exact ⟨rfl, rfl⟩

/-- `cache_transparent` applied to the history: its hypothesis holds, its conclusion is the
equation `false = false` computed above (and not the stale `true`) -/
example : ((init.run hist).checkIfAllowed "n/a" "n/b" "TCP" "80").1 =
    (init.run hist).uncached "n/a" "n/b" "TCP" "80" :=
  cache_transparent exAttrs exNsOf 10 hist "n/a" "n/b" "TCP" "80" hist_consistent

example : ((init.run hist).checkIfAllowed "n/a" "n/b" "TCP" "80").1 ≠
    ((init.run setup).checkIfAllowed "n/a" "n/b" "TCP" "80").1 := by
  rw [second_answer, first_answer]; intro h; cases h

/-! ### the validation of the query port -/

/-- a string with a character that is no digit, no `_` and no `-` is no integer (from the
characterisation `String.isInt_iff` / `String.isNat_iff` of the toolchain's
`Std.Data.String.ToInt`; `String.toInt?` does not reduce in the kernel) -/
theorem toInt?_eq_none_of_mem {s : String} {c : Char} (hm : c ∈ s.toList) (hd : c.isDigit = false)
    (hu : c ≠ '_') (hmin : c ≠ '-') : s.toInt? = none := by
  rw [String.toInt?_eq_none_iff]
  cases h : s.isInt with
  | false => rfl
  | true =>
    exfalso
    rcases String.isInt_iff.1 h with h1 | ⟨t, rfl, h1⟩
    · rcases (String.isNat_iff.1 h1).2.1 c hm with h2 | h2
      · rw [hd] at h2; cases h2
      · exact hu h2
    · have hm' : c ∈ t.toList := by
        rw [String.toList_append] at hm
        rcases List.mem_append.mp hm with h2 | h2
        · have : "-".toList = ['-'] := by decide
          rw [this] at h2
          exact absurd (List.mem_singleton.mp h2) hmin
        · exact h2
      rcases (String.isNat_iff.1 h1).2.1 c hm' with h2 | h2
      · rw [hd] at h2; cases h2
      · exact hu h2

theorem toInt_http : "http".toInt? = none :=
  toInt?_eq_none_of_mem (c := 'h') (by decide) (by decide) (by decide) (by decide)
theorem toInt_80_80 : "80/80".toInt? = none :=
  toInt?_eq_none_of_mem (c := '/') (by decide) (by decide) (by decide) (by decide)

theorem setup_peers :
    getPeer (init.run setup).eng "n/a" = .ok (.pod podA (some (Engine.nsFromCore nsN))) ∧
    getPeer (init.run setup).eng "n/b" = .ok (.pod podB (some (Engine.nsFromCore nsN))) := by
  rw [getPeer_na, getPeer_nb]
  constructor <;> rfl

/-- the hypotheses of `bad_port_always_rejected` are satisfiable: the query `a → b` on `TCP` with
the port string `"http"` in the state after `setup` -/
example : ((init.run setup).checkIfAllowed "n/a" "n/b" "TCP" "http").1 = .error .badPort :=
  bad_port_always_rejected (init.run setup) "n/a" "n/b" "TCP" "http" _ _ setup_peers.1 setup_peers.2
    (by decide) toInt_http (by decide)

/-- … and of `bad_port_leaves_state` -/
example : (init.run setup).checkIfAllowed "n/a" "n/b" "TCP" "http" = (.error .badPort, init.run setup) :=
  bad_port_leaves_state (init.run setup) "n/a" "n/b" "TCP" "http" _ _ setup_peers.1 setup_peers.2
    (by decide) toInt_http (by decide)

theorem hist_eng : (init.run hist).eng = { (init.run setup).eng with netpols := [denyB] } := by
  rw [hist_eq, run_append, after_first]
  rfl

theorem hist_peers :
    getPeer (init.run hist).eng "n/a" = .ok (.pod podA (some (Engine.nsFromCore nsN))) ∧
    getPeer (init.run hist).eng "n/b" = .ok (.pod podB (some (Engine.nsFromCore nsN))) := by
  rw [getPeer_na, getPeer_nb, hist_eng]
  constructor <;> rfl

/-- the hypotheses of `bad_port_never_answered` are satisfiable: after the history `hist` (with
its cached and cleared verdicts) the query with the port `"http"` -/
example : ((init.run hist).checkIfAllowed "n/a" "n/b" "TCP" "http").1 = .error .badPort :=
  bad_port_never_answered 10 hist "n/a" "n/b" "TCP" "http" _ _
    hist_peers.1 hist_peers.2 (by decide) toInt_http (by decide)

/-- **the validation precedes the cache lookup: a colliding key cannot answer a port that does not
parse.** The key is a string concatenation: the queries `("TCP/80", "80")` and `("TCP", "80/80")`
of `a → b` have the same key. The first passes the validation (`"80"` parses) and is answered
`true` and cached — the engine holds no policy, no rule compares the protocol. The second, whose
port `"80/80"` does not parse, finds that entry under its key — and is rejected all the same, as
without cache, and leaves the cache as it is. (With the validation placed after the lookup it
was answered by the cached `true`.) -/
def collideQ : HOp := .q "n/a" "n/b" "TCP/80" "80"
def collideKey : String := "n/ra/map[app:a]$/n/rb/map[app:b]$/TCP/80/80"

theorem verdict_tcp80_80 (e : Engine) (sp dp : KPeer) :
    verdict e sp dp "TCP/80" "80" = walk e sp dp "TCP/80" "80" := verdict_of_toInt e sp dp toInt_80

theorem answer_tcp80_80 (s : EState) (sp dp : KPeer) :
    s.answer sp dp "TCP/80" "80" = s.cachedAnswer sp dp "TCP/80" "80" :=
  answer_goodQuery s sp dp (badQuery_of_toInt toInt_80)

theorem after_collide : init.run (setup ++ [collideQ]) =
    { eng := (init.run setup).eng, cache := { items := [(collideKey, true)], cap := 10 },
      owners := (init.run setup).owners } := by
  rw [run_append]
  show ((init.run setup).checkIfAllowed "n/a" "n/b" "TCP/80" "80").2 = _
  rw [checkIfAllowed_eq, getPeer_na, getPeer_nb]
  simp only [answer_tcp80_80, cachedAnswer, verdict_tcp80_80]
  rfl

theorem collide_peers :
    getPeer (init.run (setup ++ [collideQ])).eng "n/a" =
      .ok (.pod podA (some (Engine.nsFromCore nsN))) ∧
    getPeer (init.run (setup ++ [collideQ])).eng "n/b" =
      .ok (.pod podB (some (Engine.nsFromCore nsN))) := by
  rw [after_collide]
  exact setup_peers

theorem collision_rejected :
    "80/80".toInt? = none ∧
    -- the colliding entry is there, under the key of the query that does not validate
    (init.run (setup ++ [collideQ])).cache.items = [(collideKey, true)] ∧
    connKey (.pod podA (some (Engine.nsFromCore nsN))) (.pod podB (some (Engine.nsFromCore nsN)))
      "TCP" "80/80" = collideKey ∧
    -- and yet the query is rejected, the state unchanged, as without cache
    (init.run (setup ++ [collideQ])).checkIfAllowed "n/a" "n/b" "TCP" "80/80" =
      (.error .badPort, init.run (setup ++ [collideQ])) ∧
    (init.run (setup ++ [collideQ])).uncached "n/a" "n/b" "TCP" "80/80" = .error .badPort := by
  refine ⟨toInt_80_80, ?_, ?_, ?_, ?_⟩
  · rw [after_collide]
  · decide
  · exact bad_port_leaves_state _ "n/a" "n/b" "TCP" "80/80" _ _ collide_peers.1 collide_peers.2
      (by decide) toInt_80_80 (by decide)
  · rw [← bad_port_transparent _ _ _ _ _ toInt_80_80 (by decide)]
    rw [bad_port_leaves_state _ "n/a" "n/b" "TCP" "80/80" _ _ collide_peers.1 collide_peers.2
      (by decide) toInt_80_80 (by decide)]

/-- the cached key of that state is the key of a validated query, as `cache_only_validated` says
(and also the key of the query that does not validate) -/
example : (init.run (setup ++ [collideQ])).CacheValidated := cache_only_validated 10 _

/-- admin policies inserted as priority 5, 3, 4 are held as 3, 4, 5; deleting an absent one
changes nothing but the (empty) cache -/
def anp (name : String) (prio : Int) : ANP :=
  { name := name, prio := prio, subject := .nss ⟨[], []⟩, ingress := [], egress := [] }

example : ((init.run [.ins (.anp (anp "x" 5)), .ins (.anp (anp "y" 3)), .ins (.anp (anp "z" 4))]).eng.anps.map
    (·.name)) = ["y", "z", "x"] := by decide

example : (init.run [.ins (.anp (anp "x" 5)), .del (.anp (anp "w" 1))]).eng.anps.map (·.name) = ["x"] := by
  decide

end Example

end Netpol.Properties.C15
