import Netpol.Proofs.CacheLayer
/-! # C15 — the evaluation cache is transparent

After any sequence of inserts / deletes / queries, `CheckIfAllowed` returns what the same engine
would return without any cache (cached results never leak through an update); admin policies stay
ordered by priority whatever the insertion order; deleting an absent object is a no-op.

The model is `Netpol.Model.Cache` (`EState.insert`, `EState.delete`, `EState.checkIfAllowed`); the
proofs are in `Netpol.Proofs.CacheLayer`.

**The hypothesis.** The cache key of a query is the string
`ns/owner/variant/ns/owner/variant/proto/port` (`EState.connKey`). The design presupposes that this
string determines everything the evaluation reads. `OpsConsistent attrs nsOf ops` states it for a
history `ops`: owned pods ever inserted are real pods whose labels, ports and namespace are
functions (`attrs`, `nsOf`) of their owner key ("pods with one owner key are interchangeable"), and
the concatenation can be split in one way only on the owner keys and the (protocol, port) strings
of the history. The last clause cannot be dropped: with pods `n/a/v`, `n/b/v` the queries
`(proto, port) = ("TCP/80", "80")` and `("TCP", "80/80")` have the same key, the first is answered
`false` by a policy with ports (unknown protocol) and cached, the second is an error (`badPort`)
without cache (remark, not a theorem here). Hence the queried strings of the final query belong to the hypothesis:
`OpsConsistent attrs nsOf (ops ++ [.q src dst proto port])`. -/
namespace Netpol.Properties.C15
open Netpol EState

/-- **C15, cache transparency.** After any history `ops` (inserts, deletes, queries, clears) a
query is answered as by the same engine state with an empty cache. -/
theorem cache_transparent (attrs : String → Labels × List CPort) (nsOf : String → String)
    (n : Nat) (ops : List HOp) (src dst proto port : String)
    (h : OpsConsistent attrs nsOf (ops ++ [.q src dst proto port])) :
    ((EState.run { cache := { cap := n } } ops).checkIfAllowed src dst proto port).1 =
      (EState.run { cache := { cap := n } } ops).uncached src dst proto port :=
  cache_transparent_faithful n ops src dst proto port h.faithful

/-- the shape "consistent history, then any query with (protocol, port) strings seen before" -/
theorem cache_transparent_requery (attrs : String → Labels × List CPort) (nsOf : String → String)
    (n : Nat) (ops : List HOp) (h : OpsConsistent attrs nsOf ops) (src dst proto port : String)
    (hq : (proto, port) ∈ opsQueries ops) :
    ((EState.run { cache := { cap := n } } ops).checkIfAllowed src dst proto port).1 =
      (EState.run { cache := { cap := n } } ops).uncached src dst proto port :=
  cache_transparent attrs nsOf n ops src dst proto port (h.requery src dst hq)

/-- the same for every query inside a consistent history -/
theorem cache_transparent_everywhere (attrs : String → Labels × List CPort) (nsOf : String → String)
    (n : Nat) (pre post : List HOp) (src dst proto port : String)
    (h : OpsConsistent attrs nsOf (pre ++ .q src dst proto port :: post)) :
    ((EState.run { cache := { cap := n } } pre).checkIfAllowed src dst proto port).1 =
      (EState.run { cache := { cap := n } } pre).uncached src dst proto port :=
  Netpol.cache_transparent_everywhere n pre post src dst proto port h.faithful

/-- the uncached answer is the rule-walking verdict of the resolved peers: it reads the state
only through the engine's objects -/
theorem uncached_is_verdict (s : EState) (src dst proto port : String) :
    s.uncached src dst proto port =
      match getPeer s.eng src with
      | .error e => .error e
      | .ok sp =>
        match getPeer s.eng dst with
        | .error e => .error e
        | .ok dp =>
          if Engine.isPodToItself sp dp then .ok true else verdict s.eng sp dp proto port :=
  uncached_eq s src dst proto port

/-- **cached results never leak through an update**: inserting or deleting a NetworkPolicy, a
Namespace, an AdminNetworkPolicy or the BaselineAdminNetworkPolicy either leaves the state as it
is (rejected insertion, absent baseline policy) or leaves an empty cache -/
theorem update_never_leaks (s : EState) (o : Obj) (ho : o.isPolicyOrNs = true) :
    ((s.step (.ins o)).1 = s ∨ (s.step (.ins o)).1.cache.items = []) ∧
    ((s.step (.del o)).1 = s ∨ (s.step (.del o)).1.cache.items = []) :=
  ⟨insert_policy_cache s o ho, delete_policy_cache s o ho⟩

/-- an accepted insertion of such an object empties the cache -/
theorem accepted_update_clears (s : EState) (o : Obj) (ho : o.isPolicyOrNs = true)
    (hok : (s.insert o).1 = .ok) : (s.step (.ins o)).1.cache.items = [] :=
  insert_policy_ok_cache s o ho hok

/-- **admin policies stay ordered by priority** whatever the history -/
theorem anps_sorted_invariant (n : Nat) (ops : List HOp) :
    ((EState.run { cache := { cap := n } } ops).eng.anps).Pairwise (fun a b => a.prio ≤ b.prio) :=
  EState.run_byPrio (s := { cache := { cap := n } }) List.Pairwise.nil ops

theorem anps_sorted_invariant' (ops : List HOp) :
    ((EState.run {} ops).eng.anps).Pairwise (fun a b => a.prio ≤ b.prio) :=
  EState.run_byPrio (s := {}) List.Pairwise.nil ops

/-- **the insertion order is irrelevant**: two permutations of a list of admin policies with
distinct (fresh) names and distinct priorities, inserted into the same engine (sorted, priorities
distinct from the new ones), are both accepted and yield the same slice -/
theorem anps_insertion_order_irrelevant (e : Engine) (l₁ l₂ : List ANP) (hp : l₁.Perm l₂)
    (hexp : e.exposure = false) (hn : (e.anpNames ++ l₁.map (·.name)).Nodup)
    (hs : e.anps.Pairwise (fun a b => a.prio ≤ b.prio))
    (hprio : ((l₁ ++ e.anps).map (·.prio)).Nodup) :
    ∃ e₁ e₂, l₁.foldlM Engine.insertANP e = .ok e₁ ∧ l₂.foldlM Engine.insertANP e = .ok e₂ ∧
      e₁.anps = e₂.anps :=
  CacheLayer.insertANPs_perm e l₁ l₂ hp hexp hn hs hprio

/-- from the empty engine -/
theorem anps_insertion_order_irrelevant_empty (l₁ l₂ : List ANP) (hp : l₁.Perm l₂)
    (hn : (l₁.map (·.name)).Nodup) (hprio : (l₁.map (·.prio)).Nodup) :
    ∃ e₁ e₂, l₁.foldlM Engine.insertANP {} = .ok e₁ ∧ l₂.foldlM Engine.insertANP {} = .ok e₂ ∧
      e₁.anps = e₂.anps :=
  CacheLayer.insertANPs_perm {} l₁ l₂ hp rfl (by simpa using hn) List.Pairwise.nil (by simpa using hprio)

/-- in every reachable state the sorted slice and the name map agree -/
theorem anps_names_invariant (n : Nat) (ops : List HOp) :
    AdmInv (EState.run { cache := { cap := n } } ops).eng :=
  EState.run_admInv (s := { cache := { cap := n } }) ⟨List.nodup_nil, fun _ h => by cases h⟩ ops

/-- **deleting an absent object is a no-op**: the answer is `ok` and the engine is unchanged. For a
pod and the baseline policy the whole state is unchanged; for a namespace, a NetworkPolicy and an
admin policy the cache is cleared as by every such update (`cacheClear` keeps `eng`). -/
theorem delete_absent_noop (s : EState) :
    (∀ p : Pod, s.eng.findPod (Engine.podKey p) = none → s.delete (.pod p) = (.ok, s)) ∧
    (∀ n : NsObj, (∀ x ∈ s.eng.namespaces, x.name ≠ n.name) →
      s.delete (.ns n) = (.ok, s.cacheClear)) ∧
    (∀ p : NetPol, (∀ x ∈ s.eng.netpols, ¬ (x.ns = p.ns ∧ x.name = p.name)) →
      s.delete (.np p) = (.ok, s.cacheClear)) ∧
    (∀ a : ANP, a.name ∉ s.eng.anpNames → (∀ x ∈ s.eng.anps, x.name ≠ a.name) →
      s.delete (.anp a) = (.ok, s.cacheClear)) ∧
    (∀ b : BANP, s.eng.banp = none → s.delete (.banp b) = (.ok, s)) ∧
    (∀ b cur : BANP, s.eng.banp = some cur → cur.name ≠ b.name → s.delete (.banp b) = (.ok, s)) ∧
    s.cacheClear.eng = s.eng :=
  ⟨delete_absent_pod s, delete_absent_ns s, delete_absent_np s, delete_absent_anp s,
   delete_absent_banp s, delete_other_banp s, rfl⟩

/-- in a reachable state an admin policy is absent as soon as its name is not registered -/
theorem delete_absent_anp_reachable (n : Nat) (ops : List HOp) (a : ANP)
    (h : a.name ∉ (EState.run { cache := { cap := n } } ops).eng.anpNames) :
    (EState.run { cache := { cap := n } } ops).delete (.anp a) =
      (.ok, (EState.run { cache := { cap := n } } ops).cacheClear) :=
  delete_absent_anp_of_admInv _ (anps_names_invariant n ops) a h

/-! ## non-vacuity: a concrete history

`ns n`, two owned pods `n/a`, `n/b`, a query (allowed, cached under the owner key), a NetworkPolicy
denying it (cache cleared), the same query (denied = uncached). `String.splitOn` is defined by
well-founded recursion and does not reduce in the kernel, hence the hand-unrolled `splitOn` facts. -/
namespace Example
open String in
theorem aux_end {s sep : String} {b i j : Pos.Raw} {r : List String} (h : i.atEnd s = true) :
    splitOnAux s sep b i j r = ((b.extract s i) :: r).reverse := by
  rw [splitOnAux]; simp [h]

open String in
theorem aux_ne {s sep : String} {b i j : Pos.Raw} {r : List String} (h1 : i.atEnd s = false)
    (h2 : (i.get s == j.get sep) = false) :
    splitOnAux s sep b i j r = splitOnAux s sep b ((i.unoffsetBy j).next s) 0 r := by
  rw [splitOnAux]; simp [h1, h2]

open String in
theorem aux_eq_end {s sep : String} {b i j : Pos.Raw} {r : List String} (h1 : i.atEnd s = false)
    (h2 : (i.get s == j.get sep) = true) (h3 : (j.next sep).atEnd sep = true) :
    splitOnAux s sep b i j r =
      splitOnAux s sep (i.next s) (i.next s) 0 (b.extract s ((i.next s).unoffsetBy (j.next sep)) :: r) := by
  rw [splitOnAux]; simp [h1, h2, h3]

theorem split_na : "n/a".splitOn "/" = ["n", "a"] := by
  unfold String.splitOn
  rw [if_neg (by decide), aux_ne (by decide) (by decide),
    aux_eq_end (by decide) (by decide) (by decide), aux_ne (by decide) (by decide),
    aux_end (by decide)]
  decide

theorem split_nb : "n/b".splitOn "/" = ["n", "b"] := by
  unfold String.splitOn
  rw [if_neg (by decide), aux_ne (by decide) (by decide),
    aux_eq_end (by decide) (by decide) (by decide), aux_ne (by decide) (by decide),
    aux_end (by decide)]
  decide

theorem dot_na : "n/a".splitOn "." = ["n/a"] := by
  unfold String.splitOn
  rw [if_neg (by decide), aux_ne (by decide) (by decide), aux_ne (by decide) (by decide),
    aux_ne (by decide) (by decide), aux_end (by decide)]
  decide

theorem dot_nb : "n/b".splitOn "." = ["n/b"] := by
  unfold String.splitOn
  rw [if_neg (by decide), aux_ne (by decide) (by decide), aux_ne (by decide) (by decide),
    aux_ne (by decide) (by decide), aux_end (by decide)]
  decide

theorem dot_n : "n".splitOn "." = ["n"] := by
  unfold String.splitOn
  rw [if_neg (by decide), aux_ne (by decide) (by decide), aux_end (by decide)]
  decide

/-- the pod and namespace lookup of `getPeer` -/
def lookup (e : Engine) (x : String) : Except Err KPeer :=
  match e.findPod x with
  | none => .error .notFoundPeer
  | some pod =>
    match e.findNs (if pod.ns == "" then "default" else pod.ns) with
    | none => .error .notFoundNamespace
    | some ns => .ok (.pod pod (some ns))

/-- `getPeer` on a `namespace/name` string whose parts are no addresses -/
theorem getPeer_name (e : Engine) (x a b : String) (h1 : x.splitOn "/" = [a, b])
    (h2 : isIPv4 a = none) (h3 : isIPv4 x = none) : getPeer e x = lookup e x := by
  simp only [getPeer, h1, h2, h3, strContains, lookup]
  cases e.findPod x with
  | none => simp
  | some pod => simp only []; cases e.findNs (if pod.ns == "" then "default" else pod.ns) <;> simp

theorem getPeer_na (e : Engine) : getPeer e "n/a" = lookup e "n/a" :=
  getPeer_name e "n/a" "n" "a" split_na (by simp [isIPv4, dot_n]) (by simp [isIPv4, dot_na])
theorem getPeer_nb (e : Engine) : getPeer e "n/b" = lookup e "n/b" :=
  getPeer_name e "n/b" "n" "b" split_nb (by simp [isIPv4, dot_n]) (by simp [isIPv4, dot_nb])


def nsN : NsObj := ⟨"n", []⟩
def podA : Pod :=
  { ns := "n", name := "a", labels := [("app", "a")], ports := [], ownerKind := "ReplicaSet",
    ownerName := "ra", variant := "map[app:a]$" }
def podB : Pod :=
  { ns := "n", name := "b", labels := [("app", "b")], ports := [], ownerKind := "ReplicaSet",
    ownerName := "rb", variant := "map[app:b]$" }
/-- selects `b`, affects ingress, allows nothing -/
def denyB : NetPol :=
  { ns := "n", name := "deny-b", podSel := ⟨[("app", "b")], []⟩, types := [.ingress],
    ingress := [], egress := [] }

def init : EState := { cache := { cap := 10 } }
def setup : List HOp := [.ins (.ns nsN), .ins (.pod podA), .ins (.pod podB)]
def query : HOp := .q "n/a" "n/b" "TCP" "80"
def hist : List HOp := setup ++ [query, .ins (.np denyB)]

example : variantOf podA.labels podA.ports = podA.variant := by decide +kernel

/-- first query: allowed -/
theorem first_answer : ((init.run setup).checkIfAllowed "n/a" "n/b" "TCP" "80").1 = .ok true := by
  rw [checkIfAllowed_eq, getPeer_na, getPeer_nb]
  rfl


theorem run_append (s : EState) (a b : List HOp) : s.run (a ++ b) = (s.run a).run b := by
  simp [EState.run, List.foldl_append]

def key : String := "n/ra/map[app:a]$/n/rb/map[app:b]$/TCP/80"

/-- the state after the first query: the verdict is cached under the owner key -/
theorem after_first : init.run (setup ++ [query]) =
    { eng := (init.run setup).eng, cache := { items := [(key, true)], cap := 10 },
      owners := (init.run setup).owners } := by
  rw [run_append]
  show ((init.run setup).checkIfAllowed "n/a" "n/b" "TCP" "80").2 = _
  rw [checkIfAllowed_eq, getPeer_na, getPeer_nb]
  rfl

theorem hist_eq : hist = (setup ++ [query]) ++ [.ins (.np denyB)] := rfl

/-- the accepted NetworkPolicy clears the cache -/
theorem after_update : (init.run hist).cache.items = [] ∧ (init.run hist).eng.netpols = [denyB] := by
  rw [hist_eq, run_append, after_first]
  exact ⟨rfl, rfl⟩

/-- second, identical query: now denied -/
theorem second_answer : ((init.run hist).checkIfAllowed "n/a" "n/b" "TCP" "80").1 = .ok false := by
  rw [hist_eq, run_append, after_first, checkIfAllowed_eq, getPeer_na, getPeer_nb]
  rfl

theorem second_uncached : (init.run hist).uncached "n/a" "n/b" "TCP" "80" = .ok false := by
  rw [hist_eq, run_append, after_first, uncached_eq, getPeer_na, getPeer_nb]
  rfl

/-- the clearing matters: with the cache of before the update the stale verdict would leak -/
theorem stale_would_leak :
    (({ init.run hist with cache := (init.run (setup ++ [query])).cache } : EState).checkIfAllowed
      "n/a" "n/b" "TCP" "80").1 = .ok true := by
  rw [hist_eq, run_append, after_first, checkIfAllowed_eq, getPeer_na, getPeer_nb]
  rfl

def exAttrs (k : String) : Labels × List CPort :=
  if k = "n/ra/map[app:a]$" then ([("app", "a")], []) else ([("app", "b")], [])
def exNsOf (_ : String) : String := "n"

/-- the hypothesis of `cache_transparent` is satisfiable -/
theorem hist_consistent : OpsConsistent exAttrs exNsOf (hist ++ [query]) := by
  constructor <;> decide


/-- a second identical query without update is a cache hit and agrees with the uncached answer -/
theorem hit_answer :
    ((init.run (setup ++ [query])).checkIfAllowed "n/a" "n/b" "TCP" "80").1 = .ok true ∧
    (init.run (setup ++ [query])).uncached "n/a" "n/b" "TCP" "80" = .ok true := by
  rw [after_first, checkIfAllowed_eq, uncached_eq, getPeer_na, getPeer_nb]
  exact ⟨rfl, rfl⟩

/-- `cache_transparent` applied to the history: its hypothesis holds, its conclusion is the
equation `false = false` computed above (and not the stale `true`) -/
example : ((init.run hist).checkIfAllowed "n/a" "n/b" "TCP" "80").1 =
    (init.run hist).uncached "n/a" "n/b" "TCP" "80" :=
  cache_transparent exAttrs exNsOf 10 hist "n/a" "n/b" "TCP" "80" hist_consistent

example : ((init.run hist).checkIfAllowed "n/a" "n/b" "TCP" "80").1 ≠
    ((init.run setup).checkIfAllowed "n/a" "n/b" "TCP" "80").1 := by
  rw [second_answer, first_answer]; intro h; cases h

/-- admin policies inserted as priority 5, 3, 4 are held as 3, 4, 5; deleting an absent one
changes nothing but the (empty) cache -/
def anp (name : String) (prio : Int) : ANP :=
  { name := name, prio := prio, subject := .nss ⟨[], []⟩, ingress := [], egress := [] }

example : ((init.run [.ins (.anp (anp "x" 5)), .ins (.anp (anp "y" 3)), .ins (.anp (anp "z" 4))]).eng.anps.map
    (·.name)) = ["y", "z", "x"] := by decide

example : (init.run [.ins (.anp (anp "x" 5)), .del (.anp (anp "w" 1))]).eng.anps.map (·.name) = ["x"] := by
  decide

end Example

end Netpol.Properties.C15
