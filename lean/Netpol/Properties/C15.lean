import Netpol.Model.Cache
namespace Netpol.Properties.C15
open Netpol

end Netpol.Properties.C15
