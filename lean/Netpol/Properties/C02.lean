import Netpol.Model.Engine
import Netpol.Spec.K8s
namespace Netpol.Properties.C02
open Netpol

end Netpol.Properties.C02
