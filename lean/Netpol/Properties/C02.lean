import Netpol.Model.Engine
import Netpol.Spec.K8s
import Netpol.Proofs.EngineLayer

/-! C02: precedence of the policy layers — AdminNetworkPolicy (by priority, first matching rule)
over NetworkPolicy over BaselineAdminNetworkPolicy — is computed exactly.

The model of `allAllowedXgressConnections` / `allAllowedConnectionsBetweenPeers`
(`Engine.xgressConns`, `Engine.peerConns`) against `Spec.anpVerdict`, `Spec.governs` /
`Spec.npAllows`, `Spec.banpVerdict`. Only the property statements are here; the proofs are in
`Netpol.Proofs.EngineLayer`. Vocabulary as in `Netpol.Properties.C01`; in addition
`Spec.governsEnd` / `Spec.npAllowsEnd` are `Spec.governs` / `Spec.npAllows` on a specification end
(an external address is never governed). -/
namespace Netpol.Properties.C02
open Netpol Engine

/-! ### the precedence, spelled out -/

/-- the decision for one direction from the answers of the three layers: an ANP `Allow` or `Deny`
is final; otherwise (no ANP rule matches, or the first matching one says `Pass`) the
NetworkPolicies decide if some NetworkPolicy governs the pod; otherwise everything is allowed but
what the BANP denies -/
def layered (anp : Option Action) (governed : Bool) (np : Bool) (banp : Option Action) : Bool :=
  match anp with
  | some .Allow => true
  | some .Deny => false
  | _ => if governed then np else banp != some .Deny

/-- the decision of the specification for `self` in direction `d` -/
def dirDecision (v : Spec.View) (self other dst : Spec.End) (d : Dir) (pr : Proto) (x : Int) : Bool :=
  layered (Spec.anpVerdict v self other dst d pr x) (Spec.governsEnd v self d)
    (Spec.npAllowsEnd v self other dst d pr x) (Spec.banpVerdict v self other dst d pr x)

theorem allowedDir_eq_dirDecision (v : Spec.View) (self other dst : Spec.End) (d : Dir) (pr : Proto)
    (x : Int) : Spec.allowedDir v self other dst d pr x = dirDecision v self other dst d pr x :=
  Spec.allowedDir_eq v self other dst d pr x

/-- one direction: the set `xgressConns` returns holds exactly the in-range points the layered
decision allows (`self` is the destination on ingress, the source on egress) -/
theorem admin_precedence_exact_dir (e : Engine) (hv : e.Valid) (src dst : KPeer) (a b : Int)
    (hs : src.Concrete a) (hd : dst.Concrete b) (hdok : dst.DstOK) (isIngress : Bool) (c : ConnSet)
    (h : e.xgressConns src dst isIngress = .ok c) :
    c.WF ∧ ∀ pr x, c.den pr x ↔ (inRange x ∧
      dirDecision e.toView (selfEnd src dst a b isIngress) (otherEnd src dst a b isIngress)
        (dst.toEnd b) (dirOf isIngress) pr x = true) := by
  obtain ⟨hw, hden⟩ := (xgressConns_spec e hv src dst a b hs hd hdok isIngress).1 c h
  refine ⟨hw, fun pr x => ?_⟩
  rw [hden, allowedDir_eq_dirDecision]

/-- between two different peers: a (protocol, port) pair is reported iff it is a port number and
the layered decision allows it on the egress side of the source and on the ingress side of the
destination -/
theorem admin_precedence_exact (e : Engine) (hv : e.Valid) (src dst : KPeer) (a b : Int)
    (hs : src.Concrete a) (hd : dst.Concrete b) (hdok : dst.DstOK)
    (hne : Engine.isPodToItself src dst = false) (c : ConnSet) (h : e.peerConns src dst = .ok c) :
    c.WF ∧ ∀ pr x, c.den pr x ↔ (inRange x ∧
      dirDecision e.toView (src.toEnd a) (dst.toEnd b) (dst.toEnd b) .egress pr x = true ∧
      dirDecision e.toView (dst.toEnd b) (src.toEnd a) (dst.toEnd b) .ingress pr x = true) := by
  obtain ⟨hw, hden⟩ := (peerConns_spec e hv src dst a b hs hd hdok hne).1 c h
  refine ⟨hw, fun pr x => ?_⟩
  rw [hden]
  simp only [Spec.allowed, Bool.and_eq_true, Spec.inPortRange_iff, allowedDir_eq_dirDecision,
    and_assoc]

/-! consequences that show the order of the layers -/

/-- an ANP `Deny` on either side wins over every NetworkPolicy and over the BANP -/
theorem anp_deny_wins (e : Engine) (hv : e.Valid) (src dst : KPeer) (a b : Int)
    (hs : src.Concrete a) (hd : dst.Concrete b) (hdok : dst.DstOK)
    (hne : Engine.isPodToItself src dst = false) (c : ConnSet) (h : e.peerConns src dst = .ok c)
    (pr : Proto) (x : Int)
    (hdeny : Spec.anpVerdict e.toView (src.toEnd a) (dst.toEnd b) (dst.toEnd b) .egress pr x
        = some .Deny ∨
      Spec.anpVerdict e.toView (dst.toEnd b) (src.toEnd a) (dst.toEnd b) .ingress pr x
        = some .Deny) : ¬ c.den pr x := by
  intro hc
  obtain ⟨_, h1, h2⟩ := ((admin_precedence_exact e hv src dst a b hs hd hdok hne c h).2 pr x).mp hc
  rcases hdeny with hd' | hd'
  · simp [dirDecision, layered, hd'] at h1
  · simp [dirDecision, layered, hd'] at h2

/-- an ANP `Allow` on both sides wins over every NetworkPolicy and over the BANP -/
theorem anp_allow_wins (e : Engine) (hv : e.Valid) (src dst : KPeer) (a b : Int)
    (hs : src.Concrete a) (hd : dst.Concrete b) (hdok : dst.DstOK)
    (hne : Engine.isPodToItself src dst = false) (c : ConnSet) (h : e.peerConns src dst = .ok c)
    (pr : Proto) (x : Int) (hx : inRange x)
    (h1 : Spec.anpVerdict e.toView (src.toEnd a) (dst.toEnd b) (dst.toEnd b) .egress pr x
      = some .Allow)
    (h2 : Spec.anpVerdict e.toView (dst.toEnd b) (src.toEnd a) (dst.toEnd b) .ingress pr x
      = some .Allow) : c.den pr x := by
  apply ((admin_precedence_exact e hv src dst a b hs hd hdok hne c h).2 pr x).mpr
  simp [dirDecision, layered, h1, h2, hx]

/-- when no ANP decides (no matching rule, or `Pass`) a governing NetworkPolicy hides the BANP:
the direction is decided by `Spec.npAllows` alone -/
theorem netpol_over_banp (v : Spec.View) (self other dst : Spec.End) (d : Dir) (pr : Proto) (x : Int)
    (hanp : Spec.anpVerdict v self other dst d pr x = none ∨
      Spec.anpVerdict v self other dst d pr x = some .Pass)
    (hg : Spec.governsEnd v self d = true) :
    dirDecision v self other dst d pr x = Spec.npAllowsEnd v self other dst d pr x := by
  rcases hanp with h | h <;> simp [dirDecision, layered, h, hg]

/-- … and the BANP is consulted only for an ungoverned pod, where it can only deny -/
theorem banp_last (v : Spec.View) (self other dst : Spec.End) (d : Dir) (pr : Proto) (x : Int)
    (hanp : Spec.anpVerdict v self other dst d pr x = none ∨
      Spec.anpVerdict v self other dst d pr x = some .Pass)
    (hg : Spec.governsEnd v self d = false) :
    dirDecision v self other dst d pr x = (Spec.banpVerdict v self other dst d pr x != some .Deny) := by
  rcases hanp with h | h <;> simp [dirDecision, layered, h, hg]

/-! ### admin policies never select an IP block -/

/-- specification side: no verdict for an external address -/
theorem anp_never_selects_ip (v : Spec.View) (a : Int) (other dst : Spec.End) (d : Dir) (pr : Proto)
    (x : Int) :
    Spec.anpVerdict v (.ip a) other dst d pr x = none ∧
      Spec.banpVerdict v (.ip a) other dst d pr x = none :=
  ⟨Spec.anpVerdict_ip v a other dst d pr x, Spec.banpVerdict_ip v a other dst d pr x⟩

/-- model side: for an IP block the ANP layer answers "not captured", whatever the policies -/
theorem anp_never_selects_ip_model (e : Engine) (src dst : KPeer) (isIngress : Bool) (r : CSet)
    (hs : selfPeer src dst isIngress = .ip r) :
    e.anpConns src dst isIngress = .ok (PolicyConns.empty, false) :=
  anpConns_self_ip e src dst isIngress r hs

/-- hence the side of an external address is unrestricted -/
theorem ip_side_unrestricted (e : Engine) (hv : e.Valid) (src dst : KPeer) (a b : Int)
    (hs : src.Concrete a) (hd : dst.Concrete b) (hdok : dst.DstOK) (isIngress : Bool) (r : CSet)
    (hself : selfPeer src dst isIngress = .ip r) (c : ConnSet)
    (h : e.xgressConns src dst isIngress = .ok c) : ∀ pr x, c.den pr x ↔ inRange x := by
  obtain ⟨_, hden⟩ := (xgressConns_spec e hv src dst a b hs hd hdok isIngress).1 c h
  intro pr x
  rw [hden]
  have : ∃ a', selfEnd src dst a b isIngress = .ip a' := by
    cases isIngress
    · simp only [selfPeer_false] at hself; subst hself; exact ⟨a, rfl⟩
    · simp only [selfPeer_true] at hself; subst hself; exact ⟨b, rfl⟩
  obtain ⟨a', ha'⟩ := this
  rw [ha']
  simp [Spec.allowedDir]

/-! ### the answers depend on the priorities only, not on the order of the input -/

/-- `sortAdminNetpolsByPriority`: with pairwise distinct priorities the sorted slice does not
depend on the order of the input -/
theorem anp_order_free {l l' : List ANP} (hp : l.Perm l') (hn : (l.map (·.prio)).Nodup) :
    l.foldr Engine.insertByPrio [] = l'.foldr Engine.insertByPrio [] :=
  Engine.anp_order_free hp hn

/-- the same for the slice `insertANP` maintains object after object -/
theorem anp_order_free_insertSorted {l l' : List ANP} (hp : l.Perm l')
    (hn : (l.map (·.prio)).Nodup) :
    l.foldl (fun acc a => Engine.insertSorted a acc) [] =
      l'.foldl (fun acc a => Engine.insertSorted a acc) [] :=
  Engine.anp_order_free_insertSorted hp hn

/-- `sortANPs` on two engines that differ only in the order of their admin policies: same error
or same engine — hence the same answer to every later query -/
theorem sortANPs_order_free (e : Engine) {l l' : List ANP} (hp : l.Perm l') :
    ({ e with anps := l } : Engine).sortANPs = ({ e with anps := l' } : Engine).sortANPs :=
  Engine.sortANPs_order_free e hp

/-- the sortedness clause of `Engine.Valid` is what `build` establishes -/
theorem build_sorted {objs : List Obj} {e : Engine} (h : Engine.build objs = .ok e) :
    e.anps.Pairwise (fun a b => a.prio ≤ b.prio) :=
  Engine.build_sorted h

/-! ### non-vacuity: a concrete engine with the three layers -/
namespace Examples
attribute [local instance] Engine.decEqExcept

def selAll : Selector := ⟨[], []⟩
def nsDefault : NsObj := ⟨"default", [("kubernetes.io/metadata.name", "default")]⟩
def web : Pod :=
  { ns := "default", name := "web", labels := [("app", "web")], ports := [⟨"http", .TCP, 8080⟩] }
def client : Pod :=
  { ns := "default", name := "client", labels := [("app", "client")], ports := [] }

/-- selects `web`, ingress only: from `client` on the named port `http`, UDP 53 and TCP 9000 -/
def np : NetPol :=
  { ns := "default", name := "np", podSel := ⟨[("app", "web")], []⟩, types := [],
    ingress := [⟨[.sel (some ⟨[("app", "client")], []⟩) none],
      [⟨none, .name "http"⟩, ⟨some .UDP, .num 53 none⟩, ⟨none, .num 9000 none⟩]⟩],
    egress := [] }

/-- every pod: deny ingress on UDP 53, pass everything else to the lower layers -/
def anp : ANP :=
  { name := "a", prio := 5, subject := .nss selAll,
    ingress := [⟨"deny-dns", .Deny, [.nss selAll], some [.num (some .UDP) 53]⟩,
      ⟨"pass-rest", .Pass, [.nss selAll], none⟩],
    egress := [] }

/-- every pod: deny ingress on TCP 9000-9100 -/
def banp : BANP :=
  { name := "default", subject := .nss selAll,
    ingress := [⟨"deny-9000", .Deny, [.nss selAll], some [.range none 9000 9100]⟩],
    egress := [] }

def eng : Engine :=
  { namespaces := [nsDefault], pods := [web, client], netpols := [np], anps := [anp],
    anpNames := ["a"], banp := some banp }

def kweb : KPeer := .pod web (some nsDefault)
def kclient : KPeer := .pod client (some nsDefault)

/-! the hypotheses hold -/
example : eng.Valid := by decide
example : kweb.Concrete 0 ∧ kclient.Concrete 0 ∧ kweb.DstOK ∧ kclient.DstOK := by decide
example : Engine.isPodToItself kclient kweb = false ∧ Engine.isPodToItself kweb kclient = false := by
  decide
/-- validity is not trivially true: a BANP with a `Pass` rule, an unsorted slice -/
example : ¬ ({ eng with banp := some { banp with ingress := anp.ingress } } : Engine).Valid ∧
    ¬ ({ eng with anps := [anp, { anp with prio := 1 }] } : Engine).Valid := by decide
/-- the engine is what `build` makes of the objects, in any order (`Engine` has no decidable
equality: the fields are compared) -/
def fields1 (e : Engine) := (e.namespaces, e.pods, e.netpols)
def fields2 (e : Engine) := (e.anps, e.anpNames, e.banp, e.exposure)
def objs1 : List Obj := [.ns nsDefault, .pod web, .pod client, .np np, .anp anp, .banp banp]
def objs2 : List Obj := [.banp banp, .anp anp, .np np, .pod client, .ns nsDefault, .pod web]
example : (Engine.build objs1).map fields1 = .ok (fields1 eng) := by decide
example : (Engine.build objs1).map fields2 = .ok (fields2 eng) := by decide
example : (Engine.build objs2).map fields1 = .ok (fields1 { eng with pods := [client, web] }) := by
  decide
example : (Engine.build objs2).map fields2 = .ok (fields2 eng) := by decide

/-! the model's answers.

`client → web` (`web` is governed on ingress): the ANP denies UDP 53 although the NetworkPolicy
allows it; the `Pass` rule hands the rest to the NetworkPolicy, which allows TCP 8080 and 9000; the
BANP's deny of TCP 9000 is not consulted. -/
example : eng.peerConns kclient kweb =
    .ok ⟨false, some ⟨[⟨8080, 8080⟩, ⟨9000, 9000⟩], [], []⟩, none, none⟩ := by decide
/-- `web → client` (`client` is not governed): everything but what the ANP (UDP 53) and the BANP
(TCP 9000-9100) deny -/
example : eng.peerConns kweb kclient =
    .ok ⟨false, some ⟨[⟨1, 8999⟩, ⟨9101, 65535⟩], [], []⟩,
      some ⟨[⟨1, 52⟩, ⟨54, 65535⟩], [], []⟩, some ⟨[⟨1, 65535⟩], [], []⟩⟩ := by decide

/-! the specification's answers on the same pairs -/
example :
    Spec.allowed eng.toView (kclient.toEnd 0) (kweb.toEnd 0) .TCP 8080 = true ∧
    Spec.allowed eng.toView (kclient.toEnd 0) (kweb.toEnd 0) .UDP 53 = false ∧
    Spec.allowed eng.toView (kclient.toEnd 0) (kweb.toEnd 0) .TCP 9000 = true ∧
    Spec.allowed eng.toView (kclient.toEnd 0) (kweb.toEnd 0) .TCP 80 = false ∧
    Spec.allowed eng.toView (kweb.toEnd 0) (kclient.toEnd 0) .TCP 80 = true ∧
    Spec.allowed eng.toView (kweb.toEnd 0) (kclient.toEnd 0) .TCP 9000 = false ∧
    Spec.allowed eng.toView (kweb.toEnd 0) (kclient.toEnd 0) .UDP 53 = false ∧
    Spec.allowed eng.toView (kweb.toEnd 0) (kclient.toEnd 0) .SCTP 53 = true := by
  simp only [Spec.allowed, Spec.allowedDir_eq, Engine.anpVerdict_sorted eng (by decide)]
  decide

/-- the three layers on the ingress side of `web` and of `client` -/
example :
    Spec.anpVerdict eng.toView (kweb.toEnd 0) (kclient.toEnd 0) (kweb.toEnd 0) .ingress .UDP 53
      = some .Deny ∧
    Spec.anpVerdict eng.toView (kweb.toEnd 0) (kclient.toEnd 0) (kweb.toEnd 0) .ingress .TCP 9000
      = some .Pass ∧
    Spec.governs eng.toView web .ingress = true ∧ Spec.governs eng.toView client .ingress = false ∧
    Spec.banpVerdict eng.toView (kclient.toEnd 0) (kweb.toEnd 0) (kclient.toEnd 0) .ingress .TCP 9000
      = some .Deny := by
  simp only [Engine.anpVerdict_sorted eng (by decide)]
  decide

/-- the theorem at work: facts about the model's result obtained from the specification alone -/
example : ∃ c, eng.peerConns kclient kweb = .ok c ∧ c.WF ∧ c.den .TCP 9000 ∧ ¬ c.den .UDP 53 := by
  cases hc : eng.peerConns kclient kweb with
  | error err =>
    exact absurd ((peerConns_spec eng (by decide) kclient kweb 0 0 (by decide) (by decide)
      (by decide) (by decide)).2 err hc).2.1 (by decide)
  | ok c =>
    obtain ⟨hw, hden⟩ := admin_precedence_exact eng (by decide) kclient kweb 0 0 (by decide)
      (by decide) (by decide) (by decide) c hc
    refine ⟨c, rfl, hw, (hden _ _).mpr ?_, ?_⟩
    · simp only [dirDecision, Engine.anpVerdict_sorted eng (by decide)]
      decide
    · exact anp_deny_wins eng (by decide) kclient kweb 0 0 (by decide) (by decide) (by decide)
        (by decide) c hc .UDP 53 (Or.inr (by
          simp only [Engine.anpVerdict_sorted eng (by decide)]
          decide))

/-- order-freedom on a concrete pair of lists -/
example : [anp, { anp with prio := 1 }].foldr Engine.insertByPrio [] =
    [{ anp with prio := 1 }, anp].foldr Engine.insertByPrio [] :=
  anp_order_free (List.Perm.swap _ _ _) (by decide)

end Examples

end Netpol.Properties.C02
