import Netpol.Properties.C08.Engine
import Netpol.Properties.C08.Format
import Netpol.Properties.C08.Commands
/-! C08 — output is deterministic and independent of the order of the input.

The property is split along the pipeline:

* `Netpol.Properties.C08.Engine` (this import): the modelled `list` report (`WorldDriver.runList`: peers, connection
  lines, ingress-controller lines, blocked list, or the error) does not depend on the order of the input documents
  (`list_order_independent`, under the explicit, decidable, permutation-invariant well-formedness `WellFormed`,
  `IngressWF` and a successful `build`), nor on the order of rules / peers / ports / policyTypes inside NetworkPolicies
  (`np_inner_order_independent`, sharp form `np_inner_order_independent_or`); `build` accepts or rejects a set of
  documents whatever their order (`build_accepts_order_independent`). Every hypothesis is justified there by a
  counterexample (`decide`d on the model); the counterexamples that are legal Kubernetes inputs were replayed on the real
  code (DESIGN.md section 12).
* `Netpol.Properties.C08.Format` (format layer: each formatter is a function of the *set* of computed entries) — see
  that module when present.

* `Netpol.Properties.C08.Commands`: the same for the other commands — `diff` (`diff_order_independent`,
  `diff_inner_order_independent`), `list --exposure` (`listx_order_independent[_struct]`,
  `listx_inner_order_independent[_struct]`) and `eval` (`eval_order_independent`: distinct keys only, since the
  policies selecting a pod are visited in the order of their names; `eval_inner_order_independent` needs that no
  named port can meet an IP block and no rule peer is empty: `eval` stops at the first rule / port / peer that
  allows the point).

Go's map iteration order is modelled as "the model's lists are in input order and the input order is arbitrary":
a theorem quantified over all permutations of the input covers every iteration order of `podsMap`, `netpolsMap`,
`namespacesMap` that the list path can observe. Run-to-run determinism of the real process, and `list --exposure`,
`diff`, `eval`, are decided by K-diff and P (`shuffle` and `fmt` families). -/
