import Netpol.Model.Exposure
import Netpol.Spec.K8s
import Netpol.Proofs.ExposureLayer
import Netpol.Properties.C06

/-! C07: "For every workload protected in a direction and every hypothetical new pod (arbitrary
labels, in an existing or a new namespace), each connection the workload's policies would allow
with that pod is covered by the workload's entire-cluster exposure or by a reported exposure entry
whose selectors the pod satisfies. The only documented omission is a rule whose selectors consist
solely of label equalities that an existing workload (in a matching namespace) already satisfies."

Vocabulary: see `Netpol.Properties.C06`. In addition
* `Exposure.NamesNonEmpty e` — no rule holds the empty string as a port name (API validation).
* `Exposure.RepCovers x np peer q nsl` — the engine holds a representative peer that the rule peer
  `peer` of policy `np` selects (`SelectorsFullMatch`) and whose selectors the hypothetical pod `q`
  (namespace labels `nsl`) satisfies. `rep_covers_of_generated` shows that the representative peer
  generated from `peer` itself does, so that the hypothesis `hcov` of the main theorem says: *the
  representative peer of every rule peer that matches `q` is still there* — it was not removed by
  `removeRepresentativePeersMatchingLabels` (the documented omission) and was not lost to another
  selector pair with the same key. The latter cannot happen on input with label syntax
  (`Exposure.keyInjective_of_ok`) since `uniqueKey` joins the requirement strings with `;` and the
  pair key joins its two parts with `|` (before that repair, `{ab: c}` and `{a exists, b: c}` had the
  same key: see the examples). -/
namespace Netpol.Properties.C07
open Netpol Engine Exposure

/-- without admin policies, a governed pod is allowed what `Spec.npAllows` allows -/
theorem npAllows_of_allowedDir (v : Spec.View) (ha : v.anps = []) (hb : v.banp = none) (p : Pod)
    (l : Labels) (other dst : Spec.End) (d : Dir) (pr : Proto) (x : Int)
    (hg : Spec.governs v p d = true)
    (h : Spec.allowedDir v (.pod p l) other dst d pr x = true) :
    Spec.npAllows v p other dst d pr x = true := by
  rw [C01.allowedDir_np_only v ha hb] at h
  simpa [C01.npOnlyDir, hg] using h

/-- the representative peer generated from a rule peer (same pod selector; the namespace selector
of the rule, or the name label of the policy's namespace) covers every pod the rule peer matches -/
theorem rep_covers_of_generated (x : XEngine) (np : NetPol) (podSel nsSel : Option Selector)
    (q : Pod) (nsl : Labels) (hc : NsConsistent q nsl)
    (hm : Spec.npPeerMatches np (.sel podSel nsSel) (.pod q nsl) = true)
    (krp : String × Pod) (hk : krp ∈ x.reps) (h1 : krp.2.reprPodSel = podSel)
    (h2 : krp.2.reprNsSel = some (nsSel.getD (nsNameSelector np.ns))) :
    RepCovers x np (.sel podSel nsSel) q nsl := by
  rw [Spec.npPeerMatches_sel_pod, Bool.and_eq_true] at hm
  refine ⟨krp, hk, ?_, ?_, ?_⟩
  · rw [h1, h2]
    unfold repPeerMatch
    rw [Bool.and_eq_true]
    constructor
    · cases nsSel with
      | none => exact selectorsFullMatch_self _
      | some s => exact selectorsFullMatch_self s
    · cases podSel with
      | none => rfl
      | some ps => exact selectorsFullMatch_self ps
  · intro ps hps
    rw [h1] at hps
    subst hps
    exact hm.2
  · intro ns hns
    rw [h2] at hns
    cases hns
    cases nsSel with
    | some s => exact hm.1
    | none =>
      have : np.ns = q.ns := by simpa using hm.1
      simp only [Option.getD_none, nsNameSelector, Selector.matches, List.all_cons, List.all_nil,
        Bool.and_true, beq_iff_eq]
      rw [hc, this]

/-- Rung 5, one workload in one direction. For a protected workload and a hypothetical pod `q` in a
namespace with labels `nsl`: every in-range (protocol, port) the workload's policies allow with `q`
is held by an entry of the result that `q` satisfies — the entire-cluster entry, or a selector
entry. `hcov`: a representative peer stands for every rule peer (of a rule that is not
cluster-wide) that matches `q`. -/
theorem exposure_complete (x : XEngine) (ha : x.eng.anps = []) (hb : x.eng.banp = none)
    (hv : NpValid x.eng) (hnn : NamesNonEmpty x.eng) (hreps : ∀ krp ∈ x.reps, RepWF krp.2)
    (n : String) (pod : Pod) (hpod : pod.isRepresentative = false ∧ pod.ValidPorts)
    (ns : NsObj) (hns : x.eng.findNs pod.ns = some ns)
    (i : Bool) (hprot : isProtected x.eng pod i = true) (res : Option (Bool × List XEntry))
    (h : xgressExposure x (.wl n pod) i = .ok res) (q : Pod) (nsl : Labels) (pr : Proto) (p : Int)
    (hp : inRange p)
    (hcov : ∀ np r, PRule x.eng pod (dirOf i) np r → isCW r = false → ∀ peer ∈ r.peers,
      Spec.npPeerMatches np peer (.pod q nsl) = true → RepCovers x np peer q nsl)
    (hal : Spec.allowedDir x.eng.toView (.pod pod ns.labels) (.pod q nsl)
      (dstEnd i pod ns.labels q nsl) (dirOf i) pr p = true) :
    ∃ entries, res = some (true, entries) ∧ ∃ en ∈ entries,
      (en.entireCluster = true ∨ Sat en.podSel en.nsSel q nsl) ∧ denFor i en.conn q pr p := by
  have hgov : Spec.governs x.eng.toView pod (dirOf i) = true := by
    rw [← C06.protected_iff_governs x.eng pod hpod.1 i]; exact hprot
  have hnp := npAllows_of_allowedDir x.eng.toView ha hb pod ns.labels _ _ _ pr p hgov hal
  obtain ⟨ns', hns', h1 | h1⟩ := xgressExposure_spec x hv hreps n pod hpod i res h
  · rw [hprot] at h1; cases h1.1
  · rw [hns] at hns'
    cases hns'
    obtain ⟨_, cw, perRep, hcw, hX, rfl⟩ := h1
    rcases xspec_complete x hv hnn pod hpod ns i cw hcw perRep hX q nsl pr p hp hcov hnp with
      hc | ⟨en, hen, hec, hsat, hden⟩
    · have hne : cw.isEmpty = false := by
        cases hce : cw.isEmpty
        · rfl
        · exact absurd hc (not_denFor_of_isEmpty hce q pr p)
      have hg : general cw = [⟨true, none, none, cw⟩] := by simp [general, hne]
      refine ⟨general cw ++ perRep, ?_, ⟨true, none, none, cw⟩, ?_, Or.inl rfl, hc⟩
      · simp [hg]
      · rw [hg]; exact List.mem_append_left _ (List.mem_singleton.mpr rfl)
    · refine ⟨general cw ++ perRep, ?_, en, List.mem_append_right _ hen, Or.inr hsat, hden⟩
      have : perRep.isEmpty = false := by
        cases perRep with
        | nil => cases hen
        | cons _ _ => rfl
      simp [this]

/-- Rung 5, the report: the covering entry is in the report of the exposed peers -/
theorem exposed_peers_complete (x : XEngine) (ha : x.eng.anps = []) (hb : x.eng.banp = none)
    (hv : NpValid x.eng) (hnn : NamesNonEmpty x.eng) (hreps : ∀ krp ∈ x.reps, RepWF krp.2)
    (peers : List LPeer) (focus : String) (xs : List XPeer)
    (hx : exposedPeers x peers focus = .ok xs) (n : String) (pod : Pod)
    (hw : LPeer.wl n pod ∈ peers) (hf : isFocus focus (.wl n pod) = true)
    (hpod : pod.isRepresentative = false ∧ pod.ValidPorts)
    (ns : NsObj) (hns : x.eng.findNs pod.ns = some ns)
    (i : Bool) (hprot : isProtected x.eng pod i = true) (q : Pod) (nsl : Labels) (pr : Proto)
    (p : Int) (hp : inRange p)
    (hcov : ∀ np r, PRule x.eng pod (dirOf i) np r → isCW r = false → ∀ peer ∈ r.peers,
      Spec.npPeerMatches np peer (.pod q nsl) = true → RepCovers x np peer q nsl)
    (hal : Spec.allowedDir x.eng.toView (.pod pod ns.labels) (.pod q nsl)
      (dstEnd i pod ns.labels q nsl) (dirOf i) pr p = true) :
    ∃ xp ∈ xs, xp.name = n ∧ ∃ en ∈ (if i then xp.ing else xp.eg),
      (en.entireCluster = true ∨ Sat en.podSel en.nsSel q nsl) ∧ denFor i en.conn q pr p := by
  obtain ⟨ri, rg, hi, hg, hcase⟩ := exposedPeers_mem_of hx hw hf
  cases i
  · obtain ⟨entries, rfl, en, hen, hs⟩ := exposure_complete x ha hb hv hnn hreps n pod hpod ns
      hns false hprot rg hg q nsl pr p hp hcov hal
    rcases hcase with ⟨_, h2⟩ | hmem
    · cases h2
    · exact ⟨_, hmem, rfl, en, hen, hs⟩
  · obtain ⟨entries, rfl, en, hen, hs⟩ := exposure_complete x ha hb hv hnn hreps n pod hpod ns
      hns true hprot ri hi q nsl pr p hp hcov hal
    rcases hcase with ⟨h1, _⟩ | hmem
    · cases h1
    · exact ⟨_, hmem, rfl, en, hen, hs⟩

/-- Rung 5 for the engine `Exposure.build` returns, with the documented omission handled precisely.
For a protected workload and a hypothetical pod `q` (namespace labels `nsl`): every in-range
(protocol, port) the workload's policies allow with `q` is held by a reported entry `q` satisfies,
**or** some rule peer that matches `q` has selectors that are (up to spelling) label equalities
only and are satisfied by an input workload together with the labels of its namespace
(`Exposure.Omitted`) — the case in which `removeRepresentativePeersMatchingLabels` drops the
representative peer. `hK`: the map key of the representative peers is faithful on the rule selectors
of the input (no two different selector pairs with the same key). -/
theorem exposure_complete_build (objs : List Obj) (x : XEngine) (hbuild : Exposure.build objs = .ok x)
    (hK : KeyFaithful x.eng) (hv : NpValid x.eng) (hnn : NamesNonEmpty x.eng) (n : String) (pod : Pod)
    (hpod : pod.isRepresentative = false ∧ pod.ValidPorts)
    (ns : NsObj) (hns : x.eng.findNs pod.ns = some ns)
    (i : Bool) (hprot : isProtected x.eng pod i = true) (res : Option (Bool × List XEntry))
    (h : xgressExposure x (.wl n pod) i = .ok res) (q : Pod) (nsl : Labels)
    (hc : NsConsistent q nsl) (pr : Proto) (p : Int) (hp : inRange p)
    (hal : Spec.allowedDir x.eng.toView (.pod pod ns.labels) (.pod q nsl)
      (dstEnd i pod ns.labels q nsl) (dirOf i) pr p = true) :
    (∃ entries, res = some (true, entries) ∧ ∃ en ∈ entries,
      (en.entireCluster = true ∨ Sat en.podSel en.nsSel q nsl) ∧ denFor i en.conn q pr p) ∨
    (∃ np r podSel nsSel, PRule x.eng pod (dirOf i) np r ∧ isCW r = false ∧
      NPPeer.sel podSel nsSel ∈ r.peers ∧
      Spec.npPeerMatches np (.sel podSel nsSel) (.pod q nsl) = true ∧
      Omitted x objs podSel (nsSel.getD (nsNameSelector np.ns))) := by
  by_cases hex : ∃ np r podSel nsSel, PRule x.eng pod (dirOf i) np r ∧ isCW r = false ∧
      NPPeer.sel podSel nsSel ∈ r.peers ∧
      Spec.npPeerMatches np (.sel podSel nsSel) (.pod q nsl) = true ∧
      Omitted x objs podSel (nsSel.getD (nsNameSelector np.ns))
  · exact Or.inr hex
  · left
    obtain ⟨ha, hb, hreps, _⟩ := C06.build_provides hbuild
    apply exposure_complete x ha hb hv hnn hreps n pod hpod ns hns i hprot res h q nsl pr p hp
      ?_ hal
    intro np r hP hcw peer hpeer hm
    cases peer with
    | ip c ex => rw [Spec.npPeerMatches_ip_pod] at hm; cases hm
    | sel podSel nsSel =>
      rcases build_covers hbuild hK np hP.1 (dirOf i) (selects_affects hP.2.1) r hP.2.2 hcw podSel
        nsSel hpeer q nsl hc hm with h1 | h1
      · exact h1
      · exact absurd ⟨np, r, podSel, nsSel, hP, hcw, hpeer, hm, h1⟩ hex

/-- The same with a syntactic hypothesis only: the selectors of the input have label syntax.
`SelectorsOK e` (decidable) excludes exactly: a selector key or value, or a policy namespace name,
that holds one of the characters space `=` `!` `,` `(` `)` `;` `|`; an empty selector key; a `NotIn`
requirement without values. On such input the map key of the representative peers is injective
(`keyInjective_of_ok`), so that no representative peer is lost to a key collision. -/
theorem exposure_complete_build_syntactic (objs : List Obj) (x : XEngine)
    (hbuild : Exposure.build objs = .ok x) (hok : SelectorsOK x.eng)
    (hv : NpValid x.eng) (hnn : NamesNonEmpty x.eng) (n : String) (pod : Pod)
    (hpod : pod.isRepresentative = false ∧ pod.ValidPorts)
    (ns : NsObj) (hns : x.eng.findNs pod.ns = some ns)
    (i : Bool) (hprot : isProtected x.eng pod i = true) (res : Option (Bool × List XEntry))
    (h : xgressExposure x (.wl n pod) i = .ok res) (q : Pod) (nsl : Labels)
    (hc : NsConsistent q nsl) (pr : Proto) (p : Int) (hp : inRange p)
    (hal : Spec.allowedDir x.eng.toView (.pod pod ns.labels) (.pod q nsl)
      (dstEnd i pod ns.labels q nsl) (dirOf i) pr p = true) :
    (∃ entries, res = some (true, entries) ∧ ∃ en ∈ entries,
      (en.entireCluster = true ∨ Sat en.podSel en.nsSel q nsl) ∧ denFor i en.conn q pr p) ∨
    (∃ np r podSel nsSel, PRule x.eng pod (dirOf i) np r ∧ isCW r = false ∧
      NPPeer.sel podSel nsSel ∈ r.peers ∧
      Spec.npPeerMatches np (.sel podSel nsSel) (.pod q nsl) = true ∧
      Omitted x objs podSel (nsSel.getD (nsNameSelector np.ns))) :=
  exposure_complete_build objs x hbuild (keyFaithful_of_ok hok) hv hnn n pod hpod ns
    hns i hprot res h q nsl hc pr p hp hal

/-! ### non-vacuity: the engine of `C06.Examples` -/
namespace Examples
open C06.Examples
attribute [local instance] Engine.decEqExcept

/-- a hypothetical second client pod in the namespace `default` -/
def qClient : Pod :=
  { ns := "default", name := "client-2", labels := [("app", "client"), ("tier", "x")], ports := [] }

theorem cons_qClient : NsConsistent qClient nsDefault.labels := by
  unfold NsConsistent
  decide

/-- `web`'s ingress policy allows TCP 8080 (its port `http`) from `qClient` -/
theorem allowed_qClient :
    Spec.allowedDir ex.eng.toView (.pod web nsDefault.labels) (.pod qClient nsDefault.labels)
      (dstEnd true web nsDefault.labels qClient nsDefault.labels) (dirOf true) .TCP 8080 = true :=
  C06.allowedDir_of_npAllows ex.eng.toView rfl rfl web _ _ _ _ _ _ (by decide)

/-- the representative peer `repClient` stands for the one rule peer that matches `qClient` -/
theorem cov_qClient : ∀ p r, PRule ex.eng web (dirOf true) p r → isCW r = false → ∀ peer ∈ r.peers,
    Spec.npPeerMatches p peer (.pod qClient nsDefault.labels) = true →
      RepCovers ex p peer qClient nsDefault.labels := by
  intro p r hP hcw peer hpeer hm
  obtain ⟨hp, _, hr⟩ := hP
  have : p = np := by simpa [ex] using hp
  subst this
  have hr' : r = ⟨[.sel (some selClient) none], [⟨none, .name "http"⟩, ⟨some .UDP, .num 53 none⟩]⟩ ∨
      r = ⟨[.sel none (some ⟨[], []⟩)], [⟨none, .num 9090 none⟩]⟩ := by
    simpa [Spec.npRules, np] using hr
  rcases hr' with rfl | rfl
  · have : peer = .sel (some selClient) none := by simpa using hpeer
    subst this
    exact rep_covers_of_generated ex np (some selClient) none qClient nsDefault.labels cons_qClient hm
      ("kubernetes.io/metadata.name=default|app=client", repClient) (by simp [ex]) rfl rfl
  · exact absurd hcw (by decide)

/-- the theorem at work: the ingress result of `web` is `some (true, entries)` and holds an entry
that `qClient` satisfies and that contains TCP 8080 -/
example : ∃ res, xgressExposure ex wWeb true = .ok res ∧
    ∃ entries, res = some (true, entries) ∧ ∃ en ∈ entries,
      (en.entireCluster = true ∨ Sat en.podSel en.nsSel qClient nsDefault.labels) ∧
        denFor true en.conn qClient .TCP 8080 := by
  obtain ⟨res, hres⟩ := xgressExposure_ok ex (by decide) (by decide) (by decide) "default/web[Pod]" web
    (by decide) nsDefault (by decide) true
  exact ⟨res, hres, exposure_complete ex rfl rfl (by decide) (by decide) (by decide) "default/web[Pod]"
    web (by decide) nsDefault (by decide) true (by decide) res hres qClient nsDefault.labels
    .TCP 8080 (by decide) cov_qClient allowed_qClient⟩

/-- the selectors of `np` have label syntax, hence the map key is injective and faithful on them -/
theorem keyInjective_ex : KeyInjective ex.eng := keyInjective_of_ok (by decide)
theorem keyFaithful_ex : KeyFaithful ex.eng := keyFaithful_of_ok (by decide)

/-- the build-level theorem on the same query: the hypotheses hold; here nothing is omitted, so the
first alternative is the case (`cov_qClient` above) -/
example : ∃ res, xgressExposure ex wWeb true = .ok res ∧
    ((∃ entries, res = some (true, entries) ∧ ∃ en ∈ entries,
      (en.entireCluster = true ∨ Sat en.podSel en.nsSel qClient nsDefault.labels) ∧
        denFor true en.conn qClient .TCP 8080) ∨
     (∃ p r podSel nsSel, PRule ex.eng web (dirOf true) p r ∧ isCW r = false ∧
      NPPeer.sel podSel nsSel ∈ r.peers ∧
      Spec.npPeerMatches p (.sel podSel nsSel) (.pod qClient nsDefault.labels) = true ∧
      Omitted ex exObjs podSel (nsSel.getD (nsNameSelector p.ns)))) := by
  obtain ⟨res, hres⟩ := xgressExposure_ok ex (by decide) (by decide) (by decide) "default/web[Pod]" web
    (by decide) nsDefault (by decide) true
  exact ⟨res, hres, exposure_complete_build exObjs ex build_ex keyFaithful_ex (by decide) (by decide)
    "default/web[Pod]" web (by decide) nsDefault (by decide) true (by decide) res hres
    qClient nsDefault.labels cons_qClient .TCP 8080 (by decide) allowed_qClient⟩

/-- … and the syntactic form: label syntax only -/
example : ∃ res, xgressExposure ex wWeb true = .ok res ∧
    ((∃ entries, res = some (true, entries) ∧ ∃ en ∈ entries,
      (en.entireCluster = true ∨ Sat en.podSel en.nsSel qClient nsDefault.labels) ∧
        denFor true en.conn qClient .TCP 8080) ∨
     (∃ p r podSel nsSel, PRule ex.eng web (dirOf true) p r ∧ isCW r = false ∧
      NPPeer.sel podSel nsSel ∈ r.peers ∧
      Spec.npPeerMatches p (.sel podSel nsSel) (.pod qClient nsDefault.labels) = true ∧
      Omitted ex exObjs podSel (nsSel.getD (nsNameSelector p.ns)))) := by
  obtain ⟨res, hres⟩ := xgressExposure_ok ex (by decide) (by decide) (by decide) "default/web[Pod]" web
    (by decide) nsDefault (by decide) true
  exact ⟨res, hres, exposure_complete_build_syntactic exObjs ex build_ex (by decide)
    (by decide) (by decide) "default/web[Pod]" web (by decide) nsDefault (by decide) true
    (by decide) res hres qClient nsDefault.labels cons_qClient .TCP 8080 (by decide) allowed_qClient⟩

/-! the documented omission: with a real pod `app=client` in `default`, `Exposure.build` removes
`repClient` (checked with `#eval`); no reported entry then covers TCP 8080 from `qClient`, although
`web`'s policy allows it — the hypothesis `hcov` is needed -/
def client : Pod :=
  { ns := "default", name := "client", labels := [("app", "client")], ports := [] }
def exOm : XEngine :=
  { eng := { ex.eng with pods := [web, other, client] }, reps := [("env=prod|", repProd)] }

example : Spec.allowedDir exOm.eng.toView (.pod web nsDefault.labels) (.pod qClient nsDefault.labels)
    (dstEnd true web nsDefault.labels qClient nsDefault.labels) (dirOf true) .TCP 8080 = true :=
  C06.allowedDir_of_npAllows exOm.eng.toView rfl rfl web _ _ _ _ _ _ (by decide)

example : ∀ res, xgressExposure exOm wWeb true = .ok res →
    ¬ ∃ entries, res = some (true, entries) ∧ ∃ en ∈ entries,
      (en.entireCluster = true ∨ Sat en.podSel en.nsSel qClient nsDefault.labels) ∧
        denFor true en.conn qClient .TCP 8080 := by
  intro res hres
  obtain ⟨ns, _, h1 | h1⟩ := xgressExposure_spec exOm (by decide) (by decide) "default/web[Pod]" web
    (by decide) true res hres
  · rintro ⟨entries, heq, _⟩
    rw [h1.2] at heq
    cases heq
  · obtain ⟨_, cw, perRep, hcw, hX, rfl⟩ := h1
    have hcw' : clusterWideConn exOm.eng web true =
        .ok ⟨false, some ⟨[⟨9090, 9090⟩], [], []⟩, none, none⟩ := by decide
    rw [hcw'] at hcw
    cases hcw
    rintro ⟨entries, heq, en, hen, hsat, hden⟩
    have hent : entries = general ⟨false, some ⟨[⟨9090, 9090⟩], [], []⟩, none, none⟩ ++ perRep := by
      split at heq
      · cases heq
      · cases heq; rfl
    subst hent
    rcases List.mem_append.mp hen with hg | hr
    · have : en = ⟨true, none, none, ⟨false, some ⟨[⟨9090, 9090⟩], [], []⟩, none, none⟩⟩ := by
        simpa [general, ConnSet.isEmpty, ConnSet.noProtos] using hg
      subst this
      rcases hden with hd | ⟨hi, _⟩
      · revert hd; decide
      · cases hi
    · obtain ⟨krp, hk, c, _, _, rfl⟩ := hX.sound en hr
      have : krp = ("env=prod|", repProd) := by simpa [exOm] using hk
      subst this
      rcases hsat with h | h
      · cases h
      · have := h.2 selProd rfl
        revert this
        decide

/-- … and the selectors of the rule peer that matches `qClient` are `Omitted`: label equalities only,
satisfied by the input pod `client` and the labels of its namespace -/
example : Omitted exOm [.ns nsDefault, .pod web, .pod other, .pod client, .np np] (some selClient)
    ((none : Option Selector).getD (nsNameSelector np.ns)) :=
  ⟨selClient, nsNameSelector "default", SelEquiv.refl _, SelEquiv.refl _, rfl, rfl, by decide, by decide,
    .pod client, by simp, client.labels, "default", nsDefault, rfl, by decide, by decide, by decide⟩

/-! The repaired map key. `uniqueKey` used to concatenate the requirement strings without separator,
so that the selectors `{ab: c}` and `{a exists, b: c}` — which no label set satisfies both — had the
same key `ab=c` and `addRepresentativePod` kept one representative peer for the two rules (on the Go
code the TCP 81 entry below was lost). With the separator `;` the keys differ, both representative
peers are generated, and both entries are reported. -/
def selAB : Selector := ⟨[("ab", "c")], []⟩
def selA_B : Selector := ⟨[("b", "c")], [⟨"a", .Exists, []⟩]⟩

example : uniqueKey (some selAB) = "ab=c" ∧ uniqueKey (some selA_B) = "a;b=c" := by
  simp [uniqueKey, selAB, selA_B, Selector.reqStrings, reqString, List.mergeSort,
    List.MergeSort.Internal.splitInTwo]

example : selAB.matches [("ab", "c")] = true ∧ selA_B.matches [("ab", "c")] = false ∧
    selA_B.matches [("a", "x"), ("b", "c")] = true ∧ selAB.matches [("a", "x"), ("b", "c")] = false := by
  decide

/-- a policy with two ingress rules: from `{ab: c}` on TCP 80, from `{a exists, b: c}` on TCP 81 -/
def npColl : NetPol :=
  { ns := "default", name := "coll", podSel := ⟨[("app", "web")], []⟩, types := [.ingress],
    ingress := [⟨[.sel (some selAB) none], [⟨none, .num 80 none⟩]⟩,
                ⟨[.sel (some selA_B) none], [⟨none, .num 81 none⟩]⟩], egress := [] }
def collObjs : List Obj := [.ns nsDefault, .pod web, .np npColl]

def repAB : Pod :=
  { ns := "default", name := representativePodName, labels := [], ports := [], fake := true,
    reprPodSel := some selAB, reprNsSel := some (nsNameSelector "default") }
def repA_B : Pod :=
  { ns := "default", name := representativePodName, labels := [], ports := [], fake := true,
    reprPodSel := some selA_B, reprNsSel := some (nsNameSelector "default") }

/-- what `Exposure.build` returns: two representative peers under two keys -/
def xColl : XEngine :=
  { eng := { namespaces := [nsDefault], pods := [web], netpols := [npColl], exposure := true },
    reps := [("kubernetes.io/metadata.name=default|ab=c", repAB),
             ("kubernetes.io/metadata.name=default|a;b=c", repA_B)] }

theorem allSels_npColl : allSels npColl = [⟨some selAB, none⟩, ⟨some selA_B, none⟩] := by rfl

theorem keyAB : keyOf "default" ⟨some selAB, none⟩ = "kubernetes.io/metadata.name=default|ab=c" := by
  simp [keyOf, nsOf, uniqueKey, nsNameSelector, Selector.reqStrings, selAB, nsNameLabelKey]
theorem keyA_B : keyOf "default" ⟨some selA_B, none⟩ =
    "kubernetes.io/metadata.name=default|a;b=c" := by
  simp [keyOf, nsOf, uniqueKey, nsNameSelector, Selector.reqStrings, reqString, selA_B,
    nsNameLabelKey, List.mergeSort, List.MergeSort.Internal.splitInTwo]

theorem build_coll : Exposure.build collObjs = .ok xColl := by
  rw [build_eq]
  have h1 : (collObjs.filter isPolNs) = [.ns nsDefault, .np npColl] := rfl
  have h2 : (collObjs.filter (fun o => !isPolNs o)) = [.pod web] := rfl
  rw [h1, h2]
  have s1 : bstep x0 (.ns nsDefault) =
      .ok ⟨{ namespaces := [nsDefault], exposure := true }, []⟩ := rfl
  have s2 : bstep ⟨{ namespaces := [nsDefault], exposure := true }, []⟩ (.np npColl) =
      .ok ⟨{ namespaces := [nsDefault], netpols := [npColl], exposure := true }, xColl.reps⟩ := by
    unfold bstep
    have hins : ({ namespaces := [nsDefault], exposure := true } : Engine).insertNetpol npColl =
        .ok { namespaces := [nsDefault], netpols := [npColl], exposure := true } := rfl
    simp only [hins, bind, Except.bind, pure, Except.pure]
    have hd : npDefaulted npColl = npColl := rfl
    rw [hd, allSels_npColl]
    simp only [addAll, List.foldl_cons, List.foldl_nil, addRepresentative_eq]
    have hns : npColl.ns = "default" := rfl
    rw [hns, keyAB, keyA_B]
    simp [newRep, nsOf, xColl, repAB, repA_B, Engine.findNs, nsDefault]
  have s3 : bstep ⟨{ namespaces := [nsDefault], netpols := [npColl], exposure := true }, xColl.reps⟩
      (.pod web) = .ok xColl := by rfl
  simp only [List.foldlM_cons, List.foldlM_nil, s1, s2, s3, bind, Except.bind, pure, Except.pure]

/-- the input has label syntax; hence (theorem) the map key is injective on it — the two keys differ -/
example : SelectorsOK xColl.eng := by decide
example : KeyInjective xColl.eng := keyInjective_of_ok (by decide)
example : keyOf "default" ⟨some selAB, none⟩ ≠ keyOf "default" ⟨some selA_B, none⟩ := by
  rw [keyAB, keyA_B]; decide

/-- two hypothetical pods in `default`: one satisfies `{ab: c}` only, the other `{a exists, b: c}` only -/
def qAB : Pod := { ns := "default", name := "q1", labels := [("ab", "c")], ports := [] }
def qA_B : Pod := { ns := "default", name := "q2", labels := [("a", "x"), ("b", "c")], ports := [] }

theorem cov_coll (q : Pod) (hc : NsConsistent q nsDefault.labels) :
    ∀ p r, PRule xColl.eng web (dirOf true) p r → isCW r = false → ∀ peer ∈ r.peers,
      Spec.npPeerMatches p peer (.pod q nsDefault.labels) = true →
        RepCovers xColl p peer q nsDefault.labels := by
  intro p r hP hcw peer hpeer hm
  obtain ⟨hp, _, hr⟩ := hP
  have : p = npColl := by simpa [xColl] using hp
  subst this
  have hr' : r = ⟨[.sel (some selAB) none], [⟨none, .num 80 none⟩]⟩ ∨
      r = ⟨[.sel (some selA_B) none], [⟨none, .num 81 none⟩]⟩ := by
    simpa [Spec.npRules, npColl] using hr
  rcases hr' with rfl | rfl
  · have : peer = .sel (some selAB) none := by simpa using hpeer
    subst this
    exact rep_covers_of_generated xColl npColl (some selAB) none q nsDefault.labels hc hm
      ("kubernetes.io/metadata.name=default|ab=c", repAB) (by simp [xColl]) rfl rfl
  · have : peer = .sel (some selA_B) none := by simpa using hpeer
    subst this
    exact rep_covers_of_generated xColl npColl (some selA_B) none q nsDefault.labels hc hm
      ("kubernetes.io/metadata.name=default|a;b=c", repA_B) (by simp [xColl]) rfl rfl

/-- both entries are reported: TCP 80 in an entry `qAB` satisfies, TCP 81 in an entry `qA_B` satisfies
(`qA_B` does not satisfy `{ab: c}`, so this is the entry that used to be lost) -/
example : ∃ res entries, xgressExposure xColl wWeb true = .ok res ∧ res = some (true, entries) ∧
    (∃ en ∈ entries, (en.entireCluster = true ∨ Sat en.podSel en.nsSel qAB nsDefault.labels) ∧
      denFor true en.conn qAB .TCP 80) ∧
    (∃ en ∈ entries, (en.entireCluster = true ∨ Sat en.podSel en.nsSel qA_B nsDefault.labels) ∧
      denFor true en.conn qA_B .TCP 81) := by
  obtain ⟨res, hres⟩ := xgressExposure_ok xColl (by decide) (by decide) (by decide) "default/web[Pod]"
    web (by decide) nsDefault (by decide) true
  have hc1 : NsConsistent qAB nsDefault.labels := by unfold NsConsistent; decide
  have hc2 : NsConsistent qA_B nsDefault.labels := by unfold NsConsistent; decide
  obtain ⟨entries, rfl, h1⟩ := exposure_complete xColl rfl rfl (by decide) (by decide) (by decide)
    "default/web[Pod]" web (by decide) nsDefault (by decide) true (by decide) res hres qAB
    nsDefault.labels .TCP 80 (by decide) (cov_coll qAB hc1)
    (C06.allowedDir_of_npAllows xColl.eng.toView rfl rfl web _ _ _ _ _ _ (by decide))
  obtain ⟨entries', he, h2⟩ := exposure_complete xColl rfl rfl (by decide) (by decide) (by decide)
    "default/web[Pod]" web (by decide) nsDefault (by decide) true (by decide) _ hres qA_B
    nsDefault.labels .TCP 81 (by decide) (cov_coll qA_B hc2)
    (C06.allowedDir_of_npAllows xColl.eng.toView rfl rfl web _ _ _ _ _ _ (by decide))
  have : entries' = entries := by
    have := Option.some.inj he
    exact (Prod.mk.inj this).2.symm
  subst this
  exact ⟨_, entries', hres, rfl, h1, h2⟩

/-- the build-level theorem applies to this input as well -/
example : Exposure.build collObjs = .ok xColl ∧ SelectorsOK xColl.eng ∧ NpValid xColl.eng ∧
    NamesNonEmpty xColl.eng := ⟨build_coll, by decide, by decide, by decide⟩

end Examples

end Netpol.Properties.C07
