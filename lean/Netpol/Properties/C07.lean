import Netpol.Model.Exposure
namespace Netpol.Properties.C07
open Netpol

end Netpol.Properties.C07
