import Netpol.Model.Engine
namespace Netpol.Properties.C09
open Netpol

end Netpol.Properties.C09
