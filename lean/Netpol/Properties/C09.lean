import Netpol.Proofs.FormatLayer
import Netpol.Proofs.FormatParse
import Netpol.Proofs.FormatExposure
import Netpol.Proofs.FormatParseX
import Netpol.Proofs.FormatDotNodes
import Netpol.Proofs.FormatDiffEngine
import Netpol.Proofs.FormatExposureCsv
/-! C09 — every output format faithfully encodes the computed result.

The formatters are modelled byte for byte in `Model/Format.lean` (tied to the Go code by the K-diff of the `fmt` family:
the hex of every output of `ConnectionsListToString` / `ConnectivityDiffToString` is compared with the model's). Here:

(a) *table*: every formatter is `render (rows input)`, where `rows input` is a permutation of the (src, dst, conn)
    triples of the computed entries (`list_tables`, `mem_*_iff`, `*_nodup`); json, csv and md share one table
    (`table`), txt and dot order the same rows by their own lines. For the diff formats the table holds exactly the
    changed / added / removed entries (dot: also the unchanged ones) with both connection strings and the
    new/lost annotation (`diff_tables`, `diff_dot_table`).

(b) *parse-back*: for every format a function from the output text to the table, and the proof that it inverts the
    renderer when the field strings satisfy a decidable, format-specific condition (`*_parse_back`); hence equal
    outputs come from equal tables, i.e. from the same set of triples (`*_output_determines_triples`).

What is and is not covered:
* the well-formedness conditions exclude exactly the characters that would make a format ambiguous or that the format
  escapes: txt — blank in a peer string, newline; md — `|`, newline; csv — quote, newline (commas are handled: the
  `encoding/csv` quoting is modelled and inverted); json — the characters `encoding/json` escapes; dot — the characters
  `%q` escapes; diff txt — `", "` inside a field, newline; diff csv — additionally `;` (the Go code joins the fields
  with `;` and splits again). Peer strings of Kubernetes objects and the connection strings satisfy all of them
  (checked on examples below, not proved for every engine output);
* for fields that need escaping the renderers are still modelled exactly (and K-diffed), but not inverted here;
* dot: the edges are read back (src, dst, label, colours), and the node lines: every drawn peer with its label, its
  colour and the namespace cluster it is drawn in (`list_dot_nodes`, `diff_dot_nodes`); in the diff graph the colour is
  the workload annotation (`diff_dot_annotations`, `diffNodeColor_iff`: new `#008000`, lost `red`, persistent `blue`);
* exposure-analysis sections (`--exposure`): modelled and K-diffed for all five formats (`listToStringX`). (a) the
  tables of the egress / ingress sections are permutations of the exposure rows (`exposure_tables`, `mem_xRows_iff`);
  (b) txt, json, csv and md are read back to (base table, egress rows, ingress rows[, unprotected-workload lines])
  (`exposure_*_parse_back`, `exposure_*_output_determines_tables`). An ingress row comes back as (src = the other end,
  dst = the exposed workload) although txt, csv and md print the workload first: `ingress_row_orientation`. Conditions as
  for the base formats, plus: csv — a non-empty connection string (section markers are records with an empty third
  field); txt — no blank in the exposed peer's string and no colon in the connection string (the other end may hold
  blanks, commas, colons and brackets: representative peers). Not covered: parse-back of the dot graph with exposure
  results (its order independence is in `Properties/C08/Format.lean`). -/
open List
namespace Netpol.Properties.C09
open Netpol Format Engine

-- ------------------------------------------------------------------------------------------
-- the triples of the computed result

/-- the triple of a computed entry, as `formSingleP2PConn` forms it -/
def entryRow (e : Entry) : Row := ⟨e.src.str, e.dst.str, ConnSet.connStrFromProps e.conn.allowAll e.conn.protocolsAndPorts⟩

theorem ofEntry_row (e : Entry) : (Conn.ofEntry e).row = entryRow e := by
  simp [Conn.ofEntry, Conn.row, entryRow, ofLPeer_str]

/-- the formatters' view of the entries has exactly the entries' triples -/
theorem conns_rows (entries : List Entry) : (entries.map Conn.ofEntry).map Conn.row = entries.map entryRow := by
  rw [map_map]; exact map_congr_left (fun e _ => ofEntry_row e)

-- ------------------------------------------------------------------------------------------
-- (a) list formats

/-- every list format is a renderer applied to a table of rows -/
theorem list_render (conns : List Conn) (peers : List PeerInfo) :
    listToString "txt" conns peers = renderTxt (rowsTxt conns) ∧
    listToString "json" conns peers = renderJson (table conns) ∧
    listToString "csv" conns peers = renderCsv (table conns) ∧
    listToString "md" conns peers = renderMd (table conns) ∧
    listToString "dot" conns peers = renderDot (listNodeLines conns peers) (rowsDot conns) := by
  refine ⟨?_, ?_, ?_, ?_, ?_⟩
  · simp [listToString, listTxt_eq]
  · simp [listToString, listJson]
  · simp [listToString, listCsv]
  · simp [listToString, listMd]
  · simp [listToString, listDot_eq]

/-- the three tables are permutations of the triples of the input: the five formats encode the same relation -/
theorem list_tables (conns : List Conn) :
    rowsTxt conns ~ conns.map Conn.row ∧ table conns ~ conns.map Conn.row ∧ rowsDot conns ~ conns.map Conn.row :=
  ⟨rowsTxt_perm conns, table_perm_rows conns, rowsDot_perm conns⟩

/-- on the computed entries: each table is a permutation of the entries' triples -/
theorem list_tables_of_entries (entries : List Entry) :
    rowsTxt (entries.map Conn.ofEntry) ~ entries.map entryRow ∧ table (entries.map Conn.ofEntry) ~ entries.map entryRow ∧
    rowsDot (entries.map Conn.ofEntry) ~ entries.map entryRow := by
  rw [← conns_rows]; exact list_tables _

theorem mem_rowsTxt_iff (entries : List Entry) (r : Row) :
    r ∈ rowsTxt (entries.map Conn.ofEntry) ↔ ∃ e ∈ entries, entryRow e = r := by
  rw [(list_tables_of_entries entries).1.mem_iff, mem_map]

theorem mem_table_iff (entries : List Entry) (r : Row) :
    r ∈ table (entries.map Conn.ofEntry) ↔ ∃ e ∈ entries, entryRow e = r := by
  rw [(list_tables_of_entries entries).2.1.mem_iff, mem_map]

theorem mem_rowsDot_iff (entries : List Entry) (r : Row) :
    r ∈ rowsDot (entries.map Conn.ofEntry) ↔ ∃ e ∈ entries, entryRow e = r := by
  rw [(list_tables_of_entries entries).2.2.mem_iff, mem_map]

theorem keysDistinct_nodup {l : List Row} (h : KeysDistinct l) : l.Nodup :=
  Pairwise.imp (fun hk heq => hk ⟨by rw [heq], by rw [heq]⟩) h

/-- distinct (src, dst) pairs: no row is printed twice, in any format -/
theorem tables_nodup {conns : List Conn} (h : ConnKeysDistinct conns) :
    (rowsTxt conns).Nodup ∧ (table conns).Nodup ∧ (rowsDot conns).Nodup :=
  ⟨(rowsTxt_perm conns).nodup_iff.mpr (keysDistinct_nodup h), (table_perm_rows conns).nodup_iff.mpr (keysDistinct_nodup h),
    (rowsDot_perm conns).nodup_iff.mpr (keysDistinct_nodup h)⟩

/-- as many rows as entries -/
theorem table_length (conns : List Conn) :
    (rowsTxt conns).length = conns.length ∧ (table conns).length = conns.length ∧ (rowsDot conns).length = conns.length := by
  refine ⟨?_, ?_, ?_⟩
  · simpa using (rowsTxt_perm conns).length_eq
  · simpa using (table_perm_rows conns).length_eq
  · simpa using (rowsDot_perm conns).length_eq

-- ------------------------------------------------------------------------------------------
-- (b) list formats: parse-back

theorem forall_of_perm {α : Type} {P : α → Prop} {l l' : List α} (hp : l ~ l') (h : ∀ x ∈ l', P x) : ∀ x ∈ l, P x :=
  fun x hx => h x (hp.mem_iff.mp hx)

theorem forall_rows {P : Row → Prop} {conns : List Conn} (h : ∀ c ∈ conns, P c.row) : ∀ r ∈ conns.map Conn.row, P r := by
  intro r hr
  obtain ⟨c, hc, rfl⟩ := mem_map.mp hr
  exact h c hc

/-- txt: the output is read back to the table. Hypothesis: no blank in a peer string, no newline in a field. -/
theorem txt_parse_back {conns : List Conn} (peers : List PeerInfo) (h : ∀ c ∈ conns, c.row.TxtWF) :
    parseTxt (listToString "txt" conns peers) = some (rowsTxt conns) := by
  rw [(list_render conns peers).1]
  exact parseTxt_renderTxt (forall_of_perm (rowsTxt_perm conns) (forall_rows h))

/-- json: hypothesis: no character `encoding/json` escapes. -/
theorem json_parse_back {conns : List Conn} (peers : List PeerInfo) (h : ∀ c ∈ conns, c.row.JsonWF) :
    parseJson (listToString "json" conns peers) = some (table conns) := by
  rw [(list_render conns peers).2.1]
  exact parseJson_renderJson (forall_of_perm (table_perm_rows conns) (forall_rows h))

/-- csv: hypothesis: no quote and no newline in a field (commas are quoted by the writer and read back). -/
theorem csv_parse_back {conns : List Conn} (peers : List PeerInfo) (h : ∀ c ∈ conns, c.row.CsvWF) :
    parseCsv (listToString "csv" conns peers) = some (table conns) := by
  rw [(list_render conns peers).2.2.1]
  exact parseCsv_renderCsv (forall_of_perm (table_perm_rows conns) (forall_rows h))

/-- md: hypothesis: no `|` and no newline in a field. -/
theorem md_parse_back {conns : List Conn} (peers : List PeerInfo) (h : ∀ c ∈ conns, c.row.MdWF) :
    parseMd (listToString "md" conns peers) = some (table conns) := by
  rw [(list_render conns peers).2.2.2.1]
  exact parseMd_renderMd (forall_of_perm (table_perm_rows conns) (forall_rows h))

/-- what the dot format needs of a row: no character `%q` escapes -/
def RowDotWF (r : Row) : Prop := QuotePlain r.src ∧ QuotePlain r.dst ∧ QuotePlain r.conn
instance (r : Row) : Decidable (RowDotWF r) := by unfold RowDotWF; infer_instance

theorem RowDotWF.edge {r : Row} (h : RowDotWF r) : r.edge.WF :=
  ⟨h.1, h.2.1, h.2.2, (by decide : QuotePlain "gold2"), (by decide : QuotePlain "darkgreen")⟩

/-- dot: the edge lines are read back to the table (as edges); node, cluster and closing lines do not read as edges.
Hypotheses: no character `%q` escapes in the rows and in the strings / labels of the drawn peers, no newline in a
namespace name. -/
theorem dot_parse_back {conns : List Conn} {peers : List PeerInfo} (h : ∀ c ∈ conns, RowDotWF c.row)
    (hp : ∀ p ∈ listVisitSeq conns peers, p.DotWF) :
    parseDotEdges (listToString "dot" conns peers) = (rowsDot conns).map Row.edge := by
  rw [(list_render conns peers).2.2.2.2]
  apply parseDotEdges_renderDot (listNodeLines_notEdge hp)
  intro r hr
  exact (forall_of_perm (rowsDot_perm conns) (forall_rows h) r hr).edge

theorem Row.edge_injective : Function.Injective Row.edge := by
  intro a b h
  cases a; cases b
  simp only [Row.edge, DotEdge.mk.injEq] at h
  simp [h.1, h.2.1, h.2.2.1]

theorem map_edge_injective : ∀ {a b : List Row}, a.map Row.edge = b.map Row.edge → a = b
  | [], [], _ => rfl
  | [], _ :: _, h => by simp at h
  | _ :: _, [], h => by simp at h
  | x :: xs, y :: ys, h => by
    simp only [map_cons, cons.injEq] at h
    rw [Row.edge_injective h.1, map_edge_injective h.2]

/-- equal tables up to order: the same multiset of triples -/
theorem perm_of_tables_eq {rows rows' : List Row} {c c' : List Conn} (h1 : rows ~ c.map Conn.row) (h2 : rows' ~ c'.map Conn.row)
    (h : rows = rows') : c.map Conn.row ~ c'.map Conn.row := h1.symm.trans (h ▸ h2)

/-- txt: two reports with the same output have the same triples -/
theorem txt_output_determines_triples {c c' : List Conn} (p p' : List PeerInfo) (h : ∀ x ∈ c, x.row.TxtWF) (h' : ∀ x ∈ c', x.row.TxtWF)
    (heq : listToString "txt" c p = listToString "txt" c' p') : c.map Conn.row ~ c'.map Conn.row := by
  have a := txt_parse_back p h
  rw [heq, txt_parse_back p' h'] at a
  exact perm_of_tables_eq (rowsTxt_perm c) (rowsTxt_perm c') (Option.some.inj a).symm

theorem json_output_determines_triples {c c' : List Conn} (p p' : List PeerInfo) (h : ∀ x ∈ c, x.row.JsonWF) (h' : ∀ x ∈ c', x.row.JsonWF)
    (heq : listToString "json" c p = listToString "json" c' p') : c.map Conn.row ~ c'.map Conn.row := by
  have a := json_parse_back p h
  rw [heq, json_parse_back p' h'] at a
  exact perm_of_tables_eq (table_perm_rows c) (table_perm_rows c') (Option.some.inj a).symm

theorem csv_output_determines_triples {c c' : List Conn} (p p' : List PeerInfo) (h : ∀ x ∈ c, x.row.CsvWF) (h' : ∀ x ∈ c', x.row.CsvWF)
    (heq : listToString "csv" c p = listToString "csv" c' p') : c.map Conn.row ~ c'.map Conn.row := by
  have a := csv_parse_back p h
  rw [heq, csv_parse_back p' h'] at a
  exact perm_of_tables_eq (table_perm_rows c) (table_perm_rows c') (Option.some.inj a).symm

theorem md_output_determines_triples {c c' : List Conn} (p p' : List PeerInfo) (h : ∀ x ∈ c, x.row.MdWF) (h' : ∀ x ∈ c', x.row.MdWF)
    (heq : listToString "md" c p = listToString "md" c' p') : c.map Conn.row ~ c'.map Conn.row := by
  have a := md_parse_back p h
  rw [heq, md_parse_back p' h'] at a
  exact perm_of_tables_eq (table_perm_rows c) (table_perm_rows c') (Option.some.inj a).symm

theorem dot_output_determines_triples {c c' : List Conn} {p p' : List PeerInfo} (h : ∀ x ∈ c, RowDotWF x.row) (h' : ∀ x ∈ c', RowDotWF x.row)
    (hp : ∀ x ∈ listVisitSeq c p, x.DotWF) (hp' : ∀ x ∈ listVisitSeq c' p', x.DotWF)
    (heq : listToString "dot" c p = listToString "dot" c' p') : c.map Conn.row ~ c'.map Conn.row := by
  have a := dot_parse_back h hp
  rw [heq, dot_parse_back h' hp'] at a
  exact perm_of_tables_eq (rowsDot_perm c) (rowsDot_perm c') (map_edge_injective a).symm

/-- the renderers of the shared table are injective on well-formed tables -/
theorem renderJson_injective {rows rows' : List Row} (h : ∀ r ∈ rows, r.JsonWF) (h' : ∀ r ∈ rows', r.JsonWF)
    (heq : renderJson rows = renderJson rows') : rows = rows' := by
  have a := parseJson_renderJson h
  rw [heq, parseJson_renderJson h'] at a
  exact (Option.some.inj a).symm

theorem renderCsv_injective {rows rows' : List Row} (h : ∀ r ∈ rows, r.CsvWF) (h' : ∀ r ∈ rows', r.CsvWF)
    (heq : renderCsv rows = renderCsv rows') : rows = rows' := by
  have a := parseCsv_renderCsv h
  rw [heq, parseCsv_renderCsv h'] at a
  exact (Option.some.inj a).symm

theorem renderMd_injective {rows rows' : List Row} (h : ∀ r ∈ rows, r.MdWF) (h' : ∀ r ∈ rows', r.MdWF)
    (heq : renderMd rows = renderMd rows') : rows = rows' := by
  have a := parseMd_renderMd h
  rw [heq, parseMd_renderMd h'] at a
  exact (Option.some.inj a).symm

theorem renderTxt_injective {rows rows' : List Row} (h : ∀ r ∈ rows, r.TxtWF) (h' : ∀ r ∈ rows', r.TxtWF)
    (heq : renderTxt rows = renderTxt rows') : rows = rows' := by
  have a := parseTxt_renderTxt h
  rw [heq, parseTxt_renderTxt h'] at a
  exact (Option.some.inj a).symm

-- ------------------------------------------------------------------------------------------
-- (a) exposure sections

/-- the egress / ingress tables are permutations of the exposure rows of the direction -/
theorem exposure_tables (conns : List Conn) (xs : List XPeerF) :
    egressRows conns xs ~ xRows conns xs false ∧ ingressRows conns xs ~ xRows conns xs true :=
  ⟨egressRows_perm_self conns xs, ingressRows_perm_self conns xs⟩

/-- the exposure rows of a direction: per exposed peer, the entire-cluster row of an unprotected peer or one row per
exposure entry of a protected one, and the report's connections between that peer and IP blocks -/
theorem mem_xRows_iff (conns : List Conn) (xs : List XPeerF) (isIngress : Bool) (r : Row) :
    r ∈ xRows conns xs isIngress ↔ ∃ p ∈ xs,
      ((if isIngress then p.ingProtected else p.egProtected) = false ∧
        r = xItemRow p.peer.str isIngress ⟨true, none, none, "All Connections"⟩) ∨
      ((if isIngress then p.ingProtected else p.egProtected) = true ∧
        ∃ x ∈ (if isIngress then p.ing else p.eg), r = xItemRow p.peer.str isIngress x) ∨
      (∃ c ∈ conns, (if isIngress then c.src.isIP && c.dst.str == p.peer.str else c.dst.isIP && c.src.str == p.peer.str) = true ∧
        r = c.row) := by
  unfold xRows
  simp only [mem_flatMap, mem_append, mem_map, mem_filter]
  constructor
  · rintro ⟨p, hp, h | ⟨c, ⟨hc, hcond⟩, rfl⟩⟩
    · refine ⟨p, hp, ?_⟩
      cases hprot : (if isIngress then p.ingProtected else p.egProtected)
      · simp only [hprot, Bool.not_false, ↓reduceIte, mem_cons, not_mem_nil, or_false] at h
        exact Or.inl ⟨rfl, h⟩
      · simp only [hprot, Bool.not_true, Bool.false_eq_true, ↓reduceIte, mem_map] at h
        obtain ⟨x, hx, rfl⟩ := h
        exact Or.inr (Or.inl ⟨rfl, x, hx, rfl⟩)
    · exact ⟨p, hp, Or.inr (Or.inr ⟨c, hc, hcond, rfl⟩)⟩
  · rintro ⟨p, hp, ⟨hprot, rfl⟩ | ⟨hprot, x, hx, rfl⟩ | ⟨c, hc, hcond, rfl⟩⟩
    · exact ⟨p, hp, Or.inl (by simp [hprot])⟩
    · exact ⟨p, hp, Or.inl (by simp only [hprot, Bool.not_true, Bool.false_eq_true, ↓reduceIte, mem_map]; exact ⟨x, hx, rfl⟩)⟩
    · exact ⟨p, hp, Or.inr ⟨c, ⟨hc, hcond⟩, rfl⟩⟩

-- ------------------------------------------------------------------------------------------
-- (b) exposure sections: parse-back

theorem forall_perm_rows {P : Row → Prop} {rows l : List Row} (hp : rows ~ l) (h : ∀ r ∈ l, P r) : ∀ r ∈ rows, P r :=
  fun r hr => h r (hp.mem_iff.mp hr)

/-- csv with exposure sections. Hypotheses: no quote, no newline, a non-empty connection string, in the rows of the report
and in the exposure rows. -/
theorem exposure_csv_parse_back {conns : List Conn} (peers : List PeerInfo) {xs : List XPeerF} (hb : ∀ c ∈ conns, c.row.CsvXWF)
    (he : ∀ r ∈ xRows conns xs false, r.CsvXWF) (hi : ∀ r ∈ xRows conns xs true, r.CsvXWF) :
    parseCsvX (listToStringX "csv" conns peers xs) = some (table conns, egressRows conns xs, ingressRows conns xs) := by
  have e : listToStringX "csv" conns peers xs = listCsvX conns xs := by simp [listToStringX]
  rw [e, listCsvX_eq]
  exact parseCsvX_renderCsvX (forall_perm_rows (table_perm_rows conns) (forall_rows hb))
    (forall_perm_rows (egressRows_perm_self conns xs) he) (forall_perm_rows (ingressRows_perm_self conns xs) hi)

/-- md with exposure sections. Hypotheses: no `|`, no newline. -/
theorem exposure_md_parse_back {conns : List Conn} (peers : List PeerInfo) {xs : List XPeerF} (hb : ∀ c ∈ conns, c.row.MdWF)
    (he : ∀ r ∈ xRows conns xs false, r.MdWF) (hi : ∀ r ∈ xRows conns xs true, r.MdWF) :
    parseMdX (listToStringX "md" conns peers xs) = some (table conns, egressRows conns xs, ingressRows conns xs) := by
  have e : listToStringX "md" conns peers xs = listMdX conns xs := by simp [listToStringX]
  rw [e, listMdX_eq]
  exact parseMdX_renderMdX (forall_perm_rows (table_perm_rows conns) (forall_rows hb))
    (forall_perm_rows (egressRows_perm_self conns xs) he) (forall_perm_rows (ingressRows_perm_self conns xs) hi)

/-- json with exposure sections. Hypothesis: no character `encoding/json` escapes. -/
theorem exposure_json_parse_back {conns : List Conn} (peers : List PeerInfo) {xs : List XPeerF} (hb : ∀ c ∈ conns, c.row.JsonWF)
    (he : ∀ r ∈ xRows conns xs false, r.JsonWF) (hi : ∀ r ∈ xRows conns xs true, r.JsonWF) :
    parseJsonX (listToStringX "json" conns peers xs) = some (table conns, egressRows conns xs, ingressRows conns xs) := by
  have e : listToStringX "json" conns peers xs = listJsonX conns xs := by simp [listToStringX]
  rw [e, listJsonX_eq]
  exact parseJsonX_renderJsonX (forall_perm_rows (table_perm_rows conns) (forall_rows hb))
    (forall_perm_rows (egressRows_perm_self conns xs) he) (forall_perm_rows (ingressRows_perm_self conns xs) hi)

/-- txt with exposure sections: the three tables and the lines of the unprotected workloads. Hypotheses: the base rows as
for txt; exposure rows: no blank in the exposed peer (egress: src, ingress: dst), no colon in the connection string, no
newline; no newline in the exposed peers' strings. -/
theorem exposure_txt_parse_back {conns : List Conn} (peers : List PeerInfo) {xs : List XPeerF} (hb : ∀ c ∈ conns, c.row.TxtWF)
    (he : ∀ r ∈ xRows conns xs false, r.EgWF) (hi : ∀ r ∈ xRows conns xs true, r.IngWF) (hx : ∀ p ∈ xs, NoNL p.peer.str) :
    parseTxtX (listToStringX "txt" conns peers xs) =
      some (rowsTxt conns, egressRows conns xs, ingressRows conns xs, unprotectedLines xs) := by
  have e : listToStringX "txt" conns peers xs = listTxtX conns xs := by simp [listToStringX]
  rw [e, listTxtX_eq]
  exact parseTxtX_renderTxtX _ (forall_perm_rows (rowsTxt_perm conns) (forall_rows hb))
    (forall_perm_rows (egressRows_perm_self conns xs) he) (forall_perm_rows (ingressRows_perm_self conns xs) hi)
    (unprotectedLines_ok hx)

/-- equal tables: the same triples of the report, the same exposure rows in both directions -/
theorem tables_eq_perm {c c' : List Conn} {xs xs' : List XPeerF}
    (h : (table c, egressRows c xs, ingressRows c xs) = (table c', egressRows c' xs', ingressRows c' xs')) :
    c.map Conn.row ~ c'.map Conn.row ∧ xRows c xs false ~ xRows c' xs' false ∧ xRows c xs true ~ xRows c' xs' true := by
  simp only [Prod.mk.injEq] at h
  obtain ⟨h1, h2, h3⟩ := h
  exact ⟨(table_perm_rows c).symm.trans (h1 ▸ table_perm_rows c'),
    (egressRows_perm_self c xs).symm.trans (h2 ▸ egressRows_perm_self c' xs'),
    (ingressRows_perm_self c xs).symm.trans (h3 ▸ ingressRows_perm_self c' xs')⟩

/-- two reports with the same csv output (with exposure sections) have the same triples and the same exposure rows -/
theorem exposure_csv_output_determines_tables {c c' : List Conn} (p p' : List PeerInfo) {xs xs' : List XPeerF}
    (hb : ∀ x ∈ c, x.row.CsvXWF) (he : ∀ r ∈ xRows c xs false, r.CsvXWF) (hi : ∀ r ∈ xRows c xs true, r.CsvXWF)
    (hb' : ∀ x ∈ c', x.row.CsvXWF) (he' : ∀ r ∈ xRows c' xs' false, r.CsvXWF) (hi' : ∀ r ∈ xRows c' xs' true, r.CsvXWF)
    (heq : listToStringX "csv" c p xs = listToStringX "csv" c' p' xs') :
    c.map Conn.row ~ c'.map Conn.row ∧ xRows c xs false ~ xRows c' xs' false ∧ xRows c xs true ~ xRows c' xs' true := by
  have a := exposure_csv_parse_back p hb he hi
  rw [heq, exposure_csv_parse_back p' hb' he' hi'] at a
  exact tables_eq_perm (Option.some.inj a).symm

/-- **csv with exposure sections, on the computed exposure run** (the arguments `runWFmt` hands to `listToStringX`): the
per-row conditions of `exposure_csv_parse_back` are theorems (`Proofs/FormatExposureCsv.lean`). What remains are
input-level, decidable hypotheses, all implied by Kubernetes syntax: `PodsReal`, `PodPortsValid`, `NPRulesValid` (real
pods, legal container ports, rules as the API server accepts them — they make the exposure entries the specified ones, so
that the named ports of a connection string are port names of policy rules), `NamesCs` (no `"` / newline in namespace,
name, owner name, owner kind of a pod) and `PoliciesCs` (none in a policy's namespace, in the keys and values of the
selectors of its rule peers, in its port names). -/
theorem computed_exposure_csv_parse_back {objs : List Obj} {focus : String} {stop : Bool} {r : Report} {xs : List XPeerF}
    (h : reportX objs focus stop = .ok (r, xs)) (hr : PermLayer.PodsReal objs) (hpp : PermLayer.PodPortsValid objs)
    (hv : PermLayer.NPRulesValid objs) (hn : NamesCs objs) (hs : PoliciesCs objs) :
    parseCsvX (listToStringX "csv" (r.entries.map Conn.ofEntry) (r.dotPeers.map PeerInfo.ofLPeer) xs) =
      some (table (r.entries.map Conn.ofEntry), egressRows (r.entries.map Conn.ofEntry) xs,
        ingressRows (r.entries.map Conn.ofEntry) xs) := by
  obtain ⟨hb, hx⟩ := reportX_csv_rows h hr hpp hv hn hs
  exact exposure_csv_parse_back _ hb (hx false) (hx true)

/-- two computed exposure runs with the same csv output have the same triples and the same exposure rows -/
theorem computed_exposure_csv_output_determines_tables {objs objs' : List Obj} {focus focus' : String} {stop stop' : Bool}
    {r r' : Report} {xs xs' : List XPeerF}
    (h : reportX objs focus stop = .ok (r, xs)) (hr : PermLayer.PodsReal objs) (hpp : PermLayer.PodPortsValid objs)
    (hv : PermLayer.NPRulesValid objs) (hn : NamesCs objs) (hs : PoliciesCs objs)
    (h' : reportX objs' focus' stop' = .ok (r', xs')) (hr' : PermLayer.PodsReal objs') (hpp' : PermLayer.PodPortsValid objs')
    (hv' : PermLayer.NPRulesValid objs') (hn' : NamesCs objs') (hs' : PoliciesCs objs')
    (heq : listToStringX "csv" (r.entries.map Conn.ofEntry) (r.dotPeers.map PeerInfo.ofLPeer) xs =
      listToStringX "csv" (r'.entries.map Conn.ofEntry) (r'.dotPeers.map PeerInfo.ofLPeer) xs') :
    (r.entries.map Conn.ofEntry).map Conn.row ~ (r'.entries.map Conn.ofEntry).map Conn.row ∧
    xRows (r.entries.map Conn.ofEntry) xs false ~ xRows (r'.entries.map Conn.ofEntry) xs' false ∧
    xRows (r.entries.map Conn.ofEntry) xs true ~ xRows (r'.entries.map Conn.ofEntry) xs' true := by
  obtain ⟨hb, hx⟩ := reportX_csv_rows h hr hpp hv hn hs
  obtain ⟨hb', hx'⟩ := reportX_csv_rows h' hr' hpp' hv' hn' hs'
  exact exposure_csv_output_determines_tables _ _ hb (hx false) (hx true) hb' (hx' false) (hx' true) heq

/-- the input-level hypotheses hold of the example world `exXObjs` (`Proofs/FormatExposureEngine.lean`) -/
example {focus : String} {r : Report} {xs : List XPeerF} (h : reportX exXObjs focus = .ok (r, xs)) :
    parseCsvX (listToStringX "csv" (r.entries.map Conn.ofEntry) (r.dotPeers.map PeerInfo.ofLPeer) xs) =
      some (table (r.entries.map Conn.ofEntry), egressRows (r.entries.map Conn.ofEntry) xs,
        ingressRows (r.entries.map Conn.ofEntry) xs) :=
  computed_exposure_csv_parse_back h (by decide) (by decide) (by decide) (by decide) (by decide)

theorem exposure_md_output_determines_tables {c c' : List Conn} (p p' : List PeerInfo) {xs xs' : List XPeerF}
    (hb : ∀ x ∈ c, x.row.MdWF) (he : ∀ r ∈ xRows c xs false, r.MdWF) (hi : ∀ r ∈ xRows c xs true, r.MdWF)
    (hb' : ∀ x ∈ c', x.row.MdWF) (he' : ∀ r ∈ xRows c' xs' false, r.MdWF) (hi' : ∀ r ∈ xRows c' xs' true, r.MdWF)
    (heq : listToStringX "md" c p xs = listToStringX "md" c' p' xs') :
    c.map Conn.row ~ c'.map Conn.row ∧ xRows c xs false ~ xRows c' xs' false ∧ xRows c xs true ~ xRows c' xs' true := by
  have a := exposure_md_parse_back p hb he hi
  rw [heq, exposure_md_parse_back p' hb' he' hi'] at a
  exact tables_eq_perm (Option.some.inj a).symm

theorem exposure_json_output_determines_tables {c c' : List Conn} (p p' : List PeerInfo) {xs xs' : List XPeerF}
    (hb : ∀ x ∈ c, x.row.JsonWF) (he : ∀ r ∈ xRows c xs false, r.JsonWF) (hi : ∀ r ∈ xRows c xs true, r.JsonWF)
    (hb' : ∀ x ∈ c', x.row.JsonWF) (he' : ∀ r ∈ xRows c' xs' false, r.JsonWF) (hi' : ∀ r ∈ xRows c' xs' true, r.JsonWF)
    (heq : listToStringX "json" c p xs = listToStringX "json" c' p' xs') :
    c.map Conn.row ~ c'.map Conn.row ∧ xRows c xs false ~ xRows c' xs' false ∧ xRows c xs true ~ xRows c' xs' true := by
  have a := exposure_json_parse_back p hb he hi
  rw [heq, exposure_json_parse_back p' hb' he' hi'] at a
  exact tables_eq_perm (Option.some.inj a).symm

/-- txt: also the same unprotected-workload lines -/
theorem exposure_txt_output_determines_tables {c c' : List Conn} (p p' : List PeerInfo) {xs xs' : List XPeerF}
    (hb : ∀ x ∈ c, x.row.TxtWF) (he : ∀ r ∈ xRows c xs false, r.EgWF) (hi : ∀ r ∈ xRows c xs true, r.IngWF)
    (hx : ∀ q ∈ xs, NoNL q.peer.str)
    (hb' : ∀ x ∈ c', x.row.TxtWF) (he' : ∀ r ∈ xRows c' xs' false, r.EgWF) (hi' : ∀ r ∈ xRows c' xs' true, r.IngWF)
    (hx' : ∀ q ∈ xs', NoNL q.peer.str)
    (heq : listToStringX "txt" c p xs = listToStringX "txt" c' p' xs') :
    c.map Conn.row ~ c'.map Conn.row ∧ xRows c xs false ~ xRows c' xs' false ∧ xRows c xs true ~ xRows c' xs' true ∧
      unprotectedLines xs = unprotectedLines xs' := by
  have a := exposure_txt_parse_back p hb he hi hx
  rw [heq, exposure_txt_parse_back p' hb' he' hi' hx'] at a
  have a' := (Option.some.inj a).symm
  simp only [Prod.mk.injEq] at a'
  obtain ⟨h1, h2, h3, h4⟩ := a'
  exact ⟨(rowsTxt_perm c).symm.trans (h1 ▸ rowsTxt_perm c'),
    (egressRows_perm_self c xs).symm.trans (h2 ▸ egressRows_perm_self c' xs'),
    (ingressRows_perm_self c xs).symm.trans (h3 ▸ ingressRows_perm_self c' xs'), h4⟩

/-- the orientation of the ingress section: a row printed as `EXPOSED <= OTHER` (csv, md: columns `dst,src,conn`) is the
triple (src = OTHER, dst = EXPOSED). If a renderer wrote the columns of that section source first, a row with src ≠ dst
would be read back swapped and the parse-back theorems would fail: reading the rendering of the swapped row gives the
swapped row, not the row. -/
theorem ingress_row_orientation {r : Row} (h : r.CsvXWF) (hne : r.src ≠ r.dst) :
    parseCsvX (renderCsvX [] [] [r]) = some ([], [], [r]) ∧
    parseCsvX (renderCsvX [] [] [⟨r.dst, r.src, r.conn⟩]) ≠ some ([], [], [r]) := by
  have hs : (⟨r.dst, r.src, r.conn⟩ : Row).CsvXWF := ⟨⟨h.1.2.1, h.1.1, h.1.2.2⟩, h.2⟩
  refine ⟨parseCsvX_renderCsvX (by simp) (by simp) (by simpa using h), ?_⟩
  rw [parseCsvX_renderCsvX (by simp) (by simp) (by simpa using hs)]
  intro e
  simp only [Option.some.injEq, Prod.mk.injEq, cons.injEq, and_true, true_and] at e
  have := congrArg Row.src e
  exact hne this.symm

-- ------------------------------------------------------------------------------------------
-- (b) dot: the nodes

/-- list dot: every visited peer comes back with its label (`name[Kind]`, or its string outside clusters), its colour (IP
blocks `red2`, others `blue`) and the namespace of its cluster; the read-back list is a permutation of the drawn nodes. -/
theorem list_dot_nodes {conns : List Conn} {peers : List PeerInfo} (h : ∀ c ∈ conns, RowDotWF c.row)
    (hp : ∀ p ∈ listVisitSeq conns peers, p.DotWF) :
    parseDotNodes (listToString "dot" conns peers) = orderedNodes ((listVisited conns peers).map PeerInfo.node) ∧
    orderedNodes ((listVisited conns peers).map PeerInfo.node) ~ (listVisited conns peers).map PeerInfo.node := by
  have e : listToString "dot" conns peers = listDot conns peers := by simp [listToString]
  rw [e]
  exact ⟨parseDotNodes_listDot (fun c hc => (h c hc).edge) hp, orderedNodes_perm _⟩

/-- diff dot: every visited peer comes back with its label, the colour of its visit and its namespace cluster -/
theorem diff_dot_nodes (ref1 ref2 : String) {ds : List DConn} (hne : diffIsEmpty ds = false)
    (h : ∀ d ∈ ds, (d.row.edge ref1).WF) (hp : ∀ v ∈ diffVisitSeq ds, v.1.DotWF) :
    parseDotNodes (diffToString "dot" ref1 ref2 ds) = orderedNodes ((diffVisited ds).map diffNode) ∧
    orderedNodes ((diffVisited ds).map diffNode) ~ (diffVisited ds).map diffNode := by
  have e : diffToString "dot" ref1 ref2 ds = diffDot ref1 ds := by simp [diffToString, hne]
  rw [e]
  exact ⟨parseDotNodes_diffDot ref1 h hp, orderedNodes_perm _⟩

/-- the diff graph encodes the workload annotations: the node of the source and of the destination of every entry is
drawn in the colour of its new/lost flag (`diffNodeColor_iff`: `#008000` iff new in an added entry, `red` iff lost in a
removed entry, `blue` otherwise) — when all visits of a peer string agree (`DiffPeersConsistent`) -/
theorem diff_dot_annotations (ref1 ref2 : String) {ds : List DConn} (hne : diffIsEmpty ds = false)
    (h : ∀ d ∈ ds, (d.row.edge ref1).WF) (hp : ∀ v ∈ diffVisitSeq ds, v.1.DotWF) (hk : DiffPeersConsistent ds)
    {d : DConn} (hd : d ∈ ds) (hdr : d.drawn = true) :
    diffNode (d.src, diffNodeColor d.typ d.newSrc) ∈ parseDotNodes (diffToString "dot" ref1 ref2 ds) ∧
    diffNode (d.dst, diffNodeColor d.typ d.newDst) ∈ parseDotNodes (diffToString "dot" ref1 ref2 ds) := by
  have e : diffToString "dot" ref1 ref2 ds = diffDot ref1 ds := by simp [diffToString, hne]
  rw [e]
  exact Format.diff_dot_annotations ref1 h hp hk hd hdr

/-- … for the computed diff (`diffConns`) the consistency of the visits is a theorem (`diffConns_peers_consistent`):
every drawn entry has its two nodes in the graph, in the colour of its new/lost flags -/
theorem computed_diff_dot_annotations (ref1 ref2 : String) {W : List LPeer} (hW : PeersOK W)
    {e1 e2 : List Entry} {peers1 peers2 : List LPeer} (h1 : EntriesOK W peers1 e1) (h2 : EntriesOK W peers2 e2)
    (hne : diffIsEmpty (diffConns e1 e2 peers1 peers2) = false)
    (h : ∀ d ∈ diffConns e1 e2 peers1 peers2, (d.row.edge ref1).WF)
    (hp : ∀ v ∈ diffVisitSeq (diffConns e1 e2 peers1 peers2), v.1.DotWF)
    {d : DConn} (hd : d ∈ diffConns e1 e2 peers1 peers2) (hdr : d.drawn = true) :
    diffNode (d.src, diffNodeColor d.typ d.newSrc) ∈ parseDotNodes (diffToString "dot" ref1 ref2 (diffConns e1 e2 peers1 peers2)) ∧
    diffNode (d.dst, diffNodeColor d.typ d.newDst) ∈ parseDotNodes (diffToString "dot" ref1 ref2 (diffConns e1 e2 peers1 peers2)) :=
  diff_dot_annotations ref1 ref2 hne h hp (diffConns_peers_consistent hW h1 h2) hd hdr

-- ------------------------------------------------------------------------------------------
-- (a) diff formats

/-- the row of a computed diff entry: both connection strings and the annotation of `getDiffInfo` -/
def dentryRow (e : Diff.DEntry) : DRow :=
  ⟨e.typ, e.src, e.dst, e.c1, e.c2,
    if e.newSrc || e.newDst then
      "workload " ++ (if e.newSrc then e.src else "") ++ (if e.newSrc && e.newDst then " and " else "") ++
        (if e.newDst then e.dst else "") ++ " " ++ e.typ
    else ""⟩

theorem dconn_row (d : DConn) : d.row = dentryRow d.toDEntry := rfl

/-- the entries the diff formatters work on are the computed diff of `Model/Diff.lean` (`Diff.compute`, the subject of
C04), with the peers kept -/
theorem diff_entries_are_computed_diff (e1 e2 : List Entry) (p1 p2 : List LPeer) :
    (diffConns e1 e2 p1 p2).map DConn.toDEntry = Diff.compute e1 e2 p1 p2 :=
  diffConnsLists_toDEntry _ _ _ _

/-- every diff format is a renderer applied to a table of rows (for a non-empty diff) -/
theorem diff_render (ref1 ref2 : String) {ds : List DConn} (h : diffIsEmpty ds = false) :
    diffToString "txt" ref1 ref2 ds = renderDiffTxt ref1 ref2 (diffRows (DRow.txtLine ref1 ref2) ds) ∧
    diffToString "csv" ref1 ref2 ds = renderDiffCsv ref1 ref2 (diffRows DRow.csvLine ds) ∧
    diffToString "md" ref1 ref2 ds = renderDiffMd ref1 ref2 (diffRows DRow.mdLine ds) ∧
    diffToString "dot" ref1 ref2 ds = renderDiffDot ref1 (diffNodeLines ds) (diffDotRows ref1 ds) := by
  refine ⟨?_, ?_, ?_, ?_⟩
  · simp [diffToString, h, diffTxt_eq]
  · simp [diffToString, h, diffCsv_eq]
  · simp [diffToString, h, diffMd_eq]
  · simp [diffToString, h, diffDot_eq]

/-- an empty diff (no changed, added or removed entry) prints nothing, in every format -/
theorem diff_empty (f ref1 ref2 : String) {ds : List DConn} (h : diffIsEmpty ds = true) : diffToString f ref1 ref2 ds = "" := by
  simp [diffToString, h]

/-- txt, csv, md: the table holds exactly the changed, added and removed entries, each once -/
theorem diff_tables (line : DRow → String) (ds : List DConn) :
    diffRows line ds ~ ((ds.filter DConn.reported).map DConn.toDEntry).map dentryRow := by
  rw [map_map]
  exact diffRows_perm line ds

/-- dot: the edges are those of the changed, added, removed and unchanged entries, each once -/
theorem diff_dot_table (ref1 : String) (ds : List DConn) :
    diffDotRows ref1 ds ~ ((ds.filter DConn.drawn).map DConn.toDEntry).map dentryRow := by
  rw [map_map]
  exact diffDotRows_perm ref1 ds

theorem mem_diffRows_iff (line : DRow → String) (ds : List DConn) (r : DRow) :
    r ∈ diffRows line ds ↔ ∃ d ∈ ds, d.reported = true ∧ d.row = r := by
  rw [(diffRows_perm line ds).mem_iff, mem_map]
  constructor
  · rintro ⟨d, hd, rfl⟩
    exact ⟨d, (mem_filter.mp hd).1, (mem_filter.mp hd).2, rfl⟩
  · rintro ⟨d, hd, hr, rfl⟩
    exact ⟨d, mem_filter.mpr ⟨hd, hr⟩, rfl⟩

theorem mem_diffDotRows_iff (ref1 : String) (ds : List DConn) (r : DRow) :
    r ∈ diffDotRows ref1 ds ↔ ∃ d ∈ ds, d.drawn = true ∧ d.row = r := by
  rw [(diffDotRows_perm ref1 ds).mem_iff, mem_map]
  constructor
  · rintro ⟨d, hd, rfl⟩
    exact ⟨d, (mem_filter.mp hd).1, (mem_filter.mp hd).2, rfl⟩
  · rintro ⟨d, hd, hr, rfl⟩
    exact ⟨d, mem_filter.mpr ⟨hd, hr⟩, rfl⟩

/-- the computed diff only has the four types (so the dot graph draws every entry) -/
theorem classify_drawn {p1 p2 : List String} {kp : String × Diff.Pair} {d : DConn} (h : classify p1 p2 kp = some d) :
    d.drawn = true := by
  obtain ⟨k, pr⟩ := kp
  cases hf : pr.first <;> cases hs : pr.second <;> simp only [classify, hf, hs, Option.some.injEq] at h
  · cases h
  · subst h; simp [DConn.drawn]
  · subst h; simp [DConn.drawn]
  · subst h
    simp only [DConn.drawn]
    split <;> simp

theorem diffConns_drawn (e1 e2 : List Entry) (p1 p2 : List LPeer) : ∀ d ∈ diffConns e1 e2 p1 p2, d.drawn = true := by
  intro d hd
  unfold diffConns diffConnsLists at hd
  obtain ⟨kp, _, hk⟩ := mem_filterMap.mp hd
  exact classify_drawn hk

-- ------------------------------------------------------------------------------------------
-- (b) diff formats: parse-back

theorem forall_drows {P : DRow → Prop} {ds : List DConn} {rows : List DRow} (hp : rows ~ (ds.filter DConn.reported).map DConn.row)
    (h : ∀ d ∈ ds, P d.row) : ∀ r ∈ rows, P r := by
  intro r hr
  obtain ⟨d, hd, rfl⟩ := mem_map.mp (hp.mem_iff.mp hr)
  exact h d (mem_filter.mp hd).1

/-- diff txt: hypothesis: no `", "` in the type, peer and connection strings, no newline anywhere. -/
theorem diff_txt_parse_back {ref1 ref2 : String} (h1 : NoNL ref1) (h2 : NoNL ref2) {ds : List DConn}
    (hne : diffIsEmpty ds = false) (h : ∀ d ∈ ds, d.row.TxtWF) :
    parseDiffTxt ref1 ref2 (diffToString "txt" ref1 ref2 ds) = some (diffRows (DRow.txtLine ref1 ref2) ds) := by
  rw [(diff_render ref1 ref2 hne).1]
  exact parseDiffTxt_renderDiffTxt h1 h2 (forall_drows (diffRows_perm _ ds) h)

/-- diff csv: hypothesis: no quote, newline or `;` in a field. -/
theorem diff_csv_parse_back {ref1 ref2 : String} (h1 : NoNL ref1) (h2 : NoNL ref2) {ds : List DConn}
    (hne : diffIsEmpty ds = false) (h : ∀ d ∈ ds, d.row.Free ['"', '\n', ';']) :
    parseDiffCsv (diffToString "csv" ref1 ref2 ds) = some (diffRows DRow.csvLine ds) := by
  rw [(diff_render ref1 ref2 hne).2.1]
  exact parseDiffCsv_renderDiffCsv h1 h2 (forall_drows (diffRows_perm _ ds) h)

/-- diff md: hypothesis: no `|` and no newline in a field. -/
theorem diff_md_parse_back {ref1 ref2 : String} (h1 : NoNL ref1) (h2 : NoNL ref2) {ds : List DConn}
    (hne : diffIsEmpty ds = false) (h : ∀ d ∈ ds, d.row.Free ['|', '\n']) :
    parseDiffMd (diffToString "md" ref1 ref2 ds) = some (diffRows DRow.mdLine ds) := by
  rw [(diff_render ref1 ref2 hne).2.2.1]
  exact parseDiffMd_renderDiffMd h1 h2 (forall_drows (diffRows_perm _ ds) h)

/-- diff dot: the edges (src, dst, label, colour — the colour is the diff type, the label holds the connection of
`ref2`, for changed entries also that of `ref1`) are read back. -/
theorem diff_dot_parse_back (ref1 ref2 : String) {ds : List DConn} (hne : diffIsEmpty ds = false)
    (h : ∀ d ∈ ds, (d.row.edge ref1).WF) (hp : ∀ v ∈ diffVisitSeq ds, v.1.DotWF) :
    parseDotEdges (diffToString "dot" ref1 ref2 ds) = (diffDotRows ref1 ds).map (DRow.edge ref1) := by
  rw [(diff_render ref1 ref2 hne).2.2.2]
  apply parseDotEdges_renderDiffDot ref1 (diffNodeLines_notEdge hp)
  intro r hr
  obtain ⟨d, hd, rfl⟩ := mem_map.mp ((diffDotRows_perm ref1 ds).mem_iff.mp hr)
  exact h d (mem_filter.mp hd).1

/-- two non-empty diffs with the same txt output have the same changed / added / removed entries -/
theorem diff_txt_output_determines_rows {ref1 ref2 : String} (h1 : NoNL ref1) (h2 : NoNL ref2) {ds ds' : List DConn}
    (hne : diffIsEmpty ds = false) (hne' : diffIsEmpty ds' = false) (h : ∀ d ∈ ds, d.row.TxtWF) (h' : ∀ d ∈ ds', d.row.TxtWF)
    (heq : diffToString "txt" ref1 ref2 ds = diffToString "txt" ref1 ref2 ds') :
    (ds.filter DConn.reported).map DConn.row ~ (ds'.filter DConn.reported).map DConn.row := by
  have a := diff_txt_parse_back h1 h2 hne h
  rw [heq, diff_txt_parse_back h1 h2 hne' h'] at a
  exact (diffRows_perm _ ds).symm.trans ((Option.some.inj a).symm ▸ diffRows_perm _ ds')

theorem diff_csv_output_determines_rows {ref1 ref2 : String} (h1 : NoNL ref1) (h2 : NoNL ref2) {ds ds' : List DConn}
    (hne : diffIsEmpty ds = false) (hne' : diffIsEmpty ds' = false) (h : ∀ d ∈ ds, d.row.Free ['"', '\n', ';'])
    (h' : ∀ d ∈ ds', d.row.Free ['"', '\n', ';'])
    (heq : diffToString "csv" ref1 ref2 ds = diffToString "csv" ref1 ref2 ds') :
    (ds.filter DConn.reported).map DConn.row ~ (ds'.filter DConn.reported).map DConn.row := by
  have a := diff_csv_parse_back h1 h2 hne h
  rw [heq, diff_csv_parse_back h1 h2 hne' h'] at a
  exact (diffRows_perm _ ds).symm.trans ((Option.some.inj a).symm ▸ diffRows_perm _ ds')

theorem diff_md_output_determines_rows {ref1 ref2 : String} (h1 : NoNL ref1) (h2 : NoNL ref2) {ds ds' : List DConn}
    (hne : diffIsEmpty ds = false) (hne' : diffIsEmpty ds' = false) (h : ∀ d ∈ ds, d.row.Free ['|', '\n'])
    (h' : ∀ d ∈ ds', d.row.Free ['|', '\n'])
    (heq : diffToString "md" ref1 ref2 ds = diffToString "md" ref1 ref2 ds') :
    (ds.filter DConn.reported).map DConn.row ~ (ds'.filter DConn.reported).map DConn.row := by
  have a := diff_md_parse_back h1 h2 hne h
  rw [heq, diff_md_parse_back h1 h2 hne' h'] at a
  exact (diffRows_perm _ ds).symm.trans ((Option.some.inj a).symm ▸ diffRows_perm _ ds')

-- ------------------------------------------------------------------------------------------
-- the hypotheses are satisfiable: a report with an IP block, a workload, the ingress controller and a connection
-- string with commas; a diff with a changed, an added (new workload) and a removed entry

def ipAll : PeerInfo := ⟨"0.0.0.0-255.255.255.255", "", "", "", true⟩
def wlA : PeerInfo := ⟨"ns1/web[Deployment]", "web", "ns1", "Deployment", false⟩
def wlB : PeerInfo := ⟨"ns-2/db[StatefulSet]", "db", "ns-2", "StatefulSet", false⟩
def wlC : PeerInfo := ⟨"ns1/new[Job]", "new", "ns1", "Job", false⟩
def ic : PeerInfo := ⟨"{ingress-controller}", "ingress-controller", "ingress-controller-ns", "Pod", false⟩

def exConns : List Conn :=
  [⟨wlA, wlB, "SCTP 1-80,8080-9090,TCP 81,UDP 80-8080"⟩, ⟨ipAll, wlA, "All Connections"⟩, ⟨ic, wlA, "TCP 8080"⟩, ⟨wlB, ipAll, "UDP 53"⟩]

example : parseTxt (listToString "txt" exConns [wlA, wlB]) = some (rowsTxt exConns) := txt_parse_back _ (by decide)
example : parseJson (listToString "json" exConns [wlA, wlB]) = some (table exConns) := json_parse_back _ (by decide)
example : parseCsv (listToString "csv" exConns [wlA, wlB]) = some (table exConns) := csv_parse_back _ (by decide)
example : parseMd (listToString "md" exConns [wlA, wlB]) = some (table exConns) := md_parse_back _ (by decide)
example : parseDotEdges (listToString "dot" exConns [wlA, wlB]) = (rowsDot exConns).map Row.edge :=
  dot_parse_back (by decide) (by decide)
example : ConnKeysDistinct exConns := by unfold ConnKeysDistinct KeysDistinct; decide
set_option maxRecDepth 100000 in
/-- the csv writer quotes a connection string with commas -/
example : renderCsv [⟨"ns1/web[Deployment]", "ns-2/db[StatefulSet]", "TCP 81,UDP 80-8080"⟩, ⟨"{ingress-controller}", "ns1/web[Deployment]", "TCP 8080"⟩] =
    "src,dst,conn\nns1/web[Deployment],ns-2/db[StatefulSet],\"TCP 81,UDP 80-8080\"\n{ingress-controller},ns1/web[Deployment],TCP 8080\n" := by
  decide

def exDiff : List DConn :=
  [⟨"changed", wlA, wlB, "TCP 80", "TCP 80,UDP 53", false, false⟩, ⟨"added", wlC, ipAll, "No Connections", "All Connections", true, false⟩,
   ⟨"added", wlC, wlA, "No Connections", "TCP 80", true, false⟩,
   ⟨"removed", ic, wlA, "TCP 8080", "No Connections", false, false⟩, ⟨"unchanged", ipAll, wlA, "All Connections", "All Connections", false, false⟩]

example : parseDiffTxt "dir1" "dir2" (diffToString "txt" "dir1" "dir2" exDiff) = some (diffRows (DRow.txtLine "dir1" "dir2") exDiff) :=
  diff_txt_parse_back (by decide) (by decide) (by decide) (by decide)
example : parseDiffCsv (diffToString "csv" "dir1" "dir2" exDiff) = some (diffRows DRow.csvLine exDiff) :=
  diff_csv_parse_back (by decide) (by decide) (by decide) (by decide)
example : parseDiffMd (diffToString "md" "dir1" "dir2" exDiff) = some (diffRows DRow.mdLine exDiff) :=
  diff_md_parse_back (by decide) (by decide) (by decide) (by decide)
example : parseDotEdges (diffToString "dot" "dir1" "dir2" exDiff) = (diffDotRows "dir1" exDiff).map (DRow.edge "dir1") :=
  diff_dot_parse_back "dir1" "dir2" (by decide) (by decide) (by decide)

-- exposure sections and dot nodes

/-- two exposed peers: an unprotected one, and one exposed on ingress to the pods of namespace `ns1` and on egress to
the entire cluster -/
def exXs : List XPeerF :=
  [⟨wlA, false, [], true, [⟨true, none, none, "TCP 80"⟩]⟩,
   ⟨wlB, true, [⟨false, some ⟨[(nsNameLabelKey, "ns1")], []⟩, none, "UDP 53"⟩], true, [⟨true, none, none, "All Connections"⟩]⟩]

example : parseCsvX (listToStringX "csv" exConns [wlA, wlB] exXs) =
    some (table exConns, egressRows exConns exXs, ingressRows exConns exXs) :=
  exposure_csv_parse_back _ (by decide) (by decide) (by decide)
example : parseMdX (listToStringX "md" exConns [wlA, wlB] exXs) =
    some (table exConns, egressRows exConns exXs, ingressRows exConns exXs) :=
  exposure_md_parse_back _ (by decide) (by decide) (by decide)
example : parseJsonX (listToStringX "json" exConns [wlA, wlB] exXs) =
    some (table exConns, egressRows exConns exXs, ingressRows exConns exXs) :=
  exposure_json_parse_back _ (by decide) (by decide) (by decide)
example : parseTxtX (listToStringX "txt" exConns [wlA, wlB] exXs) =
    some (rowsTxt exConns, egressRows exConns exXs, ingressRows exConns exXs, unprotectedLines exXs) :=
  exposure_txt_parse_back _ (by decide) (by decide) (by decide) (by decide)
/-- the ingress rows of the example: the representative peer `ns1/[all pods]` is the source, the workload the destination -/
example : (⟨"ns1/[all pods]", "ns-2/db[StatefulSet]", "UDP 53"⟩ : Row) ∈ xRows exConns exXs true := by decide
example : parseCsvX (renderCsvX [] [] [⟨"ns1/[all pods]", "ns-2/db[StatefulSet]", "UDP 53"⟩]) =
    some ([], [], [⟨"ns1/[all pods]", "ns-2/db[StatefulSet]", "UDP 53"⟩]) :=
  (ingress_row_orientation (by decide) (by decide)).1

example : parseDotNodes (listToString "dot" exConns [wlA, wlB]) = orderedNodes ((listVisited exConns [wlA, wlB]).map PeerInfo.node) :=
  (list_dot_nodes (by decide) (by decide)).1
/-- in the example diff the new workload `ns1/new[Job]` is drawn green inside the cluster of `ns1` -/
example : (⟨"ns1/new[Job]", "new[Job]", "#008000", some "ns1"⟩ : DotNode) ∈ parseDotNodes (diffToString "dot" "dir1" "dir2" exDiff) :=
  (diff_dot_annotations "dir1" "dir2" (by decide) (by decide) (by decide) (by unfold DiffPeersConsistent KeyInj; decide)
    (d := ⟨"added", wlC, ipAll, "No Connections", "All Connections", true, false⟩) (by decide) (by decide)).1

end Netpol.Properties.C09
