import Netpol.Model.Pipeline
namespace Netpol.Properties.C13
open Netpol Pipeline

/-- documents the scanner ignores never change the result -/
theorem ignored_docs_invariant (objs : List Obj) (classes : List ScanClass) (stop : Bool)
    (h : ∀ c ∈ classes, c = .ignored) : outcome objs classes stop = outcome objs [] stop := by
  have h1 : ScanClass.unreadable ∉ classes := fun hc => by cases h _ hc
  have h2 : ScanClass.malformed ∉ classes := fun hc => by cases h _ hc
  simp [outcome, h1, h2]

/-- without stop-on-first-error no injected document (of any class) changes the computed connections -/
theorem bad_docs_never_skew (objs : List Obj) (classes : List ScanClass) :
    outcome objs classes false = WorldDriver.runList objs "" := by
  simp [outcome]

/-- with stop-on-first-error a severe error (malformed document) yields an empty result, never a partial report -/
theorem stop_on_error_no_partial (objs : List Obj) (classes : List ScanClass)
    (hm : ScanClass.malformed ∈ classes) (hu : ScanClass.unreadable ∉ classes) :
    outcome objs classes true = .list [.atom "ok", .list [.atom "peers"]] := by
  simp [outcome, hm, hu]

/-- with stop-on-first-error an input without workloads (a severe error) yields an empty result -/
theorem stop_on_error_no_workloads (objs : List Obj) (classes : List ScanClass)
    (hw : hasWorkload objs = false) (hu : ScanClass.unreadable ∉ classes) :
    outcome objs classes true = .list [.atom "ok", .list [.atom "peers"]] := by
  simp [outcome, hw, hu]

/-- with stop-on-first-error an unreadable file is fatal: an error and no result -/
theorem stop_unreadable_is_error (objs : List Obj) (classes : List ScanClass)
    (hu : ScanClass.unreadable ∈ classes) :
    outcome objs classes true = .list [.atom "err", .atom "other"] := by
  simp [outcome, hu]

/-- the outcome is one of: the full report of the good documents, an empty report, an error — never a partial report -/
theorem outcome_trichotomy (objs : List Obj) (classes : List ScanClass) (stop : Bool) :
    outcome objs classes stop = WorldDriver.runList objs "" ∨
    outcome objs classes stop = .list [.atom "ok", .list [.atom "peers"]] ∨
    outcome objs classes stop = .list [.atom "err", .atom "other"] := by
  cases stop
  · left; simp [outcome]
  · by_cases hu : ScanClass.unreadable ∈ classes
    · right; right; simp [outcome, hu]
    · by_cases hs : (ScanClass.malformed ∈ classes ∨ hasWorkload objs = false)
      · right; left
        rcases hs with hm | hw
        · simp [outcome, hu, hm]
        · simp [outcome, hu, hw]
      · left
        have hm : ScanClass.malformed ∉ classes := fun h => hs (Or.inl h)
        have hw : hasWorkload objs = true := by
          cases h : hasWorkload objs
          · exact absurd (Or.inr h) hs
          · rfl
        simp [outcome, hu, hm, hw]

example : outcome [] [.ignored, .malformed] true = .list [.atom "ok", .list [.atom "peers"]] := by
  apply stop_on_error_no_partial <;> decide

end Netpol.Properties.C13
