import Netpol.Model.Cli
import Netpol.Model.Pipeline
import Netpol.Tie.C18
/-! C18 — CLI, directory API and resource-info API give the same answer.
The command layer is modelled with the library as a parameter (`Model/Cli.lean`); the facts about the Go code the
theorems rest on are regenerated from the source on every run and checked in `Netpol/Tie/C18.lean`. The byte-level
agreement of the built binary with the library (stdout, `-f`, exit status, every flag combination) is the P leg of the
check (`fmt` family). -/
namespace Netpol.Properties.C18
open Netpol Cli

/-- the `list` command as wired in the current source -/
def listWiring : Wiring :=
  { options := ((Gen.cliWiring.find? (·.1 == "getConnlistOptions")).map (·.2)).getD []
    printsReturnedString := Gen.listPrintsReturnedString
    writesSameBytesToFile := Gen.listWritesSameBytesToFile
    exitsOneOnError := Gen.executeExitsOneOnError }

/-- the `diff` command as wired in the current source -/
def diffWiring : Wiring :=
  { options := ((Gen.cliWiring.find? (·.1 == "getDiffOptions")).map (·.2)).getD []
    printsReturnedString := Gen.diffPrintsReturnedString
    writesSameBytesToFile := Gen.diffWritesSameBytesToFile
    exitsOneOnError := Gen.executeExitsOneOnError }

/-- the options a user's flags stand for (the specification of the wiring) -/
def specListOpts (stop exposure : Bool) : List String :=
  ["connlist.WithLogger(l)", "connlist.WithFocusWorkload(focusWorkload)", "connlist.WithOutputFormat(output)"] ++
  (if stop then ["connlist.WithStopOnError()"] else []) ++ (if exposure then ["connlist.WithExposureAnalysis()"] else [])

def specDiffOpts (stop : Bool) : List String :=
  ["diff.WithLogger(l)", "diff.WithOutputFormat(outFormat)", "diff.WithArgNames(dir1Arg, dir2Arg)"] ++
  (if stop then ["diff.WithStopOnError()"] else [])

theorem listWiring_options : listWiring.options = Tie.C18.specListOptions := by
  have h := Tie.C18.list_options_eq
  unfold listWiring
  cases hf : (Gen.cliWiring.find? (·.1 == "getConnlistOptions")) with
  | none => rw [hf] at h; cases h
  | some x => rw [hf] at h; simpa using h

theorem diffWiring_options : diffWiring.options = Tie.C18.specDiffOptions := by
  have h := Tie.C18.diff_options_eq
  unfold diffWiring
  cases hf : (Gen.cliWiring.find? (·.1 == "getDiffOptions")) with
  | none => rw [hf] at h; cases h
  | some x => rw [hf] at h; simpa using h

/-- every flag assignment reaches the library as exactly the options it stands for: no flag is dropped, none is added -/
theorem list_options_exact (flags : String → Bool) :
    optionsOf listWiring.options flags = specListOpts (flags "stopOnFirstError") (flags "exposureAnalysis") := by
  rw [listWiring_options]
  cases h1 : flags "stopOnFirstError" <;> cases h2 : flags "exposureAnalysis" <;>
    simp [optionsOf, Tie.C18.specListOptions, specListOpts, List.filter, h1, h2]

theorem diff_options_exact (flags : String → Bool) :
    optionsOf diffWiring.options flags = specDiffOpts (flags "stopOnFirstError") := by
  rw [diffWiring_options]
  cases h1 : flags "stopOnFirstError" <;>
    simp [optionsOf, Tie.C18.specDiffOptions, specDiffOpts, List.filter, h1]

section
variable {Res : Type} (lib : Lib Res) (flags : String → Bool)

/-- `list`: stdout is exactly the library's string for the same options, the file holds the same bytes, exit status 0 -/
theorem list_success {r : Res} {s : String}
    (ha : lib.analyse (specListOpts (flags "stopOnFirstError") (flags "exposureAnalysis")) = .ok r)
    (hr : lib.render (specListOpts (flags "stopOnFirstError") (flags "exposureAnalysis")) r = .ok s) (toFile : Bool) :
    run listWiring lib flags toFile = ⟨some s, if toFile then some s else none, 0⟩ := by
  have h := Tie.C18.stdout_eq_library_string
  have h' := Tie.C18.file_eq_stdout
  simp only [run, list_options_exact, ha, hr]
  simp [listWiring, h.1, h'.1]

/-- `list`: the exit status is non-zero exactly when a library call returns an error, and then nothing is printed -/
theorem list_exit_nonzero_iff (toFile : Bool) :
    (run listWiring lib flags toFile).exit ≠ 0 ↔
      (∃ e, lib.analyse (specListOpts (flags "stopOnFirstError") (flags "exposureAnalysis")) = .error e) ∨
      (∃ r e, lib.analyse (specListOpts (flags "stopOnFirstError") (flags "exposureAnalysis")) = .ok r ∧
        lib.render (specListOpts (flags "stopOnFirstError") (flags "exposureAnalysis")) r = .error e) := by
  have hx : listWiring.exitsOneOnError = true := Tie.C18.exit_nonzero_on_error
  simp only [run, list_options_exact]
  cases ha : lib.analyse (specListOpts (flags "stopOnFirstError") (flags "exposureAnalysis")) with
  | error e => simp [hx]
  | ok r =>
    cases hr : lib.render (specListOpts (flags "stopOnFirstError") (flags "exposureAnalysis")) r with
    | error e => simp [hx, hr]
    | ok s => simp [hr]

theorem list_error_prints_nothing (toFile : Bool) (h : (run listWiring lib flags toFile).exit ≠ 0) :
    (run listWiring lib flags toFile).stdout = none ∧ (run listWiring lib flags toFile).file = none := by
  simp only [run] at h ⊢
  cases ha : lib.analyse (optionsOf listWiring.options flags) with
  | error e => simp
  | ok r =>
    cases hr : lib.render (optionsOf listWiring.options flags) r with
    | error e => simp [hr]
    | ok s => simp [ha, hr] at h

/-- `-f FILE` writes the same bytes as stdout -/
theorem list_file_eq_stdout : (run listWiring lib flags true).file = (run listWiring lib flags true).stdout := by
  have h := Tie.C18.stdout_eq_library_string
  have h' := Tie.C18.file_eq_stdout
  simp only [run]
  cases ha : lib.analyse (optionsOf listWiring.options flags) with
  | error e => simp
  | ok r =>
    cases hr : lib.render (optionsOf listWiring.options flags) r with
    | error e => simp [hr]
    | ok s =>
      have hp : listWiring.printsReturnedString = true := h.1
      have hw : listWiring.writesSameBytesToFile = true := h'.1
      simp [hr, hp, hw]

theorem diff_success {r : Res} {s : String}
    (ha : lib.analyse (specDiffOpts (flags "stopOnFirstError")) = .ok r)
    (hr : lib.render (specDiffOpts (flags "stopOnFirstError")) r = .ok s) (toFile : Bool) :
    run diffWiring lib flags toFile = ⟨some s, if toFile then some s else none, 0⟩ := by
  have h := Tie.C18.stdout_eq_library_string
  have h' := Tie.C18.file_eq_stdout
  simp only [run, diff_options_exact, ha, hr]
  simp [diffWiring, h.2, h'.2]

theorem diff_exit_nonzero_iff (toFile : Bool) :
    (run diffWiring lib flags toFile).exit ≠ 0 ↔
      (∃ e, lib.analyse (specDiffOpts (flags "stopOnFirstError")) = .error e) ∨
      (∃ r e, lib.analyse (specDiffOpts (flags "stopOnFirstError")) = .ok r ∧
        lib.render (specDiffOpts (flags "stopOnFirstError")) r = .error e) := by
  have hx : diffWiring.exitsOneOnError = true := Tie.C18.exit_nonzero_on_error
  simp only [run, diff_options_exact]
  cases ha : lib.analyse (specDiffOpts (flags "stopOnFirstError")) with
  | error e => simp [hx]
  | ok r =>
    cases hr : lib.render (specDiffOpts (flags "stopOnFirstError")) r with
    | error e => simp [hx, hr]
    | ok s => simp [hr]

theorem diff_file_eq_stdout : (run diffWiring lib flags true).file = (run diffWiring lib flags true).stdout := by
  have h := Tie.C18.stdout_eq_library_string
  have h' := Tie.C18.file_eq_stdout
  simp only [run]
  cases ha : lib.analyse (optionsOf diffWiring.options flags) with
  | error e => simp
  | ok r =>
    cases hr : lib.render (optionsOf diffWiring.options flags) r with
    | error e => simp [hr]
    | ok s =>
      have hp : diffWiring.printsReturnedString = true := h.2
      have hw : diffWiring.writesSameBytesToFile = true := h'.2
      simp [hr, hp, hw]
end

/-- `ConnlistFromDirPath` = scan + `ConnlistFromResourceInfos`: in the pipeline model the directory entry point is the
resource-info entry point applied to the scanned documents whenever the scanner reports no error -/
theorem dirpath_eq_infos (objs : List Obj) (classes : List Pipeline.ScanClass) (stop : Bool)
    (h : Pipeline.ScanClass.unreadable ∉ classes) :
    Pipeline.outcome objs classes stop = Pipeline.outcome objs (classes.filter (· != .unreadable)) stop := by
  have : classes.filter (· != .unreadable) = classes := by
    apply List.filter_eq_self.mpr
    intro c hc
    cases c <;> simp_all
  rw [this]

/-- the premises are satisfiable: a library that answers -/
example : run listWiring (⟨fun _ => .ok 1, fun _ n => .ok (toString n)⟩ : Lib Nat) (fun _ => true) true =
    ⟨some "1", some "1", 0⟩ := list_success _ _ rfl rfl true

example : (run diffWiring (⟨fun _ => .error "x", fun _ n => .ok (toString n)⟩ : Lib Nat) (fun _ => false) false).exit = 1 := by
  decide

end Netpol.Properties.C18
