import Netpol.Model.Engine
namespace Netpol.Properties.C18
open Netpol

end Netpol.Properties.C18
