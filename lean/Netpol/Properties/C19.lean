import Netpol.Model.Engine
import Netpol.Model.Diff
import Netpol.Model.Sort
namespace Netpol.Properties.C19
open Netpol

end Netpol.Properties.C19
