import Netpol.Proofs.Structure

/-! C19: conflicting policy sets are always rejected, conflict-free ones are accepted.

Part A restates the decision-tree theorems of `Netpol.Model.Sort` about
`sortAdminNetpolsByPriority` (any correct comparison sort, run with the Go `less` callback that
sets an error flag, reports every priority conflict). Part B is about the model of
`addObjectsByKind` (`Engine.build` = fold of `Engine.insertObject`, then `Engine.sortANPs`, then
`Engine.resolveMissingNamespaces`) and about `Engine.podOwnersMap`; it includes the priority checks
of `InsertObject` (`insert_same_priority_rejected`, `insert_invalid_priority_rejected`,
`build_sort_never_fails`). Part C is the converse (no false alarm).

Vocabulary from `Netpol.Structure`: `npNs p` is the namespace after defaulting (`""` ↦
`"default"`), `npKey p = (npNs p, p.name)`; `npsOf/anpsOf/banpsOf/podsOf objs` are the objects of
one kind in input order. Positions are given as `objs[i]? = some o`. -/
namespace Netpol.Properties.C19
open Netpol Netpol.Engine Netpol.Structure

/-! ### A. the sort, as a decision tree -/

open Netpol.Sort in
/-- for every length and every correct comparison sort: a tie or an invalid priority is reported -/
theorem priority_conflict_rejected {n : Nat} (alg : Alg n) (hc : Correct alg) (items : Fin n → Item)
    (hbad : (∃ i j, i ≠ j ∧ (items i).prio = (items j).prio) ∨ (∃ i, (items i).valid = false)) :
    sortCheck items alg = true := Netpol.Sort.priority_conflict_rejected alg hc items hbad

open Netpol.Sort in
theorem bad_input_detected {n : Nat} (alg : Alg n) (hc : Correct alg) (hn : 2 ≤ n)
    (items : Fin n → Item)
    (hbad : (∃ i j, i ≠ j ∧ (items i).prio = (items j).prio) ∨ (∃ i, (items i).valid = false)) :
    runGo items alg = true := Netpol.Sort.bad_input_detected alg hc hn items hbad

open Netpol.Sort in
theorem tie_is_compared {n : Nat} (alg : Alg n) (hc : Correct alg) (k : Fin n → Nat)
    (i j : Fin n) (hij : i ≠ j) (hk : k i = k j) :
    ∃ p ∈ (run (lessOf k) alg).2, p.1 ≠ p.2 ∧ k p.1 = k p.2 :=
  Netpol.Sort.tie_is_compared alg hc k i j hij hk

open Netpol.Sort in
theorem every_index_compared {n : Nat} (alg : Alg n) (hc : Correct alg) (hn : 2 ≤ n)
    (k : Fin n → Nat) (i : Fin n) : ∃ p ∈ (run (lessOf k) alg).2, p.1 = i ∨ p.2 = i :=
  Netpol.Sort.every_index_compared alg hc hn k i

open Netpol.Sort in
theorem clean_input_accepted {n : Nat} (alg : Alg n) (hs : NoSelfCmp alg) (items : Fin n → Item)
    (hinj : ∀ i j, i ≠ j → (items i).prio ≠ (items j).prio)
    (hvalid : ∀ x, (items x).valid = true) : runGo items alg = false :=
  Netpol.Sort.clean_input_accepted alg hs items hinj hvalid

/-! ### B. the insertion fold -/

/-- a failure of the insertion fold is a failure of `build`, with the same error -/
theorem build_error_of_fold {objs : List Obj} {err : Err}
    (h : objs.foldlM insertObject ({} : Engine) = .error err) : Engine.build objs = .error err := by
  rw [build_eq, h]

/-- two NetworkPolicy objects with the same (namespace after defaulting, name), anywhere in the
input: the insertion fold fails (with the error of the first failing `insertObject`) -/
theorem dup_netpol_rejected_fold (objs : List Obj) {i j : Nat} {p q : NetPol}
    (hi : objs[i]? = some (.np p)) (hj : objs[j]? = some (.np q)) (hij : i < j)
    (hns : npNs p = npNs q) (hname : p.name = q.name) :
    ∃ err, objs.foldlM insertObject ({} : Engine) = .error err := by
  obtain ⟨l1, l2, l3, rfl⟩ := split_two hi hj hij
  exact foldlM_conflict (f := insertObject) (fun e => hasNetpol e (npNs p) p.name) (.np p) (.np q)
    (fun _ _ _ hs h => hasNetpol_mono hs h) (fun _ _ h => hasNetpol_set h)
    (fun _ hs => hasNetpol_trig (by rw [← hns, ← hname]; exact hs)) l1 l2 l3 _

theorem dup_netpol_rejected (objs : List Obj) {i j : Nat} {p q : NetPol}
    (hi : objs[i]? = some (.np p)) (hj : objs[j]? = some (.np q)) (hij : i < j)
    (hns : npNs p = npNs q) (hname : p.name = q.name) :
    ∃ err, Engine.build objs = .error err :=
  Structure.build_error_of_fold (dup_netpol_rejected_fold objs hi hj hij hns hname)

/-- when the duplicate is met, the error is `dupNetpol`: the step itself, on any engine that has
already taken the first policy -/
theorem dup_netpol_error {e : Engine} {p : NetPol} (h : hasNetpol e (npNs p) p.name) :
    e.insertObject (.np p) = .error .dupNetpol := insertObject_np_dup h

/-- whatever makes the insertion fold fail, the error is one of the conflict classes
`conflictErrs = [dupNetpol, dupANP, anpPriority, banpExists, banpName, badPod]` (an earlier
conflict in the list may pre-empt the one a theorem below speaks about). `anpPriority` belongs to
the list since `insertAdminNetworkPolicy` refuses a priority outside 0..1000 or held already: with
the former five-element list the statement is false for the model of the repaired tool, see the
example below. -/
theorem fold_error_class {objs : List Obj} {err : Err}
    (h : objs.foldlM insertObject ({} : Engine) = .error err) : err ∈ conflictErrs :=
  Structure.fold_error_class rfl h

example : conflictErrs = [.dupNetpol, .dupANP, .anpPriority, .banpExists, .banpName, .badPod] := rfl

/-- the errors of `build` are the conflict classes and `anpPriority` (which is one of them now:
the second disjunct is kept for the readers of the former statement) -/
theorem build_error_class {objs : List Obj} {err : Err} (h : Engine.build objs = .error err) :
    err ∈ conflictErrs ∨ err = .anpPriority := by
  rw [build_eq] at h
  cases hf : objs.foldlM insertObject ({} : Engine) with
  | error err' =>
    rw [hf] at h; cases h
    exact Or.inl (fold_error_class hf)
  | ok e =>
    rw [hf] at h
    simp only at h
    right
    cases hs : e.sortANPs with
    | error err' => rw [hs] at h; cases h; exact sortANPs_error hs
    | ok e' => rw [hs] at h; cases h

/-- the same AdminNetworkPolicy name twice -/
theorem dup_anp_rejected_fold (objs : List Obj) {i j : Nat} {a b : ANP}
    (hi : objs[i]? = some (.anp a)) (hj : objs[j]? = some (.anp b)) (hij : i < j)
    (hname : a.name = b.name) :
    ∃ err, objs.foldlM insertObject ({} : Engine) = .error err := by
  obtain ⟨l1, l2, l3, rfl⟩ := split_two hi hj hij
  exact foldlM_conflict (f := insertObject) (fun e => a.name ∈ e.anpNames) (.anp a) (.anp b)
    (fun _ _ _ hs h => anpName_mono hs h) (fun _ _ h => anpName_set h)
    (fun _ hs => anpName_trig (by rw [← hname]; exact hs)) l1 l2 l3 _

theorem dup_anp_rejected (objs : List Obj) {i j : Nat} {a b : ANP}
    (hi : objs[i]? = some (.anp a)) (hj : objs[j]? = some (.anp b)) (hij : i < j)
    (hname : a.name = b.name) : ∃ err, Engine.build objs = .error err :=
  Structure.build_error_of_fold (dup_anp_rejected_fold objs hi hj hij hname)

/-- two BaselineAdminNetworkPolicy objects -/
theorem two_banp_rejected_fold (objs : List Obj) {i j : Nat} {a b : BANP}
    (hi : objs[i]? = some (.banp a)) (hj : objs[j]? = some (.banp b)) (hij : i < j) :
    ∃ err, objs.foldlM insertObject ({} : Engine) = .error err := by
  obtain ⟨l1, l2, l3, rfl⟩ := split_two hi hj hij
  exact foldlM_conflict (f := insertObject) (fun e => e.banp.isSome = true) (.banp a) (.banp b)
    (fun _ _ _ hs h => banp_mono hs h) (fun _ _ h => banp_set h)
    (fun _ hs => banp_trig hs) l1 l2 l3 _

theorem two_banp_rejected (objs : List Obj) {i j : Nat} {a b : BANP}
    (hi : objs[i]? = some (.banp a)) (hj : objs[j]? = some (.banp b)) (hij : i < j) :
    ∃ err, Engine.build objs = .error err :=
  Structure.build_error_of_fold (two_banp_rejected_fold objs hi hj hij)

/-- a BaselineAdminNetworkPolicy that is not named "default" -/
theorem banp_name_rejected_fold (objs : List Obj) {b : BANP} (hb : .banp b ∈ objs)
    (hname : b.name ≠ "default") : ∃ err, objs.foldlM insertObject ({} : Engine) = .error err :=
  foldlM_error_of_mem hb (fun _ => banp_name_trig hname) _

theorem banp_name_rejected (objs : List Obj) {b : BANP} (hb : .banp b ∈ objs)
    (hname : b.name ≠ "default") : ∃ err, Engine.build objs = .error err :=
  Structure.build_error_of_fold (banp_name_rejected_fold objs hb hname)

/-- a Pod object without host IP -/
theorem bad_pod_rejected (objs : List Obj) {p : Pod} (hp : .pod p ∈ objs) (hip : p.hostIP = "") :
    ∃ err, Engine.build objs = .error err :=
  Structure.build_error_of_fold (foldlM_error_of_mem hp (fun _ => badPod_trig hip) _)

/-- no step of the fold removes an ANP: every ANP object of the input is in the ANP list of the
folded engine (more precisely that list is a permutation of the ANP objects, `fold_anps_perm`) -/
theorem fold_anps_mem {objs : List Obj} {e : Engine}
    (h : objs.foldlM insertObject ({} : Engine) = .ok e) {a : ANP} (ha : .anp a ∈ objs) :
    a ∈ e.anps := Structure.fold_anps_mem h ha

theorem fold_anps_perm {objs : List Obj} {e : Engine}
    (h : objs.foldlM insertObject ({} : Engine) = .ok e) : e.anps.Perm (anpsOf objs) := by
  simpa using Structure.fold_anps_perm h

/-- `sortANPs` (the model-level abstraction of the sort, justified by part A) rejects two ANPs
with the same priority and any priority outside 0..1000 -/
theorem priority_conflict_rejected_model (e : Engine)
    (h : (∃ (i j : Nat) (a b : ANP), i < j ∧ e.anps[i]? = some a ∧ e.anps[j]? = some b ∧ a.prio = b.prio) ∨
      (∃ a ∈ e.anps, ¬ (0 ≤ a.prio ∧ a.prio ≤ 1000))) :
    e.sortANPs = .error .anpPriority := by
  rcases h with ⟨i, j, a, b, hij, hi, hj, hp⟩ | ⟨a, ha, hv⟩
  · apply sortANPs_error_of_dup
    obtain ⟨l1, l2, l3, h3⟩ := split_two hi hj hij
    rw [h3]
    simp only [List.map_append, List.map_cons, hp]
    exact not_nodup_of_split
  · apply sortANPs_error_of_invalid ha
    unfold ANP.validPriority
    simp only [ge_iff_le, decide_eq_false_iff_not]
    exact hv

/-- hence `build` rejects an input with two ANP objects of the same priority … -/
theorem same_priority_rejected (objs : List Obj) {i j : Nat} {a b : ANP}
    (hi : objs[i]? = some (.anp a)) (hj : objs[j]? = some (.anp b)) (hij : i < j)
    (hprio : a.prio = b.prio) : ∃ err, Engine.build objs = .error err := by
  rw [build_eq]
  cases hfold : objs.foldlM insertObject ({} : Engine) with
  | error err => exact ⟨err, rfl⟩
  | ok e =>
    have hperm := fold_anps_perm hfold
    have hdup : ¬ (e.anps.map (·.prio)).Nodup := by
      rw [(hperm.map _).nodup_iff]
      obtain ⟨l1, l2, l3, h3⟩ := split_two hi hj hij
      rw [h3]
      simp only [anpsOf_append, anpsOf_cons_anp, List.map_append, List.map_cons, hprio]
      exact not_nodup_of_split
    exact ⟨.anpPriority, by simp only [sortANPs_error_of_dup hdup]⟩

/-- … and an input with an ANP object whose priority is outside 0..1000 -/
theorem invalid_priority_rejected (objs : List Obj) {a : ANP} (ha : .anp a ∈ objs)
    (hprio : ¬ (0 ≤ a.prio ∧ a.prio ≤ 1000)) : ∃ err, Engine.build objs = .error err := by
  rw [build_eq]
  cases hfold : objs.foldlM insertObject ({} : Engine) with
  | error err => exact ⟨err, rfl⟩
  | ok e =>
    have := priority_conflict_rejected_model e (Or.inr ⟨a, fold_anps_mem hfold ha, hprio⟩)
    exact ⟨.anpPriority, by simp only [this]⟩

/-- if the fold succeeds, the error is exactly `anpPriority`. (Kept as stated; since `insertANP`
examines the priorities the two hypotheses exclude each other — the fold does not succeed on such
an input, `priority_conflict_rejected_fold` below — so the statement is vacuous for the present
model.) -/
theorem priority_conflict_error (objs : List Obj) {e : Engine}
    (hfold : objs.foldlM insertObject ({} : Engine) = .ok e)
    (h : (∃ (i j : Nat) (a b : ANP), i < j ∧ objs[i]? = some (.anp a) ∧ objs[j]? = some (.anp b) ∧ a.prio = b.prio) ∨
      (∃ a : ANP, .anp a ∈ objs ∧ ¬ (0 ≤ a.prio ∧ a.prio ≤ 1000))) :
    Engine.build objs = .error .anpPriority := by
  rw [build_eq, hfold]
  have : e.sortANPs = .error .anpPriority := by
    rcases h with ⟨i, j, a, b, hij, hi, hj, hp⟩ | ⟨a, ha, hv⟩
    · apply sortANPs_error_of_dup
      rw [((fold_anps_perm hfold).map _).nodup_iff]
      obtain ⟨l1, l2, l3, h3⟩ := split_two hi hj hij
      rw [h3]
      simp only [anpsOf_append, anpsOf_cons_anp, List.map_append, List.map_cons, hp]
      exact not_nodup_of_split
    · exact priority_conflict_rejected_model e (Or.inr ⟨a, fold_anps_mem hfold ha, hv⟩)
  simp only [this]

/-! ### the priority checks of `InsertObject`

`insertAdminNetworkPolicy` itself refuses a priority outside 0..1000 and a priority some held
policy has (after the exposure flag and the name; before the name is registered), so the entry
point `InsertObject` — the one `eval` fills its engine with — rejects what the sort of the batch
path rejects, and the batch path never reaches its sort with a conflict. -/

/-- **`InsertObject` of an ANP whose priority is held by another policy of the engine is
rejected**, whatever the engine; the error is `anpPriority` when the two earlier checks pass
(exposure analysis off, name not registered). No engine is returned: the caller keeps the one it
had (`Properties.C15.insert_same_priority_noop` says so for the state with its cache). -/
theorem insert_same_priority_rejected {e : Engine} {a b : ANP} (hb : b ∈ e.anps)
    (hp : b.prio = a.prio) :
    (∃ err, e.insertObject (.anp a) = .error err) ∧
    (e.exposure = false → a.name ∉ e.anpNames → e.insertObject (.anp a) = .error .anpPriority) := by
  refine ⟨?_, fun hexp hn => insertANP_same_prio hexp hn hb hp⟩
  cases h : e.insertObject (.anp a) with
  | error err => exact ⟨err, rfl⟩
  | ok e' => exact absurd hp ((insertObject_anp_prio h).2 b hb)

/-- **`InsertObject` of an ANP whose priority is outside 0..1000 is rejected**, likewise -/
theorem insert_invalid_priority_rejected {e : Engine} {a : ANP}
    (hprio : ¬ (0 ≤ a.prio ∧ a.prio ≤ 1000)) :
    (∃ err, e.insertObject (.anp a) = .error err) ∧
    (e.exposure = false → a.name ∉ e.anpNames → e.insertObject (.anp a) = .error .anpPriority) := by
  have hv : a.validPriority = false := by unfold ANP.validPriority; simpa using hprio
  refine ⟨?_, fun hexp hn => insertANP_invalid hexp hn hv⟩
  cases h : e.insertObject (.anp a) with
  | error err => exact ⟨err, rfl⟩
  | ok e' => rw [(insertObject_anp_prio h).1] at hv; cases hv

/-- conversely an ANP is accepted by `InsertObject` exactly when the four checks pass -/
theorem insert_anp_accepted_iff {e : Engine} {a : ANP} :
    (∃ e', e.insertObject (.anp a) = .ok e') ↔
      e.exposure = false ∧ a.name ∉ e.anpNames ∧ (0 ≤ a.prio ∧ a.prio ≤ 1000) ∧
        ∀ b ∈ e.anps, b.prio ≠ a.prio := by
  have hv : a.validPriority = true ↔ (0 ≤ a.prio ∧ a.prio ≤ 1000) := by
    unfold ANP.validPriority; simp
  rw [← hv]
  exact insertANP_ok_iff

/-- after a successful insertion fold the held priorities are pairwise distinct and within
0..1000 … -/
theorem fold_priorities_clean {objs : List Obj} {e : Engine}
    (h : objs.foldlM insertObject ({} : Engine) = .ok e) :
    (e.anps.map (·.prio)).Nodup ∧ ∀ a ∈ e.anps, 0 ≤ a.prio ∧ a.prio ≤ 1000 := by
  obtain ⟨h1, h2⟩ := fold_prioInv h prioInv_empty
  refine ⟨h1, fun a ha => ?_⟩
  have := h2 a ha
  unfold ANP.validPriority at this
  simpa using this

/-- … so **`build` never reaches `sortANPs` with a conflict**: the sort accepts whatever the fold
accepts … -/
theorem build_sort_never_fails {objs : List Obj} {e : Engine}
    (h : objs.foldlM insertObject ({} : Engine) = .ok e) : ∃ e', e.sortANPs = .ok e' :=
  fold_sortANPs_ok h

/-- … and `build` fails exactly when the insertion fold fails, with the error of the fold: a
priority conflict is reported by the object that brings it, as `InsertObject` reports it -/
theorem build_error_iff_fold {objs : List Obj} {err : Err} :
    Engine.build objs = .error err ↔ objs.foldlM insertObject ({} : Engine) = .error err :=
  Structure.build_error_iff_fold

/-- the fold version of `same_priority_rejected` / `invalid_priority_rejected` -/
theorem priority_conflict_rejected_fold (objs : List Obj)
    (h : (∃ (i j : Nat) (a b : ANP), i < j ∧ objs[i]? = some (.anp a) ∧ objs[j]? = some (.anp b) ∧ a.prio = b.prio) ∨
      (∃ a : ANP, .anp a ∈ objs ∧ ¬ (0 ≤ a.prio ∧ a.prio ≤ 1000))) :
    ∃ err, objs.foldlM insertObject ({} : Engine) = .error err := by
  cases hf : objs.foldlM insertObject ({} : Engine) with
  | error err => exact ⟨err, rfl⟩
  | ok e =>
    have := priority_conflict_error objs hf h
    rw [Structure.build_error_iff_fold, hf] at this
    cases this

/-! ### owner labels -/

/-- `labelsEq` is symmetric and transitive (it is reflexive only on label lists without
conflicting duplicate keys; reflexivity is not needed) -/
theorem labelsEq_symm (a b : Labels) : labelsEq a b = labelsEq b a := Structure.labelsEq_symm a b

theorem labelsEq_trans {a b c : Labels} (hab : labelsEq a b = true) (hbc : labelsEq b c = true) :
    labelsEq a c = true := Structure.labelsEq_trans hab hbc

/-- two pods of one owner (same namespace, same owner kind, same non-empty owner name) whose labels
differ, at any two distinct positions of the pod list — in any order, with any pods before, between
and after, including other pods of the same owner —: `ownerLabels` is raised. (The owner is
identified by kind and name: a ReplicaSet `w` and a ReplicationController `w` of one namespace are
two owners, see the example below.) -/
theorem owner_labels_rejected (e : Engine) {i j : Nat} {p q : Pod} (hij : i ≠ j)
    (hi : e.pods[i]? = some p) (hj : e.pods[j]? = some q)
    (hns : p.ns = q.ns) (hkind : p.ownerKind = q.ownerKind) (hown : p.ownerName = q.ownerName)
    (hne : p.ownerName ≠ "")
    (hl : labelsEq p.labels q.labels = false) : e.podOwnersMap = .error .ownerLabels := by
  unfold podOwnersMap podOwnersMapOf
  have hsym : labelsEq q.labels p.labels = false := by rw [Structure.labelsEq_symm]; exact hl
  have key : ∀ l1 l2 l3, e.pods = l1 ++ p :: (l2 ++ q :: l3) ∨ e.pods = l1 ++ q :: (l2 ++ p :: l3) →
      podOwnersMapOf.go [] [] e.sortedPods = .error .ownerLabels := by
    intro l1 l2 l3 hsplit
    rcases hsplit with h3 | h3
    · rcases perm_two_split (sortedPods_perm e).symm h3 with ⟨a, b, c, h4⟩ | ⟨a, b, c, h4⟩
      · rw [h4]; exact go_owner_labels a b c hns hkind hown hne hl
      · rw [h4]; exact go_owner_labels a b c hns.symm hkind.symm hown.symm (hown ▸ hne) hsym
    · rcases perm_two_split (sortedPods_perm e).symm h3 with ⟨a, b, c, h4⟩ | ⟨a, b, c, h4⟩
      · rw [h4]; exact go_owner_labels a b c hns.symm hkind.symm hown.symm (hown ▸ hne) hsym
      · rw [h4]; exact go_owner_labels a b c hns hkind hown hne hl
  rcases Nat.lt_or_gt_of_ne hij with h | h
  · obtain ⟨l1, l2, l3, h3⟩ := split_two hi hj h
    exact key l1 l2 l3 (Or.inl h3)
  · obtain ⟨l1, l2, l3, h3⟩ := split_two hj hi h
    exact key l1 l2 l3 (Or.inr h3)

/-- `ownerLabels` is the only error of `podOwnersMap` -/
theorem podOwnersMap_error {e : Engine} {err : Err} (h : e.podOwnersMap = .error err) :
    err = .ownerLabels := go_error h

/-! ### C. no false alarm -/

/-- distinct NetworkPolicy keys, distinct ANP names, at most one BANP and named "default", no Pod
object without host IP, ANP priorities distinct and within 0..1000: the input is accepted -/
theorem conflict_free_accepted (objs : List Obj)
    (hnp : ((npsOf objs).map npKey).Nodup)
    (hanp : ((anpsOf objs).map (·.name)).Nodup)
    (hbanp : (banpsOf objs).length ≤ 1)
    (hbn : ∀ b ∈ banpsOf objs, b.name = "default")
    (hpod : ∀ p ∈ podsOf objs, p.hostIP ≠ "")
    (hprio : ((anpsOf objs).map (·.prio)).Nodup)
    (hvalid : ∀ a ∈ anpsOf objs, 0 ≤ a.prio ∧ a.prio ≤ 1000) :
    ∃ e, Engine.build objs = .ok e := by
  obtain ⟨e, he⟩ := fold_ok_of_conflict_free objs {} rfl (by simpa using hnp) (by simpa using hanp)
    (by simpa using hbanp) hbn hpod (by simpa using hprio)
    (fun a ha => by
      have := hvalid a ha
      unfold ANP.validPriority
      simp only [ge_iff_le, decide_eq_true_eq]
      exact this)
  have hperm := fold_anps_perm he
  obtain ⟨e', he'⟩ := sortANPs_ok_of (e := e)
    (fun a ha => by
      have := hvalid a (hperm.mem_iff.mp ha)
      unfold ANP.validPriority
      simp only [ge_iff_le, decide_eq_true_eq]
      exact this)
    (by rw [(hperm.map _).nodup_iff]; exact hprio)
  exact ⟨e'.resolveMissingNamespaces, by rw [build_eq, he]; simp only [he']⟩

/-! ### non-vacuity -/

def sel0 : Selector := ⟨[], []⟩
def np1 : NetPol := ⟨"", "p", sel0, [], [], []⟩
def np2 : NetPol := ⟨"default", "p", sel0, [], [], []⟩
def np3 : NetPol := ⟨"other", "p", sel0, [], [], []⟩
def anp1 : ANP := ⟨"a", 5, .nss sel0, [], []⟩
def anp2 : ANP := ⟨"b", 5, .nss sel0, [], []⟩
def anp3 : ANP := ⟨"c", 1001, .nss sel0, [], []⟩
def anp4 : ANP := ⟨"a", 7, .nss sel0, [], []⟩
def banp1 : BANP := ⟨"default", .nss sel0, [], []⟩
def banp2 : BANP := ⟨"base", .nss sel0, [], []⟩
def nsX : NsObj := ⟨"x", []⟩
def podX : Pod := { ns := "x", name := "p1", labels := [("a", "1")], ports := [], ownerKind := "ReplicaSet", ownerName := "rs" }
def podY : Pod := { ns := "x", name := "p2", labels := [("a", "2")], ports := [], ownerKind := "ReplicaSet", ownerName := "rs" }
def podZ : Pod := { ns := "x", name := "p0", labels := [("a", "1")], ports := [], ownerKind := "ReplicaSet", ownerName := "rs" }

def errOf {α} : Except Err α → Option Err
  | .error e => some e
  | .ok _ => none

/-- "" and "default" are the same namespace; the duplicate is found across other objects -/
example : errOf (Engine.build [.np np1, .ns nsX, .anp anp1, .np np2]) = some .dupNetpol := by decide
example : npNs np1 = npNs np2 ∧ np1.name = np2.name := by decide
example : errOf (Engine.build [.np np1, .ns nsX, .np np3]) = none := by decide
example : errOf (Engine.build [.anp anp1, .np np1, .anp anp4]) = some .dupANP := by decide
example : errOf (Engine.build [.banp banp1, .np np1, .banp banp1]) = some .banpExists := by decide
example : errOf (Engine.build [.np np1, .banp banp2]) = some .banpName := by decide
example : errOf (Engine.build [.anp anp1, .np np1, .anp anp2]) = some .anpPriority := by decide
example : errOf (Engine.build [.np np1, .anp anp3]) = some .anpPriority := by decide
/-- the insertion fold itself raises `anpPriority` (it did not before `insertANP` examined the
priorities: `fold_error_class` with the five former classes is false for this input) -/
example : errOf ([Obj.anp anp1, .np np1, .anp anp2].foldlM insertObject ({} : Engine)) =
    some .anpPriority := by decide
example : errOf ([Obj.np np1, .anp anp3].foldlM insertObject ({} : Engine)) = some .anpPriority := by
  decide
/-- the first conflict met is the one reported: a repeated name and a repeated priority -/
example : errOf (Engine.build [.anp anp1, .anp anp2, .anp anp4]) = some .anpPriority := by decide
example : errOf (Engine.build [.anp anp1, .anp anp4, .anp anp2]) = some .dupANP := by decide
example : errOf (Engine.build [.anp anp1, .np np1, .banp banp1, .np np3, .ns nsX]) = none := by
  decide
/-- the hypotheses of `conflict_free_accepted` hold for that last input -/
example : let objs := [.anp anp1, .np np1, .banp banp1, .np np3, .ns nsX]
    ((npsOf objs).map npKey).Nodup ∧ ((anpsOf objs).map (·.name)).Nodup ∧
    (banpsOf objs).length ≤ 1 ∧ (∀ b ∈ banpsOf objs, b.name = "default") ∧
    (∀ p ∈ podsOf objs, p.hostIP ≠ "") ∧ ((anpsOf objs).map (·.prio)).Nodup ∧
    (∀ a ∈ anpsOf objs, 0 ≤ a.prio ∧ a.prio ≤ 1000) := by decide
/-- owner labels: the differing pair is found in either order and behind an agreeing pod
(`podOwnersMap` sorts the pods with `mergeSort`, which `decide` does not unfold; `podOwnersMap_eq`
takes the sorted arrangement instead) -/
example : errOf (podOwnersMap { pods := [podX, podY] }) = some .ownerLabels := by
  rw [podOwnersMap_eq (l := [podX, podY]) (by decide) (by decide)]; decide
example : errOf (podOwnersMap { pods := [podY, podX] }) = some .ownerLabels := by
  rw [podOwnersMap_eq (l := [podX, podY]) (by decide) (by decide)]; decide
example : errOf (podOwnersMap { pods := [podZ, podX, podY] }) = some .ownerLabels := by
  rw [podOwnersMap_eq (l := [podZ, podX, podY]) (by decide) (by decide)]; decide
example : errOf (podOwnersMap { pods := [podZ, podX] }) = none := by
  rw [podOwnersMap_eq (l := [podZ, podX]) (by decide) (by decide)]; decide
example : labelsEq podX.labels podY.labels = false := by decide
/-- a ReplicationController named like the ReplicaSet, with other labels: another owner, accepted -/
def podW : Pod := { podY with name := "p3", ownerKind := "ReplicationController" }
example : errOf (podOwnersMap { pods := [podX, podW] }) = none := by
  rw [podOwnersMap_eq (l := [podX, podW]) (by decide) (by decide)]; decide

end Netpol.Properties.C19
