import Netpol.Properties.C08.Engine
import Netpol.Proofs.PermDiff
import Netpol.Proofs.PermEval
import Netpol.Proofs.PermExposure

/-! # C08 (other commands) — `diff`, `list --exposure`, `eval` do not depend on the order of the input

`Netpol.Properties.C08.Engine` is about `WorldDriver.runList`. This module extends the
order-independence theorems to the other modelled commands. Only the property statements are
here; the proofs are in `Netpol.Proofs.PermDiff` (part A), `Netpol.Proofs.PermExposure` (part B) and
`Netpol.Proofs.PermEval` (part C). Vocabulary as in `Netpol.Properties.C08.Engine` (`DistinctKeys`, `PodsReal`,
`PodPortsValid`, `NPRulesValid`, `WellFormed`, `PermIngress.IngressWF`, `PermRules.ObjSim`). -/
namespace Netpol.Properties.C08.Commands
open Netpol Netpol.Engine Netpol.Structure Netpol.PermLayer

/-! ### A. `diff`

`WorldDriver.runDiff a b` reads its two inputs through `WorldDriver.listFor`: the list analysis with
the default focus — the entries of the peers × peers loop, then the ingress-controller entries in
the canonical order `WorldDriver.sortIngress` (by the name of the destination workload; in Go they
come out of a map iteration and every observable output sorts afterwards) —, and the peers list.
Because `createPodOwnersMap` walks the pods in sorted key order, the list analyses of two orders of
the same documents are *equal* — not only equal up to order —, so the diff of the two sides is the
same whatever `Diff.compute` does with the order of its arguments. Proofs in
`Netpol.Proofs.PermDiff`.

The hypotheses on one side of a diff are those of `list`: `WellFormed objs` and
`PermIngress.IngressWF objs` (the ingress-controller lines are part of the report the diff
compares), or, for a side without Ingress / Route targets, `DistinctKeys objs` alone (since
`getPoliciesSelectingPod` visits the policies in the order of their names, the two orders are the
same computation: `PermLayer.runList_perm_noIngress'`). The counterexamples of
`Netpol.Properties.C08.Engine.Counterexamples` and `Netpol.PermIngress.Cx` show in the diff as they
show in the list: with `b := [pod b]`, `runDiff ce1 b` has six lines and `runDiff ce1' b` four
(1: duplicate pod key; likewise 2: duplicate Namespace, 3: a Pod named like a generated pod); two
Service documents `default/s` in two orders give the ingress-controller line of `b` or of `a`
(`PermIngress.Cx.svcA` / `svcB`). The former counterexamples 5, 7, 8 (two evaluation errors in two
policies; a rule port / container port outside 1..65535 in one of three policies) are repaired by
the name order: with `base := [pod a, pod b]`, `runDiff base ce7` and `runDiff base ce7'` both have
only `unchanged` lines, `runDiff base ce5` and `runDiff base ce5'` are both `(err namedPortOnIP)`
(examples below); their variants inside one policy (`ce7i`, `ce8i`) remain, for part 2. (`#eval`;
`decide` cannot unfold the `mergeSort`s of the list analysis.) -/

/-- `WellFormed` without the admin-policy clause (the hypotheses of part 2, with distinct keys) -/
structure ListWF (objs : List Obj) : Prop where
  keys : DistinctKeys objs
  real : PodsReal objs
  ports : PodPortsValid objs
  rules : NPRulesValid objs

instance (objs : List Obj) : Decidable (ListWF objs) :=
  decidable_of_iff (DistinctKeys objs ∧ PodsReal objs ∧ PodPortsValid objs ∧ NPRulesValid objs)
    ⟨fun ⟨a, b, c, d⟩ => ⟨a, b, c, d⟩, fun ⟨a, b, c, d⟩ => ⟨a, b, c, d⟩⟩

theorem ListWF.perm {objs objs' : List Obj} (hp : objs.Perm objs') (h : ListWF objs) :
    ListWF objs' :=
  ⟨h.keys.perm hp, h.real.perm hp, h.ports.perm hp, h.rules.perm hp⟩

/-- the well-formedness of the `list` theorem implies it -/
theorem ListWF.of_wellFormed {objs : List Obj} (h : WellFormed objs) : ListWF objs :=
  ⟨h.keys, h.real, h.ports, npRulesValid_of_policiesValid h.policies⟩

theorem isOk_iff {objs : List Obj} :
    (Netpol.Engine.build objs).isOk = true ↔ ∃ e, Netpol.Engine.build objs = .ok e := by
  cases Netpol.Engine.build objs with
  | error err => simp [Except.isOk, Except.toBool]
  | ok e => simp [Except.isOk, Except.toBool]

/-- the list analysis consumed by the diff does not depend on the order of the documents: the same
entries in the same order, the same peers list — or the same evaluation error -/
theorem list_analysis_order_independent {objs objs' : List Obj} (hp : objs.Perm objs')
    (hw : WellFormed objs) (hi : PermIngress.IngressWF objs)
    (hok : (Netpol.Engine.build objs).isOk = true) :
    WorldDriver.listFor objs = WorldDriver.listFor objs' :=
  PermDiff.listFor_perm hp hw hi (isOk_iff.mp hok)

/-- … for an input without Ingress / Route targets from distinct keys alone -/
theorem list_analysis_order_independent_no_ingress {objs objs' : List Obj} (hp : objs.Perm objs')
    (hk : DistinctKeys objs) (hok : (Netpol.Engine.build objs).isOk = true)
    (htg : IngressA.targets objs = []) :
    WorldDriver.listFor objs = WorldDriver.listFor objs' :=
  PermDiff.listFor_perm_noIngress hp hk (isOk_iff.mp hok) htg

/-- **C08 for `diff`, part 1: permuting the documents of either side does not change the diff** -/
theorem diff_order_independent {a a' b b' : List Obj} (hpa : a.Perm a') (hpb : b.Perm b')
    (hwa : WellFormed a) (hia : PermIngress.IngressWF a) (hwb : WellFormed b)
    (hib : PermIngress.IngressWF b) (hoka : (Netpol.Engine.build a).isOk = true)
    (hokb : (Netpol.Engine.build b).isOk = true) :
    WorldDriver.runDiff a b = WorldDriver.runDiff a' b' :=
  PermDiff.runDiff_congr (list_analysis_order_independent hpa hwa hia hoka)
    (list_analysis_order_independent hpb hwb hib hokb)

/-- both sides without Ingress / Route targets: distinct keys are enough -/
theorem diff_order_independent_no_ingress {a a' b b' : List Obj} (hpa : a.Perm a')
    (hpb : b.Perm b') (hwa : DistinctKeys a) (hwb : DistinctKeys b)
    (hoka : (Netpol.Engine.build a).isOk = true) (hokb : (Netpol.Engine.build b).isOk = true)
    (hta : IngressA.targets a = []) (htb : IngressA.targets b = []) :
    WorldDriver.runDiff a b = WorldDriver.runDiff a' b' :=
  PermDiff.runDiff_congr (list_analysis_order_independent_no_ingress hpa hwa hoka hta)
    (list_analysis_order_independent_no_ingress hpb hwb hokb htb)

/-- a side that `build` rejects: when only the kind of conflict the error names is present, every
order of that side fails with the same error (the other side is arbitrary) -/
theorem diff_error_order_independent_left {a a' b : List Obj} (hpa : a.Perm a') {err : Err}
    (h : Netpol.Engine.build a = .error err) (hsingle : ∀ err', ErrClause err' a → err' = err) :
    WorldDriver.runDiff a b = WorldDriver.runDiff a' b :=
  PermDiff.runDiff_congr (PermDiff.listFor_error_perm hpa h hsingle) rfl

theorem diff_error_order_independent_right {a b b' : List Obj} (hpb : b.Perm b') {err : Err}
    (h : Netpol.Engine.build b = .error err) (hsingle : ∀ err', ErrClause err' b → err' = err) :
    WorldDriver.runDiff a b = WorldDriver.runDiff a b' :=
  PermDiff.runDiff_congr rfl (PermDiff.listFor_error_perm hpb h hsingle)

/-- **C08 for `diff`, part 2: nor does the order of rules, rule peers, rule ports and
`policyTypes` inside the NetworkPolicies of either side.** No assumption on keys nor on Services;
`build` may fail (then with the same error). -/
theorem diff_inner_order_independent {a a' b b' : List Obj}
    (ha : PermRules.Forall₂ PermRules.ObjSim a a') (hb : PermRules.Forall₂ PermRules.ObjSim b b')
    (hva : NPRulesValid a) (hra : PodsReal a) (hpa : PodPortsValid a)
    (hvb : NPRulesValid b) (hrb : PodsReal b) (hpb : PodPortsValid b) :
    WorldDriver.runDiff a b = WorldDriver.runDiff a' b' :=
  PermDiff.runDiff_congr (PermDiff.listFor_inner ha hva hra hpa) (PermDiff.listFor_inner hb hvb hrb hpb)

/-- the three parts of a `wdiff` answer (`WorldDriver.runWDiff`: list of A, list of B, diff) -/
theorem wdiff_order_independent {a a' b b' : List Obj} (hpa : a.Perm a') (hpb : b.Perm b')
    (hwa : WellFormed a) (hia : PermIngress.IngressWF a) (hwb : WellFormed b)
    (hib : PermIngress.IngressWF b) (hoka : (Netpol.Engine.build a).isOk = true)
    (hokb : (Netpol.Engine.build b).isOk = true) :
    WorldDriver.runList a "" = WorldDriver.runList a' "" ∧
    WorldDriver.runList b "" = WorldDriver.runList b' "" ∧
    WorldDriver.runDiff a b = WorldDriver.runDiff a' b' :=
  ⟨C08.Engine.list_order_independent hpa hwa hia hoka "",
   C08.Engine.list_order_independent hpb hwb hib hokb "",
   diff_order_independent hpa hpb hwa hia hwb hib hoka hokb⟩

/-! non-vacuity: the worlds of `Netpol.Properties.C08.Engine` and `Netpol.PermIngress.Ex` -/
namespace Examples
open C08.Engine.Examples

/-- a second side: the first one without a policy and with another client -/
def objsB : List Obj :=
  [.ns nsDefault, .wl web, .pod db1, .pod { client with labels := [("app", "client2")] }, .np npDb,
    .pod db2]

example : WellFormed objs ∧ PermIngress.IngressWF objs ∧ WellFormed objsB ∧
    PermIngress.IngressWF objsB := by decide
example : (Netpol.Engine.build objs).isOk = true ∧ (Netpol.Engine.build objsB).isOk = true := by
  decide

/-- the theorem at work: both sides reversed -/
example : WorldDriver.runDiff objs objsB = WorldDriver.runDiff objs.reverse objsB.reverse :=
  diff_order_independent (List.reverse_perm _).symm (List.reverse_perm _).symm (by decide)
    (by decide) (by decide) (by decide) (by decide) (by decide)

/-- a side with Services, an Ingress and a Route (`Netpol.PermIngress.Ex.objs`: the
ingress-controller lines are compared too) -/
example : WorldDriver.runDiff PermIngress.Ex.objs objsB =
    WorldDriver.runDiff PermIngress.Ex.objs.reverse objsB :=
  diff_order_independent (List.reverse_perm _).symm (List.Perm.refl _) (by decide) (by decide)
    (by decide) (by decide) (by decide) (by decide)

/-- the former counterexample 4 (two pods of one owner with different container ports), now within
the hypotheses -/
example : WorldDriver.runDiff C08.Engine.Counterexamples.ce4 C08.Engine.Counterexamples.ce4' =
    WorldDriver.runDiff C08.Engine.Counterexamples.ce4 C08.Engine.Counterexamples.ce4 :=
  diff_order_independent (List.Perm.refl _) (List.Perm.swap _ _ _).symm (by decide) (by decide)
    (by decide) (by decide) (by decide) (by decide)

/-- the former counterexamples 5 and 7 (invalid rules / a rule port 70000 in one of several policies
selecting a pod), now within the hypotheses of the no-ingress theorem -/
example : WorldDriver.runDiff C08.Engine.Counterexamples.ce5 C08.Engine.Counterexamples.ce7 =
    WorldDriver.runDiff C08.Engine.Counterexamples.ce5' C08.Engine.Counterexamples.ce7' :=
  diff_order_independent_no_ingress (((List.Perm.swap _ _ _).cons _).cons _)
    C08.Engine.Counterexamples.ce7_perm (by decide) (by decide) (by decide) (by decide) (by decide)
    (by decide)

/-- part 2 on the pair of `Netpol.PermRules.Example` -/
example : WorldDriver.runDiff PermRules.Example.objs objsB =
    WorldDriver.runDiff PermRules.Example.objs' objsB :=
  diff_inner_order_independent (by decide) (PermRules.Forall₂.refl PermRules.ObjSim.refl _)
    (by decide) (by decide) (by decide) (by decide) (by decide) (by decide)

end Examples

/-! ### B. `list --exposure`

`WorldDriver.runListX objs focus`: `Exposure.build` (policies and namespaces first, in document
order among them, then the other objects; the policy pre-scan, the representative peers — one per
key, the least spelling of equal selectors —, their removal when a real pod matches), the base
report in exposure mode and the exposed peers; peers, lines, exposed peers and the entries inside
them are printed sorted. Proofs in `Netpol.Proofs.PermExposure`, on top of
`Netpol.Proofs.ExposureBuild` / `ExposureLayer`.

`PermExposure.ListXWF objs` (decidable, invariant under permutation):
* `accepted : XBuildOK objs` — `Exposure.build` accepts the input, as a property of the multiset of
  objects (`PermExposure.build_isOk_iff`): no AdminNetworkPolicy / BANP object (exposure analysis
  refuses them), no Pod without host IP, distinct NetworkPolicy keys;
* `keys`, `real`, `ports`, `rules` — `DistinctKeys`, `PodsReal`, `PodPortsValid`, `NPRulesValid`
  as for `list`. Duplicate pod keys and duplicate Namespace names change the output here as they
  do for `list` (`#eval`: e.g. two pods `default/a` with labels `app=a` / `app=b` give `(ing 0)` in
  one order and `(ing 1)` in the other); an empty rule peer beside a named port towards an IP block
  does so when the two rules stand in one policy (`(err emptyRulePeer)` against
  `(err namedPortOnIP)`, part 2) and no longer when they stand in two policies (the policies
  selecting a pod are visited in the order of their names: both orders give `(err namedPortOnIP)`
  on the world of the former counterexample 5 — the proof of part 1 was not redone to drop the
  rule clause); `PodsReal`, `PodPortsValid` and the port
  clause of `NPRulesValid` are needed by the proofs only (they go through well-formed port sets): no
  input was found on which rule ports or container ports 0, 70000, −1, or a fake
  `representative-pod` among the pods, make the output depend on the order;
* `spellings : RepSpellingsS objs` — the `matchLabels` of the rule selectors are written in key
  order and two generated representative pods with the same printed spelling are the same pod.
  (`addRepresentative` keeps the first of two candidates with the same key *and* the same spelling;
  a model artefact of lists standing for Go maps — `matchLabels` written in two orders give two
  different `Pod` values with one spelling —, not observable in the output; proof-only hypothesis.)

The printer: `sortSx` sorts by `toString : Sexp → String`, and `Sexp.toStr` is a `partial def`,
opaque to the logic. The equalities therefore take the hypothesis
`PermExposure.EntriesPrintInj objs focus` (the printer tells apart the entries of each exposed
peer; checkable by `#eval`, not provable), and the `_struct` theorems state the same without it:
`PermExposure.ReportSim r r'` — the two results are the same value, or the same report up to the
order of the entries inside each exposed peer (same peers, same base entries, exposed peers in the
same order with the same name and flags and `ing` / `eg` lists that are permutations of each
other).

Finding (found by these proofs, confirmed on the Go code and repaired in the model and in Go while
this module was written): `convertNamedPorts` used to record a named port it had converted to its
number as *excluded*, which kept `checkIfAllConnections` from recognising the full set, so the
cluster-wide exposure of a pod selected by three policies `{TCP, UDP 1-65535}`, `{SCTP 1-65535}`,
`{named port http}` (pod port `http` = TCP 80) was `All Connections` in the order A, B, C and
`SCTP 1-65535,TCP 1-65535,UDP 1-65535` in the order C, A, B. On the repaired model
(`replaceNamedPort` drops the converted name) no hypothesis is needed for it
(`PermExposure.ns_convertNamedPorts`). -/

/-- **C08 for `list --exposure`, part 1: the report does not depend on the order of the objects**
(as an equality, given that the printer separates the entries of each exposed peer) -/
theorem listx_order_independent {objs objs' : List Obj} (hp : objs.Perm objs')
    (h : PermExposure.ListXWF objs) (focus : String)
    (hinj : PermExposure.EntriesPrintInj objs focus) :
    WorldDriver.runListX objs focus = WorldDriver.runListX objs' focus :=
  PermExposure.listx_order_independent hp h focus hinj

/-- … and without any assumption on the printer: the same report up to the order of the entries
inside each exposed peer (which `sortSx` then sorts by their printed form) -/
theorem listx_order_independent_struct {objs objs' : List Obj} (hp : objs.Perm objs')
    (h : PermExposure.ListXWF objs) (focus : String) :
    PermExposure.ReportSim (WorldDriver.runListX objs focus) (WorldDriver.runListX objs' focus) :=
  PermExposure.listx_order_independent_struct hp h focus

/-- **part 2: nor on the order of rules, rule peers, rule ports and `policyTypes` inside
NetworkPolicies** (in particular the position of an entire-cluster peer inside a rule, which ends
the pre-scan of the rule's peers and drops its selectors wherever it stands) -/
theorem listx_inner_order_independent {objs objs' : List Obj}
    (ho : PermRules.Forall₂ PermRules.ObjSim objs objs') (h : PermExposure.ListXWF objs)
    (focus : String) (hinj : PermExposure.EntriesPrintInj objs focus) :
    WorldDriver.runListX objs focus = WorldDriver.runListX objs' focus :=
  PermExposure.listx_inner_order_independent ho h focus hinj

theorem listx_inner_order_independent_struct {objs objs' : List Obj}
    (ho : PermRules.Forall₂ PermRules.ObjSim objs objs') (h : PermExposure.ListXWF objs)
    (focus : String) :
    PermExposure.ReportSim (WorldDriver.runListX objs focus) (WorldDriver.runListX objs' focus) :=
  PermExposure.listx_inner_order_independent_struct ho h focus

/-- acceptance by `Exposure.build` does not depend on the order -/
theorem exposure_build_accepts_order_independent {objs objs' : List Obj} (hp : objs.Perm objs') :
    (∃ x, Exposure.build objs = .ok x) ↔ (∃ x, Exposure.build objs' = .ok x) :=
  PermExposure.build_isOk_perm hp

/-- the hypotheses are invariant under permutation -/
theorem listXWF_order_independent {objs objs' : List Obj} (hp : objs.Perm objs')
    (h : PermExposure.ListXWF objs) : PermExposure.ListXWF objs' := h.perm hp

/-- non-vacuity: `Netpol.PermExposure.Example.objs` (a workload, three pods, a namespace, three
policies whose rules give five candidates for representative peers under four keys — one key in
two spellings —, three of them matched by real pods and removed) satisfies the hypotheses, and the
theorems apply to it -/
example : PermExposure.ListXWF PermExposure.Example.objs := PermExposure.Example.objs_wf
example (focus : String) :
    PermExposure.ReportSim (WorldDriver.runListX PermExposure.Example.objs focus)
      (WorldDriver.runListX PermExposure.Example.objs.reverse focus) :=
  listx_order_independent_struct (List.reverse_perm _).symm PermExposure.Example.objs_wf focus
example (focus : String) :
    PermExposure.ReportSim (WorldDriver.runListX PermExposure.Example.objs focus)
      (WorldDriver.runListX PermExposure.Example.objs' focus) :=
  listx_inner_order_independent_struct PermExposure.Example.objs_sim PermExposure.Example.objs_wf focus

/-! ### C. `eval`

`WorldDriver.runEvalAll objs`: one engine (`Engine.build objs`), a fresh cache, then
`CheckIfAllowed` for every ordered pair of the sorted pod keys and the probe addresses, every
protocol and probe port, threading the cache state; the string of answers `1` / `0` / `e`.

**The order of the documents** needs `DistinctKeys objs` and nothing else: since
`getPoliciesSelectingPod` visits the NetworkPolicies selecting a pod in the order of their names
(`Engine.policiesSelecting` = `sortByName` of the selecting policies; with distinct policy keys the
sorted list is the same list in both engines, `PermLayer.policiesSelecting_perm_eq`), the two runs
perform the same walk, and fail — if they fail — at the same place with the same error
(`PermEval.verdict_equiv'`). Not needed: any validity of rules, rule ports, container ports, admin
policies (the sorted ANP slice and the BANP are equal in both engines), real pods, and — new with the
name sort — `NoNamedPortOnIPs` / `NoEmptyRulePeer`.

**The order inside one policy** still matters next to an error: `eval` stops at the first rule, the
first port clause and the first rule peer that allow the queried point, so a failing step behind
them is reached or not depending on the order they are written in (recorded known findings 2, 3, 4
below; `list` examines everything and fails in every order). The inner theorem excludes the two
failures of the NetworkPolicy walk:
* `PermEval.NoNamedPortOnIPs objs` — no egress rule that can select an IP block (no peers, or an
  `ipBlock` peer) has a named port (`Err.namedPortOnIP`);
* `PermEval.NoEmptyRulePeer objs` — no rule peer without selector and ipBlock (`Err.emptyRulePeer`;
  the second clause of `NPRule.Valid`, implied by `NPRulesValid`).

The cache (capacity 500, eviction, entries shared by the pods of one owner and variant) behaves
identically in every order: both runs ask the same queries in the same order and resolve the same
peers; the owner bookkeeping of `cacheAddPod` does follow the order of the pod map but is never read
by `CheckIfAllowed`. Proofs in `Netpol.Proofs.PermEval` (a simulation between the two runs). -/

/-- **C08 for `eval`, part 1: the answers do not depend on the order of the objects** — distinct
keys and a successful `build`, no assumption on the policies -/
theorem eval_order_independent {objs objs' : List Obj} (hp : objs.Perm objs')
    (hk : DistinctKeys objs) (hok : (Netpol.Engine.build objs).isOk = true) :
    WorldDriver.runEvalAll objs = WorldDriver.runEvalAll objs' :=
  PermEval.eval_order_independent hp hk hok

/-- **companion for an engine filled through `InsertObject`** (`eval_order_independent` is about
`runEvalAll`, whose engine is built by `Engine.build`, sort included; the `eval` command of the
tool inserts the objects one by one). For the admin policies — the only objects whose order the
result could follow, through the slice `sortedAdminNetpols` — : two permutations of a list of admin
policies, inserted one by one into the same state and stopping at the first refusal
(`EState.insertAll`), are both refused or both accepted, and when accepted the two states are equal
up to the order of the name map `adminNetpolsMap` (same sorted slice, same other objects, same
cleared cache). No hypothesis: `insertAdminNetworkPolicy` refuses a priority held already, so the
slice never holds a tie that the document order would resolve. -/
theorem insert_path_anps_order_independent (s : EState) {l₁ l₂ : List ANP} (hp : l₁.Perm l₂) :
    (∃ err₁ err₂, (s.insertAll (l₁.map .anp)).1 = .err err₁ ∧
      (s.insertAll (l₂.map .anp)).1 = .err err₂) ∨
    (∃ s₁ s₂, s.insertAll (l₁.map .anp) = (.ok, s₁) ∧ s.insertAll (l₂.map .anp) = (.ok, s₂) ∧
      s₁.eng.anps = s₂.eng.anps ∧ s₁.eng.anpNames.Perm s₂.eng.anpNames ∧
      s₂ = { s₁ with eng := { s₁.eng with anpNames := s₂.eng.anpNames } }) :=
  EState.insertAll_anps_perm s hp

/-- the failing case, as for `list` -/
theorem eval_error_order_independent {objs objs' : List Obj} (hp : objs.Perm objs') {err : Err}
    (h : Netpol.Engine.build objs = .error err)
    (hsingle : ∀ err', ErrClause err' objs → err' = err) :
    WorldDriver.runEvalAll objs = WorldDriver.runEvalAll objs' :=
  PermEval.runEvalAll_perm_error hp h hsingle

/-- **C08 for `eval`, part 2: nor on the order of rules, rule peers, rule ports and `policyTypes`
inside NetworkPolicies.** No assumption on keys; `build` may fail (then with the same error). -/
theorem eval_inner_order_independent {objs objs' : List Obj}
    (h : PermRules.Forall₂ PermRules.ObjSim objs objs') (hv : PermEval.NoEmptyRulePeer objs)
    (hn : PermEval.NoNamedPortOnIPs objs) :
    WorldDriver.runEvalAll objs = WorldDriver.runEvalAll objs' :=
  PermEval.runEvalAll_rules_perm h hv hn

/-- the hypotheses are invariant under permutation -/
theorem eval_hyps_order_independent {objs objs' : List Obj} (hp : objs.Perm objs')
    (hk : DistinctKeys objs) (hv : PermEval.NoEmptyRulePeer objs)
    (hn : PermEval.NoNamedPortOnIPs objs) :
    DistinctKeys objs' ∧ PermEval.NoEmptyRulePeer objs' ∧ PermEval.NoNamedPortOnIPs objs' :=
  PermEval.hyps_perm hp hk hv hn

/-! findings: what the hypotheses exclude. Query `default/a → 10.0.0.1`, TCP 80, on the engine
`build` returns (`verdict`: the uncached answer of `CheckIfAllowed` on the resolved peers; the
`runEvalAll` strings differ accordingly, by `#eval`).

1. **policy order — repaired.** Pod `a`, an egress policy `ok` allowing everything to `10.0.0.0/8`
   and an egress policy `bad` with a named port towards `10.0.0.0/8`, both selecting `a`. Before
   the policies were visited in the order of their names the answer was `true` when `ok` was met
   first and the error `namedPortOnIP` otherwise (in Go: the iteration order of a map, a run-to-run
   nondeterminism). Now `bad` is visited first in both orders and both fail, as `list` does. (The
   answer still depends on the *names*: renaming `bad` to `zbad` makes the query answer `true` while
   `list` keeps failing — deterministic, and outside C08.) -/
theorem eval_policy_order_repaired :
    PermEval.Findings.w1.Perm PermEval.Findings.w2 ∧
    ¬ PermEval.NoNamedPortOnIPs PermEval.Findings.w1 ∧
    Netpol.Engine.build PermEval.Findings.w1 = .ok (PermEval.Findings.engOf [PermEval.Findings.pOk, PermEval.Findings.pBad]) ∧
    Netpol.Engine.build PermEval.Findings.w2 = .ok (PermEval.Findings.engOf [PermEval.Findings.pBad, PermEval.Findings.pOk]) ∧
    EState.verdict (PermEval.Findings.engOf [PermEval.Findings.pOk, PermEval.Findings.pBad])
      PermEval.Findings.A PermEval.Findings.X "TCP" "80" = .error .namedPortOnIP ∧
    EState.verdict (PermEval.Findings.engOf [PermEval.Findings.pBad, PermEval.Findings.pOk])
      PermEval.Findings.A PermEval.Findings.X "TCP" "80" = .error .namedPortOnIP ∧
    WorldDriver.runEvalAll PermEval.Findings.w1 = WorldDriver.runEvalAll PermEval.Findings.w2 :=
  ⟨PermEval.Findings.w1_perm_w2, by decide, PermEval.Findings.build_w1, PermEval.Findings.build_w2,
    PermEval.Findings.policy_order_repaired_value.1, PermEval.Findings.policy_order_repaired_value.2,
    PermEval.Findings.policy_order_repaired⟩

/-! Recorded known findings (inner order, hypotheses of `eval_inner_order_independent`):

2. **rule order** inside one policy (`PermEval.Findings.rule_order_matters`): egress rules
   `[everything to 10/8, named port to 10/8]` answer `true`, swapped the error.
3. **port order** inside one rule (`PermEval.Findings.port_order_matters`): ports `[80, http]`
   towards `10/8` answer `true`, `[http, 80]` the error.
4. **peer order** with an empty rule peer (`PermEval.Findings.peer_order_matters`): peers
   `[10/8, {}]` answer `true`, `[{}, 10/8]` the error `emptyRulePeer`.
5./6. duplicate pod key / duplicate Namespace name (`duplicate_pod_matters`,
   `duplicate_namespace_matters`): the later document wins, as for `list`.
7. two kinds of `build` conflict (`build_error_order_matters`): `(err dupNetpol)` against
   `(err badPod)`. -/

namespace Examples

/-- a world with every kind of object (`Netpol.PermEval.Example.objs`: a namespace, two workloads,
pods of a ReplicaSet, three NetworkPolicies with an ipBlock egress rule and named ports, two ANPs,
a BANP) satisfies the hypotheses … -/
example : DistinctKeys PermEval.Example.objs ∧ PermEval.NoEmptyRulePeer PermEval.Example.objs ∧
    PermEval.NoNamedPortOnIPs PermEval.Example.objs ∧
    (Netpol.Engine.build PermEval.Example.objs).isOk = true := PermEval.Example.objs_hyps

/-- … and the theorems apply (10140 answers, identical for the three inputs by `#eval`; the cache
fills up to its capacity, so eviction is exercised) -/
example : WorldDriver.runEvalAll PermEval.Example.objs =
    WorldDriver.runEvalAll PermEval.Example.objs.reverse :=
  eval_order_independent (List.reverse_perm _).symm PermEval.Example.objs_hyps.1
    PermEval.Example.objs_hyps.2.2.2

end Examples

end Netpol.Properties.C08.Commands
