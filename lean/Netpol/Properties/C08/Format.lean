import Netpol.Proofs.FormatLayer
import Netpol.Proofs.FormatExposure
import Netpol.Proofs.FormatDotX
import Netpol.Proofs.FormatEngine
import Netpol.Proofs.FormatDiffEngine
import Netpol.Proofs.FormatExposureEngine
import Netpol.Properties.C09
import Netpol.Properties.C05
/-! C08 (format layer) — the output does not depend on the order of the computed entries.

The Go code collects the entries from nested loops over peers and, for the ingress-controller lines and the whole diff,
from the iteration of Go maps, whose order is random. Every formatter therefore sorts. The theorems below say, for the
model of the formatters (`Model/Format.lean`, K-diffed byte for byte with the Go code), that a permutation of the input
list gives the same string — and under which hypotheses:

* list txt, list dot edges, every diff format: the *whole lines* are sorted (`sort.Strings`): a total, antisymmetric
  order; no hypothesis on the entries.
* list json / csv / md: `sortConnFields` (`sort.Slice`, not stable) compares `(Src, Dst, ConnString)` — the whole row, so
  the order is total and antisymmetric on rows (`Row.eq_of_le_le`) and no hypothesis is needed either. (Until /repo
  commit 555098c the key was `(Src, Dst)` only, which is not total on rows: with two rows for the same pair the result
  depended on the input order and on the sorting algorithm. The engine reports one entry per ordered pair of distinct
  peer strings — `engine_entries_keys_distinct` — but exposure lines could tie.)
* list dot / diff dot *nodes*: a peer is drawn at its first visit (a `visited` set keyed by `Peer.String()`); namespace,
  label and, in the diff graph, the colour (new / lost / persistent) are those of that visit — here the Go code is
  order dependent unless all visits of a string show the same peer and colour. Hypotheses `PeersConsistent` /
  `DiffPeersConsistent`. They hold when peer strings determine the peer (`engine_peers_consistent` for the engine's
  report) and the new/lost flags are a function of (peer, diff type), as in the computed diff.
* list with exposure analysis, txt / json / csv / md: the exposure rows are sorted by the same total keys (by source for
  the egress section, by destination for the ingress section), the unprotected-workload lines as strings, the column
  width of the txt section is a maximum: no hypothesis (`list_exposure_order_independent`); the Go code collects the
  exposed peers from two Go maps.
* list with exposure analysis, dot: `addExposureOutputData` threads state through the exposed peers — the `visited` set of
  representative peers, and the map `nsPeers`, which it both extends (an exposed peer not drawn yet) and consults (a
  representative peer whose namespace label is a key of `nsPeers` is drawn in that real cluster, otherwise in a
  representative cluster). `list_exposure_dot_order_independent` (`Proofs/FormatDotX.lean`): the output is a function of
  the multiset of exposed peers when (1) peer strings determine the peers, (2) every exposed peer was already visited
  for the connections part (`ExposedVisited`), (3) representative-peer strings `POD_in_NS` determine the two labels
  (`RepsConsistent`). Hypothesis (2) cannot be dropped for the formatter as a function
  (`exposure_dot_order_dependence_when_unvisited`: with an unvisited exposed peer of namespace `ns1` and another peer
  exposed to a representative peer of `ns1`, one order draws one cluster `cluster_ns1`, the other order two). The
  analyzer always satisfies (2): exposed peers are focus workloads, and `formatDOT.peersList` holds all of them, so this
  is a latent order dependence of `formatDOT.writeOutput`, not one of the tool's output.
* the hypotheses discharged for the model's own computations: `report_list_order_independent` (the whole report of
  `getConnectionsList`, ingress-controller lines included: one line per pair of peer strings and consistent peers, as
  long as no peer of the input has the string `{ingress-controller}` itself — `Proofs/FormatEngine.lean`), and
  `computed_diff_order_independent` / `reports_diff_order_independent` (`DiffPeersConsistent` holds of every diff
  computed by `diffConns`: the colour of a node is a function of its peer — `#008000` iff it is a workload that is absent
  from the first report's peers, `red` iff absent from the second's — `Proofs/FormatDiffEngine.lean`; what remains a
  hypothesis is that a peer string means the same workload in both directories, `PeersOK`).
* the three hypotheses of the exposure dot theorem discharged for the model's own exposure run `reportX`
  (`Proofs/FormatExposureEngine.lean`): `reportX_peers_consistent` (as for the plain report), `reportX_exposed_visited`
  (no hypothesis: an exposed peer is a focus workload of `ca.peersList`), `reportX_reps_consistent` (the key `POD_in_NS`
  determines both labels whatever the namespace label is, as long as no key or value of a *pod* selector of a policy rule
  holds a `}` — `PodSelectorsNoBrace`, decidable, implied by label syntax; `_in_` inside a label value is harmless).
  `computed_list_exposure_order_independent`: every format of the exposure run, under the input-level hypotheses
  `PodsNotFake` and `PodSelectorsNoBrace` only. -/
open List
namespace Netpol.Properties.C08.Format
open Netpol Netpol.Format Netpol.Engine

-- ------------------------------------------------------------------------------------------
-- list

theorem list_txt_order_independent {c c' : List Conn} (p p' : List PeerInfo) (h : c ~ c') :
    listToString "txt" c p = listToString "txt" c' p' := by
  simp [listToString, listTxt_perm h]

theorem list_json_order_independent {c c' : List Conn} (p p' : List PeerInfo) (h : c ~ c') :
    listToString "json" c p = listToString "json" c' p' := by
  simp [listToString, listJson_perm h]

theorem list_csv_order_independent {c c' : List Conn} (p p' : List PeerInfo) (h : c ~ c') :
    listToString "csv" c p = listToString "csv" c' p' := by
  simp [listToString, listCsv_perm h]

theorem list_md_order_independent {c c' : List Conn} (p p' : List PeerInfo) (h : c ~ c') :
    listToString "md" c p = listToString "md" c' p' := by
  simp [listToString, listMd_perm h]

theorem list_dot_order_independent {c c' : List Conn} {p p' : List PeerInfo} (hc : PeersConsistent c p) (h : c ~ c') (hp : p ~ p') :
    listToString "dot" c p = listToString "dot" c' p' := by
  simp [listToString, listDot_perm hc h hp]

/-- every list format (any format name: unknown names print txt) -/
theorem list_order_independent (f : String) {c c' : List Conn} {p p' : List PeerInfo}
    (hc : PeersConsistent c p) (h : c ~ c') (hp : p ~ p') : listToString f c p = listToString f c' p' := by
  unfold listToString
  rw [listJson_perm h, listCsv_perm h, listMd_perm h, listDot_perm hc h hp, listTxt_perm h]

/-- on the computed entries and the peers handed to the dot formatter -/
theorem list_entries_order_independent (f : String) {entries entries' : List Entry} {peers peers' : List LPeer}
    (hc : PeersConsistent (entries.map Conn.ofEntry) (peers.map PeerInfo.ofLPeer))
    (h : entries ~ entries') (hp : peers ~ peers') :
    listToString f (entries.map Conn.ofEntry) (peers.map PeerInfo.ofLPeer) =
      listToString f (entries'.map Conn.ofEntry) (peers'.map PeerInfo.ofLPeer) :=
  list_order_independent f hc (h.map _) (hp.map _)

-- the hypotheses hold for the report of the engine (the peers × peers loop over `GetPeersList`; C05)

theorem eq_of_nodup_map {α β : Type} {f : α → β} : ∀ {l : List α}, (l.map f).Nodup → ∀ {a b : α}, a ∈ l → b ∈ l → f a = f b → a = b
  | [], _, _, _, ha, _, _ => by cases ha
  | x :: xs, hn, a, b, ha, hb, hf => by
    rw [map_cons, nodup_cons] at hn
    rcases mem_cons.mp ha with rfl | ha' <;> rcases mem_cons.mp hb with rfl | hb'
    · rfl
    · exact absurd (hf ▸ mem_map_of_mem hb') hn.1
    · exact absurd (hf ▸ mem_map_of_mem ha') hn.1
    · exact eq_of_nodup_map hn.2 ha' hb' hf

/-- one entry per ordered pair of peer strings (so even the older (src, dst) key was total on the engine's report) -/
theorem engine_entries_keys_distinct {e : Engine} {peers : List LPeer} {focus : String} {entries : List Entry}
    (hp : e.peersList = .ok peers) (h : e.connsBetweenPeers peers focus = .ok entries) :
    ConnKeysDistinct (entries.map Conn.ofEntry) := by
  have hn := Properties.C05.report_no_dup_pair hp h
  unfold ConnKeysDistinct KeysDistinct
  rw [map_map, pairwise_map]
  rw [Nodup, pairwise_map] at hn
  refine hn.imp ?_
  intro a b hab hk
  apply hab
  simp only [Function.comp, Conn.ofEntry, Conn.row, ofLPeer_str] at hk
  rw [hk.1, hk.2]

/-- peer strings determine the peer: the `visited` set of the dot formatter loses nothing -/
theorem engine_peers_consistent {e : Engine} {peers dotPeers : List LPeer} {focus : String} {entries : List Entry}
    (hp : e.peersList = .ok peers) (h : e.connsBetweenPeers peers focus = .ok entries) (hd : ∀ p ∈ dotPeers, p ∈ peers) :
    PeersConsistent (entries.map Conn.ofEntry) (dotPeers.map PeerInfo.ofLPeer) := by
  have hn := Properties.C05.peers_names_nodup hp
  have hfrom := Properties.C05.entries_from_peers h
  have hall : ∀ x ∈ listVisitSeq (entries.map Conn.ofEntry) (dotPeers.map PeerInfo.ofLPeer), ∃ p ∈ peers, x = PeerInfo.ofLPeer p := by
    intro x hx
    unfold listVisitSeq at hx
    rcases mem_append.mp hx with hx | hx
    · obtain ⟨c, hc, hxc⟩ := mem_flatMap.mp hx
      obtain ⟨en, hen, rfl⟩ := mem_map.mp hc
      simp only [Conn.ofEntry, mem_cons, not_mem_nil, or_false] at hxc
      rcases hxc with rfl | rfl
      · exact ⟨en.src, (hfrom en hen).1, rfl⟩
      · exact ⟨en.dst, (hfrom en hen).2, rfl⟩
    · obtain ⟨p, hp', rfl⟩ := mem_map.mp (mem_filter.mp hx).1
      exact ⟨p, hd p hp', rfl⟩
  intro x hx y hy hxy
  obtain ⟨p, hp', rfl⟩ := hall x hx
  obtain ⟨q, hq', rfl⟩ := hall y hy
  simp only [ofLPeer_str] at hxy
  rw [eq_of_nodup_map hn hp' hq' hxy]

/-- the report of the engine (without ingress-controller lines) prints the same in every format, whatever the order in
which the pair loop produced the entries -/
theorem engine_list_order_independent (f : String) {e : Engine} {peers dotPeers dotPeers' : List LPeer} {focus : String}
    {entries entries' : List Entry} (hp : e.peersList = .ok peers) (h : e.connsBetweenPeers peers focus = .ok entries)
    (hd : ∀ p ∈ dotPeers, p ∈ peers) (hperm : entries ~ entries') (hperm' : dotPeers ~ dotPeers') :
    listToString f (entries.map Conn.ofEntry) (dotPeers.map PeerInfo.ofLPeer) =
      listToString f (entries'.map Conn.ofEntry) (dotPeers'.map PeerInfo.ofLPeer) :=
  list_entries_order_independent f (engine_peers_consistent hp h hd) hperm hperm'

-- ------------------------------------------------------------------------------------------
-- list with exposure analysis

/-- txt, json, csv, md with exposure sections: independent of the order of the connections and of the exposed peers
(`f` ≠ "dot"; unknown format names print txt) -/
theorem list_exposure_order_independent (f : String) (hf : f ≠ "dot") {c c' : List Conn} (p p' : List PeerInfo)
    {xs xs' : List XPeerF} (h : c ~ c') (hx : xs ~ xs') : listToStringX f c p xs = listToStringX f c' p' xs' := by
  unfold listToStringX
  have hd : (f == "dot") = false := by simpa using hf
  rw [listJsonX_perm h hx, listCsvX_perm h hx, listMdX_perm h hx, listTxtX_perm h hx, hd]
  simp

/-- dot with exposure results: independent of the order of the connections, of the peers and of the exposed peers -/
theorem list_exposure_dot_order_independent {c c' : List Conn} {p p' : List PeerInfo} {xs xs' : List XPeerF}
    (hc : PeersConsistent c p) (hv : ExposedVisited c p xs) (hr : RepsConsistent xs) (h : c ~ c') (hp : p ~ p') (hx : xs ~ xs') :
    listToStringX "dot" c p xs = listToStringX "dot" c' p' xs' := by
  have e : ∀ (c : List Conn) (p : List PeerInfo) (xs : List XPeerF), listToStringX "dot" c p xs = listDotX c p xs := by
    intro c p xs; simp [listToStringX]
  rw [e, e]
  exact listDotX_perm hc hv hr h hp hx

/-- … but as a function of its arguments the formatter depends on the order of the exposed peers when one of them was
not visited before: the two orders of `[cexA, cexB]` give a graph without and a graph with a representative cluster -/
theorem exposure_dot_order_dependence_when_unvisited :
    nsGroups (dotXWalk [] [cexB.peer] [cexA, cexB]).repMembers "red2" = [] ∧
    nsGroups (dotXWalk [] [cexB.peer] [cexB, cexA]).repMembers "red2" ≠ [] ∧
    ∀ xs, listToStringX "dot" [] [cexB.peer] xs =
      dotXRender [] (listVisited [] [cexB.peer]) (dotXWalk [] [cexB.peer] xs) :=
  ⟨order_dependence_when_unvisited.1, order_dependence_when_unvisited.2, fun xs => by
    have : listToStringX "dot" [] [cexB.peer] xs = listDotX [] [cexB.peer] xs := by simp [listToStringX]
    rw [this]; exact listDotX_walk _ _ _⟩

-- ------------------------------------------------------------------------------------------
-- diff

theorem diff_txt_order_independent (ref1 ref2 : String) {ds ds' : List DConn} (h : ds ~ ds') :
    diffToString "txt" ref1 ref2 ds = diffToString "txt" ref1 ref2 ds' := by
  simp [diffToString, diffIsEmpty_perm h, diffTxt_perm ref1 ref2 h]

theorem diff_csv_order_independent (ref1 ref2 : String) {ds ds' : List DConn} (h : ds ~ ds') :
    diffToString "csv" ref1 ref2 ds = diffToString "csv" ref1 ref2 ds' := by
  simp [diffToString, diffIsEmpty_perm h, diffCsv_perm ref1 ref2 h]

theorem diff_md_order_independent (ref1 ref2 : String) {ds ds' : List DConn} (h : ds ~ ds') :
    diffToString "md" ref1 ref2 ds = diffToString "md" ref1 ref2 ds' := by
  simp [diffToString, diffIsEmpty_perm h, diffMd_perm ref1 ref2 h]

theorem diff_dot_order_independent (ref1 ref2 : String) {ds ds' : List DConn} (hc : DiffPeersConsistent ds) (h : ds ~ ds') :
    diffToString "dot" ref1 ref2 ds = diffToString "dot" ref1 ref2 ds' := by
  simp [diffToString, diffIsEmpty_perm h, diffDot_perm ref1 hc h]

/-- every diff format (any format name) -/
theorem diff_order_independent (f ref1 ref2 : String) {ds ds' : List DConn} (hc : DiffPeersConsistent ds) (h : ds ~ ds') :
    diffToString f ref1 ref2 ds = diffToString f ref1 ref2 ds' := by
  unfold diffToString
  rw [diffIsEmpty_perm h, diffCsv_perm ref1 ref2 h, diffMd_perm ref1 ref2 h, diffDot_perm ref1 hc h, diffTxt_perm ref1 ref2 h]

-- ------------------------------------------------------------------------------------------
-- the hypotheses discharged for the model's own computations

/-- the whole report of `getConnectionsList` — the ingress-controller lines (collected from a Go map) included — prints
the same in every format whatever the order of its lines and of the peers handed to the dot formatter -/
theorem report_list_order_independent (f : String) {objs : List Obj} {focus : String} {stop : Bool} {r : Report}
    (h : report objs focus stop = .ok r) (hic : ∀ p ∈ r.peers, p.str ≠ ingressPodString)
    {entries' : List Entry} {dotPeers' : List LPeer} (hperm : r.entries ~ entries') (hperm' : r.dotPeers ~ dotPeers') :
    listToString f (r.entries.map Conn.ofEntry) (r.dotPeers.map PeerInfo.ofLPeer) =
      listToString f (entries'.map Conn.ofEntry) (dotPeers'.map PeerInfo.ofLPeer) :=
  list_entries_order_independent f (report_peers_consistent h hic) hperm hperm'

/-- … and it has one line per ordered pair of peer strings -/
theorem report_entries_keys_distinct {objs : List Obj} {focus : String} {stop : Bool} {r : Report}
    (h : report objs focus stop = .ok r) (hic : ∀ p ∈ r.peers, p.str ≠ ingressPodString) :
    ConnKeysDistinct (r.entries.map Conn.ofEntry) := report_keys_distinct h hic

/-- every format of the computed diff (`diffConns` = `computeDiffFromConnlistResults` + `diffConnectionsLists`, whose
result is collected from a Go map): no `DiffPeersConsistent` hypothesis any more. `W`: the workloads of the two
reports; `PeersOK W`: a peer string means one workload; `EntriesOK`: the ends of the lines of a report are IP blocks,
the pseudo peer of the ingress controller, or workloads among the report's peers. -/
theorem computed_diff_order_independent (f ref1 ref2 : String) {W : List LPeer} (hW : PeersOK W)
    {e1 e2 : List Entry} {peers1 peers2 : List LPeer} (h1 : EntriesOK W peers1 e1) (h2 : EntriesOK W peers2 e2)
    {ds' : List DConn} (h : diffConns e1 e2 peers1 peers2 ~ ds') :
    diffToString f ref1 ref2 (diffConns e1 e2 peers1 peers2) = diffToString f ref1 ref2 ds' :=
  diff_order_independent f ref1 ref2 (diffConns_peers_consistent hW h1 h2) h

/-- the diff of two reports of the model (what `fmt`'s `dout` prints): `EntriesOK` is a theorem (`report_entries_ok`) -/
theorem reports_diff_order_independent (f ref1 ref2 : String) {objs1 objs2 : List Obj} {focus1 focus2 : String}
    {stop1 stop2 : Bool} {r1 r2 : Report} (h1 : report objs1 focus1 stop1 = .ok r1) (h2 : report objs2 focus2 stop2 = .ok r2)
    (hW : PeersOK (icPeer :: (r1.peers ++ r2.peers)))
    {ds' : List DConn} (h : diffConns r1.entries r2.entries r1.peers r2.peers ~ ds') :
    diffToString f ref1 ref2 (diffConns r1.entries r2.entries r1.peers r2.peers) = diffToString f ref1 ref2 ds' :=
  diff_order_independent f ref1 ref2 (reports_diff_peers_consistent h1 h2 hW) h

-- ------------------------------------------------------------------------------------------
-- the hypotheses of the exposure dot theorem discharged for the model's own exposure run

/-- peer strings determine the peers of the exposure run (ingress-controller lines included) -/
theorem reportX_peers_consistent {objs : List Obj} {focus : String} {stop : Bool} {r : Report} {xs : List XPeerF}
    (h : reportX objs focus stop = .ok (r, xs)) (hf : DiffComputed.PodsNotFake objs) :
    PeersConsistent (r.entries.map Conn.ofEntry) (r.dotPeers.map PeerInfo.ofLPeer) :=
  Netpol.Format.reportX_peers_consistent h (reportX_peers_not_ic h hf)

/-- every exposed peer of the exposure run was visited for the connections part — no hypothesis -/
theorem reportX_exposed_visited {objs : List Obj} {focus : String} {stop : Bool} {r : Report} {xs : List XPeerF}
    (h : reportX objs focus stop = .ok (r, xs)) :
    ExposedVisited (r.entries.map Conn.ofEntry) (r.dotPeers.map PeerInfo.ofLPeer) xs :=
  Netpol.Format.reportX_exposed_visited h

/-- representative-peer strings determine the representative peers of the exposure run -/
theorem reportX_reps_consistent {objs : List Obj} {focus : String} {stop : Bool} {r : Report} {xs : List XPeerF}
    (h : reportX objs focus stop = .ok (r, xs)) (hs : PodSelectorsNoBrace objs) : RepsConsistent xs :=
  Netpol.Format.reportX_reps_consistent h hs

/-- **dot with exposure results, on the computed exposure run** (the arguments `runWFmt` hands to `listToStringX`): the
output does not depend on the order of the lines, of the peers handed to the dot formatter, and of the exposed peers.
`PodsNotFake`: no pod of the input carries the analyzer's own `fake` mark (the parser never sets it);
`PodSelectorsNoBrace`: no `}` in a key or value of a pod selector of a policy rule (label syntax). -/
theorem computed_list_exposure_dot_order_independent {objs : List Obj} {focus : String} {stop : Bool} {r : Report}
    {xs : List XPeerF} (h : reportX objs focus stop = .ok (r, xs)) (hf : DiffComputed.PodsNotFake objs)
    (hs : PodSelectorsNoBrace objs) {entries' : List Entry} {dotPeers' : List LPeer} {xs' : List XPeerF}
    (hperm : r.entries ~ entries') (hperm' : r.dotPeers ~ dotPeers') (hx : xs ~ xs') :
    listToStringX "dot" (r.entries.map Conn.ofEntry) (r.dotPeers.map PeerInfo.ofLPeer) xs =
      listToStringX "dot" (entries'.map Conn.ofEntry) (dotPeers'.map PeerInfo.ofLPeer) xs' :=
  list_exposure_dot_order_independent (reportX_peers_consistent h hf) (reportX_exposed_visited h)
    (reportX_reps_consistent h hs) (hperm.map _) (hperm'.map _) hx

/-- … and also of the order of the exposure entries *inside* an exposed peer (the representative peers are kept in a Go
map): any `xs'` with the same items whose peers were visited -/
theorem computed_list_exposure_dot_items_independent {objs : List Obj} {focus : String} {stop : Bool} {r : Report}
    {xs : List XPeerF} (h : reportX objs focus stop = .ok (r, xs)) (hf : DiffComputed.PodsNotFake objs)
    (hs : PodSelectorsNoBrace objs) {entries' : List Entry} {dotPeers' : List LPeer} {xs' : List XPeerF}
    (hperm : r.entries ~ entries') (hperm' : r.dotPeers ~ dotPeers')
    (hv' : ExposedVisited (entries'.map Conn.ofEntry) (dotPeers'.map PeerInfo.ofLPeer) xs')
    (hx : exposureItems xs ~ exposureItems xs') :
    listToStringX "dot" (r.entries.map Conn.ofEntry) (r.dotPeers.map PeerInfo.ofLPeer) xs =
      listToStringX "dot" (entries'.map Conn.ofEntry) (dotPeers'.map PeerInfo.ofLPeer) xs' := by
  have e : ∀ (c : List Conn) (p : List PeerInfo) (xs : List XPeerF), listToStringX "dot" c p xs = listDotX c p xs := by
    intro c p xs; simp [listToStringX]
  rw [e, e]
  exact listDotX_perm_items (reportX_peers_consistent h hf) (reportX_exposed_visited h) hv'
    (reportX_reps_consistent h hs) (hperm.map _) (hperm'.map _) hx

/-- **every format of the computed exposure run** (any format name: unknown names print txt) -/
theorem computed_list_exposure_order_independent (f : String) {objs : List Obj} {focus : String} {stop : Bool}
    {r : Report} {xs : List XPeerF} (h : reportX objs focus stop = .ok (r, xs)) (hf : DiffComputed.PodsNotFake objs)
    (hs : PodSelectorsNoBrace objs) {entries' : List Entry} {dotPeers' : List LPeer} {xs' : List XPeerF}
    (hperm : r.entries ~ entries') (hperm' : r.dotPeers ~ dotPeers') (hx : xs ~ xs') :
    listToStringX f (r.entries.map Conn.ofEntry) (r.dotPeers.map PeerInfo.ofLPeer) xs =
      listToStringX f (entries'.map Conn.ofEntry) (dotPeers'.map PeerInfo.ofLPeer) xs' := by
  by_cases hd : f = "dot"
  · subst hd; exact computed_list_exposure_dot_order_independent h hf hs hperm hperm' hx
  · exact list_exposure_order_independent f hd _ _ (hperm.map _) hx

/-- the input-level hypotheses hold of the example world `exXObjs` (`Proofs/FormatExposureEngine.lean`: two pods, a policy
with two selector rule peers, one label value with `_in_`, one expression), so the theorem applies to every run on it -/
example (f focus : String) {r : Report} {xs : List XPeerF} (h : reportX exXObjs focus = .ok (r, xs)) :
    listToStringX f (r.entries.map Conn.ofEntry) (r.dotPeers.map PeerInfo.ofLPeer) xs =
      listToStringX f (r.entries.reverse.map Conn.ofEntry) (r.dotPeers.reverse.map PeerInfo.ofLPeer) xs.reverse :=
  computed_list_exposure_order_independent f h (by decide) (by decide) (reverse_perm _).symm (reverse_perm _).symm
    (reverse_perm _).symm

-- ------------------------------------------------------------------------------------------
-- the hypotheses are satisfiable (the report and the diff of `Properties/C09.lean`), and needed

instance (l : List Row) : Decidable (KeysDistinct l) := by unfold KeysDistinct; infer_instance
instance (c : List Conn) : Decidable (ConnKeysDistinct c) := by unfold ConnKeysDistinct; infer_instance
instance {α : Type} [DecidableEq α] (key : α → String) (l : List α) : Decidable (KeyInj key l) := by unfold KeyInj; infer_instance
instance (c : List Conn) (p : List PeerInfo) : Decidable (PeersConsistent c p) := by unfold PeersConsistent; infer_instance
instance (ds : List DConn) : Decidable (DiffPeersConsistent ds) := by unfold DiffPeersConsistent; infer_instance

open Properties.C09 in
example (f : String) : listToString f exConns [wlA, wlB] = listToString f exConns.reverse [wlB, wlA] :=
  list_order_independent f (by decide) (reverse_perm exConns).symm (by decide)

open Properties.C09 in
example (f : String) : diffToString f "dir1" "dir2" exDiff = diffToString f "dir1" "dir2" exDiff.reverse :=
  diff_order_independent f "dir1" "dir2" (by decide) (reverse_perm exDiff).symm

/-- two exposed peers: an unprotected one and one with an entire-cluster entry and a representative peer -/
def exExposed : List XPeerF :=
  [⟨Properties.C09.wlA, false, [], true, [⟨true, none, none, "TCP 80"⟩]⟩,
   ⟨Properties.C09.wlB, true, [⟨false, some ⟨[("team", "x")], []⟩, some ⟨[], [⟨"role", .In, ["a", "c"]⟩]⟩, "UDP 53"⟩], true, []⟩]

open Properties.C09 in
example (f : String) (hf : f ≠ "dot") :
    listToStringX f exConns [wlA, wlB] exExposed = listToStringX f exConns.reverse [wlB, wlA] exExposed.reverse :=
  list_exposure_order_independent f hf _ _ (reverse_perm exConns).symm (reverse_perm exExposed).symm

open Properties.C09 in
example : listToStringX "dot" exConns [wlA, wlB] exXs = listToStringX "dot" exConns.reverse [wlB, wlA] exXs.reverse :=
  list_exposure_dot_order_independent (by decide) (by unfold ExposedVisited; decide) (by unfold RepsConsistent KeyInj; decide)
    (reverse_perm exConns).symm (by decide) (reverse_perm exXs).symm

/-- the same pair twice with different connections: the rows still have one order -/
example : listToString "csv" [⟨Properties.C09.wlA, Properties.C09.wlB, "TCP 80"⟩, ⟨Properties.C09.wlA, Properties.C09.wlB, "UDP 53"⟩] [] =
    listToString "csv" [⟨Properties.C09.wlA, Properties.C09.wlB, "UDP 53"⟩, ⟨Properties.C09.wlA, Properties.C09.wlB, "TCP 80"⟩] [] :=
  list_csv_order_independent _ _ (Perm.swap _ _ _)

/-- the hypotheses of `computed_diff_order_independent` hold of two small reports (a workload lost, one new, an IP
block, an ingress-controller line) -/
def exPodA : Pod := { ns := "default", name := "a", labels := [], ports := [] }
def exPodB : Pod := { ns := "default", name := "b", labels := [], ports := [] }
def exPodC : Pod := { ns := "default", name := "c", labels := [], ports := [] }
def exLA : LPeer := .wl "default/a[Pod]" exPodA
def exLB : LPeer := .wl "default/b[Pod]" exPodB
def exLC : LPeer := .wl "default/c[Pod]" exPodC
def exW : List LPeer := [icPeer, exLA, exLB, exLC]

theorem exW_ok : PeersOK exW := by
  refine ⟨by decide, ?_, ?_⟩
  · intro p hp _ r
    simp only [exW, mem_cons, not_mem_nil, or_false] at hp
    rcases hp with rfl | rfl | rfl | rfl
    · exact Structure.workloadName_ne_ipRange IngressA.ingressPod r
    · exact Structure.workloadName_ne_ipRange exPodA r
    · exact Structure.workloadName_ne_ipRange exPodB r
    · exact Structure.workloadName_ne_ipRange exPodC r
  · intro p hp
    simp only [exW, mem_cons, not_mem_nil, or_false] at hp
    rcases hp with rfl | rfl | rfl | rfl <;> (unfold DiffLayer.NoSemi; decide)

example (cs : ConnSet) (f : String) (ds' : List DConn)
    (h : diffConns [⟨exLA, exLB, cs⟩, ⟨exLA, .ip ⟨0, 4294967295⟩, cs⟩, ⟨icPeer, exLA, cs⟩] [⟨exLA, exLC, cs⟩, ⟨.ip ⟨0, 4294967295⟩, exLA, cs⟩]
      [exLA, exLB] [exLA, exLC] ~ ds') :
    diffToString f "dir1" "dir2" (diffConns [⟨exLA, exLB, cs⟩, ⟨exLA, .ip ⟨0, 4294967295⟩, cs⟩, ⟨icPeer, exLA, cs⟩]
      [⟨exLA, exLC, cs⟩, ⟨.ip ⟨0, 4294967295⟩, exLA, cs⟩] [exLA, exLB] [exLA, exLC]) = diffToString f "dir1" "dir2" ds' := by
  refine computed_diff_order_independent f _ _ exW_ok ?_ ?_ h
  · intro e he
    simp only [mem_cons, not_mem_nil, or_false] at he
    rcases he with rfl | rfl | rfl <;> (refine ⟨?_, ?_⟩ <;> first | exact Or.inl rfl | exact Or.inr ⟨by simp [exW], rfl, by dsimp only; decide⟩)
  · intro e he
    simp only [mem_cons, not_mem_nil, or_false] at he
    rcases he with rfl | rfl <;> (refine ⟨?_, ?_⟩ <;> first | exact Or.inl rfl | exact Or.inr ⟨by simp [exW], rfl, by dsimp only; decide⟩)

end Netpol.Properties.C08.Format
