import Netpol.Proofs.PermLayer
import Netpol.Proofs.PermErrors
import Netpol.Proofs.PermIngress
import Netpol.Proofs.PermRules

/-! # C08 (engine part) — the modelled analysis does not depend on the order of the input

In the Go code pods, namespaces and policies live in Go maps (random iteration order) and the
input documents come in any order and file layout. The model keeps Go maps as association lists in
insertion order (`Netpol.Model.Engine`), so "the result does not depend on map iteration order nor
on document order" is: for `objs.Perm objs'`, the analysis of `objs'` gives what the analysis of
`objs` gives. Only the property statements are here; the proofs are in `Netpol.Proofs.PermLayer`
(and `Netpol.Proofs.PermErrors`), on top of C01/C02 (`EngineLayer`, `NPLayer`), C05/C19
(`Structure`), C11 (`ConnSet`) and C17.

Vocabulary (`Netpol.PermLayer`).
* `podsIn objs` — the pods the objects contribute (Pod objects, and the one or two pods generated
  per workload manifest); `nssIn objs` — the Namespace objects as stored.
* `DistinctKeys objs` — no two of these pods share `namespace/name`, no two Namespace objects share
  a name (otherwise the later one replaces the earlier one: counterexamples 1, 2, 3 below).
* `SamePeer p q` — `p` and `q` agree on namespace, labels (as lists; the model's own check
  `labelsEq` compares them as maps), container ports and on the name the focus option is compared
  with, and are real pods; `UniformPods pods` — pods with the same workload
  name (`ns/owner[Kind]`) are `SamePeer` (the report is computed on ONE pod per workload, "the last
  one met": counterexample 4 below).
* `PodPortsValid objs`, `PoliciesValid objs` — API validation: container ports and rule ports are
  port numbers, no empty rule peer, admin rules have peers and valid ports, no `Pass` in the BANP.
  Without valid ports the union of connection sets is order-sensitive ("all connections" is only
  recognised on the exact range 1-65535: counterexamples 7, 8); without the other clauses two
  different evaluation errors can be present, and which one is reported depends on the order
  (counterexample 5).
* `WellFormed objs` — the four together. All are decidable and invariant under permutation.
* `Engine.Equiv e e'` — the two engines hold the same objects: namespaces, pods, NetworkPolicies are
  permutations of each other with unique keys; the sorted ANP slice and the BANP are equal.
* `IngressWF objs` (`Netpol.PermIngress`) — needed for the ingress-controller lines only: two
  *effective* Service documents (non-empty selector selecting some pod) with the same namespace and
  name are the same document (`lookupSvc` keeps the last one met), and a pod named
  `ingress-controller` in `ingress-controller-ns` shares its workload only with pods of that name
  (counterexamples in `Netpol.PermIngress.Cx`).
* `LSim`, `PeersSim peers peers'` — the two peers lists carry the same names, and peers of the same
  name stand on `SamePeer` pods; `entryKey x = (x.src.str, x.dst.str, x.conn)` — what is printed of
  an entry; `ExPerm` — the same error, or the same list up to order. -/
namespace Netpol.Properties.C08.Engine
open Netpol Netpol.Engine Netpol.Structure Netpol.PermLayer

/-! ### A. `build`: acceptance, the engine, the error -/

/-- acceptance does not depend on the order: `build` fails on one order iff it fails on the
other. No hypothesis. -/
theorem build_accepts_order_independent {objs objs' : List Obj} (hp : objs.Perm objs') :
    (Netpol.Engine.build objs).isOk = (Netpol.Engine.build objs').isOk := by
  have key : ∀ l : List Obj, (Netpol.Engine.build l).isOk = true ↔ ∃ e, Netpol.Engine.build l = .ok e := by
    intro l
    cases Netpol.Engine.build l with
    | error err => simp [Except.isOk, Except.toBool]
    | ok e => simp [Except.isOk, Except.toBool]
  rw [Bool.eq_iff_iff, key, key]
  exact build_isOk_perm hp

/-- `build` succeeds exactly on conflict-free inputs with valid, pairwise distinct ANP priorities
(C19 gives one direction); all clauses speak about the multiset of objects -/
theorem build_ok_iff (objs : List Obj) :
    (∃ e, Netpol.Engine.build objs = .ok e) ↔ ConflictFree objs ∧
      ((anpsOf objs).map (·.prio)).Nodup ∧ ∀ a ∈ anpsOf objs, 0 ≤ a.prio ∧ a.prio ≤ 1000 :=
  PermLayer.build_ok_iff objs

/-- with distinct keys, the engine built from a reordered input holds the same objects -/
theorem build_order_independent {objs objs' : List Obj} (hp : objs.Perm objs')
    (hk : DistinctKeys objs) {e : Netpol.Engine} (h : Netpol.Engine.build objs = .ok e) :
    ∃ e', Netpol.Engine.build objs' = .ok e' ∧ e.Equiv e' :=
  build_perm hp hk h

/-- on equivalent engines the namespace lookup agrees -/
theorem equiv_findNs {e e' : Netpol.Engine} (h : e.Equiv e') (n : String) : e.findNs n = e'.findNs n :=
  h.findNs n

/-- the error `build` reports names a kind of conflict that is present in the input
(`ErrClause err objs`, a property of the multiset of objects) -/
theorem build_error_names_present_conflict {objs : List Obj} {err : Err}
    (h : Netpol.Engine.build objs = .error err) : ErrClause err objs :=
  build_error_clause h

/-- hence, when only one kind of conflict is present, every order reports the same error. (With
two kinds the first conflict met wins: counterexample 6.) -/
theorem build_error_order_independent {objs objs' : List Obj} (hp : objs.Perm objs') {err : Err}
    (h : Netpol.Engine.build objs = .error err)
    (hsingle : ∀ err', ErrClause err' objs → err' = err) : Netpol.Engine.build objs' = .error err :=
  build_error_perm hp h hsingle

/-! ### B. workload peers and IP peers -/

/-- `createPodOwnersMap` fails (always with `ownerLabels`) on one order of the pod map iff it fails
on the other: the check "all pods of an owner carry the same labels" compares every pod with the
first one met, and label equality is symmetric and transitive -/
theorem owners_check_order_independent {e e' : Netpol.Engine} (hp : e.pods.Perm e'.pods) :
    (∃ r, e.podOwnersMap = .ok r) ↔ (∃ r, e'.podOwnersMap = .ok r) :=
  podOwnersMap_isOk_perm hp

/-- the IP peers (the partition induced by all `ipBlock`s) do not depend on the policy order -/
theorem ip_peers_order_independent {e e' : Netpol.Engine} (hp : e.netpols.Perm e'.netpols) :
    e.disjointIPBlocks = e'.disjointIPBlocks :=
  disjointIPBlocks_perm hp

/-- equivalent engines with uniform pods list the same peers, standing on similar pods -/
theorem peers_order_independent {e e' : Netpol.Engine} (h : e.Equiv e') (hu : UniformPods e.pods)
    {peers peers' : List LPeer} (hpl : e.peersList = .ok peers) (hpl' : e'.peersList = .ok peers') :
    PeersSim peers peers' :=
  peersList_sim h hu hpl hpl'

/-- in particular the sorted peer names — the `peers` line of the report — are equal -/
theorem peer_names_order_independent {e e' : Netpol.Engine} (h : e.Equiv e')
    (hu : UniformPods e.pods) {peers peers' : List LPeer} (hpl : e.peersList = .ok peers)
    (hpl' : e'.peersList = .ok peers') :
    WorldDriver.sortStrs (peers.map (·.str)) = WorldDriver.sortStrs (peers'.map (·.str)) :=
  sortStrs_perm (peerStrs_perm (peersList_sim h hu hpl hpl'))

/-! ### C. one pair of peers -/

/-- the NetworkPolicy layer: the union over the selecting policies does not depend on their
order — `ConnSet.union` is commutative, associative and idempotent on the canonical, name-free
values the policies produce (C11), and on valid rules all failures are `namedPortOnIP` -/
theorem netpol_layer_order_free {e e' : Netpol.Engine} (hp : e.netpols.Perm e'.netpols)
    (hv : NPValid e.netpols) (src dst : KPeer) (hd : dst.DstOK) (isIngress : Bool) :
    e.netpolConns src dst isIngress = e'.netpolConns src dst isIngress :=
  netpolConns_perm hp hv src dst hd isIngress

/-- one pair on two equivalent engines: the same connection set or the same error -/
theorem pair_order_independent {e e' : Netpol.Engine} (h : e.Equiv e') (hv : NPValid e.netpols)
    (src dst : KPeer) (hd : dst.DstOK) : e.peerConns src dst = e'.peerConns src dst :=
  peerConns_equiv h hv src dst hd

/-- … also when the two ends stand on different but similar pods (replicas) -/
theorem pair_order_independent_sim {e e' : Netpol.Engine} (h : e.Equiv e') (hv : NPValid e.netpols)
    {ks ks' kd kd' : KPeer} (hs : KSim ks ks') (hd : KSim kd kd') (hok : kd.DstOK)
    (h1 : isPodToItself ks kd = false) (h2 : isPodToItself ks' kd' = false) :
    e.peerConns ks kd = e'.peerConns ks' kd' :=
  peerConns_sim h hv hs hd hok h1 h2

/-- without empty rule peers, `ruleSelectsPeer` is an `any` over the rule peers: it never fails
and is order-free in the peers of a rule -/
theorem rule_peers_order_free (np : NetPol) (k : KPeer) {peers peers' : List NPPeer}
    (hp : peers.Perm peers') (hne : ∀ rp ∈ peers, rp ≠ .sel none none) :
    np.ruleSelectsPeer peers k = np.ruleSelectsPeer peers' k := by
  rw [ruleSelectsPeer_any np k peers hne,
    ruleSelectsPeer_any np k peers' (fun rp h => hne rp (hp.mem_iff.mpr h)), hp.isEmpty_eq,
    hp.any_eq]

/-! ### D. the computed relation -/

/-- on a well-formed input and any reordering of it: the same peers, and the peers × peers loop
returns the same error or the same entries (source name, destination name, connection set) up to
order -/
theorem list_relation_order_independent {objs objs' : List Obj} (hp : objs.Perm objs')
    (hw : WellFormed objs) {e e' : Netpol.Engine} (hb : Netpol.Engine.build objs = .ok e)
    (hb' : Netpol.Engine.build objs' = .ok e') {peers peers' : List LPeer}
    (hpl : e.peersList = .ok peers) (hpl' : e'.peersList = .ok peers') (focus : String) :
    PeersSim peers peers' ∧
    ExPerm ((e.connsBetweenPeers peers focus).map (·.map entryKey))
      ((e'.connsBetweenPeers peers' focus).map (·.map entryKey)) :=
  list_relation_perm hp hw hb hb' hpl hpl' focus

/-! ### E. the report -/

/-- **C08, part 1: the `list` report does not depend on the order of the objects.** On a
well-formed input that `build` accepts, every reordering of the objects (document order, file
layout, Go map iteration order) yields the same report: peers, connection lines,
ingress-controller lines and blocked workloads — or the same evaluation error. -/
theorem list_order_independent {objs objs' : List Obj} (hp : objs.Perm objs')
    (hw : WellFormed objs) (hi : PermIngress.IngressWF objs)
    (hok : (Netpol.Engine.build objs).isOk = true) (focus : String) :
    WorldDriver.runList objs focus = WorldDriver.runList objs' focus := by
  refine PermIngress.runList_perm hp hw hi ?_ focus
  cases h : Netpol.Engine.build objs with
  | error err => rw [h] at hok; simp [Except.isOk, Except.toBool] at hok
  | ok e => exact ⟨e, rfl⟩

/-- the well-formedness of the input does not depend on the order either (so the theorem can be
chained) -/
theorem wellFormed_order_independent {objs objs' : List Obj} (hp : objs.Perm objs')
    (hw : WellFormed objs) (hi : PermIngress.IngressWF objs) :
    WellFormed objs' ∧ PermIngress.IngressWF objs' :=
  ⟨hw.perm hp, hi.perm hp⟩

/-- inputs without Ingress / Route targets (`IngressA.targets objs = []`) need no hypothesis on
Services -/
theorem list_order_independent_no_ingress {objs objs' : List Obj} (hp : objs.Perm objs')
    (hw : WellFormed objs) (hok : (Netpol.Engine.build objs).isOk = true)
    (htg : IngressA.targets objs = []) (focus : String) :
    WorldDriver.runList objs focus = WorldDriver.runList objs' focus := by
  refine runList_perm_noIngress hp hw ?_ htg focus
  cases h : Netpol.Engine.build objs with
  | error err => rw [h] at hok; simp [Except.isOk, Except.toBool] at hok
  | ok e => exact ⟨e, rfl⟩

/-- the failing case: when `build` rejects the input and only the kind of conflict it names is
present, every order prints the same error; in general every order prints *an* error
(`build_accepts_order_independent`) that names a conflict present in the input -/
theorem list_error_order_independent {objs objs' : List Obj} (hp : objs.Perm objs') {err : Err}
    (h : Netpol.Engine.build objs = .error err)
    (hsingle : ∀ err', ErrClause err' objs → err' = err) (focus : String) :
    WorldDriver.runList objs focus = WorldDriver.runList objs' focus := by
  have h' := build_error_perm hp h hsingle
  unfold WorldDriver.runList
  rw [h, h']

/-! ### F. inside a NetworkPolicy: rules, peers, ports, policyTypes

`PermRules.ObjSim o o'`: the same object, where a NetworkPolicy may have its `policyTypes`, its
ingress and egress rule lists, and the peers and ports inside each rule permuted
(`PermRules.NpSim`); `PermRules.Forall₂ ObjSim objs objs'`: object by object, so any number of
policies may change at once. `NPRulesValid`: rule ports are port numbers, no empty rule peer.
`NoNamedPorts`: no egress rule that can select an IP block (no peers, or an `ipBlock` peer) has a
named port. `PodsReal`: no pod is the representative pod of the exposure analysis (the parser
never produces one). All decidable. -/

/-- **C08, part 2: the report does not depend on the order of rules, rule peers, rule ports and
`policyTypes` of NetworkPolicies.** No assumption on keys, Services, admin policies; `build` may
fail (then with the same error). -/
theorem np_inner_order_independent {objs objs' : List Obj}
    (h : PermRules.Forall₂ PermRules.ObjSim objs objs') (hv : PermRules.NPRulesValid objs)
    (hn : PermRules.NoNamedPorts objs) (hr : PermRules.PodsReal objs) (hpp : PodPortsValid objs)
    (focus : String) : WorldDriver.runList objs focus = WorldDriver.runList objs' focus :=
  PermRules.runList_rules_perm h hv hn hr hpp focus

/-- the sharp form, without `NoNamedPorts`: the inner order has no effect other than masking or
unmasking the one failure of the NetworkPolicy layer, a named port towards an IP block —
`allowedConns` stops at the first rule that makes the result "all connections", so a failing rule
behind it is not evaluated (`PermRules.Findings.rule_order_matters`) -/
theorem np_inner_order_independent_or {objs objs' : List Obj}
    (h : PermRules.Forall₂ PermRules.ObjSim objs objs') (hv : PermRules.NPRulesValid objs)
    (hr : PermRules.PodsReal objs) (hpp : PodPortsValid objs) (focus : String) :
    WorldDriver.runList objs focus = WorldDriver.runList objs' focus ∨
      WorldDriver.runList objs focus = WorldDriver.errSx .namedPortOnIP ∨
      WorldDriver.runList objs' focus = WorldDriver.errSx .namedPortOnIP :=
  PermRules.runList_rules_perm_or h hv hr hpp focus

/-- parts 1 and 2 together: reorder the objects, then reorder inside the NetworkPolicies -/
theorem list_order_independent_both {objs mid objs' : List Obj} (hp : objs.Perm mid)
    (h : PermRules.Forall₂ PermRules.ObjSim mid objs') (hw : WellFormed objs)
    (hi : PermIngress.IngressWF objs) (hn : PermRules.NoNamedPorts objs)
    (hok : (Netpol.Engine.build objs).isOk = true) (focus : String) :
    WorldDriver.runList objs focus = WorldDriver.runList objs' focus := by
  rw [list_order_independent hp hw hi hok focus]
  have hw' := hw.perm hp
  refine np_inner_order_independent h hw'.policies.1 ?_ ?_ hw'.ports focus
  · exact fun p hm => hn p ((npsOf_perm hp).mem_iff.mpr hm)
  · exact fun p hm => (hw'.uniform p hm p hm rfl).real

/-- the finding behind `NoNamedPorts`: one pod, one policy with the egress rules
`[⟨[], []⟩, ⟨[ipBlock 10.0.0.0/8], [named port "http"]⟩]` gives a report, the same policy with
the two rules swapped gives `(err namedPortOnIP)` -/
theorem np_rule_order_matters :
    WorldDriver.runList PermRules.Findings.worldOK "" ≠ WorldDriver.runList PermRules.Findings.worldErr "" :=
  PermRules.Findings.rule_order_matters

/-! (`Decidable` instances for `DistinctKeys`, `WellFormed`, `ConflictFree`, `IngressWF` and the
predicates of part F are in `Netpol.Proofs.PermIngress` / `Netpol.Proofs.PermRules`.) -/

/-! ### non-vacuity: a world with every kind of object -/
namespace Examples
attribute [local instance] Netpol.Engine.decEqExcept

def selAll : Selector := ⟨[], []⟩
def nsDefault : NsObj := ⟨"default", [("team", "a")]⟩
/-- three replicas requested: two pods `web-1`, `web-2` share the workload name
`default/web[Deployment]` -/
def web : Workload :=
  ⟨"Deployment", "default", "web", some 3, [("app", "web")], [⟨"http", .TCP, 8080⟩]⟩
/-- two Pod objects of one ReplicaSet, in a namespace without Namespace object -/
def db1 : Pod :=
  { ns := "prod", name := "db-x1", labels := [("app", "db")], ports := [⟨"pg", .TCP, 5432⟩],
    ownerKind := "ReplicaSet", ownerName := "db" }
def db2 : Pod := { db1 with name := "db-x2", hostIP := "10.0.0.7" }
def client : Pod := { ns := "default", name := "client", labels := [("app", "client")], ports := [] }

/-- `10.0.0.0/8` except `10.1.0.0/16` -/
def blk : NPPeer := .ip ⟨0x0A000000, 8⟩ [⟨0x0A010000, 16⟩]

/-- selects `web`: ingress from `client` on the named port `http`; egress to `blk` on TCP 443 and
to `db` in `prod` on 5432 -/
def npWeb : NetPol :=
  { ns := "default", name := "web", podSel := ⟨[("app", "web")], []⟩, types := [],
    ingress := [⟨[.sel (some ⟨[("app", "client")], []⟩) none], [⟨none, .name "http"⟩]⟩],
    egress := [⟨[blk], [⟨none, .num 443 none⟩]⟩,
      ⟨[.sel (some ⟨[("app", "db")], []⟩) (some selAll)], [⟨none, .num 5432 none⟩]⟩] }
/-- a second policy selecting `web` (the union of the two is what the NP layer computes) -/
def npWeb2 : NetPol :=
  { ns := "default", name := "web-metrics", podSel := ⟨[("app", "web")], []⟩, types := [.ingress],
    ingress := [⟨[], [⟨none, .num 9090 (some 9100)⟩]⟩], egress := [] }
/-- selects `db` in `prod`: ingress from `web` pods of namespaces labelled `team=a` on the named
port `pg` -/
def npDb : NetPol :=
  { ns := "prod", name := "db", podSel := ⟨[("app", "db")], []⟩, types := [.ingress],
    ingress := [⟨[.sel (some ⟨[("app", "web")], []⟩) (some ⟨[("team", "a")], []⟩)],
      [⟨none, .name "pg"⟩]⟩], egress := [] }
def anp1 : ANP :=
  { name := "deny-dns", prio := 9, subject := .nss selAll,
    ingress := [⟨"deny-dns", .Deny, [.nss selAll], some [.num (some .UDP) 53]⟩], egress := [] }
def anp2 : ANP :=
  { name := "pass-metrics", prio := 5, subject := .nss selAll,
    ingress := [⟨"pass", .Pass, [.nss selAll], some [.range none 9090 9100]⟩], egress := [] }
def banp : BANP :=
  { name := "default", subject := .nss selAll,
    ingress := [⟨"deny-9000", .Deny, [.nss selAll], some [.range none 9000 9100]⟩], egress := [] }

def objs : List Obj :=
  [.ns nsDefault, .wl web, .pod db1, .pod client, .np npWeb, .anp anp1, .pod db2, .np npDb,
    .banp banp, .anp anp2, .np npWeb2]

/-- the hypotheses of the theorems hold -/
example : WellFormed objs := by decide
example : (Netpol.Engine.build objs).isOk = true := by decide
example : IngressA.targets objs = [] := by decide
/-- … and are not trivially true -/
example : (podsIn objs).map podKey =
    ["default/web-1", "default/web-2", "prod/db-x1", "default/client", "prod/db-x2"] := by decide
example : (podsIn objs).map workloadName =
    ["default/web[Deployment]", "default/web[Deployment]", "prod/db[ReplicaSet]",
      "default/client[Pod]", "prod/db[ReplicaSet]"] := by decide

example : PermIngress.IngressWF objs := by decide

/-- the theorem at work: the report of the reversed input -/
example (focus : String) :
    WorldDriver.runList objs focus = WorldDriver.runList objs.reverse focus :=
  list_order_independent (List.reverse_perm objs).symm (by decide) (by decide) (by decide) focus

/-- a world with Services, an Ingress and a Route (`Netpol.PermIngress.Ex.objs`: two workloads, one
with two replicas, two Services plus a selector-less Service of the same name, a NetworkPolicy) -/
example (focus : String) :
    WorldDriver.runList PermIngress.Ex.objs focus = WorldDriver.runList PermIngress.Ex.objs.reverse focus :=
  list_order_independent (List.reverse_perm _).symm (by decide) (by decide) (by decide) focus

/-- part F on `Netpol.PermRules.Example.objs` / `objs'` (policyTypes, both rule lists, peers and
ports permuted) -/
example (focus : String) :
    WorldDriver.runList PermRules.Example.objs focus = WorldDriver.runList PermRules.Example.objs' focus :=
  np_inner_order_independent (by decide) (by decide) (by decide) (by decide) (by decide) focus

/-- what `build` makes of the two orders: different association lists, the same objects -/
example : (Netpol.Engine.build objs).map (fun e => e.pods.map podKey) =
    .ok ["default/web-1", "default/web-2", "prod/db-x1", "default/client", "prod/db-x2"] := by
  decide
example : (Netpol.Engine.build objs.reverse).map (fun e => e.pods.map podKey) =
    .ok ["prod/db-x2", "default/client", "prod/db-x1", "default/web-1", "default/web-2"] := by
  decide
example : (Netpol.Engine.build objs).map (fun e => e.netpols.map (·.name)) =
    .ok ["web", "db", "web-metrics"] := by decide
example : (Netpol.Engine.build objs.reverse).map (fun e => e.netpols.map (·.name)) =
    .ok ["web-metrics", "db", "web"] := by decide
/-- the standing pod of a workload depends on the order (`db-x2` / `db-x1`) -/
example : ((Netpol.Engine.build objs).bind (·.podOwnersMap)).map (fun o => o.map fun x => (x.1, x.2.name)) =
    .ok [("default/web[Deployment]", "web-2"), ("prod/db[ReplicaSet]", "db-x2"),
      ("default/client[Pod]", "client")] := by decide
example : ((Netpol.Engine.build objs.reverse).bind (·.podOwnersMap)).map (fun o => o.map fun x => (x.1, x.2.name)) =
    .ok [("prod/db[ReplicaSet]", "db-x1"), ("default/client[Pod]", "client"),
      ("default/web[Deployment]", "web-2")] := by decide

end Examples

/-! ### counterexamples: why each hypothesis is there

Each world below is a fixed set of objects whose report depends on the order in which the objects
are met. Since document order, file layout and Go map iteration order all feed that order, these
are candidate order dependences / nondeterminisms of the Go tool (1–3 need the input to hold two
objects with the same key in different documents; 4 and 5 only need Go's random map iteration).
The `runList` outputs in the comments were obtained with `#eval` (`decide` cannot unfold the
`mergeSort` inside `runList`); the `example`s check the decisive intermediate values. -/
namespace Counterexamples
attribute [local instance] Netpol.Engine.decEqExcept

/-- the entries between the workload peers (no IP peers), as `list` prints them -/
def podEntries (objs : List Obj) : Except Err (List (String × String × ConnSet)) := do
  let e ← Netpol.Engine.build objs
  let owners ← e.podOwnersMap
  let entries ← e.connsBetweenPeers (owners.map fun (n, p) => LPeer.wl n p) ""
  pure (entries.map entryKey)

def podB : Pod := { ns := "default", name := "b", labels := [], ports := [] }

/-! 1. two Pod objects with the same namespace/name and different labels: the later one wins.
`runList ce1 ""` has the line `default/b[Pod] default/a[Pod] All_Connections`, `runList ce1' ""`
has not (6 lines against 4). -/
def podA1 : Pod := { ns := "default", name := "a", labels := [("app", "x")], ports := [] }
def podA2 : Pod := { ns := "default", name := "a", labels := [("app", "y")], ports := [] }
/-- selects `app=x`, no ingress allowed -/
def npX : NetPol :=
  { ns := "default", name := "np", podSel := ⟨[("app", "x")], []⟩, types := [.ingress],
    ingress := [], egress := [] }
def ce1 : List Obj := [.pod podA1, .pod podA2, .pod podB, .np npX]
def ce1' : List Obj := [.pod podA2, .pod podA1, .pod podB, .np npX]
example : ce1.Perm ce1' := List.Perm.swap _ _ _
example : ¬ DistinctKeys ce1 := by decide
example : (Netpol.Engine.build ce1).map (·.pods) = .ok [podA2, podB] ∧
    (Netpol.Engine.build ce1').map (·.pods) = .ok [podA1, podB] := by decide
example : podEntries ce1 = .ok [("default/a[Pod]", "default/b[Pod]", ConnSet.mk' true),
      ("default/b[Pod]", "default/a[Pod]", ConnSet.mk' true)] ∧
    podEntries ce1' = .ok [("default/a[Pod]", "default/b[Pod]", ConnSet.mk' true)] := by decide

/-! 2. two Namespace objects with the same name and different labels: the later one wins.
`runList ce2 ""` has 2 lines (only towards the IP range), `runList ce2' ""` has 4. -/
def ns1 : NsObj := ⟨"default", [("t", "1")]⟩
def ns2 : NsObj := ⟨"default", [("t", "2")]⟩
/-- every pod of `default`: ingress only from namespaces labelled `t=1` -/
def npNs : NetPol :=
  { ns := "default", name := "np", podSel := ⟨[], []⟩, types := [.ingress],
    ingress := [⟨[.sel none (some ⟨[("t", "1")], []⟩)], []⟩], egress := [] }
def ce2 : List Obj := [.ns ns1, .ns ns2, .pod podA1, .pod podB, .np npNs]
def ce2' : List Obj := [.ns ns2, .ns ns1, .pod podA1, .pod podB, .np npNs]
example : ce2.Perm ce2' := List.Perm.swap _ _ _
example : ¬ DistinctKeys ce2 := by decide
example : (Netpol.Engine.build ce2).map (fun e => e.namespaces.map (·.labels.get? "t")) = .ok [some "2"] ∧
    (Netpol.Engine.build ce2').map (fun e => e.namespaces.map (·.labels.get? "t")) = .ok [some "1"] := by
  decide
example : podEntries ce2 = .ok [] ∧
    podEntries ce2' = .ok [("default/a[Pod]", "default/b[Pod]", ConnSet.mk' true),
      ("default/b[Pod]", "default/a[Pod]", ConnSet.mk' true)] := by decide

/-! 3. a Pod object named like the pod generated from a workload (`web-1`): the peers themselves
differ — `default/web-1[Pod]` against `default/web[Deployment]`. -/
def wlWeb : Workload := ⟨"Deployment", "default", "web", some 1, [("app", "web")], []⟩
def podWeb1 : Pod := { ns := "default", name := "web-1", labels := [("app", "other")], ports := [] }
def ce3 : List Obj := [.wl wlWeb, .pod podWeb1, .pod podB]
def ce3' : List Obj := [.pod podWeb1, .wl wlWeb, .pod podB]
example : ce3.Perm ce3' := List.Perm.swap _ _ _
example : ¬ DistinctKeys ce3 := by decide
example : ((Netpol.Engine.build ce3).bind (·.podOwnersMap)).map (fun o => o.map (·.1)) =
      .ok ["default/web-1[Pod]", "default/b[Pod]"] ∧
    ((Netpol.Engine.build ce3').bind (·.podOwnersMap)).map (fun o => o.map (·.1)) =
      .ok ["default/web[Deployment]", "default/b[Pod]"] := by decide

/-! 4. **two pods of one owner with the same labels and different container ports.** Keys are
distinct, `createPodOwnersMap` accepts the input (it compares labels only), but the report is
computed on the pod met last, and a named port resolves on that pod's container ports:
`runList ce4 ""` has `default/b[Pod] default/rs[ReplicaSet] TCP_8080`, `runList ce4' ""` has
`default/b[Pod] default/rs[ReplicaSet] TCP_80`. In the Go code the pods are iterated from a Go map,
so this is a candidate run-to-run nondeterminism on one and the same input. -/
def podO1 : Pod :=
  { ns := "default", name := "o1", labels := [("app", "o")], ports := [⟨"http", .TCP, 80⟩],
    ownerKind := "ReplicaSet", ownerName := "rs" }
def podO2 : Pod :=
  { ns := "default", name := "o2", labels := [("app", "o")], ports := [⟨"http", .TCP, 8080⟩],
    ownerKind := "ReplicaSet", ownerName := "rs" }
/-- selects `app=o`: ingress on the named port `http` -/
def npNamed : NetPol :=
  { ns := "default", name := "np", podSel := ⟨[("app", "o")], []⟩, types := [.ingress],
    ingress := [⟨[], [⟨none, .name "http"⟩]⟩], egress := [] }
def ce4 : List Obj := [.pod podO1, .pod podO2, .pod podB, .np npNamed]
def ce4' : List Obj := [.pod podO2, .pod podO1, .pod podB, .np npNamed]
example : ce4.Perm ce4' := List.Perm.swap _ _ _
/-- all hypotheses but uniformity hold -/
example : DistinctKeys ce4 ∧ PodPortsValid ce4 ∧ PoliciesValid ce4 ∧ ¬ UniformPods (podsIn ce4) := by
  decide
example : (Netpol.Engine.build ce4).isOk = true := by decide
example : podEntries ce4 = .ok [
      ("default/rs[ReplicaSet]", "default/b[Pod]", ConnSet.mk' true),
      ("default/b[Pod]", "default/rs[ReplicaSet]", ⟨false, some ⟨[⟨8080, 8080⟩], [], []⟩, none, none⟩)] ∧
    podEntries ce4' = .ok [
      ("default/rs[ReplicaSet]", "default/b[Pod]", ConnSet.mk' true),
      ("default/b[Pod]", "default/rs[ReplicaSet]", ⟨false, some ⟨[⟨80, 80⟩], [], []⟩, none, none⟩)] := by
  decide

/-! 5. two different evaluation errors are present (a named port towards an IP block, a rule peer
with neither selector nor ipBlock): the loop reports the first one it meets, which depends on the
order of the pod map. `runList ce5 ""` is `(err namedPortOnIP)`, `runList ce5' ""` is
`(err emptyRulePeer)`. (Both runs fail; the message differs. `PoliciesValid` excludes the second
error, so that `namedPortOnIP` is the only one left.) -/
def podA : Pod := { ns := "default", name := "a", labels := [("app", "a")], ports := [] }
def podB' : Pod := { ns := "default", name := "b", labels := [("app", "b")], ports := [] }
def npNamedIP : NetPol :=
  { ns := "default", name := "n1", podSel := ⟨[("app", "a")], []⟩, types := [.egress], ingress := [],
    egress := [⟨[], [⟨none, .name "http"⟩]⟩] }
def npEmptyPeer : NetPol :=
  { ns := "default", name := "n2", podSel := ⟨[("app", "b")], []⟩, types := [.egress], ingress := [],
    egress := [⟨[.sel none none], []⟩] }
def ce5 : List Obj := [.pod podA, .pod podB', .np npNamedIP, .np npEmptyPeer]
def ce5' : List Obj := [.pod podB', .pod podA, .np npNamedIP, .np npEmptyPeer]
example : ce5.Perm ce5' := List.Perm.swap _ _ _
example : DistinctKeys ce5 ∧ UniformPods (podsIn ce5) ∧ PodPortsValid ce5 ∧ ¬ PoliciesValid ce5 := by
  decide
/-- the loop over the whole address space as IP peer and the two pods, in the two orders -/
def loop5 (objs : List Obj) : Except Err (List (String × String × ConnSet)) := do
  let e ← Netpol.Engine.build objs
  let owners ← e.podOwnersMap
  let entries ← e.connsBetweenPeers (LPeer.ip ⟨0, ipMax⟩ :: owners.map fun (n, p) => LPeer.wl n p) ""
  pure (entries.map entryKey)
example : loop5 ce5 = .error .namedPortOnIP ∧ loop5 ce5' = .error .emptyRulePeer := by decide

/-! 6. `build`: two kinds of conflict are present, the first one met is reported.
`runList ce6 ""` is `(err dupNetpol)`, `runList ce6' ""` is `(err dupANP)`. -/
def npP : NetPol := ⟨"default", "p", ⟨[], []⟩, [], [], []⟩
def anpA : ANP := ⟨"a", 5, .nss ⟨[], []⟩, [], []⟩
def anpA' : ANP := ⟨"a", 6, .nss ⟨[], []⟩, [], []⟩
def ce6 : List Obj := [.np npP, .np npP, .anp anpA, .anp anpA']
def ce6' : List Obj := [.anp anpA, .anp anpA', .np npP, .np npP]
example : ce6.Perm ce6' :=
  List.perm_append_comm (l₁ := [Obj.np npP, Obj.np npP]) (l₂ := [Obj.anp anpA, Obj.anp anpA'])
example : (Netpol.Engine.build ce6).map (fun _ => ()) = .error .dupNetpol ∧
    (Netpol.Engine.build ce6').map (fun _ => ()) = .error .dupANP := by decide
/-- both kinds of conflict are present, as `build_error_names_present_conflict` says -/
example : ErrClause .dupNetpol ce6 ∧ ErrClause .dupANP ce6 := by
  constructor <;> (simp only [ErrClause]; decide)

/-! 7. **a rule port outside 1..65535** (the API server rejects it, a YAML file can hold it): the
union over the selecting policies recognises "all connections" only on the exact range 1-65535, so
whether the stray port 70000 is absorbed depends on the order of the policies — in Go the order of
a map iteration. `runList ce7 "b"` has `default/b[Pod] default/a[Pod] All_Connections`,
`runList ce7' "b"` has `default/b[Pod] default/a[Pod] SCTP_1-65535,TCP_1-65535,70000,UDP_1-65535`. -/
def sa : Selector := ⟨[("app", "a")], []⟩
def fullPort (pr : Proto) : NPPort := ⟨some pr, .num 1 (some 65535)⟩
def npX1 : NetPol :=
  { ns := "default", name := "x1", podSel := sa, types := [.ingress],
    ingress := [⟨[], [fullPort .TCP, fullPort .UDP]⟩], egress := [] }
def npX2 : NetPol :=
  { ns := "default", name := "x2", podSel := sa, types := [.ingress],
    ingress := [⟨[], [fullPort .SCTP]⟩], egress := [] }
def npY : NetPol :=
  { ns := "default", name := "y", podSel := sa, types := [.ingress],
    ingress := [⟨[], [⟨none, .num 70000 none⟩]⟩], egress := [] }
def ce7 : List Obj := [.pod podA, .pod podB', .np npX1, .np npX2, .np npY]
def ce7' : List Obj := [.pod podA, .pod podB', .np npY, .np npX1, .np npX2]
example : ce7.Perm ce7' :=
  (List.perm_append_comm (l₁ := [Obj.np npX1, Obj.np npX2]) (l₂ := [Obj.np npY])).append_left
    [Obj.pod podA, Obj.pod podB']
example : DistinctKeys ce7 ∧ UniformPods (podsIn ce7) ∧ PodPortsValid ce7 ∧ ¬ PoliciesValid ce7 := by
  decide
def fullSet : PortSet := ⟨[⟨1, 65535⟩], [], []⟩
example : podEntries ce7 = .ok [("default/a[Pod]", "default/b[Pod]", ConnSet.mk' true),
      ("default/b[Pod]", "default/a[Pod]", ConnSet.mk' true)] ∧
    podEntries ce7' = .ok [("default/a[Pod]", "default/b[Pod]", ConnSet.mk' true),
      ("default/b[Pod]", "default/a[Pod]",
        ⟨false, some ⟨[⟨1, 65535⟩, ⟨70000, 70000⟩], [], []⟩, some fullSet, some fullSet⟩)] := by
  decide

/-! 8. the same through a **container port outside 1..65535** that a named rule port resolves to:
`runList ce8 "b"` / `runList ce8' "b"` differ exactly as in 7. -/
def podA8 : Pod := { podA with ports := [⟨"big", .TCP, 70000⟩] }
def npYNamed : NetPol := { npY with ingress := [⟨[], [⟨none, .name "big"⟩]⟩] }
def ce8 : List Obj := [.pod podA8, .pod podB', .np npX1, .np npX2, .np npYNamed]
def ce8' : List Obj := [.pod podA8, .pod podB', .np npYNamed, .np npX1, .np npX2]
example : ce8.Perm ce8' :=
  (List.perm_append_comm (l₁ := [Obj.np npX1, Obj.np npX2]) (l₂ := [Obj.np npYNamed])).append_left
    [Obj.pod podA8, Obj.pod podB']
example : DistinctKeys ce8 ∧ UniformPods (podsIn ce8) ∧ PoliciesValid ce8 ∧ ¬ PodPortsValid ce8 := by
  decide
example : podEntries ce8 = .ok [("default/a[Pod]", "default/b[Pod]", ConnSet.mk' true),
      ("default/b[Pod]", "default/a[Pod]", ConnSet.mk' true)] ∧
    podEntries ce8' = .ok [("default/a[Pod]", "default/b[Pod]", ConnSet.mk' true),
      ("default/b[Pod]", "default/a[Pod]",
        ⟨false, some ⟨[⟨1, 65535⟩, ⟨70000, 70000⟩], [], []⟩, some fullSet, some fullSet⟩)] := by
  decide

end Counterexamples

end Netpol.Properties.C08.Engine
